/-
  C10 (logic component), composer glue: what `appendLogicComponent pairs a b isXor` appends
  (layout of the loop `go`, the closing row, the two truncation bindings), the meaning of the
  appended rows under an arbitrary assignment, soundness and completeness.

  Math-level ingredients: `LogicRows.lean` (widget table, accumulator chain), `TruncMath.lean`
  (split uniqueness, canonical guard); glue of the primitives: `Arith.lean`, `Range.lean`.
-/
import Mathlib.Tactic.Ring
import Mathlib.Tactic.LinearCombination
import Plonk.Proofs.Arith
import Plonk.Proofs.Range
import Plonk.Proofs.LogicRows
import Plonk.Proofs.TruncMath
import Plonk.Proofs.Trunc

namespace Plonk
open Plonk Plonk.Composer

namespace Composer

/-! ### the loop `go`: one step -/

/-- state after one iteration of the loop: four witnesses (the three new accumulators and the
    product of the two input quads) and one logic gate whose product wire is the new witness -/
def logicStep (pairs : Nat) (isXor : Bool) (av bv i : Nat) (s : Constraint) (la ra oa : Nat)
    (c : Composer) : Composer :=
  { gates := c.gates.push ({ s with c := c.wit.size + 2 } : Constraint).toGate,
    wit := (((c.wit.push (fadd (fmul la 4) (quadFromTop av pairs i) % R)).push
        (fadd (fmul ra 4) (quadFromTop bv pairs i) % R)).push
        ((quadFromTop av pairs i * quadFromTop bv pairs i) % R)).push
        (fadd (fmul oa 4) (logicOp isXor (quadFromTop av pairs i) (quadFromTop bv pairs i)) % R),
    pis := c.pis }

theorem logicGo_zero (pairs : Nat) (isXor : Bool) (av bv i : Nat) (s : Constraint)
    (la ra oa : Nat) (c : Composer) :
    (appendLogicComponent.go pairs isXor av bv 0 i s la ra oa).run c = (s, c) := by
  unfold appendLogicComponent.go; rfl

theorem logicGo_succ (pairs : Nat) (isXor : Bool) (av bv k i : Nat) (s : Constraint)
    (la ra oa : Nat) (c : Composer) (hs : s.hasPi = false) :
    (appendLogicComponent.go pairs isXor av bv (k+1) i s la ra oa).run c =
      (appendLogicComponent.go pairs isXor av bv k (i+1)
        { s with a := c.wit.size, b := c.wit.size + 1, c := c.wit.size + 2, d := c.wit.size + 3 }
        (fadd (fmul la 4) (quadFromTop av pairs i)) (fadd (fmul ra 4) (quadFromTop bv pairs i))
        (fadd (fmul oa 4) (logicOp isXor (quadFromTop av pairs i) (quadFromTop bv pairs i)))).run
        (logicStep pairs isXor av bv i s la ra oa c) := by
  conv_lhs => unfold appendLogicComponent.go
  simp only [bind, StateT.bind, StateT.run, appendWitness, appendCustomGate, hs, logicStep, logicOp]
  simp [Nat.add_assoc]

theorem logicStep_wit (pairs : Nat) (isXor : Bool) (av bv i : Nat) (s : Constraint)
    (la ra oa : Nat) (c : Composer) :
    (logicStep pairs isXor av bv i s la ra oa c).wit = c.wit ++
      #[fadd (fmul la 4) (quadFromTop av pairs i) % R, fadd (fmul ra 4) (quadFromTop bv pairs i) % R,
        (quadFromTop av pairs i * quadFromTop bv pairs i) % R,
        fadd (fmul oa 4) (logicOp isXor (quadFromTop av pairs i) (quadFromTop bv pairs i)) % R] := by
  simp only [logicStep]; rw [← Array.toList_inj]; simp

theorem logicStep_extends (pairs : Nat) (isXor : Bool) (av bv i : Nat) (s : Constraint)
    (la ra oa : Nat) (c : Composer) : Extends c (logicStep pairs isXor av bv i s la ra oa c) := by
  refine extends_of_append #[({ s with c := c.wit.size + 2 } : Constraint).toGate]
    #[fadd (fmul la 4) (quadFromTop av pairs i) % R, fadd (fmul ra 4) (quadFromTop bv pairs i) % R,
      (quadFromTop av pairs i * quadFromTop bv pairs i) % R,
      fadd (fmul oa 4) (logicOp isXor (quadFromTop av pairs i) (quadFromTop bv pairs i)) % R]
    ?_ ?_ rfl
  · simp [logicStep]
  · exact logicStep_wit ..

@[simp] theorem logicStep_gates_size (pairs : Nat) (isXor : Bool) (av bv i : Nat) (s : Constraint)
    (la ra oa : Nat) (c : Composer) :
    (logicStep pairs isXor av bv i s la ra oa c).gates.size = c.gates.size + 1 := by
  simp [logicStep]

@[simp] theorem logicStep_wit_size (pairs : Nat) (isXor : Bool) (av bv i : Nat) (s : Constraint)
    (la ra oa : Nat) (c : Composer) :
    (logicStep pairs isXor av bv i s la ra oa c).wit.size = c.wit.size + 4 := by
  simp [logicStep]

/-! ### the loop `go`: layout -/

/-- wire slot `off` of row `j` of the loop: the wire the loop was entered with for `j = 0`,
    else the witness allocated at step `j − 1` -/
def lslot (W prev off j : Nat) : Nat := if j = 0 then prev else W + 4 * (j - 1) + off

@[simp] theorem lslot_zero (W prev off : Nat) : lslot W prev off 0 = prev := rfl
theorem lslot_succ (W prev off j : Nat) : lslot W prev off (j + 1) = W + 4 * j + off := by
  simp [lslot]

/-- the gate of a loop row: selectors of `s`, explicit wires -/
def lgate (s : Constraint) (a b c d : Nat) : Gate :=
  ({ s with a := a, b := b, c := c, d := d } : Constraint).toGate

/-- **layout of the loop.** `k` iterations from the state `c` append `k` gates and `4k`
    witnesses, no public input; row `j` has the selectors of `s`, the product wire
    `W + 4j + 2` and the accumulator wires *before* quad `j`; the returned constraint carries
    the accumulator wires after the last quad. -/
theorem logicGo_layout (pairs : Nat) (isXor : Bool) (av bv : Nat) (k : Nat) :
    ∀ (i : Nat) (s : Constraint) (la ra oa : Nat) (c : Composer), s.hasPi = false →
      Extends c ((appendLogicComponent.go pairs isXor av bv k i s la ra oa).run c).2 ∧
      ((appendLogicComponent.go pairs isXor av bv k i s la ra oa).run c).2.gates.size
        = c.gates.size + k ∧
      ((appendLogicComponent.go pairs isXor av bv k i s la ra oa).run c).2.wit.size
        = c.wit.size + 4 * k ∧
      ((appendLogicComponent.go pairs isXor av bv k i s la ra oa).run c).2.pis = c.pis ∧
      (∀ j, j < k →
        ((appendLogicComponent.go pairs isXor av bv k i s la ra oa).run c).2.gates[c.gates.size + j]?
          = some (lgate s (lslot c.wit.size s.a 0 j) (lslot c.wit.size s.b 1 j)
              (c.wit.size + 4 * j + 2) (lslot c.wit.size s.d 3 j))) ∧
      ((appendLogicComponent.go pairs isXor av bv k i s la ra oa).run c).1.a
        = lslot c.wit.size s.a 0 k ∧
      ((appendLogicComponent.go pairs isXor av bv k i s la ra oa).run c).1.b
        = lslot c.wit.size s.b 1 k ∧
      ((appendLogicComponent.go pairs isXor av bv k i s la ra oa).run c).1.d
        = lslot c.wit.size s.d 3 k := by
  induction k with
  | zero =>
    intro i s la ra oa c _
    rw [logicGo_zero]
    exact ⟨Extends.refl c, rfl, rfl, rfl, fun j hj => absurd hj (Nat.not_lt_zero _), rfl, rfl, rfl⟩
  | succ k ih =>
    intro i s la ra oa c hs
    rw [logicGo_succ _ _ _ _ _ _ _ _ _ _ _ hs]
    have hstep := logicStep_extends pairs isXor av bv i s la ra oa c
    obtain ⟨h1, h2, h3, h4, h5, h6, h7, h8⟩ := ih (i + 1)
      { s with a := c.wit.size, b := c.wit.size + 1, c := c.wit.size + 2, d := c.wit.size + 3 }
      (fadd (fmul la 4) (quadFromTop av pairs i)) (fadd (fmul ra 4) (quadFromTop bv pairs i))
      (fadd (fmul oa 4) (logicOp isXor (quadFromTop av pairs i) (quadFromTop bv pairs i)))
      (logicStep pairs isXor av bv i s la ra oa c) hs
    rw [logicStep_gates_size] at h2 h5
    rw [logicStep_wit_size] at h3 h5 h6 h7 h8
    refine ⟨hstep.trans h1, by rw [h2]; omega, by rw [h3]; omega, by rw [h4]; rfl, ?_, ?_, ?_, ?_⟩
    · intro j hj
      rcases j with _ | j
      · rw [Nat.add_zero, h1.gates_prefix _ (by rw [logicStep_gates_size]; omega)]
        simp [logicStep, lgate]
      · have := h5 j (by omega)
        rw [show c.gates.size + (j + 1) = c.gates.size + 1 + j by omega, this, lslot_succ,
          lslot_succ, lslot_succ]
        congr 1
        rcases j with _ | j
        · simp [lgate, lslot]
        · simp only [lgate, lslot_succ, Constraint.toGate]
          congr 1 <;> omega
    · rw [h6, lslot_succ]; rcases k with _ | k
      · simp
      · rw [lslot_succ]; omega
    · rw [h7, lslot_succ]; rcases k with _ | k
      · simp
      · rw [lslot_succ]; omega
    · rw [h8, lslot_succ]; rcases k with _ | k
      · simp
      · rw [lslot_succ]; omega

/-! ### the loop `go`: the honest witness values -/

theorem logicOp_quad_lt (isXor : Bool) {q r : Nat} (hq : q < 4) (hr : r < 4) :
    logicOp isXor q r < 4 := logicOp_lt isXor (n := 1) (by simpa using hq) (by simpa using hr)

/-- **values of the loop** (`pairs ≤ 127`, so that nothing wraps): entered with the honest
    accumulators of the top `i` quads, the loop stores at step `j` the accumulators of the top
    `i + j + 1` quads of `av`, `bv`, `op av bv`, and the product of the two input quads. -/
theorem logicGo_vals (pairs : Nat) (isXor : Bool) (av bv : Nat) (hp : pairs ≤ 127) (k : Nat) :
    ∀ (i : Nat) (s : Constraint) (la ra oa : Nat) (c : Composer), s.hasPi = false →
      i + k ≤ pairs → la = topQuads av pairs i → ra = topQuads bv pairs i →
      oa = topQuads (logicOp isXor av bv) pairs i →
      ∀ j, j < k →
        ((appendLogicComponent.go pairs isXor av bv k i s la ra oa).run c).2.val
            (c.wit.size + 4 * j) = topQuads av pairs (i + j + 1) ∧
        ((appendLogicComponent.go pairs isXor av bv k i s la ra oa).run c).2.val
            (c.wit.size + 4 * j + 1) = topQuads bv pairs (i + j + 1) ∧
        ((appendLogicComponent.go pairs isXor av bv k i s la ra oa).run c).2.val
            (c.wit.size + 4 * j + 2) = quadFromTop av pairs (i + j) * quadFromTop bv pairs (i + j) ∧
        ((appendLogicComponent.go pairs isXor av bv k i s la ra oa).run c).2.val
            (c.wit.size + 4 * j + 3) = topQuads (logicOp isXor av bv) pairs (i + j + 1) := by
  induction k with
  | zero => intro i s la ra oa c _ _ _ _ _ j hj; exact absurd hj (Nat.not_lt_zero _)
  | succ k ih =>
    intro i s la ra oa c hs hik hla hra hoa j hj
    rw [logicGo_succ _ _ _ _ _ _ _ _ _ _ _ hs]
    have e1 : fadd (fmul la 4) (quadFromTop av pairs i) = topQuads av pairs (i + 1) := by
      rw [hla]; exact topQuads_succ_model av pairs i (by omega) (by omega)
    have e2 : fadd (fmul ra 4) (quadFromTop bv pairs i) = topQuads bv pairs (i + 1) := by
      rw [hra]; exact topQuads_succ_model bv pairs i (by omega) (by omega)
    have e3 : fadd (fmul oa 4) (logicOp isXor (quadFromTop av pairs i) (quadFromTop bv pairs i))
        = topQuads (logicOp isXor av bv) pairs (i + 1) := by
      rw [hoa, ← quadFromTop_logicOp]
      exact topQuads_succ_model _ pairs i (by omega) (by omega)
    have hlay := logicGo_layout pairs isXor av bv k (i + 1)
      { s with a := c.wit.size, b := c.wit.size + 1, c := c.wit.size + 2, d := c.wit.size + 3 }
      (fadd (fmul la 4) (quadFromTop av pairs i)) (fadd (fmul ra 4) (quadFromTop bv pairs i))
      (fadd (fmul oa 4) (logicOp isXor (quadFromTop av pairs i) (quadFromTop bv pairs i)))
      (logicStep pairs isXor av bv i s la ra oa c) hs
    rcases j with _ | j
    · have hw := logicStep_wit pairs isXor av bv i s la ra oa c
      have hR : 4 ^ (i + 1) < R :=
        lt_of_le_of_lt (Nat.pow_le_pow_right (by norm_num) (by omega)) four_pow_127_lt_R
      have b1 := topQuads_lt av pairs (i + 1)
      have b2 := topQuads_lt bv pairs (i + 1)
      have b3 := topQuads_lt (logicOp isXor av bv) pairs (i + 1)
      have b4 : quadFromTop av pairs i * quadFromTop bv pairs i < R := by
        have h1 := quadFromTop_lt av pairs i
        have h2 := quadFromTop_lt bv pairs i
        have : quadFromTop av pairs i * quadFromTop bv pairs i ≤ 3 * 3 := Nat.mul_le_mul (by omega) (by omega)
        have := four_lt_R
        have : 4 ^ 127 < R := four_pow_127_lt_R
        omega
      have v0 := val_of_wit_append hw 0
      have v1 := val_of_wit_append hw 1
      have v2 := val_of_wit_append hw 2
      have v3 := val_of_wit_append hw 3
      simp only [Nat.add_zero, Nat.mul_zero]
      rw [hlay.1.val_eq (by rw [logicStep_wit_size]; omega),
        hlay.1.val_eq (by rw [logicStep_wit_size]; omega),
        hlay.1.val_eq (by rw [logicStep_wit_size]; omega),
        hlay.1.val_eq (by rw [logicStep_wit_size]; omega)]
      rw [Nat.add_zero] at v0
      rw [v0, v1, v2, v3, e1, e2, e3]
      refine ⟨?_, ?_, ?_, ?_⟩
      · simpa using Nat.mod_eq_of_lt (by omega)
      · simpa using Nat.mod_eq_of_lt (by omega)
      · simpa using Nat.mod_eq_of_lt b4
      · simpa using Nat.mod_eq_of_lt (by omega)
    · have := ih (i + 1)
        { s with a := c.wit.size, b := c.wit.size + 1, c := c.wit.size + 2, d := c.wit.size + 3 }
        (fadd (fmul la 4) (quadFromTop av pairs i)) (fadd (fmul ra 4) (quadFromTop bv pairs i))
        (fadd (fmul oa 4) (logicOp isXor (quadFromTop av pairs i) (quadFromTop bv pairs i)))
        (logicStep pairs isXor av bv i s la ra oa c) hs (by omega) e1 e2 e3 j (by omega)
      rw [logicStep_wit_size] at this
      have ea : c.wit.size + 4 * (j + 1) = c.wit.size + 4 + 4 * j := by omega
      have ei : i + (j + 1) + 1 = i + 1 + j + 1 := by omega
      have ei' : i + (j + 1) = i + 1 + j := by omega
      rw [ea, ei, ei']
      exact this

/-! ### row semantics of a logic gate and of the closing gate -/

/-- a row carrying only the logic selector (`q_logic ≠ 0`, `q_arith = 0`, no public input) holds
    iff the five logic components vanish -/
theorem rowHolds_logicGate (g : Gate) (hq : (g.qlogic == 0) = false) (ha : g.qarith = 0)
    (hr : g.qrange = 0) (hf : g.qfixed = 0) (hv : g.qvar = 0) (a b c d an bn dn : Nat) :
    rowHolds g a b c d an bn dn 0 = allZero (logicComps g.qc a an b bn c d dn) := by
  have h0 : arithVal g a b c d 0 = 0 := by
    rw [arithVal_eq_zero]; unfold arithF; simp [ha]
  unfold rowHolds
  simp [hr, hf, hv, h0, hq]

/-- the base constraint of the loop -/
def logicBase (isXor : Bool) : Constraint :=
  if isXor then Constraint.logicXor {} else Constraint.logic {}

theorem logicBase_hasPi (isXor : Bool) : (logicBase isXor).hasPi = false := by
  cases isXor <;> rfl

theorem R_sub_one_beq_zero : (R - 1 == 0) = false := by decide +kernel

theorem toF_logicBase_qc (isXor : Bool) : toF (logicBase isXor).qc = logicQc isXor := by
  cases isXor
  · exact toF_logic_qc
  · exact toF_logicXor_qc

/-- a loop row holds iff the five field equations of the widget hold -/
theorem rowHolds_lgate (isXor : Bool) (wa wb wc wd a b c d an bn dn : Nat) :
    rowHolds (lgate (logicBase isXor) wa wb wc wd) a b c d an bn dn 0 = true ↔
      logicRowF (logicQc isXor) (toF a) (toF an) (toF b) (toF bn) (toF c) (toF d) (toF dn) := by
  have hqc : (lgate (logicBase isXor) wa wb wc wd).qc = (logicBase isXor).qc := rfl
  rw [rowHolds_logicGate _ (by cases isXor; rfl; exact R_sub_one_beq_zero)
    (by cases isXor <;> rfl) (by cases isXor <;> rfl) (by cases isXor <;> rfl)
    (by cases isXor <;> rfl), logicComps_zero_iff_row, hqc, toF_logicBase_qc]

/-- the closing row of a component: all selectors zero, three wires -/
def logicCloseGate (a b d : Nat) : Gate := ({ a := a, b := b, d := d } : Constraint).toGate

theorem logicCloseGate_plain (a b d : Nat) : Gate.plain (logicCloseGate a b d) :=
  ⟨rfl, rfl, rfl, rfl⟩

theorem rowHolds_logicCloseGate (wa wb wd a b c d an bn dn : Nat) :
    rowHolds (logicCloseGate wa wb wd) a b c d an bn dn 0 = true := by
  rw [rowHolds_arith _ rfl rfl rfl rfl]
  unfold arithF logicCloseGate
  simp [Constraint.toGate]

/-! ### the component: straight-line description -/

/-- result of the loop of `append_logic_component` entered from the state `c` -/
def logicLoop (pairs a b : Nat) (isXor : Bool) (c : Composer) : Constraint × Composer :=
  (appendLogicComponent.go pairs isXor (c.val a) (c.val b) pairs 0 (logicBase isXor) 0 0 0).run c

/-- state after the loop and the closing row -/
def logicCore (pairs a b : Nat) (isXor : Bool) (c : Composer) : Composer :=
  ((appendCustomGate
      { a := (logicLoop pairs a b isXor c).1.a,
        b := (logicLoop pairs a b isXor c).1.b,
        d := (logicLoop pairs a b isXor c).1.d }).run (logicLoop pairs a b isXor c).2).2

theorem appendLogicComponent_run_pos (pairs a b : Nat) (isXor : Bool) (c : Composer)
    (hp : pairs ≠ 0) :
    (appendLogicComponent pairs a b isXor).run c =
      ((logicLoop pairs a b isXor c).1.d,
          ((bindTruncationSplit b (logicLoop pairs a b isXor c).1.b (pairs * 2)).run
            ((bindTruncationSplit a (logicLoop pairs a b isXor c).1.a (pairs * 2)).run
              (logicCore pairs a b isXor c)).2).2) := by
  have h : (pairs != 0) = true := by simpa using hp
  unfold appendLogicComponent
  rw [run_bind', getVal_run, run_bind', getVal_run, run_bind', run_bind']
  simp only [h, if_true]
  rw [run_bind', run_bind']
  rfl

theorem appendLogicComponent_run_zero (pairs a b : Nat) (isXor : Bool) (c : Composer)
    (hp : pairs = 0) :
    (appendLogicComponent pairs a b isXor).run c =
      ((logicLoop pairs a b isXor c).1.d, logicCore pairs a b isXor c) := by
  have h : (pairs != 0) = false := by simpa using hp
  unfold appendLogicComponent
  rw [run_bind', getVal_run, run_bind', getVal_run, run_bind', run_bind']
  simp only [h]
  rfl

/-! ### layout of the loop and the closing row -/

theorem logicBase_a (isXor : Bool) : (logicBase isXor).a = 0 := by cases isXor <;> rfl
theorem logicBase_b (isXor : Bool) : (logicBase isXor).b = 0 := by cases isXor <;> rfl
theorem logicBase_d (isXor : Bool) : (logicBase isXor).d = 0 := by cases isXor <;> rfl

/-- accumulator wire of the left input after `j` quads (the zero witness for `j = 0`) -/
def logicWireA (W j : Nat) : Nat := lslot W 0 0 j
/-- accumulator wire of the right input after `j` quads -/
def logicWireB (W j : Nat) : Nat := lslot W 0 1 j
/-- accumulator wire of the output after `j` quads -/
def logicWireD (W j : Nat) : Nat := lslot W 0 3 j

theorem logicLoop_spec (pairs a b : Nat) (isXor : Bool) (c : Composer) :
    Extends c (logicLoop pairs a b isXor c).2 ∧
    (logicLoop pairs a b isXor c).2.gates.size = c.gates.size + pairs ∧
    (logicLoop pairs a b isXor c).2.wit.size = c.wit.size + 4 * pairs ∧
    (logicLoop pairs a b isXor c).2.pis = c.pis ∧
    (∀ j, j < pairs → (logicLoop pairs a b isXor c).2.gates[c.gates.size + j]? =
      some (lgate (logicBase isXor) (logicWireA c.wit.size j) (logicWireB c.wit.size j)
        (c.wit.size + 4 * j + 2) (logicWireD c.wit.size j))) ∧
    (logicLoop pairs a b isXor c).1.a = logicWireA c.wit.size pairs ∧
    (logicLoop pairs a b isXor c).1.b = logicWireB c.wit.size pairs ∧
    (logicLoop pairs a b isXor c).1.d = logicWireD c.wit.size pairs := by
  have h := logicGo_layout pairs isXor (c.val a) (c.val b) pairs 0 (logicBase isXor) 0 0 0 c
    (logicBase_hasPi isXor)
  rw [logicBase_a, logicBase_b, logicBase_d] at h
  exact h

theorem logicCore_eq (pairs a b : Nat) (isXor : Bool) (c : Composer) :
    logicCore pairs a b isXor c =
      { gates := (logicLoop pairs a b isXor c).2.gates.push
          (logicCloseGate (logicWireA c.wit.size pairs) (logicWireB c.wit.size pairs)
            (logicWireD c.wit.size pairs)),
        wit := (logicLoop pairs a b isXor c).2.wit,
        pis := (logicLoop pairs a b isXor c).2.pis } := by
  obtain ⟨-, -, -, -, -, h6, h7, h8⟩ := logicLoop_spec pairs a b isXor c
  unfold logicCore
  rw [h6, h7, h8]
  rfl

/-- **layout of the loop plus closing row**: `pairs + 1` gates, `4·pairs` witnesses, no public
    input; row `j < pairs` is a logic row on the accumulators before quad `j` and the product
    wire `W + 4j + 2`; row `pairs` is the unselected closing row on the final accumulators. -/
theorem logicCore_spec (pairs a b : Nat) (isXor : Bool) (c : Composer) :
    Extends c (logicCore pairs a b isXor c) ∧
    (logicCore pairs a b isXor c).gates.size = c.gates.size + pairs + 1 ∧
    (logicCore pairs a b isXor c).wit.size = c.wit.size + 4 * pairs ∧
    (logicCore pairs a b isXor c).pis = c.pis ∧
    (∀ j, j < pairs → (logicCore pairs a b isXor c).gates[c.gates.size + j]? =
      some (lgate (logicBase isXor) (logicWireA c.wit.size j) (logicWireB c.wit.size j)
        (c.wit.size + 4 * j + 2) (logicWireD c.wit.size j))) ∧
    (logicCore pairs a b isXor c).gates[c.gates.size + pairs]? =
      some (logicCloseGate (logicWireA c.wit.size pairs) (logicWireB c.wit.size pairs)
        (logicWireD c.wit.size pairs)) := by
  obtain ⟨h1, h2, h3, h4, h5, -, -, -⟩ := logicLoop_spec pairs a b isXor c
  rw [logicCore_eq]
  have hext : Extends (logicLoop pairs a b isXor c).2
      { gates := (logicLoop pairs a b isXor c).2.gates.push
          (logicCloseGate (logicWireA c.wit.size pairs) (logicWireB c.wit.size pairs)
            (logicWireD c.wit.size pairs)),
        wit := (logicLoop pairs a b isXor c).2.wit,
        pis := (logicLoop pairs a b isXor c).2.pis } :=
    extends_of_append #[logicCloseGate (logicWireA c.wit.size pairs) (logicWireB c.wit.size pairs)
            (logicWireD c.wit.size pairs)] #[] (by simp) (by simp) rfl
  refine ⟨h1.trans hext, by simp [h2], h3, h4, ?_, ?_⟩
  · intro j hj
    rw [hext.gates_prefix _ (by rw [h2]; omega)]
    exact h5 j hj
  · simp only [← h2]
    simp

/-! ### meaning of the loop rows under an arbitrary assignment -/

theorem piAt_of_pis {c c' : Composer} (h : c'.pis = c.pis) (i : Nat) : c'.piAt i = c.piAt i := by
  unfold piAt; rw [h]

/-- the accumulator chain read off an assignment -/
def LogicChain (isXor : Bool) (W pairs : Nat) (w : Nat → Nat) : Prop :=
  ∀ j, j < pairs →
    logicRowF (logicQc isXor) (toF (w (logicWireA W j))) (toF (w (logicWireA W (j + 1))))
      (toF (w (logicWireB W j))) (toF (w (logicWireB W (j + 1)))) (toF (w (W + 4 * j + 2)))
      (toF (w (logicWireD W j))) (toF (w (logicWireD W (j + 1))))

/-- **the `pairs + 1` rows of the loop and the closing row**, read in any later state, hold under
    an arbitrary assignment iff the `pairs` widget row equations hold along the wire chain. -/
theorem logicCore_rows_iff (pairs a b : Nat) (isXor : Bool) (c : Composer) (hpi : PiFresh c)
    (c'' : Composer) (hext : Extends (logicCore pairs a b isXor c) c'') (w : Nat → Nat) :
    c''.rowsHoldW w c.gates.size (c.gates.size + pairs + 1) ↔
      LogicChain isXor c.wit.size pairs w := by
  obtain ⟨h1, h2, h3, h4, h5, h6⟩ := logicCore_spec pairs a b isXor c
  have hpi0 : ∀ i, c.gates.size ≤ i → i < c.gates.size + pairs + 1 → c''.piAt i = 0 := by
    intro i hi hi2
    rw [hext.pis_old i (by rw [h2]; exact hi2), piAt_of_pis h4]
    exact hpi i hi
  have hclose : c''.rowHoldsW w (c.gates.size + pairs) = true := by
    have hg : c''.gates[c.gates.size + pairs]? = _ :=
      (hext.gates_prefix _ (by rw [h2]; omega)).trans h6
    rw [rowHoldsW_of_get_plain hg (logicCloseGate_plain _ _ _) (hpi0 _ (by omega) (by omega))]
    exact rowHolds_logicCloseGate ..
  have key : ∀ j, j < pairs → (c''.rowHoldsW w (c.gates.size + j) = true ↔
      logicRowF (logicQc isXor) (toF (w (logicWireA c.wit.size j)))
        (toF (w (logicWireA c.wit.size (j + 1))))
        (toF (w (logicWireB c.wit.size j))) (toF (w (logicWireB c.wit.size (j + 1))))
        (toF (w (c.wit.size + 4 * j + 2)))
        (toF (w (logicWireD c.wit.size j))) (toF (w (logicWireD c.wit.size (j + 1))))) := by
    intro j hj
    have hg : c''.gates[c.gates.size + j]? = _ :=
      (hext.gates_prefix _ (by rw [h2]; omega)).trans (h5 j hj)
    have hg' : ∃ g', c''.gates[c.gates.size + j + 1]? = some g' ∧
        g'.a = logicWireA c.wit.size (j + 1) ∧ g'.b = logicWireB c.wit.size (j + 1) ∧
        g'.d = logicWireD c.wit.size (j + 1) := by
      by_cases hj1 : j + 1 < pairs
      · exact ⟨_, (hext.gates_prefix _ (by rw [h2]; omega)).trans (h5 (j + 1) hj1), rfl, rfl, rfl⟩
      · have e : j + 1 = pairs := by omega
        rw [Nat.add_assoc, e]
        exact ⟨_, (hext.gates_prefix _ (by rw [h2]; omega)).trans h6, rfl, rfl, rfl⟩
    obtain ⟨g', hg', ea, eb, ed⟩ := hg'
    rw [rowHoldsW_of_get hg hg' (hpi0 _ (by omega) (by omega)), ea, eb, ed, rowHolds_lgate]
    rfl
  constructor
  · intro h j hj
    exact (key j hj).mp (h _ (by omega) (by omega))
  · intro h i hi1 hi2
    obtain ⟨j, rfl⟩ : ∃ j, i = c.gates.size + j := ⟨i - c.gates.size, by omega⟩
    by_cases hj : j < pairs
    · exact (key j hj).mpr (h j hj)
    · have : j = pairs := by omega
      subst this; exact hclose

/-! ### the accumulator chain: soundness for an arbitrary assignment -/

theorem logicChain_sound (isXor : Bool) (W pairs : Nat) (w : Nat → Nat) (hp : pairs ≤ 127)
    (h0 : toF (w 0) = 0) (h : LogicChain isXor W pairs w) :
    (toF (w (logicWireA W pairs))).val < 4 ^ pairs ∧
    (toF (w (logicWireB W pairs))).val < 4 ^ pairs ∧
    (toF (w (logicWireD W pairs))).val =
      logicOp isXor (toF (w (logicWireA W pairs))).val (toF (w (logicWireB W pairs))).val :=
  logic_chain_sound_val isXor (fun j => toF (w (logicWireA W j))) (fun j => toF (w (logicWireB W j)))
    (fun j => toF (w (logicWireD W j))) (fun j => toF (w (W + 4 * j + 2))) pairs hp h0 h0 h0 h

/-! ### well-formedness through the loop -/

theorem logicStep_wf (pairs : Nat) (isXor : Bool) (av bv i : Nat) (s : Constraint)
    (la ra oa : Nat) (c : Composer) (h : WF c) :
    WF (logicStep pairs isXor av bv i s la ra oa c) := by
  refine wf_of_wit_append h _ (logicStep_wit ..) ?_ rfl (by simp)
  intro j hj
  have : j = 0 ∨ j = 1 ∨ j = 2 ∨ j = 3 := by simp at hj; omega
  rcases this with rfl | rfl | rfl | rfl <;> exact Nat.mod_lt _ R_pos

theorem logicGo_wf (pairs : Nat) (isXor : Bool) (av bv : Nat) (k : Nat) :
    ∀ (i : Nat) (s : Constraint) (la ra oa : Nat) (c : Composer), s.hasPi = false → WF c →
      WF ((appendLogicComponent.go pairs isXor av bv k i s la ra oa).run c).2 := by
  induction k with
  | zero => intro i s la ra oa c _ h; rw [logicGo_zero]; exact h
  | succ k ih =>
    intro i s la ra oa c hs h
    rw [logicGo_succ _ _ _ _ _ _ _ _ _ _ _ hs]
    exact ih _ _ _ _ _ _ hs (logicStep_wf pairs isXor av bv i s la ra oa c h)

theorem logicCore_val (pairs a b : Nat) (isXor : Bool) (c : Composer) (i : Nat) :
    (logicCore pairs a b isXor c).val i = (logicLoop pairs a b isXor c).2.val i := by
  rw [logicCore_eq]; rfl

theorem logicCore_wf (pairs a b : Nat) (isXor : Bool) (c : Composer) (h : WF c) :
    WF (logicCore pairs a b isXor c) := by
  have hl : WF (logicLoop pairs a b isXor c).2 :=
    logicGo_wf pairs isXor _ _ pairs 0 _ 0 0 0 c (logicBase_hasPi isXor) h
  rw [logicCore_eq]
  exact wf_of_wit_append hl #[] (by simp) (by simp) rfl (by simp)

/-! ### the honest values -/

/-- **values stored by the loop** (`pairs ≤ 127`, zero witness `0`): wire `j` of each accumulator
    chain holds the top `j` quads of (the low `2·pairs` bits of) `a`, `b`, `op a b`; the product
    wire of row `j` holds the product of the two input quads. -/
theorem logicCore_vals (pairs a b : Nat) (isXor : Bool) (c : Composer) (hp : pairs ≤ 127)
    (hW : 0 < c.wit.size) (hz : c.val 0 = 0) :
    (∀ j, j ≤ pairs →
      (logicCore pairs a b isXor c).val (logicWireA c.wit.size j) = topQuads (c.val a) pairs j ∧
      (logicCore pairs a b isXor c).val (logicWireB c.wit.size j) = topQuads (c.val b) pairs j ∧
      (logicCore pairs a b isXor c).val (logicWireD c.wit.size j) =
        topQuads (logicOp isXor (c.val a) (c.val b)) pairs j) ∧
    (∀ j, j < pairs →
      (logicCore pairs a b isXor c).val (c.wit.size + 4 * j + 2) =
        quadFromTop (c.val a) pairs j * quadFromTop (c.val b) pairs j) := by
  have hv := logicGo_vals pairs isXor (c.val a) (c.val b) hp pairs 0 (logicBase isXor) 0 0 0 c
    (logicBase_hasPi isXor) (by omega) (topQuads_zero _ _).symm (topQuads_zero _ _).symm
    (topQuads_zero _ _).symm
  have hext := (logicCore_spec pairs a b isXor c).1
  constructor
  · intro j hj
    rcases j with _ | j
    · simp only [logicWireA, logicWireB, logicWireD, lslot_zero, topQuads_zero]
      rw [hext.val_eq hW]; exact ⟨hz, hz, hz⟩
    · obtain ⟨h1, h2, -, h4⟩ := hv j (by omega)
      simp only [logicWireA, logicWireB, logicWireD, lslot_succ, logicCore_val]
      simp only [Nat.zero_add] at h1 h2 h4
      exact ⟨h1, h2, h4⟩
  · intro j hj
    obtain ⟨-, -, h3, -⟩ := hv j hj
    rw [logicCore_val]
    simp only [Nat.zero_add] at h3
    exact h3

theorem logicWire_lt (W pairs off j : Nat) (hW : 0 < W) (hj : j ≤ pairs) (ho : off < 4) :
    lslot W 0 off j < W + 4 * pairs := by
  rcases j with _ | j
  · simp; omega
  · rw [lslot_succ]; omega

/-- the model's own table satisfies the chain equations (read in any later state) -/
theorem logicCore_chain_honest (pairs a b : Nat) (isXor : Bool) (c : Composer) (hp : pairs ≤ 127)
    (hW : 0 < c.wit.size) (hz : c.val 0 = 0) (c'' : Composer)
    (hext : Extends (logicCore pairs a b isXor c) c'') :
    LogicChain isXor c.wit.size pairs c''.val := by
  obtain ⟨hacc, hprod⟩ := logicCore_vals pairs a b isXor c hp hW hz
  have hsz := (logicCore_spec pairs a b isXor c).2.2.1
  obtain ⟨-, -, -, -, -, -, hrow⟩ := logic_chain_complete isXor (c.val a) (c.val b) pairs
  intro j hj
  have := hrow j hj
  simp only at this
  have eA : ∀ k, k ≤ pairs → c''.val (logicWireA c.wit.size k) = topQuads (c.val a) pairs k := by
    intro k hk
    rw [hext.val_eq (by rw [hsz]; exact logicWire_lt _ _ _ _ hW hk (by omega))]
    exact (hacc k hk).1
  have eB : ∀ k, k ≤ pairs → c''.val (logicWireB c.wit.size k) = topQuads (c.val b) pairs k := by
    intro k hk
    rw [hext.val_eq (by rw [hsz]; exact logicWire_lt _ _ _ _ hW hk (by omega))]
    exact (hacc k hk).2.1
  have eD : ∀ k, k ≤ pairs → c''.val (logicWireD c.wit.size k) =
      topQuads (logicOp isXor (c.val a) (c.val b)) pairs k := by
    intro k hk
    rw [hext.val_eq (by rw [hsz]; exact logicWire_lt _ _ _ _ hW hk (by omega))]
    exact (hacc k hk).2.2
  have eW : c''.val (c.wit.size + 4 * j + 2) =
      quadFromTop (c.val a) pairs j * quadFromTop (c.val b) pairs j := by
    rw [hext.val_eq (by rw [hsz]; omega)]
    exact hprod j hj
  rw [eA j (by omega), eA (j + 1) (by omega), eB j (by omega), eB (j + 1) (by omega),
    eD j (by omega), eD (j + 1) (by omega), eW]
  exact this

/-! ### the whole component -/

/-- final state of `append_logic_component`: loop, closing row, and (for `pairs ≠ 0`) the two
    truncation bindings of the final input accumulators to `a` and `b` -/
def logicOut (pairs a b : Nat) (isXor : Bool) (c : Composer) : Composer :=
  if pairs = 0 then logicCore pairs a b isXor c
  else bts5 b (logicWireB c.wit.size pairs) (pairs * 2)
    (bts5 a (logicWireA c.wit.size pairs) (pairs * 2) (logicCore pairs a b isXor c))

theorem appendLogicComponent_fst (pairs a b : Nat) (isXor : Bool) (c : Composer) :
    ((appendLogicComponent pairs a b isXor).run c).1 = logicWireD c.wit.size pairs := by
  have h := (logicLoop_spec pairs a b isXor c).2.2.2.2.2.2.2
  by_cases hp : pairs = 0
  · rw [appendLogicComponent_run_zero _ _ _ _ _ hp]; exact h
  · rw [appendLogicComponent_run_pos _ _ _ _ _ hp]; exact h

theorem appendLogicComponent_snd (pairs a b : Nat) (isXor : Bool) (c : Composer) :
    ((appendLogicComponent pairs a b isXor).run c).2 = logicOut pairs a b isXor c := by
  obtain ⟨-, -, -, -, -, h6, h7, -⟩ := logicLoop_spec pairs a b isXor c
  unfold logicOut
  by_cases hp : pairs = 0
  · rw [appendLogicComponent_run_zero _ _ _ _ _ hp, if_pos hp]
  · rw [appendLogicComponent_run_pos _ _ _ _ _ hp, if_neg hp, h6, h7,
      bindTruncationSplit_run, bindTruncationSplit_run]

/-- gates appended by the component (a function of `pairs` only) -/
def logicGateCount (pairs : Nat) : Nat :=
  pairs + 1 + (if pairs = 0 then 0 else 2 * btsGateCount (pairs * 2))

/-- witnesses allocated by the component (a function of `pairs` only) -/
def logicWitCount (pairs : Nat) : Nat :=
  4 * pairs + (if pairs = 0 then 0 else 2 * btsWitCount (pairs * 2))

section whole
variable (pairs a b : Nat) (isXor : Bool) (c : Composer)

local notation "C2" => logicCore pairs a b isXor c
local notation "C3" => bts5 a (logicWireA c.wit.size pairs) (pairs * 2) (logicCore pairs a b isXor c)
local notation "C4" => bts5 b (logicWireB c.wit.size pairs) (pairs * 2)
  (bts5 a (logicWireA c.wit.size pairs) (pairs * 2) (logicCore pairs a b isXor c))

theorem logicOut_pos (hp : pairs ≠ 0) : logicOut pairs a b isXor c = C4 := if_neg hp
theorem logicOut_zero (hp : pairs = 0) : logicOut pairs a b isXor c = C2 := if_pos hp

theorem logicCore_lastPlain : LastPlain C2 := by
  obtain ⟨-, h2, -, -, -, h6⟩ := logicCore_spec pairs a b isXor c
  intro i hi
  have : i = c.gates.size + pairs := by omega
  subst this
  rw [gateAt_of_get h6]; exact logicCloseGate_plain _ _ _

theorem logicOut_extends : Extends c (logicOut pairs a b isXor c) := by
  have h1 := (logicCore_spec pairs a b isXor c).1
  by_cases hp : pairs = 0
  · rw [logicOut_zero _ _ _ _ _ hp]; exact h1
  · rw [logicOut_pos _ _ _ _ _ hp]
    exact h1.trans ((bts5_extends _ _ _ _).trans (bts5_extends _ _ _ _))

theorem logicOut_gates_size :
    (logicOut pairs a b isXor c).gates.size = c.gates.size + logicGateCount pairs := by
  have h2 := (logicCore_spec pairs a b isXor c).2.1
  unfold logicGateCount
  by_cases hp : pairs = 0
  · rw [logicOut_zero _ _ _ _ _ hp, h2, if_pos hp]; omega
  · rw [logicOut_pos _ _ _ _ _ hp, bts5_gates_size, bts5_gates_size, h2, if_neg hp]; omega

theorem logicOut_wit_size :
    (logicOut pairs a b isXor c).wit.size = c.wit.size + logicWitCount pairs := by
  have h3 := (logicCore_spec pairs a b isXor c).2.2.1
  unfold logicWitCount
  by_cases hp : pairs = 0
  · rw [logicOut_zero _ _ _ _ _ hp, h3, if_pos hp]; omega
  · rw [logicOut_pos _ _ _ _ _ hp, bts5_wit_size, bts5_wit_size, h3, if_neg hp]; omega

theorem logicOut_lastPlain : LastPlain (logicOut pairs a b isXor c) := by
  by_cases hp : pairs = 0
  · rw [logicOut_zero _ _ _ _ _ hp]; exact logicCore_lastPlain _ _ _ _ _
  · rw [logicOut_pos _ _ _ _ _ hp]; exact bts5_lastPlain _ _ _ _

theorem logicOut_wf (h : WF c) : WF (logicOut pairs a b isXor c) := by
  have h2 := logicCore_wf pairs a b isXor c h
  by_cases hp : pairs = 0
  · rw [logicOut_zero _ _ _ _ _ hp]; exact h2
  · rw [logicOut_pos _ _ _ _ _ hp]; exact bts_wf5 _ _ _ _ (bts_wf5 _ _ _ _ h2)

theorem four_pow_eq_two_pow (pairs : Nat) : 2 ^ (pairs * 2) = 4 ^ pairs := by
  rw [Nat.mul_comm, pow_mul]; norm_num

/-- **Soundness.** `pairs ≤ 127`, arbitrary assignment `w` with the zero witness at `0`; all rows
    appended by the component hold (read in any later state): the canonical value of the
    returned witness is `op` of the canonical values of `a`, `b` truncated to `2·pairs` bits. -/
theorem logicOut_sound (hp : pairs ≤ 127) (h : WF c) {c'' : Composer}
    (hext : Extends (logicOut pairs a b isXor c) c'') (w : Nat → Nat) (h0 : toF (w 0) = 0)
    (hrows : c''.rowsHoldW w c.gates.size (logicOut pairs a b isXor c).gates.size) :
    (toF (w (logicWireD c.wit.size pairs))).val =
      logicOp isXor ((toF (w a)).val % 4 ^ pairs) ((toF (w b)).val % 4 ^ pairs) := by
  by_cases hp0 : pairs = 0
  · subst hp0
    simp only [logicWireD, lslot_zero, h0, pow_zero, Nat.mod_one, ZMod.val_zero]
    cases isXor <;> rfl
  rw [logicOut_pos _ _ _ _ _ hp0] at hext hrows
  have wf2 := logicCore_wf pairs a b isXor c h
  have wf3 := bts_wf5 a (logicWireA c.wit.size pairs) (pairs * 2) C2 wf2
  have e23 : Extends C2 C3 := bts5_extends ..
  have e34 : Extends C3 C4 := bts5_extends ..
  have g2 := (logicCore_spec pairs a b isXor c).2.1
  have g23 := e23.gates_size
  have g34 := e34.gates_size
  have r1 : c''.rowsHoldW w c.gates.size (c.gates.size + pairs + 1) :=
    rowsHoldW_mono hrows (Nat.le_refl _) (by omega)
  have r2 : c''.rowsHoldW w (C2).gates.size (C3).gates.size :=
    rowsHoldW_mono hrows (by omega) (by omega)
  have r3 : c''.rowsHoldW w (C3).gates.size (C4).gates.size :=
    rowsHoldW_mono hrows (by omega) (Nat.le_refl _)
  have chain := (logicCore_rows_iff pairs a b isXor c h.pis_zero c''
    (e23.trans (e34.trans hext)) w).mp r1
  obtain ⟨bA, bB, eD⟩ := logicChain_sound isXor c.wit.size pairs w hp h0 chain
  rw [← four_pow_eq_two_pow] at bA bB
  have hN : pairs * 2 ≤ Generated.TRUNCATE_MAX_BITS := by rw [truncate_max_bits]; omega
  have sA := (bts_sound a (logicWireA c.wit.size pairs) (pairs * 2) C2 hN wf2 (e34.trans hext) w h0
    bA r2).1
  have sB := (bts_sound b (logicWireB c.wit.size pairs) (pairs * 2) C3 hN wf3 hext w h0 bB r3).1
  rw [eD, sA, sB, four_pow_eq_two_pow]

theorem logicOut_extends_core : Extends C2 (logicOut pairs a b isXor c) := by
  by_cases hp : pairs = 0
  · rw [logicOut_zero _ _ _ _ _ hp]; exact Extends.refl _
  · rw [logicOut_pos _ _ _ _ _ hp]
    exact (bts5_extends _ _ _ _).trans (bts5_extends _ _ _ _)

/-- the value the model stores in the returned witness -/
theorem logicOut_val_out (hp : pairs ≤ 127) (hW : 0 < c.wit.size) (hz : c.val 0 = 0) :
    (logicOut pairs a b isXor c).val (logicWireD c.wit.size pairs) =
      logicOp isXor (c.val a % 4 ^ pairs) (c.val b % 4 ^ pairs) := by
  have hsz := (logicCore_spec pairs a b isXor c).2.2.1
  rw [(logicOut_extends_core pairs a b isXor c).val_eq
    (by rw [hsz]; exact logicWire_lt _ _ _ _ hW (Nat.le_refl _) (by omega)),
    ((logicCore_vals pairs a b isXor c hp hW hz).1 pairs (Nat.le_refl _)).2.2, topQuads_self,
    logicOp_mod]

/-- **Completeness.** `pairs ≤ 127`, well-formed state, inputs allocated, zero witness `0`: the
    model's own witness table (read in any later state) satisfies every appended row. -/
theorem logicOut_complete (hp : pairs ≤ 127) (h : WF c) (ha : a < c.wit.size)
    (hb : b < c.wit.size) (hz : c.val 0 = 0) {c'' : Composer}
    (hext : Extends (logicOut pairs a b isXor c) c'') :
    c''.rowsHoldW c''.val c.gates.size (logicOut pairs a b isXor c).gates.size := by
  have hW : 0 < c.wit.size := by omega
  obtain ⟨e02, g2, w2, -, -, -⟩ := logicCore_spec pairs a b isXor c
  obtain ⟨hacc, -⟩ := logicCore_vals pairs a b isXor c hp hW hz
  obtain ⟨vA, vB, -⟩ := hacc pairs (Nat.le_refl _)
  rw [topQuads_self, ← four_pow_eq_two_pow] at vA vB
  by_cases hp0 : pairs = 0
  · rw [logicOut_zero _ _ _ _ _ hp0] at hext ⊢
    rw [g2]
    exact (logicCore_rows_iff pairs a b isXor c h.pis_zero c'' hext _).mpr
      (logicCore_chain_honest pairs a b isXor c hp hW hz c'' hext)
  rw [logicOut_pos _ _ _ _ _ hp0] at hext ⊢
  have wf2 := logicCore_wf pairs a b isXor c h
  have wf3 := bts_wf5 a (logicWireA c.wit.size pairs) (pairs * 2) C2 wf2
  have e23 : Extends C2 C3 := bts5_extends ..
  have e34 : Extends C3 C4 := bts5_extends ..
  have g23 := e23.gates_size
  have g34 := e34.gates_size
  have w23 := e23.wit_size
  have hN : pairs * 2 ≤ Generated.SPLIT_TOTAL_BITS := by rw [split_total_bits]; omega
  have lA : logicWireA c.wit.size pairs < (C2).wit.size := by
    rw [w2]; exact logicWire_lt _ _ _ _ hW (Nat.le_refl _) (by omega)
  have lB : logicWireB c.wit.size pairs < (C2).wit.size := by
    rw [w2]; exact logicWire_lt _ _ _ _ hW (Nat.le_refl _) (by omega)
  have z2 : (C2).val 0 = 0 := by rw [e02.val_eq hW]; exact hz
  rw [rowsHoldW_split c'' _ (show c.gates.size ≤ (C2).gates.size by omega)
      (show (C2).gates.size ≤ (C4).gates.size by omega),
    rowsHoldW_split c'' _ g23 g34]
  refine ⟨?_, ?_, ?_⟩
  · rw [g2]
    exact (logicCore_rows_iff pairs a b isXor c h.pis_zero c'' (e23.trans (e34.trans hext)) _).mpr
      (logicCore_chain_honest pairs a b isXor c hp hW hz c'' (e23.trans (e34.trans hext)))
  · exact bts_complete a (logicWireA c.wit.size pairs) (pairs * 2) C2 hN wf2 (by omega) lA z2
      (by rw [vA, e02.val_eq ha]) (e34.trans hext)
  · exact bts_complete b (logicWireB c.wit.size pairs) (pairs * 2) C3 hN wf3 (by omega) (by omega)
      (by rw [e23.val_eq (by omega)]; exact z2)
      (by rw [e23.val_eq lB, e23.val_eq (by omega), vB, e02.val_eq hb]) hext

end whole

/-! ### the layout does not depend on witness values; existence for arbitrary input values -/

theorem logicCore_layout {c1 c2 : Composer} (h : SameLayout c1 c2) (pairs a b : Nat)
    (isXor : Bool) :
    SameLayout (logicCore pairs a b isXor c1) (logicCore pairs a b isXor c2) := by
  obtain ⟨e1, g1, w1, p1, r1, k1⟩ := logicCore_spec pairs a b isXor c1
  obtain ⟨e2, g2, w2, p2, r2, k2⟩ := logicCore_spec pairs a b isXor c2
  have hg : c1.gates.size = c2.gates.size := by rw [h.gates]
  refine ⟨?_, by rw [w1, w2, h.wsize], by rw [p1, p2, h.pis]⟩
  apply Array.ext_getElem?
  intro i
  by_cases hi : i < c1.gates.size
  · rw [e1.gates_prefix i hi, e2.gates_prefix i (by omega), h.gates]
  · obtain ⟨j, rfl⟩ : ∃ j, i = c1.gates.size + j := ⟨i - c1.gates.size, by omega⟩
    by_cases hj : j < pairs
    · have := r2 j hj
      rw [← hg, ← h.wsize] at this
      rw [r1 j hj, this]
    · by_cases hj2 : j = pairs
      · subst hj2
        have := k2
        rw [← hg, ← h.wsize] at this
        rw [k1, this]
      · rw [Array.getElem?_eq_none (by omega), Array.getElem?_eq_none (by omega)]

theorem logicOut_layout {c1 c2 : Composer} (h : SameLayout c1 c2) (pairs a b : Nat)
    (isXor : Bool) :
    SameLayout (logicOut pairs a b isXor c1) (logicOut pairs a b isXor c2) := by
  have hc := logicCore_layout h pairs a b isXor
  unfold logicOut
  rw [h.wsize]
  split
  · exact hc
  · exact bts5_layout _ _ _ (bts5_layout _ _ _ hc)

theorem withValue_val_ne (c : Composer) (x v i : Nat) (hix : i ≠ x) (hi0 : i ≠ 0) :
    (withValue c x v).val i = c.val i := by
  simp only [withValue, val, Array.getD_eq_getD_getElem?, Array.getElem?_setIfInBounds]
  rw [if_neg (Ne.symm hix), if_neg (Ne.symm hi0)]

/-- **existence for arbitrary input values** (fixed layout): whatever canonical values `va`, `vb`
    the two inputs carry, some assignment satisfies every row of the component, and it gives the
    returned witness the value `op (va mod 4^pairs) (vb mod 4^pairs)`. -/
theorem logicOut_exists (pairs a b : Nat) (isXor : Bool) (c : Composer) (hp : pairs ≤ 127)
    (h : WF c) (ha : a < c.wit.size) (hb : b < c.wit.size) (va vb : Nat) (hva : va < R)
    (hvb : vb < R) (ha0 : a = 0 → va = 0) (hb0 : b = 0 → vb = 0) (hab : a = b → va = vb) :
    ∃ w : Nat → Nat, w a = va ∧ w b = vb ∧ w 0 = 0 ∧
      w (logicWireD c.wit.size pairs) = logicOp isXor (va % 4 ^ pairs) (vb % 4 ^ pairs) ∧
      (logicOut pairs a b isXor c).rowsHoldW w c.gates.size
        (logicOut pairs a b isXor c).gates.size := by
  have l1 := withValue_layout c a va
  have l2 := withValue_layout (withValue c a va) b vb
  have hl : SameLayout c (withValue (withValue c a va) b vb) :=
    ⟨l1.gates.trans l2.gates, l1.wsize.trans l2.wsize, l1.pis.trans l2.pis⟩
  have hwf := withValue_wf _ b vb (withValue_wf c a va h hva) hvb
  have hb1 : b < (withValue c a va).wit.size := by rw [← l1.wsize]; exact hb
  have ha2 : a < (withValue (withValue c a va) b vb).wit.size := by rw [← hl.wsize]; exact ha
  have hb2 : b < (withValue (withValue c a va) b vb).wit.size := by rw [← hl.wsize]; exact hb
  have vb2 : (withValue (withValue c a va) b vb).val b = vb := withValue_val_self _ b vb hb1
  have vz2 : (withValue (withValue c a va) b vb).val 0 = 0 := withValue_val_zero _ b vb hb0
  have va2 : (withValue (withValue c a va) b vb).val a = va := by
    by_cases e : a = b
    · subst e; have hv := hab rfl; subst hv; exact vb2
    · by_cases e0 : a = 0
      · subst e0; have hv := ha0 rfl; subst hv; exact vz2
      · rw [withValue_val_ne _ b vb a e e0]; exact withValue_val_self c a va ha
  have hext := logicOut_extends pairs a b isXor (withValue (withValue c a va) b vb)
  have hL := logicOut_layout hl pairs a b isXor
  have hrows := logicOut_complete pairs a b isXor _ hp hwf ha2 hb2 vz2 (Extends.refl _)
  have hout := logicOut_val_out pairs a b isXor (withValue (withValue c a va) b vb) hp
    (by omega) vz2
  refine ⟨(logicOut pairs a b isXor (withValue (withValue c a va) b vb)).val, ?_, ?_, ?_, ?_, ?_⟩
  · rw [hext.val_eq ha2, va2]
  · rw [hext.val_eq hb2, vb2]
  · rw [hext.val_eq (by omega), vz2]
  · rw [hl.wsize, hout, va2, vb2]
  · rw [hL.rowsHoldW_iff, hL.gates, hl.gates]; exact hrows

end Composer
end Plonk
