/-
  C05 (permutation half), part 4: `sigmaMaps` depends only on the partition of the wire positions
  induced by the wiring — invariance under injective relabelling of the witnesses (C15) and under
  the order in which the witnesses are processed (C18, `HashMap` iteration order).
-/
import Plonk.Proofs.PermutationCycles

namespace Plonk
namespace Perm

/-! ### congruence -/

theorem tableOf_congr {f g : Pos → Pos} (n : Nat) (h : ∀ p, p.1 < 4 → p.2 < n → f p = g p) :
    tableOf f n = tableOf g n := by
  unfold tableOf
  apply Array.ext
  · simp
  · intro col h1 h2
    have hcol : col < 4 := by simpa using h1
    apply Array.ext
    · simp
    · intro i h3 h4
      have hi : i < n := by simpa using h3
      simpa using h (col, i) hcol hi

/-- two layouts whose wirings induce the same partition of the positions (and agree on which
    positions are wired to allocated witnesses) have the same `σ` -/
theorem sigmaFn_congr (c c' : Composer) (hsz : c.gates.size = c'.gates.size)
    (heq : ∀ p q : Pos, p.1 < 4 → p.2 < c.gates.size → q.1 < 4 → q.2 < c.gates.size →
      (wireAt c p = wireAt c q ↔ wireAt c' p = wireAt c' q))
    (hrg : ∀ p : Pos, p.1 < 4 → p.2 < c.gates.size → (wireAt c p < c.wit.size ↔ wireAt c' p < c'.wit.size))
    (p : Pos) : sigmaFn c p = sigmaFn c' p := by
  by_cases h : Active c p
  · have h' : Active c' p := ⟨⟨h.1.1, hsz ▸ h.1.2⟩, (hrg p h.1.1 h.1.2).mp h.2⟩
    rw [sigmaFn_of_active h, sigmaFn_of_active h']
    have : classOf c (wireAt c p) = classOf c' (wireAt c' p) := by
      unfold classOf
      rw [← hsz]
      apply List.filter_congr
      intro q hq
      rw [mem_allPos] at hq
      have := heq q p hq.1 hq.2 h.1.1 h.1.2
      by_cases e : wireAt c q = wireAt c p
      · simp [e, this.mp e]
      · have e' : ¬ wireAt c' q = wireAt c' p := fun x => e (this.mpr x)
        simp [e, e']
    rw [this]
  · have h' : ¬ Active c' p := by
      intro h'
      have hb : p.2 < c.gates.size := hsz ▸ h'.1.2
      exact h ⟨⟨h'.1.1, hb⟩, (hrg p h'.1.1 hb).mpr h'.2⟩
    rw [sigmaFn_of_not_active h, sigmaFn_of_not_active h']

theorem sigmaMaps_congr (c c' : Composer) (n : Nat) (hsz : c.gates.size = c'.gates.size)
    (heq : ∀ p q : Pos, p.1 < 4 → p.2 < c.gates.size → q.1 < 4 → q.2 < c.gates.size →
      (wireAt c p = wireAt c q ↔ wireAt c' p = wireAt c' q))
    (hrg : ∀ p : Pos, p.1 < 4 → p.2 < c.gates.size → (wireAt c p < c.wit.size ↔ wireAt c' p < c'.wit.size)) :
    sigmaMaps c n = sigmaMaps c' n := by
  rw [sigmaMaps_eq_table, sigmaMaps_eq_table]
  exact tableOf_congr n (fun p _ _ => sigmaFn_congr c c' hsz heq hrg p)

/-! ### relabelling the witnesses -/

/-- apply `f` to the four wires of a gate -/
def relabelGate (f : Nat → Nat) (g : Gate) : Gate := { g with a := f g.a, b := f g.b, c := f g.c, d := f g.d }

/-- apply `f` to every wire of the layout -/
def mapWires (f : Nat → Nat) (c : Composer) : Composer := { c with gates := c.gates.map (relabelGate f) }

theorem wireAt_relabel (f : Nat → Nat) (c c' : Composer) (hg : c'.gates = c.gates.map (relabelGate f))
    (p : Pos) (hp : p.2 < c.gates.size) : wireAt c' p = f (wireAt c p) := by
  have e : c'.gateAt p.2 = relabelGate f (c.gateAt p.2) := by
    unfold Composer.gateAt
    rw [hg, Array.getD_eq_getD_getElem?, Array.getD_eq_getD_getElem?, Array.getElem?_map,
      Array.getElem?_eq_getElem hp]
    rfl
  unfold wireAt
  rw [e]
  split <;> rfl

/-- **relabelling invariance**: if the gates of `c'` are those of `c` with the wires renamed by a
    map `f` that is injective on the wires in use and preserves "allocated", the permutation is
    unchanged -/
theorem relabel_sigma (f : Nat → Nat) (c c' : Composer) (n : Nat)
    (hg : c'.gates = c.gates.map (relabelGate f))
    (hinj : ∀ p q : Pos, p.1 < 4 → p.2 < c.gates.size → q.1 < 4 → q.2 < c.gates.size →
      f (wireAt c p) = f (wireAt c q) → wireAt c p = wireAt c q)
    (hrg : ∀ p : Pos, p.1 < 4 → p.2 < c.gates.size →
      (wireAt c p < c.wit.size ↔ f (wireAt c p) < c'.wit.size)) :
    sigmaMaps c' n = sigmaMaps c n := by
  have hsz : c.gates.size = c'.gates.size := by rw [hg]; simp
  refine (sigmaMaps_congr c c' n hsz ?_ ?_).symm
  · intro p q hp1 hp2 hq1 hq2
    rw [wireAt_relabel f c c' hg p hp2, wireAt_relabel f c c' hg q hq2]
    exact ⟨fun h => by rw [h], hinj p q hp1 hp2 hq1 hq2⟩
  · intro p hp1 hp2
    rw [wireAt_relabel f c c' hg p hp2]
    exact hrg p hp1 hp2

/-- the special case `c' = mapWires f c` -/
theorem relabel_sigma_mapWires (f : Nat → Nat) (c : Composer) (n : Nat)
    (hinj : ∀ p q : Pos, p.1 < 4 → p.2 < c.gates.size → q.1 < 4 → q.2 < c.gates.size →
      f (wireAt c p) = f (wireAt c q) → wireAt c p = wireAt c q)
    (hrg : ∀ p : Pos, p.1 < 4 → p.2 < c.gates.size →
      (wireAt c p < c.wit.size ↔ f (wireAt c p) < c.wit.size)) :
    sigmaMaps (mapWires f c) n = sigmaMaps c n :=
  relabel_sigma f c (mapWires f c) n rfl hinj hrg

/-- the special case of a globally injective relabelling that preserves "allocated" -/
theorem relabel_sigma_of_injective (f : Nat → Nat) (hf : Function.Injective f) (c : Composer) (n : Nat)
    (hrg : ∀ w, w < c.wit.size ↔ f w < c.wit.size) :
    sigmaMaps (mapWires f c) n = sigmaMaps c n :=
  relabel_sigma_mapWires f c n (fun _ _ _ _ _ _ h => hf h) (fun _ _ _ => hrg _)

/-! ### order of processing the witnesses -/

/-- `compute_sigma_permutations` with the witnesses visited in the order `order` (the Rust code
    iterates a `HashMap`, i.e. visits every key once in an unspecified order) -/
def sigmaMapsOrder (c : Composer) (n : Nat) (order : List Nat) : Array (Array (Nat × Nat)) := Id.run do
  let mut s : Array (Array (Nat × Nat)) := (Array.range 4).map fun col => (Array.range n).map fun i => (col, i)
  let wp := wirePositions c
  for w in order do
    let l := wp.getD w []
    let k := l.length
    for (j, (col, i)) in l.zipIdx.map (fun (p, j) => (j, p)) do
      let nxt := l.getD ((j + 1) % k) (col, i)
      s := s.modify col (fun a => a.setIfInBounds i nxt)
  return s

theorem sigmaMapsOrder_eq (c : Composer) (n : Nat) (order : List Nat) :
    sigmaMapsOrder c n order =
      (order.map fun w => (wirePositions c).getD w []).foldl writeCycle (ident n) := by
  unfold sigmaMapsOrder
  simp only [Id.run, bind_pure_comp, map_pure, List.forIn_pure_yield_eq_foldl, bind_pure]
  rw [List.foldl_map]
  rfl

/-- the model's own order is `0, 1, …, wit.size − 1` -/
theorem sigmaMapsOrder_range (c : Composer) (n : Nat) :
    sigmaMapsOrder c n (List.range c.wit.size) = sigmaMaps c n := by
  rw [sigmaMapsOrder_eq, sigmaMaps_eq, wirePositions_toList]
  congr 1
  apply List.map_congr_left
  intro w hw
  exact wirePositions_getD c w (List.mem_range.mp hw)

/-- **order independence**: visiting the witnesses in any order (any permutation of the key set)
    produces the same permutation tables -/
theorem sigma_order_independent (c : Composer) (n : Nat) (order : List Nat)
    (h : order.Perm (List.range c.wit.size)) : sigmaMapsOrder c n order = sigmaMaps c n := by
  rw [sigmaMapsOrder_eq, sigmaMaps_eq_table]
  have hnd : order.Nodup := h.nodup_iff.mpr List.nodup_range
  have hmap : (order.map fun w => (wirePositions c).getD w []) = order.map (classOf c) := by
    apply List.map_congr_left
    intro w hw
    exact wirePositions_getD c w (List.mem_range.mp (h.mem_iff.mp hw))
  rw [hmap]
  obtain ⟨h1, h2⟩ := foldl_classes c n order hnd
  apply table_ext h1
  intro p hp1 hp2
  rw [h2 p hp1 hp2]
  simp only [sigmaFn, h.mem_iff, List.mem_range]

end Perm
end Plonk
