/-
  Property C07, part 2 — curve components (point.rs, fixed_base.rs) and the error-returning
  entry points.  See `Shape.lean` for the framework.
-/
import Plonk.Proofs.Shape

namespace Plonk
open Plonk Plonk.Composer

namespace Composer

/-! ### point.rs -/

/-- `append_point` on affine coordinates: both coordinates are value parameters -/
theorem appendAffinePoint_shape (p₁ p₂ : Pt) :
    ShapeEq (appendAffinePoint p₁) (appendAffinePoint p₂) := by
  unfold appendAffinePoint; shape_tac

macro_rules | `(tactic| shape_base) => `(tactic| with_reducible exact appendAffinePoint_shape _ _)

theorem toAffine?_eq_none_iff (e : Ext) : e.toAffine? = none ↔ e.z = 0 := by
  unfold Ext.toAffine?
  by_cases h : e.z = 0 <;> simp [h]

theorem toAffine?_isSome_iff (e : Ext) : e.toAffine?.isSome ↔ e.z ≠ 0 := by
  unfold Ext.toAffine?
  by_cases h : e.z = 0 <;> simp [h]

/-- `append_point`: `Z = 0` → `.error .degenerate`, state unchanged -/
theorem appendPoint_degenerate {e : Ext} (h : e.z = 0) (c : Composer) :
    (appendPoint e).run c = (.error .degenerate, c) := by
  unfold appendPoint; rw [(toAffine?_eq_none_iff e).mpr h]; rfl

/-- `append_point`: `Z ≠ 0` → two fresh witnesses, whatever the coordinates -/
theorem appendPoint_ok {e : Ext} (h : e.z ≠ 0) (c : Composer) :
    ((appendPoint e).run c).1 = .ok (c.wit.size, c.wit.size + 1) := by
  unfold appendPoint
  obtain ⟨a, ha⟩ := Option.isSome_iff_exists.mp ((toAffine?_isSome_iff e).mpr h)
  rw [ha]
  simp [appendAffinePoint, appendWitness, bind, StateT.bind, pure, StateT.pure, StateT.run]

theorem appendPoint_shape {e₁ e₂ : Ext} (h₁ : e₁.z ≠ 0) (h₂ : e₂.z ≠ 0) :
    ShapeEq (appendPoint e₁) (appendPoint e₂) := by
  unfold appendPoint
  obtain ⟨a₁, ha₁⟩ := Option.isSome_iff_exists.mp ((toAffine?_isSome_iff e₁).mpr h₁)
  obtain ⟨a₂, ha₂⟩ := Option.isSome_iff_exists.mp ((toAffine?_isSome_iff e₂).mpr h₂)
  rw [ha₁, ha₂]
  shape_tac

/-- decision logic of `append_point` -/
theorem appendPoint_error_iff (e : Ext) (c : Composer) (err : CErr) :
    ((appendPoint e).run c).1 = .error err ↔ err = .degenerate ∧ e.z = 0 := by
  by_cases h : e.z = 0
  · rw [appendPoint_degenerate h]; simp [h]; exact eq_comm
  · rw [appendPoint_ok h]; simp [h]

/-- `append_constant_point`: the point is a circuit constant (its affine coordinates become
    selectors), so the component is value-free as it stands -/
theorem appendConstantPoint_stable (e : Ext) : ShapeStable (appendConstantPoint e) := by
  unfold appendConstantPoint
  cases e.toAffine? with
  | none => exact .pure _
  | some a =>
    dsimp only
    split
    · exact .pure _
    · shape_tac

theorem appendConstantPoint_run (e : Ext) (c : Composer) :
    (appendConstantPoint e).run c =
      if e.z = 0 then (.error .degenerate, c)
      else if ¬(e.onCurve = true ∧ e.torsionFree = true) then (.error .notTorsionFree, c)
      else (.ok (c.wit.size, c.wit.size + 1),
            ((appendConstant ((e.toAffine?.getD Pt.id).2)).run
              ((appendConstant ((e.toAffine?.getD Pt.id).1)).run c).2).2) := by
  unfold appendConstantPoint
  by_cases hz : e.z = 0
  · rw [(toAffine?_eq_none_iff e).mpr hz]; simp [hz]; rfl
  · obtain ⟨a, ha⟩ := Option.isSome_iff_exists.mp ((toAffine?_isSome_iff e).mpr hz)
    rw [ha]
    by_cases ht : (e.onCurve = true ∧ e.torsionFree = true)
    · simp [hz, ht, bind, StateT.bind, StateT.run, pure, StateT.pure, appendConstant,
        appendWitness, assertEqualConstant, appendGate, appendCustomGate, Constraint.arithmetic,
        Constraint.fromExternal]
    · have : (!(e.onCurve && e.torsionFree)) = true := by
        cases h1 : e.onCurve <;> cases h2 : e.torsionFree <;> simp_all
      simp only [this, hz, ht, ↓reduceIte, not_false_eq_true]; rfl

/-- decision logic of `append_constant_point` -/
theorem appendConstantPoint_error_iff (e : Ext) (c : Composer) (err : CErr) :
    ((appendConstantPoint e).run c).1 = .error err ↔
      (err = .degenerate ∧ e.z = 0) ∨
      (err = .notTorsionFree ∧ e.z ≠ 0 ∧ ¬(e.onCurve = true ∧ e.torsionFree = true)) := by
  rw [appendConstantPoint_run]
  by_cases hz : e.z = 0
  · simp [hz]; exact eq_comm
  · by_cases ht : (e.onCurve = true ∧ e.torsionFree = true)
    · simp [hz, ht]
    · simp only [hz, ht, ↓reduceIte, not_false_eq_true, Except.error.injEq, and_false, false_or,
        ne_eq, and_true]
      exact eq_comm

/-- an error of `append_constant_point` leaves the composer untouched -/
theorem appendConstantPoint_error_state (e : Ext) (c : Composer) (err : CErr)
    (h : ((appendConstantPoint e).run c).1 = .error err) :
    ((appendConstantPoint e).run c).2 = c := by
  rw [appendConstantPoint_run] at h ⊢
  by_cases hz : e.z = 0
  · simp [hz]
  · by_cases ht : (e.onCurve = true ∧ e.torsionFree = true)
    · simp [hz, ht] at h
    · simp [hz, ht]

/-- `append_public_point`: `Z = 0` → `.error .degenerate`, state unchanged -/
theorem appendPublicPoint_degenerate {e : Ext} (h : e.z = 0) (c : Composer) :
    (appendPublicPoint e).run c = (.error .degenerate, c) := by
  unfold appendPublicPoint; rw [(toAffine?_eq_none_iff e).mpr h]; rfl

theorem appendPublicPoint_ok {e : Ext} (h : e.z ≠ 0) (c : Composer) :
    ((appendPublicPoint e).run c).1 = .ok (c.wit.size, c.wit.size + 1) := by
  unfold appendPublicPoint
  obtain ⟨a, ha⟩ := Option.isSome_iff_exists.mp ((toAffine?_isSome_iff e).mpr h)
  rw [ha]
  simp [appendAffinePoint, appendWitness, bind, StateT.bind, pure, StateT.pure, StateT.run,
    assertEqualConstant, appendGate, appendCustomGate]

/-- `append_public_point`: any two non-degenerate points (different public values) -/
theorem appendPublicPoint_shape {e₁ e₂ : Ext} (h₁ : e₁.z ≠ 0) (h₂ : e₂.z ≠ 0) :
    ShapeEq (appendPublicPoint e₁) (appendPublicPoint e₂) := by
  unfold appendPublicPoint
  obtain ⟨a₁, ha₁⟩ := Option.isSome_iff_exists.mp ((toAffine?_isSome_iff e₁).mpr h₁)
  obtain ⟨a₂, ha₂⟩ := Option.isSome_iff_exists.mp ((toAffine?_isSome_iff e₂).mpr h₂)
  rw [ha₁, ha₂]
  shape_tac

theorem appendPublicPoint_error_iff (e : Ext) (c : Composer) (err : CErr) :
    ((appendPublicPoint e).run c).1 = .error err ↔ err = .degenerate ∧ e.z = 0 := by
  by_cases h : e.z = 0
  · rw [appendPublicPoint_degenerate h]; simp [h]; exact eq_comm
  · rw [appendPublicPoint_ok h]; simp [h]

/-- `assert_equal_point` -/
theorem assertEqualPoint_stable (a b : Pt) : ShapeStable (assertEqualPoint a b) := by
  unfold assertEqualPoint; shape_tac

macro_rules | `(tactic| shape_base) => `(tactic| with_reducible exact assertEqualPoint_stable _ _)

/-- `assert_equal_public_point`: `Z = 0` → `.error .degenerate`, state unchanged -/
theorem assertEqualPublicPoint_degenerate (p : Pt) {e : Ext} (h : e.z = 0) (c : Composer) :
    (assertEqualPublicPoint p e).run c = (.error .degenerate, c) := by
  unfold assertEqualPublicPoint; rw [(toAffine?_eq_none_iff e).mpr h]; rfl

theorem assertEqualPublicPoint_ok (p : Pt) {e : Ext} (h : e.z ≠ 0) (c : Composer) :
    ((assertEqualPublicPoint p e).run c).1 = .ok () := by
  unfold assertEqualPublicPoint
  obtain ⟨a, ha⟩ := Option.isSome_iff_exists.mp ((toAffine?_isSome_iff e).mpr h)
  rw [ha]; rfl

theorem assertEqualPublicPoint_shape (p : Pt) {e₁ e₂ : Ext} (h₁ : e₁.z ≠ 0) (h₂ : e₂.z ≠ 0) :
    ShapeEq (assertEqualPublicPoint p e₁) (assertEqualPublicPoint p e₂) := by
  unfold assertEqualPublicPoint
  obtain ⟨a₁, ha₁⟩ := Option.isSome_iff_exists.mp ((toAffine?_isSome_iff e₁).mpr h₁)
  obtain ⟨a₂, ha₂⟩ := Option.isSome_iff_exists.mp ((toAffine?_isSome_iff e₂).mpr h₂)
  rw [ha₁, ha₂]
  shape_tac

theorem assertEqualPublicPoint_error_iff (p : Pt) (e : Ext) (c : Composer) (err : CErr) :
    ((assertEqualPublicPoint p e).run c).1 = .error err ↔ err = .degenerate ∧ e.z = 0 := by
  by_cases h : e.z = 0
  · rw [assertEqualPublicPoint_degenerate p h]; simp [h]; exact eq_comm
  · rw [assertEqualPublicPoint_ok p h]; simp [h]

/-- `add_point_gates`: the host-side sum (with its pole fallback `edAddOrId`) only feeds witness
    values -/
theorem addPointGates_stable (a b : Pt) : ShapeStable (addPointGates a b) := by
  unfold addPointGates; shape_tac

macro_rules | `(tactic| shape_base) => `(tactic| with_reducible exact addPointGates_stable _ _)

/-- `assert_torsion_free_gates(point, q)`: the host-computed eighth `q` is a value parameter -/
theorem assertTorsionFreeGates_shape (point : Pt) (q₁ q₂ : Pt) :
    ShapeEq (assertTorsionFreeGates point q₁) (assertTorsionFreeGates point q₂) := by
  unfold assertTorsionFreeGates; shape_tac

/-- `assert_torsion_free_point`: on-curve or not, the same gates -/
theorem assertTorsionFreePoint_stable (point : Pt) :
    ShapeStable (assertTorsionFreePoint point) := by
  unfold assertTorsionFreePoint
  exact .getVal_bind fun _ _ => .getVal_bind fun _ _ => assertTorsionFreeGates_shape _ _ _

theorem componentNegPoint_stable (p : Pt) : ShapeStable (componentNegPoint p) := by
  unfold componentNegPoint; shape_tac

macro_rules | `(tactic| shape_base) => `(tactic| with_reducible exact componentNegPoint_stable _)

theorem componentAddPoint_stable (a b : Pt) : ShapeStable (componentAddPoint a b) :=
  addPointGates_stable a b

macro_rules | `(tactic| shape_base) => `(tactic| with_reducible exact componentAddPoint_stable _ _)

theorem componentSubPoint_stable (a b : Pt) : ShapeStable (componentSubPoint a b) := by
  unfold componentSubPoint; shape_tac

theorem selectIdentityGates_stable (bit : Nat) (a : Pt) :
    ShapeStable (selectIdentityGates bit a) := by
  unfold selectIdentityGates; shape_tac

macro_rules
  | `(tactic| shape_base) => `(tactic| with_reducible exact selectIdentityGates_stable _ _)

theorem componentSelectIdentity_stable (bit : Nat) (a : Pt) :
    ShapeStable (componentSelectIdentity bit a) := by
  unfold componentSelectIdentity; shape_tac

theorem componentSelectPoint_stable (bit : Nat) (a b : Pt) :
    ShapeStable (componentSelectPoint bit a b) := by
  unfold componentSelectPoint; shape_tac

theorem componentMulPoint_go_stable (point : Pt) : ∀ (bits : List Nat) (r : Pt),
    ShapeStable (componentMulPoint.go point bits r)
  | [], _ => .pure _
  | b :: bs, r => by
    unfold componentMulPoint.go
    exact .bind (addPointGates_stable _ _) fun _ => .bind (selectIdentityGates_stable _ _) fun _ =>
      .bind (addPointGates_stable _ _) fun _ => componentMulPoint_go_stable point bs _

/-- `component_mul_point` -/
theorem componentMulPoint_stable (jubjub : Nat) (point : Pt) :
    ShapeStable (componentMulPoint jubjub point) := by
  unfold componentMulPoint
  exact .bind (componentDecomposition_stable _ _) fun _ => componentMulPoint_go_stable _ _ _

/-! ### fixed_base.rs -/

theorem assertCanonicalJubjubScalar_stable (scalar : Nat) :
    ShapeStable (assertCanonicalJubjubScalar scalar) := by
  unfold assertCanonicalJubjubScalar; shape_tac

macro_rules
  | `(tactic| shape_base) => `(tactic| with_reducible exact assertCanonicalJubjubScalar_stable _)

/-- the digit-validity test of `append_fixed_base_signed_digits` (some digit outside `{-1,0,1}`) -/
def badDigits (ds : List Int) : Bool := ds.any (fun d => d != 0 && d != 1 && d != -1)

theorem badDigits_eq_false_iff (ds : List Int) :
    badDigits ds = false ↔ ∀ d ∈ ds, d = 0 ∨ d = 1 ∨ d = -1 := by
  unfold badDigits
  rw [List.any_eq_false]
  constructor
  · intro h d hd
    have := h d hd
    by_cases h0 : d = 0
    · exact .inl h0
    · by_cases h1 : d = 1
      · exact .inr (.inl h1)
      · by_cases h2 : d = -1
        · exact .inr (.inr h2)
        · simp [h0, h1, h2] at this
  · intro h d hd
    rcases h d hd with h | h | h <;> simp [h]

theorem length_doublings : ∀ (n : Nat) (p : Pt), (doublings n p).length = n
  | 0, _ => rfl
  | n+1, p => by simp [doublings, length_doublings n]

theorem length_fixedAccs : ∀ (l : List (Int × Pt)) (sa : Nat) (pa : Pt),
    (fixedAccs l sa pa).1.length = l.length
  | [], _, _ => rfl
  | (e, m) :: rest, sa, pa => by
    simp only [fixedAccs, List.length_cons]
    rw [length_fixedAccs rest]

/-- the part of `append_fixed_base_signed_digits` after the digit check, with the host-computed
    data abstracted: `n` rounds are recorded by `wits` -/
def fbTail (jubjub : Nat) (gen : Pt) (n : Nat) (wits : List Nat) : CM (Except CErr Pt) := do
  let mults := (doublings Generated.FIXED_BASE_SIGNED_DIGIT_ROUNDS gen).reverse
  let base := (← get).wit.size
  appendWitnesses wits
  let accX (i : Nat) := base + 4 * i
  let accY (i : Nat) := base + 4 * i + 1
  let accBit (i : Nat) := base + 4 * i + 2
  let xyAlpha (i : Nat) := base + 4 * i + 3
  assertEqualConstant (accX 0) 0 none
  assertEqualConstant (accY 0) 1 none
  assertEqualConstant (accBit 0) 0 none
  appendCustomGates ((mults.zipIdx).map fun (m, i) => Constraint.groupAddFixedBase
      { ql := m.1, qr := m.2, qc := fmul m.1 m.2, a := accX i, b := accY i, c := xyAlpha i, d := accBit i })
  appendGate { a := base + 4 * n, b := base + 4 * n + 1, d := base + 4 * n + 2 }
  assertEqualConstant (accBit FIXED_BASE_LEADING_ZERO_ROUNDS) 0 none
  assertEqual (base + 4 * n + 2) jubjub
  pure (.ok (base + 4 * n, base + 4 * n + 1))

/-- host-side rows of the signed-digit ladder -/
def fbRows (gen : Pt) (digits : List Int) : List (Nat × Pt × Nat) × (Nat × Pt) :=
  fixedAccs (digits.reverse.zip (doublings Generated.FIXED_BASE_SIGNED_DIGIT_ROUNDS gen).reverse)
    0 Pt.id

def fbWits (gen : Pt) (digits : List Int) : List Nat :=
  (fbRows gen digits).1.flatMap (fun (sa, pa, xy) => [pa.1, pa.2, sa, xy]) ++
    [(fbRows gen digits).2.2.1, (fbRows gen digits).2.2.2, (fbRows gen digits).2.1]

theorem length_fbRows (gen : Pt) (digits : List Int) :
    (fbRows gen digits).1.length = min digits.length Generated.FIXED_BASE_SIGNED_DIGIT_ROUNDS := by
  unfold fbRows
  rw [length_fixedAccs]; simp [length_doublings]

theorem length_flatMap4 (rows : List (Nat × Pt × Nat)) :
    (rows.flatMap (fun (sa, pa, xy) => [pa.1, pa.2, sa, xy])).length = 4 * rows.length := by
  induction rows with
  | nil => rfl
  | cons r rs ih => simp only [List.flatMap_cons, List.length_append, ih]; simp; omega

theorem length_fbWits (gen : Pt) (digits : List Int) :
    (fbWits gen digits).length =
      4 * min digits.length Generated.FIXED_BASE_SIGNED_DIGIT_ROUNDS + 3 := by
  unfold fbWits
  rw [List.length_append, length_flatMap4, length_fbRows]; rfl

/-- normal form of `append_fixed_base_signed_digits` -/
theorem appendFixedBaseSignedDigits_eq (jubjub : Nat) (gen : Pt) (digits : List Int) :
    appendFixedBaseSignedDigits jubjub gen digits = (do
      assertCanonicalJubjubScalar jubjub
      if badDigits digits then pure (.error .unsupportedWnaf)
      else fbTail jubjub gen (fbRows gen digits).1.length (fbWits gen digits)) := by
  rfl

theorem fbTail_shape (jubjub : Nat) (gen : Pt) (n : Nat) {w₁ w₂ : List Nat}
    (h : w₁.length = w₂.length) : ShapeEq (fbTail jubjub gen n w₁) (fbTail jubjub gen n w₂) := by
  unfold fbTail
  refine .get_bind fun s₁ s₂ hs => ?_
  rw [hs.wit_size]
  refine .bind (appendWitnesses_shape h) fun _ => ?_
  shape_tac

theorem run_bind_fst {α β : Type} (m : CM α) (k : α → CM β) (c : Composer) :
    ((m >>= k).run c).1 = ((k (m.run c).1).run (m.run c).2).1 := rfl

theorem run_bind_snd {α β : Type} (m : CM α) (k : α → CM β) (c : Composer) :
    ((m >>= k).run c).2 = ((k (m.run c).1).run (m.run c).2).2 := rfl

theorem run_pure_fst {α : Type} (a : α) (c : Composer) : ((pure a : CM α).run c).1 = a := rfl

theorem run_pure_snd {α : Type} (a : α) (c : Composer) : ((pure a : CM α).run c).2 = c := rfl

theorem run_get_fst (c : Composer) : ((get : CM Composer).run c).1 = c := rfl

theorem fbTail_ok (jubjub : Nat) (gen : Pt) (n : Nat) (w : List Nat) (c : Composer) :
    ((fbTail jubjub gen n w).run c).1 = .ok (c.wit.size + 4 * n, c.wit.size + 4 * n + 1) := by
  unfold fbTail
  simp only [run_bind_fst, run_pure_fst, run_get_fst]

/-- `append_fixed_base_signed_digits` with an unsupported digit: the canonical-scalar gates are
    emitted (value-independently), then `.error .unsupportedWnaf` -/
theorem appendFixedBaseSignedDigits_invalid (jubjub : Nat) (gen : Pt) {digits : List Int}
    (h : badDigits digits = true) :
    appendFixedBaseSignedDigits jubjub gen digits =
      (do assertCanonicalJubjubScalar jubjub; pure (.error .unsupportedWnaf)) := by
  rw [appendFixedBaseSignedDigits_eq]; simp only [h, ↓reduceIte]

/-- `append_fixed_base_signed_digits`: same generator (a circuit constant), both digit strings
    valid and of the same effective length — the digits only influence values -/
theorem appendFixedBaseSignedDigits_shape (jubjub : Nat) (gen : Pt) {ds₁ ds₂ : List Int}
    (h₁ : badDigits ds₁ = false) (h₂ : badDigits ds₂ = false)
    (hl : min ds₁.length Generated.FIXED_BASE_SIGNED_DIGIT_ROUNDS =
          min ds₂.length Generated.FIXED_BASE_SIGNED_DIGIT_ROUNDS) :
    ShapeEq (appendFixedBaseSignedDigits jubjub gen ds₁)
      (appendFixedBaseSignedDigits jubjub gen ds₂) := by
  rw [appendFixedBaseSignedDigits_eq, appendFixedBaseSignedDigits_eq]
  simp only [h₁, h₂, Bool.false_eq_true, ↓reduceIte, length_fbRows, hl]
  exact .bind (assertCanonicalJubjubScalar_stable _) fun _ =>
    fbTail_shape _ _ _ (by rw [length_fbWits, length_fbWits, hl])

/-- both digit strings invalid: the same (value-independent) state change and the same error -/
theorem appendFixedBaseSignedDigits_shape_invalid (jubjub : Nat) (gen₁ gen₂ : Pt)
    {ds₁ ds₂ : List Int} (h₁ : badDigits ds₁ = true) (h₂ : badDigits ds₂ = true) :
    ShapeEq (appendFixedBaseSignedDigits jubjub gen₁ ds₁)
      (appendFixedBaseSignedDigits jubjub gen₂ ds₂) := by
  rw [appendFixedBaseSignedDigits_invalid _ _ h₁, appendFixedBaseSignedDigits_invalid _ _ h₂]
  shape_tac

/-- decision logic of `append_fixed_base_signed_digits` -/
theorem appendFixedBaseSignedDigits_error_iff (jubjub : Nat) (gen : Pt) (digits : List Int)
    (c : Composer) (err : CErr) :
    ((appendFixedBaseSignedDigits jubjub gen digits).run c).1 = .error err ↔
      err = .unsupportedWnaf ∧ badDigits digits = true := by
  rw [appendFixedBaseSignedDigits_eq]
  rw [run_bind_fst]
  cases h : badDigits digits
  · simp only [Bool.false_eq_true, ↓reduceIte, and_false, iff_false]
    rw [fbTail_ok]; simp
  · simp only [↓reduceIte, and_true, run_pure_fst, Except.error.injEq]
    exact eq_comm

/-- the state after an error of `append_fixed_base_signed_digits` is the state after
    `assert_canonical_jubjub_scalar` -/
theorem appendFixedBaseSignedDigits_error_state (jubjub : Nat) (gen : Pt) (digits : List Int)
    (c : Composer) (err : CErr)
    (h : ((appendFixedBaseSignedDigits jubjub gen digits).run c).1 = .error err) :
    ((appendFixedBaseSignedDigits jubjub gen digits).run c).2 =
      ((assertCanonicalJubjubScalar jubjub).run c).2 := by
  rw [appendFixedBaseSignedDigits_invalid _ _
    ((appendFixedBaseSignedDigits_error_iff _ _ _ _ _).mp h).2, run_bind_snd, run_pure_snd]

/-! `compute_windowed_naf(2)` always yields 256 digits in `{-1, 0, 1}` -/

theorem wnaf2_go_length : ∀ (n k : Nat) (acc : List Int),
    (wnaf2.go n k acc).length = n + acc.length
  | 0, _, acc => by simp [wnaf2.go]
  | n+1, k, acc => by
    unfold wnaf2.go
    dsimp only
    split
    · split <;> rw [wnaf2_go_length n] <;> simp <;> omega
    · rw [wnaf2_go_length n]; simp; omega

theorem wnaf2_length (k : Nat) : (wnaf2 k).length = 256 := by
  unfold wnaf2; rw [wnaf2_go_length]; rfl

theorem wnaf2_go_digits : ∀ (n k : Nat) (acc : List Int),
    (∀ d ∈ acc, d = 0 ∨ d = 1 ∨ d = -1) → ∀ d ∈ wnaf2.go n k acc, d = 0 ∨ d = 1 ∨ d = -1
  | 0, _, acc, h => by simpa [wnaf2.go] using h
  | n+1, k, acc, h => by
    unfold wnaf2.go
    dsimp only
    split
    · split
      · exact wnaf2_go_digits n _ _ (by
          intro d hd; rcases List.mem_cons.mp hd with rfl | hd
          · exact .inr (.inr rfl)
          · exact h d hd)
      · exact wnaf2_go_digits n _ _ (by
          intro d hd; rcases List.mem_cons.mp hd with rfl | hd
          · exact .inr (.inl rfl)
          · exact h d hd)
    · exact wnaf2_go_digits n _ _ (by
        intro d hd; rcases List.mem_cons.mp hd with rfl | hd
        · exact .inl rfl
        · exact h d hd)

theorem badDigits_wnaf2 (k : Nat) : badDigits (wnaf2 k) = false := by
  rw [badDigits_eq_false_iff]
  unfold wnaf2
  exact wnaf2_go_digits 256 k [] (by simp)

/-- the generator test of `component_mul_generator` -/
def genOk (gen : Ext) : Prop := gen.z ≠ 0 ∧ gen.onCurve = true ∧ gen.primeOrder = true

instance (gen : Ext) : Decidable (genOk gen) := by unfold genOk; infer_instance

theorem componentMulGenerator_run (jubjub : Nat) (gen : Ext) (c : Composer) :
    (componentMulGenerator jubjub gen).run c =
      if ¬ genOk gen then (.error .generatorNotPrime, c)
      else if c.val jubjub ≥ RJ then (.error .scalarMalformed, c)
      else (appendFixedBaseSignedDigits jubjub ((gen.toAffine?).getD Pt.id)
              (wnaf2 (c.val jubjub))).run c := by
  unfold componentMulGenerator
  by_cases hg : genOk gen
  · obtain ⟨hz, h1, h2⟩ := hg
    have hz' : (gen.z == 0) = false := by simpa using hz
    have hc : (gen.z == 0 || !gen.onCurve || !gen.primeOrder) = false := by simp [hz', h1, h2]
    have hg : genOk gen := ⟨hz, h1, h2⟩
    simp only [hc, hg, Bool.false_eq_true, ↓reduceIte, not_true_eq_false]
    by_cases hs : c.val jubjub ≥ RJ
    · simp only [hs, ↓reduceIte]
      simp only [bind, StateT.bind, StateT.run, getVal, hs, ↓reduceIte]; rfl
    · simp only [hs, ↓reduceIte]
      simp only [bind, StateT.bind, StateT.run, getVal, hs, ↓reduceIte]
  · have hc : (gen.z == 0 || !gen.onCurve || !gen.primeOrder) = true := by
      unfold genOk at hg
      cases h1 : gen.onCurve <;> cases h2 : gen.primeOrder <;> simp_all
    simp only [hc, hg, ↓reduceIte, not_false_eq_true]; rfl

/-- decision logic of `component_mul_generator` -/
theorem componentMulGenerator_error_iff (jubjub : Nat) (gen : Ext) (c : Composer) (err : CErr) :
    ((componentMulGenerator jubjub gen).run c).1 = .error err ↔
      (err = .generatorNotPrime ∧ ¬ genOk gen) ∨
      (err = .scalarMalformed ∧ genOk gen ∧ c.val jubjub ≥ RJ) := by
  rw [componentMulGenerator_run]
  by_cases hg : genOk gen
  · by_cases hs : c.val jubjub ≥ RJ
    · simp only [hg, hs, not_true_eq_false, ↓reduceIte, Except.error.injEq, and_false, false_or,
        and_self, and_true]
      exact eq_comm
    · simp only [hg, hs, not_true_eq_false, ↓reduceIte, and_false, false_or]
      rw [appendFixedBaseSignedDigits_error_iff, badDigits_wnaf2]; simp
  · simp only [hg, not_false_eq_true, ↓reduceIte, Except.error.injEq, and_true, false_and,
      and_false, or_false]
    exact eq_comm

/-- an error of `component_mul_generator` leaves the composer untouched -/
theorem componentMulGenerator_error_state (jubjub : Nat) (gen : Ext) (c : Composer) (err : CErr)
    (h : ((componentMulGenerator jubjub gen).run c).1 = .error err) :
    ((componentMulGenerator jubjub gen).run c).2 = c := by
  have h' := (componentMulGenerator_error_iff jubjub gen c err).mp h
  rw [componentMulGenerator_run]
  rcases h' with ⟨_, hg⟩ | ⟨_, hg, hs⟩
  · simp [hg]
  · simp [hg, hs]

/-- `component_mul_generator` on two states of the same shape whose scalars both pass the
    canonical-range test: same result indices, same shape.  (The generator is a circuit
    constant; the scalar value only selects the wNAF digits, which only feed values.) -/
theorem componentMulGenerator_shape (jubjub : Nat) (gen : Ext) {c₁ c₂ : Composer}
    (h : SameShape c₁ c₂) (h₁ : c₁.val jubjub < RJ) (h₂ : c₂.val jubjub < RJ) :
    ((componentMulGenerator jubjub gen).run c₁).1 = ((componentMulGenerator jubjub gen).run c₂).1 ∧
    SameShape ((componentMulGenerator jubjub gen).run c₁).2
      ((componentMulGenerator jubjub gen).run c₂).2 := by
  rw [componentMulGenerator_run, componentMulGenerator_run]
  by_cases hg : genOk gen
  · simp only [hg, not_true_eq_false, ↓reduceIte, ge_iff_le, Nat.not_le.mpr h₁, Nat.not_le.mpr h₂]
    exact appendFixedBaseSignedDigits_shape jubjub _ (badDigits_wnaf2 _) (badDigits_wnaf2 _)
      (by rw [wnaf2_length, wnaf2_length]) c₁ c₂ h
  · simp only [hg, not_false_eq_true, ↓reduceIte]
    exact ⟨trivial, h⟩

/-- success of `component_mul_generator`: exactly when generator and scalar pass -/
theorem componentMulGenerator_ok_iff (jubjub : Nat) (gen : Ext) (c : Composer) :
    (∃ p, ((componentMulGenerator jubjub gen).run c).1 = .ok p) ↔
      genOk gen ∧ c.val jubjub < RJ := by
  constructor
  · rintro ⟨p, hp⟩
    by_cases hg : genOk gen
    · by_cases hs : c.val jubjub ≥ RJ
      · have := (componentMulGenerator_error_iff jubjub gen c .scalarMalformed).mpr
          (.inr ⟨rfl, hg, hs⟩)
        rw [hp] at this; cases this
      · exact ⟨hg, Nat.not_le.mp hs⟩
    · have := (componentMulGenerator_error_iff jubjub gen c .generatorNotPrime).mpr
        (.inl ⟨rfl, hg⟩)
      rw [hp] at this; cases this
  · rintro ⟨hg, hs⟩
    cases hr : ((componentMulGenerator jubjub gen).run c).1 with
    | ok p => exact ⟨p, rfl⟩
    | error e =>
      rcases (componentMulGenerator_error_iff jubjub gen c e).mp hr with ⟨_, h⟩ | ⟨_, _, h⟩
      · exact absurd hg h
      · exact absurd hs (Nat.not_lt.mpr h)

end Composer
end Plonk
