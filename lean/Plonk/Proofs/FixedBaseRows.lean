/-
  The fixed-base scalar-multiplication widget (`fixedComps`, selector `q_fixed_group_add`) in the
  field: with `bit := d' − 2·d` the four components vanish iff `bit ∈ {−1, 0, 1}`,
  `xy_α = bit·q_c`, and `(a', b')` satisfies the cleared-denominator addition of `(a, b)` with
  `(x_α, y_α) = (bit·q_l, bit²·(q_r − 1) + 1)`; when `(q_l, q_r)` is a curve point `β` with
  `q_c = q_l·q_r` and `(a, b)` is on the curve: iff `bit ∈ {−1,0,1}`, `c = bit·q_l·q_r` and
  `(a', b') = (a, b) + bit•β` with `bit•β ∈ {−β, O, β}`.
  No composer glue here, and no use of `JubjubGroupFacts`.
-/
import Plonk.Proofs.EdwardsGroup
import Plonk.Proofs.RowBridge

namespace Plonk
open Plonk

/-- the point selected by a signed digit: `(bit·x_β, bit²·(y_β − 1) + 1)` -/
def selF (bit : F) (β : PtF) : PtF := (bit * β.1, bit^2 * (β.2 - 1) + 1)

@[simp] theorem selF_zero (β : PtF) : selF 0 β = idF := by unfold selF idF; simp
@[simp] theorem selF_one (β : PtF) : selF 1 β = β := by unfold selF; simp
@[simp] theorem selF_neg_one (β : PtF) : selF (-1) β = negF β := by unfold selF negF; simp

/-- `bit·(bit−1)·(bit+1) = 0` says exactly `bit ∈ {0, 1, −1}` (true in any field) -/
theorem bitCons_iff (bit : F) : bit * (bit - 1) * (bit + 1) = 0 ↔ bit = 0 ∨ bit = 1 ∨ bit = -1 := by
  rw [mul_eq_zero, mul_eq_zero, sub_eq_zero, add_eq_zero_iff_eq_neg, or_assoc]

/-- the three digit values are pairwise distinct in `F` (characteristic `≠ 2`) -/
theorem digits_distinct : (0 : F) ≠ 1 ∧ (0 : F) ≠ -1 ∧ (1 : F) ≠ -1 := by
  refine ⟨zero_ne_one, ?_, fun h => neg_one_ne_one_F h.symm⟩
  intro h
  have : (1 : F) = 0 := by linear_combination h
  exact one_ne_zero this

theorem selF_on_curve {bit : F} (hb : bit = 0 ∨ bit = 1 ∨ bit = -1) {β : PtF}
    (hβ : OnCurveP β) : OnCurveP (selF bit β) := by
  rcases hb with h | h | h <;> subst h
  · rw [selF_zero]; exact id_on_curveP
  · rw [selF_one]; exact hβ
  · rw [selF_neg_one]; exact neg_on_curveP hβ

/-- field-level content of the fixed-base row: selectors `ql = x_β`, `qr = y_β`, `qc = x_β·y_β`;
    wires `a = acc_x`, `b = acc_y`, `c = xy_α`; next row `an, bn`; `bit = d' − 2d` -/
def FixedRowF (ql qr qc a b c an bn bit : F) : Prop :=
  bit * (bit - 1) * (bit + 1) = 0 ∧
  c = bit * qc ∧
  an * (1 + c * a * b * dF) = a * (bit^2 * (qr - 1) + 1) + b * (bit * ql) ∧
  bn * (1 - c * a * b * dF) = b * (bit^2 * (qr - 1) + 1) + a * (bit * ql)

theorem fixedComps_lt (ql qr qc a an b bn c d dn : Nat) :
    ∀ x ∈ fixedComps ql qr qc a an b bn c d dn, x < R := by
  intro x hx
  simp only [fixedComps, List.mem_cons, List.mem_nil_iff, or_false] at hx
  rcases hx with h | h | h | h
  · rw [h]; exact fmul_lt _ _
  · rw [h]; exact fsub_lt _ _
  · rw [h]; exact fsub_lt _ _
  · rw [h]; exact fsub_lt _ _

/-- `fixedComps` in the field, `bit := dn − 2·d` -/
theorem fixedComps_zero_iff (ql qr qc a an b bn c d dn : Nat) :
    allZero (fixedComps ql qr qc a an b bn c d dn) = true ↔
      FixedRowF (toF ql) (toF qr) (toF qc) (toF a) (toF b) (toF c) (toF an) (toF bn)
        (toF dn - 2 * toF d) := by
  rw [allZero_iff _ (fixedComps_lt ql qr qc a an b bn c d dn)]
  simp only [fixedComps, List.mem_cons, List.mem_nil_iff, or_false, forall_eq_or_imp, forall_eq,
    toF_fsub, toF_fadd, toF_fmul, toF_fsq, toF_one, toF_EDWARDS_D]
  unfold FixedRowF
  have hb : toF dn - toF d - toF d = toF dn - 2 * toF d := by ring
  rw [hb]
  generalize toF dn - 2 * toF d = bit
  constructor
  · rintro ⟨h1, h2, h3, h4⟩
    exact ⟨h1, by linear_combination -h2, by linear_combination h3, by linear_combination h4⟩
  · rintro ⟨h1, h2, h3, h4⟩
    exact ⟨h1, by linear_combination -h2, by linear_combination h3, by linear_combination h4⟩

/-- With `β = (ql, qr)` on the curve, `qc = ql·qr`, and the accumulator `(a, b)` on the curve, the
    row has exactly one solution per digit: `c = bit·ql·qr` and `(an, bn) = (a, b) + bit•β`. -/
theorem fixedRowF_iff_of_on_curve {ql qr qc a b : F} (hβ : OnCurveF ql qr) (hqc : qc = ql * qr)
    (hacc : OnCurveF a b) (c an bn bit : F) :
    FixedRowF ql qr qc a b c an bn bit ↔
      (bit = 0 ∨ bit = 1 ∨ bit = -1) ∧ c = bit * ql * qr ∧
      (an, bn) = addF (a, b) (selF bit (ql, qr)) := by
  subst hqc
  unfold FixedRowF
  rw [bitCons_iff]
  constructor
  · rintro ⟨hb, hc, hx, hy⟩
    have hsel : OnCurveP (selF bit (ql, qr)) := selF_on_curve hb (β := (ql, qr)) hβ
    obtain ⟨hA, hB⟩ := add_completeP (p := (a, b)) hacc hsel
    have hb3 : bit^3 = bit := by
      rcases hb with h | h | h <;> subst h <;> ring
    -- `c` is the product of the selected point's coordinates
    have hcαβ : c = (bit * ql) * (bit^2 * (qr - 1) + 1) := by
      rw [hc]; linear_combination (ql - ql * qr) * hb3
    unfold selF at hA hB
    simp only at hA hB
    refine ⟨hb, by rw [hc]; ring, ?_⟩
    unfold addF selF
    simp only [Prod.mk.injEq]
    constructor
    · rw [eq_div_iff hA]; rw [hcαβ] at hx; linear_combination hx
    · rw [eq_div_iff hB]; rw [hcαβ] at hy; linear_combination hy
  · rintro ⟨hb, hc, hs⟩
    have hsel : OnCurveP (selF bit (ql, qr)) := selF_on_curve hb (β := (ql, qr)) hβ
    obtain ⟨hA, hB⟩ := add_completeP (p := (a, b)) hacc hsel
    have hb3 : bit^3 = bit := by
      rcases hb with h | h | h <;> subst h <;> ring
    have hcαβ : c = (bit * ql) * (bit^2 * (qr - 1) + 1) := by
      rw [hc]; linear_combination (ql - ql * qr) * hb3
    unfold selF at hA hB
    simp only at hA hB
    unfold addF selF at hs
    simp only [Prod.mk.injEq] at hs
    obtain ⟨hx, hy⟩ := hs
    rw [eq_div_iff hA] at hx
    rw [eq_div_iff hB] at hy
    refine ⟨hb, by rw [hc]; ring, ?_, ?_⟩
    · rw [hcαβ]; linear_combination hx
    · rw [hcαβ]; linear_combination hy

/-- the same, spelled out per digit: `O`, `β`, `−β = (−ql, qr)` -/
theorem fixedRowF_cases_of_on_curve {ql qr qc a b : F} (hβ : OnCurveF ql qr)
    (hqc : qc = ql * qr) (hacc : OnCurveF a b) (c an bn bit : F) :
    FixedRowF ql qr qc a b c an bn bit ↔
      (bit = 0 ∧ c = 0 ∧ (an, bn) = (a, b)) ∨
      (bit = 1 ∧ c = ql * qr ∧ (an, bn) = addF (a, b) (ql, qr)) ∨
      (bit = -1 ∧ c = -(ql * qr) ∧ (an, bn) = addF (a, b) (-ql, qr)) := by
  rw [fixedRowF_iff_of_on_curve hβ hqc hacc]
  have hid : addF (a, b) idF = (a, b) := by unfold addF idF; simp
  constructor
  · rintro ⟨hb, hc, hs⟩
    rcases hb with h | h | h <;> subst h
    · left; rw [selF_zero, hid] at hs; exact ⟨rfl, by rw [hc]; ring, hs⟩
    · right; left; rw [selF_one] at hs; exact ⟨rfl, by rw [hc]; ring, hs⟩
    · right; right; rw [selF_neg_one] at hs; exact ⟨rfl, by rw [hc]; ring, hs⟩
  · rintro (⟨hb, hc, hs⟩ | ⟨hb, hc, hs⟩ | ⟨hb, hc, hs⟩) <;> subst hb
    · exact ⟨Or.inl rfl, by rw [hc]; ring, by rw [selF_zero, hid]; exact hs⟩
    · exact ⟨Or.inr (Or.inl rfl), by rw [hc]; ring, by rw [selF_one]; exact hs⟩
    · exact ⟨Or.inr (Or.inr rfl), by rw [hc]; ring, by rw [selF_neg_one]; exact hs⟩

/-- closure through a fixed-base row: the next accumulator is on the curve -/
theorem fixedRowF_on_curve {ql qr qc a b : F} (hβ : OnCurveF ql qr) (hqc : qc = ql * qr)
    (hacc : OnCurveF a b) {c an bn bit : F} (hr : FixedRowF ql qr qc a b c an bn bit) :
    OnCurveF an bn := by
  obtain ⟨hb, -, hs⟩ := (fixedRowF_iff_of_on_curve hβ hqc hacc c an bn bit).mp hr
  have hsel : OnCurveP (selF bit (ql, qr)) := selF_on_curve hb (β := (ql, qr)) hβ
  have hc : OnCurveP (addF (a, b) (selF bit (ql, qr))) := add_on_curveP (p := (a, b)) hacc hsel
  rw [← hs] at hc
  exact hc

/-- model-level corollary: selectors as laid down by `appendFixedBaseSignedDigits`
    (`ql = m.1, qr = m.2, qc = fmul m.1 m.2` for a curve point `m`) -/
theorem fixedComps_zero_iff_on_curve (ql qr a an b bn c d dn : Nat)
    (hβ : onCurve (ql, qr) = true) (hacc : onCurve (a, b) = true) :
    allZero (fixedComps ql qr (fmul ql qr) a an b bn c d dn) = true ↔
      (toF dn - 2 * toF d = 0 ∨ toF dn - 2 * toF d = 1 ∨ toF dn - 2 * toF d = -1) ∧
      toF c = (toF dn - 2 * toF d) * toF ql * toF qr ∧
      (toF an, toF bn) = addF (toF a, toF b) (selF (toF dn - 2 * toF d) (toF ql, toF qr)) := by
  rw [fixedComps_zero_iff]
  rw [onCurve_iff] at hβ hacc
  exact fixedRowF_iff_of_on_curve hβ (toF_fmul ql qr) hacc _ _ _ _

theorem fixedComps_on_curve (ql qr a an b bn c d dn : Nat)
    (hβ : onCurve (ql, qr) = true) (hacc : onCurve (a, b) = true)
    (hr : allZero (fixedComps ql qr (fmul ql qr) a an b bn c d dn) = true) :
    onCurve (an, bn) = true := by
  rw [fixedComps_zero_iff] at hr
  rw [onCurve_iff] at hβ hacc ⊢
  exact fixedRowF_on_curve hβ (toF_fmul ql qr) hacc hr

/-! ### Signed digits as integers -/

/-- the selected point of an integer digit `e ∈ {−1,0,1}` is the signed multiple `e•β` -/
theorem selF_intCast {e : ℤ} (he : e = 0 ∨ e = 1 ∨ e = -1) (β : PtF) :
    selF (e : F) β = zsmulF e β := by
  rcases he with h | h | h <;> subst h <;> simp

/-- a field digit `bit ∈ {0,1,−1}` comes from exactly one integer digit -/
theorem exists_unique_digit {bit : F} (hb : bit = 0 ∨ bit = 1 ∨ bit = -1) :
    ∃! e : ℤ, (e = 0 ∨ e = 1 ∨ e = -1) ∧ (e : F) = bit := by
  obtain ⟨h01, h0m, h1m⟩ := digits_distinct
  rcases hb with h | h | h <;> subst h
  · refine ⟨0, ⟨Or.inl rfl, by simp⟩, ?_⟩
    rintro e ⟨he | he | he, hv⟩ <;> subst he
    · rfl
    · exact absurd (by simpa using hv.symm) h01
    · exact absurd (by simpa using hv.symm) h0m
  · refine ⟨1, ⟨Or.inr (Or.inl rfl), by simp⟩, ?_⟩
    rintro e ⟨he | he | he, hv⟩ <;> subst he
    · simp at hv
    · rfl
    · exact absurd (by simpa using hv.symm) h1m
  · refine ⟨-1, ⟨Or.inr (Or.inr rfl), by simp⟩, ?_⟩
    rintro e ⟨he | he | he, hv⟩ <;> subst he
    · simp at hv
    · exact absurd (by simpa using hv) h1m
    · rfl

/-! ### The host-side table of doublings `[2^i]G` (`Composer.doublings`) -/

open Composer in
theorem doublings_length (n : Nat) (p : Pt) : (doublings n p).length = n := by
  induction n generalizing p with
  | zero => rfl
  | succ n ih => simp [doublings, ih]

open Composer in
/-- every table entry is on the curve (no hypothesis structure needed) -/
theorem doublings_on_curve (n : Nat) (p : Pt) (hp : onCurve p = true) :
    ∀ m ∈ doublings n p, onCurve m = true := by
  induction n generalizing p with
  | zero => intro m hm; simp [doublings] at hm
  | succ n ih =>
    intro m hm
    simp only [doublings, List.mem_cons] at hm
    rcases hm with rfl | hm
    · exact hp
    · exact ih _ (edAddOrId_on_curve p p hp hp) m hm

open Composer in
/-- entry `i` of the table is `[2^i]G` (uses associativity, which is proved) -/
theorem doublings_getElem? (n : Nat) (p : Pt) (hp : onCurve p = true)
    (i : Nat) (m : Pt) (h : (doublings n p)[i]? = some m) :
    toFP m = smulF (2 ^ i) (toFP p) := by
  induction n generalizing p i with
  | zero => simp [doublings] at h
  | succ n ih =>
    cases i with
    | zero =>
      simp only [doublings, List.getElem?_cons_zero, Option.some.injEq] at h
      subst h; simp
    | succ i =>
      simp only [doublings, List.getElem?_cons_succ] at h
      have hP : OnCurveP (toFP p) := (onCurve_iff_P p).mp hp
      rw [ih _ (edAddOrId_on_curve p p hp hp) i h, toFP_edAddOrId p p hp hp, ← smulF_two,
        ← smulF_mul _ _ hP, pow_succ]

/-! ### Row level: a pure fixed-base gate (`Constraint.groupAddFixedBase`) -/

/-- A gate with `q_fixed_group_add = 1` and no other selector family active (`qarith = 0`, no
    public input): the row check is exactly the four fixed-base components, with the gate's
    `ql, qr, qc` as `x_β, y_β, x_β·y_β`. -/
theorem rowHolds_fixed (g : Gate) (hf : g.qfixed = 1) (ha : g.qarith = 0) (hr : g.qrange = 0)
    (hl : g.qlogic = 0) (hv : g.qvar = 0) (a b c d an bn dn : Nat) :
    rowHolds g a b c d an bn dn 0 = true ↔
      FixedRowF (toF g.ql) (toF g.qr) (toF g.qc) (toF a) (toF b) (toF c) (toF an) (toF bn)
        (toF dn - 2 * toF d) := by
  unfold rowHolds
  have h0 : arithVal g a b c d 0 = 0 := by
    rw [arithVal_eq_zero]; unfold arithF; simp [ha]
  simp [hv, hr, hl, hf, h0, fixedComps_zero_iff]

/-- the gate produced by `Constraint.groupAddFixedBase` satisfies the selector hypotheses and
    keeps `ql, qr, qc` -/
theorem groupAddFixedBase_selectors (s : Constraint) :
    let g := (Constraint.groupAddFixedBase s).toGate
    g.qfixed = 1 ∧ g.qarith = 0 ∧ g.qrange = 0 ∧ g.qlogic = 0 ∧ g.qvar = 0 ∧
      g.ql = s.ql ∧ g.qr = s.qr ∧ g.qc = s.qc := by
  simp [Constraint.groupAddFixedBase, Constraint.fromExternal, Constraint.toGate]

/-! ### The host-side digit selection of `Composer.fixedAccs` -/

/-- the `(scalar addend, point addend)` chosen by `fixedAccs` for a digit `e` and table entry `m`
    (verbatim the `if` of the model) -/
def digitSel (e : ℤ) (m : Pt) : Nat × Pt :=
  if e == 0 then (0, Pt.id) else if e == 1 then (1 % R, m) else (R - 1, edNeg m)

theorem digitSel_spec {e : ℤ} (he : e = 0 ∨ e = 1 ∨ e = -1) (m : Pt) :
    toF (digitSel e m).1 = (e : F) ∧
    toFP (digitSel e m).2 = selF (e : F) (toFP m) ∧
    toF (fmul (digitSel e m).2.1 (digitSel e m).2.2) = (e : F) * toF m.1 * toF m.2 := by
  rcases he with h | h | h <;> subst h
  · exact ⟨by simp [digitSel], by simp [digitSel, toFP_id], by simp [digitSel, Pt.id]⟩
  · simp [digitSel, one_mod_R]
  · have : ((-1 : ℤ) == 0) = false := by decide
    have h2 : ((-1 : ℤ) == 1) = false := by decide
    simp [digitSel, this, h2, toF_R_sub_one, toFP_edNeg]
    simp [edNeg]

theorem digitSel_on_curve {e : ℤ} (m : Pt) (hm : onCurve m = true) :
    onCurve (digitSel e m).2 = true := by
  unfold digitSel
  split
  · exact id_on_curve_model
  · split
    · exact hm
    · exact edNeg_on_curve m hm

/-- completeness direction: the host's assignment for one round satisfies the fixed-base row -/
theorem fixedComps_honest {e : ℤ} (he : e = 0 ∨ e = 1 ∨ e = -1) (m : Pt)
    (hm : onCurve m = true) (a b d : Nat) (hacc : onCurve (a, b) = true) :
    allZero (fixedComps m.1 m.2 (fmul m.1 m.2)
      a (edAddOrId (a, b) (digitSel e m).2).1 b (edAddOrId (a, b) (digitSel e m).2).2
      (fmul (digitSel e m).2.1 (digitSel e m).2.2) d (fadd (fmul 2 d) (digitSel e m).1)) = true := by
  obtain ⟨h1, h2, h3⟩ := digitSel_spec he m
  have hsel := digitSel_on_curve (e := e) m hm
  have hbit : toF (fadd (fmul 2 d) (digitSel e m).1) - 2 * toF d = (e : F) := by
    rw [toF_fadd, toF_fmul, toF_two, h1]; ring
  rw [fixedComps_zero_iff_on_curve m.1 m.2 _ _ _ _ _ _ _ hm hacc, hbit, h3]
  refine ⟨?_, rfl, ?_⟩
  · rcases he with h | h | h <;> subst h <;> simp
  · have := toFP_edAddOrId (a, b) (digitSel e m).2 hacc hsel
    rw [h2] at this
    exact this

open Composer in
/-- `fixedAccs` unfolds through `digitSel` (ties `digitSel` to the model's own code) -/
theorem fixedAccs_cons (e : ℤ) (m : Pt) (rest : List (Int × Pt)) (sa : Nat) (pa : Pt) :
    fixedAccs ((e, m) :: rest) sa pa =
      ((sa, pa, fmul (digitSel e m).2.1 (digitSel e m).2.2) ::
          (fixedAccs rest (fadd (fmul 2 sa) (digitSel e m).1) (edAddOrId pa (digitSel e m).2)).1,
        (fixedAccs rest (fadd (fmul 2 sa) (digitSel e m).1) (edAddOrId pa (digitSel e m).2)).2) := by
  rfl

end Plonk
