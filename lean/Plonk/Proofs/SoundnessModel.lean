/-
  C02 (soundness), algebraic core, on the model's data: a compiled layout `lay` (gate rows
  `lay.gateAt`, dense public inputs `lay.piAt`, permutation `sigmaFn lay`), the row check
  `Plonk.rowHolds`, the numerator polynomial `NumP` of `QuotientNum` (whose coset values are the
  entries of the model's `quotientEvals`, `quotient_entry_coset`).

  The explicit bad sets of the five challenge groups:

  * `betaBad`  (`≤ (4n)²`) and `gammaBadM` (`≤ 8n`)       — fixed by the wire polynomials;
  * `sepBad`   (`≤ 9n·|F|³` of the `|F|⁴` tuples `(ρ,λ,φ,ν)`) — fixed by the wire polynomials;
  * `alphaBadM` (`≤ 2n`)                                  — fixed by wires, `β γ`, `Z`, `(ρ,λ,φ,ν)`;
  * `idBad`    (`≤ max (deg Num) (deg T + n)`)            — fixed by everything and the quotient `T`.
-/
import Plonk.Proofs.SoundnessCore
import Plonk.Proofs.QuotientExact
import Plonk.Proofs.PermutationModel

namespace Plonk.Sound
open Polynomial Plonk Plonk.Quot Plonk.Perm

/-! ### values read off the wire polynomials -/

/-- the wire polynomial of a column -/
def wireP (P : ProverPolys F) (col : Nat) : F[X] :=
  match col with
  | 0 => P.a
  | 1 => P.b
  | 2 => P.c
  | _ => P.d

/-- the value of wire `(col, i)` read off the wire polynomials on the domain -/
noncomputable def wireVal (ω : F) (P : ProverPolys F) (p : Pos) : F := (wireP P p.1).eval (ω ^ p.2)

/-- its canonical representative, the `Nat` handed to the model's `rowHolds` -/
noncomputable def wireNat (ω : F) (P : ProverPolys F) (col i : Nat) : Nat := (wireVal ω P (col, i)).val

theorem toF_wireNat (ω : F) (P : ProverPolys F) (col i : Nat) :
    toF (wireNat ω P col i) = wireVal ω P (col, i) := PolyC19.toF_val _

theorem wireNat_lt (ω : F) (P : ProverPolys F) (col i : Nat) : wireNat ω P col i < R :=
  ZMod.val_lt _

/-- the model's row check of row `i` on the values read off the wire polynomials, next row
    `(i+1) mod n` -/
noncomputable def rowOKP (ω : F) (n : Nat) (lay : Composer) (P : ProverPolys F) (i : Nat) : Prop :=
  rowHolds (lay.gateAt i) (wireNat ω P 0 i) (wireNat ω P 1 i) (wireNat ω P 2 i) (wireNat ω P 3 i)
    (wireNat ω P 0 ((i + 1) % n)) (wireNat ω P 1 ((i + 1) % n)) (wireNat ω P 3 ((i + 1) % n))
    (lay.piAt i) = true

/-- the preprocessed polynomials (selectors, sigmas) and the public-input polynomial interpolate
    the compiled layout -/
structure KeyInterp (ω : F) (n : Nat) (lay : Composer) (P : ProverPolys F) : Prop where
  sel : ∀ i < n, P.Q.map (eval (ω ^ i)) = Quot.selF (lay.gateAt i)
  pi : ∀ i < n, P.pi.eval (ω ^ i) = toF (lay.piAt i)
  s1 : ∀ i < n, P.s1.eval (ω ^ i) = idLabel ω (sigmaFn lay (0, i))
  s2 : ∀ i < n, P.s2.eval (ω ^ i) = idLabel ω (sigmaFn lay (1, i))
  s3 : ∀ i < n, P.s3.eval (ω ^ i) = idLabel ω (sigmaFn lay (2, i))
  s4 : ∀ i < n, P.s4.eval (ω ^ i) = idLabel ω (sigmaFn lay (3, i))

/-- the wire values a row reads -/
noncomputable def wiresAt (ω : F) (n : Nat) (P : ProverPolys F) (i : Nat) : Wires F :=
  ⟨wireVal ω P (0, i), wireVal ω P (1, i), wireVal ω P (2, i), wireVal ω P (3, i),
   wireVal ω P (0, (i + 1) % n), wireVal ω P (1, (i + 1) % n), wireVal ω P (3, (i + 1) % n)⟩

theorem wiresAt_eq_wiresF (ω : F) (n : Nat) (P : ProverPolys F) (i : Nat) :
    wiresAt ω n P i = wiresF (wireNat ω P 0 i) (wireNat ω P 1 i) (wireNat ω P 2 i) (wireNat ω P 3 i)
      (wireNat ω P 0 ((i + 1) % n)) (wireNat ω P 1 ((i + 1) % n)) (wireNat ω P 3 ((i + 1) % n)) := by
  simp only [wiresAt, wiresF, toF_wireNat]

/-- the gate expression of row `i` -/
noncomputable def gateAtRow (ω : F) (n : Nat) (lay : Composer) (P : ProverPolys F) (i : Nat)
    (s : Seps F) : F :=
  gateSumR (Quot.selF (lay.gateAt i)) (wiresAt ω n P i) (toF (lay.piAt i)) s

/-- the permutation step of row `i` (σ values of the layout) -/
noncomputable def permAtRow (ω : F) (n : Nat) (lay : Composer) (P : ProverPolys F) (β γ : F)
    (i : Nat) : F :=
  permNumR β γ (wireVal ω P (0, i)) (wireVal ω P (1, i)) (wireVal ω P (2, i)) (wireVal ω P (3, i))
      (ω ^ i) * P.z.eval (ω ^ i) -
    permDenR β γ (wireVal ω P (0, i)) (wireVal ω P (1, i)) (wireVal ω P (2, i)) (wireVal ω P (3, i))
      (idLabel ω (sigmaFn lay (0, i))) (idLabel ω (sigmaFn lay (1, i)))
      (idLabel ω (sigmaFn lay (2, i))) (idLabel ω (sigmaFn lay (3, i))) * P.z.eval (ω ^ ((i + 1) % n))

/-- the `L₁` term of row `i` -/
noncomputable def l1AtRow (ω : F) (P : ProverPolys F) (i : Nat) : F :=
  (if i = 0 then 1 else 0) * (P.z.eval (ω ^ i) - 1)

/-- **the numerator on the domain**: gate + α·perm + α²·L₁-term -/
theorem NumP_eval_domain {ω : F} {n : ℕ} (hn : 0 < n) (hω : IsPrimitiveRoot ω n) {lay : Composer}
    {P : ProverPolys F} (I : KeyInterp ω n lay P) (β γ α : F) (s : Seps F) {i : ℕ} (hi : i < n) :
    (NumP ω n P ⟨β, γ, α⟩ s).eval (ω ^ i) =
      gateAtRow ω n lay P i s + α * permAtRow ω n lay P β γ i + α ^ 2 * l1AtRow ω P i := by
  rw [numerator_at_root_poly hω (natCast_ne_zero_of_prim hn hω) P _ s hi, I.sel i hi, I.pi i hi,
    I.s1 i hi, I.s2 i hi, I.s3 i hi, I.s4 i hi]
  simp only [numR, permStepR, gateAtRow, permAtRow, l1AtRow, wiresAt, wireVal, wireP]
  ring

/-! ### the bad sets -/

/-- bad `β`: at most `(4n)²` values, fixed by the wire polynomials -/
noncomputable def betaBad (ω : F) (n : Nat) (lay : Composer) (P : ProverPolys F) : Finset F :=
  badBeta (posSet n) (wireVal ω P) (idLabel ω) (sigmaFn lay)

theorem betaBad_card_le (ω : F) (n : Nat) (lay : Composer) (P : ProverPolys F) :
    (betaBad ω n lay P).card ≤ (4 * n) * (4 * n) := by
  have := badBeta_card_le (posSet n) (wireVal ω P) (idLabel ω) (sigmaFn lay)
  rwa [posSet_card] at this

/-- bad `γ` for a given `β`: at most `8n` values, fixed by the wire polynomials -/
noncomputable def gammaBadM (ω : F) (n : Nat) (lay : Composer) (P : ProverPolys F) (β : F) : Finset F :=
  gammaBad (posSet n) (wireVal ω P) (idLabel ω) (sigmaFn lay) β

theorem gammaBadM_card_le (ω : F) (n : Nat) (lay : Composer) (P : ProverPolys F) (β : F) :
    (gammaBadM ω n lay P β).card ≤ 8 * n := by
  have := gammaBad_card_le (posSet n) (wireVal ω P) (idLabel ω) (sigmaFn lay) β
  rw [posSet_card] at this
  unfold gammaBadM; omega

/-- bad `α`: at most `2n` values -/
noncomputable def alphaBadM (ω : F) (n : Nat) (lay : Composer) (P : ProverPolys F) (β γ : F)
    (s : Seps F) : Finset F :=
  alphaBadRows n (fun i => gateAtRow ω n lay P i s) (fun i => permAtRow ω n lay P β γ i)
    (fun i => l1AtRow ω P i)

theorem alphaBadM_card_le (ω : F) (n : Nat) (lay : Composer) (P : ProverPolys F) (β γ : F)
    (s : Seps F) : (alphaBadM ω n lay P β γ s).card ≤ 2 * n :=
  alphaBadRows_card_le _ _ _ _

/-- the tuple of separation challenges as a structure -/
def sepsOf (t : F × F × F × F) : Seps F := ⟨t.1, t.2.1, t.2.2.1, t.2.2.2⟩

/-- bad separation challenges: the tuples for which the gate expression of a FAILING row vanishes -/
noncomputable def sepBad (ω : F) (n : Nat) (lay : Composer) (P : ProverPolys F) :
    Finset (F × F × F × F) :=
  @Finset.filter _ (fun t => ∃ i < n, ¬ rowOKP ω n lay P i ∧ gateAtRow ω n lay P i (sepsOf t) = 0)
    (fun _ => Classical.propDecidable _) Finset.univ

theorem mem_sepBad (ω : F) (n : Nat) (lay : Composer) (P : ProverPolys F) (t : F × F × F × F) :
    t ∈ sepBad ω n lay P ↔
      ∃ i < n, ¬ rowOKP ω n lay P i ∧ gateAtRow ω n lay P i (sepsOf t) = 0 := by
  unfold sepBad
  rw [@Finset.mem_filter _ _ (fun _ => Classical.propDecidable _)]
  simp only [Finset.mem_univ, true_and]

-- (`whnf` of a membership in a filter of `Finset.univ : Finset (F × F × F × F)` would enumerate `F`)
attribute [irreducible] sepBad

/-! ### the chain -/

/-- the gate expression vanishing for a good tuple gives the model's row check -/
theorem rowOK_of_gate_zero (ω : F) (n : Nat) (lay : Composer) (P : ProverPolys F)
    (t : F × F × F × F) (ht : t ∉ sepBad ω n lay P) {i : Nat} (hi : i < n)
    (h : gateAtRow ω n lay P i (sepsOf t) = 0) : rowOKP ω n lay P i := by
  by_contra hne
  apply ht
  rw [mem_sepBad]
  exact ⟨i, hi, hne, h⟩

/-- the row numerator of `permAtRow` is the product of the identity-side factors -/
theorem permNum_eq_factors (ω : F) (P : ProverPolys F) (β γ : F) (i : Nat) :
    permNumR β γ (wireVal ω P (0, i)) (wireVal ω P (1, i)) (wireVal ω P (2, i)) (wireVal ω P (3, i))
        (ω ^ i) =
      (wireVal ω P (0, i) + β * idLabel ω (0, i) + γ) * (wireVal ω P (1, i) + β * idLabel ω (1, i) + γ) *
      (wireVal ω P (2, i) + β * idLabel ω (2, i) + γ) * (wireVal ω P (3, i) + β * idLabel ω (3, i) + γ) := by
  have e0 : toF (kOf 0) = 1 := by show toF 1 = 1; exact toF_one
  have e1 : toF (kOf 1) = (Generated.K1 : F) := rfl
  have e2 : toF (kOf 2) = (Generated.K2 : F) := rfl
  have e3 : toF (kOf 3) = (Generated.K3 : F) := rfl
  simp only [permNumR, idLabel, e0, e1, e2, e3]
  ring

/-- **Permutation identities ⇒ copy constraints.**  If both permutation identities vanish on the
    domain (`permAtRow = 0`, `l1AtRow = 0` for all rows) and `β`, `γ` are outside the explicit bad
    sets, the values read off the wire polynomials respect `σ`. -/
theorem perm_identities_sound (lay : Composer) {k : Nat} (hk : k ≤ 32)
    (hn : lay.gates.size ≤ 2 ^ k) {ω : F} (hω : IsPrimitiveRoot ω (2 ^ k)) (P : ProverPolys F)
    (β γ : F) (hβ : β ∉ betaBad ω (2 ^ k) lay P) (hγ : γ ∉ gammaBadM ω (2 ^ k) lay P β)
    (hperm : ∀ i < 2 ^ k, permAtRow ω (2 ^ k) lay P β γ i = 0)
    (hl1 : ∀ i < 2 ^ k, l1AtRow ω P i = 0) :
    ∀ p, wireVal ω P (sigmaFn lay p) = wireVal ω P p := by
  have hn0 : 0 < 2 ^ k := Nat.pos_of_ne_zero (by positivity)
  have hfac := den_factor_ne_zero (posSet (2 ^ k)) (wireVal ω P) (idLabel ω) (sigmaFn lay) β γ hγ
  -- the two products over the rows agree
  have hprod := accumulator_telescopes_cyclic (n := 2 ^ k) (fun i => P.z.eval (ω ^ i))
    (fun i => permNumR β γ (wireVal ω P (0, i)) (wireVal ω P (1, i)) (wireVal ω P (2, i))
      (wireVal ω P (3, i)) (ω ^ i))
    (fun i => permDenR β γ (wireVal ω P (0, i)) (wireVal ω P (1, i)) (wireVal ω P (2, i))
      (wireVal ω P (3, i)) (idLabel ω (sigmaFn lay (0, i))) (idLabel ω (sigmaFn lay (1, i)))
      (idLabel ω (sigmaFn lay (2, i))) (idLabel ω (sigmaFn lay (3, i))))
    (by
      intro i hi
      have m (col : Nat) (hc : col < 4) := hfac (col, i) ((mem_posSet _ _).mpr ⟨hc, hi⟩)
      unfold permDenR
      exact mul_ne_zero (mul_ne_zero (mul_ne_zero (m 0 (by omega)) (m 1 (by omega)))
        (m 2 (by omega))) (m 3 (by omega)))
    (by
      have := hl1 0 hn0
      rw [l1AtRow, if_pos rfl, one_mul] at this
      exact sub_eq_zero.mp this)
    (fun i hi => hperm i hi)
  have hsound := perm_product_sound_at (posSet (2 ^ k)) (wireVal ω P) (idLabel ω) (sigmaFn lay)
    (fun p hp => (sigmaFn_bijOn lay _ hn).mapsTo hp) (idLabel_injOn_posSet hk hω) β γ hβ hγ
    (by
      rw [prod_posSet_rows, prod_posSet_rows]
      simp only [permNum_eq_factors, permDenR] at hprod
      exact hprod)
  intro p
  by_cases hp : p ∈ posSet (2 ^ k)
  · exact hsound p hp
  · have : ¬ Active lay p := fun ha =>
      hp ((mem_posSet _ p).mpr ⟨ha.1.1, Nat.lt_of_lt_of_le ha.1.2 hn⟩)
    rw [sigmaFn_of_not_active this]

/-- **`soundness_algebraic`, core form.**  See `Props/C02.lean` for the reading. -/
theorem soundness_core (lay : Composer) {k : Nat} (hk : k ≤ 32) (hn : lay.gates.size ≤ 2 ^ k)
    {ω : F} (hω : IsPrimitiveRoot ω (2 ^ k)) (P : ProverPolys F)
    (I : KeyInterp ω (2 ^ k) lay P)
    (β γ : F) (hβ : β ∉ betaBad ω (2 ^ k) lay P) (hγ : γ ∉ gammaBadM ω (2 ^ k) lay P β)
    (t : F × F × F × F) (ht : t ∉ sepBad ω (2 ^ k) lay P)
    (α : F) (hα : α ∉ alphaBadM ω (2 ^ k) lay P β γ (sepsOf t))
    (T : F[X]) (z : F) (hz : z ∉ idBad (NumP ω (2 ^ k) P ⟨β, γ, α⟩ (sepsOf t)) T (2 ^ k))
    (hid : (NumP ω (2 ^ k) P ⟨β, γ, α⟩ (sepsOf t)).eval z = T.eval z * (z ^ 2 ^ k - 1)) :
    (∀ i < 2 ^ k, rowOKP ω (2 ^ k) lay P i) ∧
    (∀ p, wireVal ω P (sigmaFn lay p) = wireVal ω P p) := by
  have hn0 : 0 < 2 ^ k := Nat.pos_of_ne_zero (by positivity)
  have hvan := identity_at_point_vanishes hω.pow_eq_one _ T z hid hz
  have hrows := alpha_separation_rows (2 ^ k) _ _ _ α hα (fun i hi => by
    rw [← NumP_eval_domain hn0 hω I β γ α (sepsOf t) hi]; exact hvan i)
  refine ⟨fun i hi => rowOK_of_gate_zero ω _ lay P t ht hi (hrows i hi).1, ?_⟩
  exact perm_identities_sound lay hk hn hω P β γ hβ hγ (fun i hi => (hrows i hi).2.1)
    (fun i hi => (hrows i hi).2.2)

end Plonk.Sound
