/-
  The variable-base curve-addition widget (`varComps`, selector `q_variable_group_add`) in the
  field: the three components vanish iff the helper wire is `x1·y2` and `(x3, y3)` satisfies the
  cleared-denominator addition law; on curve points (where the law is complete) iff the helper
  is `x1·y2` and `(x3, y3)` IS the Edwards sum — unique output, unique helper wire.
  No composer glue here, and no use of `JubjubGroupFacts`.
-/
import Plonk.Proofs.Edwards
import Plonk.Proofs.RowBridge

namespace Plonk
open Plonk

/-- field-level content of the curve-addition row: wires `a=x1, b=y1, c=x2, d=y2` on the row,
    `a'=x3, b'=y3, d'=h` on the next row -/
def VarRowF (x1 y1 x2 y2 x3 y3 h : F) : Prop :=
  x1 * y2 = h ∧
  x3 * (1 + dF * h * (y1 * x2)) = h + y1 * x2 ∧
  y3 * (1 - dF * h * (y1 * x2)) = y1 * y2 + x1 * x2

theorem varComps_lt (a an b bn c d dn : Nat) : ∀ x ∈ varComps a an b bn c d dn, x < R := by
  intro x hx
  simp only [varComps, List.mem_cons, List.mem_nil_iff, or_false] at hx
  rcases hx with h | h | h <;> (rw [h]; exact fsub_lt _ _)

/-- `varComps` in the field (`x1=a, y1=b, x2=c, y2=d, x3=an, y3=bn, h=dn`) -/
theorem varComps_zero_iff (a an b bn c d dn : Nat) :
    allZero (varComps a an b bn c d dn) = true ↔
      toF a * toF d = toF dn ∧
      toF an * (1 + dF * toF dn * (toF b * toF c)) = toF dn + toF b * toF c ∧
      toF bn * (1 - dF * toF dn * (toF b * toF c)) = toF b * toF d + toF a * toF c := by
  rw [allZero_iff _ (varComps_lt a an b bn c d dn)]
  simp only [varComps, List.mem_cons, List.mem_nil_iff, or_false, forall_eq_or_imp, forall_eq,
    toF_fsub, toF_fadd, toF_fmul, toF_EDWARDS_D]
  constructor
  · rintro ⟨h1, h2, h3⟩
    exact ⟨by linear_combination h1, by linear_combination -h2, by linear_combination -h3⟩
  · rintro ⟨h1, h2, h3⟩
    exact ⟨by linear_combination h1, by linear_combination -h2, by linear_combination -h3⟩

theorem varComps_zero_iff_VarRowF (a an b bn c d dn : Nat) :
    allZero (varComps a an b bn c d dn) = true ↔
      VarRowF (toF a) (toF b) (toF c) (toF d) (toF an) (toF bn) (toF dn) :=
  varComps_zero_iff a an b bn c d dn

/-- On curve points the row has exactly one solution: the helper is `x1·y2` and the output is
    the Edwards sum. -/
theorem varRowF_iff_of_on_curve {x1 y1 x2 y2 : F} (h1 : OnCurveF x1 y1) (h2 : OnCurveF x2 y2)
    (x3 y3 h : F) :
    VarRowF x1 y1 x2 y2 x3 y3 h ↔ h = x1 * y2 ∧ (x3, y3) = addF (x1, y1) (x2, y2) := by
  obtain ⟨hA, hB⟩ := add_complete h1 h2
  unfold VarRowF addF
  simp only [Prod.mk.injEq]
  constructor
  · rintro ⟨e1, e2, e3⟩
    subst e1
    refine ⟨rfl, ?_, ?_⟩
    · rw [eq_div_iff hA]; linear_combination e2
    · rw [eq_div_iff hB]; linear_combination e3
  · rintro ⟨e1, e2, e3⟩
    subst e1
    rw [eq_div_iff hA] at e2
    rw [eq_div_iff hB] at e3
    exact ⟨rfl, by linear_combination e2, by linear_combination e3⟩

/-- `varComps` on on-curve inputs: unique helper wire, unique output (field form) -/
theorem varComps_zero_iff_on_curve (a an b bn c d dn : Nat)
    (h1 : onCurve (a, b) = true) (h2 : onCurve (c, d) = true) :
    allZero (varComps a an b bn c d dn) = true ↔
      toF dn = toF a * toF d ∧ (toF an, toF bn) = addF (toF a, toF b) (toF c, toF d) := by
  rw [varComps_zero_iff_VarRowF]
  rw [onCurve_iff] at h1 h2
  exact varRowF_iff_of_on_curve h1 h2 _ _ _

/-- `varComps` on on-curve inputs and reduced next-row wires: the next-row values are exactly the
    ones the host computes (`fmul x1 y2`, `edAddOrId`). -/
theorem varComps_zero_iff_model (a an b bn c d dn : Nat)
    (h1 : onCurve (a, b) = true) (h2 : onCurve (c, d) = true)
    (han : an < R) (hbn : bn < R) (hdn : dn < R) :
    allZero (varComps a an b bn c d dn) = true ↔
      dn = fmul a d ∧ (an, bn) = edAddOrId (a, b) (c, d) := by
  rw [varComps_zero_iff_on_curve _ _ _ _ _ _ _ h1 h2]
  have hs := toFP_edAddOrId (a, b) (c, d) h1 h2
  have hlt := edAddOrId_lt (a, b) (c, d)
  have e1 : toF dn = toF a * toF d ↔ dn = fmul a d := by
    rw [← toF_fmul, toF_inj_of_lt hdn (fmul_lt _ _)]
  have e2 : (toF an, toF bn) = addF (toF a, toF b) (toF c, toF d) ↔
      (an, bn) = edAddOrId (a, b) (c, d) := by
    have : addF (toF a, toF b) (toF c, toF d) = toFP (edAddOrId (a, b) (c, d)) := hs.symm
    rw [this]
    unfold toFP
    rw [Prod.mk.injEq, toF_inj_of_lt han hlt.1, toF_inj_of_lt hbn hlt.2]
    constructor
    · rintro ⟨e1, e2⟩; exact Prod.ext e1 e2
    · intro e; rw [← e]; exact ⟨rfl, rfl⟩
  rw [e1, e2]

/-- the host's own assignment satisfies the row (completeness direction, on curve points) -/
theorem varComps_honest (a b c d : Nat) (h1 : onCurve (a, b) = true) (h2 : onCurve (c, d) = true) :
    allZero (varComps a (edAddOrId (a, b) (c, d)).1 b (edAddOrId (a, b) (c, d)).2 c d
      (fmul a d)) = true := by
  have hlt := edAddOrId_lt (a, b) (c, d)
  rw [varComps_zero_iff_model _ _ _ _ _ _ _ h1 h2 hlt.1 hlt.2 (fmul_lt _ _)]
  exact ⟨rfl, rfl⟩

/-! ### Doubling (`P = Q`), as used three times by the torsion-free gadget -/

/-- the doubling of a field point -/
def dblF (p : PtF) : PtF := addF p p

theorem dbl_on_curve {p : PtF} (hp : OnCurveP p) : OnCurveP (dblF p) := add_on_curveP hp hp

/-- rows for `(Q, Q)` with `Q` on the curve force `(x3, y3) = 2Q` (and `h = x·y`) -/
theorem varRowF_double_iff {x y : F} (hq : OnCurveF x y) (x3 y3 h : F) :
    VarRowF x y x y x3 y3 h ↔ h = x * y ∧ (x3, y3) = dblF (x, y) :=
  varRowF_iff_of_on_curve hq hq x3 y3 h

/-- … and then the output is again on the curve -/
theorem varRowF_double_on_curve {x y : F} (hq : OnCurveF x y) {x3 y3 h : F}
    (hr : VarRowF x y x y x3 y3 h) : OnCurveF x3 y3 := by
  have := ((varRowF_double_iff hq x3 y3 h).mp hr).2
  have hc : OnCurveP (dblF (x, y)) := dbl_on_curve (p := (x, y)) hq
  rw [← this] at hc
  exact hc

theorem varComps_double_iff (a an b bn dn : Nat) (hq : onCurve (a, b) = true) :
    allZero (varComps a an b bn a b dn) = true ↔
      toF dn = toF a * toF b ∧ (toF an, toF bn) = dblF (toF a, toF b) :=
  varComps_zero_iff_on_curve a an b bn a b dn hq hq

theorem varComps_double_on_curve (a an b bn dn : Nat) (hq : onCurve (a, b) = true)
    (hr : allZero (varComps a an b bn a b dn) = true) : onCurve (an, bn) = true := by
  rw [onCurve_iff]
  rw [onCurve_iff] at hq
  rw [varComps_zero_iff_VarRowF] at hr
  exact varRowF_double_on_curve hq hr

/-- general closure through a row: on-curve inputs and a satisfied row give an on-curve output -/
theorem varComps_on_curve (a an b bn c d dn : Nat)
    (h1 : onCurve (a, b) = true) (h2 : onCurve (c, d) = true)
    (hr : allZero (varComps a an b bn c d dn) = true) : onCurve (an, bn) = true := by
  rw [varComps_zero_iff_on_curve _ _ _ _ _ _ _ h1 h2] at hr
  rw [onCurve_iff] at h1 h2 ⊢
  have hc : OnCurveP (addF (toF a, toF b) (toF c, toF d)) :=
    add_on_curveP (p := (toF a, toF b)) (q := (toF c, toF d)) h1 h2
  rw [← hr.2] at hc
  exact hc

/-! ### Row level: a pure curve-addition gate (`Constraint.groupAddVariableBase`) -/

/-- A gate with `q_variable_group_add = 1` and no other selector family active (`qarith = 0`,
    no public input): the row check is exactly the three curve-addition components. -/
theorem rowHolds_var (g : Gate) (hv : g.qvar = 1) (ha : g.qarith = 0) (hr : g.qrange = 0)
    (hl : g.qlogic = 0) (hf : g.qfixed = 0) (a b c d an bn dn : Nat) :
    rowHolds g a b c d an bn dn 0 = true ↔
      VarRowF (toF a) (toF b) (toF c) (toF d) (toF an) (toF bn) (toF dn) := by
  unfold rowHolds
  have h0 : arithVal g a b c d 0 = 0 := by
    rw [arithVal_eq_zero]; unfold arithF; simp [ha]
  simp [hv, hr, hl, hf, h0, varComps_zero_iff_VarRowF]

/-- the gate produced by `Constraint.groupAddVariableBase` satisfies the selector hypotheses -/
theorem groupAddVariableBase_selectors (s : Constraint) :
    let g := (Constraint.groupAddVariableBase s).toGate
    g.qvar = 1 ∧ g.qarith = 0 ∧ g.qrange = 0 ∧ g.qlogic = 0 ∧ g.qfixed = 0 := by
  simp [Constraint.groupAddVariableBase, Constraint.fromExternal, Constraint.toGate]

end Plonk
