/-
  C11 (truncation / decomposition), math level: facts about naturals and `F = ZMod R` only,
  no composer glue.

  * constants `rLow N`, `rHigh N` (`R - 1 = rHigh N * 2^N + rLow N`),
  * (a) `split_unique`, `split_alias`: the split `H·2^N + L ≡ x (mod R)` has exactly the two
    solutions `x` and `x + R`; the canonical one is the integer `div/mod` split,
  * (b) `canonical_guard_iff`: the `diff / isTop / guard` range checks hold iff `H·2^N + L ≤ R-1`
    (needs `1 ≤ N ≤ 254`; `guard_fails_at_zero` shows that `N = 0` is a genuine exception),
  * (c) `isZero_gadget_sound/_complete`,
  * (d) `decomp_sound`, `decomp_unique`, `decomp_complete`, `decomp_alias_255`
    (+ `decomp_alias_ge_255`, `decomp_alias_255_general`).
-/
import Mathlib.Tactic.Ring
import Mathlib.Tactic.Linarith
import Mathlib.Tactic.LinearCombination
import Mathlib.Algebra.BigOperators.Intervals
import Plonk.Proofs.FieldBridge

namespace Plonk
open Plonk

/-! ### numeric facts about `R` -/

theorem R_lt_pow255 : R < 2 ^ 255 := by decide +kernel
theorem two_pow_254_le_R : 2 ^ 254 ≤ R := by decide +kernel
theorem R_sub_one_lt_two_pow_256 : R - 1 < 2 ^ 256 := by decide +kernel

/-! ### the constants of `assert_canonical_truncation` -/

/-- `r_low` of `assert_canonical_truncation` (the model's own expression) -/
def rLow (N : Nat) : Nat := recomposeBits (R - 1) 0 N
/-- `r_high` of `assert_canonical_truncation` (the model's own expression) -/
def rHigh (N : Nat) : Nat := recomposeBits (R - 1) N 256

theorem rLow_eq (N : Nat) : rLow N = (R - 1) % 2 ^ N := by
  unfold rLow recomposeBits
  have h1 : (R - 1) % 2 ^ N ≤ R - 1 := Nat.mod_le _ _
  have := R_pos
  rw [pow_zero, Nat.div_one, Nat.mod_eq_of_lt (by omega)]

theorem rHigh_eq (N : Nat) : rHigh N = (R - 1) / 2 ^ N := by
  unfold rHigh recomposeBits
  have h1 : (R - 1) / 2 ^ N ≤ R - 1 := Nat.div_le_self _ _
  have := R_pos
  rw [Nat.mod_eq_of_lt R_sub_one_lt_two_pow_256, Nat.mod_eq_of_lt (by omega)]

/-- `R - 1 = rHigh · 2^N + rLow` with `rLow < 2^N` -/
theorem rHigh_rLow (N : Nat) : rHigh N * 2 ^ N + rLow N = R - 1 ∧ rLow N < 2 ^ N := by
  rw [rLow_eq, rHigh_eq]
  exact ⟨by rw [Nat.mul_comm]; exact Nat.div_add_mod _ _, Nat.mod_lt _ (by positivity)⟩

theorem rLow_lt_R (N : Nat) : rLow N < R := by
  have := (rHigh_rLow N).1; have := R_pos; omega

theorem rHigh_lt_R (N : Nat) : rHigh N < R := by
  rw [rHigh_eq]; have := Nat.div_le_self (R - 1) (2 ^ N); have := R_pos; omega

theorem rHigh_lt (N : Nat) (hN : N ≤ 255) : rHigh N < 2 ^ (255 - N) := by
  rw [rHigh_eq, Nat.div_lt_iff_lt_mul (by positivity), ← pow_add]
  have : 255 - N + N = 255 := by omega
  rw [this]; have := R_lt_pow255; omega

/-! ### `pow2`, casts, values of differences -/

theorem toF_pow2 (k : Nat) : toF (pow2 k) = (2 : F) ^ k := by
  unfold pow2; rw [toF_mod]; unfold toF; push_cast; rfl

theorem toF_natCast_pow (k : Nat) : toF (2 ^ k) = (2 : F) ^ k := by
  unfold toF; push_cast; rfl

theorem toF_add (a b : Nat) : toF (a + b) = toF a + toF b := by unfold toF; push_cast; rfl
theorem toF_mul (a b : Nat) : toF (a * b) = toF a * toF b := by unfold toF; push_cast; rfl
theorem toF_val (x : F) : toF x.val = x := by unfold toF; exact ZMod.natCast_zmod_val x
theorem toF_R : toF R = 0 := by unfold toF; exact ZMod.natCast_self R
theorem val_lt_R (x : F) : x.val < R := ZMod.val_lt x

theorem toF_sub_of_le {a b : Nat} (h : b ≤ a) : toF a - toF b = toF (a - b) := by
  unfold toF; rw [Nat.cast_sub h]

theorem toF_sub_of_lt {a b : Nat} (hb : b ≤ R) (h : a < b) : toF a - toF b = toF (R - (b - a)) := by
  have e : R - (b - a) + b = R + a := by omega
  have : toF (R - (b - a)) + toF b = toF R + toF a := by rw [← toF_add, ← toF_add, e]
  rw [toF_R] at this
  linear_combination -this

/-- the canonical value of a difference of two reduced naturals, no wrap -/
theorem val_toF_sub_of_le {a b : Nat} (ha : a < R) (h : b ≤ a) : (toF a - toF b).val = a - b := by
  rw [toF_sub_of_le h, val_toF_of_lt (by omega)]

/-- the canonical value of a difference of two reduced naturals, wrap-around -/
theorem val_toF_sub_of_lt {a b : Nat} (hb : b < R) (h : a < b) :
    (toF a - toF b).val = R - (b - a) := by
  rw [toF_sub_of_lt hb.le h, val_toF_of_lt (by omega)]

/-! ### (a) uniqueness of the split -/

/-- The linear relation `H·2^N + L = x` in `F` with range-checked parts has exactly two integer
    solutions: `x` and the alias `x + R` (because `H·2^N + L < 2^255 < 2R`). -/
theorem split_alias (N H L x : Nat) (hN : N ≤ 255) (hH : H < 2 ^ (255 - N)) (hL : L < 2 ^ N)
    (hx : x < R) (hmod : toF H * (2 : F) ^ N + toF L = toF x) :
    H * 2 ^ N + L = x ∨ H * 2 ^ N + L = x + R := by
  have hT : H * 2 ^ N + L < 2 ^ 255 := by
    have e : 2 ^ 255 = 2 ^ (255 - N) * 2 ^ N := by rw [← pow_add]; congr 1; omega
    have : (H + 1) * 2 ^ N ≤ 2 ^ (255 - N) * 2 ^ N := Nat.mul_le_mul_right _ hH
    rw [e]; nlinarith
  have h1 : toF (H * 2 ^ N + L) = toF x := by rw [toF_add, toF_mul, toF_natCast_pow]; exact hmod
  have h2 : (H * 2 ^ N + L) % R = x := by
    have := (toF_inj_of_lt (Nat.mod_lt (H * 2 ^ N + L) R_pos) hx).mp (by rw [toF_mod]; exact h1)
    exact this
  have h3 := Nat.div_add_mod (H * 2 ^ N + L) R
  have h4 : (H * 2 ^ N + L) / R < 2 := by
    rw [Nat.div_lt_iff_lt_mul R_pos]; have := two_pow_254_le_R; omega
  rw [h2] at h3
  generalize (H * 2 ^ N + L) / R = q at h3 h4
  have : q = 0 ∨ q = 1 := by omega
  rcases this with h | h <;> subst h <;> omega

/-- (a) `split_unique`: among the solutions of the linear relation, the one that is `≤ R - 1`
    is the integer `div/mod` split of `x`. (Field-level relation.) -/
theorem split_unique (N H L x : Nat) (hL : L < 2 ^ N) (hx : x < R)
    (hmod : toF H * (2 : F) ^ N + toF L = toF x) (hcanon : H * 2 ^ N + L ≤ R - 1) :
    H = x / 2 ^ N ∧ L = x % 2 ^ N := by
  have h1 : toF (H * 2 ^ N + L) = toF x := by rw [toF_add, toF_mul, toF_natCast_pow]; exact hmod
  have hlt : H * 2 ^ N + L < R := by have := R_pos; omega
  have h2 : H * 2 ^ N + L = x := (toF_inj_of_lt hlt hx).mp h1
  subst h2
  have hp : 0 < 2 ^ N := by positivity
  constructor
  · rw [Nat.add_comm, Nat.add_mul_div_right _ _ hp, Nat.div_eq_of_lt hL, Nat.zero_add]
  · rw [Nat.add_comm, Nat.add_mul_mod_self_right, Nat.mod_eq_of_lt hL]

/-- (a), congruence form: `H·2^N + L ≡ x (mod R)`. -/
theorem split_unique_modEq (N H L x : Nat) (hL : L < 2 ^ N) (hx : x < R)
    (hmod : H * 2 ^ N + L ≡ x [MOD R]) (hcanon : H * 2 ^ N + L ≤ R - 1) :
    H = x / 2 ^ N ∧ L = x % 2 ^ N := by
  refine split_unique N H L x hL hx ?_ hcanon
  have := (ZMod.natCast_eq_natCast_iff _ _ R).mpr hmod
  rw [← toF_natCast_pow, ← toF_mul, ← toF_add]; exact this

/-- converse of (a): the integer split of a canonical `x` satisfies everything. -/
theorem split_complete (N x : Nat) (hN : N ≤ 255) (hx : x < R) :
    x / 2 ^ N < 2 ^ (255 - N) ∧ x % 2 ^ N < 2 ^ N ∧
    toF (x / 2 ^ N) * (2 : F) ^ N + toF (x % 2 ^ N) = toF x ∧
    x / 2 ^ N * 2 ^ N + x % 2 ^ N ≤ R - 1 := by
  have hp : 0 < 2 ^ N := by positivity
  have e : x / 2 ^ N * 2 ^ N + x % 2 ^ N = x := by rw [Nat.mul_comm]; exact Nat.div_add_mod _ _
  refine ⟨?_, Nat.mod_lt _ hp, ?_, by omega⟩
  · rw [Nat.div_lt_iff_lt_mul hp, ← pow_add]
    have : 255 - N + N = 255 := by omega
    rw [this]; have := R_lt_pow255; omega
  · rw [← toF_natCast_pow, ← toF_mul, ← toF_add, e]

/-! ### (c) the is-zero gadget -/

/-- soundness: `diff·isTop = 0` and `isTop = 1 − diff·inv` pin `isTop` to `[diff = 0]`. -/
theorem isZero_gadget_sound (diff inv isTop : F) (h1 : diff * isTop = 0)
    (h2 : isTop = 1 - diff * inv) :
    (isTop = 1 ∧ diff = 0) ∨ (isTop = 0 ∧ diff ≠ 0) := by
  by_cases hd : diff = 0
  · left; refine ⟨?_, hd⟩; rw [h2, hd]; ring
  · right; refine ⟨?_, hd⟩
    rcases mul_eq_zero.mp h1 with h | h
    · exact absurd h hd
    · exact h

/-- completeness: `inv := diff⁻¹` (which is `0` for `diff = 0`, as the model's
    `(finv? dv).getD 0`) satisfies the gadget. -/
theorem isZero_gadget_complete (diff : F) :
    diff * (1 - diff * diff⁻¹) = 0 ∧ (1 - diff * diff⁻¹ = if diff = 0 then 1 else 0) := by
  by_cases hd : diff = 0
  · subst hd; simp
  · rw [mul_inv_cancel₀ hd]; simp [hd]

/-- `isTop ∈ {0,1}` is a consequence -/
theorem isZero_gadget_bool (diff inv isTop : F) (h1 : diff * isTop = 0)
    (h2 : isTop = 1 - diff * inv) : isTop = 0 ∨ isTop = 1 := by
  rcases isZero_gadget_sound diff inv isTop h1 h2 with h | h
  · exact Or.inr h.1
  · exact Or.inl h.1

/-! ### (b) the canonical guard -/

/-- constant inequality behind the `diff` range check: for `H > rHigh` the field difference
    `rHigh − H` wraps to at least `2^(255−N)`. -/
theorem guard_high_const (N : Nat) (hN1 : 1 ≤ N) : 2 ^ (256 - N) ≤ R + rHigh N + 1 := by
  by_cases h1 : N = 1
  · subst h1; rw [rHigh_eq]; decide +kernel
  · have : 2 ^ (256 - N) ≤ 2 ^ 254 := Nat.pow_le_pow_right (by norm_num) (by omega)
    have := two_pow_254_le_R; omega

/-- constant inequality behind the `guard` range check: for `L > rLow` the field difference
    `rLow − L` wraps to at least `2^N`. -/
theorem guard_low_const (N : Nat) (hN : N ≤ 254) : 2 ^ (N + 1) ≤ R + rLow N + 1 := by
  by_cases h1 : N = 254
  · subst h1; rw [rLow_eq]; decide +kernel
  · have : 2 ^ (N + 1) ≤ 2 ^ 254 := Nat.pow_le_pow_right (by norm_num) (by omega)
    have := two_pow_254_le_R; omega

theorem guard_high_wrap (N H : Nat) (hN1 : 1 ≤ N) (hN : N ≤ 255) (hH : H < 2 ^ (255 - N))
    (hgt : rHigh N < H) : 2 ^ (255 - N) ≤ R - (H - rHigh N) := by
  have h := guard_high_const N hN1
  have e : 2 ^ (256 - N) = 2 * 2 ^ (255 - N) := by
    rw [← pow_succ']; congr 1; omega
  have := rHigh_lt_R N
  omega

theorem guard_low_wrap (N L : Nat) (hN : N ≤ 254) (hL : L < 2 ^ N) (hgt : rLow N < L) :
    2 ^ N ≤ R - (L - rLow N) := by
  have h := guard_low_const N hN
  rw [pow_succ] at h
  have := rLow_lt_R N
  omega

/-- (b) `canonical_guard_iff`: for range-checked `H < 2^(255−N)`, `L < 2^N` (`1 ≤ N ≤ 254`):
    `diff = rHigh − H` is a natural `< 2^(255−N)`, `isTop ∈ {0,1}` with `isTop = 1 ↔ diff = 0`, and
    `guard = isTop·(rLow − L)` is a natural `< 2^N`  **iff**  `H·2^N + L ≤ R − 1`. -/
theorem canonical_guard_iff (N H L : Nat) (hN1 : 1 ≤ N) (hN : N ≤ 254)
    (hH : H < 2 ^ (255 - N)) (hL : L < 2 ^ N) :
    (∃ isTop : F,
        (toF (rHigh N) - toF H).val < 2 ^ (255 - N) ∧
        (isTop = 0 ∨ isTop = 1) ∧ (isTop = 1 ↔ toF (rHigh N) - toF H = 0) ∧
        (isTop * (toF (rLow N) - toF L)).val < 2 ^ N)
      ↔ H * 2 ^ N + L ≤ R - 1 := by
  obtain ⟨hsum, hrl⟩ := rHigh_rLow N
  have hp : 0 < 2 ^ N := by positivity
  have hHR : H < R := by
    have : 2 ^ (255 - N) ≤ 2 ^ 254 := Nat.pow_le_pow_right (by norm_num) (by omega)
    have := two_pow_254_le_R; omega
  have hLR : L < R := by
    have : 2 ^ N ≤ 2 ^ 254 := Nat.pow_le_pow_right (by norm_num) hN
    have := two_pow_254_le_R; omega
  constructor
  · rintro ⟨isTop, hdiff, hbool, htop, hguard⟩
    -- H ≤ rHigh
    have hle : H ≤ rHigh N := by
      by_contra hgt
      have hgt : rHigh N < H := by omega
      rw [val_toF_sub_of_lt hHR hgt] at hdiff
      have := guard_high_wrap N H hN1 (by omega) hH hgt
      omega
    by_cases heq : H = rHigh N
    · -- top block: isTop = 1, so L ≤ rLow
      have h0 : toF (rHigh N) - toF H = 0 := by rw [heq]; ring
      have h1 : isTop = 1 := htop.mpr h0
      rw [h1, one_mul] at hguard
      have hle2 : L ≤ rLow N := by
        by_contra hgt
        have hgt : rLow N < L := by omega
        rw [val_toF_sub_of_lt hLR hgt] at hguard
        have := guard_low_wrap N L hN hL hgt
        omega
      rw [heq]; omega
    · have hlt : H + 1 ≤ rHigh N := by omega
      have : (H + 1) * 2 ^ N ≤ rHigh N * 2 ^ N := Nat.mul_le_mul_right _ hlt
      nlinarith
  · intro hcanon
    have hle : H ≤ rHigh N := by
      by_contra hgt
      have hgt : rHigh N + 1 ≤ H := by omega
      have : (rHigh N + 1) * 2 ^ N ≤ H * 2 ^ N := Nat.mul_le_mul_right _ hgt
      nlinarith
    have hdv : (toF (rHigh N) - toF H).val = rHigh N - H := val_toF_sub_of_le (rHigh_lt_R N) hle
    have hdlt : (toF (rHigh N) - toF H).val < 2 ^ (255 - N) := by
      rw [hdv]; have := rHigh_lt N (by omega); omega
    by_cases heq : H = rHigh N
    · refine ⟨1, hdlt, Or.inr rfl, ⟨fun _ => by rw [heq]; ring, fun _ => rfl⟩, ?_⟩
      have hle2 : L ≤ rLow N := by rw [heq] at hcanon; omega
      rw [one_mul, val_toF_sub_of_le (rLow_lt_R N) hle2]; omega
    · refine ⟨0, hdlt, Or.inl rfl, ⟨fun h => absurd h zero_ne_one, fun h => ?_⟩, ?_⟩
      · exfalso
        have : (toF (rHigh N) - toF H).val = 0 := by rw [h]; exact ZMod.val_zero
        omega
      · rw [zero_mul, ZMod.val_zero]; exact hp

/-- (b)+(c): the gadget exactly as wired in `assert_canonical_truncation` (free witness `inv`). -/
theorem canonical_guard_gadget_iff (N H L : Nat) (hN1 : 1 ≤ N) (hN : N ≤ 254)
    (hH : H < 2 ^ (255 - N)) (hL : L < 2 ^ N) :
    (∃ inv isTop : F,
        (toF (rHigh N) - toF H).val < 2 ^ (255 - N) ∧
        isTop = 1 - (toF (rHigh N) - toF H) * inv ∧ (toF (rHigh N) - toF H) * isTop = 0 ∧
        (isTop * (toF (rLow N) - toF L)).val < 2 ^ N)
      ↔ H * 2 ^ N + L ≤ R - 1 := by
  rw [← canonical_guard_iff N H L hN1 hN hH hL]
  constructor
  · rintro ⟨inv, isTop, h1, h2, h3, h4⟩
    refine ⟨isTop, h1, isZero_gadget_bool _ inv isTop h3 h2, ?_, h4⟩
    rcases isZero_gadget_sound _ inv isTop h3 h2 with ⟨ha, hb⟩ | ⟨ha, hb⟩
    · exact ⟨fun _ => hb, fun _ => ha⟩
    · exact ⟨fun h => by rw [ha] at h; exact absurd h zero_ne_one, fun h => absurd h hb⟩
  · rintro ⟨isTop, h1, h2, h3, h4⟩
    obtain ⟨hc1, hc2⟩ := isZero_gadget_complete (toF (rHigh N) - toF H)
    have e : isTop = 1 - (toF (rHigh N) - toF H) * (toF (rHigh N) - toF H)⁻¹ := by
      rw [hc2]
      by_cases hd : toF (rHigh N) - toF H = 0
      · rw [if_pos hd]; exact h3.mpr hd
      · rw [if_neg hd]
        rcases h2 with h | h
        · exact h
        · exact absurd (h3.mp h) hd
    exact ⟨(toF (rHigh N) - toF H)⁻¹, isTop, h1, e, by rw [e]; exact hc1, h4⟩

/-- field-element form of (b)+(c): `h l : F` are the (range-checked) wire values. -/
theorem canonical_guard_gadget_iff' (N : Nat) (h l : F) (hN1 : 1 ≤ N) (hN : N ≤ 254)
    (hH : h.val < 2 ^ (255 - N)) (hL : l.val < 2 ^ N) :
    (∃ inv isTop : F,
        (toF (rHigh N) - h).val < 2 ^ (255 - N) ∧
        isTop = 1 - (toF (rHigh N) - h) * inv ∧ (toF (rHigh N) - h) * isTop = 0 ∧
        (isTop * (toF (rLow N) - l)).val < 2 ^ N)
      ↔ h.val * 2 ^ N + l.val ≤ R - 1 := by
  have := canonical_guard_gadget_iff N h.val l.val hN1 hN hH hL
  rw [toF_val, toF_val] at this; exact this

/-- **The hypothesis `1 ≤ N` of (b) is necessary**: for `N = 0` (`rHigh 0 = R − 1`, `rLow 0 = 0`)
    the pair `H = R`, `L = 0` passes every check of the guard (with `isTop = 0`) although
    `H·2^0 + L = R > R − 1`. (Harmless for `component_truncate::<0>`, whose output `low` is `0`
    anyway, but the guard does not pin `high` there.) -/
theorem guard_fails_at_zero :
    R < 2 ^ (255 - 0) ∧ 0 < 2 ^ 0 ∧
    (∃ isTop : F,
        (toF (rHigh 0) - toF R).val < 2 ^ (255 - 0) ∧
        (isTop = 0 ∨ isTop = 1) ∧ (isTop = 1 ↔ toF (rHigh 0) - toF R = 0) ∧
        (isTop * (toF (rLow 0) - toF 0)).val < 2 ^ 0) ∧
    ¬ (R * 2 ^ 0 + 0 ≤ R - 1) := by
  have hR := R_gt_one
  have e : toF (rHigh 0) - toF R = toF (R - 1) := by
    rw [rHigh_eq, toF_R, pow_zero, Nat.div_one]; ring
  have hv : (toF (R - 1)).val = R - 1 := val_toF_of_lt (by omega)
  refine ⟨R_lt_pow255, by norm_num, ⟨0, ?_, Or.inl rfl, ⟨fun h => absurd h zero_ne_one, ?_⟩, ?_⟩,
    by omega⟩
  · rw [e, hv]; have := R_lt_pow255; omega
  · intro h; exfalso
    rw [e] at h
    have : (toF (R - 1)).val = 0 := by rw [h]; exact ZMod.val_zero
    omega
  · rw [zero_mul, ZMod.val_zero]; norm_num

/-! ### (a)+(b): the truncation statement -/

/-- soundness of the whole truncation binding at the math level: range-checked `H`, `L`, the
    linear relation and the guard force the integer `div/mod` split. -/
theorem truncation_sound (N H L x : Nat) (hN1 : 1 ≤ N) (hN : N ≤ 254)
    (hH : H < 2 ^ (255 - N)) (hL : L < 2 ^ N) (hx : x < R)
    (hmod : toF H * (2 : F) ^ N + toF L = toF x)
    (hguard : ∃ inv isTop : F,
        (toF (rHigh N) - toF H).val < 2 ^ (255 - N) ∧
        isTop = 1 - (toF (rHigh N) - toF H) * inv ∧ (toF (rHigh N) - toF H) * isTop = 0 ∧
        (isTop * (toF (rLow N) - toF L)).val < 2 ^ N) :
    H = x / 2 ^ N ∧ L = x % 2 ^ N :=
  split_unique N H L x hL hx hmod ((canonical_guard_gadget_iff N H L hN1 hN hH hL).mp hguard)

/-- completeness: the integer split of a canonical `x` passes all checks. -/
theorem truncation_complete (N x : Nat) (hN1 : 1 ≤ N) (hN : N ≤ 254) (hx : x < R) :
    x / 2 ^ N < 2 ^ (255 - N) ∧ x % 2 ^ N < 2 ^ N ∧
    toF (x / 2 ^ N) * (2 : F) ^ N + toF (x % 2 ^ N) = toF x ∧
    ∃ inv isTop : F,
        (toF (rHigh N) - toF (x / 2 ^ N)).val < 2 ^ (255 - N) ∧
        isTop = 1 - (toF (rHigh N) - toF (x / 2 ^ N)) * inv ∧
        (toF (rHigh N) - toF (x / 2 ^ N)) * isTop = 0 ∧
        (isTop * (toF (rLow N) - toF (x % 2 ^ N))).val < 2 ^ N := by
  obtain ⟨h1, h2, h3, h4⟩ := split_complete N x (by omega) hx
  exact ⟨h1, h2, h3, (canonical_guard_gadget_iff N _ _ hN1 hN h1 h2).mpr h4⟩

/-! ### (d) bit decomposition -/

open Finset in
/-- a sum of `n` binary digits is below `2^n` -/
theorem binsum_lt (β : Nat → Nat) (n : Nat) (hβ : ∀ j < n, β j ≤ 1) :
    ∑ j ∈ range n, β j * 2 ^ j < 2 ^ n := by
  induction n with
  | zero => simp
  | succ n ih =>
    rw [sum_range_succ, pow_succ]
    have := ih (fun j hj => hβ j (by omega))
    have h1 : β n * 2 ^ n ≤ 1 * 2 ^ n := Nat.mul_le_mul_right _ (hβ n (by omega))
    omega

open Finset in
/-- the digits of a binary sum are its bits -/
theorem binsum_bit (n : Nat) : ∀ (β : Nat → Nat), (∀ j < n, β j ≤ 1) → ∀ i < n,
    (∑ j ∈ range n, β j * 2 ^ j) / 2 ^ i % 2 = β i := by
  induction n with
  | zero => intro β _ i hi; omega
  | succ n ih =>
    intro β hβ i hi
    rw [sum_range_succ']
    have e : ∑ j ∈ range n, β (j + 1) * 2 ^ (j + 1) = 2 * ∑ j ∈ range n, β (j + 1) * 2 ^ j := by
      rw [mul_sum]; apply sum_congr rfl; intro j _; rw [pow_succ]; ring
    rw [e, pow_zero, mul_one]
    have h0 := hβ 0 (by omega)
    cases i with
    | zero => rw [pow_zero, Nat.div_one]; omega
    | succ i =>
      have h := ih (fun j => β (j + 1)) (fun j hj => hβ (j + 1) (by omega)) i (by omega)
      rw [pow_succ', ← Nat.div_div_eq_div_mul]
      have : (2 * ∑ j ∈ range n, β (j + 1) * 2 ^ j + β 0) / 2 = ∑ j ∈ range n, β (j + 1) * 2 ^ j := by
        omega
      rw [this]; exact h

open Finset in
/-- every natural is the sum of its low bits: `Σ_{i<n} bit v i · 2^i = v % 2^n` -/
theorem sum_bits_eq_mod (v n : Nat) : ∑ i ∈ range n, bit v i * 2 ^ i = v % 2 ^ n := by
  induction n with
  | zero => simp [Nat.mod_one]
  | succ n ih => rw [sum_range_succ, ih, Nat.mod_pow_succ]; unfold bit; ring

theorem bit_le_one (v i : Nat) : bit v i ≤ 1 := by unfold bit; omega

/-- the constraints of `component_decomposition::<N>` at the field level: Boolean bits,
    accumulator `acc₀ = 0`, `acc_{i+1} = 2^i·b_i + acc_i`, and `acc_N = x`. -/
def DecompChain (N : Nat) (b acc : Nat → F) (x : F) : Prop :=
  (∀ i < N, b i * b i = b i) ∧ acc 0 = 0 ∧
  (∀ i < N, acc (i + 1) = (2 : F) ^ i * b i + acc i) ∧ acc N = x

theorem bool_cases {b : F} (h : b * b = b) : b = 0 ∨ b = 1 := by
  have : b * (b - 1) = 0 := by linear_combination h
  rcases mul_eq_zero.mp this with h | h
  · exact Or.inl h
  · exact Or.inr (sub_eq_zero.mp h)

theorem bool_val_le_one {b : F} (h : b * b = b) : b.val ≤ 1 := by
  rcases bool_cases h with h | h
  · rw [h, ZMod.val_zero]; omega
  · rw [h, ← toF_one, val_toF_of_lt R_gt_one]

open Finset in
/-- the accumulator is the cast of the binary sum -/
theorem decomp_acc (N : Nat) (b acc : Nat → F) (x : F) (h : DecompChain N b acc x) :
    ∀ k ≤ N, acc k = toF (∑ j ∈ range k, (b j).val * 2 ^ j) := by
  obtain ⟨_, h0, hstep, _⟩ := h
  intro k hk
  induction k with
  | zero => simpa using h0
  | succ k ih =>
    rw [hstep k (by omega), ih (by omega), sum_range_succ, toF_add, toF_mul, toF_natCast_pow,
      toF_val]
    ring

open Finset in
/-- (d) `decomp_sound`: for `N ≤ 254` the decomposition constraints force `x < 2^N` and the bits
    to be the canonical bits of `x`. -/
theorem decomp_sound (N : Nat) (hN : N ≤ 254) (b acc : Nat → F) (x : F)
    (h : DecompChain N b acc x) :
    x.val = ∑ i ∈ range N, (b i).val * 2 ^ i ∧ x.val < 2 ^ N ∧
    ∀ i < N, (b i).val = bit x.val i := by
  have hβ : ∀ j < N, (b j).val ≤ 1 := fun j hj => bool_val_le_one (h.1 j hj)
  have hlt := binsum_lt (fun j => (b j).val) N hβ
  have hacc := decomp_acc N b acc x h N le_rfl
  rw [h.2.2.2] at hacc
  have hR : 2 ^ N ≤ R :=
    le_trans (Nat.pow_le_pow_right (by norm_num) hN) two_pow_254_le_R
  have hval : x.val = ∑ i ∈ range N, (b i).val * 2 ^ i := by
    rw [hacc, val_toF_of_lt (by omega)]
  refine ⟨hval, by rw [hval]; exact hlt, ?_⟩
  intro i hi
  rw [hval]; unfold bit
  exact (binsum_bit N (fun j => (b j).val) hβ i hi).symm

/-- (d) uniqueness of the bit vector for `N ≤ 254` -/
theorem decomp_unique (N : Nat) (hN : N ≤ 254) (b acc b' acc' : Nat → F) (x : F)
    (h : DecompChain N b acc x) (h' : DecompChain N b' acc' x) : ∀ i < N, b i = b' i := by
  intro i hi
  apply ZMod.val_injective
  rw [(decomp_sound N hN b acc x h).2.2 i hi, (decomp_sound N hN b' acc' x h').2.2 i hi]

/-- (d) completeness, for an arbitrary natural `v` (not necessarily `< R`): its low `N` bits
    satisfy the constraints for `x = v % 2^N` (in `F`). -/
theorem decomp_chain_of_nat (N v : Nat) :
    DecompChain N (fun i => toF (bit v i)) (fun k => toF (v % 2 ^ k)) (toF (v % 2 ^ N)) := by
  refine ⟨?_, by simp [Nat.mod_one], ?_, rfl⟩
  · intro i _
    have : bit v i = 0 ∨ bit v i = 1 := by have := bit_le_one v i; omega
    rcases this with h | h <;> simp [h]
  · intro i _
    simp only
    rw [Nat.mod_pow_succ, toF_add, toF_mul, toF_natCast_pow]; unfold bit; ring

/-- (d) completeness: a field element with `x.val < 2^N` has a satisfying assignment, namely
    its canonical bits (what the model's `componentDecomposition` allocates). -/
theorem decomp_complete (N : Nat) (x : F) (hx : x.val < 2 ^ N) :
    DecompChain N (fun i => toF (bit x.val i)) (fun k => toF (x.val % 2 ^ k)) x := by
  have := decomp_chain_of_nat N x.val
  rw [Nat.mod_eq_of_lt hx, toF_val] at this; exact this

theorem R_mod_two_pow_255 : R % 2 ^ 255 = R := by decide +kernel
theorem bit_R_zero : bit R 0 = 1 := by decide +kernel

/-- (d) `decomp_alias_255`: **uniqueness fails for `N = 255`** (no `< r` guard in
    `component_decomposition`): `x = 0` has two different satisfying bit vectors — all zeros, and
    the 255 bits of `R` itself, which recompose to `R ≡ 0`. -/
theorem decomp_alias_255 :
    DecompChain 255 (fun _ => 0) (fun _ => 0) 0 ∧
    DecompChain 255 (fun i => toF (bit R i)) (fun k => toF (R % 2 ^ k)) 0 ∧
    (fun i => toF (bit R i)) 0 ≠ (fun _ => (0 : F)) 0 := by
  refine ⟨⟨fun _ _ => by ring, rfl, fun _ _ => by ring, rfl⟩, ?_, ?_⟩
  · have := decomp_chain_of_nat 255 R
    rw [R_mod_two_pow_255, toF_R] at this; exact this
  · simp only [bit_R_zero, toF_one]; exact one_ne_zero

/-- the same alias for every width `N ≥ 255` (the crate allows `N ≤ 256`) -/
theorem decomp_alias_ge_255 (N : Nat) (hN : 255 ≤ N) :
    DecompChain N (fun _ => 0) (fun _ => 0) 0 ∧
    DecompChain N (fun i => toF (bit R i)) (fun k => toF (R % 2 ^ k)) 0 ∧
    0 < N ∧ (fun i => toF (bit R i)) 0 ≠ (fun _ => (0 : F)) 0 := by
  refine ⟨⟨fun _ _ => by ring, rfl, fun _ _ => by ring, rfl⟩, ?_, by omega, ?_⟩
  · have := decomp_chain_of_nat N R
    have hlt : R < 2 ^ N :=
      lt_of_lt_of_le R_lt_pow255 (Nat.pow_le_pow_right (by norm_num) hN)
    rw [Nat.mod_eq_of_lt hlt, toF_R] at this; exact this
  · simp only [bit_R_zero, toF_one]; exact one_ne_zero

open Finset in
/-- general form of the alias: every `x` with `x.val + R < 2^255` has two different
    255-bit decompositions (the bits of `x.val` and the bits of `x.val + R`). -/
theorem decomp_alias_255_general (x : F) (hx : x.val + R < 2 ^ 255) :
    DecompChain 255 (fun i => toF (bit x.val i)) (fun k => toF (x.val % 2 ^ k)) x ∧
    DecompChain 255 (fun i => toF (bit (x.val + R) i)) (fun k => toF ((x.val + R) % 2 ^ k)) x ∧
    ∃ i < 255, toF (bit x.val i) ≠ toF (bit (x.val + R) i) := by
  refine ⟨decomp_complete 255 x (by omega), ?_, ?_⟩
  · have := decomp_chain_of_nat 255 (x.val + R)
    rw [Nat.mod_eq_of_lt hx, toF_add, toF_R, toF_val, add_zero] at this; exact this
  · by_contra hne
    have hne : ∀ i < 255, toF (bit x.val i) = toF (bit (x.val + R) i) := by
      intro i hi; by_contra h; exact hne ⟨i, hi, h⟩
    have hb : ∀ i ∈ range 255, bit x.val i * 2 ^ i = bit (x.val + R) i * 2 ^ i := by
      intro i hi
      have hlt : ∀ v, bit v i < R := fun v => by
        have := bit_le_one v i; have := R_gt_one; omega
      rw [(toF_inj_of_lt (hlt _) (hlt _)).mp (hne i (mem_range.mp hi))]
    have h1 := sum_bits_eq_mod x.val 255
    have h2 := sum_bits_eq_mod (x.val + R) 255
    rw [sum_congr rfl hb, h2, Nat.mod_eq_of_lt hx, Nat.mod_eq_of_lt (by omega)] at h1
    have := R_pos; omega

end Plonk
