/-
  `compute_barycentric_eval` and `compute_lagrange_and_barycentric_evaluations`.
-/
import Plonk.Proofs.DomainEval

namespace Plonk.PolyC19
open Polynomial

/-! ### generic list plumbing (no field operations: see the kernel caveat in `DomainLagrange`) -/

theorem foldl_zip_map {α β σ : Type} (l : List α) (g : α → β) (f : σ → α × β → σ) (a : σ) :
    (l.zip (l.map g)).foldl f a = l.foldl (fun acc x => f acc (x, g x)) a := by
  induction l generalizing a with
  | nil => rfl
  | cons x xs ih => simp [ih]

theorem toF_foldl_fadd {α : Type} (g : α → Nat) (l : List α) (a : Nat) :
    toF (l.foldl (fun acc x => fadd acc (g x)) a) = toF a + (l.map (fun x => toF (g x))).sum := by
  induction l generalizing a with
  | nil => simp
  | cons x xs ih => rw [List.foldl_cons, ih, toF_fadd]; simp [add_assoc]

theorem sum_map_filter_of_zero {α : Type} (p : α → Bool) (H : α → F) (l : List α)
    (h0 : ∀ x, p x = false → H x = 0) : ((l.filter p).map H).sum = (l.map H).sum := by
  induction l with
  | nil => rfl
  | cons x xs ih =>
    rw [List.filter_cons]
    cases hp : p x
    · simp [ih, h0 x hp]
    · simp [ih]

theorem sum_map_zipIdx (H : Nat × Nat → F) (l : List Nat) (k : Nat) :
    ((l.zipIdx k).map H).sum = ∑ i ∈ Finset.range l.length, H (l.getD i 0, k + i) := by
  induction l generalizing k with
  | nil => simp
  | cons x xs ih =>
    rw [List.zipIdx_cons, List.map_cons, List.sum_cons, ih, List.length_cons,
      Finset.sum_range_succ']
    rw [add_comm]
    congr 1
    apply Finset.sum_congr rfl
    intro i _
    rw [List.getD_cons_succ]
    congr 2
    omega

/-! ### barycentric evaluation -/

theorem bary_entry {d : Domain} (ok : DomainOK d) (point e i : Nat) (hi : i < 2 ^ 256) :
    toF (fmul (binv (fsub (fmul (fpow d.groupGenInv i) point) 1)) e) *
        toF (fmul (fsub (fpow point d.size) 1) d.sizeInv) =
      toF e * lagrangeF d.size (toF d.groupGen) (toF point) i := by
  rw [← lagrangeF_eq_inv_form ok.size_pos ok.prim]
  simp only [toF_fmul, toF_binv, toF_fsub, toF_fpow _ _ hi, toF_fpow _ _ ok.size_lt, toF_one,
    ok.sizeInv_eq, ok.genInv_eq]
  ring

/-- `compute_barycentric_eval`: `Σ_i evals[i] · L_i(point)` with the closed form `L_i`
    (at a point of the domain both sides are `0`) -/
theorem barycentric_eq {d : Domain} (ok : DomainOK d) (evals : List Nat) (point : Nat)
    (hlen : evals.length ≤ 2 ^ 256) :
    toF (d.barycentric evals point) =
      ∑ i ∈ Finset.range evals.length,
        toF (evals.getD i 0) * lagrangeF d.size (toF d.groupGen) (toF point) i := by
  unfold Domain.barycentric
  simp only []
  rw [batchInversion_eq_map, map_map', foldl_zip_map]
  rw [toF_fmul, toF_foldl_fadd (fun x : Nat × Nat =>
    fmul (binv (fsub (fmul (fpow d.groupGenInv x.2) point) 1)) x.1)]
  rw [sum_map_filter_of_zero, sum_map_zipIdx, toF_zero, zero_add, Finset.sum_mul]
  · apply Finset.sum_congr rfl
    intro i hi
    have hi' : i < evals.length := Finset.mem_range.mp hi
    rw [Nat.zero_add]
    exact bary_entry ok point _ i (by omega)
  · intro x hx
    have h0 : toF x.1 = 0 := by
      rw [toF_eq_zero_iff]
      simpa using hx
    rw [toF_fmul, h0, mul_zero]

end Plonk.PolyC19
