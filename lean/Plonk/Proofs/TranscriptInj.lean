/-
  C03/C04 — the verifier's transcript as a function of the statement, and its injectivity.

  * `String.splitOn` on a one-character separator, in terms of `List.splitOnP` (the legacy
    `splitOnAux` is defined by well-founded recursion on byte positions and does not reduce in the
    kernel); with it `proofOps p` is computed into its explicit 38-operation list `proofOps_eq`.
  * little endian and big endian byte lists determine the number (`scalarBytes_inj`, `u64le_inj`,
    `natToBytesBE_inj`), `G1.toCompressed` is injective on decodable points
    (`G1.toCompressed_inj`, no primality of `P` needed: a decoded point is `(x, ±sqrt(x³+4))` with
    the sign fixed by the flag bit).
  * `statementOps_bytes_inj` / `statementOps_injective`, `v3_binds_s4`.
-/
import Batteries.Data.String.Lemmas
import Mathlib.Tactic.Ring
import Plonk.Proofs.FieldBridge
import Plonk.Model.Verifier

namespace Plonk.SplitAux

open String

theorem splitOnAux_char (c : Char) (l m r : List Char) (acc : List String) :
    splitOnAux (ofList (l ++ m ++ r)) (String.singleton c) ⟨utf8Len l⟩ ⟨utf8Len l + utf8Len m⟩ 0 acc
      = acc.reverse ++ (List.splitOnPPrepend (· == c) r m.reverse).map ofList := by
  rw [splitOnAux]
  have hat := atEnd_of_valid (l ++ m) r
  rw [utf8Len_append] at hat
  cases r with
  | nil =>
    rw [if_pos (hat.mpr rfl)]
    simpa using extract_of_valid l m []
  | cons x r =>
    rw [if_neg (by rw [hat]; simp)]
    have hget := get_of_valid (l ++ m) (x :: r)
    have hnext := next_of_valid (l ++ m) x r
    have hext := extract_of_valid l m (x :: r)
    rw [utf8Len_append] at hget hnext
    simp only [List.headD_cons] at hget
    rw [hget]
    have hsep : (0 : Pos.Raw).get (String.singleton c) = c := by
      simpa using get_of_valid [] [c]
    have hsepn : (0 : Pos.Raw).next (String.singleton c) = ⟨c.utf8Size⟩ := by
      simpa using next_of_valid [] c []
    have hsepe : (⟨c.utf8Size⟩ : Pos.Raw).atEnd (String.singleton c) = true := by
      simpa using (atEnd_of_valid [c] []).mpr rfl
    rw [hsep]
    by_cases h : (x == c) = true
    · rw [if_pos h]
      have hxc : x = c := by simpa using h
      subst hxc
      simp only [hnext, hsepn, hsepe, if_true]
      have : (⟨utf8Len l + utf8Len m + x.utf8Size⟩ : Pos.Raw).unoffsetBy ⟨x.utf8Size⟩
          = ⟨utf8Len l + utf8Len m⟩ := by
        simp [Pos.Raw.unoffsetBy]
      rw [this, hext]
      have ih := splitOnAux_char x (l ++ m ++ [x]) [] r (ofList m :: acc)
      simp only [utf8Len_append, utf8Len_cons, utf8Len_nil, List.append_nil, Nat.zero_add,
        Nat.add_zero, List.append_assoc, List.cons_append, List.nil_append, List.reverse_nil,
        Nat.add_assoc] at ih ⊢
      rw [ih]
      simp [List.splitOnPPrepend_cons_eq_if]
    · rw [if_neg h]
      have : ((⟨utf8Len l + utf8Len m⟩ : Pos.Raw).unoffsetBy 0) = ⟨utf8Len l + utf8Len m⟩ := by
        simp [Pos.Raw.unoffsetBy]
      rw [this, hnext]
      have ih := splitOnAux_char c l (m ++ [x]) r acc
      simp only [utf8Len_append, utf8Len_cons, utf8Len_nil, Nat.zero_add,
        List.append_assoc, List.cons_append, List.nil_append, Nat.add_assoc] at ih ⊢
      rw [ih]
      simp [List.splitOnPPrepend_cons_eq_if, h]
termination_by r.length

theorem splitOn_char (s : String) (c : Char) :
    s.splitOn (String.singleton c) = (List.splitOnP (· == c) s.toList).map ofList := by
  unfold String.splitOn
  have hne : ¬ ((String.singleton c == "") = true) := by
    intro h
    have h2 := congrArg String.toList (eq_of_beq h)
    simp at h2
  rw [if_neg hne]
  have := splitOnAux_char c [] [] s.toList []
  simp only [List.nil_append, utf8Len_nil, Nat.add_zero, List.reverse_nil, String.ofList_toList] at this
  exact this.trans rfl

end Plonk.SplitAux

namespace Plonk
open Plonk.SplitAux

/-! ### `proofOps` as an explicit list -/

theorem splitOn_colon (s : String) :
    s.splitOn ":" = (List.splitOnP (· == ':') s.toList).map String.ofList := by
  rw [show ":" = String.singleton ':' from rfl, splitOn_char]

theorem split_0 : "c:a_comm".splitOn ":" = ["c", "a_comm"] := by rw [splitOn_colon]; rfl
theorem split_1 : "c:b_comm".splitOn ":" = ["c", "b_comm"] := by rw [splitOn_colon]; rfl
theorem split_2 : "c:c_comm".splitOn ":" = ["c", "c_comm"] := by rw [splitOn_colon]; rfl
theorem split_3 : "c:d_comm".splitOn ":" = ["c", "d_comm"] := by rw [splitOn_colon]; rfl
theorem split_4 : "ch:beta".splitOn ":" = ["ch", "beta"] := by rw [splitOn_colon]; rfl
theorem split_5 : "s:beta".splitOn ":" = ["s", "beta"] := by rw [splitOn_colon]; rfl
theorem split_6 : "ch:gamma".splitOn ":" = ["ch", "gamma"] := by rw [splitOn_colon]; rfl
theorem split_7 : "c:z_comm".splitOn ":" = ["c", "z_comm"] := by rw [splitOn_colon]; rfl
theorem split_8 : "ch:alpha".splitOn ":" = ["ch", "alpha"] := by rw [splitOn_colon]; rfl
theorem split_9 : "ch:range separation challenge".splitOn ":" = ["ch", "range separation challenge"] := by rw [splitOn_colon]; rfl
theorem split_10 : "ch:logic separation challenge".splitOn ":" = ["ch", "logic separation challenge"] := by rw [splitOn_colon]; rfl
theorem split_11 : "ch:fixed base separation challenge".splitOn ":" = ["ch", "fixed base separation challenge"] := by rw [splitOn_colon]; rfl
theorem split_12 : "ch:variable base separation challenge".splitOn ":" = ["ch", "variable base separation challenge"] := by rw [splitOn_colon]; rfl
theorem split_13 : "c:t_low_comm".splitOn ":" = ["c", "t_low_comm"] := by rw [splitOn_colon]; rfl
theorem split_14 : "c:t_mid_comm".splitOn ":" = ["c", "t_mid_comm"] := by rw [splitOn_colon]; rfl
theorem split_15 : "c:t_high_comm".splitOn ":" = ["c", "t_high_comm"] := by rw [splitOn_colon]; rfl
theorem split_16 : "c:t_fourth_comm".splitOn ":" = ["c", "t_fourth_comm"] := by rw [splitOn_colon]; rfl
theorem split_17 : "ch:z_challenge".splitOn ":" = ["ch", "z_challenge"] := by rw [splitOn_colon]; rfl
theorem split_18 : "s:a_eval".splitOn ":" = ["s", "a_eval"] := by rw [splitOn_colon]; rfl
theorem split_19 : "s:b_eval".splitOn ":" = ["s", "b_eval"] := by rw [splitOn_colon]; rfl
theorem split_20 : "s:c_eval".splitOn ":" = ["s", "c_eval"] := by rw [splitOn_colon]; rfl
theorem split_21 : "s:d_eval".splitOn ":" = ["s", "d_eval"] := by rw [splitOn_colon]; rfl
theorem split_22 : "s:s_sigma_1_eval".splitOn ":" = ["s", "s_sigma_1_eval"] := by rw [splitOn_colon]; rfl
theorem split_23 : "s:s_sigma_2_eval".splitOn ":" = ["s", "s_sigma_2_eval"] := by rw [splitOn_colon]; rfl
theorem split_24 : "s:s_sigma_3_eval".splitOn ":" = ["s", "s_sigma_3_eval"] := by rw [splitOn_colon]; rfl
theorem split_25 : "s:z_eval".splitOn ":" = ["s", "z_eval"] := by rw [splitOn_colon]; rfl
theorem split_26 : "s:a_w_eval".splitOn ":" = ["s", "a_w_eval"] := by rw [splitOn_colon]; rfl
theorem split_27 : "s:b_w_eval".splitOn ":" = ["s", "b_w_eval"] := by rw [splitOn_colon]; rfl
theorem split_28 : "s:d_w_eval".splitOn ":" = ["s", "d_w_eval"] := by rw [splitOn_colon]; rfl
theorem split_29 : "s:q_arith_eval".splitOn ":" = ["s", "q_arith_eval"] := by rw [splitOn_colon]; rfl
theorem split_30 : "s:q_c_eval".splitOn ":" = ["s", "q_c_eval"] := by rw [splitOn_colon]; rfl
theorem split_31 : "s:q_l_eval".splitOn ":" = ["s", "q_l_eval"] := by rw [splitOn_colon]; rfl
theorem split_32 : "s:q_r_eval".splitOn ":" = ["s", "q_r_eval"] := by rw [splitOn_colon]; rfl
theorem split_33 : "ch:v_challenge".splitOn ":" = ["ch", "v_challenge"] := by rw [splitOn_colon]; rfl
theorem split_34 : "ch:v_w_challenge".splitOn ":" = ["ch", "v_w_challenge"] := by rw [splitOn_colon]; rfl
theorem split_35 : "c:w_z_chall_comm".splitOn ":" = ["c", "w_z_chall_comm"] := by rw [splitOn_colon]; rfl
theorem split_36 : "c:w_z_chall_w_comm".splitOn ":" = ["c", "w_z_chall_w_comm"] := by rw [splitOn_colon]; rfl
theorem split_37 : "ch:u_challenge".splitOn ":" = ["ch", "u_challenge"] := by rw [splitOn_colon]; rfl

/-- `Proof::verify`'s transcript run, computed from `Generated.VERIFIER_TRANSCRIPT` -/
theorem proofOps_eq (p : ProofM) : proofOps p =
    [.msg "a_comm" p.aC.toCompressed,
     .msg "b_comm" p.bC.toCompressed,
     .msg "c_comm" p.cC.toCompressed,
     .msg "d_comm" p.dC.toCompressed,
     .chal "beta",
     .echo "beta" "beta",
     .chal "gamma",
     .msg "z_comm" p.zC.toCompressed,
     .chal "alpha",
     .chal "range separation challenge",
     .chal "logic separation challenge",
     .chal "fixed base separation challenge",
     .chal "variable base separation challenge",
     .msg "t_low_comm" p.tLow.toCompressed,
     .msg "t_mid_comm" p.tMid.toCompressed,
     .msg "t_high_comm" p.tHigh.toCompressed,
     .msg "t_fourth_comm" p.tFourth.toCompressed,
     .chal "z_challenge",
     .msg "a_eval" (Transcript.scalarBytes p.ev.a),
     .msg "b_eval" (Transcript.scalarBytes p.ev.b),
     .msg "c_eval" (Transcript.scalarBytes p.ev.c),
     .msg "d_eval" (Transcript.scalarBytes p.ev.d),
     .msg "s_sigma_1_eval" (Transcript.scalarBytes p.ev.s1),
     .msg "s_sigma_2_eval" (Transcript.scalarBytes p.ev.s2),
     .msg "s_sigma_3_eval" (Transcript.scalarBytes p.ev.s3),
     .msg "z_eval" (Transcript.scalarBytes p.ev.z),
     .msg "a_w_eval" (Transcript.scalarBytes p.ev.aw),
     .msg "b_w_eval" (Transcript.scalarBytes p.ev.bw),
     .msg "d_w_eval" (Transcript.scalarBytes p.ev.dw),
     .msg "q_arith_eval" (Transcript.scalarBytes p.ev.qarith),
     .msg "q_c_eval" (Transcript.scalarBytes p.ev.qc),
     .msg "q_l_eval" (Transcript.scalarBytes p.ev.ql),
     .msg "q_r_eval" (Transcript.scalarBytes p.ev.qr),
     .chal "v_challenge",
     .chal "v_w_challenge",
     .msg "w_z_chall_comm" p.wz.toCompressed,
     .msg "w_z_chall_w_comm" p.wzw.toCompressed,
     .chal "u_challenge"] := by
  unfold proofOps Generated.VERIFIER_TRANSCRIPT
  simp only [List.filterMap_cons, List.filterMap_nil, split_0, split_1, split_2, split_3, split_4, split_5, split_6, split_7, split_8, split_9, split_10, split_11, split_12, split_13, split_14, split_15, split_16, split_17, split_18, split_19, split_20, split_21, split_22, split_23, split_24, split_25, split_26, split_27, split_28, split_29, split_30, split_31, split_32, split_33, split_34, split_35, split_36, split_37]
  rfl
/-! ### byte lists determine the number -/

/-- the first `n` base-256 digits determine the value modulo `256^n` -/
theorem digits_mod_eq (n : Nat) {v w : Nat} (h : ∀ i < n, v / 256 ^ i % 256 = w / 256 ^ i % 256) :
    v % 256 ^ n = w % 256 ^ n := by
  induction n with
  | zero => simp [Nat.mod_one]
  | succ n ih =>
    rw [Nat.mod_pow_succ, Nat.mod_pow_succ, ih (fun i hi => h i (Nat.lt_succ_of_lt hi)),
      h n (Nat.lt_succ_self n)]

theorem natToBytesLE_inj (n : Nat) {v w : Nat} (h : natToBytesLE v n = natToBytesLE w n) :
    v % 256 ^ n = w % 256 ^ n := by
  apply digits_mod_eq
  intro i hi
  unfold natToBytesLE at h
  exact (List.map_inj_left.mp h) i (List.mem_range.mpr hi)

theorem natToBytesBE_inj (n : Nat) {v w : Nat} (h : natToBytesBE v n = natToBytesBE w n) :
    v % 256 ^ n = w % 256 ^ n := by
  apply digits_mod_eq
  intro i hi
  unfold natToBytesBE at h
  have := (List.map_inj_left.mp h) (n - 1 - i) (List.mem_range.mpr (by omega))
  have e : n - 1 - (n - 1 - i) = i := by omega
  simpa [e] using this

theorem R_lt_256_pow_32 : R < 256 ^ 32 := by decide +kernel

/-- `BlsScalar::to_bytes` is injective on reduced values -/
theorem scalarBytes_inj {x y : Nat} (h : Transcript.scalarBytes x = Transcript.scalarBytes y) :
    x % R = y % R := by
  have h1 : (x % R) % 256 ^ 32 = (y % R) % 256 ^ 32 := by
    apply digits_mod_eq
    intro i hi
    unfold Transcript.scalarBytes at h
    exact (List.map_inj_left.mp h) i (List.mem_range.mpr hi)
  have hx : x % R < 256 ^ 32 := lt_trans (Nat.mod_lt _ R_pos) R_lt_256_pow_32
  have hy : y % R < 256 ^ 32 := lt_trans (Nat.mod_lt _ R_pos) R_lt_256_pow_32
  rwa [Nat.mod_eq_of_lt hx, Nat.mod_eq_of_lt hy] at h1

theorem scalarBytes_eq_iff {x y : Nat} :
    Transcript.scalarBytes x = Transcript.scalarBytes y ↔ x % R = y % R := by
  constructor
  · exact scalarBytes_inj
  · intro h; unfold Transcript.scalarBytes; rw [h]

/-- `append_u64` binds its argument as a 64-bit number -/
theorem u64le_inj {x y : Nat} (h : u64le x = u64le y) : x % 2 ^ 64 = y % 2 ^ 64 := by
  have h1 : x % 256 ^ 8 = y % 256 ^ 8 := by
    apply digits_mod_eq
    intro i hi
    unfold u64le at h
    exact (List.map_inj_left.mp h) i (List.mem_range.mpr hi)
  have e : (256 : Nat) ^ 8 = 2 ^ 64 := by norm_num
  rwa [e] at h1

/-! ### `G1.toCompressed` is injective on decodable points -/

theorem P_pos : 0 < P := by decide +kernel
theorem P_odd : P % 2 = 1 := by decide +kernel
theorem P_lt_32 : P ≤ 32 * 256 ^ 47 := by decide +kernel

theorem natToBytesBE_succ (v n : Nat) :
    natToBytesBE v (n + 1) = (v / 256 ^ n % 256) :: natToBytesBE v n := by
  unfold natToBytesBE
  rw [List.range_succ_eq_map, List.map_cons, List.map_map]
  congr 1
  apply List.map_congr_left
  intro i _
  have e : n + 1 - 1 - (i + 1) = n - 1 - i := by omega
  simp only [Function.comp_apply, Nat.succ_eq_add_one, e]

theorem toCompressed_aff (x y : Nat) :
    G1.toCompressed (.aff x y) =
      ((x % P) / 256 ^ 47 % 256 + 0x80 + (if plexLargest y then 0x20 else 0)) ::
        natToBytesBE (x % P) 47 := by
  simp only [G1.toCompressed]
  rw [show natToBytesBE (x % P) 48 = _ from natToBytesBE_succ (x % P) 47]

theorem toCompressed_inf : G1.toCompressed .inf = 192 :: List.replicate 47 0 := rfl

theorem top_byte_lt (x : Nat) : (x % P) / 256 ^ 47 < 32 := by
  have h := Nat.mod_lt x P_pos
  have h2 := P_lt_32
  rw [Nat.div_lt_iff_lt_mul (by positivity)]
  omega

/-- the compressed encoding determines the infinity flag, the reduced `x` and the sign bit -/
theorem toCompressed_aff_inj {x y x' y' : Nat}
    (h : G1.toCompressed (.aff x y) = G1.toCompressed (.aff x' y')) :
    x % P = x' % P ∧ plexLargest y = plexLargest y' := by
  rw [toCompressed_aff, toCompressed_aff, List.cons.injEq] at h
  obtain ⟨hh, ht⟩ := h
  have ht' := natToBytesBE_inj 47 ht
  have ha := top_byte_lt x
  have ha' := top_byte_lt x'
  rw [Nat.mod_eq_of_lt (lt_trans ha (by norm_num)), Nat.mod_eq_of_lt (lt_trans ha' (by norm_num))] at hh
  have hd := Nat.div_add_mod (x % P) (256 ^ 47)
  have hd' := Nat.div_add_mod (x' % P) (256 ^ 47)
  cases hs : plexLargest y <;> cases hs' : plexLargest y' <;> simp only [hs, hs'] at hh <;>
    simp only [Bool.false_eq_true, if_false, if_true] at hh
  · refine ⟨?_, rfl⟩
    have : x % P / 256 ^ 47 = x' % P / 256 ^ 47 := by omega
    rw [← hd, ← hd', this, ht']
  · omega
  · omega
  · refine ⟨?_, rfl⟩
    have : x % P / 256 ^ 47 = x' % P / 256 ^ 47 := by omega
    rw [← hd, ← hd', this, ht']

theorem toCompressed_inf_ne_aff (x y : Nat) : G1.toCompressed .inf ≠ G1.toCompressed (.aff x y) := by
  rw [toCompressed_aff, toCompressed_inf]
  intro h
  rw [List.cons.injEq] at h
  have ha := top_byte_lt x
  rw [Nat.mod_eq_of_lt (lt_trans ha (by norm_num))] at h
  have := h.1
  split at this <;> omega

theorem powModF_lt (fuel b e m acc : Nat) (hm : 0 < m) (hacc : acc < m) :
    powModF fuel b e m acc < m := by
  induction fuel generalizing b e acc with
  | zero => simpa [powModF] using hacc
  | succ f ih =>
    unfold powModF
    split
    · exact hacc
    · apply ih
      split
      · exact Nat.mod_lt _ hm
      · exact hacc

theorem ppow_lt (a e : Nat) : ppow a e < P := by
  unfold ppow
  exact powModF_lt _ _ _ _ _ P_pos (Nat.mod_lt _ P_pos)

/-- a point some 48-byte string decodes to (`from_compressed_unchecked`; every point of a decoded
    proof or verifier key is of this kind) -/
def G1.Decodable (p : G1) : Prop := ∃ bs, G1.fromCompressedUnchecked? bs = some p

theorem G1.Decodable.of_fromCompressed {bs : List Nat} {p : G1} (h : G1.fromCompressed? bs = some p) :
    G1.Decodable p := by
  unfold G1.fromCompressed? at h
  split at h
  · next q hq =>
    split at h
    · injection h with h; subst h; exact ⟨bs, hq⟩
    · cases h
  · cases h

/-- the shape of a decoded affine point: reduced `x`, and `y` one of the two roots of `x³ + 4`
    computed by `psqrt?` -/
theorem G1.Decodable.aff {x y : Nat} (h : G1.Decodable (.aff x y)) :
    x < P ∧ ∃ y0, y0 < P ∧ psqrt? (padd (pmul (psq x) x) 4) = some y0 ∧ (y = y0 ∨ y = pneg y0) := by
  obtain ⟨bs, h⟩ := h
  unfold G1.fromCompressedUnchecked? at h
  simp only at h
  generalize bytesToNatBE ((bs.headD 0 % 32) :: bs.tail) = X at h
  split at h
  · cases h
  split at h
  · cases h
  split at h
  · cases h
  split at h
  · cases h
  next y0 hy0 =>
  split at h
  · injection h with h
    injection h with hx hy
    subst hx
    refine ⟨by omega, y0, ?_, hy0, ?_⟩
    · unfold psqrt? at hy0
      simp only at hy0
      split at hy0
      · injection hy0 with hy0; rw [← hy0]; exact ppow_lt _ _
      · cases hy0
    · rw [← hy]; split
      · right; rfl
      · left; rfl
  · cases h

theorem plexLargest_pneg {y0 : Nat} (hy : y0 < P) (hne : y0 ≠ pneg y0) :
    plexLargest (pneg y0) = !plexLargest y0 := by
  have hP := P_odd
  unfold pneg at hne ⊢
  unfold plexLargest
  rw [Nat.mod_eq_of_lt hy] at hne ⊢
  by_cases h0 : y0 = 0
  · subst h0; simp at hne
  · have h1 : (P - y0) % P = P - y0 := Nat.mod_eq_of_lt (by omega)
    simp only [h1]
    generalize P = p at *
    by_cases hc : y0 > (p - 1) / 2
    · have : ¬ (p - y0 > (p - 1) / 2) := by omega
      simp [hc, this]
    · have : (p - y0 > (p - 1) / 2) := by omega
      simp [hc, this]

/-- **`G1.toCompressed` is injective on decodable points.** -/
theorem G1.toCompressed_inj {p q : G1} (hp : G1.Decodable p) (hq : G1.Decodable q)
    (h : p.toCompressed = q.toCompressed) : p = q := by
  cases p with
  | inf =>
    cases q with
    | inf => rfl
    | aff x y => exact absurd h (toCompressed_inf_ne_aff x y)
  | aff x y =>
    cases q with
    | inf => exact absurd h.symm (toCompressed_inf_ne_aff x y)
    | aff x' y' =>
      obtain ⟨hx, hs⟩ := toCompressed_aff_inj h
      obtain ⟨hxP, y0, hy0, hsq, hy⟩ := hp.aff
      obtain ⟨hxP', y0', hy0', hsq', hy'⟩ := hq.aff
      rw [Nat.mod_eq_of_lt hxP, Nat.mod_eq_of_lt hxP'] at hx
      subst hx
      rw [hsq] at hsq'
      have e : y0 = y0' := Option.some.inj hsq'
      subst e
      by_cases hne : y0 = pneg y0
      · rcases hy with hy | hy <;> rcases hy' with hy' | hy' <;> rw [hy, hy'] <;>
          first | rfl | (rw [← hne])
      · have hflip := plexLargest_pneg hy0 hne
        rcases hy with hy | hy <;> rcases hy' with hy' | hy'
        · rw [hy, hy']
        · rw [hy, hy', hflip] at hs; cases hb : plexLargest y0 <;> simp [hb] at hs
        · rw [hy, hy', hflip] at hs; cases hb : plexLargest y0 <;> simp [hb] at hs
        · rw [hy, hy']

/-! ### the statement transcript -/

/-- `Transcript::base` / `base_v3` as an explicit 20-operation list -/
theorem baseOps_eq (label : List Nat) (k : VKey) (c : Nat) (v3 : Bool) :
    baseOps label k c v3 =
      [.msg "dom-sep" label, .msg "dom-sep" (Strobe.strBytes "circuit_size"), .u64 "n" c,
       .msg "q_m" k.qm.toCompressed, .msg "q_l" k.ql.toCompressed, .msg "q_r" k.qr.toCompressed,
       .msg "q_o" k.qo.toCompressed, .msg "q_c" k.qc.toCompressed, .msg "q_f" k.qf.toCompressed,
       .msg "q_arith" k.qarith.toCompressed, .msg "q_range" k.qrange.toCompressed,
       .msg "q_logic" k.qlogic.toCompressed, .msg "q_variable_group_add" k.qvar.toCompressed,
       .msg "q_fixed_group_add" k.qfixed.toCompressed, .msg "s_sigma_1" k.s1.toCompressed,
       .msg "s_sigma_2" k.s2.toCompressed, .msg "s_sigma_3" k.s3.toCompressed,
       .msg "s_sigma_4" (if v3 then k.s4 else k.s1).toCompressed,
       .msg "dom-sep" (Strobe.strBytes "circuit_size"), .u64 "n" k.n] := rfl

theorem baseOps_length (label : List Nat) (k : VKey) (c : Nat) (v3 : Bool) :
    (baseOps label k c v3).length = 20 := by rw [baseOps_eq]; rfl

/-- a `"pi"` message -/
def TOp.isPi : TOp → Prop
  | .msg l _ => l = "pi"
  | _ => False

theorem append_sep_inj {α : Type} (Q : α → Prop) :
    ∀ {A A' : List α} {b b' : α} {B B' : List α}, (∀ a ∈ A, Q a) → (∀ a ∈ A', Q a) → ¬ Q b → ¬ Q b' →
      A ++ b :: B = A' ++ b' :: B' → A = A' ∧ b :: B = b' :: B'
  | [], [], _, _, _, _, _, _, _, _, h => ⟨rfl, h⟩
  | [], a' :: A', b, b', B, B', _, hA', hb, _, h => by
    simp only [List.nil_append, List.cons_append, List.cons.injEq] at h
    exact absurd (h.1 ▸ hA' a' (List.mem_cons_self ..)) hb
  | a :: A, [], b, b', B, B', hA, _, _, hb', h => by
    simp only [List.nil_append, List.cons_append, List.cons.injEq] at h
    exact absurd (h.1 ▸ hA a (List.mem_cons_self ..)) hb'
  | a :: A, a' :: A', b, b', B, B', hA, hA', hb, hb', h => by
    simp only [List.cons_append, List.cons.injEq] at h
    obtain ⟨h1, h2⟩ := append_sep_inj Q (fun x hx => hA x (List.mem_cons_of_mem _ hx))
      (fun x hx => hA' x (List.mem_cons_of_mem _ hx)) hb hb' h.2
    exact ⟨by rw [h.1, h1], h2⟩

/-- the byte-level content of one statement: everything the transcript absorbs -/
structure StatementBytes where
  label : List Nat
  constraints : Nat
  vkN : Nat
  vkComms : List (List Nat)
  pis : List Nat
  proofComms : List (List Nat)
  evals : List Nat
  deriving DecidableEq

/-- the transcript-bound verifier-key commitments, in the seeding order: all fifteen for
    `v3 = true`; for `v3 = false` (V1/V2) `s_sigma_4` is **not** bound (`s_sigma_1` is absorbed a
    second time under the label `"s_sigma_4"`) -/
def VKey.boundComms (k : VKey) (v3 : Bool) : List G1 :=
  [k.qm, k.ql, k.qr, k.qo, k.qc, k.qf, k.qarith, k.qrange, k.qlogic, k.qvar, k.qfixed, k.s1, k.s2, k.s3] ++
    (if v3 then [k.s4] else [])

def ProofM.comms (p : ProofM) : List G1 :=
  [p.aC, p.bC, p.cC, p.dC, p.zC, p.tLow, p.tMid, p.tHigh, p.tFourth, p.wz, p.wzw]

def Evals.toList (e : Evals) : List Nat :=
  [e.a, e.b, e.c, e.d, e.s1, e.s2, e.s3, e.z, e.aw, e.bw, e.dw, e.qarith, e.qc, e.ql, e.qr]

/-- what `statementOps` absorbs, reduced to canonical bytes / residues -/
def statementBytes (label : List Nat) (k : VKey) (c : Nat) (v3 : Bool) (pis : List Nat) (p : ProofM) :
    StatementBytes :=
  { label := label, constraints := c, vkN := k.n,
    vkComms := (k.boundComms v3).map G1.toCompressed,
    pis := pis.map (· % R),
    proofComms := p.comms.map G1.toCompressed,
    evals := p.ev.toList.map (· % R) }

theorem pis_map_inj {pis pis' : List Nat}
    (h : pis.map (fun pi => TOp.msg "pi" (Transcript.scalarBytes pi)) =
         pis'.map (fun pi => TOp.msg "pi" (Transcript.scalarBytes pi))) :
    pis.map (· % R) = pis'.map (· % R) := by
  induction pis generalizing pis' with
  | nil => cases pis' with
    | nil => rfl
    | cons a t => simp at h
  | cons a t ih => cases pis' with
    | nil => simp at h
    | cons a' t' =>
      simp only [List.map_cons, List.cons.injEq, TOp.msg.injEq, true_and] at h
      simp only [List.map_cons, List.cons.injEq]
      exact ⟨scalarBytes_inj h.1, ih h.2⟩

/-- **The statement transcript is injective (byte level, no hypotheses).** Two statements with
    the same operation list have the same label, the same `constraints`, the same `vk.n`, the same
    compressed bytes of every transcript-bound verifier-key commitment, the same public inputs
    (same length, same order, same residues mod `r`), the same compressed bytes of all eleven proof
    commitments and the same residues of all fifteen evaluations. -/
theorem statementOps_bytes_inj {label label' : List Nat} {k k' : VKey} {c c' : Nat} {v3 : Bool}
    {pis pis' : List Nat} {p p' : ProofM}
    (h : statementOps label k c v3 pis p = statementOps label' k' c' v3 pis' p') :
    statementBytes label k c v3 pis p = statementBytes label' k' c' v3 pis' p' := by
  unfold statementOps at h
  rw [List.append_assoc, List.append_assoc] at h
  obtain ⟨hb, hr⟩ := List.append_inj h (by rw [baseOps_length, baseOps_length])
  rw [proofOps_eq, proofOps_eq] at hr
  obtain ⟨hpi, hpr⟩ := append_sep_inj TOp.isPi
    (by intro a ha; obtain ⟨x, _, rfl⟩ := List.mem_map.mp ha; exact rfl)
    (by intro a ha; obtain ⟨x, _, rfl⟩ := List.mem_map.mp ha; exact rfl)
    (by simp [TOp.isPi]) (by simp [TOp.isPi]) hr
  have hpis := pis_map_inj hpi
  rw [baseOps_eq, baseOps_eq] at hb
  simp only [List.cons.injEq, TOp.msg.injEq, TOp.u64.injEq, true_and, and_true] at hb hpr
  obtain ⟨hl, hc, hqm, hql, hqr, hqo, hqc, hqf, hqa, hqrg, hqlg, hqv, hqfx, hs1, hs2, hs3, hs4, hn⟩ := hb
  obtain ⟨ha, hb, hcc, hd, hz, htl, htm, hth, htf, e1, e2, e3, e4, e5, e6, e7, e8, e9, e10, e11, e12,
    e13, e14, e15, hwz, hwzw⟩ := hpr
  unfold statementBytes
  simp only [StatementBytes.mk.injEq]
  refine ⟨hl, hc, hn, ?_, hpis, ?_, ?_⟩
  · cases v3
    · simp [VKey.boundComms, *]
    · simp only [if_true] at hs4
      simp [VKey.boundComms, *]
  · simp [ProofM.comms, *]
  · simp only [Evals.toList, List.map_cons, List.map_nil, List.cons.injEq, and_true]
    exact ⟨scalarBytes_inj e1, scalarBytes_inj e2, scalarBytes_inj e3, scalarBytes_inj e4,
      scalarBytes_inj e5, scalarBytes_inj e6, scalarBytes_inj e7, scalarBytes_inj e8,
      scalarBytes_inj e9, scalarBytes_inj e10, scalarBytes_inj e11, scalarBytes_inj e12,
      scalarBytes_inj e13, scalarBytes_inj e14, scalarBytes_inj e15⟩

/-- converse: the operation list is a function of the byte-level statement -/
theorem statementOps_of_bytes {label label' : List Nat} {k k' : VKey} {c c' : Nat} {v3 : Bool}
    {pis pis' : List Nat} {p p' : ProofM}
    (h : statementBytes label k c v3 pis p = statementBytes label' k' c' v3 pis' p') :
    statementOps label k c v3 pis p = statementOps label' k' c' v3 pis' p' := by
  unfold statementBytes at h
  simp only [StatementBytes.mk.injEq] at h
  obtain ⟨hl, hc, hn, hk, hpis, hp, he⟩ := h
  unfold statementOps
  have h1 : baseOps label k c v3 = baseOps label' k' c' v3 := by
    rw [baseOps_eq, baseOps_eq, hl, hc, hn]
    cases v3 <;>
      simp only [VKey.boundComms, List.map_cons, List.map_nil, List.cons.injEq, and_true, if_true,
        Bool.false_eq_true, if_false, List.cons_append, List.nil_append, List.append_nil] at hk <;>
      obtain ⟨h1, h2, h3, h4, h5, h6, h7, h8, h9, h10, h11, h12, h13, h14⟩ := hk
    · simp [*]
    · obtain ⟨h14, h15⟩ := h14; simp [*]
  have h2 : pis.map (fun pi => TOp.msg "pi" (Transcript.scalarBytes pi)) =
      pis'.map (fun pi => TOp.msg "pi" (Transcript.scalarBytes pi)) := by
    have e : ∀ l : List Nat, l.map (fun pi => TOp.msg "pi" (Transcript.scalarBytes pi)) =
        (l.map (· % R)).map (fun pi => TOp.msg "pi" (Transcript.scalarBytes pi)) := by
      intro l; rw [List.map_map]; apply List.map_congr_left; intro a _
      simp only [Function.comp_apply]
      rw [scalarBytes_eq_iff.mpr (Nat.mod_mod a R).symm]
    rw [e pis, e pis', hpis]
  have h3 : proofOps p = proofOps p' := by
    rw [proofOps_eq, proofOps_eq]
    simp only [ProofM.comms, Evals.toList, List.map_cons, List.map_nil, List.cons.injEq, and_true] at hp he
    obtain ⟨c1, c2, c3, c4, c5, c6, c7, c8, c9, c10, c11⟩ := hp
    obtain ⟨e1, e2, e3, e4, e5, e6, e7, e8, e9, e10, e11, e12, e13, e14, e15⟩ := he
    rw [c1, c2, c3, c4, c5, c6, c7, c8, c9, c10, c11, scalarBytes_eq_iff.mpr e1,
      scalarBytes_eq_iff.mpr e2, scalarBytes_eq_iff.mpr e3, scalarBytes_eq_iff.mpr e4,
      scalarBytes_eq_iff.mpr e5, scalarBytes_eq_iff.mpr e6, scalarBytes_eq_iff.mpr e7,
      scalarBytes_eq_iff.mpr e8, scalarBytes_eq_iff.mpr e9, scalarBytes_eq_iff.mpr e10,
      scalarBytes_eq_iff.mpr e11, scalarBytes_eq_iff.mpr e12, scalarBytes_eq_iff.mpr e13,
      scalarBytes_eq_iff.mpr e14, scalarBytes_eq_iff.mpr e15]
  rw [h1, h2, h3]

theorem statementOps_eq_iff {label label' : List Nat} {k k' : VKey} {c c' : Nat} {v3 : Bool}
    {pis pis' : List Nat} {p p' : ProofM} :
    statementOps label k c v3 pis p = statementOps label' k' c' v3 pis' p' ↔
      statementBytes label k c v3 pis p = statementBytes label' k' c' v3 pis' p' :=
  ⟨statementOps_bytes_inj, statementOps_of_bytes⟩

theorem map_toCompressed_inj {l l' : List G1} (hl : ∀ q ∈ l, G1.Decodable q) (hl' : ∀ q ∈ l', G1.Decodable q)
    (h : l.map G1.toCompressed = l'.map G1.toCompressed) : l = l' := by
  induction l generalizing l' with
  | nil => cases l' with
    | nil => rfl
    | cons a t => simp at h
  | cons a t ih => cases l' with
    | nil => simp at h
    | cons a' t' =>
      simp only [List.map_cons, List.cons.injEq] at h
      rw [G1.toCompressed_inj (hl a (List.mem_cons_self ..)) (hl' a' (List.mem_cons_self ..)) h.1,
        ih (fun q hq => hl q (List.mem_cons_of_mem _ hq)) (fun q hq => hl' q (List.mem_cons_of_mem _ hq)) h.2]

/-- all fifteen commitments of a verifier key are decoded points -/
def VKey.Decodable (k : VKey) : Prop := ∀ q ∈ k.boundComms true, G1.Decodable q
/-- all eleven commitments of a proof are decoded points -/
def ProofM.Decodable (p : ProofM) : Prop := ∀ q ∈ p.comms, G1.Decodable q
/-- all fifteen evaluations are canonical (`< r`) -/
def Evals.Reduced (e : Evals) : Prop := ∀ x ∈ e.toList, x < R

theorem boundComms_false_subset (k : VKey) : ∀ q ∈ k.boundComms false, q ∈ k.boundComms true := by
  intro q hq
  simp only [VKey.boundComms, Bool.false_eq_true, if_false, List.append_nil, if_true] at hq ⊢
  exact List.mem_append_left _ hq

/-- **The statement transcript is injective (point level).** For decoded keys and proofs, equal
    operation lists force: same label, same `constraints`, same `vk.n`, the same transcript-bound
    verifier-key commitments (`VKey.boundComms`: all fifteen for `v3 = true`, all but `s_sigma_4`
    for `v3 = false`), the same public inputs modulo `r`, the same eleven proof commitments and the
    same evaluations modulo `r`. -/
theorem statementOps_injective {label label' : List Nat} {k k' : VKey} {c c' : Nat} {v3 : Bool}
    {pis pis' : List Nat} {p p' : ProofM}
    (hk : k.Decodable) (hk' : k'.Decodable) (hp : p.Decodable) (hp' : p'.Decodable)
    (h : statementOps label k c v3 pis p = statementOps label' k' c' v3 pis' p') :
    label = label' ∧ c = c' ∧ k.n = k'.n ∧ k.boundComms v3 = k'.boundComms v3 ∧
      pis.map (· % R) = pis'.map (· % R) ∧ p.comms = p'.comms ∧
      p.ev.toList.map (· % R) = p'.ev.toList.map (· % R) := by
  have hb := statementOps_bytes_inj h
  unfold statementBytes at hb
  simp only [StatementBytes.mk.injEq] at hb
  obtain ⟨hl, hc, hn, hkc, hpis, hpc, he⟩ := hb
  refine ⟨hl, hc, hn, ?_, hpis, map_toCompressed_inj hp hp' hpc, he⟩
  cases v3
  · exact map_toCompressed_inj (fun q hq => hk q (boundComms_false_subset k q hq))
      (fun q hq => hk' q (boundComms_false_subset k' q hq)) hkc
  · exact map_toCompressed_inj hk hk' hkc

theorem Evals.eq_of_toList {e e' : Evals} (h : e.toList = e'.toList) : e = e' := by
  cases e; cases e'
  simp only [Evals.toList, List.cons.injEq, and_true] at h
  simp only [Evals.mk.injEq]
  tauto

theorem ProofM.eq_of_comms {p p' : ProofM} (h : p.comms = p'.comms) (he : p.ev = p'.ev) : p = p' := by
  cases p; cases p'
  simp only [ProofM.comms, List.cons.injEq, and_true] at h
  simp only at he
  simp only [ProofM.mk.injEq]
  tauto

theorem map_mod_eq_of_reduced {l l' : List Nat} (hl : ∀ x ∈ l, x < R) (hl' : ∀ x ∈ l', x < R)
    (h : l.map (· % R) = l'.map (· % R)) : l = l' := by
  have e : ∀ l : List Nat, (∀ x ∈ l, x < R) → l.map (· % R) = l := by
    intro l hl
    conv_rhs => rw [← List.map_id l]
    apply List.map_congr_left
    intro a ha; exact Nat.mod_eq_of_lt (hl a ha)
  rw [e l hl, e l' hl'] at h; exact h

/-- with canonical evaluations the whole proof is determined -/
theorem statementOps_injective_proof {label label' : List Nat} {k k' : VKey} {c c' : Nat} {v3 : Bool}
    {pis pis' : List Nat} {p p' : ProofM}
    (hp : p.Decodable) (hp' : p'.Decodable) (he : p.ev.Reduced) (he' : p'.ev.Reduced)
    (h : statementOps label k c v3 pis p = statementOps label' k' c' v3 pis' p') : p = p' := by
  have hb := statementOps_bytes_inj h
  unfold statementBytes at hb
  simp only [StatementBytes.mk.injEq] at hb
  obtain ⟨-, -, -, -, -, hpc, hev⟩ := hb
  exact ProofM.eq_of_comms (map_toCompressed_inj hp hp' hpc)
    (Evals.eq_of_toList (map_mod_eq_of_reduced he he' hev))

/-- V3 binds `s_sigma_4`: changing only this commitment changes the transcript … -/
theorem v3_binds_s4 (label : List Nat) (k : VKey) (c : Nat) (pis : List Nat) (p : ProofM) (s4' : G1)
    (hd : G1.Decodable k.s4) (hd' : G1.Decodable s4') (hne : s4' ≠ k.s4) :
    statementOps label { k with s4 := s4' } c true pis p ≠ statementOps label k c true pis p := by
  intro h
  have hb := statementOps_bytes_inj h
  unfold statementBytes at hb
  simp only [StatementBytes.mk.injEq, VKey.boundComms, if_true, List.map_cons,
    List.map_nil, List.cons_append, List.nil_append, List.cons.injEq, and_true, true_and] at hb
  exact hne (G1.toCompressed_inj hd' hd hb)

/-- … while the V1/V2 transcript does not depend on `s_sigma_4` at all -/
theorem legacy_ignores_s4 (label : List Nat) (k : VKey) (c : Nat) (pis : List Nat) (p : ProofM) (s4' : G1) :
    statementOps label { k with s4 := s4' } c false pis p = statementOps label k c false pis p := rfl

/-- the challenges are, by definition, a function of the operation list -/
theorem transcript_function_of_ops (label : List Nat) (k : VKey) (c : Nat) (v3 : Bool) (pis : List Nat)
    (p : ProofM) :
    verifierChallenges label k c v3 pis p =
      challengesOf (runOps (statementOps label k c v3 pis p) merlinInit).2 := rfl

theorem challenges_congr {label label' : List Nat} {k k' : VKey} {c c' : Nat} {v3 v3' : Bool}
    {pis pis' : List Nat} {p p' : ProofM}
    (h : statementOps label k c v3 pis p = statementOps label' k' c' v3' pis' p') :
    verifierChallenges label k c v3 pis p = verifierChallenges label' k' c' v3' pis' p' := by
  unfold verifierChallenges; rw [h]

/-! ### decoded proofs and keys are decodable -/

theorem G1.decodable_inf : G1.Decodable .inf := ⟨192 :: List.replicate 47 0, by decide +kernel⟩
theorem G1.decodable_gen : G1.Decodable G1.gen := ⟨G1.gen.toCompressed, by decide +kernel⟩

theorem readG1s_decodable : ∀ (k : Nat) (bs : List Nat) (ps : List G1) (r : List Nat),
    readG1s k bs = some (ps, r) → ∀ q ∈ ps, G1.Decodable q
  | 0, bs, ps, r, h => by
    simp only [readG1s, Option.some.injEq, Prod.mk.injEq] at h
    intro q hq; rw [← h.1] at hq; cases hq
  | k + 1, bs, ps, r, h => by
    simp only [readG1s, bind, Option.bind] at h
    split at h
    · cases h
    next ht hsplit =>
    obtain ⟨hd, tl⟩ := ht
    simp only at h
    split at h
    · cases h
    next q0 hq0 =>
    simp only at h
    split at h
    · cases h
    next res hres =>
    obtain ⟨ps', r'⟩ := res
    simp only [pure, Option.some.injEq, Prod.mk.injEq] at h
    intro q hq
    rw [← h.1] at hq
    rcases List.mem_cons.mp hq with rfl | hq
    · exact G1.Decodable.of_fromCompressed hq0
    · exact readG1s_decodable k tl ps' r' hres q hq

theorem readScalars_reduced : ∀ (k : Nat) (bs : List Nat) (ss : List Nat) (r : List Nat),
    readScalars k bs = some (ss, r) → ∀ x ∈ ss, x < R
  | 0, bs, ss, r, h => by
    simp only [readScalars, Option.some.injEq, Prod.mk.injEq] at h
    intro q hq; rw [← h.1] at hq; cases hq
  | k + 1, bs, ss, r, h => by
    simp only [readScalars, bind, Option.bind] at h
    split at h
    · cases h
    next ht hsplit =>
    obtain ⟨hd, tl⟩ := ht
    simp only at h
    split at h
    · cases h
    next s0 hs0 =>
    simp only at h
    split at h
    · cases h
    next res hres =>
    obtain ⟨ss', r'⟩ := res
    simp only [pure, Option.some.injEq, Prod.mk.injEq] at h
    intro x hx
    rw [← h.1] at hx
    rcases List.mem_cons.mp hx with rfl | hx
    · unfold scalarFromBytes? at hs0
      simp only at hs0
      split at hs0
      · cases hs0
      · split at hs0
        · next hlt => injection hs0 with e; rw [← e]; exact hlt
        · cases hs0
    · exact readScalars_reduced k tl ss' r' hres x hx

/-- every decoded proof satisfies the hypotheses of `statementOps_injective` -/
theorem ProofM.fromBytes_valid {bs : List Nat} {p : ProofM} (h : ProofM.fromBytes? bs = some p) :
    p.Decodable ∧ p.ev.Reduced := by
  unfold ProofM.fromBytes? at h
  simp only [bind, Option.bind] at h
  split at h
  · cases h
  split at h
  · cases h
  next res1 hres1 =>
  obtain ⟨ps, r⟩ := res1
  simp only at h
  split at h
  · cases h
  next res2 hres2 =>
  obtain ⟨ss, r2⟩ := res2
  simp only at h
  split at h
  · next a b c d z tl tm th tf wz wzw ea eb ec ed eaw ebw edw eqa eqc eql eqr es1 es2 es3 ez =>
    injection h with h
    subst h
    have hps := readG1s_decodable 11 bs _ r hres1
    have hss := readScalars_reduced 15 r _ r2 hres2
    constructor
    · intro q hq; exact hps q (by simp only [ProofM.comms, List.mem_cons, List.mem_nil_iff, or_false] at hq ⊢; tauto)
    · intro x hx; exact hss x (by simp only [Evals.toList, List.mem_cons, List.mem_nil_iff, or_false] at hx ⊢; tauto)
  · cases h

/-- every decoded verifier key satisfies the hypotheses of `statementOps_injective` -/
theorem VKey.fromBytes_valid {bs : List Nat} {k : VKey} (h : VKey.fromBytes? bs = some k) : k.Decodable := by
  unfold VKey.fromBytes? at h
  simp only [bind, Option.bind] at h
  split at h
  · cases h
  split at h
  · cases h
  next res0 hres0 =>
  obtain ⟨nb, r⟩ := res0
  simp only at h
  split at h
  · cases h
  next res1 hres1 =>
  obtain ⟨ps, r1⟩ := res1
  simp only at h
  split at h
  · injection h with h
    subst h
    have hps := readG1s_decodable 15 r _ r1 hres1
    intro q hq; exact hps q (by simp only [VKey.boundComms, if_true, List.cons_append, List.nil_append, List.mem_cons, List.mem_nil_iff, or_false] at hq ⊢; tauto)
  · cases h


end Plonk
