/-
  C05 (permutation half), part 3: `σ` (`sigmaFn`, the function tabulated by the model's
  `sigmaMaps`) is a permutation of the wire positions whose cycles are exactly the classes
  "positions wired to the same allocated witness".
-/
import Mathlib.Logic.Function.Iterate
import Plonk.Proofs.PermutationSigma

namespace Plonk
namespace Perm

/-! ### the successor in a duplicate-free cyclic list -/

theorem succ_mod_inj {a b n : Nat} (ha : a < n) (hb : b < n) (h : (a + 1) % n = (b + 1) % n) : a = b := by
  rcases Nat.lt_or_ge (a + 1) n with h1 | h1 <;> rcases Nat.lt_or_ge (b + 1) n with h2 | h2
  · rw [Nat.mod_eq_of_lt h1, Nat.mod_eq_of_lt h2] at h; omega
  · have e : b + 1 = n := by omega
    rw [e, Nat.mod_self, Nat.mod_eq_of_lt h1] at h; omega
  · have e : a + 1 = n := by omega
    rw [e, Nat.mod_self, Nat.mod_eq_of_lt h2] at h; omega
  · omega

theorem nextIn_getElem? {l : List Pos} (hnd : l.Nodup) {j : Nat} {p : Pos} (h : l[j]? = some p) :
    l[(j + 1) % l.length]? = some (nextIn l p) := by
  obtain ⟨hj, rfl⟩ := List.getElem?_eq_some_iff.mp h
  have hlt : (j + 1) % l.length < l.length := Nat.mod_lt _ (by omega)
  unfold nextIn
  rw [hnd.idxOf_getElem j hj, List.getD_eq_getElem?_getD, List.getElem?_eq_getElem hlt]
  rfl

theorem nextIn_iterate {l : List Pos} (hnd : l.Nodup) {j : Nat} {p : Pos} (h : l[j]? = some p) (t : Nat) :
    l[(j + t) % l.length]? = some ((nextIn l)^[t] p) := by
  induction t with
  | zero =>
    obtain ⟨hj, _⟩ := List.getElem?_eq_some_iff.mp h
    simpa [Nat.mod_eq_of_lt hj] using h
  | succ t ih =>
    have := nextIn_getElem? hnd ih
    rw [Nat.mod_add_mod] at this
    rw [Function.iterate_succ_apply', ← this, Nat.add_assoc]

/-! ### active positions -/

/-- a position of the gate table wired to an allocated witness -/
def Active (c : Composer) (p : Pos) : Prop := (p.1 < 4 ∧ p.2 < c.gates.size) ∧ wireAt c p < c.wit.size

instance (c : Composer) (p : Pos) : Decidable (Active c p) := by unfold Active; infer_instance

theorem sigmaFn_of_active {c : Composer} {p : Pos} (h : Active c p) :
    sigmaFn c p = nextIn (classOf c (wireAt c p)) p := by
  unfold sigmaFn; exact if_pos h

theorem sigmaFn_of_not_active {c : Composer} {p : Pos} (h : ¬ Active c p) : sigmaFn c p = p := by
  unfold sigmaFn; exact if_neg h

theorem Active.mem_class {c : Composer} {p : Pos} (h : Active c p) : p ∈ classOf c (wireAt c p) :=
  (mem_classOf c _ p).mpr ⟨h.1, rfl⟩

theorem active_of_mem_class {c : Composer} {p q : Pos} (h : Active c p) (hq : q ∈ classOf c (wireAt c p)) :
    Active c q ∧ wireAt c q = wireAt c p := by
  rw [mem_classOf] at hq
  exact ⟨⟨hq.1, hq.2 ▸ h.2⟩, hq.2⟩

theorem Active.getElem?_idxOf {c : Composer} {p : Pos} (h : Active c p) :
    (classOf c (wireAt c p))[(classOf c (wireAt c p)).idxOf p]? = some p :=
  List.getElem?_idxOf h.mem_class

/-- σ of an active position lies in the same class -/
theorem sigmaFn_mem_class {c : Composer} {p : Pos} (h : Active c p) :
    sigmaFn c p ∈ classOf c (wireAt c p) := by
  rw [sigmaFn_of_active h]
  exact List.mem_of_getElem? (nextIn_getElem? (classOf_nodup c _) h.getElem?_idxOf)

theorem sigmaFn_active {c : Composer} {p : Pos} (h : Active c p) : Active c (sigmaFn c p) :=
  (active_of_mem_class h (sigmaFn_mem_class h)).1

/-- **(b)** `σ p` is wired to the same witness as `p` -/
theorem wireAt_sigmaFn (c : Composer) (p : Pos) : wireAt c (sigmaFn c p) = wireAt c p := by
  by_cases h : Active c p
  · exact (active_of_mem_class h (sigmaFn_mem_class h)).2
  · rw [sigmaFn_of_not_active h]

/-- `σ` maps the position set `{0..3} × {0..n-1}` into itself (`n ≥` number of gates) -/
theorem sigmaFn_mem_pos (c : Composer) (n : Nat) (hn : c.gates.size ≤ n) (p : Pos)
    (h1 : p.1 < 4) (h2 : p.2 < n) : (sigmaFn c p).1 < 4 ∧ (sigmaFn c p).2 < n := by
  by_cases h : Active c p
  · have := (sigmaFn_active h).1
    exact ⟨this.1, Nat.lt_of_lt_of_le this.2 hn⟩
  · rw [sigmaFn_of_not_active h]; exact ⟨h1, h2⟩

/-- positions of padded rows (and positions wired to unallocated witnesses) are fixed points -/
theorem sigmaFn_fixed_of_row_ge (c : Composer) (p : Pos) (h : c.gates.size ≤ p.2) : sigmaFn c p = p :=
  sigmaFn_of_not_active (fun ha => by have := ha.1.2; omega)

/-- the orbit of an active position, indexed along its class -/
theorem sigmaFn_iterate {c : Composer} {p : Pos} (h : Active c p) (t : Nat) :
    (classOf c (wireAt c p))[((classOf c (wireAt c p)).idxOf p + t) % (classOf c (wireAt c p)).length]? =
      some ((sigmaFn c)^[t] p) := by
  induction t with
  | zero =>
    have hj := List.idxOf_lt_length_iff.mpr h.mem_class
    simpa [Nat.mod_eq_of_lt hj] using h.getElem?_idxOf
  | succ t ih =>
    have hq := active_of_mem_class h (List.mem_of_getElem? ih)
    have := nextIn_getElem? (classOf_nodup c _) ih
    rw [Nat.mod_add_mod] at this
    rw [Function.iterate_succ_apply', sigmaFn_of_active hq.1, hq.2, ← this, Nat.add_assoc]

/-- **(c)** iterating `σ` from `p` reaches every position of `p`'s class -/
theorem sigmaFn_reaches {c : Composer} {p q : Pos} (h : Active c p) (hq : q ∈ classOf c (wireAt c p)) :
    ∃ t, (sigmaFn c)^[t] p = q := by
  have hj := List.idxOf_lt_length_iff.mpr h.mem_class
  have hj' := List.idxOf_lt_length_iff.mpr hq
  refine ⟨(classOf c (wireAt c p)).idxOf q + ((classOf c (wireAt c p)).length - (classOf c (wireAt c p)).idxOf p), ?_⟩
  have := sigmaFn_iterate h ((classOf c (wireAt c p)).idxOf q +
    ((classOf c (wireAt c p)).length - (classOf c (wireAt c p)).idxOf p))
  have e : (classOf c (wireAt c p)).idxOf p + ((classOf c (wireAt c p)).idxOf q +
      ((classOf c (wireAt c p)).length - (classOf c (wireAt c p)).idxOf p)) =
      (classOf c (wireAt c p)).idxOf q + (classOf c (wireAt c p)).length := by omega
  rw [e, Nat.add_mod_right, Nat.mod_eq_of_lt hj', List.getElem?_idxOf hq] at this
  exact (Option.some.inj this).symm

/-- conversely every iterate stays in the class: the cycle of `p` is exactly its class -/
theorem sigmaFn_iterate_mem {c : Composer} {p : Pos} (h : Active c p) (t : Nat) :
    (sigmaFn c)^[t] p ∈ classOf c (wireAt c p) :=
  List.mem_of_getElem? (sigmaFn_iterate h t)

/-- `σ` is injective -/
theorem sigmaFn_injective (c : Composer) : Function.Injective (sigmaFn c) := by
  intro p q hpq
  by_cases hp : Active c p
  · by_cases hq : Active c q
    · have hw : wireAt c p = wireAt c q := by
        rw [← wireAt_sigmaFn c p, ← wireAt_sigmaFn c q, hpq]
      have h1 := sigmaFn_iterate hp 1
      have h2 := sigmaFn_iterate hq 1
      simp only [Function.iterate_one] at h1 h2
      rw [← hw, ← hpq, ← h1] at h2
      have hjp := List.idxOf_lt_length_iff.mpr hp.mem_class
      have hjq : (classOf c (wireAt c p)).idxOf q < (classOf c (wireAt c p)).length :=
        List.idxOf_lt_length_iff.mpr (hw ▸ hq.mem_class)
      have hpos : 0 < (classOf c (wireAt c p)).length := by omega
      have hidx := (List.getElem?_inj (Nat.mod_lt _ hpos) (classOf_nodup c _)).mp h2
      have hmod := succ_mod_inj hjq hjp hidx
      exact ((List.idxOf_inj hp.mem_class).mp hmod.symm)
    · rw [sigmaFn_of_not_active hq] at hpq
      exact absurd (hpq ▸ sigmaFn_active hp) hq
  · by_cases hq : Active c q
    · rw [sigmaFn_of_not_active hp] at hpq
      exact absurd (hpq ▸ sigmaFn_active hq) hp
    · rwa [sigmaFn_of_not_active hp, sigmaFn_of_not_active hq] at hpq

/-- `σ` is surjective -/
theorem sigmaFn_surjective (c : Composer) : Function.Surjective (sigmaFn c) := by
  intro q
  by_cases hq : Active c q
  · have hj := List.idxOf_lt_length_iff.mpr hq.mem_class
    have h := sigmaFn_iterate hq (classOf c (wireAt c q)).length
    rw [Nat.add_mod_right, Nat.mod_eq_of_lt hj, hq.getElem?_idxOf] at h
    have hlen : (classOf c (wireAt c q)).length =
        ((classOf c (wireAt c q)).length - 1) + 1 := by omega
    rw [hlen, Function.iterate_succ_apply'] at h
    exact ⟨_, (Option.some.inj h).symm⟩
  · exact ⟨q, sigmaFn_of_not_active hq⟩

theorem sigmaFn_bijective (c : Composer) : Function.Bijective (sigmaFn c) :=
  ⟨sigmaFn_injective c, sigmaFn_surjective c⟩

/-- the preimage of a position of the position set is in the position set -/
theorem sigmaFn_preimage_mem_pos (c : Composer) (n : Nat) (hn : c.gates.size ≤ n) (p : Pos)
    (h1 : (sigmaFn c p).1 < 4) (h2 : (sigmaFn c p).2 < n) : p.1 < 4 ∧ p.2 < n := by
  by_cases h : Active c p
  · exact ⟨h.1.1, Nat.lt_of_lt_of_le h.1.2 hn⟩
  · rw [sigmaFn_of_not_active h] at h1 h2; exact ⟨h1, h2⟩

end Perm
end Plonk
