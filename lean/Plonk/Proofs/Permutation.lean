/-
  C05 (permutation half; also used by C15 and C18): the copy-constraint argument.
  Aggregator of
  * `PermutationCosets`  — the cosets `H, K1·H, K2·H, K3·H` are pairwise disjoint;
  * `PermutationSigma`   — `sigmaMaps c n = tableOf (sigmaFn c) n`;
  * `PermutationCycles`  — `sigmaFn` is a permutation whose cycles are the wiring classes;
  * `PermutationRelabel` — invariance under relabelling and under the processing order;
  * `PermutationCopy`    — respecting `σ` ⇔ constant on classes ⇔ `copyViolation = none`;
  * `PermutationProduct` — soundness / completeness of the grand-product check (any field);
  * `PermutationModel`   — the instantiation with the model's `σ`, labels and position set.
-/
import Plonk.Proofs.PermutationCosets
import Plonk.Proofs.PermutationSigma
import Plonk.Proofs.PermutationCycles
import Plonk.Proofs.PermutationRelabel
import Plonk.Proofs.PermutationCopy
import Plonk.Proofs.PermutationProduct
import Plonk.Proofs.PermutationModel
