/-
  C01 (completeness): the quotient polynomial the model's `prove` computes.

  `prove` evaluates `Num/Z_H` on the coset `g·⟨ω₈⟩` of size `8n` (`quotientEvals`, C05
  `quotient_in_prove`) and interpolates: `tPoly := ofCoeffs (d8.cosetIfft quot)`.  If the numerator is
  `T·(Xⁿ − 1)` with `deg T < 8n`, the interpolant IS `T` (`tPoly_eq_quotient`): two polynomials of
  degree `< 8n` agreeing on `8n` points.  Hence (`tPoly_length_le`) `tPoly.length ≤ deg T + 1`; with
  the honest bound `deg T ≤ 4n + 6` (needs `n ≥ 2` for `4n + 6 < 8n`) the list has `≤ 4n + 7` entries,
  which is `≤ 7n` — `prove` does not report `circuitUnsatisfied` — as soon as `n ≥ 3`.
-/
import Plonk.Proofs.QuotientCoset
import Plonk.Proofs.ProverMask
import Plonk.Proofs.CompletenessCore
import Plonk.Proofs.CompletenessDegree

namespace Plonk.Complete
open Polynomial Plonk Plonk.Quot

/-- the coset points `g·ω₈^i`, `i < 8n`, are pairwise distinct -/
theorem coset_points_card {d8 : Domain} (h8 : d8.WF) :
    ((Finset.range d8.size).image fun i => toF GENERATOR * toF d8.groupGen ^ i).card = d8.size := by
  rw [Finset.card_image_of_injOn, Finset.card_range]
  intro i hi j hj hij
  have := mul_left_cancel₀ generator_ne_zero hij
  exact h8.prim.pow_inj (Finset.mem_range.mp (Finset.mem_coe.mp hi))
    (Finset.mem_range.mp (Finset.mem_coe.mp hj)) this

theorem quotientEvals_length (size8 : Nat) (selE sigE8 : Array (Array Nat))
    (linE aE bE cE dE zE piE vh vhInv8 l1Den : Array Nat)
    (nInv8 beta gamma alpha rSep lSep fSep vSep : Nat) :
    (quotientEvals size8 selE sigE8 linE aE bE cE dE zE piE vh vhInv8 l1Den nInv8 beta gamma alpha
      rSep lSep fSep vSep).length = size8 := by
  simp [quotientEvals]

/-- **the interpolant of the coset quotient values is the quotient** -/
theorem tPoly_eq_quotient (m : Nat) (d d8 : Domain) (hd : Domain.new? m = some d)
    (hd8 : Domain.new? (8 * d.size) = some d8) (sel sigma : Array Poly) (aP bP cP dP zP piP : Poly)
    (vh linE : Array Nat) (hvh : vh = (d8.vanishingOverCoset d.size).toArray)
    (hlin : linE = (d8.cosetFft [0, 1]).toArray)
    (beta gamma alpha rSep lSep fSep vSep : Nat) (T : F[X])
    (hT : NumP (toF d.groupGen) d.size (polysOf sel sigma aP bP cP dP zP piP)
      ⟨toF beta, toF gamma, toF alpha⟩ ⟨toF rSep, toF lSep, toF fSep, toF vSep⟩ =
        T * (X ^ d.size - 1))
    (hdeg : T.degree < d8.size) :
    toPoly (Poly.ofCoeffs (d8.cosetIfft
      (quotientEvals d8.size (sel.map fun p => (d8.cosetFft p).toArray)
        (sigma.map fun p => (d8.cosetFft p).toArray) linE (cosetEvals d8 aP) (cosetEvals d8 bP)
        (cosetEvals d8 cP) (cosetEvals d8 dP) (cosetEvals d8 zP) (d8.cosetFft piP).toArray vh
        (batchInversion ((vh.toList).take 8)).toArray
        (batchInversion (linE.toList.map fun e => fsub e 1)).toArray (fmul d8.sizeInv 8)
        beta gamma alpha rSep lSep fSep vSep))) = T := by
  have h8 := Domain.new?_WF _ d8 hd8
  generalize hq : quotientEvals d8.size (sel.map fun p => (d8.cosetFft p).toArray)
        (sigma.map fun p => (d8.cosetFft p).toArray) linE (cosetEvals d8 aP) (cosetEvals d8 bP)
        (cosetEvals d8 cP) (cosetEvals d8 dP) (cosetEvals d8 zP) (d8.cosetFft piP).toArray vh
        (batchInversion ((vh.toList).take 8)).toArray
        (batchInversion (linE.toList.map fun e => fsub e 1)).toArray (fmul d8.sizeInv 8)
        beta gamma alpha rSep lSep fSep vSep = quot
  have hlen : quot.length = d8.size := by rw [← hq]; exact quotientEvals_length ..
  have hcl : (d8.cosetIfft quot).length = d8.size := Domain.cosetIfft_length h8 (le_refl 1) quot
  rw [toPoly_ofCoeffs]
  apply eq_of_degrees_lt_of_eval_finset_eq
    ((Finset.range d8.size).image fun i => toF GENERATOR * toF d8.groupGen ^ i)
  · rw [coset_points_card h8]
    have := ProverMask.degree_toPoly_lt (d8.cosetIfft quot)
    rwa [hcl] at this
  · rw [coset_points_card h8]; exact hdeg
  · intro x hx
    obtain ⟨i, hi, rfl⟩ := Finset.mem_image.mp hx
    have hi' : i < d8.size := Finset.mem_range.mp hi
    have hne := coset_pow_ne_one m d d8 hd hd8 i
    have hne0 : (toF GENERATOR * toF d8.groupGen ^ i) ^ d.size - 1 ≠ 0 := sub_ne_zero.mpr hne
    rw [Quot.toPoly_eq_polyN, hcl, Domain.eval_cosetIfft h8 (le_refl 1) quot hlen i hi', ← hq,
      quotient_entry_prove m d d8 hd hd8 sel sigma aP bP cP dP zP piP vh linE hvh hlin beta gamma
        alpha rSep lSep fSep vSep i hi', hT]
    simp only [eval_mul, eval_sub, eval_pow, eval_X, eval_one]
    field_simp

/-- a coefficient list `ofCoeffs _` representing `T` has `deg T + 1` entries at most -/
theorem ofCoeffs_length_le (cs : List Nat) (T : F[X]) (h : toPoly (Poly.ofCoeffs cs) = T) (D : Nat)
    (hD : T.natDegree ≤ D) : (Poly.ofCoeffs cs).length ≤ D + 1 := by
  by_cases hne : Poly.ofCoeffs cs = []
  · rw [hne]; simp
  · have := (length_of_trimmed (reduced_ofCoeffs cs) (trimmed_ofCoeffs cs) hne).1
    rw [h] at this
    omega

theorem degree_lt_of_natDegree_le {T : F[X]} {D N : Nat} (h : T.natDegree ≤ D) (hDN : D < N) :
    T.degree < N := by
  by_cases h0 : T = 0
  · rw [h0, degree_zero]; exact WithBot.bot_lt_coe _
  · rw [Polynomial.degree_eq_natDegree h0]
    exact_mod_cast lt_of_le_of_lt h hDN

/-- **the model's `tPoly` has at most `4n + 7` coefficients** when `deg T ≤ 4n + 6` and `n ≥ 2`;
    in particular `tPoly.length ≤ 7n` (no `circuitUnsatisfied`) for `n ≥ 3` -/
theorem tPoly_length_le (m : Nat) (d d8 : Domain) (hd : Domain.new? m = some d)
    (hd8 : Domain.new? (8 * d.size) = some d8) (sel sigma : Array Poly) (aP bP cP dP zP piP : Poly)
    (vh linE : Array Nat) (hvh : vh = (d8.vanishingOverCoset d.size).toArray)
    (hlin : linE = (d8.cosetFft [0, 1]).toArray)
    (beta gamma alpha rSep lSep fSep vSep : Nat) (T : F[X])
    (hT : NumP (toF d.groupGen) d.size (polysOf sel sigma aP bP cP dP zP piP)
      ⟨toF beta, toF gamma, toF alpha⟩ ⟨toF rSep, toF lSep, toF fSep, toF vSep⟩ =
        T * (X ^ d.size - 1))
    (hdeg : T.natDegree ≤ 4 * d.size + 6) (hn2 : 2 ≤ d.size) :
    let tPoly := Poly.ofCoeffs (d8.cosetIfft
      (quotientEvals d8.size (sel.map fun p => (d8.cosetFft p).toArray)
        (sigma.map fun p => (d8.cosetFft p).toArray) linE (cosetEvals d8 aP) (cosetEvals d8 bP)
        (cosetEvals d8 cP) (cosetEvals d8 dP) (cosetEvals d8 zP) (d8.cosetFft piP).toArray vh
        (batchInversion ((vh.toList).take 8)).toArray
        (batchInversion (linE.toList.map fun e => fsub e 1)).toArray (fmul d8.sizeInv 8)
        beta gamma alpha rSep lSep fSep vSep))
    toPoly tPoly = T ∧ tPoly.length ≤ 4 * d.size + 7 ∧ (3 ≤ d.size → ¬ tPoly.length > 7 * d.size) := by
  intro tPoly
  have hs8 : d8.size = 8 * d.size := (gen8_pow_eight m d d8 hd hd8).1
  have h1 := tPoly_eq_quotient m d d8 hd hd8 sel sigma aP bP cP dP zP piP vh linE hvh hlin beta gamma
    alpha rSep lSep fSep vSep T hT (degree_lt_of_natDegree_le hdeg (by rw [hs8]; omega))
  have h2 : tPoly.length ≤ 4 * d.size + 7 := ofCoeffs_length_le _ T h1 _ hdeg
  exact ⟨h1, h2, fun h3 => by omega⟩

/-! ### degrees from list lengths -/

theorem natDegree_toPoly_le (p : List Nat) : (toPoly p).natDegree ≤ p.length - 1 := by
  by_cases h : p = []
  · subst h; simp
  · have := ProverMask.natDegree_toPoly_lt p h
    omega

/-- the degree profile of the polynomials behind coefficient lists, from the list lengths -/
theorem polysDeg2_of_lengths (sel sigma : Array Poly) (aP bP cP dP zP piP : Poly) (e f : Nat)
    (hsel : ∀ j, (sel.getD j []).length ≤ e + 1) (hsig : ∀ j, (sigma.getD j []).length ≤ e + 1)
    (ha : aP.length ≤ e + 1) (hb : bP.length ≤ e + 1) (hc : cP.length ≤ e + 1)
    (hd : dP.length ≤ e + 1) (hpi : piP.length ≤ e + 1) (hz : zP.length ≤ f + 1) :
    PolysDeg2 (polysOf sel sigma aP bP cP dP zP piP) e f := by
  have k (p : List Nat) (m : Nat) (h : p.length ≤ m + 1) : (toPoly p).natDegree ≤ m := by
    have := natDegree_toPoly_le p; omega
  exact ⟨⟨k _ _ (hsel 0), k _ _ (hsel 1), k _ _ (hsel 2), k _ _ (hsel 3), k _ _ (hsel 4),
    k _ _ (hsel 5), k _ _ (hsel 6), k _ _ (hsel 7), k _ _ (hsel 8), k _ _ (hsel 9),
    k _ _ (hsel 10)⟩, k _ _ ha, k _ _ hb, k _ _ hc, k _ _ hd, k _ _ hpi, k _ _ (hsig 0),
    k _ _ (hsig 1), k _ _ (hsig 2), k _ _ (hsig 3), k _ _ hz⟩

end Plonk.Complete
