/-
  G1 group law, part 2: the Jacobian model (`J1.ofAffine toAffine double add` of
  `Plonk/Model/Bls.lean`) agrees with the affine model `G1.add`, for every representable input
  (including `P = Q`, `P = −Q`, infinity: `J1.add` falls back to `double` / `inf`).
-/
import Plonk.Proofs.G1GroupAffine

set_option Elab.async false

namespace Plonk

theorem ne_zero_of_toP {a : Nat} (h : toP a ≠ 0) : a ≠ 0 := by rintro rfl; exact h toP_zero
theorem toP_ne_zero_of_lt {a : Nat} (h : a < P) (h0 : a ≠ 0) : toP a ≠ 0 :=
  fun e => h0 ((toP_eq_zero_of_lt h).mp e)

namespace J1

/-- `j` is a reduced Jacobian representative of the valid affine point `p`:
    `Z = 0` and `p = ∞`, or `Z ≠ 0`, `x = X / Z²`, `y = Y / Z³` -/
def Rep (j : J1) : G1 → Prop
  | .inf => j.x < P ∧ j.y < P ∧ j.z = 0
  | .aff x y => (G1.aff x y).Valid ∧ j.x < P ∧ j.y < P ∧ j.z < P ∧ j.z ≠ 0 ∧
      toP j.x = toP x * toP j.z ^ 2 ∧ toP j.y = toP y * toP j.z ^ 3

theorem Rep.valid {j : J1} {p : G1} (h : Rep j p) : p.Valid := by
  cases p with
  | inf => trivial
  | aff x y => exact h.1

theorem Rep.red {j : J1} {p : G1} (h : Rep j p) : j.x < P ∧ j.y < P ∧ j.z < P := by
  cases p with
  | inf => exact ⟨h.1, h.2.1, by have := h.2.2; have := P_pos; omega⟩
  | aff x y => exact ⟨h.2.1, h.2.2.1, h.2.2.2.1⟩

theorem Rep.z_eq_zero_iff {j : J1} {p : G1} (h : Rep j p) : j.z = 0 ↔ p = .inf := by
  cases p with
  | inf => exact ⟨fun _ => rfl, fun _ => h.2.2⟩
  | aff x y => exact ⟨fun e => absurd e h.2.2.2.2.1, fun e => by cases e⟩

theorem one_lt_P : 1 < P := by decide +kernel

theorem inf_rep : Rep inf .inf := ⟨one_lt_P, one_lt_P, rfl⟩

theorem ofAffine_rep {p : G1} (hp : p.Valid) : Rep (ofAffine p) p := by
  cases p with
  | inf => exact inf_rep
  | aff x y =>
    refine ⟨hp, hp.1, hp.2.1, one_lt_P, Nat.one_ne_zero, ?_, ?_⟩
    · show toP x = toP x * toP 1 ^ 2; rw [toP_one]; ring
    · show toP y = toP y * toP 1 ^ 3; rw [toP_one]; ring

theorem toAffine_eq (p : J1) : p.toAffine =
    if p.z = 0 then .inf else
      .aff (pmul p.x (psq (pinv p.z))) (pmul p.y (pmul (psq (pinv p.z)) (pinv p.z))) := by
  simp only [J1.toAffine, beq_iff_eq]

/-- converting back gives exactly the represented point -/
theorem toAffine_rep {j : J1} {p : G1} (h : Rep j p) : j.toAffine = p := by
  cases p with
  | inf => rw [toAffine_eq, if_pos h.2.2]
  | aff x y =>
    obtain ⟨hv, _, _, _, hz, hX, hY⟩ := h
    have hz' : toP j.z ≠ 0 := toP_ne_zero_of_lt ‹_› hz
    rw [toAffine_eq, if_neg hz]
    have e1 : pmul j.x (psq (pinv j.z)) = x := by
      rw [← toP_inj_of_lt (pmul_lt _ _) hv.1]
      simp only [toP_pmul, toP_psq, toP_pinv, hX]
      field_simp
    have e2 : pmul j.y (pmul (psq (pinv j.z)) (pinv j.z)) = y := by
      rw [← toP_inj_of_lt (pmul_lt _ _) hv.2.1]
      simp only [toP_pmul, toP_psq, toP_pinv, hY]
      field_simp
    rw [e1, e2]

theorem double_eq (p : J1) : p.double =
    if p.z = 0 ∨ p.y = 0 then J1.inf else
      ⟨psub (psq (pmul 3 (psq p.x))) (pmul 2 (pmul 2 (psub (psub (psq (padd p.x (psq p.y))) (psq p.x)) (psq (psq p.y))))),
       psub (pmul (pmul 3 (psq p.x)) (psub (pmul 2 (psub (psub (psq (padd p.x (psq p.y))) (psq p.x)) (psq (psq p.y))))
         (psub (psq (pmul 3 (psq p.x))) (pmul 2 (pmul 2 (psub (psub (psq (padd p.x (psq p.y))) (psq p.x)) (psq (psq p.y))))))))
         (pmul 8 (psq (psq p.y))),
       pmul (pmul 2 p.y) p.z⟩ := by
  simp only [J1.double, Bool.or_eq_true, beq_iff_eq]

theorem add_eq (p q : J1) : p.add q =
    if p.z = 0 then q else if q.z = 0 then p else
    if pmul p.x (psq q.z) = pmul q.x (psq p.z) then
      (if pmul (pmul p.y q.z) (psq q.z) = pmul (pmul q.y p.z) (psq p.z) then p.double else J1.inf)
    else
      ⟨psub (psub (psq (pmul 2 (psub (pmul (pmul q.y p.z) (psq p.z)) (pmul (pmul p.y q.z) (psq q.z)))))
          (pmul (psub (pmul q.x (psq p.z)) (pmul p.x (psq q.z))) (psq (pmul 2 (psub (pmul q.x (psq p.z)) (pmul p.x (psq q.z)))))))
          (pmul 2 (pmul (pmul p.x (psq q.z)) (psq (pmul 2 (psub (pmul q.x (psq p.z)) (pmul p.x (psq q.z))))))),
       psub (pmul (pmul 2 (psub (pmul (pmul q.y p.z) (psq p.z)) (pmul (pmul p.y q.z) (psq q.z))))
          (psub (pmul (pmul p.x (psq q.z)) (psq (pmul 2 (psub (pmul q.x (psq p.z)) (pmul p.x (psq q.z))))))
            (psub (psub (psq (pmul 2 (psub (pmul (pmul q.y p.z) (psq p.z)) (pmul (pmul p.y q.z) (psq q.z)))))
          (pmul (psub (pmul q.x (psq p.z)) (pmul p.x (psq q.z))) (psq (pmul 2 (psub (pmul q.x (psq p.z)) (pmul p.x (psq q.z)))))))
          (pmul 2 (pmul (pmul p.x (psq q.z)) (psq (pmul 2 (psub (pmul q.x (psq p.z)) (pmul p.x (psq q.z))))))))))
          (pmul 2 (pmul (pmul (pmul p.y q.z) (psq q.z)) (pmul (psub (pmul q.x (psq p.z)) (pmul p.x (psq q.z))) (psq (pmul 2 (psub (pmul q.x (psq p.z)) (pmul p.x (psq q.z)))))))),
       pmul (psub (psub (psq (padd p.z q.z)) (psq p.z)) (psq q.z)) (psub (pmul q.x (psq p.z)) (pmul p.x (psq q.z)))⟩ := by
  simp only [J1.add, beq_iff_eq]

/-- Jacobian doubling (dbl-2009-l) represents the affine doubling -/
theorem double_rep {j : J1} {p : G1} (h : Rep j p) : Rep j.double (p.add p) := by
  cases p with
  | inf =>
    rw [double_eq, if_pos (Or.inl h.2.2)]; exact inf_rep
  | aff x y =>
    obtain ⟨hv, hjx, hjy, hjz, hz, hX, hY⟩ := h
    have hc := (G1.onCurve_aff_iff x y).mp hv.onCurve
    have hy0 : toP y ≠ 0 := G1.y_ne_zero hc
    have hy0' : y ≠ 0 := ne_zero_of_toP hy0
    have hz' : toP j.z ≠ 0 := toP_ne_zero_of_lt hjz hz
    have hY0 : toP j.y ≠ 0 := by rw [hY]; exact mul_ne_zero hy0 (pow_ne_zero _ hz')
    have hY0' : j.y ≠ 0 := ne_zero_of_toP hY0
    have h2 : (2 : Fp) ≠ 0 := Fp_two_ne_zero
    have hadd := G1.add_valid hv hv
    rw [G1.add_aff_eq, if_pos rfl, if_pos ⟨rfl, hy0'⟩] at hadd ⊢
    rw [double_eq, if_neg (by rintro (h | h); exact hz h; exact hY0' h)]
    refine ⟨hadd, psub_lt _ _, psub_lt _ _, pmul_lt _ _, ne_zero_of_toP ?_, ?_, ?_⟩
    · simp only [toP_pmul, toP_two]
      exact mul_ne_zero (mul_ne_zero Fp_two_ne_zero hY0) hz'
    · simp only [toP_psub, toP_psq, toP_pmul, toP_padd, toP_pinv, toP_two, toP_three, hX, hY]
      field_simp
      ring
    · simp only [toP_psub, toP_psq, toP_pmul, toP_padd, toP_pinv, toP_two, toP_three, toP_eight, hX, hY]
      field_simp
      ring

theorem u_eq_iff {X1 Z1 X2 Z2 x1 x2 : Nat} (hx1 : x1 < P) (hx2 : x2 < P)
    (hz1 : toP Z1 ≠ 0) (hz2 : toP Z2 ≠ 0)
    (hX1 : toP X1 = toP x1 * toP Z1 ^ 2) (hX2 : toP X2 = toP x2 * toP Z2 ^ 2) :
    pmul X1 (psq Z2) = pmul X2 (psq Z1) ↔ x1 = x2 := by
  rw [← toP_inj_of_lt (pmul_lt _ _) (pmul_lt _ _), ← toP_inj_of_lt hx1 hx2]
  simp only [toP_pmul, toP_psq, hX1, hX2]
  constructor
  · intro h
    have : (toP x1 - toP x2) * (toP Z1 ^ 2 * toP Z2 ^ 2) = 0 := by linear_combination h
    rcases mul_eq_zero.mp this with h | h
    · exact sub_eq_zero.mp h
    · exact absurd h (mul_ne_zero (pow_ne_zero _ hz1) (pow_ne_zero _ hz2))
  · intro h; rw [h]; ring

theorem s_eq_iff {Y1 Z1 Y2 Z2 y1 y2 : Nat} (hy1 : y1 < P) (hy2 : y2 < P)
    (hz1 : toP Z1 ≠ 0) (hz2 : toP Z2 ≠ 0)
    (hY1 : toP Y1 = toP y1 * toP Z1 ^ 3) (hY2 : toP Y2 = toP y2 * toP Z2 ^ 3) :
    pmul (pmul Y1 Z2) (psq Z2) = pmul (pmul Y2 Z1) (psq Z1) ↔ y1 = y2 := by
  rw [← toP_inj_of_lt (pmul_lt _ _) (pmul_lt _ _), ← toP_inj_of_lt hy1 hy2]
  simp only [toP_pmul, toP_psq, hY1, hY2]
  constructor
  · intro h
    have : (toP y1 - toP y2) * (toP Z1 ^ 3 * toP Z2 ^ 3) = 0 := by linear_combination h
    rcases mul_eq_zero.mp this with h | h
    · exact sub_eq_zero.mp h
    · exact absurd h (mul_ne_zero (pow_ne_zero _ hz1) (pow_ne_zero _ hz2))
  · intro h; rw [h]; ring

/-- the generic (chord) branch of `J1.add` (add-2007-bl) -/
theorem add_rep_chord {j k : J1} {x1 y1 x2 y2 : Nat} (h1 : Rep j (.aff x1 y1)) (h2 : Rep k (.aff x2 y2))
    (hx : x1 ≠ x2) : Rep (j.add k) ((G1.aff x1 y1).add (.aff x2 y2)) := by
  obtain ⟨hv1, hjx, hjy, hjz, hz1, hX1, hY1⟩ := h1
  obtain ⟨hv2, hkx, hky, hkz, hz2, hX2, hY2⟩ := h2
  have hz1' : toP j.z ≠ 0 := toP_ne_zero_of_lt hjz hz1
  have hz2' : toP k.z ≠ 0 := toP_ne_zero_of_lt hkz hz2
  have hu := (u_eq_iff hv1.1 hv2.1 hz1' hz2' hX1 hX2).not.mpr hx
  have hx' : toP x2 - toP x1 ≠ 0 :=
    sub_ne_zero.mpr fun h => hx ((toP_inj_of_lt hv2.1 hv1.1).mp h).symm
  have hadd := G1.add_valid hv1 hv2
  rw [G1.add_aff_eq, if_neg hx] at hadd ⊢
  rw [add_eq, if_neg hz1, if_neg hz2, if_neg hu]
  refine ⟨hadd, psub_lt _ _, psub_lt _ _, pmul_lt _ _, ne_zero_of_toP ?_, ?_, ?_⟩
  · simp only [toP_psub, toP_psq, toP_pmul, toP_padd, hX1, hX2]
    have e : ((toP j.z + toP k.z) * (toP j.z + toP k.z) - toP j.z * toP j.z - toP k.z * toP k.z) *
        (toP x2 * toP k.z ^ 2 * (toP j.z * toP j.z) - toP x1 * toP j.z ^ 2 * (toP k.z * toP k.z)) =
        2 * (toP j.z * toP k.z) ^ 3 * (toP x2 - toP x1) := by ring
    rw [e]
    exact mul_ne_zero (mul_ne_zero Fp_two_ne_zero (pow_ne_zero _ (mul_ne_zero hz1' hz2'))) hx'
  · simp only [toP_psub, toP_psq, toP_pmul, toP_padd, toP_pinv, toP_two, hX1, hX2, hY1, hY2]
    field_simp
    ring
  · simp only [toP_psub, toP_psq, toP_pmul, toP_padd, toP_pinv, toP_two, hX1, hX2, hY1, hY2]
    field_simp
    ring

/-- Jacobian addition represents the affine addition, in every case -/
theorem add_rep {j k : J1} {p q : G1} (h1 : Rep j p) (h2 : Rep k q) : Rep (j.add k) (p.add q) := by
  cases p with
  | inf =>
    have : G1.add .inf q = q := by cases q <;> rfl
    rw [this, add_eq, if_pos h1.2.2]; exact h2
  | aff x1 y1 =>
    have hz1 : j.z ≠ 0 := h1.2.2.2.2.1
    cases q with
    | inf =>
      have : G1.add (.aff x1 y1) .inf = .aff x1 y1 := rfl
      rw [this, add_eq, if_neg hz1, if_pos h2.2.2]; exact h1
    | aff x2 y2 =>
      by_cases hx : x1 = x2
      · subst hx
        have hz2 : k.z ≠ 0 := h2.2.2.2.2.1
        have hz1' : toP j.z ≠ 0 := toP_ne_zero_of_lt h1.2.2.2.1 hz1
        have hz2' : toP k.z ≠ 0 := toP_ne_zero_of_lt h2.2.2.2.1 hz2
        have hu := (u_eq_iff h1.1.1 h2.1.1 hz1' hz2' h1.2.2.2.2.2.1 h2.2.2.2.2.2.1).mpr rfl
        have hs := s_eq_iff h1.1.2.1 h2.1.2.1 hz1' hz2' h1.2.2.2.2.2.2 h2.2.2.2.2.2.2
        rw [add_eq, if_neg hz1, if_neg hz2, if_pos hu]
        by_cases hy : y1 = y2
        · subst hy
          rw [if_pos (hs.mpr rfl)]
          exact double_rep h1
        · rw [if_neg (hs.not.mpr hy)]
          have hc1 := (G1.onCurve_aff_iff x1 y1).mp h1.1.onCurve
          rw [G1.add_aff_eq, if_pos rfl, if_neg (fun h => hy h.1)]
          exact inf_rep
      · exact add_rep_chord h1 h2 hx

end J1

end Plonk
