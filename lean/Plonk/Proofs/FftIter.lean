/-
  C19 (FFT half), iterative transform, array level: bit reversal (`bitreverse`,
  `bitreversePermute`), specification of one butterfly chunk and of one stage of `serialFft`
  as index formulas on `getD`.
-/
import Plonk.Model.FFT
import Plonk.Proofs.FftThreads
import Mathlib.Tactic.Ring

namespace Plonk
open List

/-! ### arrays through `getD` -/

theorem getD_setIfInBounds (a : Array Nat) (i j v : Nat) :
    (a.setIfInBounds i v).getD j 0 = if i = j ∧ i < a.size then v else a.getD j 0 := by
  simp only [Array.getD_eq_getD_getElem?, Array.getElem?_setIfInBounds]
  by_cases h : i = j
  · subst h
    by_cases h2 : i < a.size
    · simp [h2]
    · simp [h2]
  · simp [h]

theorem array_getD_of_lt (a : Array Nat) (i : Nat) (h : i < a.size) : a.getD i 0 = a[i] := by
  simp [Array.getD_eq_getD_getElem?, h]

theorem array_getD_of_le (a : Array Nat) (i : Nat) (h : a.size ≤ i) : a.getD i 0 = 0 := by
  simp [Array.getD_eq_getD_getElem?, h]

theorem array_ext_getD (a b : Array Nat) (hs : a.size = b.size)
    (h : ∀ i, i < a.size → a.getD i 0 = b.getD i 0) : a = b := by
  apply Array.ext hs
  intro i h1 h2
  rw [← array_getD_of_lt a i h1, ← array_getD_of_lt b i h2]
  exact h i h1

theorem getD_toArray (l : List Nat) (i : Nat) : l.toArray.getD i 0 = l.getD i 0 := by
  simp [Array.getD_eq_getD_getElem?, List.getD_eq_getElem?_getD]

theorem getD_toList (a : Array Nat) (i : Nat) : a.toList.getD i 0 = a.getD i 0 := by
  simp [Array.getD_eq_getD_getElem?, List.getD_eq_getElem?_getD]

/-! ### bit reversal -/

/-- bit reversal of the `l` low bits, by recursion on the low bit -/
def brev : Nat → Nat → Nat
  | 0, _ => 0
  | l + 1, n => (n % 2) * 2 ^ l + brev l (n / 2)

theorem or_bit (a b : Nat) (h : b < 2) : (a * 2) ||| b = a * 2 + b := by
  have := Nat.two_pow_add_eq_or_of_lt (i := 1) (b := b) (by simpa using h) a
  simp only [Nat.pow_one] at this
  rw [Nat.mul_comm]; exact this.symm

theorem bitreverse_fold (xs : List Nat) : ∀ (acc n : Nat),
    xs.foldl (fun (acc : Nat × Nat) _ => ((acc.1 * 2) ||| (acc.2 % 2), acc.2 / 2)) (acc, n)
      = (acc * 2 ^ xs.length + brev xs.length n, n / 2 ^ xs.length) := by
  induction xs with
  | nil => intro acc n; simp [brev]
  | cons x xs ih =>
    intro acc n
    rw [List.foldl_cons, ih, or_bit _ _ (Nat.mod_lt _ (by omega))]
    simp only [List.length_cons, brev, Nat.pow_succ]
    rw [Nat.div_div_eq_div_mul]
    congr 1
    · ring
    · rw [Nat.mul_comm]

theorem bitreverse_eq_brev (n l : Nat) : bitreverse n l = brev l n := by
  unfold bitreverse
  have := bitreverse_fold (List.range l) 0 n
  simp only [List.length_range] at this
  rw [this]; simp

theorem brev_lt (l : Nat) : ∀ n, brev l n < 2 ^ l := by
  induction l with
  | zero => intro n; simp [brev]
  | succ l ih =>
    intro n
    have h1 := ih (n / 2)
    have h2 : n % 2 < 2 := Nat.mod_lt _ (by omega)
    simp only [brev, Nat.pow_succ]
    rcases Nat.lt_succ_iff.mp h2 |>.eq_or_lt with h | h
    · rw [h]; omega
    · have : n % 2 = 0 := by omega
      rw [this]; omega

theorem brev_two_mul (t c : Nat) : brev (t + 1) (2 * c) = brev t c := by
  simp [brev]

theorem brev_two_mul_add_one (t c : Nat) : brev (t + 1) (2 * c + 1) = 2 ^ t + brev t c := by
  have h1 : (2 * c + 1) % 2 = 1 := by omega
  have h2 : (2 * c + 1) / 2 = c := by omega
  simp [brev, h1, h2]

/-- recursion on the top bit -/
theorem brev_top (l : Nat) : ∀ (b r : Nat), b < 2 → r < 2 ^ l →
    brev (l + 1) (b * 2 ^ l + r) = 2 * brev l r + b := by
  induction l with
  | zero =>
    intro b r hb hr
    have : r = 0 := by simpa using hr
    subst this
    simp [brev, Nat.mod_eq_of_lt hb]
  | succ l ih =>
    intro b r hb hr
    have hr2 : r / 2 < 2 ^ l := by rw [Nat.pow_succ] at hr; omega
    have e0 : b * 2 ^ (l + 1) = 2 * (b * 2 ^ l) := by rw [Nat.pow_succ]; ring
    have e1 : (b * 2 ^ (l + 1) + r) % 2 = r % 2 := by rw [e0]; omega
    have e2 : (b * 2 ^ (l + 1) + r) / 2 = b * 2 ^ l + r / 2 := by rw [e0]; omega
    have step : brev (l + 1 + 1) (b * 2 ^ (l + 1) + r)
        = ((b * 2 ^ (l + 1) + r) % 2) * 2 ^ (l + 1) + brev (l + 1) ((b * 2 ^ (l + 1) + r) / 2) := rfl
    rw [step, e1, e2, ih b (r / 2) hb hr2]
    have step2 : brev (l + 1) r = (r % 2) * 2 ^ l + brev l (r / 2) := rfl
    rw [step2, Nat.pow_succ]; ring

/-- bit reversal is an involution on `[0, 2^l)` -/
theorem brev_brev (l : Nat) : ∀ n, n < 2 ^ l → brev l (brev l n) = n := by
  induction l with
  | zero => intro n hn; simp at hn; subst hn; rfl
  | succ l ih =>
    intro n hn
    have hn2 : n / 2 < 2 ^ l := by rw [Nat.pow_succ] at hn; omega
    have step : brev (l + 1) n = (n % 2) * 2 ^ l + brev l (n / 2) := rfl
    rw [step, brev_top l _ _ (Nat.mod_lt _ (by omega)) (brev_lt l _), ih _ hn2]
    omega

theorem brev_eq_iff (l i k : Nat) (hi : i < 2 ^ l) (hk : k < 2 ^ l) :
    brev l i = k ↔ i = brev l k := by
  constructor
  · intro h; rw [← h, brev_brev l i hi]
  · intro h; rw [h, brev_brev l k hk]

/-! ### `bitreversePermute` -/

/-- loop body of `bitreversePermute` -/
def bpStep (logN : Nat) (a : Array Nat) (k : Nat) : Array Nat :=
  let rk := bitreverse k logN
  if k < rk then
    let x := a.getD k 0; let y := a.getD rk 0
    (a.setIfInBounds k y).setIfInBounds rk x
  else a

theorem bitreversePermute_eq (a : Array Nat) (logN : Nat) :
    bitreversePermute a logN = (List.range a.size).foldl (bpStep logN) a := rfl

theorem bpStep_size (logN : Nat) (a : Array Nat) (k : Nat) : (bpStep logN a k).size = a.size := by
  unfold bpStep
  simp only
  split <;> simp

theorem bpStep_getD (logN : Nat) (a : Array Nat) (k : Nat) (hk : k < a.size)
    (hr : brev logN k < a.size) (i : Nat) :
    (bpStep logN a k).getD i 0
      = if k < brev logN k then
          (if i = brev logN k then a.getD k 0 else if i = k then a.getD (brev logN k) 0
            else a.getD i 0)
        else a.getD i 0 := by
  unfold bpStep
  simp only [bitreverse_eq_brev]
  split
  · rw [getD_setIfInBounds, getD_setIfInBounds]
    simp only [Array.size_setIfInBounds, hk, hr, and_true]
    by_cases h1 : brev logN k = i
    · simp [h1]
    · have h1' : ¬ i = brev logN k := fun h => h1 h.symm
      by_cases h2 : k = i
      · subst h2; simp [h1, h1']
      · have h2' : ¬ i = k := fun h => h2 h.symm
        simp [h1, h1', h2, h2']
  · rfl

/-- invariant of the swap loop -/
theorem bp_fold (L : Nat) (a : Array Nat) (hsize : a.size = 2 ^ L) (K : Nat) (hK : K ≤ 2 ^ L) :
    ((List.range K).foldl (bpStep L) a).size = a.size ∧
    ∀ i, i < 2 ^ L → ((List.range K).foldl (bpStep L) a).getD i 0
      = if i < K ∨ brev L i < K then a.getD (brev L i) 0 else a.getD i 0 := by
  induction K with
  | zero => simp
  | succ K ih =>
    obtain ⟨ihs, ihg⟩ := ih (by omega)
    rw [List.range_succ, List.foldl_append]
    simp only [List.foldl_cons, List.foldl_nil]
    generalize ((List.range K).foldl (bpStep L) a) = cur at ihs ihg ⊢
    have hKlt : K < 2 ^ L := by omega
    have hrK := brev_lt L K
    refine ⟨by rw [bpStep_size, ihs], ?_⟩
    intro i hi
    rw [bpStep_getD L cur K (by omega) (by omega) i]
    have hcurK : cur.getD K 0 = if brev L K < K then a.getD (brev L K) 0 else a.getD K 0 := by
      rw [ihg K hKlt]; simp
    have hcurR : K < brev L K → cur.getD (brev L K) 0 = a.getD (brev L K) 0 := by
      intro h
      rw [ihg _ hrK, brev_brev L K hKlt]
      have : ¬ (brev L K < K ∨ K < K) := by omega
      rw [if_neg this]
    have hiff : brev L i = K ↔ i = brev L K := brev_eq_iff L i K hi hKlt
    by_cases hlt : K < brev L K
    · rw [if_pos hlt]
      by_cases h1 : i = brev L K
      · rw [if_pos h1, hcurK, if_neg (by omega)]
        have : brev L i = K := hiff.mpr h1
        rw [this, if_pos (by omega)]
      · rw [if_neg h1]
        by_cases h2 : i = K
        · rw [if_pos h2, hcurR hlt, h2, if_pos (by omega)]
        · rw [if_neg h2, ihg i hi]
          have hne : brev L i ≠ K := fun h => h1 (hiff.mp h)
          have : (i < K + 1 ∨ brev L i < K + 1) ↔ (i < K ∨ brev L i < K) := by omega
          simp only [this]
    · rw [if_neg hlt, ihg i hi]
      by_cases h1 : i = brev L K
      · have hb : brev L i = K := hiff.mpr h1
        by_cases h2 : brev L K = K
        · have : i = K := by omega
          subst this
          rw [if_neg (by omega), if_pos (by omega), hb]
        · have : brev L K < K := by omega
          rw [if_pos (by omega), if_pos (by omega)]
      · have hne : brev L i ≠ K := fun h => h1 (hiff.mp h)
        by_cases h2 : i = K
        · subst h2
          by_cases h3 : brev L i = i
          · rw [if_neg (by omega), if_pos (by omega), h3]
          · rw [if_pos (by omega), if_pos (by omega)]
        · have : (i < K + 1 ∨ brev L i < K + 1) ↔ (i < K ∨ brev L i < K) := by omega
          simp only [this]

/-- **`bitreversePermute` spec**: entry `i` of the result is entry `brev L i` of the input -/
theorem bitreversePermute_spec (L : Nat) (a : Array Nat) (hsize : a.size = 2 ^ L) :
    (bitreversePermute a L).size = a.size ∧
    ∀ i, i < 2 ^ L → (bitreversePermute a L).getD i 0 = a.getD (brev L i) 0 := by
  rw [bitreversePermute_eq]
  obtain ⟨h1, h2⟩ := bp_fold L a hsize a.size (by omega)
  refine ⟨h1, ?_⟩
  intro i hi
  rw [h2 i hi, if_pos (by omega)]

/-! ### one butterfly chunk -/

/-- canonical representative of `wm^j`, as produced by the running product of the loop -/
def twid (wm : Nat) : Nat → Nat
  | 0 => 1 % R
  | j + 1 => fmul (twid wm j) wm

theorem twid_lt (wm j : Nat) : twid wm j < R := by
  cases j with
  | zero => exact one_mod_R_lt
  | succ j => exact fmul_lt _ _

theorem toF_twid (wm j : Nat) : toF (twid wm j) = toF wm ^ j := by
  induction j with
  | zero => simp [twid]
  | succ j ih => simp [twid, ih, pow_succ]

/-- formula for the array after the first `len` butterflies of the chunk at `lo` -/
def chunkVal (a : Array Nat) (lo m wm len idx : Nat) : Nat :=
  if lo ≤ idx ∧ idx < lo + len then
    fadd (a.getD idx 0) (fmul (a.getD (idx + m) 0) (twid wm (idx - lo)))
  else if lo + m ≤ idx ∧ idx < lo + m + len then
    fsub (a.getD (idx - m) 0) (fmul (a.getD idx 0) (twid wm (idx - lo - m)))
  else a.getD idx 0

theorem brState_spec (a : Array Nat) (lo m wm len : Nat) (hlen : len ≤ m)
    (hb : lo + m + len ≤ a.size) :
    (brState a lo m 0 len wm (1 % R)).1.size = a.size ∧
    (brState a lo m 0 len wm (1 % R)).2 = twid wm len ∧
    ∀ idx, (brState a lo m 0 len wm (1 % R)).1.getD idx 0 = chunkVal a lo m wm len idx := by
  induction len with
  | zero =>
    refine ⟨rfl, rfl, ?_⟩
    intro idx
    unfold chunkVal
    rw [if_neg (by omega), if_neg (by omega)]; rfl
  | succ len ih =>
    obtain ⟨ih1, ih2, ih3⟩ := ih (by omega) (by omega)
    unfold brState at ih1 ih2 ih3 ⊢
    rw [List.range_succ, List.foldl_append]
    simp only [List.foldl_cons, List.foldl_nil]
    generalize ((List.range len).foldl (brStep lo m 0 wm) (a, 1 % R)) = st at ih1 ih2 ih3 ⊢
    obtain ⟨b, w⟩ := st
    simp only at ih1 ih2 ih3
    subst ih2
    simp only [brStep, Nat.add_zero]
    refine ⟨by simp [ih1], rfl, ?_⟩
    intro idx
    rw [getD_setIfInBounds, getD_setIfInBounds]
    simp only [Array.size_setIfInBounds, ih1]
    have hli : b.getD (lo + len) 0 = a.getD (lo + len) 0 := by
      rw [ih3]; unfold chunkVal; rw [if_neg (by omega), if_neg (by omega)]
    have hri : b.getD (lo + m + len) 0 = a.getD (lo + m + len) 0 := by
      rw [ih3]; unfold chunkVal; rw [if_neg (by omega), if_neg (by omega)]
    rw [hli, hri]
    by_cases h1 : lo + len = idx
    · subst h1
      rw [if_pos ⟨rfl, by omega⟩]
      unfold chunkVal
      rw [if_pos (by omega)]
      have e1 : lo + len + m = lo + m + len := by omega
      have e2 : lo + len - lo = len := by omega
      rw [e1, e2]
    · rw [if_neg (by omega)]
      by_cases h2 : lo + m + len = idx
      · subst h2
        rw [if_pos ⟨rfl, by omega⟩]
        unfold chunkVal
        rw [if_neg (by omega), if_pos (by omega)]
        have e1 : lo + m + len - m = lo + len := by omega
        have e2 : lo + m + len - lo - m = len := by omega
        rw [e1, e2]
      · rw [if_neg (by omega), ih3]
        unfold chunkVal
        have c1 : (lo ≤ idx ∧ idx < lo + (len + 1)) ↔ (lo ≤ idx ∧ idx < lo + len) := by omega
        have c2 : (lo + m ≤ idx ∧ idx < lo + m + (len + 1)) ↔ (lo + m ≤ idx ∧ idx < lo + m + len) := by
          omega
        simp only [c1, c2]

/-- **one butterfly chunk** -/
theorem butterflyChunk_spec (a : Array Nat) (lo m wm : Nat) (hb : lo + 2 * m ≤ a.size) :
    (butterflyChunk a lo m wm).size = a.size ∧
    ∀ idx, (butterflyChunk a lo m wm).getD idx 0 = chunkVal a lo m wm m idx := by
  unfold butterflyChunk
  rw [butterflyRange_eq]
  obtain ⟨h1, _, h3⟩ := brState_spec a lo m wm m (Nat.le_refl _) (by omega)
  exact ⟨h1, h3⟩

/-! ### one stage -/

/-- formula for one full stage with half-size `m` -/
def stageVal (a : Array Nat) (m wm idx : Nat) : Nat :=
  if idx % (2 * m) < m then
    fadd (a.getD idx 0) (fmul (a.getD (idx + m) 0) (twid wm (idx % (2 * m))))
  else
    fsub (a.getD (idx - m) 0) (fmul (a.getD idx 0) (twid wm (idx % (2 * m) - m)))

theorem mod_of_block (c q idx : Nat) (h1 : c * q ≤ idx) (h2 : idx < c * q + q) :
    idx % q = idx - c * q := by
  have hq : 0 < q := by omega
  have : idx = (idx - c * q) + c * q := by omega
  conv_lhs => rw [this]
  rw [Nat.add_mul_mod_self_right, Nat.mod_eq_of_lt (by omega)]

theorem stage_fold (a : Array Nat) (m wm : Nat) (cnt : Nat) (hb : cnt * (2 * m) ≤ a.size) :
    ((List.range cnt).foldl (fun a c => butterflyChunk a (c * 2 * m) m wm) a).size = a.size ∧
    ∀ idx, ((List.range cnt).foldl (fun a c => butterflyChunk a (c * 2 * m) m wm) a).getD idx 0
      = if idx < cnt * (2 * m) then stageVal a m wm idx else a.getD idx 0 := by
  induction cnt with
  | zero => simp
  | succ cnt ih =>
    have hsucc : (cnt + 1) * (2 * m) = cnt * (2 * m) + 2 * m := by ring
    obtain ⟨ih1, ih2⟩ := ih (by omega)
    rw [List.range_succ, List.foldl_append]
    simp only [List.foldl_cons, List.foldl_nil]
    generalize ((List.range cnt).foldl (fun a c => butterflyChunk a (c * 2 * m) m wm) a) = b
      at ih1 ih2 ⊢
    have hlo : cnt * 2 * m = cnt * (2 * m) := by ring
    obtain ⟨h1, h2⟩ := butterflyChunk_spec b (cnt * 2 * m) m wm (by rw [ih1, hlo]; omega)
    refine ⟨by rw [h1, ih1], ?_⟩
    intro idx
    rw [h2, hlo, hsucc]
    unfold chunkVal
    by_cases c1 : cnt * (2 * m) ≤ idx ∧ idx < cnt * (2 * m) + m
    · rw [if_pos c1, if_pos (by omega)]
      have hmod := mod_of_block cnt (2 * m) idx (by omega) (by omega)
      unfold stageVal
      rw [hmod, if_pos (by omega), ih2, if_neg (by omega), ih2, if_neg (by omega)]
    · rw [if_neg c1]
      by_cases c2 : cnt * (2 * m) + m ≤ idx ∧ idx < cnt * (2 * m) + m + m
      · rw [if_pos c2, if_pos (by omega)]
        have hmod := mod_of_block cnt (2 * m) idx (by omega) (by omega)
        unfold stageVal
        rw [hmod, if_neg (by omega), ih2, if_neg (by omega), ih2, if_neg (by omega)]
      · rw [if_neg c2, ih2]
        by_cases c3 : idx < cnt * (2 * m)
        · rw [if_pos c3, if_pos (by omega)]
        · rw [if_neg c3, if_neg (by omega)]

/-- **one stage of `serialFft`** (`n = cnt·2m`) -/
theorem serialStage_spec (n omega : Nat) (a : Array Nat) (m : Nat) (hsize : a.size = n)
    (hn : n / (2 * m) * (2 * m) = n) :
    (serialStage n omega (a, m)).2 = 2 * m ∧
    (serialStage n omega (a, m)).1.size = n ∧
    ∀ idx, idx < n → (serialStage n omega (a, m)).1.getD idx 0
      = stageVal a m (fpow omega (n / (2 * m))) idx := by
  obtain ⟨h1, h2⟩ := stage_fold a m (fpow omega (n / (2 * m))) (n / (2 * m)) (by omega)
  refine ⟨rfl, ?_, ?_⟩
  · show ((List.range (n / (2 * m))).foldl _ a).size = n
    rw [h1, hsize]
  · intro idx hidx
    show ((List.range (n / (2 * m))).foldl _ a).getD idx 0 = _
    rw [h2, hn, if_pos hidx]

end Plonk
