/-
  C02 (soundness): the degree of the numerator polynomial.  If every committed / preprocessed
  polynomial has degree `≤ d` (`1 ≤ d`), then `deg Num ≤ 5d + n`; hence the bad set of the
  evaluation challenge has at most `max (5d + n) (deg T + n)` elements.
-/
import Mathlib.Tactic.ComputeDegree
import Plonk.Proofs.SoundnessCore

namespace Plonk.Sound
open Polynomial Plonk.Quot

section
variable {K : Type*} [Field K]

theorem deg_deltaR (x : K[X]) (e : ℕ) (hx : x.natDegree ≤ e) : (deltaR x).natDegree ≤ 4 * e := by
  unfold deltaR
  compute_degree
  omega

theorem deg_deltaXorAndR (a b w c qc : K[X]) (e : ℕ) (ha : a.natDegree ≤ e) (hb : b.natDegree ≤ e)
    (hw : w.natDegree ≤ e) (hc : c.natDegree ≤ e) (hq : qc.natDegree ≤ e) :
    (deltaXorAndR a b w c qc).natDegree ≤ 3 * e := by
  unfold deltaXorAndR
  compute_degree
  omega

theorem deg_hornerSq (cs : List K[X]) (s : K) (m : ℕ) (h : ∀ c ∈ cs, c.natDegree ≤ m) :
    (hornerSq cs (C s)).natDegree ≤ m := by
  induction cs with
  | nil => simp
  | cons c cs ih =>
    have h1 := h c (by simp)
    have h2 := ih (fun x hx => h x (by simp [hx]))
    rw [hornerSq_cons]
    compute_degree
    omega

theorem deg_wsum (cs : List K[X]) (s : K) (m : ℕ) (h : ∀ c ∈ cs, c.natDegree ≤ m) :
    (wsum cs (C s)).natDegree ≤ m := by
  have := deg_hornerSq cs s m h
  unfold wsum
  compute_degree
  omega

/-- all seven wire polynomials of a row have degree `≤ e` -/
structure WiresDeg (w : Wires K[X]) (e : ℕ) : Prop where
  a : w.a.natDegree ≤ e
  b : w.b.natDegree ≤ e
  c : w.c.natDegree ≤ e
  d : w.d.natDegree ≤ e
  an : w.an.natDegree ≤ e
  bn : w.bn.natDegree ≤ e
  dn : w.dn.natDegree ≤ e

theorem deg_lin (x y : K[X]) (e : ℕ) (hx : x.natDegree ≤ e) (hy : y.natDegree ≤ e) :
    (x - 4 * y).natDegree ≤ e := by
  compute_degree
  omega

theorem deg_rangeComps (w : Wires K[X]) (e : ℕ) (hw : WiresDeg w e) :
    ∀ c ∈ rangeCompsR w, c.natDegree ≤ 4 * e := by
  intro c hc
  simp only [rangeCompsR, List.mem_cons, List.mem_nil_iff, or_false] at hc
  rcases hc with rfl | rfl | rfl | rfl
  · exact deg_deltaR _ e (deg_lin _ _ e hw.c hw.d)
  · exact deg_deltaR _ e (deg_lin _ _ e hw.b hw.c)
  · exact deg_deltaR _ e (deg_lin _ _ e hw.a hw.b)
  · exact deg_deltaR _ e (deg_lin _ _ e hw.dn hw.a)

theorem deg_logicComps (qc : K[X]) (w : Wires K[X]) (e : ℕ) (hq : qc.natDegree ≤ e)
    (hw : WiresDeg w e) : ∀ c ∈ logicCompsR qc w, c.natDegree ≤ 4 * e := by
  intro c hc
  simp only [logicCompsR, List.mem_cons, List.mem_nil_iff, or_false] at hc
  have ha := deg_lin _ _ e hw.an hw.a
  have hb := deg_lin _ _ e hw.bn hw.b
  have hd := deg_lin _ _ e hw.dn hw.d
  rcases hc with rfl | rfl | rfl | rfl | rfl
  · exact deg_deltaR _ e ha
  · exact deg_deltaR _ e hb
  · exact deg_deltaR _ e hd
  · have hc := hw.c
    generalize w.an - 4 * w.a = u at ha
    generalize w.bn - 4 * w.b = v at hb
    compute_degree
    omega
  · have := deg_deltaXorAndR _ _ _ _ _ e ha hb hw.c hd hq
    omega

theorem deg_bit (dn d : K[X]) (e : ℕ) (h1 : dn.natDegree ≤ e) (h2 : d.natDegree ≤ e) :
    (dn - d - d).natDegree ≤ e := by
  compute_degree
  omega

theorem deg_fixed_k (c a b : K[X]) (e : ℕ) (hc : c.natDegree ≤ e) (ha : a.natDegree ≤ e)
    (hb : b.natDegree ≤ e) : (c * a * b * (EDWARDS_D : K[X])).natDegree ≤ 3 * e := by
  compute_degree
  omega

theorem deg_fixed_y (bit qr : K[X]) (e : ℕ) (hb : bit.natDegree ≤ e) (hq : qr.natDegree ≤ e) :
    (bit * bit * (qr - 1) + 1).natDegree ≤ 3 * e := by
  compute_degree
  omega

theorem deg_fixed_xy (an a b k y x : K[X]) (e : ℕ) (han : an.natDegree ≤ e) (ha : a.natDegree ≤ e)
    (hb : b.natDegree ≤ e) (hk : k.natDegree ≤ 3 * e) (hy : y.natDegree ≤ 3 * e)
    (hx : x.natDegree ≤ 2 * e) :
    (an + an * k - (a * y + b * x)).natDegree ≤ 4 * e ∧
    (an - an * k - (b * y + a * x)).natDegree ≤ 4 * e := by
  constructor <;> compute_degree <;> omega

theorem deg_fixedComps (ql qr qc : K[X]) (w : Wires K[X]) (e : ℕ) (h1 : ql.natDegree ≤ e)
    (h2 : qr.natDegree ≤ e) (h3 : qc.natDegree ≤ e) (hw : WiresDeg w e) :
    ∀ c ∈ fixedCompsR ql qr qc w, c.natDegree ≤ 4 * e := by
  intro c hc
  simp only [fixedCompsR, List.mem_cons, List.mem_nil_iff, or_false] at hc
  have hbit := deg_bit w.dn w.d e hw.dn hw.d
  have hk := deg_fixed_k w.c w.a w.b e hw.c hw.a hw.b
  have hy := deg_fixed_y _ qr e hbit h2
  have hcc := hw.c
  have hx : ((w.dn - w.d - w.d) * ql).natDegree ≤ 2 * e := by
    generalize w.dn - w.d - w.d = bit at hbit
    compute_degree
    omega
  rcases hc with rfl | rfl | rfl | rfl
  · generalize w.dn - w.d - w.d = bit at hbit
    compute_degree
    omega
  · generalize w.dn - w.d - w.d = bit at hbit
    compute_degree
    omega
  · exact (deg_fixed_xy w.an w.a w.b _ _ _ e hw.an hw.a hw.b hk hy hx).1
  · exact (deg_fixed_xy w.bn w.a w.b _ _ _ e hw.bn hw.a hw.b hk hy hx).2

theorem deg_varComps (w : Wires K[X]) (e : ℕ) (hw : WiresDeg w e) :
    ∀ c ∈ varCompsR w, c.natDegree ≤ 4 * e := by
  intro c hc
  simp only [varCompsR, List.mem_cons, List.mem_nil_iff, or_false] at hc
  obtain ⟨ha, hb, hc', hd, han, hbn, hdn⟩ := hw
  rcases hc with rfl | rfl | rfl <;> compute_degree <;> omega

/-- all eleven selector polynomials have degree `≤ e` -/
structure SelDeg (q : Sel K[X]) (e : ℕ) : Prop where
  qm : q.qm.natDegree ≤ e
  ql : q.ql.natDegree ≤ e
  qr : q.qr.natDegree ≤ e
  qo : q.qo.natDegree ≤ e
  qf : q.qf.natDegree ≤ e
  qc : q.qc.natDegree ≤ e
  qarith : q.qarith.natDegree ≤ e
  qrange : q.qrange.natDegree ≤ e
  qlogic : q.qlogic.natDegree ≤ e
  qfixed : q.qfixed.natDegree ≤ e
  qvar : q.qvar.natDegree ≤ e

theorem deg_arithR (q : Sel K[X]) (w : Wires K[X]) (e : ℕ) (hq : SelDeg q e) (hw : WiresDeg w e) :
    (arithR q w).natDegree ≤ 4 * e := by
  obtain ⟨ha, hb, hc', hd, han, hbn, hdn⟩ := hw
  obtain ⟨q1, q2, q3, q4, q5, q6, q7, q8, q9, q10, q11⟩ := hq
  unfold arithR
  compute_degree
  omega

theorem deg_gateSumR (q : Sel K[X]) (w : Wires K[X]) (pi : K[X]) (s : Seps K) (e : ℕ)
    (hq : SelDeg q e) (hw : WiresDeg w e) (hpi : pi.natDegree ≤ e) :
    (gateSumR q w pi (s.map C)).natDegree ≤ 5 * e := by
  have h0 := deg_arithR q w e hq hw
  have h1 := deg_wsum _ s.rs _ (deg_rangeComps w e hw)
  have h2 := deg_wsum _ s.ls _ (deg_logicComps q.qc w e hq.qc hw)
  have h3 := deg_wsum _ s.fs _ (deg_fixedComps q.ql q.qr q.qc w e hq.ql hq.qr hq.qc hw)
  have h4 := deg_wsum _ s.vs _ (deg_varComps w e hw)
  have q8 := hq.qrange
  have q9 := hq.qlogic
  have q10 := hq.qfixed
  have q11 := hq.qvar
  simp only [gateSumR, Seps.map]
  generalize arithR q w = A at h0
  generalize wsum (rangeCompsR w) (C s.rs) = W1 at h1
  generalize wsum (logicCompsR q.qc w) (C s.ls) = W2 at h2
  generalize wsum (fixedCompsR q.ql q.qr q.qc w) (C s.fs) = W3 at h3
  generalize wsum (varCompsR w) (C s.vs) = W4 at h4
  compute_degree
  omega

theorem deg_permNumR (β γ : K) (a b c d : K[X]) (e : ℕ) (he : 1 ≤ e) (ha : a.natDegree ≤ e)
    (hb : b.natDegree ≤ e) (hc : c.natDegree ≤ e) (hd : d.natDegree ≤ e) :
    (permNumR (C β) (C γ) a b c d X).natDegree ≤ 4 * e := by
  have f (w : K[X]) (hw : w.natDegree ≤ e) (κ : K[X]) (hκ : κ.natDegree ≤ 0) :
      (w + C β * κ * X + C γ).natDegree ≤ e := by
    compute_degree
    omega
  have f0 : (a + C β * X + C γ).natDegree ≤ e := by
    compute_degree
    omega
  have f1 := f b hb (Generated.K1 : K[X]) (le_of_eq (natDegree_natCast _))
  have f2 := f c hc (Generated.K2 : K[X]) (le_of_eq (natDegree_natCast _))
  have f3 := f d hd (Generated.K3 : K[X]) (le_of_eq (natDegree_natCast _))
  unfold permNumR
  generalize a + C β * X + C γ = A at f0
  generalize b + C β * (Generated.K1 : K[X]) * X + C γ = B at f1
  generalize c + C β * (Generated.K2 : K[X]) * X + C γ = C' at f2
  generalize d + C β * (Generated.K3 : K[X]) * X + C γ = D at f3
  compute_degree
  omega

theorem deg_permDenR (β γ : K) (a b c d s1 s2 s3 s4 : K[X]) (e : ℕ) (ha : a.natDegree ≤ e)
    (hb : b.natDegree ≤ e) (hc : c.natDegree ≤ e) (hd : d.natDegree ≤ e) (h1 : s1.natDegree ≤ e)
    (h2 : s2.natDegree ≤ e) (h3 : s3.natDegree ≤ e) (h4 : s4.natDegree ≤ e) :
    (permDenR (C β) (C γ) a b c d s1 s2 s3 s4).natDegree ≤ 4 * e := by
  have f (w σ : K[X]) (hw : w.natDegree ≤ e) (hσ : σ.natDegree ≤ e) :
      (w + C β * σ + C γ).natDegree ≤ e := by
    compute_degree
    omega
  have f0 := f a s1 ha h1
  have f1 := f b s2 hb h2
  have f2 := f c s3 hc h3
  have f3 := f d s4 hd h4
  unfold permDenR
  generalize a + C β * s1 + C γ = A at f0
  generalize b + C β * s2 + C γ = B at f1
  generalize c + C β * s3 + C γ = C' at f2
  generalize d + C β * s4 + C γ = D at f3
  compute_degree
  omega

theorem deg_permStepR (β γ α : K) (w : Wires K[X]) (s1 s2 s3 s4 z zs l : K[X]) (e : ℕ) (he : 1 ≤ e)
    (hw : WiresDeg w e) (h1 : s1.natDegree ≤ e) (h2 : s2.natDegree ≤ e) (h3 : s3.natDegree ≤ e)
    (h4 : s4.natDegree ≤ e) (hz : z.natDegree ≤ e) (hzs : zs.natDegree ≤ e) :
    (permStepR ⟨C β, C γ, C α⟩ w ⟨X, s1, s2, s3, s4, z, zs, l⟩).natDegree ≤ 5 * e := by
  have hn := deg_permNumR β γ w.a w.b w.c w.d e he hw.a hw.b hw.c hw.d
  have hd := deg_permDenR β γ w.a w.b w.c w.d s1 s2 s3 s4 e hw.a hw.b hw.c hw.d h1 h2 h3 h4
  simp only [permStepR]
  generalize permNumR (C β) (C γ) w.a w.b w.c w.d X = N at hn
  generalize permDenR (C β) (C γ) w.a w.b w.c w.d s1 s2 s3 s4 = D at hd
  compute_degree
  omega

theorem natDegree_L1P_le (n : ℕ) : (L1P n : K[X]).natDegree ≤ n - 1 := by
  unfold L1P
  refine (natDegree_C_mul_le _ _).trans ?_
  refine natDegree_sum_le_of_forall_le _ _ (fun j hj => ?_)
  rw [natDegree_X_pow]
  have := Finset.mem_range.mp hj
  omega

theorem natDegree_shiftP_le (ω : K) (p : K[X]) : (shiftP ω p).natDegree ≤ p.natDegree := by
  unfold shiftP
  refine natDegree_comp_le.trans ?_
  have : (C ω * X : K[X]).natDegree ≤ 1 := (natDegree_C_mul_le _ _).trans (by rw [natDegree_X])
  calc p.natDegree * (C ω * X : K[X]).natDegree ≤ p.natDegree * 1 := Nat.mul_le_mul_left _ this
    _ = p.natDegree := by omega

/-- all the prover's polynomials have degree `≤ e` -/
structure PolysDeg (P : ProverPolys K) (e : ℕ) : Prop where
  Q : SelDeg P.Q e
  a : P.a.natDegree ≤ e
  b : P.b.natDegree ≤ e
  c : P.c.natDegree ≤ e
  d : P.d.natDegree ≤ e
  pi : P.pi.natDegree ≤ e
  s1 : P.s1.natDegree ≤ e
  s2 : P.s2.natDegree ≤ e
  s3 : P.s3.natDegree ≤ e
  s4 : P.s4.natDegree ≤ e
  z : P.z.natDegree ≤ e

/-- **`deg Num ≤ 5e + n`** -/
theorem natDegree_NumP_le (ω : K) (n : ℕ) (P : ProverPolys K) (ch : Chal K) (s : Seps K) (e : ℕ)
    (he : 1 ≤ e) (hP : PolysDeg P e) : (NumP ω n P ch s).natDegree ≤ 5 * e + n := by
  have hw : WiresDeg (⟨P.a, P.b, P.c, P.d, shiftP ω P.a, shiftP ω P.b, shiftP ω P.d⟩ : Wires K[X]) e :=
    ⟨hP.a, hP.b, hP.c, hP.d, (natDegree_shiftP_le ω _).trans hP.a,
      (natDegree_shiftP_le ω _).trans hP.b, (natDegree_shiftP_le ω _).trans hP.d⟩
  have hg := deg_gateSumR P.Q _ P.pi s e hP.Q hw hP.pi
  have hp := deg_permStepR ch.β ch.γ ch.α _ P.s1 P.s2 P.s3 P.s4 P.z (shiftP ω P.z) (L1P n) e he hw
    hP.s1 hP.s2 hP.s3 hP.s4 hP.z ((natDegree_shiftP_le ω _).trans hP.z)
  have hl := natDegree_L1P_le (K := K) n
  have hz := hP.z
  unfold NumP numR
  simp only [Chal.map] at hp ⊢
  generalize gateSumR P.Q (⟨P.a, P.b, P.c, P.d, shiftP ω P.a, shiftP ω P.b, shiftP ω P.d⟩ : Wires K[X])
    P.pi (s.map C) = G at hg
  generalize permStepR (⟨C ch.β, C ch.γ, C ch.α⟩ : Chal K[X])
    (⟨P.a, P.b, P.c, P.d, shiftP ω P.a, shiftP ω P.b, shiftP ω P.d⟩ : Wires K[X])
    (⟨X, P.s1, P.s2, P.s3, P.s4, P.z, shiftP ω P.z, L1P n⟩ : PermRow K[X]) = S at hp
  generalize (L1P n : K[X]) = L at hl
  compute_degree
  omega

end

end Plonk.Sound
