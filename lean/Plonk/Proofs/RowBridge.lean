/-
  Row semantics in the field: each Boolean row check of the model is the conjunction of the
  corresponding polynomial identities over `F = ZMod R`.
-/
import Mathlib.Tactic.Ring
import Plonk.Proofs.FieldBridge
import Plonk.Model.System

namespace Plonk
open Plonk

/-- field-level `delta` -/
def deltaF (x : F) : F := x * (x - 1) * (x - 2) * (x - 3)

@[simp] theorem toF_delta (f : Nat) : toF (delta f) = deltaF (toF f) := by
  unfold delta deltaF; simp

theorem delta_lt (f : Nat) : delta f < R := by unfold delta; exact fmul_lt _ _

/-- field-level arithmetic identity -/
def arithF (g : Gate) (a b c d pi : F) : F :=
  (a * b * toF g.qm + a * toF g.ql + b * toF g.qr + c * toF g.qo + d * toF g.qf + toF g.qc) * toF g.qarith + pi

@[simp] theorem toF_arithVal (g : Gate) (a b c d pi : Nat) :
    toF (arithVal g a b c d pi) = arithF g (toF a) (toF b) (toF c) (toF d) (toF pi) := by
  unfold arithVal arithF; simp

theorem arithVal_lt (g : Gate) (a b c d pi : Nat) : arithVal g a b c d pi < R := by
  unfold arithVal; exact fadd_lt _ _

theorem arithVal_beq_zero (g : Gate) (a b c d pi : Nat) :
    (arithVal g a b c d pi == 0) = true ↔ arithF g (toF a) (toF b) (toF c) (toF d) (toF pi) = 0 := by
  rw [beq_zero_iff (arithVal_lt ..), toF_arithVal]

theorem arithVal_eq_zero (g : Gate) (a b c d pi : Nat) :
    arithVal g a b c d pi = 0 ↔ arithF g (toF a) (toF b) (toF c) (toF d) (toF pi) = 0 := by
  rw [eq_zero_iff_toF (arithVal_lt ..), toF_arithVal]

/-- `allZero` of a list of reduced values -/
theorem allZero_iff (l : List Nat) (h : ∀ x ∈ l, x < R) :
    allZero l = true ↔ ∀ x ∈ l, toF x = 0 := by
  unfold allZero
  rw [List.all_eq_true]
  constructor
  · intro hx x hm; exact (beq_zero_iff (h x hm)).mp (hx x hm)
  · intro hx x hm; exact (beq_zero_iff (h x hm)).mpr (hx x hm)

/-- range components in the field -/
theorem rangeComps_zero_iff (a b c d dn : Nat) :
    allZero (rangeComps a b c d dn) = true ↔
      deltaF (toF c - 4 * toF d) = 0 ∧ deltaF (toF b - 4 * toF c) = 0 ∧
      deltaF (toF a - 4 * toF b) = 0 ∧ deltaF (toF dn - 4 * toF a) = 0 := by
  rw [allZero_iff]
  · simp only [rangeComps, List.mem_cons, List.mem_nil_iff, or_false, forall_eq_or_imp, forall_eq,
      toF_delta, toF_fsub, toF_fmul, toF_four]
  · intro x hx
    simp only [rangeComps, List.mem_cons, List.mem_nil_iff, or_false] at hx
    rcases hx with h | h | h | h <;> (rw [h]; exact delta_lt _)

/-- A gate with only the arithmetic selector family: the row check is the arithmetic identity. -/
theorem rowHolds_arith (g : Gate) (hr : g.qrange = 0) (hl : g.qlogic = 0) (hf : g.qfixed = 0)
    (hv : g.qvar = 0) (a b c d an bn dn pi : Nat) :
    rowHolds g a b c d an bn dn pi = true ↔
      arithF g (toF a) (toF b) (toF c) (toF d) (toF pi) = 0 := by
  unfold rowHolds; simp [hr, hl, hf, hv, arithVal_eq_zero]

/-- A pure range gate (`Constraint.range`): arithmetic part is trivial when `qarith = 0`, `pi = 0`. -/
theorem rowHolds_range (g : Gate) (hr : g.qrange = 1) (ha : g.qarith = 0) (hl : g.qlogic = 0)
    (hf : g.qfixed = 0) (hv : g.qvar = 0) (a b c d an bn dn : Nat) :
    rowHolds g a b c d an bn dn 0 = true ↔
      deltaF (toF c - 4 * toF d) = 0 ∧ deltaF (toF b - 4 * toF c) = 0 ∧
      deltaF (toF a - 4 * toF b) = 0 ∧ deltaF (toF dn - 4 * toF a) = 0 := by
  unfold rowHolds
  have h0 : arithVal g a b c d 0 = 0 := by
    rw [arithVal_eq_zero]; unfold arithF; simp [ha]
  simp [hr, hl, hf, hv, h0, rangeComps_zero_iff]

end Plonk
