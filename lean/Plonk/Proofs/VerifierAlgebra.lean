/-
  C03 — algebra of the verifier: the regrouped multi-scalar multiplication that `Proof::verify`
  builds (`verifyTerms`) is the textbook verification equation (`verifyRefTerms`), for every
  additive commutative group `G` with an `F`-module structure and every interpretation
  `ι : G1 → G` of the model's points (the group law of the executable `G1` model is not used).

  Technical note (kernel safety).  `verifyTerms` and `verifyRefTerms` start with a `match` on
  `d.lagrangeAndPi roots pis ch.z`.  Both Lean's elaborator and its kernel diverge when they try to
  put that discriminant into weak head normal form for symbolic arguments (it adds the literal
  `R − 1` to a variable and then peels successors).  Therefore these functions are never unfolded
  against their `match`; instead the command `abstract_lagrange f as g` builds `g` from the
  *stored body of the model function `f`* by replacing the call `d.lagrangeAndPi roots pis ch.z`
  with a new parameter `o`, and `f … = g … (d.lagrangeAndPi roots pis ch.z)` holds by `rfl`
  (`verifyTerms_eq_core`, `verifyRefTerms_eq_core`: both sides unfold to the same term).  All
  reasoning is then done for an arbitrary `o`.
-/
import Lean
import Mathlib.Tactic.Module
import Mathlib.Tactic.Ring
import Mathlib.Tactic.LinearCombination
import Plonk.Proofs.FieldBridge
import Plonk.Proofs.RowBridge
import Plonk.Proofs.LogicRows
import Plonk.Proofs.EdwardsRows
import Plonk.Proofs.FixedBaseRows
import Plonk.Proofs.FftDomain
import Plonk.Model.Verifier

namespace Plonk
open Plonk

attribute [local irreducible] Domain.lagrangeAndPi

open Lean Meta Elab Command in
/-- `abstract_lagrange f as g`: defines `g := fun args o => (body of f)[d.lagrangeAndPi … := o]`,
    i.e. the model function `f` with the result of `Domain.lagrangeAndPi` turned into a parameter. -/
elab "abstract_lagrange " src:ident " as " tgt:ident : command => liftTermElabM do
  let srcName ← realizeGlobalConstNoOverloadWithInfo src
  let ci ← getConstInfo srcName
  let v := ci.value!
  lambdaTelescope v fun xs body => do
    let some lap := body.find? (fun e => e.isAppOfArity ``Plonk.Domain.lagrangeAndPi 4)
      | throwError "no call of lagrangeAndPi"
    if lap.hasLooseBVars then throwError "call under a binder"
    let oTy := mkApp (mkConst ``Option [Level.zero])
      (mkApp2 (mkConst ``Prod [Level.zero, Level.zero]) (mkConst ``Nat) (mkConst ``Nat))
    withLocalDeclD `o oTy fun o => do
      let body' := body.replace (fun e => if e == lap then some o else none)
      let val ← instantiateMVars (← mkLambdaFVars (xs.push o) body')
      let resTy ← inferType (mkAppN (mkConst srcName) xs)
      let type ← mkForallFVars (xs.push o) resTy
      let name := (← getCurrNamespace) ++ tgt.getId
      addDecl <| Declaration.defnDecl {
        name := name, levelParams := [], type := type, value := val,
        hints := .regular (getMaxHeight (← getEnv) val + 1), safety := .safe }

abstract_lagrange verifyTerms as verifyTermsCore
abstract_lagrange verifyRefTerms as verifyRefTermsCore

/-- the model's `verifyTerms` is its own body with the `lagrangeAndPi` result plugged in -/
theorem verifyTerms_eq_core (vkey : VKey) (g : G1) (d : Domain) (roots pis : List Nat) (p : ProofM)
    (ch : Challenges) (legacy : Bool) :
    verifyTerms vkey g d roots pis p ch legacy =
      verifyTermsCore vkey g d roots pis p ch legacy (d.lagrangeAndPi roots pis ch.z) := rfl

theorem verifyRefTerms_eq_core (vkey : VKey) (g : G1) (d : Domain) (roots pis : List Nat) (p : ProofM)
    (ch : Challenges) (legacy : Bool) :
    verifyRefTerms vkey g d roots pis p ch legacy =
      verifyRefTermsCore vkey g d roots pis p ch legacy (d.lagrangeAndPi roots pis ch.z) := rfl

/-! ### symbolic evaluation of term lists -/

section
variable {G : Type*} [AddCommGroup G] [Module F G]

/-- `Σ toF(sᵢ) • ι(Pᵢ)` -/
def evalTerms (ι : G1 → G) (ts : List (Nat × G1)) : G := (ts.map fun t => toF t.1 • ι t.2).sum

@[simp] theorem evalTerms_nil (ι : G1 → G) : evalTerms ι [] = 0 := rfl
@[simp] theorem evalTerms_cons (ι : G1 → G) (s : Nat) (p : G1) (ts : List (Nat × G1)) :
    evalTerms ι ((s, p) :: ts) = toF s • ι p + evalTerms ι ts := by simp [evalTerms]
@[simp] theorem evalTerms_append (ι : G1 → G) (a b : List (Nat × G1)) :
    evalTerms ι (a ++ b) = evalTerms ι a + evalTerms ι b := by simp [evalTerms]

theorem vPowers_11 (v : Nat) : vPowers v 11 =
    [v % R, fmul (v % R) v, fmul (fmul (v % R) v) v, fmul (fmul (fmul (v % R) v) v) v,
     fmul (fmul (fmul (fmul (v % R) v) v) v) v, fmul (fmul (fmul (fmul (fmul (v % R) v) v) v) v) v,
     fmul (fmul (fmul (fmul (fmul (fmul (v % R) v) v) v) v) v) v,
     fmul (fmul (fmul (fmul (fmul (fmul (fmul (v % R) v) v) v) v) v) v) v,
     fmul (fmul (fmul (fmul (fmul (fmul (fmul (fmul (v % R) v) v) v) v) v) v) v) v,
     fmul (fmul (fmul (fmul (fmul (fmul (fmul (fmul (fmul (v % R) v) v) v) v) v) v) v) v) v,
     fmul (fmul (fmul (fmul (fmul (fmul (fmul (fmul (fmul (fmul (v % R) v) v) v) v) v) v) v) v) v) v] := rfl

theorem vPowers_7 (v : Nat) : vPowers v 7 =
    [v % R, fmul (v % R) v, fmul (fmul (v % R) v) v, fmul (fmul (fmul (v % R) v) v) v,
     fmul (fmul (fmul (fmul (v % R) v) v) v) v, fmul (fmul (fmul (fmul (fmul (v % R) v) v) v) v) v,
     fmul (fmul (fmul (fmul (fmul (fmul (v % R) v) v) v) v) v) v] := rfl

/-- legacy equation (`verify_legacy`, `V_MAX_DEGREE_LEGACY = 7`): code form = textbook form -/
theorem core_legacy (ι : G1 → G) (vkey : VKey) (g : G1) (d : Domain) (roots pis : List Nat)
    (p : ProofM) (ch : Challenges) (l1 piEval : Nat) (right left ref : List (Nat × G1))
    (hc : verifyTermsCore vkey g d roots pis p ch true (some (l1, piEval)) = some (right, left))
    (hr : verifyRefTermsCore vkey g d roots pis p ch true (some (l1, piEval)) = some ref) :
    evalTerms ι right = evalTerms ι ref ∧ evalTerms ι left = -(ι p.wz + toF ch.u • ι p.wzw) := by
  unfold verifyTermsCore at hc
  unfold verifyRefTermsCore at hr
  simp only [Option.some.injEq, Prod.mk.injEq] at hc hr
  obtain ⟨hc, hl⟩ := hc
  subst hc; subst hr; subst hl
  constructor
  · simp only [if_true, show Generated.V_MAX_DEGREE_LEGACY = 7 from rfl, vPowers_7]
    simp only [List.append_nil, List.cons_append, List.nil_append, List.foldl_cons, List.foldl_nil,
      List.zip_cons_cons, List.zip_nil_right, List.zipIdx_cons, List.zipIdx_nil,
      List.map_cons, List.map_nil, Nat.reduceAdd, Nat.reduceBEq, Bool.false_eq_true, if_false, if_true,
      evalTerms_append, evalTerms_cons, evalTerms_nil, zero_add]
    generalize evalTerms ι (linearizationTerms vkey p ch (d.evaluateVanishing ch.z) l1) = D
    generalize r0Eval p.ev ch l1 piEval = r0
    simp only [toF_fadd, toF_fmul, toF_fneg, toF_mod, toF_zero, toF_one]
    module
  · simp only [evalTerms_cons, evalTerms_nil, toF_R_sub_one, toF_fneg]
    module

/-- current equation (`Proof::verify`, `V_MAX_DEGREE = 11`): code form = textbook form -/
theorem core_current (ι : G1 → G) (vkey : VKey) (g : G1) (d : Domain) (roots pis : List Nat)
    (p : ProofM) (ch : Challenges) (l1 piEval : Nat) (right left ref : List (Nat × G1))
    (hc : verifyTermsCore vkey g d roots pis p ch false (some (l1, piEval)) = some (right, left))
    (hr : verifyRefTermsCore vkey g d roots pis p ch false (some (l1, piEval)) = some ref) :
    evalTerms ι right = evalTerms ι ref ∧ evalTerms ι left = -(ι p.wz + toF ch.u • ι p.wzw) := by
  unfold verifyTermsCore at hc
  unfold verifyRefTermsCore at hr
  simp only [Option.some.injEq, Prod.mk.injEq] at hc hr
  obtain ⟨hc, hl⟩ := hc
  subst hc; subst hr; subst hl
  constructor
  · simp only [Bool.false_eq_true, if_false, show Generated.V_MAX_DEGREE = 11 from rfl, vPowers_11]
    simp only [List.cons_append, List.nil_append, List.foldl_cons, List.foldl_nil,
      List.zip_cons_cons, List.zip_nil_right, List.zipIdx_cons, List.zipIdx_nil,
      List.map_cons, List.map_nil, Nat.reduceAdd, Nat.reduceBEq, Bool.false_eq_true, if_false, if_true,
      evalTerms_append, evalTerms_cons, evalTerms_nil, zero_add]
    generalize evalTerms ι (linearizationTerms vkey p ch (d.evaluateVanishing ch.z) l1) = D
    generalize r0Eval p.ev ch l1 piEval = r0
    simp only [toF_fadd, toF_fmul, toF_fneg, toF_mod, toF_zero, toF_one]
    module
  · simp only [evalTerms_cons, evalTerms_nil, toF_R_sub_one, toF_fneg]
    module

theorem core_none_iff (vkey : VKey) (g : G1) (d : Domain) (roots pis : List Nat) (p : ProofM)
    (ch : Challenges) (legacy : Bool) (o : Option (Nat × Nat)) :
    (verifyTermsCore vkey g d roots pis p ch legacy o = none ↔ o = none) ∧
    (verifyRefTermsCore vkey g d roots pis p ch legacy o = none ↔ o = none) := by
  cases o with
  | none => exact ⟨⟨fun _ => rfl, fun _ => rfl⟩, ⟨fun _ => rfl, fun _ => rfl⟩⟩
  | some lp =>
    obtain ⟨l1, piEval⟩ := lp
    refine ⟨⟨fun h => ?_, fun h => by cases h⟩, ⟨fun h => ?_, fun h => by cases h⟩⟩
    · unfold verifyTermsCore at h; simp only [reduceCtorEq] at h
    · unfold verifyRefTermsCore at h; simp only [reduceCtorEq] at h

/-- **`verifyCode_eq_verifyRef`.** Whenever the code-shaped MSM and the textbook term list are
    both defined (i.e. `z` is outside the domain and off the public-input roots), they evaluate to
    the same group element under every interpretation of the points in every `F`-module; and the
    left pairing input is `−(W_z + u·W_zω)`. Both protocol equations (`legacy = true`: V1,
    `legacy = false`: V2/V3). -/
theorem verifyCode_eq_verifyRef (ι : G1 → G) (vkey : VKey) (g : G1) (d : Domain) (roots pis : List Nat)
    (p : ProofM) (ch : Challenges) (legacy : Bool) (right left ref : List (Nat × G1))
    (hc : verifyTerms vkey g d roots pis p ch legacy = some (right, left))
    (hr : verifyRefTerms vkey g d roots pis p ch legacy = some ref) :
    evalTerms ι right = evalTerms ι ref ∧ evalTerms ι left = -(ι p.wz + toF ch.u • ι p.wzw) := by
  rw [verifyTerms_eq_core] at hc
  rw [verifyRefTerms_eq_core] at hr
  generalize d.lagrangeAndPi roots pis ch.z = o at hc hr
  cases o with
  | none => exact absurd ((core_none_iff vkey g d roots pis p ch legacy none).1.mpr rfl) (by rw [hc]; simp)
  | some lp =>
    obtain ⟨l1, piEval⟩ := lp
    cases legacy
    · exact core_current ι vkey g d roots pis p ch l1 piEval right left ref hc hr
    · exact core_legacy ι vkey g d roots pis p ch l1 piEval right left ref hc hr

/-- the two forms are defined for exactly the same inputs: those where `lagrangeAndPi` is -/
theorem verifyTerms_none_iff (vkey : VKey) (g : G1) (d : Domain) (roots pis : List Nat) (p : ProofM)
    (ch : Challenges) (legacy : Bool) :
    (verifyTerms vkey g d roots pis p ch legacy = none ↔ d.lagrangeAndPi roots pis ch.z = none) ∧
    (verifyRefTerms vkey g d roots pis p ch legacy = none ↔ d.lagrangeAndPi roots pis ch.z = none) := by
  rw [verifyTerms_eq_core, verifyRefTerms_eq_core]
  exact core_none_iff vkey g d roots pis p ch legacy _

/-- **The textbook equation, written out (current protocol).** With `V = v`, `W = v_w`, `U = u`:
    `[D] − U[z] + Σ_{i=1}^{11} Vⁱ·Cᵢ + U·Σ_{j=0}^{3} Wʲ·C'ⱼ − (Σ Vⁱ·eᵢ + U·Σ Wʲ·e'ⱼ − r₀)·g + z·W_z + U·z·ω·W_zω`
    where `C = (a,b,c,d,σ₁,σ₂,σ₃,q_arith,q_c,q_l,q_r)` are opened at `z` and `C' = (z,a,b,d)` at `zω`:
    all fifteen evaluations of the proof are covered. -/
theorem verifyRef_explicit_current (ι : G1 → G) (vkey : VKey) (g : G1) (d : Domain) (roots pis : List Nat)
    (p : ProofM) (ch : Challenges) (l1 piEval : Nat) (ref : List (Nat × G1))
    (hlp : d.lagrangeAndPi roots pis ch.z = some (l1, piEval))
    (hr : verifyRefTerms vkey g d roots pis p ch false = some ref) :
    evalTerms ι ref =
      evalTerms ι (linearizationTerms vkey p ch (d.evaluateVanishing ch.z) l1) - toF ch.u • ι p.zC +
      (toF ch.v • ι p.aC + toF ch.v ^ 2 • ι p.bC + toF ch.v ^ 3 • ι p.cC + toF ch.v ^ 4 • ι p.dC +
       toF ch.v ^ 5 • ι vkey.s1 + toF ch.v ^ 6 • ι vkey.s2 + toF ch.v ^ 7 • ι vkey.s3 +
       toF ch.v ^ 8 • ι vkey.qarith + toF ch.v ^ 9 • ι vkey.qc + toF ch.v ^ 10 • ι vkey.ql +
       toF ch.v ^ 11 • ι vkey.qr) +
      toF ch.u • (ι p.zC + toF ch.vw • ι p.aC + toF ch.vw ^ 2 • ι p.bC + toF ch.vw ^ 3 • ι p.dC) -
      ((toF ch.v * toF p.ev.a + toF ch.v ^ 2 * toF p.ev.b + toF ch.v ^ 3 * toF p.ev.c +
        toF ch.v ^ 4 * toF p.ev.d + toF ch.v ^ 5 * toF p.ev.s1 + toF ch.v ^ 6 * toF p.ev.s2 +
        toF ch.v ^ 7 * toF p.ev.s3 + toF ch.v ^ 8 * toF p.ev.qarith + toF ch.v ^ 9 * toF p.ev.qc +
        toF ch.v ^ 10 * toF p.ev.ql + toF ch.v ^ 11 * toF p.ev.qr) +
       toF ch.u * (toF p.ev.z + toF ch.vw * toF p.ev.aw + toF ch.vw ^ 2 * toF p.ev.bw +
        toF ch.vw ^ 3 * toF p.ev.dw) - toF (r0Eval p.ev ch l1 piEval)) • ι g +
      toF ch.z • ι p.wz + (toF ch.u * toF ch.z * toF d.groupGen) • ι p.wzw := by
  rw [verifyRefTerms_eq_core, hlp] at hr
  unfold verifyRefTermsCore at hr
  simp only [Option.some.injEq] at hr
  subst hr
  simp only [Bool.false_eq_true, if_false]
  simp only [List.cons_append, List.nil_append, List.foldl_cons, List.foldl_nil,
    evalTerms_append, evalTerms_cons, evalTerms_nil]
  generalize evalTerms ι (linearizationTerms vkey p ch (d.evaluateVanishing ch.z) l1) = D
  generalize r0Eval p.ev ch l1 piEval = r0
  simp only [toF_fadd, toF_fmul, toF_fneg, toF_mod, toF_zero, toF_one]
  module

/-- **The textbook equation, written out (legacy V1 protocol).** Only seven commitments are opened
    at `z`: the evaluations `q_arith, q_c, q_l, q_r` carried in the proof (and used inside `[D]`) are
    *not* covered by the batched opening. -/
theorem verifyRef_explicit_legacy (ι : G1 → G) (vkey : VKey) (g : G1) (d : Domain) (roots pis : List Nat)
    (p : ProofM) (ch : Challenges) (l1 piEval : Nat) (ref : List (Nat × G1))
    (hlp : d.lagrangeAndPi roots pis ch.z = some (l1, piEval))
    (hr : verifyRefTerms vkey g d roots pis p ch true = some ref) :
    evalTerms ι ref =
      evalTerms ι (linearizationTerms vkey p ch (d.evaluateVanishing ch.z) l1) - toF ch.u • ι p.zC +
      (toF ch.v • ι p.aC + toF ch.v ^ 2 • ι p.bC + toF ch.v ^ 3 • ι p.cC + toF ch.v ^ 4 • ι p.dC +
       toF ch.v ^ 5 • ι vkey.s1 + toF ch.v ^ 6 • ι vkey.s2 + toF ch.v ^ 7 • ι vkey.s3) +
      toF ch.u • (ι p.zC + toF ch.vw • ι p.aC + toF ch.vw ^ 2 • ι p.bC + toF ch.vw ^ 3 • ι p.dC) -
      ((toF ch.v * toF p.ev.a + toF ch.v ^ 2 * toF p.ev.b + toF ch.v ^ 3 * toF p.ev.c +
        toF ch.v ^ 4 * toF p.ev.d + toF ch.v ^ 5 * toF p.ev.s1 + toF ch.v ^ 6 * toF p.ev.s2 +
        toF ch.v ^ 7 * toF p.ev.s3) +
       toF ch.u * (toF p.ev.z + toF ch.vw * toF p.ev.aw + toF ch.vw ^ 2 * toF p.ev.bw +
        toF ch.vw ^ 3 * toF p.ev.dw) - toF (r0Eval p.ev ch l1 piEval)) • ι g +
      toF ch.z • ι p.wz + (toF ch.u * toF ch.z * toF d.groupGen) • ι p.wzw := by
  rw [verifyRefTerms_eq_core, hlp] at hr
  unfold verifyRefTermsCore at hr
  simp only [Option.some.injEq] at hr
  subst hr
  simp only [if_true]
  simp only [List.append_nil, List.foldl_cons, List.foldl_nil,
    evalTerms_append, evalTerms_cons, evalTerms_nil]
  generalize evalTerms ι (linearizationTerms vkey p ch (d.evaluateVanishing ch.z) l1) = D
  generalize r0Eval p.ev ch l1 piEval = r0
  simp only [toF_fadd, toF_fmul, toF_fneg, toF_mod, toF_zero, toF_one]
  module

end


/-- both term lists exist as soon as `lagrangeAndPi` is defined (used for non-vacuity) -/
theorem verifyTerms_some_of_lagrange (vkey : VKey) (g : G1) (d : Domain) (roots pis : List Nat) (p : ProofM)
    (ch : Challenges) (legacy : Bool) (h : d.lagrangeAndPi roots pis ch.z ≠ none) :
    ∃ right left ref, verifyTerms vkey g d roots pis p ch legacy = some (right, left) ∧
      verifyRefTerms vkey g d roots pis p ch legacy = some ref := by
  obtain ⟨h1, h2⟩ := verifyTerms_none_iff vkey g d roots pis p ch legacy
  obtain ⟨rl, hrl⟩ := Option.ne_none_iff_exists'.mp (fun e => h (h1.mp e))
  obtain ⟨ref, href⟩ := Option.ne_none_iff_exists'.mp (fun e => h (h2.mp e))
  exact ⟨rl.1, rl.2, ref, hrl, href⟩

/-! ### the linearisation scalars are the widgets' row identities -/

/-- The component lists used by the verifier's scalars are *literally* the row-semantics functions
    `rangeComps / logicComps / fixedComps / varComps` of `Plonk/Model/Gate.lean` (the ones
    `rowHolds` checks), applied to the evaluations at `z` (current row) and `zω` (next row). -/
theorem widget_scalars_use_row_comps (sep : Nat) (e : Evals) :
    rangeScalar sep e =
      (let cs := rangeComps e.a e.b e.c e.d e.dw
       fmul (fadd (fadd (fadd (cs.getD 0 0) (fmul (cs.getD 1 0) (fsq sep))) (fmul (cs.getD 2 0) (fsq (fsq sep))))
         (fmul (cs.getD 3 0) (fmul (fsq (fsq sep)) (fsq sep)))) sep) ∧
    logicScalar sep e =
      (let cs := logicComps e.qc e.a e.aw e.b e.bw e.c e.d e.dw
       fmul (fadd (fadd (fadd (fadd (cs.getD 0 0) (fmul (cs.getD 1 0) (fsq sep))) (fmul (cs.getD 2 0) (fsq (fsq sep))))
         (fmul (cs.getD 3 0) (fmul (fsq (fsq sep)) (fsq sep))))
         (fmul (cs.getD 4 0) (fmul (fmul (fsq (fsq sep)) (fsq sep)) (fsq sep)))) sep) ∧
    fixedScalar sep e =
      (let cs := fixedComps e.ql e.qr e.qc e.a e.aw e.b e.bw e.c e.d e.dw
       fmul (fadd (fadd (fadd (cs.getD 0 0) (fmul (cs.getD 2 0) (fsq (fsq sep))))
         (fmul (cs.getD 3 0) (fmul (fsq (fsq sep)) (fsq sep)))) (fmul (cs.getD 1 0) (fsq sep))) sep) ∧
    varScalar sep e =
      (let cs := varComps e.a e.aw e.b e.bw e.c e.d e.dw
       fmul (fadd (fadd (cs.getD 0 0) (fmul (cs.getD 1 0) (fsq sep))) (fmul (cs.getD 2 0) (fsq (fsq sep)))) sep) :=
  ⟨rfl, rfl, rfl, rfl⟩

/-- range widget: `sep·(δ(c−4d) + sep²·δ(b−4c) + sep⁴·δ(a−4b) + sep⁶·δ(d_ω−4a))` -/
theorem toF_rangeScalar (sep : Nat) (e : Evals) :
    toF (rangeScalar sep e) = toF sep *
      (deltaF (toF e.c - 4 * toF e.d) + toF sep ^ 2 * deltaF (toF e.b - 4 * toF e.c) +
       toF sep ^ 4 * deltaF (toF e.a - 4 * toF e.b) + toF sep ^ 6 * deltaF (toF e.dw - 4 * toF e.a)) := by
  unfold rangeScalar rangeComps
  simp only [List.getD_cons_zero, List.getD_cons_succ, toF_fmul, toF_fadd, toF_fsq, toF_delta, toF_fsub, toF_four]
  ring

/-- logic widget: five components weighted `1, sep², sep⁴, sep⁶, sep⁸`, all times `sep` -/
theorem toF_logicScalar (sep : Nat) (e : Evals) :
    toF (logicScalar sep e) = toF sep *
      (deltaF (toF e.aw - 4 * toF e.a) + toF sep ^ 2 * deltaF (toF e.bw - 4 * toF e.b) +
       toF sep ^ 4 * deltaF (toF e.dw - 4 * toF e.d) +
       toF sep ^ 6 * (toF e.c - (toF e.aw - 4 * toF e.a) * (toF e.bw - 4 * toF e.b)) +
       toF sep ^ 8 * deltaXorAndF (toF e.aw - 4 * toF e.a) (toF e.bw - 4 * toF e.b) (toF e.c)
         (toF e.dw - 4 * toF e.d) (toF e.qc)) := by
  unfold logicScalar logicComps
  simp only [List.getD_cons_zero, List.getD_cons_succ, toF_fmul, toF_fadd, toF_fsq, toF_delta, toF_fsub, toF_four,
    toF_deltaXorAnd]
  ring

/-- fixed-base widget: bit / xy / x / y consistency weighted `1, sep², sep⁴, sep⁶`, times `sep`
    (`bit = d_ω − 2d`, selectors `q_l = x_β`, `q_r = y_β`, `q_c = x_β·y_β` evaluated at `z`) -/
theorem toF_fixedScalar (sep : Nat) (e : Evals) :
    toF (fixedScalar sep e) =
      (let bit := toF e.dw - 2 * toF e.d
       let k := toF e.c * toF e.a * toF e.b * dF
       let yα := bit ^ 2 * (toF e.qr - 1) + 1
       let xα := bit * toF e.ql
       toF sep *
        (bit * (bit - 1) * (bit + 1) + toF sep ^ 2 * (bit * toF e.qc - toF e.c) +
         toF sep ^ 4 * (toF e.aw + toF e.aw * k - (toF e.a * yα + toF e.b * xα)) +
         toF sep ^ 6 * (toF e.bw - toF e.bw * k - (toF e.b * yα + toF e.a * xα)))) := by
  unfold fixedScalar fixedComps
  simp only [List.getD_cons_zero, List.getD_cons_succ, toF_fmul, toF_fadd, toF_fsq, toF_fsub, toF_one,
    toF_EDWARDS_D]
  ring

/-- curve-addition widget: three components weighted `1, sep², sep⁴`, times `sep` -/
theorem toF_varScalar (sep : Nat) (e : Evals) :
    toF (varScalar sep e) =
      (let k := dF * toF e.dw * (toF e.b * toF e.c)
       toF sep *
        (toF e.a * toF e.d - toF e.dw +
         toF sep ^ 2 * (toF e.dw + toF e.b * toF e.c - (toF e.aw + toF e.aw * k)) +
         toF sep ^ 4 * (toF e.b * toF e.d + toF e.a * toF e.c - (toF e.bw - toF e.bw * k)))) := by
  unfold varScalar varComps
  simp only [List.getD_cons_zero, List.getD_cons_succ, toF_fmul, toF_fadd, toF_fsq, toF_fsub, toF_EDWARDS_D]
  ring

theorem getD_eq_zero_of_allZero {l : List Nat} (h : allZero l = true) (i : Nat) : l.getD i 0 = 0 := by
  unfold allZero at h
  rw [List.all_eq_true] at h
  by_cases hi : i < l.length
  · rw [getD_eq_getElem' _ _ hi]
    have := h l[i] (List.getElem_mem hi)
    simpa using this
  · exact getD_of_le _ _ (by omega)

theorem fmul_zero_left (k : Nat) : fmul 0 k = 0 := by simp [fmul]
theorem fadd_zero_zero : fadd 0 0 = 0 := by simp [fadd]

/-- **Vanishing.** If the row identity of a widget holds on the evaluations (all components of
    the model's row semantics are zero), the widget's linearisation scalar is `0`, for every
    separation challenge. -/
theorem widget_scalars_vanish (sep : Nat) (e : Evals) :
    (allZero (rangeComps e.a e.b e.c e.d e.dw) = true → rangeScalar sep e = 0) ∧
    (allZero (logicComps e.qc e.a e.aw e.b e.bw e.c e.d e.dw) = true → logicScalar sep e = 0) ∧
    (allZero (fixedComps e.ql e.qr e.qc e.a e.aw e.b e.bw e.c e.d e.dw) = true → fixedScalar sep e = 0) ∧
    (allZero (varComps e.a e.aw e.b e.bw e.c e.d e.dw) = true → varScalar sep e = 0) := by
  refine ⟨fun h => ?_, fun h => ?_, fun h => ?_, fun h => ?_⟩
  · unfold rangeScalar
    simp only [getD_eq_zero_of_allZero h, fmul_zero_left, fadd_zero_zero]
  · unfold logicScalar
    simp only [getD_eq_zero_of_allZero h, fmul_zero_left, fadd_zero_zero]
  · unfold fixedScalar
    simp only [getD_eq_zero_of_allZero h, fmul_zero_left, fadd_zero_zero]
  · unfold varScalar
    simp only [getD_eq_zero_of_allZero h, fmul_zero_left, fadd_zero_zero]

/-- `r₀ = PI(z) − L₁(z)α² − α(a+βσ₁+γ)(b+βσ₂+γ)(c+βσ₃+γ)(d+γ)z_ω` -/
theorem toF_r0Eval (e : Evals) (ch : Challenges) (l1 pi : Nat) :
    toF (r0Eval e ch l1 pi) = toF pi - toF l1 * toF ch.alpha ^ 2 -
      toF ch.alpha * (toF e.a + toF ch.beta * toF e.s1 + toF ch.gamma) *
        (toF e.b + toF ch.beta * toF e.s2 + toF ch.gamma) *
        (toF e.c + toF ch.beta * toF e.s3 + toF ch.gamma) * (toF e.d + toF ch.gamma) * toF e.z := by
  unfold r0Eval
  simp only [toF_fsub, toF_fmul, toF_fadd, toF_fsq]
  ring

section
variable {G : Type*} [AddCommGroup G] [Module F G]

/-- **`[D]`, the linearisation commitment, term by term** (with `zh = Z_H(z) = zⁿ − 1`):
    arithmetic `q_arith(z)·(ab[q_m] + a[q_l] + b[q_r] + c[q_o] + d[q_f] + [q_c])`, the four custom
    widgets with their scalars, the permutation argument
    `((a+βz+γ)(b+βk₁z+γ)(c+βk₂z+γ)(d+βk₃z+γ)α + L₁(z)α² + u)[z]
     − (a+βσ₁+γ)(b+βσ₂+γ)(c+βσ₃+γ)β z_ω α [s_σ4]`, and the quotient
    `−zh·([t_low] + zⁿ[t_mid] + z²ⁿ[t_high] + z³ⁿ[t_4])` (`zⁿ = zh + 1`). -/
theorem linearization_eval (ι : G1 → G) (k : VKey) (p : ProofM) (ch : Challenges) (zh l1 : Nat) :
    evalTerms ι (linearizationTerms k p ch zh l1) =
      toF p.ev.qarith • ((toF p.ev.a * toF p.ev.b) • ι k.qm + toF p.ev.a • ι k.ql + toF p.ev.b • ι k.qr +
        toF p.ev.c • ι k.qo + toF p.ev.d • ι k.qf + ι k.qc) +
      toF (rangeScalar ch.rangeSep p.ev) • ι k.qrange + toF (logicScalar ch.logicSep p.ev) • ι k.qlogic +
      toF (fixedScalar ch.fixedSep p.ev) • ι k.qfixed + toF (varScalar ch.varSep p.ev) • ι k.qvar +
      ((toF p.ev.a + toF ch.beta * toF ch.z + toF ch.gamma) *
        (toF p.ev.b + toF ch.beta * toF Generated.K1 * toF ch.z + toF ch.gamma) *
        (toF p.ev.c + toF ch.beta * toF Generated.K2 * toF ch.z + toF ch.gamma) *
        (toF p.ev.d + toF ch.beta * toF Generated.K3 * toF ch.z + toF ch.gamma) * toF ch.alpha +
        toF l1 * toF ch.alpha ^ 2 + toF ch.u) • ι p.zC -
      ((toF p.ev.a + toF ch.beta * toF p.ev.s1 + toF ch.gamma) *
        (toF p.ev.b + toF ch.beta * toF p.ev.s2 + toF ch.gamma) *
        (toF p.ev.c + toF ch.beta * toF p.ev.s3 + toF ch.gamma) * toF ch.beta * toF p.ev.z * toF ch.alpha) • ι k.s4 -
      toF zh • (ι p.tLow + (toF zh + 1) • ι p.tMid + (toF zh + 1) ^ 2 • ι p.tHigh +
        (toF zh + 1) ^ 3 • ι p.tFourth) := by
  unfold linearizationTerms
  simp only [List.cons_append, List.nil_append, evalTerms_cons, evalTerms_nil]
  generalize toF (rangeScalar ch.rangeSep p.ev) = s1
  generalize toF (logicScalar ch.logicSep p.ev) = s2
  generalize toF (fixedScalar ch.fixedSep p.ev) = s3
  generalize toF (varScalar ch.varSep p.ev) = s4
  simp only [toF_fadd, toF_fmul, toF_fneg, toF_fsq, toF_one]
  module

end

/-- `z_powers`: the vanishing polynomial at `z` is `zⁿ − 1`, so the quotient scalars of
    `linearization_eval` are `−zh, −zh·zⁿ, −zh·z²ⁿ, −zh·z³ⁿ` -/
theorem toF_evaluateVanishing {d : Domain} (hd : d.WF) (z : Nat) :
    toF (d.evaluateVanishing z) = toF z ^ d.size - 1 := by
  unfold Domain.evaluateVanishing
  rw [toF_fsub, toF_fpow _ _ hd.size_lt, toF_one]


/-! ### `VerifierM.verify`: what acceptance depends on -/

open Lean Meta Elab Command in
/-- `abstract_version VerifierM.verify as g`: the body of `VerifierM.verify` with the two places
    where the protocol version enters turned into parameters: the challenge record
    (`verifierChallenges … (ver == .v3) …`) and the equation flag (`ver == .v1`). -/
elab "abstract_version " src:ident " as " tgt:ident : command => liftTermElabM do
  let srcName ← realizeGlobalConstNoOverloadWithInfo src
  let ci ← getConstInfo srcName
  let v := ci.value!
  lambdaTelescope v fun xs body => do
    let some chE := body.find? (fun e => e.isAppOfArity ``Plonk.verifierChallenges 6 && !e.hasLooseBVars)
      | throwError "no call of verifierChallenges"
    withLocalDeclD `ch (mkConst ``Plonk.Challenges) fun ch => do
      let body1 := body.replace (fun e => if e == chE then some ch else none)
      let some lgE := body1.find? (fun e => e.isAppOfArity ``BEq.beq 4 && !e.hasLooseBVars &&
          e.appArg!.isConstOf ``Plonk.PVersion.v1)
        | throwError "no test for v1"
      withLocalDeclD `legacy (mkConst ``Bool) fun lg => do
        let body2 := body1.replace (fun e => if e == lgE then some lg else none)
        let ys := (xs.filter fun x => body2.containsFVar x.fvarId!) ++ #[ch, lg]
        let val ← instantiateMVars (← mkLambdaFVars ys body2)
        let resTy ← inferType (mkAppN (mkConst srcName) xs)
        let type ← mkForallFVars ys resTy
        let name := (← getCurrNamespace) ++ tgt.getId
        addDecl <| Declaration.defnDecl {
          name := name, levelParams := [], type := type, value := val,
          hints := .regular (getMaxHeight (← getEnv) val + 1), safety := .safe }

abstract_version VerifierM.verify as verifyGiven

/-- acceptance depends on the protocol version only through the challenge record (transcript
    variant `ver == .v3`) and the equation flag (`ver == .v1`) -/
theorem verify_eq_given (v : VerifierM) (x : Nat) (p : ProofM) (pis : List Nat) (ver : PVersion) :
    v.verify x p pis ver =
      verifyGiven v x p pis (verifierChallenges v.label v.vk v.constraints (ver == .v3) pis p) (ver == .v1) := rfl

/-- a public-input vector of the wrong length is an error, whatever the proof -/
theorem len_mismatch (v : VerifierM) (x : Nat) (p : ProofM) (pis : List Nat) (ver : PVersion)
    (h : pis.length ≠ v.piIndexes.length) : v.verify x p pis ver = .piLen := by
  unfold VerifierM.verify
  rw [if_pos (by simpa using h)]

/-- `nothing_else`: the outcome depends on the verifier only through `label`, `constraints`, `vk`,
    `ok.g` and `piIndexes` (not on `size`, `ok.h`, `ok.xh`) -/
theorem verify_congr (v v' : VerifierM) (x : Nat) (p : ProofM) (pis : List Nat) (ver : PVersion)
    (hl : v.label = v'.label) (hc : v.constraints = v'.constraints) (hk : v.vk = v'.vk)
    (hg : v.ok.g = v'.ok.g) (hi : v.piIndexes = v'.piIndexes) :
    v.verify x p pis ver = v'.verify x p pis ver := by
  unfold VerifierM.verify
  rw [hl, hc, hk, hg, hi]



theorem g1_beq_inf (a : G1) : ((a == G1.inf) = true) ↔ a = G1.inf := by
  cases a with
  | inf => exact ⟨fun _ => rfl, fun _ => rfl⟩
  | aff x y => exact ⟨fun h => (by cases h), fun h => by cases h⟩

theorem opt_dom_match (od : Option Domain) (f : Domain → VOutcome) :
    VerifierM.fromBytes.match_1 (fun _ => VOutcome) od (fun _ => VOutcome.reject) f = VOutcome.ok ↔
      ∃ d, od = some d ∧ f d = VOutcome.ok := by
  cases od with
  | none => exact ⟨fun h => (by cases h), fun ⟨d, hd, _⟩ => by cases hd⟩
  | some d => exact ⟨fun h => ⟨d, rfl, h⟩, fun ⟨d', hd, h⟩ => by cases hd; exact h⟩

theorem opt_terms_match (r : Option (List (Nat × G1) × List (Nat × G1)))
    (f : List (Nat × G1) → List (Nat × G1) → VOutcome) :
    VerifierM.verify.match_1 (fun _ => VOutcome) r (fun _ => VOutcome.reject) f = VOutcome.ok ↔
      ∃ right left, r = some (right, left) ∧ f right left = VOutcome.ok := by
  cases r with
  | none => exact ⟨fun h => (by cases h), fun ⟨_, _, hd, _⟩ => by cases hd⟩
  | some rl =>
    obtain ⟨right, left⟩ := rl
    exact ⟨fun h => ⟨right, left, rfl, h⟩, fun ⟨r', l', hd, h⟩ => by cases hd; exact h⟩

theorem ite_ok_iff (c : Prop) [Decidable c] :
    (if c then VOutcome.ok else VOutcome.reject) = VOutcome.ok ↔ c := by
  by_cases h : c
  · rw [if_pos h]; exact ⟨fun _ => h, fun _ => rfl⟩
  · rw [if_neg h]; exact ⟨fun h' => (by cases h'), fun h' => absurd h' h⟩

/-- **The verifier decides exactly the pairing equation of the grouped MSM.** (`x` is the trapdoor
    with which the model decides the pairing check `e(L,[x]₂)·e(R,[1]₂) = 1` as `[x]L + R = O`.) -/
theorem verify_ok_iff (v : VerifierM) (x : Nat) (p : ProofM) (pis : List Nat) (ver : PVersion) :
    v.verify x p pis ver = .ok ↔
      pis.length = v.piIndexes.length ∧ ∃ d, Domain.new? v.vk.n = some d ∧ ∃ right left,
        verifyTerms v.vk v.ok.g d (v.piIndexes.map fun i => fpow d.groupGenInv (i % 2 ^ 64)) pis p
          (verifierChallenges v.label v.vk v.constraints (ver == .v3) pis p) (ver == .v1) = some (right, left) ∧
        G1.add (G1.smul x (G1.msum left)) (G1.msum right) = .inf := by
  unfold VerifierM.verify
  by_cases hlen : pis.length = v.piIndexes.length
  · rw [if_neg (by simpa using hlen), opt_dom_match]
    constructor
    · rintro ⟨d, hd, h⟩
      obtain ⟨right, left, hvt, h⟩ := (opt_terms_match _ _).mp h
      exact ⟨hlen, d, hd, right, left, hvt, (g1_beq_inf _).mp ((ite_ok_iff _).mp h)⟩
    · rintro ⟨-, d, hd, right, left, hvt, h⟩
      exact ⟨d, hd, (opt_terms_match _ _).mpr ⟨right, left, hvt, (ite_ok_iff _).mpr ((g1_beq_inf _).mpr h)⟩⟩
  · rw [if_pos (by simpa using hlen)]
    exact ⟨fun h => (by cases h), fun h => absurd h.1 hlen⟩



/-! ### the public-input evaluation `PI(z)` -/

/-- `Σᵢ eᵢ / (rᵢ·z − 1)` over the zipped lists (`rᵢ = ω^{−idxᵢ}`), the sparse barycentric sum -/
def piSumF : List F → List F → F → F
  | r :: rs, e :: es, z => e / (r * z - 1) + piSumF rs es z
  | _, _, _ => 0

/-- `PI(z) = (zⁿ − 1)/n · Σᵢ eᵢ / (ω^{−idxᵢ}·z − 1)` -/
def piEvalF (rs es : List F) (z zh ninv : F) : F := piSumF rs es z * zh * ninv

theorem piSumF_set (rs es : List F) (z : F) (j : Nat) (hj : j < es.length) (hjr : j < rs.length) (x : F) :
    piSumF rs (es.set j x) z = piSumF rs es z + (x - es[j]) / (rs[j] * z - 1) := by
  induction rs generalizing es j with
  | nil => simp at hjr
  | cons r rs ih =>
    cases es with
    | nil => simp at hj
    | cons e es =>
      cases j with
      | zero => simp only [List.set_cons_zero, piSumF, List.getElem_cons_zero]; ring
      | succ j =>
        simp only [List.set_cons_succ, piSumF, List.getElem_cons_succ]
        rw [ih es j (by simpa using hj) (by simpa using hjr)]
        ring

/-- **`pi_eval_injective`** (one coordinate): for `z` outside the domain (`zh ≠ 0`) and off the
    `j`-th public-input root (`r_j·z ≠ 1`), changing exactly the `j`-th public input changes
    `PI(z)`: its Lagrange coefficient `zh/(n·(r_j z − 1))` is non-zero. -/
theorem piEvalF_set_ne (rs es : List F) (z zh ninv : F) (j : Nat) (hj : j < es.length)
    (hjr : j < rs.length) (x : F) (hx : x ≠ es[j]) (hden : rs[j] * z - 1 ≠ 0) (hzh : zh ≠ 0)
    (hn : ninv ≠ 0) : piEvalF rs (es.set j x) z zh ninv ≠ piEvalF rs es z zh ninv := by
  unfold piEvalF
  rw [piSumF_set rs es z j hj hjr x]
  intro h
  have h2 : (x - es[j]) / (rs[j] * z - 1) * zh * ninv = 0 := by linear_combination h
  have hx' : x - es[j] ≠ 0 := sub_ne_zero.mpr hx
  simp only [mul_eq_zero, div_eq_zero_iff] at h2
  tauto

/-! bridge: the model's `lagrangeAndPi` computes `piEvalF` -/

theorem toF_batchInv_elem (x : Nat) : toF (if x % R == 0 then x % R else finv x) = (toF x)⁻¹ := by
  split
  · next h =>
    have h0 : x % R = 0 := by simpa using h
    have : toF x = 0 := (toF_eq_zero_iff x).mpr h0
    rw [h0, this]; simp
  · exact toF_finv x

theorem foldl_pi (L : List (Nat × Nat)) (h : Nat × Nat → Nat) (a : Nat) :
    toF ((L.zip (L.map h)).foldl (fun acc (x : (Nat × Nat) × Nat) => fadd acc (fmul x.2 x.1.2)) a) =
      toF a + (L.map fun re => toF (h re) * toF re.2).sum := by
  induction L generalizing a with
  | nil => simp
  | cons re L ih =>
    simp only [List.map_cons, List.zip_cons_cons, List.foldl_cons, List.sum_cons]
    rw [ih]; simp only [toF_fadd, toF_fmul]; ring

theorem sum_filter_pi (L : List (Nat × Nat)) (z : Nat) :
    ((L.filter fun re => re.2 % R != 0).map fun re => (toF (fsub (fmul re.1 z) 1))⁻¹ * toF re.2).sum =
      piSumF (L.map fun re => toF re.1) (L.map fun re => toF re.2) (toF z) := by
  induction L with
  | nil => simp [piSumF]
  | cons re L ih =>
    simp only [List.map_cons, piSumF]
    by_cases h : re.2 % R = 0
    · have h0 : toF re.2 = 0 := (toF_eq_zero_iff _).mpr h
      rw [List.filter_cons_of_neg (by simp [h]), ih, h0]; simp
    · rw [List.filter_cons_of_pos (by simp [h]), List.map_cons, List.sum_cons, ih]
      simp only [toF_fsub, toF_fmul, toF_one]
      rw [div_eq_inv_mul]

theorem zip_map_fst_snd (roots evals : List Nat) :
    ((roots.zip evals).map fun re => toF re.1) = (roots.zip evals).unzip.1.map toF ∧
    ((roots.zip evals).map fun re => toF re.2) = (roots.zip evals).unzip.2.map toF := by
  simp [List.unzip_eq_map, List.map_map, Function.comp_def]

theorem piSumF_zip (rs es : List Nat) (z : F) :
    piSumF ((rs.zip es).map fun re => toF re.1) ((rs.zip es).map fun re => toF re.2) z =
      piSumF (rs.map toF) (es.map toF) z := by
  induction rs generalizing es with
  | nil => simp [piSumF]
  | cons r rs ih =>
    cases es with
    | nil => simp [piSumF]
    | cons e es => simp only [List.zip_cons_cons, List.map_cons, piSumF, ih]

/-- **The model's `PI(z)`.** Whenever `lagrangeAndPi` is defined, its second component is
    `(zⁿ−1)·n⁻¹·Σᵢ piᵢ/(rootᵢ·z − 1)` in the field (zero public inputs are skipped by the code and
    contribute `0` to the sum). -/
theorem lagrangeAndPi_pi (d : Domain) (roots evals : List Nat) (z l1 pi : Nat)
    (h : d.lagrangeAndPi roots evals z = some (l1, pi)) :
    toF pi = piEvalF (roots.map toF) (evals.map toF) (toF z) (toF (d.evaluateVanishing z)) (toF d.sizeInv) := by
  unfold Domain.lagrangeAndPi at h
  simp only at h
  split at h
  · cases h
  · simp only [Option.some.injEq, Prod.mk.injEq] at h
    obtain ⟨-, h⟩ := h
    rw [← h]
    simp only [batchInversion, List.map_cons, List.tail_cons, List.map_map]
    rw [toF_fmul, toF_fmul]
    unfold piEvalF
    rw [← piSumF_zip, ← sum_filter_pi]
    rw [foldl_pi ((roots.zip evals).filter fun re => re.2 % R != 0)
      ((fun x => if (x % R == 0) = true then x % R else finv x) ∘ fun x => fsub (fmul x.1 z) 1) 0]
    rw [toF_zero, zero_add]
    have key : ∀ L : List (Nat × Nat),
        (L.map fun re => toF (((fun x => if (x % R == 0) = true then x % R else finv x) ∘
          fun x : Nat × Nat => fsub (fmul x.1 z) 1) re) * toF re.2) =
        (L.map fun re => (toF (fsub (fmul re.1 z) 1))⁻¹ * toF re.2) := by
      intro L
      apply List.map_congr_left
      intro re _
      rw [Function.comp_apply, toF_batchInv_elem]
    rw [key]


end Plonk
