/-
  C01 (completeness): the hypotheses of the algebraic composition hold for the polynomials the
  specification prover builds (`Quot.modelPolys`: `ifft` selector / sigma / public-input columns,
  `blindPoly` wires and accumulator with ANY blinders) from a layout whose own witness values
  satisfy every row of the padded table.

  * `keyInterp_of_interpolates`, `wireInterp_of_interpolates` : from C05's `Interpolates` to the
    `KeyInterp` / `WireInterp` of the composition.
  * `modelPolys_deg` : the honest degree profile `PolysDeg2 _ (n + 1) (n + 2)` from at most two wire
    blinders and three accumulator blinders.
  * `model_polys_complete` : the bundle.
-/
import Plonk.Proofs.CompletenessProver
import Plonk.Proofs.CompletenessQuotient

namespace Plonk.Complete
open Polynomial Plonk Plonk.Quot Plonk.Perm Plonk.Sound Plonk.Composer

/-- the key polynomials interpolate the layout, from the table form of C05 -/
theorem keyInterp_of_interpolates {ω : F} {n : Nat} {lay : Composer} {P : ProverPolys F}
    {G : Nat → Gate} {roots aS bS cS dS piS : List Nat} {sigE : List (List Nat)} {z : List Nat}
    (hI : Interpolates ω n P G roots aS bS cS dS piS sigE z)
    (hG : ∀ i < n, G i = lay.gateAt i) (hpi : ∀ i < n, toF (piS.getD i 0) = toF (lay.piAt i))
    (hs : ∀ col < 4, ∀ i < n,
      toF ((sigE.getD col []).getD i 0) = idLabel ω (sigmaFn lay (col, i))) :
    KeyInterp ω n lay P where
  sel := fun i hi => by rw [hI.sel i hi, hG i hi]
  pi := fun i hi => by rw [hI.pi i hi, hpi i hi]
  s1 := fun i hi => by rw [hI.s1 i hi, hs 0 (by omega) i hi]
  s2 := fun i hi => by rw [hI.s2 i hi, hs 1 (by omega) i hi]
  s3 := fun i hi => by rw [hI.s3 i hi, hs 2 (by omega) i hi]
  s4 := fun i hi => by rw [hI.s4 i hi, hs 3 (by omega) i hi]

/-- the wire polynomials interpolate the wire table of `c` -/
theorem wireInterp_of_interpolates {ω : F} {n : Nat} {c : Composer} {P : ProverPolys F}
    {G : Nat → Gate} {roots aS bS cS dS piS : List Nat} {sigE : List (List Nat)} {z : List Nat}
    (hI : Interpolates ω n P G roots aS bS cS dS piS sigE z)
    (ha : ∀ i < n, aS.getD i 0 = (c.rowVals i).a) (hb : ∀ i < n, bS.getD i 0 = (c.rowVals i).b)
    (hc : ∀ i < n, cS.getD i 0 = (c.rowVals i).c) (hd : ∀ i < n, dS.getD i 0 = (c.rowVals i).d) :
    WireInterp ω n c P where
  a := fun i hi => by rw [hI.a i hi, ha i hi]
  b := fun i hi => by rw [hI.b i hi, hb i hi]
  c := fun i hi => by rw [hI.c i hi, hc i hi]
  d := fun i hi => by rw [hI.d i hi, hd i hi]

theorem natDegree_ifft_le {d : Domain} (hd : d.WF) (w : List Nat) (e : Nat) (he : d.size ≤ e + 1) :
    (toPoly (Poly.ofCoeffs (d.ifft w))).natDegree ≤ e := by
  have h1 := natDegree_toPoly_le (Poly.ofCoeffs (d.ifft w))
  have h2 := ProverMask.length_ofCoeffs_le (d.ifft w)
  have h3 : (d.ifft w).length = d.size := Domain.ifft_length hd (le_refl 1) w
  omega

theorem natDegree_blind_le {d : Domain} (hd : d.WF) (w bs : List Nat) (e : Nat)
    (he : d.size + bs.length ≤ e + 1) : (toPoly (blindPoly d w bs)).natDegree ≤ e := by
  have h1 := natDegree_toPoly_le (blindPoly d w bs)
  have h2 := ProverMask.blindPoly_length_le d hd w bs
  omega

/-- **the honest degree profile** of the specification prover's polynomials: at most two blinders
    per wire polynomial, at most three for the accumulator -/
theorem modelPolys_deg {d : Domain} (hd : d.WF) (G : Nat → Gate) (aS bS cS dS piS : List Nat)
    (sigE : List (List Nat)) (z ba bb bc bd bz : List Nat) (ha : ba.length ≤ 2) (hb : bb.length ≤ 2)
    (hc : bc.length ≤ 2) (hdd : bd.length ≤ 2) (hz : bz.length ≤ 3) :
    PolysDeg2 (modelPolys d G aS bS cS dS piS sigE z ba bb bc bd bz) (d.size + 1) (d.size + 2) := by
  have s (f : Gate → Nat) : (selCol d G f).natDegree ≤ d.size + 1 :=
    natDegree_ifft_le hd _ _ (by omega)
  exact ⟨⟨s _, s _, s _, s _, s _, s _, s _, s _, s _, s _, s _⟩,
    natDegree_blind_le hd _ _ _ (by omega), natDegree_blind_le hd _ _ _ (by omega),
    natDegree_blind_le hd _ _ _ (by omega), natDegree_blind_le hd _ _ _ (by omega),
    natDegree_ifft_le hd _ _ (by omega), natDegree_ifft_le hd _ _ (by omega),
    natDegree_ifft_le hd _ _ (by omega), natDegree_ifft_le hd _ _ (by omega),
    natDegree_ifft_le hd _ _ (by omega), natDegree_blind_le hd _ _ _ (by omega)⟩

/-- the wire column of the padded table (the `wcol` of `prove`, `ProverMask.wireCol`) -/
def tableCol (n : Nat) (c : Composer) (f : RowVals → Nat) : List Nat :=
  (List.range n).map fun i => f (c.rowVals i)

theorem tableCol_length (n : Nat) (c : Composer) (f : RowVals → Nat) :
    (tableCol n c f).length = n := by simp [tableCol]

theorem tableCol_getD (n : Nat) (c : Composer) (f : RowVals → Nat) (i : Nat) (hi : i < n) :
    (tableCol n c f).getD i 0 = f (c.rowVals i) := getD_map_range _ _ _ hi

/-- **The bundle.**  Domain `d` of `Domain.new?` (size `n`), layout `lay` with at most `n` gates and
    canonical witness values whose rows all hold on the padded table (next row cyclic), dense
    public inputs `piS` and sigma values `sigE` of the layout, accumulator `z` returned by the
    model's `permVec`, ARBITRARY blinders (at most `2, 2, 2, 2, 3`).  Then the polynomials of the
    specification prover (`modelPolys`) satisfy every hypothesis of `completeness_algebraic`, with
    the honest degree profile. -/
theorem model_polys_complete (m : Nat) (d : Domain) (hd : Domain.new? m = some d) (lay : Composer)
    (hn : lay.gates.size ≤ d.size) (hval : ∀ x, lay.val x < R)
    (hrows : ∀ i < d.size, rowHolds (lay.gateAt i) (lay.rowVals i).a (lay.rowVals i).b
      (lay.rowVals i).c (lay.rowVals i).d (lay.rowVals ((i + 1) % d.size)).a
      (lay.rowVals ((i + 1) % d.size)).b (lay.rowVals ((i + 1) % d.size)).d (lay.piAt i) = true)
    (piS : List Nat) (hpil : piS.length = d.size)
    (hpi : ∀ i < d.size, toF (piS.getD i 0) = toF (lay.piAt i))
    (sigE : List (List Nat)) (hsl : ∀ j < 4, (sigE.getD j []).length = d.size)
    (hs : ∀ col < 4, ∀ i < d.size,
      toF ((sigE.getD col []).getD i 0) = idLabel (toF d.groupGen) (sigmaFn lay (col, i)))
    (beta gamma : Nat) (z : List Nat)
    (hz : permVec d.size d.elements (tableCol d.size lay (·.a)) (tableCol d.size lay (·.b))
      (tableCol d.size lay (·.c)) (tableCol d.size lay (·.d)) sigE beta gamma = some z)
    (ba bb bc bd bz : List Nat) (ha : ba.length ≤ 2) (hb : bb.length ≤ 2) (hc : bc.length ≤ 2)
    (hdd : bd.length ≤ 2) (hbz : bz.length ≤ 3) :
    let P := modelPolys d lay.gateAt (tableCol d.size lay (·.a)) (tableCol d.size lay (·.b))
      (tableCol d.size lay (·.c)) (tableCol d.size lay (·.d)) piS sigE z ba bb bc bd bz
    0 < d.size ∧ IsPrimitiveRoot (toF d.groupGen) d.size ∧
    KeyInterp (toF d.groupGen) d.size lay P ∧
    (∀ i < d.size, rowOKP (toF d.groupGen) d.size lay P i) ∧
    (∀ p q, SameClass lay p q → wireVal (toF d.groupGen) P p = wireVal (toF d.groupGen) P q) ∧
    toF gamma ∉ denBadM (toF d.groupGen) d.size lay P (toF beta) ∧
    AccInterp (toF d.groupGen) d.size lay P (toF beta) (toF gamma) ∧
    PolysDeg2 P (d.size + 1) (d.size + 2) := by
  intro P
  have hw := Domain.new?_WF m d hd
  have hzl := (permVec_spec _ _ _ _ _ _ _ _ _ z hz).1
  have hI : Interpolates (toF d.groupGen) d.size P lay.gateAt d.elements _ _ _ _ piS sigE z :=
    modelPolys_interpolates hw lay.gateAt d.elements _ _ _ _ piS sigE z ba bb bc bd bz
      (elements_roots d) (tableCol_length _ _ _) (tableCol_length _ _ _) (tableCol_length _ _ _)
      (tableCol_length _ _ _) hpil hzl hsl
  have I : KeyInterp (toF d.groupGen) d.size lay P :=
    keyInterp_of_interpolates hI (fun _ _ => rfl) hpi hs
  have W : WireInterp (toF d.groupGen) d.size lay P :=
    wireInterp_of_interpolates hI (fun i hi => tableCol_getD _ _ _ i hi)
      (fun i hi => tableCol_getD _ _ _ i hi) (fun i hi => tableCol_getD _ _ _ i hi)
      (fun i hi => tableCol_getD _ _ _ i hi)
  refine ⟨hw.size_pos, hw.prim, I, rows_of_model hw.size_pos lay lay W hval hrows,
    const_of_copyViolation lay lay hn W (copyViolation_self lay), ?_,
    accInterp_of_permVec hI I beta gamma hz, modelPolys_deg hw _ _ _ _ _ _ _ _ _ _ _ _ _ ha hb hc hdd
      hbz⟩
  exact (permVec_some_iff hI I beta gamma).mp ⟨z, hz⟩

end Plonk.Complete
