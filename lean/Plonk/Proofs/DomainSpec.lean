/-
  Corollaries in the form used by the C19 property statements, and concrete instances for the
  non-vacuity examples.
-/
import Plonk.Proofs.DomainNew

namespace Plonk.PolyC19
open Polynomial

/-- `batch_inversion`, entry-wise -/
theorem batchInversion_entry (v : List Nat) (i : Nat) (h : i < v.length) :
    ∃ h' : i < (batchInversion v).length,
      toF (batchInversion v)[i] = (toF v[i])⁻¹ ∧ (batchInversion v)[i] < R ∧
      (v[i] % R = 0 → (batchInversion v)[i] = 0) ∧
      (v[i] % R ≠ 0 → toF v[i] * toF (batchInversion v)[i] = 1) := by
  refine ⟨by rw [batchInversion_length]; exact h, ?_⟩
  rw [batchInversion_getElem v i h]
  refine ⟨toF_binv _, binv_lt _, binv_zero, fun hne => ?_⟩
  rw [toF_binv]
  exact mul_inv_cancel₀ (by rwa [Ne, toF_eq_zero_iff])

theorem elements_map_toF (d : Domain) :
    d.elements.map toF = (List.range d.size).map (fun i => toF d.groupGen ^ i) := by
  rw [elements_eq, List.map_map]
  apply List.map_congr_left
  intro i _
  exact toF_val _

/-- outside the domain, with one evaluation per domain element, `compute_barycentric_eval` is the
    value at `point` of the interpolation polynomial of the evaluations -/
theorem barycentric_eq_interpolate {d : Domain} (ok : DomainOK d) (evals : List Nat) (point : Nat)
    (hlen : evals.length = d.size) (hp : toF point ^ d.size ≠ 1) :
    toF (d.barycentric evals point) =
      eval (toF point) (Lagrange.interpolate (Finset.range d.size) (fun i : ℕ => toF d.groupGen ^ i)
        (fun i => toF (evals.getD i 0))) := by
  rw [barycentric_eq ok evals point (by rw [hlen]; exact ok.size_lt.le), hlen,
    Lagrange.interpolate_apply, eval_finsetSum]
  apply Finset.sum_congr rfl
  intro i hi
  rw [eval_mul, eval_C, lagrangeF_eq_basis ok.size_pos ok.prim hp (Finset.mem_range.mp hi)]

/-- a concrete well-formed domain (size 4) for the non-vacuity examples -/
theorem exists_domainOK_four : ∃ d : Domain, Domain.new? 4 = some d ∧ d.size = 4 ∧ DomainOK d := by
  have h : (Domain.new? 4).isSome = true := by decide +kernel
  have hs : (Domain.new? 4).map (·.size) = some 4 := by decide +kernel
  obtain ⟨d, hd⟩ := Option.isSome_iff_exists.mp h
  refine ⟨d, hd, ?_, domainOK_of_new? 4 d hd⟩
  rw [hd] at hs
  simpa using hs

theorem two_pow_four_ne_one : (toF 2) ^ 4 ≠ 1 := by
  have h : (toF 2) ^ 4 = toF 16 := by unfold toF; norm_num
  rw [h, ← toF_one, Ne, toF_inj_of_lt (by decide +kernel) R_gt_one]
  decide

end Plonk.PolyC19
