/-
  C14 (JubJub scalar range / signed-digit ladder), math level. No composer glue.

  * (a) `canonical_scalar_iff`: the two 252-bit range checks of `assert_canonical_jubjub_scalar`
        hold iff `s < r_J`,
  * (b) `signed_digits_no_wrap` (+ `_generated`, `signed_digit_chain`): the signed-digit
        accumulator chain with three pinned leading rounds recomposes the scalar over ℤ,
  * (c) `naf_bound`: `wnaf2 k` for `k < r_J`.
-/
import Mathlib.Tactic.Ring
import Mathlib.Tactic.Linarith
import Mathlib.Tactic.LinearCombination
import Mathlib.Algebra.BigOperators.Intervals
import Mathlib.Algebra.Order.Group.Unbundled.Int
import Mathlib.Data.List.GetD
import Plonk.Generated
import Plonk.Model.Jubjub
import Plonk.Proofs.TruncMath

namespace Plonk
open Plonk

/-! ### (a) canonical JubJub scalar -/

theorem RJ_pos : 0 < RJ := by decide +kernel
theorem RJ_lt_R : RJ < R := by decide +kernel
theorem RJ_sub_one_lt : RJ - 1 < 2 ^ Generated.JUBJUB_SCALAR_BITS := by decide +kernel
/-- wrap-around is impossible: `R − 2^252 > 2^252` -/
theorem scalar_no_wrap : 2 ^ Generated.JUBJUB_SCALAR_BITS < R - 2 ^ Generated.JUBJUB_SCALAR_BITS := by
  decide +kernel

/-- the constant `r_J − 1` as placed in the gate by the model (`(RJ - 1) % R`) -/
theorem RJ_sub_one_mod : (RJ - 1) % R = RJ - 1 :=
  Nat.mod_eq_of_lt (by have := RJ_lt_R; omega)

/-- (a) `canonical_scalar_iff`: `s < 2^252` and `(r_J − 1) − s < 2^252` (as canonical values of
    field elements) hold iff `s < r_J`. -/
theorem canonical_scalar_iff (s : F) :
    (s.val < 2 ^ Generated.JUBJUB_SCALAR_BITS ∧
      (toF ((RJ - 1) % R) - s).val < 2 ^ Generated.JUBJUB_SCALAR_BITS) ↔ s.val < RJ := by
  rw [RJ_sub_one_mod]
  have hs := val_lt_R s
  have h1 := RJ_sub_one_lt
  have h2 := scalar_no_wrap
  have h3 := RJ_lt_R
  have h4 := RJ_pos
  have es : toF (RJ - 1) - s = toF (RJ - 1) - toF s.val := by rw [toF_val]
  generalize 2 ^ Generated.JUBJUB_SCALAR_BITS = B at *
  constructor
  · rintro ⟨ha, hb⟩
    by_contra hge
    have hlt : RJ - 1 < s.val := by omega
    rw [es, val_toF_sub_of_lt hs hlt] at hb
    omega
  · intro hlt
    have hle : s.val ≤ RJ - 1 := by omega
    refine ⟨by omega, ?_⟩
    rw [es, val_toF_sub_of_le (by omega) hle]; omega

/-! ### (b) signed-digit arithmetic -/

/-- integer accumulator after `k` rounds (most significant digit first) of the `n` digits `d`
    (`d` indexed little-endian, as the wnaf): `Z₀ = 0`, `Z_{k+1} = 2·Z_k + d_(n−1−k)`. -/
def sdAccZ (d : Nat → ℤ) (n : Nat) : Nat → ℤ
  | 0 => 0
  | k + 1 => 2 * sdAccZ d n k + d (n - 1 - k)

/-- the field chain is the cast of the integer chain -/
theorem sdAcc_cast (d : Nat → ℤ) (n : Nat) (acc : Nat → F) (h0 : acc 0 = 0) (k : Nat)
    (hstep : ∀ i < k, acc (i + 1) = 2 * acc i + ((d (n - 1 - i) : ℤ) : F)) :
    acc k = ((sdAccZ d n k : ℤ) : F) := by
  induction k with
  | zero => simpa [sdAccZ] using h0
  | succ k ih =>
    rw [hstep k (by omega), ih (fun i hi => hstep i (by omega))]
    simp only [sdAccZ]; push_cast; ring

/-- size of the integer chain: `|Z_k| ≤ 2^k − 1` -/
theorem sdAccZ_bound (d : Nat → ℤ) (n k : Nat)
    (hd : ∀ i < k, d (n - 1 - i) = -1 ∨ d (n - 1 - i) = 0 ∨ d (n - 1 - i) = 1) :
    -(2 ^ k - 1) ≤ sdAccZ d n k ∧ sdAccZ d n k ≤ 2 ^ k - 1 := by
  induction k with
  | zero => simp [sdAccZ]
  | succ k ih =>
    obtain ⟨h1, h2⟩ := ih (fun i hi => hd i (by omega))
    have := hd k (by omega)
    simp only [sdAccZ, pow_succ]
    rcases this with h | h | h <;> rw [h] <;> constructor <;> linarith

/-- a vanishing signed-digit sum has only zero digits -/
theorem sdAccZ_eq_zero (d : Nat → ℤ) (n k : Nat)
    (hd : ∀ i < k, d (n - 1 - i) = -1 ∨ d (n - 1 - i) = 0 ∨ d (n - 1 - i) = 1)
    (hz : sdAccZ d n k = 0) : ∀ j < k, d (n - 1 - j) = 0 := by
  induction k with
  | zero => intro j hj; omega
  | succ k ih =>
    simp only [sdAccZ] at hz
    have hk : d (n - 1 - k) = 0 := by
      rcases hd k (by omega) with h | h | h <;> omega
    have hz' : sdAccZ d n k = 0 := by omega
    intro j hj
    by_cases hjk : j = k
    · subst hjk; exact hk
    · exact ih (fun i hi => hd i (by omega)) hz' j (by omega)

theorem sdAccZ_of_top_zero (d : Nat → ℤ) (n k : Nat) (hz : ∀ j < k, d (n - 1 - j) = 0) :
    sdAccZ d n k = 0 := by
  induction k with
  | zero => rfl
  | succ k ih => simp only [sdAccZ]; rw [ih (fun j hj => hz j (by omega)), hz k (by omega)]; ring

/-- after a zero at round `L`, the next `m` rounds stay below `2^m` -/
theorem sdAccZ_bound_after (d : Nat → ℤ) (n L m : Nat)
    (hd : ∀ i < L + m, d (n - 1 - i) = -1 ∨ d (n - 1 - i) = 0 ∨ d (n - 1 - i) = 1)
    (hz : sdAccZ d n L = 0) :
    -(2 ^ m - 1) ≤ sdAccZ d n (L + m) ∧ sdAccZ d n (L + m) ≤ 2 ^ m - 1 := by
  induction m with
  | zero => simp [hz]
  | succ m ih =>
    obtain ⟨h1, h2⟩ := ih (fun i hi => hd i (by omega))
    have := hd (L + m) (by omega)
    have e : L + (m + 1) = (L + m) + 1 := by omega
    rw [e]
    simp only [sdAccZ, pow_succ]
    rcases this with h | h | h <;> rw [h] <;> constructor <;> linarith

open Finset in
/-- closed form: `Z_k = Σ_{i<k} d_(n−k+i)·2^i` -/
theorem sdAccZ_eq_sum (d : Nat → ℤ) (n k : Nat) (hk : k ≤ n) :
    sdAccZ d n k = ∑ i ∈ range k, d (n - k + i) * 2 ^ i := by
  induction k with
  | zero => simp [sdAccZ]
  | succ k ih =>
    simp only [sdAccZ]
    rw [ih (by omega), Finset.sum_range_succ', Finset.mul_sum]
    have e0 : n - (k + 1) + 0 = n - 1 - k := by omega
    rw [e0, pow_zero, mul_one]
    congr 1
    apply Finset.sum_congr rfl
    intro i _
    have e1 : n - (k + 1) + (i + 1) = n - k + i := by omega
    rw [e1, pow_succ]; ring

open Finset in
theorem sdAccZ_full (d : Nat → ℤ) (n : Nat) : sdAccZ d n n = ∑ i ∈ range n, d i * 2 ^ i := by
  rw [sdAccZ_eq_sum d n n le_rfl]
  apply Finset.sum_congr rfl
  intro i _; rw [Nat.sub_self, Nat.zero_add]

open Finset in
/-- with the top `L` digits zero, the full sum is the sum of the low `n − L` digits -/
theorem sum_drop_top (d : Nat → ℤ) (n L : Nat) (hL : L ≤ n) (hz : ∀ j < L, d (n - 1 - j) = 0) :
    ∑ i ∈ range n, d i * 2 ^ i = ∑ i ∈ range (n - L), d i * 2 ^ i := by
  induction L with
  | zero => rfl
  | succ L ih =>
    rw [ih (by omega) (fun j hj => hz j (by omega))]
    have e : n - L = (n - (L + 1)) + 1 := by omega
    rw [e, Finset.sum_range_succ]
    have : d (n - (L + 1)) = 0 := by
      have := hz L (by omega)
      have e2 : n - 1 - L = n - (L + 1) := by omega
      rw [e2] at this; exact this
    rw [this]; ring

/-- an integer of absolute value below `R` that vanishes in `F` is zero -/
theorem int_eq_zero_of_cast {z : ℤ} (h : ((z : ℤ) : F) = 0) (h1 : -(R : ℤ) < z) (h2 : z < R) :
    z = 0 := by
  rw [ZMod.intCast_zmod_eq_zero_iff_dvd] at h
  exact Int.eq_zero_of_abs_lt_dvd h (abs_lt.mpr ⟨h1, h2⟩)

open Finset in
/-- (b) `signed_digits_no_wrap`, general form. `n` rounds, `L` pinned leading rounds, scalar
    bound `B`. Side conditions on the constants: `2^L ≤ R` and the no-wrap inequality
    `2^(n−L) + B ≤ R`. -/
theorem signed_digits_no_wrap (n L B : Nat) (hLn : L ≤ n) (hLR : 2 ^ L ≤ R)
    (hnw : 2 ^ (n - L) + B ≤ R)
    (d : Nat → ℤ) (acc : Nat → F) (s : F)
    (hd : ∀ i < n, d i = -1 ∨ d i = 0 ∨ d i = 1)
    (h0 : acc 0 = 0)
    (hstep : ∀ i < n, acc (i + 1) = 2 * acc i + ((d (n - 1 - i) : ℤ) : F))
    (hL : acc L = 0) (hfin : acc n = s) (hs : s.val < B) :
    (∀ j < L, d (n - 1 - j) = 0) ∧
    (∑ i ∈ range (n - L), d i * 2 ^ i = (s.val : ℤ)) ∧
    (∑ i ∈ range n, d i * 2 ^ i = (s.val : ℤ)) := by
  have hd' : ∀ k ≤ n, ∀ i < k, d (n - 1 - i) = -1 ∨ d (n - 1 - i) = 0 ∨ d (n - 1 - i) = 1 :=
    fun k _ i _ => hd _ (by omega)
  -- leading rounds
  have hZL : sdAccZ d n L = 0 := by
    have hc := sdAcc_cast d n acc h0 L (fun i hi => hstep i (by omega))
    rw [hL] at hc
    obtain ⟨b1, b2⟩ := sdAccZ_bound d n L (hd' L hLn)
    have hp : (2 : ℤ) ^ L ≤ R := by exact_mod_cast hLR
    exact int_eq_zero_of_cast hc.symm (by linarith) (by linarith)
  have htop := sdAccZ_eq_zero d n L (hd' L hLn) hZL
  -- remaining rounds
  have e : L + (n - L) = n := by omega
  obtain ⟨b1, b2⟩ := sdAccZ_bound_after d n L (n - L) (by rw [e]; exact hd' n le_rfl) hZL
  rw [e] at b1 b2
  have hc := sdAcc_cast d n acc h0 n hstep
  rw [hfin] at hc
  have hsv : s = (((s.val : ℕ) : ℤ) : F) := by
    rw [Int.cast_natCast]; exact (toF_val s).symm
  have hdiff : (((sdAccZ d n n - (s.val : ℤ) : ℤ)) : F) = 0 := by
    push_cast; rw [← hc]; simp
  have hnw' : (2 : ℤ) ^ (n - L) + B ≤ R := by exact_mod_cast hnw
  have hsB : (s.val : ℤ) < B := by exact_mod_cast hs
  have hs0 : (0 : ℤ) ≤ s.val := Int.natCast_nonneg _
  have hp : (0 : ℤ) < 2 ^ (n - L) := by positivity
  have hfull : sdAccZ d n n = (s.val : ℤ) := by
    have := int_eq_zero_of_cast hdiff (by linarith) (by linarith)
    linarith
  rw [sdAccZ_full] at hfull
  exact ⟨htop, by rw [← sum_drop_top d n L hLn htop]; exact hfull, hfull⟩

/-- the no-wrap inequality, from the extracted constants: `2^(256−3) + 2^252 ≤ R`.
    (It still holds for 2 leading zero rounds and fails for fewer: see
    `no_wrap_fails_below_two`.) -/
theorem no_wrap :
    2 ^ (Generated.FIXED_BASE_SIGNED_DIGIT_ROUNDS - Generated.FIXED_BASE_LEADING_ZERO_ROUNDS)
      + 2 ^ Generated.JUBJUB_SCALAR_BITS ≤ R := by decide +kernel

theorem no_wrap_two :
    2 ^ (Generated.FIXED_BASE_SIGNED_DIGIT_ROUNDS - 2) + 2 ^ Generated.JUBJUB_SCALAR_BITS ≤ R := by
  decide +kernel

/-- with fewer than two pinned leading rounds the no-wrap inequality is false -/
theorem no_wrap_fails_below_two :
    ¬ (2 ^ (Generated.FIXED_BASE_SIGNED_DIGIT_ROUNDS - 1) + 2 ^ Generated.JUBJUB_SCALAR_BITS ≤ R) := by
  decide +kernel

theorem leading_rounds_small : 2 ^ Generated.FIXED_BASE_LEADING_ZERO_ROUNDS ≤ R := by decide +kernel
theorem leading_le_rounds :
    Generated.FIXED_BASE_LEADING_ZERO_ROUNDS ≤ Generated.FIXED_BASE_SIGNED_DIGIT_ROUNDS := by decide

open Finset in
/-- (b) at the constants of `fixed_base.rs`: 256 rounds, accumulator pinned to `0` after
    3 rounds, scalar `< 2^252`. -/
theorem signed_digits_no_wrap_generated
    (d : Nat → ℤ) (acc : Nat → F) (s : F)
    (hd : ∀ i < Generated.FIXED_BASE_SIGNED_DIGIT_ROUNDS, d i = -1 ∨ d i = 0 ∨ d i = 1)
    (h0 : acc 0 = 0)
    (hstep : ∀ i < Generated.FIXED_BASE_SIGNED_DIGIT_ROUNDS,
      acc (i + 1) = 2 * acc i + ((d (Generated.FIXED_BASE_SIGNED_DIGIT_ROUNDS - 1 - i) : ℤ) : F))
    (hL : acc Generated.FIXED_BASE_LEADING_ZERO_ROUNDS = 0)
    (hfin : acc Generated.FIXED_BASE_SIGNED_DIGIT_ROUNDS = s)
    (hs : s.val < 2 ^ Generated.JUBJUB_SCALAR_BITS) :
    (∀ j < Generated.FIXED_BASE_LEADING_ZERO_ROUNDS,
      d (Generated.FIXED_BASE_SIGNED_DIGIT_ROUNDS - 1 - j) = 0) ∧
    (∑ i ∈ range (Generated.FIXED_BASE_SIGNED_DIGIT_ROUNDS - Generated.FIXED_BASE_LEADING_ZERO_ROUNDS),
      d i * 2 ^ i = (s.val : ℤ)) ∧
    (∑ i ∈ range Generated.FIXED_BASE_SIGNED_DIGIT_ROUNDS, d i * 2 ^ i = (s.val : ℤ)) :=
  signed_digits_no_wrap _ _ _ leading_le_rounds leading_rounds_small no_wrap d acc s hd h0 hstep hL
    hfin hs

/-! #### digits derived from the row constraint `bit·(bit−1)·(bit+1) = 0` -/

theorem bitCons_cases {b : F} (h : b * (b - 1) * (b + 1) = 0) : b = -1 ∨ b = 0 ∨ b = 1 := by
  rcases mul_eq_zero.mp h with h | h
  · rcases mul_eq_zero.mp h with h | h
    · exact Or.inr (Or.inl h)
    · exact Or.inr (Or.inr (sub_eq_zero.mp h))
  · exact Or.inl (eq_neg_of_add_eq_zero_left h)

/-- the integer digit of a field value in `{−1,0,1}` -/
noncomputable def sdDigit (b : F) : ℤ := if b = 1 then 1 else if b = -1 then -1 else 0

theorem sdDigit_spec {b : F} (h : b = -1 ∨ b = 0 ∨ b = 1) :
    (sdDigit b = -1 ∨ sdDigit b = 0 ∨ sdDigit b = 1) ∧ ((sdDigit b : ℤ) : F) = b := by
  have h1 : (1 : F) ≠ -1 := by
    intro h; have : (2 : F) = 0 := by linear_combination h
    have h2 : toF 2 = 0 := by rw [toF_two]; exact this
    rw [toF_eq_zero_of_lt (by have := two_pow_254_le_R; omega)] at h2; omega
  have h0 : (0 : F) ≠ 1 := zero_ne_one
  unfold sdDigit
  rcases h with h | h | h
  · subst h; rw [if_neg (Ne.symm h1), if_pos rfl]; simp
  · subst h; rw [if_neg h0, if_neg (by intro h; apply h0; linear_combination -h)]; simp
  · subst h; rw [if_pos rfl]; simp

open Finset in
/-- (b), constraint-side form: an accumulator chain whose increments `acc_{i+1} − 2·acc_i`
    satisfy the bit-consistency cubic, pinned to `0` at rounds `0` and `L = 3` and to `s` at
    round 256 with `s < 2^252`, determines integer digits in `{−1,0,1}` that recompose `s`
    over ℤ, the three leading ones being `0`. -/
theorem signed_digit_chain (acc : Nat → F) (s : F)
    (h0 : acc 0 = 0)
    (hbit : ∀ i < Generated.FIXED_BASE_SIGNED_DIGIT_ROUNDS,
      (acc (i + 1) - 2 * acc i) * ((acc (i + 1) - 2 * acc i) - 1) * ((acc (i + 1) - 2 * acc i) + 1) = 0)
    (hL : acc Generated.FIXED_BASE_LEADING_ZERO_ROUNDS = 0)
    (hfin : acc Generated.FIXED_BASE_SIGNED_DIGIT_ROUNDS = s)
    (hs : s.val < 2 ^ Generated.JUBJUB_SCALAR_BITS) :
    ∃ d : Nat → ℤ,
      (∀ i < Generated.FIXED_BASE_SIGNED_DIGIT_ROUNDS, d i = -1 ∨ d i = 0 ∨ d i = 1) ∧
      (∀ i < Generated.FIXED_BASE_SIGNED_DIGIT_ROUNDS,
        acc (i + 1) - 2 * acc i = ((d (Generated.FIXED_BASE_SIGNED_DIGIT_ROUNDS - 1 - i) : ℤ) : F)) ∧
      (∀ j < Generated.FIXED_BASE_LEADING_ZERO_ROUNDS,
        d (Generated.FIXED_BASE_SIGNED_DIGIT_ROUNDS - 1 - j) = 0) ∧
      (∑ i ∈ range Generated.FIXED_BASE_SIGNED_DIGIT_ROUNDS, d i * 2 ^ i = (s.val : ℤ)) := by
  generalize hn : Generated.FIXED_BASE_SIGNED_DIGIT_ROUNDS = n at *
  let d : Nat → ℤ := fun i => sdDigit (acc (n - i) - 2 * acc (n - 1 - i))
  have hdi : ∀ i < n, d (n - 1 - i) = sdDigit (acc (i + 1) - 2 * acc i) := by
    intro i hi
    have e1 : n - (n - 1 - i) = i + 1 := by omega
    have e2 : n - 1 - (n - 1 - i) = i := by omega
    simp only [d, e1, e2]
  have hd : ∀ i < n, d i = -1 ∨ d i = 0 ∨ d i = 1 := by
    intro i hi
    have e : i = n - 1 - (n - 1 - i) := by omega
    rw [e, hdi (n - 1 - i) (by omega)]
    exact (sdDigit_spec (bitCons_cases (hbit _ (by omega)))).1
  have hinc : ∀ i < n, acc (i + 1) - 2 * acc i = ((d (n - 1 - i) : ℤ) : F) := by
    intro i hi
    rw [hdi i hi]; exact (sdDigit_spec (bitCons_cases (hbit i hi))).2.symm
  have hstep : ∀ i < n, acc (i + 1) = 2 * acc i + ((d (n - 1 - i) : ℤ) : F) := by
    intro i hi; rw [← hinc i hi]; ring
  subst hn
  obtain ⟨r1, -, r3⟩ := signed_digits_no_wrap_generated d acc s hd h0 hstep hL hfin hs
  exact ⟨d, hd, hinc, r1, r3⟩

/-! ### (c) the width-2 NAF -/

/-- digit emitted by one step of `compute_windowed_naf(2)` -/
def nafDigit (k : Nat) : ℤ := if k % 2 = 1 then (if k % 4 ≥ 2 then -1 else 1) else 0
/-- remaining scalar after one step -/
def nafNext (k : Nat) : Nat :=
  if k % 2 = 1 then (if k % 4 ≥ 2 then (k + 1) / 2 else (k - 1) / 2) else k / 2

/-- the first `n` NAF digits of `k` -/
def nafList : Nat → Nat → List ℤ
  | 0, _ => []
  | n + 1, k => nafDigit k :: nafList n (nafNext k)

theorem wnaf2_go_eq (n k : Nat) (acc : List ℤ) :
    wnaf2.go n k acc = acc.reverse ++ nafList n k := by
  induction n generalizing k acc with
  | zero => simp [wnaf2.go, nafList]
  | succ n ih =>
    unfold wnaf2.go
    simp only [nafList, nafDigit, nafNext, beq_iff_eq]
    split
    · split
      · rw [ih]; simp
      · rw [ih]; simp
    · rw [ih]; simp

theorem wnaf2_eq (k : Nat) : wnaf2 k = nafList 256 k := by
  unfold wnaf2; rw [wnaf2_go_eq]; simp

theorem nafList_length (n k : Nat) : (nafList n k).length = n := by
  induction n generalizing k with
  | zero => rfl
  | succ n ih => simp [nafList, ih]

theorem nafDigit_cases (k : Nat) : nafDigit k = -1 ∨ nafDigit k = 0 ∨ nafDigit k = 1 := by
  unfold nafDigit; split
  · split <;> simp
  · simp

theorem nafList_digits (n k : Nat) : ∀ d ∈ nafList n k, d = -1 ∨ d = 0 ∨ d = 1 := by
  induction n generalizing k with
  | zero => intro d hd; simp [nafList] at hd
  | succ n ih =>
    intro d hd
    simp only [nafList, List.mem_cons] at hd
    rcases hd with h | h
    · rw [h]; exact nafDigit_cases k
    · exact ih _ d h

/-- one step preserves the value: `k = digit + 2·next` -/
theorem naf_step (k : Nat) : (k : ℤ) = nafDigit k + 2 * (nafNext k : ℤ) := by
  unfold nafDigit nafNext
  split
  · split <;> omega
  · omega

theorem nafNext_le (k : Nat) : nafNext k ≤ (k + 1) / 2 := by
  unfold nafNext
  split
  · split <;> omega
  · omega

/-- little-endian integer value of a digit list -/
def listValZ : List ℤ → ℤ
  | [] => 0
  | d :: ds => d + 2 * listValZ ds

open Finset in
theorem listValZ_eq_sum (l : List ℤ) :
    listValZ l = ∑ i ∈ range l.length, l.getD i 0 * 2 ^ i := by
  induction l with
  | nil => simp [listValZ]
  | cons x xs ih =>
    simp only [listValZ, List.length_cons]
    rw [Finset.sum_range_succ', ih, Finset.mul_sum]
    simp only [List.getD_cons_zero, List.getD_cons_succ, pow_zero, mul_one]
    rw [add_comm]
    congr 1
    apply Finset.sum_congr rfl
    intro i _; rw [pow_succ]; ring

theorem nafList_zero (n : Nat) : ∀ i, (nafList n 0).getD i 0 = 0 := by
  induction n with
  | zero => intro i; simp [nafList]
  | succ n ih =>
    intro i
    have h1 : nafDigit 0 = 0 := by decide
    have h2 : nafNext 0 = 0 := by decide
    cases i with
    | zero => simp [nafList, h1]
    | succ i => simp only [nafList, h2, List.getD_cons_succ]; exact ih i

theorem listValZ_nafList_zero (n : Nat) : listValZ (nafList n 0) = 0 := by
  induction n with
  | zero => rfl
  | succ n ih =>
    have h1 : nafDigit 0 = 0 := by decide
    have h2 : nafNext 0 = 0 := by decide
    simp only [nafList, listValZ, h1, h2, ih]; rfl

/-- key invariant: a scalar `≤ 2^m` is exhausted after `m + 1` NAF digits -/
theorem nafList_small (m : Nat) : ∀ n k, k ≤ 2 ^ m → m + 1 ≤ n →
    listValZ (nafList n k) = k ∧ ∀ i, m + 1 ≤ i → (nafList n k).getD i 0 = 0 := by
  induction m with
  | zero =>
    intro n k hk hn
    obtain ⟨n', rfl⟩ : ∃ n', n = n' + 1 := ⟨n - 1, by omega⟩
    have : k = 0 ∨ k = 1 := by omega
    rcases this with rfl | rfl
    · exact ⟨by rw [listValZ_nafList_zero]; rfl, fun i _ => nafList_zero _ i⟩
    · have h1 : nafDigit 1 = 1 := by decide
      have h2 : nafNext 1 = 0 := by decide
      refine ⟨by simp only [nafList, listValZ, h1, h2, listValZ_nafList_zero]; rfl, ?_⟩
      intro i hi
      obtain ⟨i', rfl⟩ : ∃ i', i = i' + 1 := ⟨i - 1, by omega⟩
      simp only [nafList, h2, List.getD_cons_succ]; exact nafList_zero _ i'
  | succ m ih =>
    intro n k hk hn
    obtain ⟨n', rfl⟩ : ∃ n', n = n' + 1 := ⟨n - 1, by omega⟩
    have hnext : nafNext k ≤ 2 ^ m := by
      have := nafNext_le k
      rw [pow_succ] at hk; omega
    obtain ⟨v, z⟩ := ih n' (nafNext k) hnext (by omega)
    refine ⟨?_, ?_⟩
    · simp only [nafList, listValZ, v]; exact (naf_step k).symm
    · intro i hi
      obtain ⟨i', rfl⟩ : ∃ i', i = i' + 1 := ⟨i - 1, by omega⟩
      simp only [nafList, List.getD_cons_succ]; exact z i' (by omega)

theorem RJ_le_two_pow : RJ ≤ 2 ^ Generated.JUBJUB_SCALAR_BITS := by decide +kernel

open Finset in
/-- (c) `naf_bound`: for `k < r_J` the 256-entry width-2 NAF has digits in `{−1,0,1}`, integer
    value `k`, and zero digits at positions `≥ 253`. -/
theorem naf_bound (k : Nat) (hk : k < RJ) :
    (wnaf2 k).length = 256 ∧
    (∀ d ∈ wnaf2 k, d = -1 ∨ d = 0 ∨ d = 1) ∧
    (∑ i ∈ range 256, (wnaf2 k).getD i 0 * 2 ^ i = (k : ℤ)) ∧
    (∀ i, Generated.JUBJUB_SCALAR_BITS + 1 ≤ i → (wnaf2 k).getD i 0 = 0) := by
  rw [wnaf2_eq]
  have hle : k ≤ 2 ^ Generated.JUBJUB_SCALAR_BITS := le_trans hk.le RJ_le_two_pow
  obtain ⟨v, z⟩ := nafList_small Generated.JUBJUB_SCALAR_BITS 256 k hle (by decide)
  refine ⟨nafList_length _ _, nafList_digits _ _, ?_, z⟩
  rw [listValZ_eq_sum, nafList_length] at v; exact v

open Finset in
/-- (b)+(c), completeness direction: the honest NAF digits of `k < r_J` drive the integer
    accumulator to `0` after the three leading rounds and to `k` after 256 rounds. -/
theorem naf_chain_complete (k : Nat) (hk : k < RJ) :
    let d := fun i => (wnaf2 k).getD i 0
    (∀ i, d i = -1 ∨ d i = 0 ∨ d i = 1) ∧
    sdAccZ d 256 Generated.FIXED_BASE_LEADING_ZERO_ROUNDS = 0 ∧ sdAccZ d 256 256 = (k : ℤ) := by
  intro d
  obtain ⟨hlen, hdig, hval, hz⟩ := naf_bound k hk
  refine ⟨?_, ?_, ?_⟩
  · intro i
    by_cases hi : i < (wnaf2 k).length
    · simp only [d]; rw [List.getD_eq_getElem (l := wnaf2 k) (d := 0) hi]; exact hdig _ (List.getElem_mem hi)
    · simp only [d]; rw [List.getD_eq_default (l := wnaf2 k) (d := 0) (by omega)]; simp
  · apply sdAccZ_of_top_zero
    intro j hj
    apply hz
    have : Generated.FIXED_BASE_LEADING_ZERO_ROUNDS = 3 := rfl
    have : Generated.JUBJUB_SCALAR_BITS = 252 := rfl
    omega
  · rw [sdAccZ_full]; exact hval

end Plonk
