/-
  Helper lemmas about the byte-level model of the compressed circuit format (`Plonk/Model/Packed.lean`):
  inversion of the readers, stability under appended bytes (no trailing data), counts and byte accounting
  (bounded decoding), `unpack ∘ pack = id` on representable values, `validateIndices` against
  `CompressedShape.valid`, the exact error classification of `fromPayload`, and the shape of `rebuild`.
-/
import Plonk.Model.Packed
namespace Plonk.PackedLemmas
open Plonk Plonk.Packed

/-! ## 0. inversion of the readers -/
theorem unpackMany_succ_eq_some {α : Type} {f : List Nat → Option (α × List Nat)} {n : Nat} {bs r : List Nat}
    {v : List α} : unpackMany f (n + 1) bs = some (v, r) ↔
      ∃ x r1 xs, f bs = some (x, r1) ∧ unpackMany f n r1 = some (xs, r) ∧ v = x :: xs := by
  simp only [unpackMany]
  constructor
  · intro h
    split at h
    · cases h
    · rename_i x r1 h1
      split at h
      · cases h
      · rename_i xs r2 h2
        simp only [Option.some.injEq, Prod.mk.injEq] at h
        obtain ⟨rfl, rfl⟩ := h
        exact ⟨x, r1, xs, h1, h2, rfl⟩
  · rintro ⟨x, r1, xs, h1, h2, rfl⟩
    simp only [h1, h2]

theorem unpackMany_zero_eq_some {α : Type} {f : List Nat → Option (α × List Nat)} {bs r : List Nat}
    {v : List α} : unpackMany f 0 bs = some (v, r) ↔ v = [] ∧ r = bs := by
  simp only [unpackMany, Option.some.injEq, Prod.mk.injEq]
  constructor
  · rintro ⟨rfl, rfl⟩; exact ⟨rfl, rfl⟩
  · rintro ⟨rfl, rfl⟩; exact ⟨rfl, rfl⟩

theorem unpackVec_eq_some {α : Type} {f : List Nat → Option (α × List Nat)} {maxLen : Nat} {bs r : List Nat}
    {v : List α} : unpackVec f maxLen bs = some (v, r) ↔
      ∃ len r0, unpackArrayLen bs = some (len, r0) ∧ len ≤ maxLen ∧ unpackMany f len r0 = some (v, r) := by
  unfold unpackVec
  constructor
  · intro h
    split at h
    · cases h
    · rename_i len r0 h0
      split at h
      · cases h
      · rename_i hle
        exact ⟨len, r0, h0, by omega, h⟩
  · rintro ⟨len, r0, h0, hle, h⟩
    simp only [h0]
    rw [if_neg (by omega)]
    exact h

theorem unpackBounded_eq_some {bs : List Nat} {m : Nat} {c : PackedCircuit} :
    unpackBounded bs m = some c ↔
      ∃ r1 r2 r3 r4 r5, unpackBool bs = some (c.hades, r1) ∧
        unpackVec unpackUsize m r1 = some (c.publicInputs, r2) ∧
        unpackUsize r2 = some (c.witnesses, r3) ∧
        unpackVec (unpackMany unpackU8 32) (m * Generated.SELECTORS_PER_POLYNOMIAL) r3 = some (c.scalars, r4) ∧
        unpackVec (unpackMany unpackUsize 11) m r4 = some (c.polynomials, r5) ∧
        unpackVec (unpackMany unpackUsize 5) m r5 = some (c.constraints, []) := by
  unfold unpackBounded
  constructor
  · intro h
    split at h
    · cases h
    rename_i hades r1 h1
    split at h
    · cases h
    rename_i pis r2 h2
    split at h
    · cases h
    rename_i wits r3 h3
    split at h
    · cases h
    rename_i scalars r4 h4
    split at h
    · cases h
    rename_i polys r5 h5
    split at h
    · cases h
    rename_i cons r6 h6
    split at h
    · rename_i hr
      simp only [Option.some.injEq] at h
      subst h
      rw [List.isEmpty_iff] at hr
      subst hr
      exact ⟨r1, r2, r3, r4, r5, h1, h2, h3, h4, h5, h6⟩
    · cases h
  · rintro ⟨r1, r2, r3, r4, r5, h1, h2, h3, h4, h5, h6⟩
    simp only [h1, h2, h3, h4, h5, h6, List.isEmpty_nil, if_true]

/-! ## 1. stability under appended bytes -/

/-- a reader whose result does not depend on what follows the bytes it consumed -/
def Stable {α : Type} (f : List Nat → Option (α × List Nat)) : Prop :=
  ∀ bs v r e, f bs = some (v, r) → f (bs ++ e) = some (v, r ++ e)

theorem takeN_append {n : Nat} {bs v r : List Nat} (e : List Nat) (h : takeN n bs = some (v, r)) :
    takeN n (bs ++ e) = some (v, r ++ e) := by
  unfold takeN at h ⊢
  by_cases hl : bs.length < n
  · simp [hl] at h
  · rw [if_neg hl] at h
    have hl' : ¬ (bs ++ e).length < n := by simp; omega
    rw [if_neg hl']
    simp only [Option.some.injEq, Prod.mk.injEq] at h
    obtain ⟨rfl, rfl⟩ := h
    rw [List.take_append_of_le_length (by omega), List.drop_append_of_le_length (by omega)]

theorem takeNat_stable (n : Nat) : Stable (fun bs => (takeN n bs).map fun (v, r) => (beNat v, r)) := by
  intro bs v r e h
  cases ht : takeN n bs with
  | none => simp [ht] at h
  | some p =>
    obtain ⟨w, r'⟩ := p
    simp only [ht, Option.map_some, Option.some.injEq, Prod.mk.injEq] at h
    obtain ⟨rfl, rfl⟩ := h
    simp only [takeN_append e ht, Option.map_some]

theorem unpackUsize_stable : Stable unpackUsize := by
  intro bs v r e h
  cases bs with
  | nil => simp [unpackUsize] at h
  | cons t tl =>
    simp only [unpackUsize, List.cons_append] at h ⊢
    split at h
    · rename_i h1; rw [if_pos h1]; simp only [Option.some.injEq, Prod.mk.injEq] at h; obtain ⟨rfl, rfl⟩ := h; rfl
    · rename_i h1; rw [if_neg h1]
      split at h
      · rename_i h2; rw [if_pos h2]; exact takeNat_stable 1 _ _ _ e h
      · rename_i h2; rw [if_neg h2]
        split at h
        · rename_i h3; rw [if_pos h3]; exact takeNat_stable 2 _ _ _ e h
        · rename_i h3; rw [if_neg h3]
          split at h
          · rename_i h4; rw [if_pos h4]; exact takeNat_stable 4 _ _ _ e h
          · rename_i h4; rw [if_neg h4]
            split at h
            · rename_i h5; rw [if_pos h5]; exact takeNat_stable 8 _ _ _ e h
            · cases h

theorem unpackU8_stable : Stable unpackU8 := by
  intro bs v r e h
  cases bs with
  | nil => simp [unpackU8] at h
  | cons t tl =>
    simp only [unpackU8, List.cons_append] at h ⊢
    split at h
    · rename_i h1; rw [if_pos h1]; simp only [Option.some.injEq, Prod.mk.injEq] at h; obtain ⟨rfl, rfl⟩ := h; rfl
    · rename_i h1; rw [if_neg h1]
      split at h
      · rename_i h2; rw [if_pos h2]; exact takeNat_stable 1 _ _ _ e h
      · cases h

theorem unpackBool_stable : Stable unpackBool := by
  intro bs v r e h
  cases bs with
  | nil => simp [unpackBool] at h
  | cons t tl =>
    simp only [unpackBool, List.cons_append] at h ⊢
    split at h
    · rename_i h1; rw [if_pos h1]; simp only [Option.some.injEq, Prod.mk.injEq] at h; obtain ⟨rfl, rfl⟩ := h; rfl
    · rename_i h1; rw [if_neg h1]
      split at h
      · rename_i h2; rw [if_pos h2]; simp only [Option.some.injEq, Prod.mk.injEq] at h; obtain ⟨rfl, rfl⟩ := h; rfl
      · cases h

theorem unpackArrayLen_stable : Stable unpackArrayLen := by
  intro bs v r e h
  cases bs with
  | nil => simp [unpackArrayLen] at h
  | cons t tl =>
    simp only [unpackArrayLen, List.cons_append] at h ⊢
    split at h
    · rename_i h1; rw [if_pos h1]; simp only [Option.some.injEq, Prod.mk.injEq] at h; obtain ⟨rfl, rfl⟩ := h; rfl
    · rename_i h1; rw [if_neg h1]
      split at h
      · rename_i h2; rw [if_pos h2]; exact takeNat_stable 2 _ _ _ e h
      · rename_i h2; rw [if_neg h2]
        split at h
        · rename_i h3; rw [if_pos h3]; exact takeNat_stable 4 _ _ _ e h
        · cases h

theorem unpackMany_stable {α : Type} {f : List Nat → Option (α × List Nat)} (hf : Stable f) :
    ∀ n, Stable (unpackMany f n)
  | 0 => by
    intro bs v r e h
    rw [unpackMany_zero_eq_some] at h ⊢
    obtain ⟨rfl, rfl⟩ := h
    exact ⟨rfl, rfl⟩
  | n + 1 => by
    intro bs v r e h
    rw [unpackMany_succ_eq_some] at h ⊢
    obtain ⟨x, r1, xs, h1, h2, rfl⟩ := h
    exact ⟨x, r1 ++ e, xs, hf _ _ _ e h1, unpackMany_stable hf n _ _ _ e h2, rfl⟩

theorem unpackVec_stable {α : Type} {f : List Nat → Option (α × List Nat)} (hf : Stable f) (maxLen : Nat) :
    Stable (unpackVec f maxLen) := by
  intro bs v r e h
  rw [unpackVec_eq_some] at h ⊢
  obtain ⟨len, r0, h0, hle, h1⟩ := h
  exact ⟨len, r0 ++ e, unpackArrayLen_stable _ _ _ e h0, hle, unpackMany_stable hf len _ _ _ e h1⟩

/-- T1: the reader accepts no proper extension of an accepted payload -/
theorem unpackBounded_append_none {bs : List Nat} {m : Nat} {c : PackedCircuit} (h : unpackBounded bs m = some c)
    (x : Nat) (xs : List Nat) : unpackBounded (bs ++ x :: xs) m = none := by
  obtain ⟨r1, r2, r3, r4, r5, h1, h2, h3, h4, h5, h6⟩ := unpackBounded_eq_some.1 h
  have e := x :: xs
  have g1 := unpackBool_stable _ _ _ (x :: xs) h1
  have g2 := unpackVec_stable unpackUsize_stable m _ _ _ (x :: xs) h2
  have g3 := unpackUsize_stable _ _ _ (x :: xs) h3
  have g4 := unpackVec_stable (unpackMany_stable unpackU8_stable 32) _ _ _ _ (x :: xs) h4
  have g5 := unpackVec_stable (unpackMany_stable unpackUsize_stable 11) m _ _ _ (x :: xs) h5
  have g6 := unpackVec_stable (unpackMany_stable unpackUsize_stable 5) m _ _ _ (x :: xs) h6
  unfold unpackBounded
  simp only [g1, g2, g3, g4, g5, g6, List.nil_append, List.isEmpty_cons, Bool.false_eq_true, if_false]

/-- the reader is deterministic in the strong sense: at most one prefix of any byte string is accepted -/
theorem unpackBounded_prefix_unique {bs bs' : List Nat} {m : Nat} {c c' : PackedCircuit}
    (h : unpackBounded bs m = some c) (h' : unpackBounded bs' m = some c') (hp : bs <+: bs') : bs = bs' := by
  obtain ⟨t, rfl⟩ := hp
  cases t with
  | nil => simp
  | cons x xs => rw [unpackBounded_append_none h x xs] at h'; cases h'

/-! ## 2. counts -/

theorem unpackMany_length {α : Type} {f : List Nat → Option (α × List Nat)} :
    ∀ {n : Nat} {bs r : List Nat} {v : List α}, unpackMany f n bs = some (v, r) → v.length = n
  | 0, _, _, _, h => by rw [unpackMany_zero_eq_some] at h; rw [h.1]; rfl
  | n + 1, _, _, _, h => by
    rw [unpackMany_succ_eq_some] at h
    obtain ⟨x, r1, xs, -, h2, rfl⟩ := h
    rw [List.length_cons, unpackMany_length h2]

/-- every item returned by `unpackMany f` was returned by `f` -/
theorem unpackMany_mem {α : Type} {f : List Nat → Option (α × List Nat)} :
    ∀ {n : Nat} {bs r : List Nat} {v : List α}, unpackMany f n bs = some (v, r) →
      ∀ x ∈ v, ∃ bs' r', f bs' = some (x, r')
  | 0, _, _, _, h => by rw [unpackMany_zero_eq_some] at h; rw [h.1]; intro x hx; cases hx
  | n + 1, bs, _, _, h => by
    rw [unpackMany_succ_eq_some] at h
    obtain ⟨x, r1, xs, h1, h2, rfl⟩ := h
    intro y hy
    rcases List.mem_cons.1 hy with rfl | hy
    · exact ⟨bs, r1, h1⟩
    · exact unpackMany_mem h2 y hy

theorem unpackVec_length_le {α : Type} {f : List Nat → Option (α × List Nat)} {maxLen : Nat} {bs r : List Nat}
    {v : List α} (h : unpackVec f maxLen bs = some (v, r)) : v.length ≤ maxLen := by
  obtain ⟨len, r0, -, hle, h1⟩ := unpackVec_eq_some.1 h
  rw [unpackMany_length h1]; exact hle

theorem unpackVec_mem {α : Type} {f : List Nat → Option (α × List Nat)} {maxLen : Nat} {bs r : List Nat}
    {v : List α} (h : unpackVec f maxLen bs = some (v, r)) : ∀ x ∈ v, ∃ bs' r', f bs' = some (x, r') := by
  obtain ⟨len, r0, -, -, h1⟩ := unpackVec_eq_some.1 h
  exact unpackMany_mem h1

/-- the declared length is checked before any item is read: whatever the item reader is -/
theorem unpackVec_over_capacity {α : Type} (f : List Nat → Option (α × List Nat)) {maxLen len : Nat}
    {bs r : List Nat} (h : unpackArrayLen bs = some (len, r)) (hgt : len > maxLen) : unpackVec f maxLen bs = none := by
  unfold unpackVec
  simp only [h]
  rw [if_pos hgt]

theorem unpackBounded_counts {bs : List Nat} {m : Nat} {c : PackedCircuit} (h : unpackBounded bs m = some c) :
    c.publicInputs.length ≤ m ∧ c.scalars.length ≤ m * Generated.SELECTORS_PER_POLYNOMIAL ∧
    c.polynomials.length ≤ m ∧ c.constraints.length ≤ m ∧
    (∀ s ∈ c.scalars, s.length = 32) ∧ (∀ p ∈ c.polynomials, p.length = 11) ∧
    (∀ k ∈ c.constraints, k.length = 5) := by
  obtain ⟨r1, r2, r3, r4, r5, -, h2, -, h4, h5, h6⟩ := unpackBounded_eq_some.1 h
  refine ⟨unpackVec_length_le h2, unpackVec_length_le h4, unpackVec_length_le h5, unpackVec_length_le h6, ?_, ?_, ?_⟩
  · intro s hs
    obtain ⟨_, _, hx⟩ := unpackVec_mem h4 s hs
    exact unpackMany_length hx
  · intro s hs
    obtain ⟨_, _, hx⟩ := unpackVec_mem h5 s hs
    exact unpackMany_length hx
  · intro s hs
    obtain ⟨_, _, hx⟩ := unpackVec_mem h6 s hs
    exact unpackMany_length hx

/-! ### value ranges of what the readers return -/

theorem beNat_append (l : List Nat) (b : Nat) : beNat (l ++ [b]) = beNat l * 256 + b := by
  simp [beNat, List.foldl_append]

/-! ### byte accounting: every returned item is backed by input bytes that were present -/

/-- a successful read consumes at least `k` bytes -/
def Consumes {α : Type} (k : Nat) (f : List Nat → Option (α × List Nat)) : Prop :=
  ∀ bs v r, f bs = some (v, r) → r.length + k ≤ bs.length

theorem takeNat_consumes (n : Nat) : Consumes n (fun bs => (takeN n bs).map fun (v, r) => (beNat v, r)) := by
  intro bs v r h
  simp only [takeN] at h
  by_cases hl : bs.length < n
  · simp [hl] at h
  · rw [if_neg hl] at h
    simp only [Option.map_some, Option.some.injEq, Prod.mk.injEq] at h
    obtain ⟨-, rfl⟩ := h
    rw [List.length_drop]; omega

theorem unpackUsize_consumes : Consumes 1 unpackUsize := by
  intro bs v r h
  cases bs with
  | nil => simp [unpackUsize] at h
  | cons t tl =>
    simp only [unpackUsize] at h
    rw [List.length_cons]
    split at h
    · simp only [Option.some.injEq, Prod.mk.injEq] at h; rw [h.2]; omega
    · split at h
      · have := takeNat_consumes 1 _ _ _ h; omega
      · split at h
        · have := takeNat_consumes 2 _ _ _ h; omega
        · split at h
          · have := takeNat_consumes 4 _ _ _ h; omega
          · split at h
            · have := takeNat_consumes 8 _ _ _ h; omega
            · cases h

theorem unpackU8_consumes : Consumes 1 unpackU8 := by
  intro bs v r h
  cases bs with
  | nil => simp [unpackU8] at h
  | cons t tl =>
    simp only [unpackU8] at h
    rw [List.length_cons]
    split at h
    · simp only [Option.some.injEq, Prod.mk.injEq] at h; rw [h.2]; omega
    · split at h
      · have := takeNat_consumes 1 _ _ _ h; omega
      · cases h

theorem unpackBool_consumes : Consumes 1 unpackBool := by
  intro bs v r h
  cases bs with
  | nil => simp [unpackBool] at h
  | cons t tl =>
    simp only [unpackBool] at h
    rw [List.length_cons]
    split at h
    · simp only [Option.some.injEq, Prod.mk.injEq] at h; rw [h.2]; omega
    · split at h
      · simp only [Option.some.injEq, Prod.mk.injEq] at h; rw [h.2]; omega
      · cases h

theorem unpackArrayLen_consumes : Consumes 1 unpackArrayLen := by
  intro bs v r h
  cases bs with
  | nil => simp [unpackArrayLen] at h
  | cons t tl =>
    simp only [unpackArrayLen] at h
    rw [List.length_cons]
    split at h
    · simp only [Option.some.injEq, Prod.mk.injEq] at h; rw [h.2]; omega
    · split at h
      · have := takeNat_consumes 2 _ _ _ h; omega
      · split at h
        · have := takeNat_consumes 4 _ _ _ h; omega
        · cases h

theorem unpackMany_consumes {α : Type} {f : List Nat → Option (α × List Nat)} {k : Nat} (hf : Consumes k f) :
    ∀ n, Consumes (n * k) (unpackMany f n)
  | 0 => by
    intro bs v r h
    rw [unpackMany_zero_eq_some] at h
    rw [h.2]; omega
  | n + 1 => by
    intro bs v r h
    rw [unpackMany_succ_eq_some] at h
    obtain ⟨x, r1, xs, h1, h2, rfl⟩ := h
    have a := hf _ _ _ h1
    have b := unpackMany_consumes hf n _ _ _ h2
    rw [Nat.succ_mul]; omega

/-- a vector of `len` items, each backed by at least `k` bytes, is backed by `1 + len·k` bytes: the declared
    length alone allocates nothing -/
theorem unpackVec_consumes {α : Type} {f : List Nat → Option (α × List Nat)} {k : Nat} (hf : Consumes k f)
    {maxLen : Nat} {bs r : List Nat} {v : List α} (h : unpackVec f maxLen bs = some (v, r)) :
    r.length + (1 + v.length * k) ≤ bs.length := by
  obtain ⟨len, r0, h0, -, h1⟩ := unpackVec_eq_some.1 h
  have a := unpackArrayLen_consumes _ _ _ h0
  have b := unpackMany_consumes hf len _ _ _ h1
  rw [unpackMany_length h1]; omega

/-- byte accounting of the bounded reader: one byte per flag / count / header and at least one byte per
    decoded byte or index -/
theorem unpackBounded_bytes {bs : List Nat} {m : Nat} {c : PackedCircuit} (h : unpackBounded bs m = some c) :
    6 + c.publicInputs.length + 32 * c.scalars.length + 11 * c.polynomials.length + 5 * c.constraints.length
      ≤ bs.length := by
  obtain ⟨r1, r2, r3, r4, r5, h1, h2, h3, h4, h5, h6⟩ := unpackBounded_eq_some.1 h
  have a1 := unpackBool_consumes _ _ _ h1
  have a2 := unpackVec_consumes unpackUsize_consumes h2
  have a3 := unpackUsize_consumes _ _ _ h3
  have a4 := unpackVec_consumes (unpackMany_consumes unpackU8_consumes 32) h4
  have a5 := unpackVec_consumes (unpackMany_consumes unpackUsize_consumes 11) h5
  have a6 := unpackVec_consumes (unpackMany_consumes unpackUsize_consumes 5) h6
  simp only [List.length_nil] at a6
  omega
/-! ## 3. `unpack ∘ pack` -/

theorem beBytes_succ (v len : Nat) : beBytes v (len + 1) = beBytes (v / 256) len ++ [v % 256] := by
  unfold beBytes
  rw [List.range_succ, List.map_append]
  congr 1
  · apply List.map_congr_left
    intro i hi
    have hi := List.mem_range.1 hi
    have e : len + 1 - 1 - i = (len - 1 - i) + 1 := by omega
    rw [e, Nat.pow_succ, Nat.mul_comm, Nat.div_div_eq_div_mul]
  · simp

theorem beBytes_length (v len : Nat) : (beBytes v len).length = len := by simp [beBytes]

theorem beNat_beBytes : ∀ (len v : Nat), beNat (beBytes v len) = v % 256 ^ len
  | 0, v => by simp [beBytes, beNat, Nat.mod_one]
  | len + 1, v => by
    rw [beBytes_succ, beNat_append, beNat_beBytes len, Nat.pow_succ]
    rw [Nat.mul_comm (256 ^ len) 256, Nat.mod_mul]
    generalize v / 256 % 256 ^ len = q
    omega

theorem takeN_append_exact {n : Nat} (l r : List Nat) (h : l.length = n) : takeN n (l ++ r) = some (l, r) := by
  unfold takeN
  rw [if_neg (by simp; omega)]
  rw [List.take_append_of_le_length (by omega), List.drop_append_of_le_length (by omega)]
  simp [← h]

theorem takeNat_beBytes (n v : Nat) (r : List Nat) (hv : v < 256 ^ n) :
    ((takeN n (beBytes v n ++ r)).map fun (w, r) => (beNat w, r)) = some (v, r) := by
  rw [takeN_append_exact _ _ (beBytes_length v n)]
  simp only [Option.map_some, beNat_beBytes, Nat.mod_eq_of_lt hv]

theorem unpackUsize_packUsize (v : Nat) (r : List Nat) (hv : v < 2 ^ 64) :
    unpackUsize (packUsize v ++ r) = some (v, r) := by
  unfold packUsize
  by_cases h1 : v ≤ 127
  · rw [if_pos h1]; simp only [List.cons_append, List.nil_append, unpackUsize]; rw [if_pos h1]
  rw [if_neg h1]
  by_cases h2 : v ≤ 0xff
  · rw [if_pos h2]
    simp only [List.cons_append, List.nil_append, unpackUsize]
    rw [if_neg (by decide), if_pos (by decide)]
    simp [takeN, beNat]
  rw [if_neg h2]
  by_cases h3 : v ≤ 0xffff
  · rw [if_pos h3]
    simp only [List.cons_append, unpackUsize]
    rw [if_neg (by decide), if_neg (by decide), if_pos (by decide)]
    exact takeNat_beBytes 2 v r (by omega)
  rw [if_neg h3]
  by_cases h4 : v ≤ 0xffffffff
  · rw [if_pos h4]
    simp only [List.cons_append, unpackUsize]
    rw [if_neg (by decide), if_neg (by decide), if_neg (by decide), if_pos (by decide)]
    exact takeNat_beBytes 4 v r (by omega)
  rw [if_neg h4]
  simp only [List.cons_append, unpackUsize]
  rw [if_neg (by decide), if_neg (by decide), if_neg (by decide), if_neg (by decide), if_pos (by decide)]
  exact takeNat_beBytes 8 v r (by omega)

theorem unpackU8_packU8 (v : Nat) (r : List Nat) : unpackU8 (packU8 v ++ r) = some (v, r) := by
  unfold packU8
  by_cases h1 : v ≤ 127
  · rw [if_pos h1]; simp only [List.cons_append, List.nil_append, unpackU8]; rw [if_pos h1]
  rw [if_neg h1]
  simp only [List.cons_append, List.nil_append, unpackU8]
  rw [if_neg (by decide), if_pos (by decide)]
  simp [takeN, beNat]

theorem unpackBool_packBool (b : Bool) (r : List Nat) : unpackBool (packBool b ++ r) = some (b, r) := by
  cases b <;> simp [packBool, unpackBool]

theorem unpackArrayLen_packArrayLen (len : Nat) (r : List Nat) (h : len < 2 ^ 32) :
    unpackArrayLen (packArrayLen len ++ r) = some (len, r) := by
  unfold packArrayLen
  by_cases h1 : len ≤ 15
  · rw [if_pos h1]; simp only [List.cons_append, List.nil_append, unpackArrayLen]
    rw [if_pos (by omega)]
    congr 2; omega
  rw [if_neg h1]
  by_cases h2 : len ≤ 0xffff
  · rw [if_pos h2]
    simp only [List.cons_append, unpackArrayLen]
    rw [if_neg (by decide), if_pos (by decide)]
    exact takeNat_beBytes 2 len r (by omega)
  rw [if_neg h2]
  simp only [List.cons_append, unpackArrayLen]
  rw [if_neg (by decide), if_neg (by decide), if_pos (by decide)]
  exact takeNat_beBytes 4 len r (by omega)

/-- items written one after the other are read back one after the other -/
theorem unpackMany_flatMap {α : Type} {f : List Nat → Option (α × List Nat)} {g : α → List Nat} :
    ∀ (xs : List α) (r : List Nat), (∀ x ∈ xs, ∀ r, f (g x ++ r) = some (x, r)) →
      unpackMany f xs.length (xs.flatMap g ++ r) = some (xs, r)
  | [], r, _ => by simp [unpackMany]
  | x :: xs, r, h => by
    rw [List.length_cons, unpackMany_succ_eq_some]
    refine ⟨x, xs.flatMap g ++ r, xs, ?_, unpackMany_flatMap xs r (fun y hy => h y (by simp [hy])), rfl⟩
    rw [List.flatMap_cons, List.append_assoc]
    exact h x (by simp) _

theorem unpackVec_pack {α : Type} {f : List Nat → Option (α × List Nat)} {g : α → List Nat} (xs : List α)
    (r : List Nat) {maxLen : Nat} (hf : ∀ x ∈ xs, ∀ r, f (g x ++ r) = some (x, r)) (hlen : xs.length < 2 ^ 32)
    (hmax : xs.length ≤ maxLen) :
    unpackVec f maxLen (packArrayLen xs.length ++ (xs.flatMap g ++ r)) = some (xs, r) := by
  rw [unpackVec_eq_some]
  exact ⟨xs.length, _, unpackArrayLen_packArrayLen _ _ hlen, hmax, unpackMany_flatMap xs r hf⟩


/-- values the writer can represent: `usize` fields below `2^64`, scalars of exactly 32 bytes, 11 / 5 indices per
    polynomial / constraint, vector lengths that fit the `array 32` header -/
structure Representable (c : PackedCircuit) : Prop where
  witnesses : c.witnesses < 2 ^ 64
  publicInputs : ∀ p ∈ c.publicInputs, p < 2 ^ 64
  scalars : ∀ s ∈ c.scalars, s.length = 32 ∧ ∀ b ∈ s, b < 256
  polynomials : ∀ p ∈ c.polynomials, p.length = 11 ∧ ∀ i ∈ p, i < 2 ^ 64
  constraints : ∀ k ∈ c.constraints, k.length = 5 ∧ ∀ i ∈ k, i < 2 ^ 64
  lenPublicInputs : c.publicInputs.length < 2 ^ 32
  lenScalars : c.scalars.length < 2 ^ 32
  lenPolynomials : c.polynomials.length < 2 ^ 32
  lenConstraints : c.constraints.length < 2 ^ 32

/-- the four vectors fit the capacity handed to the bounded reader -/
structure WithinCapacity (c : PackedCircuit) (m : Nat) : Prop where
  publicInputs : c.publicInputs.length ≤ m
  scalars : c.scalars.length ≤ m * Generated.SELECTORS_PER_POLYNOMIAL
  polynomials : c.polynomials.length ≤ m
  constraints : c.constraints.length ≤ m

theorem pack_eq (c : PackedCircuit) : pack c =
    packBool c.hades ++ (packArrayLen c.publicInputs.length ++ (c.publicInputs.flatMap packUsize ++
    (packUsize c.witnesses ++ (packArrayLen c.scalars.length ++ (c.scalars.flatMap (·.flatMap packU8) ++
    (packArrayLen c.polynomials.length ++ (c.polynomials.flatMap (·.flatMap packUsize) ++
    (packArrayLen c.constraints.length ++ (c.constraints.flatMap (·.flatMap packUsize) ++ []))))))))) := by
  simp only [pack, List.append_assoc, List.append_nil]

theorem unpackManyUsize_pack {n : Nat} (p : List Nat) (r : List Nat) (hl : p.length = n) (hp : ∀ i ∈ p, i < 2 ^ 64) :
    unpackMany unpackUsize n (p.flatMap packUsize ++ r) = some (p, r) := by
  subst hl
  exact unpackMany_flatMap p r (fun i hi r => unpackUsize_packUsize i r (hp i hi))

theorem unpackBounded_pack {c : PackedCircuit} {m : Nat} (hr : Representable c) (hc : WithinCapacity c m) :
    unpackBounded (pack c) m = some c := by
  rw [unpackBounded_eq_some, pack_eq]
  refine ⟨packArrayLen c.publicInputs.length ++ (c.publicInputs.flatMap packUsize ++
      (packUsize c.witnesses ++ (packArrayLen c.scalars.length ++ (c.scalars.flatMap (·.flatMap packU8) ++
      (packArrayLen c.polynomials.length ++ (c.polynomials.flatMap (·.flatMap packUsize) ++
      (packArrayLen c.constraints.length ++ (c.constraints.flatMap (·.flatMap packUsize) ++ [])))))))),
    packUsize c.witnesses ++ (packArrayLen c.scalars.length ++ (c.scalars.flatMap (·.flatMap packU8) ++
      (packArrayLen c.polynomials.length ++ (c.polynomials.flatMap (·.flatMap packUsize) ++
      (packArrayLen c.constraints.length ++ (c.constraints.flatMap (·.flatMap packUsize) ++ [])))))),
    packArrayLen c.scalars.length ++ (c.scalars.flatMap (·.flatMap packU8) ++
      (packArrayLen c.polynomials.length ++ (c.polynomials.flatMap (·.flatMap packUsize) ++
      (packArrayLen c.constraints.length ++ (c.constraints.flatMap (·.flatMap packUsize) ++ []))))),
    packArrayLen c.polynomials.length ++ (c.polynomials.flatMap (·.flatMap packUsize) ++
      (packArrayLen c.constraints.length ++ (c.constraints.flatMap (·.flatMap packUsize) ++ []))),
    packArrayLen c.constraints.length ++ (c.constraints.flatMap (·.flatMap packUsize) ++ []),
    unpackBool_packBool _ _, ?_, unpackUsize_packUsize _ _ hr.witnesses, ?_, ?_, ?_⟩
  · exact unpackVec_pack _ _ (fun x hx r => unpackUsize_packUsize x r (hr.publicInputs x hx)) hr.lenPublicInputs
      hc.publicInputs
  · refine unpackVec_pack (g := (·.flatMap packU8)) _ _ (fun s hs r => ?_) hr.lenScalars hc.scalars
    have := unpackMany_flatMap (f := unpackU8) (g := packU8) s r (fun b _ r => unpackU8_packU8 b r)
    rwa [(hr.scalars s hs).1] at this
  · exact unpackVec_pack (g := (·.flatMap packUsize)) _ _
      (fun p hp r => unpackManyUsize_pack p r (hr.polynomials p hp).1 (hr.polynomials p hp).2) hr.lenPolynomials
      hc.polynomials
  · exact unpackVec_pack (g := (·.flatMap packUsize)) _ _
      (fun p hp r => unpackManyUsize_pack p r (hr.constraints p hp).1 (hr.constraints p hp).2) hr.lenConstraints
      hc.constraints

/-! ## 4. validation and the error classification of `fromPayload` -/

theorem decodeScalars_eq_some : ∀ {ss : List (List Nat)} {vs : List Nat},
    decodeScalars ss = some vs ↔ (∀ s ∈ ss, leNat s < R) ∧ vs = ss.map leNat
  | [], vs => by
    simp only [decodeScalars, Option.some.injEq, List.map_nil]
    constructor
    · rintro rfl; exact ⟨fun _ h => (by cases h), rfl⟩
    · rintro ⟨-, rfl⟩; rfl
  | s :: ss, vs => by
    simp only [decodeScalars, scalarOfBytes?]
    by_cases hs : leNat s < R
    · rw [if_pos hs]
      simp only [Option.map_eq_some_iff, List.map_cons]
      constructor
      · rintro ⟨ws, hw, rfl⟩
        obtain ⟨h1, rfl⟩ := decodeScalars_eq_some.1 hw
        refine ⟨?_, rfl⟩
        intro x hx
        rcases List.mem_cons.1 hx with rfl | hx
        · exact hs
        · exact h1 x hx
      · rintro ⟨h1, rfl⟩
        exact ⟨_, decodeScalars_eq_some.2 ⟨fun x hx => h1 x (List.mem_cons_of_mem _ hx), rfl⟩, rfl⟩
    · rw [if_neg hs]
      constructor
      · intro h; cases h
      · rintro ⟨h1, -⟩; exact absurd (h1 s (by simp)) hs

theorem decodeScalars_eq_none {ss : List (List Nat)} : decodeScalars ss = none ↔ ∃ s ∈ ss, R ≤ leNat s := by
  constructor
  · intro h
    by_cases hex : ∃ s ∈ ss, R ≤ leNat s
    · exact hex
    · have hall : ∀ s ∈ ss, leNat s < R := by
        intro s hs
        rcases Nat.lt_or_ge (leNat s) R with h1 | h1
        · exact h1
        · exact absurd ⟨s, hs, h1⟩ hex
      rw [decodeScalars_eq_some.2 ⟨hall, rfl⟩] at h; cases h
  · rintro ⟨s, hs, hle⟩
    cases h : decodeScalars ss with
    | none => rfl
    | some vs => have := (decodeScalars_eq_some.1 h).1 s hs; omega

/-- `validate_indices` together with the counts of the bounded reader is the structural validity of
    `Model/Compress.lean` -/
theorem shape_valid {c : PackedCircuit} {m base : Nat} (h1 : c.publicInputs.length ≤ m)
    (h2 : c.scalars.length ≤ m * Generated.SELECTORS_PER_POLYNOMIAL) (h3 : c.polynomials.length ≤ m)
    (h4 : c.constraints.length ≤ m) (hv : validateIndices c base = true) : c.shape.valid base m = true := by
  unfold validateIndices at hv
  unfold CompressedShape.valid PackedCircuit.shape
  simp only [Bool.and_eq_true, decide_eq_true_eq, List.length_map, List.all_map] at hv ⊢
  obtain ⟨⟨⟨v1, v2⟩, v3⟩, v4⟩ := hv
  refine ⟨⟨⟨⟨⟨⟨⟨h1, h3⟩, h4⟩, h2⟩, v1⟩, v2⟩, v3⟩, ?_⟩
  exact v4

theorem shape_valid_iff {c : PackedCircuit} {m base : Nat} : c.shape.valid base m = true ↔
    (c.publicInputs.length ≤ m ∧ c.scalars.length ≤ m * Generated.SELECTORS_PER_POLYNOMIAL ∧
     c.polynomials.length ≤ m ∧ c.constraints.length ≤ m) ∧ validateIndices c base = true := by
  unfold validateIndices CompressedShape.valid PackedCircuit.shape
  simp only [Bool.and_eq_true, decide_eq_true_eq, List.length_map, List.all_map]
  constructor
  · rintro ⟨⟨⟨⟨⟨⟨⟨h1, h3⟩, h4⟩, h2⟩, v1⟩, v2⟩, v3⟩, v4⟩
    exact ⟨⟨h1, h2, h3, h4⟩, ⟨⟨v1, v2⟩, v3⟩, v4⟩
  · rintro ⟨⟨h1, h2, h3, h4⟩, ⟨⟨v1, v2⟩, v3⟩, v4⟩
    exact ⟨⟨⟨⟨⟨⟨⟨h1, h3⟩, h4⟩, h2⟩, v1⟩, v2⟩, v3⟩, v4⟩

theorem fromPayload_eq_ok {bs : List Nat} {m : Nat} {comp : Composer} :
    fromPayload bs m = .ok comp ↔
      bs.length ≤ packedSizeLimit m ∧ ∃ c, unpackBounded bs m = some c ∧
        validateIndices c (baseScalars c.hades).length = true ∧ (∀ s ∈ c.scalars, leNat s < R) ∧
        comp = rebuild c (baseScalars c.hades ++ c.scalars.map leNat) := by
  unfold fromPayload
  by_cases hl : bs.length > packedSizeLimit m
  · rw [if_pos hl]
    constructor
    · intro h; cases h
    · rintro ⟨h, -⟩; omega
  rw [if_neg hl]
  cases hu : unpackBounded bs m with
  | none =>
    simp only
    constructor
    · intro h; cases h
    · rintro ⟨-, c, hc, -⟩; cases hc
  | some c =>
    simp only
    cases hv : validateIndices c (baseScalars c.hades).length with
    | false =>
      simp only [Bool.not_false, if_true]
      constructor
      · intro h; cases h
      · rintro ⟨-, c', hc, hv', -⟩
        cases hc
        rw [hv] at hv'; cases hv'
    | true =>
      simp only [Bool.not_true, Bool.false_eq_true, if_false]
      cases hd : decodeScalars c.scalars with
      | none =>
        simp only
        constructor
        · intro h; cases h
        · rintro ⟨-, c', hc, -, hs, -⟩
          cases hc
          rw [decodeScalars_eq_some.2 ⟨hs, rfl⟩] at hd; cases hd
      | some extra =>
        simp only
        obtain ⟨hs, rfl⟩ := decodeScalars_eq_some.1 hd
        constructor
        · intro h
          injection h with h
          exact ⟨by omega, c, rfl, hv, hs, h.symm⟩
        · rintro ⟨-, c', hc, -, -, rfl⟩
          cases hc
          rfl

theorem fromPayload_eq_error {bs : List Nat} {m : Nat} {e : PErr} :
    fromPayload bs m = .error e ↔
      (e = .invalid ∧ (bs.length > packedSizeLimit m ∨ unpackBounded bs m = none ∨
        ∃ c, unpackBounded bs m = some c ∧ validateIndices c (baseScalars c.hades).length = false)) ∨
      (e = .scalarMalformed ∧ bs.length ≤ packedSizeLimit m ∧
        ∃ c, unpackBounded bs m = some c ∧ validateIndices c (baseScalars c.hades).length = true ∧
          ∃ s ∈ c.scalars, R ≤ leNat s) := by
  unfold fromPayload
  by_cases hl : bs.length > packedSizeLimit m
  · rw [if_pos hl]
    constructor
    · intro h; injection h with h; exact Or.inl ⟨h.symm, Or.inl hl⟩
    · rintro (⟨rfl, -⟩ | ⟨-, h, -⟩)
      · rfl
      · omega
  rw [if_neg hl]
  cases hu : unpackBounded bs m with
  | none =>
    simp only
    constructor
    · intro h; injection h with h; exact Or.inl ⟨h.symm, Or.inr (Or.inl (by first | rfl | trivial))⟩
    · rintro (⟨rfl, -⟩ | ⟨-, -, c, hc, -⟩)
      · rfl
      · cases hc
  | some c =>
    simp only
    cases hv : validateIndices c (baseScalars c.hades).length with
    | false =>
      simp only [Bool.not_false, if_true]
      constructor
      · intro h; injection h with h; exact Or.inl ⟨h.symm, Or.inr (Or.inr ⟨c, rfl, hv⟩)⟩
      · rintro (⟨rfl, -⟩ | ⟨-, -, c', hc, hv', -⟩)
        · rfl
        · cases hc; rw [hv] at hv'; cases hv'
    | true =>
      simp only [Bool.not_true, Bool.false_eq_true, if_false]
      cases hd : decodeScalars c.scalars with
      | none =>
        simp only
        constructor
        · intro h; injection h with h
          exact Or.inr ⟨h.symm, by omega, c, rfl, hv, decodeScalars_eq_none.1 hd⟩
        · rintro (⟨-, h | h | ⟨c', hc, hv'⟩⟩ | ⟨rfl, -⟩)
          · exact absurd h hl
          · cases h
          · cases hc; rw [hv] at hv'; cases hv'
          · rfl
      | some extra =>
        simp only
        constructor
        · intro h; cases h
        · rintro (⟨-, h | h | ⟨c', hc, hv'⟩⟩ | ⟨-, -, c', hc, -, hs⟩)
          · exact absurd h hl
          · cases h
          · cases hc; rw [hv] at hv'; cases hv'
          · cases hc
            rw [decodeScalars_eq_none.2 hs] at hd; cases hd

/-! ## 5. the shape of `rebuild` -/

/-- the four `remap_witness` calls of one loop iteration -/
def remap4 (m : List (Nat × Nat)) (next : Nat) (k : List Nat) : List (Nat × Nat) × Nat × Nat × Nat × Nat × Nat :=
  let r1 := remapWitness m next (k.getD 1 0)
  let r2 := remapWitness r1.1 r1.2.1 (k.getD 2 0)
  let r3 := remapWitness r2.1 r2.2.1 (k.getD 3 0)
  let r4 := remapWitness r3.1 r3.2.1 (k.getD 4 0)
  (r4.1, r4.2.1, r1.2.2, r2.2.2, r3.2.2, r4.2.2)

/-- the gate assembled from the selector tuple `sel` -/
def selGate (sel : List Nat) (a b cc d : Nat) : Gate :=
  { qm := sel.getD 0 0, ql := sel.getD 1 0, qr := sel.getD 2 0, qo := sel.getD 3 0, qf := sel.getD 4 0,
    qc := sel.getD 5 0, qarith := sel.getD 6 0, qrange := sel.getD 7 0, qlogic := sel.getD 8 0,
    qfixed := sel.getD 9 0, qvar := sel.getD 10 0, a := a, b := b, c := cc, d := d }

/-- the selector tuple of constraint `k` -/
def selOf (c : PackedCircuit) (scalars : List Nat) (k : List Nat) : List Nat :=
  (c.polynomials.getD (k.getD 0 0) []).map fun j => scalars.getD j 0

/-- the public-input cursor of one loop iteration -/
def pisStep (pisLeft : List Nat) (pisOut : List (Nat × Nat)) (i : Nat) : List Nat × List (Nat × Nat) :=
  match pisLeft with
  | p :: rest => if p == i then (rest, pisOut ++ [(i, 0)]) else (pisLeft, pisOut)
  | [] => (pisLeft, pisOut)

/-- the loop body of `rebuild`, in projection form -/
def rebuildStep (c : PackedCircuit) (scalars : List Nat)
    (acc : List Gate × List (Nat × Nat) × Nat × List Nat × Nat × List (Nat × Nat)) (k : List Nat) :
    List Gate × List (Nat × Nat) × Nat × List Nat × Nat × List (Nat × Nat) :=
  let w := remap4 acc.2.1 acc.2.2.1 k
  (acc.1 ++ [selGate (selOf c scalars k) w.2.2.1 w.2.2.2.1 w.2.2.2.2.1 w.2.2.2.2.2], w.1, w.2.1,
   (pisStep acc.2.2.2.1 acc.2.2.2.2.2 acc.2.2.2.2.1).1, acc.2.2.2.2.1 + 1,
   (pisStep acc.2.2.2.1 acc.2.2.2.2.2 acc.2.2.2.2.1).2)

theorem rebuild_eq (c : PackedCircuit) (scalars : List Nat) : rebuild c scalars =
    { gates := (c.constraints.foldl (rebuildStep c scalars) ([], [], 0, c.publicInputs, 0, [])).1.toArray,
      wit := Array.replicate (c.constraints.foldl (rebuildStep c scalars) ([], [], 0, c.publicInputs, 0, [])).2.2.1 0,
      pis := (c.constraints.foldl (rebuildStep c scalars) ([], [], 0, c.publicInputs, 0, [])).2.2.2.2.2.toArray } := by
  rfl

/-- all labels handed out so far are below the counter -/
def MapBelow (m : List (Nat × Nat)) (next : Nat) : Prop := ∀ p ∈ m, p.2 < next

theorem remapWitness_below {m : List (Nat × Nat)} {next : Nat} (h : MapBelow m next) (w : Nat) :
    MapBelow (remapWitness m next w).1 (remapWitness m next w).2.1 ∧
    next ≤ (remapWitness m next w).2.1 ∧ (remapWitness m next w).2.1 ≤ next + 1 ∧
    (remapWitness m next w).2.2 < (remapWitness m next w).2.1 := by
  unfold remapWitness
  cases hf : m.find? (·.1 == w) with
  | some p =>
    obtain ⟨a, v⟩ := p
    have hv := h _ (List.mem_of_find?_eq_some hf)
    exact ⟨h, Nat.le_refl _, Nat.le_succ _, hv⟩
  | none =>
    refine ⟨?_, Nat.le_succ _, Nat.le_refl _, Nat.lt_succ_self _⟩
    intro p hp
    rcases List.mem_cons.1 hp with rfl | hp
    · exact Nat.lt_succ_self _
    · exact Nat.lt_succ_of_lt (h p hp)

theorem remap4_below {m : List (Nat × Nat)} {next : Nat} (h : MapBelow m next) (k : List Nat) :
    MapBelow (remap4 m next k).1 (remap4 m next k).2.1 ∧
    next ≤ (remap4 m next k).2.1 ∧ (remap4 m next k).2.1 ≤ next + 4 ∧
    (remap4 m next k).2.2.1 < (remap4 m next k).2.1 ∧ (remap4 m next k).2.2.2.1 < (remap4 m next k).2.1 ∧
    (remap4 m next k).2.2.2.2.1 < (remap4 m next k).2.1 ∧ (remap4 m next k).2.2.2.2.2 < (remap4 m next k).2.1 := by
  simp only [remap4]
  obtain ⟨i1, a1, b1, c1⟩ := remapWitness_below h (k.getD 1 0)
  generalize remapWitness m next (k.getD 1 0) = r1 at *
  obtain ⟨i2, a2, b2, c2⟩ := remapWitness_below i1 (k.getD 2 0)
  generalize remapWitness r1.1 r1.2.1 (k.getD 2 0) = r2 at *
  obtain ⟨i3, a3, b3, c3⟩ := remapWitness_below i2 (k.getD 3 0)
  generalize remapWitness r2.1 r2.2.1 (k.getD 3 0) = r3 at *
  obtain ⟨i4, a4, b4, c4⟩ := remapWitness_below i3 (k.getD 4 0)
  generalize remapWitness r3.1 r3.2.1 (k.getD 4 0) = r4 at *
  exact ⟨i4, by omega, by omega, by omega, by omega, by omega, c4⟩

/-- wires of a gate below a bound -/
def GateBelow (n : Nat) (g : Gate) : Prop := g.a < n ∧ g.b < n ∧ g.c < n ∧ g.d < n

/-- the part of the loop invariant that needs no validation: gate count, witness count, wire ranges -/
structure RebuildInv (st : List Gate × List (Nat × Nat) × Nat × List Nat × Nat × List (Nat × Nat)) : Prop where
  count : st.1.length = st.2.2.2.2.1
  below : MapBelow st.2.1 st.2.2.1
  wit : st.2.2.1 ≤ 4 * st.2.2.2.2.1
  wires : ∀ g ∈ st.1, GateBelow st.2.2.1 g

theorem rebuildStep_inv (c : PackedCircuit) (scalars : List Nat)
    {st : List Gate × List (Nat × Nat) × Nat × List Nat × Nat × List (Nat × Nat)} (h : RebuildInv st) (k : List Nat) :
    RebuildInv (rebuildStep c scalars st k) := by
  obtain ⟨i, a, b, w1, w2, w3, w4⟩ := remap4_below h.below k
  refine ⟨?_, i, ?_, ?_⟩
  · show (st.1 ++ [_]).length = st.2.2.2.2.1 + 1
    rw [List.length_append, h.count]; rfl
  · show (remap4 st.2.1 st.2.2.1 k).2.1 ≤ 4 * (st.2.2.2.2.1 + 1)
    have := h.wit; omega
  · intro g hg
    show GateBelow (remap4 st.2.1 st.2.2.1 k).2.1 g
    have hg : g ∈ st.1 ++ [_] := hg
    rcases List.mem_append.1 hg with hg | hg
    · obtain ⟨g1, g2, g3, g4⟩ := h.wires g hg
      exact ⟨by omega, by omega, by omega, by omega⟩
    · rw [List.mem_singleton.1 hg]
      exact ⟨w1, w2, w3, w4⟩

theorem rebuildFold_inv (c : PackedCircuit) (scalars : List Nat) : ∀ (ks : List (List Nat))
    (st : List Gate × List (Nat × Nat) × Nat × List Nat × Nat × List (Nat × Nat)), RebuildInv st →
    RebuildInv (ks.foldl (rebuildStep c scalars) st) ∧
    (ks.foldl (rebuildStep c scalars) st).2.2.2.2.1 = st.2.2.2.2.1 + ks.length
  | [], st, h => ⟨h, rfl⟩
  | k :: ks, st, h => by
    obtain ⟨h1, h2⟩ := rebuildFold_inv c scalars ks _ (rebuildStep_inv c scalars h k)
    refine ⟨h1, ?_⟩
    rw [List.foldl_cons, h2, List.length_cons]
    show st.2.2.2.2.1 + 1 + ks.length = _
    omega

theorem RebuildInv.init (pis : List Nat) : RebuildInv ([], [], 0, pis, 0, []) :=
  ⟨rfl, fun _ h => (by cases h), Nat.le_refl _, fun _ h => (by cases h)⟩

/-- gate count, witness count and wire ranges of the rebuilt composer, for ANY packed circuit and scalar table
    (no validation needed): the declared `witnesses` field plays no role -/
theorem rebuild_shape (c : PackedCircuit) (scalars : List Nat) :
    (rebuild c scalars).gates.size = c.constraints.length ∧
    (rebuild c scalars).wit.size ≤ 4 * c.constraints.length ∧
    (∀ v ∈ (rebuild c scalars).wit.toList, v = 0) ∧
    (∀ g ∈ (rebuild c scalars).gates.toList, GateBelow (rebuild c scalars).wit.size g) := by
  obtain ⟨h, hi⟩ := rebuildFold_inv c scalars c.constraints _ (RebuildInv.init c.publicInputs)
  rw [rebuild_eq]
  generalize c.constraints.foldl (rebuildStep c scalars) ([], [], 0, c.publicInputs, 0, []) = st at h hi
  simp only [List.size_toArray, Array.size_replicate, Array.toList_replicate, Nat.zero_add] at hi ⊢
  refine ⟨by rw [h.count, hi], by have := h.wit; omega, ?_, h.wires⟩
  intro v hv
  exact (List.mem_replicate.1 hv).2

/-! ### public-input rows -/

theorem chain_pairwise : ∀ (l : List Nat), (l.zip l.tail).all (fun (a, b) => decide (a < b)) = true →
    l.Pairwise (· < ·)
  | [] => fun _ => List.Pairwise.nil
  | [a] => fun _ => List.pairwise_singleton _ _
  | a :: b :: t => by
    intro h
    simp only [List.tail_cons, List.zip_cons_cons, List.all_cons, Bool.and_eq_true, decide_eq_true_eq] at h
    have ih := chain_pairwise (b :: t) (by simpa using h.2)
    refine List.Pairwise.cons ?_ ih
    intro x hx
    rcases List.mem_cons.1 hx with rfl | hx
    · exact h.1
    · have := (List.pairwise_cons.1 ih).1 x hx
      omega

/-- what `validate_indices` says about the public-input rows -/
theorem validateIndices_pis {c : PackedCircuit} {base : Nat} (h : validateIndices c base = true) :
    (∀ p ∈ c.publicInputs, p < c.constraints.length) ∧ c.publicInputs.Pairwise (· < ·) := by
  unfold validateIndices at h
  simp only [Bool.and_eq_true] at h
  obtain ⟨⟨⟨v1, v2⟩, -⟩, -⟩ := h
  exact ⟨by simpa using v1, chain_pairwise _ v2⟩

/-- the cursor invariant: rows already emitted (with value 0) are below the row counter, rows still pending are
    at or above it -/
structure PisInv (pis : List Nat) (st : List Gate × List (Nat × Nat) × Nat × List Nat × Nat × List (Nat × Nat)) :
    Prop where
  split : pis = st.2.2.2.2.2.map (·.1) ++ st.2.2.2.1
  out : ∀ q ∈ st.2.2.2.2.2, q.2 = 0 ∧ q.1 < st.2.2.2.2.1
  left : ∀ p ∈ st.2.2.2.1, st.2.2.2.2.1 ≤ p

theorem rebuildStep_pis (c : PackedCircuit) (scalars : List Nat) {pis : List Nat} (hp : pis.Pairwise (· < ·))
    {st : List Gate × List (Nat × Nat) × Nat × List Nat × Nat × List (Nat × Nat)} (h : PisInv pis st) (k : List Nat) :
    PisInv pis (rebuildStep c scalars st k) := by
  obtain ⟨gs, m, next, pl, i, po⟩ := st
  obtain ⟨hs, ho, hl⟩ := h
  simp only at hs ho hl
  cases pl with
  | nil =>
    refine ⟨hs, ?_, fun _ hq => (by cases hq)⟩
    intro q hq
    have := ho q hq
    exact ⟨this.1, Nat.lt_succ_of_lt this.2⟩
  | cons p rest =>
    have hpr : (p :: rest).Pairwise (· < ·) := by
      rw [hs] at hp; exact (List.pairwise_append.1 hp).2.1
    have hrest : ∀ q ∈ rest, p < q := (List.pairwise_cons.1 hpr).1
    have hpi := hl p (by simp)
    by_cases e : p = i
    · subst e
      have hstep : pisStep (p :: rest) po p = (rest, po ++ [(p, 0)]) := by simp [pisStep]
      refine ⟨?_, ?_, ?_⟩
      · show pis = (pisStep (p :: rest) po p).2.map (·.1) ++ (pisStep (p :: rest) po p).1
        rw [hstep, hs]; simp
      · show ∀ q ∈ (pisStep (p :: rest) po p).2, q.2 = 0 ∧ q.1 < p + 1
        rw [hstep]
        intro q hq
        rcases List.mem_append.1 hq with hq | hq
        · have := ho q hq; exact ⟨this.1, Nat.lt_succ_of_lt this.2⟩
        · rw [List.mem_singleton.1 hq]; exact ⟨rfl, Nat.lt_succ_self _⟩
      · show ∀ q ∈ (pisStep (p :: rest) po p).1, p + 1 ≤ q
        rw [hstep]
        exact fun q hq => hrest q hq
    · have hstep : pisStep (p :: rest) po i = (p :: rest, po) := by simp [pisStep, e]
      refine ⟨?_, ?_, ?_⟩
      · show pis = (pisStep (p :: rest) po i).2.map (·.1) ++ (pisStep (p :: rest) po i).1
        rw [hstep, hs]
      · show ∀ q ∈ (pisStep (p :: rest) po i).2, q.2 = 0 ∧ q.1 < i + 1
        rw [hstep]
        intro q hq
        have := ho q hq; exact ⟨this.1, Nat.lt_succ_of_lt this.2⟩
      · show ∀ q ∈ (pisStep (p :: rest) po i).1, i + 1 ≤ q
        rw [hstep]
        intro q hq
        rcases List.mem_cons.1 hq with rfl | hq
        · omega
        · have := hrest q hq; omega

theorem rebuildFold_pis (c : PackedCircuit) (scalars : List Nat) {pis : List Nat} (hp : pis.Pairwise (· < ·)) :
    ∀ (ks : List (List Nat)) (st : List Gate × List (Nat × Nat) × Nat × List Nat × Nat × List (Nat × Nat)),
      PisInv pis st → PisInv pis (ks.foldl (rebuildStep c scalars) st)
  | [], _, h => h
  | k :: ks, _, h => rebuildFold_pis c scalars hp ks _ (rebuildStep_pis c scalars hp h k)

/-- with strictly increasing rows below the constraint count (as `validate_indices` demands) the rebuilt
    composer carries a zero-valued public input on exactly the listed rows, in order -/
theorem rebuild_pis (c : PackedCircuit) (scalars : List Nat) (hlt : ∀ p ∈ c.publicInputs, p < c.constraints.length)
    (hp : c.publicInputs.Pairwise (· < ·)) :
    (rebuild c scalars).pis.toList = c.publicInputs.map fun r => (r, 0) := by
  have h0 : PisInv c.publicInputs ([], [], 0, c.publicInputs, 0, []) :=
    ⟨rfl, fun _ h => (by cases h), fun _ _ => Nat.zero_le _⟩
  have h := rebuildFold_pis c scalars hp c.constraints _ h0
  obtain ⟨-, hi⟩ := rebuildFold_inv c scalars c.constraints _ (RebuildInv.init c.publicInputs)
  rw [rebuild_eq]
  generalize c.constraints.foldl (rebuildStep c scalars) ([], [], 0, c.publicInputs, 0, []) = st at h hi
  obtain ⟨gs, m, next, pl, i, po⟩ := st
  obtain ⟨hs, ho, hl⟩ := h
  simp only [Nat.zero_add] at hs ho hl hi ⊢
  have hnil : pl = [] := by
    cases pl with
    | nil => rfl
    | cons p rest =>
      have h1 := hl p (by simp)
      have h2 := hlt p (by rw [hs]; simp)
      omega
  subst hnil
  rw [List.append_nil] at hs
  rw [hs, List.map_map]
  have : ∀ q ∈ po, q = ((fun r => (r, 0)) ∘ (·.1)) q := by
    intro q hq
    obtain ⟨a, b⟩ := q
    have := (ho _ hq).1
    simp only at this
    subst this
    rfl
  exact ((List.map_congr_left this).symm.trans (List.map_id' _)).symm

/-! ## 6. canonical scalars: the built-in dictionary and the rebuilt selectors -/

theorem R_pos : 0 < R := by decide

theorem foldl_inv {α β : Type} (P : β → Prop) (f : β → α → β) (h : ∀ b a, P b → P (f b a)) :
    ∀ (l : List α) (b : β), P b → P (l.foldl f b)
  | [], _, hb => hb
  | a :: l, b, hb => foldl_inv P f h l (f b a) (h b a hb)

theorem powModF_lt (m : Nat) (hm : 0 < m) : ∀ (fuel b e acc : Nat), acc < m → powModF fuel b e m acc < m
  | 0, _, _, _, h => by simpa [powModF] using h
  | fuel + 1, b, e, acc, h => by
    unfold powModF
    by_cases he : e = 0
    · rw [if_pos he]; exact h
    · rw [if_neg he]
      apply powModF_lt m hm fuel
      by_cases h2 : e % 2 = 1
      · rw [if_pos h2]; exact Nat.mod_lt _ hm
      · rw [if_neg h2]; exact h

theorem finv_lt (a : Nat) : finv a < R := powModF_lt R R_pos _ _ _ _ (Nat.mod_lt _ R_pos)

theorem dictInsert_forall {P : Nat → Prop} {tbl : List Nat} {k : Nat} (ht : ∀ x ∈ tbl, P x) (hk : P k) :
    ∀ x ∈ (dictInsert tbl k).1, P x := by
  unfold dictInsert
  cases tbl.findIdx? (· == k) with
  | some i => exact ht
  | none =>
    intro x hx
    rcases List.mem_append.1 hx with hx | hx
    · exact ht x hx
    · rw [List.mem_singleton.1 hx]; exact hk

theorem dictInsert_length_le (tbl : List Nat) (k : Nat) : (dictInsert tbl k).1.length ≤ tbl.length + 1 := by
  unfold dictInsert
  cases tbl.findIdx? (· == k) with
  | some i => exact Nat.le_succ _
  | none => simp

theorem orInsertAll_forall {P : Nat → Prop} : ∀ (xs tbl : List Nat), (∀ x ∈ tbl, P x) → (∀ x ∈ xs, P x) →
    ∀ x ∈ orInsertAll tbl xs, P x
  | [], _, ht, _ => ht
  | k :: xs, tbl, ht, hx =>
    orInsertAll_forall xs (dictInsert tbl k).1 (dictInsert_forall ht (hx k (by simp)))
      (fun y hy => hx y (List.mem_cons_of_mem _ hy))

theorem orInsertAll_length_le : ∀ (xs tbl : List Nat), (orInsertAll tbl xs).length ≤ tbl.length + xs.length
  | [], _ => Nat.le_refl _
  | k :: xs, tbl => by
    have h1 := orInsertAll_length_le xs (dictInsert tbl k).1
    have h2 := dictInsert_length_le tbl k
    show (orInsertAll (dictInsert tbl k).1 xs).length ≤ _
    rw [List.length_cons]; omega

theorem hadesConstants_lt : ∀ x ∈ hadesConstants, x < R := by
  unfold hadesConstants
  intro x hx
  rw [List.mem_reverse] at hx
  revert x
  apply foldl_inv (fun (acc : List Nat × Nat × List Nat) => ∀ x ∈ acc.2.2, x < R)
  · rintro ⟨bytes, p, out⟩ _ h x hx
    rcases List.mem_cons.1 hx with rfl | hx
    · exact Nat.mod_lt _ R_pos
    · exact h x hx
  · intro x hx; cases hx

theorem hadesConstants_length : hadesConstants.length = 335 := by
  unfold hadesConstants
  rw [List.length_reverse]
  have : ∀ (l : List Nat) (b : List Nat × Nat × List Nat),
      (l.foldl (fun (acc : List Nat × Nat × List Nat) (_ : Nat) =>
        let (bytes, p, out) := acc
        let d := Sha512.sha512 bytes
        let c := (leNat d + p) % R
        (d, c, c :: out)) b).2.2.length = b.2.2.length + l.length := by
    intro l
    induction l with
    | nil => intro b; rfl
    | cons a l ih =>
      rintro ⟨bytes, p, out⟩
      rw [List.foldl_cons, ih]
      simp only [List.length_cons]; omega
  rw [this]
  simp

theorem hadesMds_lt : ∀ x ∈ hadesMds, x < R := by
  unfold hadesMds
  intro x hx
  simp only [List.mem_flatMap, List.mem_map] at hx
  obtain ⟨i, -, j, -, rfl⟩ := hx
  exact finv_lt _

theorem hadesMds_length : hadesMds.length = 25 := by
  simp only [hadesMds, List.length_flatMap, List.length_map, List.length_range]
  decide

/-- every entry of the built-in dictionary is a canonical scalar -/
theorem baseScalars_lt (hades : Bool) : ∀ x ∈ baseScalars hades, x < R := by
  have hb : ∀ x ∈ [0, 1, R - 1], x < R := by
    intro x hx
    simp only [List.mem_cons, List.mem_nil_iff, or_false] at hx
    rcases hx with rfl | rfl | rfl
    · exact R_pos
    · decide
    · exact Nat.sub_lt R_pos (by decide)
  unfold baseScalars
  cases hades with
  | false => exact hb
  | true =>
    simp only [if_true]
    exact orInsertAll_forall _ _ (orInsertAll_forall _ _ hb hadesConstants_lt) hadesMds_lt

/-- the built-in dictionary has at most `3 + 335 + 25` entries -/
theorem baseScalars_length_le (hades : Bool) : (baseScalars hades).length ≤ 363 := by
  unfold baseScalars
  cases hades with
  | false => simp
  | true =>
    simp only [if_true]
    have h1 := orInsertAll_length_le hadesMds (orInsertAll [0, 1, R - 1] hadesConstants)
    have h2 := orInsertAll_length_le hadesConstants [0, 1, R - 1]
    rw [hadesMds_length] at h1
    rw [hadesConstants_length] at h2
    simp only [List.length_cons, List.length_nil] at h2
    omega

/-- all eleven selectors canonical -/
def GateCanon (g : Gate) : Prop := ∀ s ∈ gateSelectors g, s < R

theorem selGate_canon {scalars : List Nat} (hs : ∀ x ∈ scalars, x < R) (c : PackedCircuit) (k : List Nat)
    (a b cc d : Nat) : GateCanon (selGate (selOf c scalars k) a b cc d) := by
  have hsel : ∀ i, (selOf c scalars k).getD i 0 < R := by
    intro i
    rw [List.getD_eq_getElem?_getD]
    cases h : (selOf c scalars k)[i]? with
    | none => exact R_pos
    | some v =>
      have hv := List.mem_of_getElem? h
      unfold selOf at hv
      obtain ⟨j, -, rfl⟩ := List.mem_map.1 hv
      show scalars.getD j 0 < R
      rw [List.getD_eq_getElem?_getD]
      cases h2 : scalars[j]? with
      | none => exact R_pos
      | some w => exact hs w (List.mem_of_getElem? h2)
  intro s hs'
  simp only [gateSelectors, selGate, List.mem_cons, List.mem_nil_iff, or_false] at hs'
  rcases hs' with rfl | rfl | rfl | rfl | rfl | rfl | rfl | rfl | rfl | rfl | rfl <;> exact hsel _

theorem rebuild_canon (c : PackedCircuit) {scalars : List Nat} (hs : ∀ x ∈ scalars, x < R) :
    ∀ g ∈ (rebuild c scalars).gates.toList, GateCanon g := by
  rw [rebuild_eq]
  simp only
  apply foldl_inv (fun (st : List Gate × List (Nat × Nat) × Nat × List Nat × Nat × List (Nat × Nat)) =>
    ∀ g ∈ st.1, GateCanon g) (rebuildStep c scalars)
  · intro st k h g hg
    have hg : g ∈ st.1 ++ [_] := hg
    rcases List.mem_append.1 hg with hg | hg
    · exact h g hg
    · rw [List.mem_singleton.1 hg]; exact selGate_canon hs c k _ _ _ _
  · intro g hg; cases hg

/-! ## 7. the size of the canonical encoding against the inflate limit -/

theorem packUsize_length_le (v : Nat) : (packUsize v).length ≤ 9 := by
  unfold packUsize
  split
  · simp
  split
  · simp
  split
  · simp [beBytes_length]
  split
  · simp [beBytes_length]
  · simp [beBytes_length]

theorem packU8_length_le (v : Nat) : (packU8 v).length ≤ 2 := by
  unfold packU8; split <;> simp

theorem packArrayLen_length_le (v : Nat) : (packArrayLen v).length ≤ 5 := by
  unfold packArrayLen
  split
  · simp
  split
  · simp [beBytes_length]
  · simp [beBytes_length]

theorem flatMap_length_le {α : Type} (g : α → List Nat) (k : Nat) :
    ∀ (xs : List α), (∀ x ∈ xs, (g x).length ≤ k) → (xs.flatMap g).length ≤ xs.length * k
  | [], _ => by simp
  | x :: xs, h => by
    rw [List.flatMap_cons, List.length_append, List.length_cons, Nat.succ_mul]
    have h1 := h x (by simp)
    have h2 := flatMap_length_le g k xs (fun y hy => h y (List.mem_cons_of_mem _ hy))
    omega

/-- the canonical encoding of a description within capacity `m` never exceeds the inflate limit of
    `from_bytes` (the constants `857` and `30` of the crate are sufficient) -/
theorem pack_length_le {c : PackedCircuit} {m : Nat} (hs : ∀ s ∈ c.scalars, s.length = 32)
    (hp : ∀ p ∈ c.polynomials, p.length = 11) (hk : ∀ k ∈ c.constraints, k.length = 5)
    (hc : WithinCapacity c m) : (pack c).length ≤ packedSizeLimit m := by
  have e1 := flatMap_length_le packUsize 9 c.publicInputs (fun x _ => packUsize_length_le x)
  have e2 := flatMap_length_le (·.flatMap packU8) 64 c.scalars (fun s h => by
    have := flatMap_length_le packU8 2 s (fun x _ => packU8_length_le x)
    rw [hs s h] at this; exact this)
  have e3 := flatMap_length_le (·.flatMap packUsize) 99 c.polynomials (fun s h => by
    have := flatMap_length_le packUsize 9 s (fun x _ => packUsize_length_le x)
    rw [hp s h] at this; exact this)
  have e4 := flatMap_length_le (·.flatMap packUsize) 45 c.constraints (fun s h => by
    have := flatMap_length_le packUsize 9 s (fun x _ => packUsize_length_le x)
    rw [hk s h] at this; exact this)
  have a1 := packArrayLen_length_le c.publicInputs.length
  have a2 := packArrayLen_length_le c.scalars.length
  have a3 := packArrayLen_length_le c.polynomials.length
  have a4 := packArrayLen_length_le c.constraints.length
  have a5 := packUsize_length_le c.witnesses
  obtain ⟨c1, c2, c3, c4⟩ := hc
  unfold packedSizeLimit
  simp only [Generated.PACKED_BYTES_PER_CONSTRAINT, Generated.PACKED_FIXED_BYTES,
    Generated.SELECTORS_PER_POLYNOMIAL] at c2 ⊢
  simp only [pack, List.length_append, packBool, List.length_singleton]
  omega

/-! ## 8. the capacity only gates: it never changes what is read -/

theorem unpackVec_bound_irrel {α : Type} {f : List Nat → Option (α × List Nat)} {m m' : Nat} {bs r r' : List Nat}
    {v v' : List α} (h : unpackVec f m bs = some (v, r)) (h' : unpackVec f m' bs = some (v', r')) :
    v = v' ∧ r = r' := by
  obtain ⟨len, r0, h0, -, h1⟩ := unpackVec_eq_some.1 h
  obtain ⟨len', r0', h0', -, h1'⟩ := unpackVec_eq_some.1 h'
  rw [h0] at h0'
  simp only [Option.some.injEq, Prod.mk.injEq] at h0'
  obtain ⟨rfl, rfl⟩ := h0'
  rw [h1] at h1'
  simp only [Option.some.injEq, Prod.mk.injEq] at h1'
  exact h1'

/-- the same bytes read under two capacities give the same description -/
theorem unpackBounded_bound_irrel {bs : List Nat} {m m' : Nat} {c c' : PackedCircuit}
    (h : unpackBounded bs m = some c) (h' : unpackBounded bs m' = some c') : c = c' := by
  obtain ⟨r1, r2, r3, r4, r5, h1, h2, h3, h4, h5, h6⟩ := unpackBounded_eq_some.1 h
  obtain ⟨s1, s2, s3, s4, s5, g1, g2, g3, g4, g5, g6⟩ := unpackBounded_eq_some.1 h'
  rw [h1] at g1
  simp only [Option.some.injEq, Prod.mk.injEq] at g1
  obtain ⟨e1, rfl⟩ := g1
  obtain ⟨e2, rfl⟩ := unpackVec_bound_irrel h2 g2
  rw [h3] at g3
  simp only [Option.some.injEq, Prod.mk.injEq] at g3
  obtain ⟨e3, rfl⟩ := g3
  obtain ⟨e4, rfl⟩ := unpackVec_bound_irrel h4 g4
  obtain ⟨e5, rfl⟩ := unpackVec_bound_irrel h5 g5
  obtain ⟨e6, -⟩ := unpackVec_bound_irrel h6 g6
  cases c; cases c'
  simp only at e1 e2 e3 e4 e5 e6
  subst e1 e2 e3 e4 e5 e6
  rfl

end Plonk.PackedLemmas
