/-
  Tie by TRANSLATION, second translator: `Plonk/GeneratedComposer.lean` is regenerated from the Rust sources of the
  composer gadgets (`src/composer.rs`, `src/composer/{bits,select,point}.rs`,
  `src/composer/constraint_system/{constraint,witness,ecc}.rs`) by `tools/rs2lean_composer.py` on every run.
  The theorems below state that every translated function IS the hand-written model function of
  `Plonk/Model/{Gate,Composer}.lean` that all gadget theorems (C07–C14) are about.  A changed coefficient, a dropped or
  added builder call, a swapped wire, a reordered gate or witness, a different selector index changes the generated
  definition and breaks the corresponding proof.
-/
import Plonk.GeneratedComposer
import Plonk.Proofs.ComposerSourceHost

set_option linter.unusedVariables false

namespace Plonk.ComposerSource
open Plonk Plonk.Composer Plonk.GeneratedComposer

/-! ### the prelude of the translator is sound for the source at hand -/

/-- the Montgomery constant of the prelude is `2^-256 mod r` -/
theorem mont_rinv_ok : (2 ^ 256 * MONT_RINV) % R = 1 := by decide +kernel

/-- the array view is faithful: `Selector` discriminants are exactly `0..COEFFICIENTS-1`, so no access is out of bounds
    and distinct selectors address distinct slots -/
theorem selector_slots : Selector.all.map Selector.toNat = List.range RConstraint.COEFFICIENTS := by decide
theorem selector_all (r : Selector) : r ∈ Selector.all := by cases r <;> decide
theorem wire_slots : WiredWitness.all.map WiredWitness.toNat = List.range RConstraint.WITNESSES := by decide
theorem wire_all (r : WiredWitness) : r ∈ WiredWitness.all := by cases r <;> decide

theorem coeffSet_toNat (s : Constraint) (r : Selector) (v : Nat) :
    coeffSet s (Selector.toNat r) v = setSel s v r := by cases r <;> rfl
theorem coeffGet_toNat (s : Constraint) (r : Selector) :
    coeffGet s (Selector.toNat r) = getSel s r := by cases r <;> rfl
theorem witSet_toNat (s : Constraint) (r : WiredWitness) (v : Nat) :
    witSet s (WiredWitness.toNat r) v = setWire s v r := by cases r <;> rfl
theorem witGet_toNat (s : Constraint) (r : WiredWitness) :
    witGet s (WiredWitness.toNat r) = getWire s r := by cases r <;> rfl

/-! ### witness.rs / ecc.rs: the newtypes are erased -/

theorem witness_new_eq (i : Nat) : RWitness.new i = i := rfl
theorem witness_index_eq (w : Nat) : RWitness.index w = w := rfl
theorem witness_consts : RWitness.ZERO = 0 ∧ RWitness.ONE = 1 ∧ RComposer.ZERO = Composer.ZERO ∧ RComposer.ONE = Composer.ONE :=
  ⟨rfl, rfl, rfl, rfl⟩
theorem witness_point_eq (x y : Nat) (p : Pt) :
    RWitnessPoint.new x y = (x, y) ∧ RWitnessPoint.x p = p.1 ∧ RWitnessPoint.y p = p.2 ∧
    RTorsionFreeWitnessPoint.new_unchecked p = p ∧ RTorsionFreeWitnessPoint.x p = p.1 ∧
    RTorsionFreeWitnessPoint.y p = p.2 ∧ RWitnessPoint.from_ p = p := ⟨rfl, rfl, rfl, rfl, rfl, rfl, rfl⟩

/-! ### constraint.rs -/

theorem new_eq : RConstraint.new = ({} : Constraint) := by decide
theorem default_eq : RConstraint.default_ = ({} : Constraint) := by decide
theorem has_public_input_eq (s : Constraint) : RConstraint.has_public_input s = s.hasPi := rfl
theorem set_eq (s : Constraint) (r : Selector) (v : Nat) : RConstraint.set s r v = setSel s (v % R) r :=
  coeffSet_toNat s r _
theorem set_witness_eq (s : Constraint) (r : WiredWitness) (w : Nat) : RConstraint.set_witness s r w = setWire s w r :=
  witSet_toNat s r w
theorem coeff_eq (s : Constraint) (r : Selector) : RConstraint.coeff s r = getSel s r := coeffGet_toNat s r
theorem witness_eq (s : Constraint) (r : WiredWitness) : RConstraint.witness s r = getWire s r := witGet_toNat s r

theorem mult_eq (s : Constraint) (v : Nat) : RConstraint.mult s v = { s with qm := v % R } := rfl
theorem left_eq (s : Constraint) (v : Nat) : RConstraint.left s v = { s with ql := v % R } := rfl
theorem right_eq (s : Constraint) (v : Nat) : RConstraint.right s v = { s with qr := v % R } := rfl
theorem output_eq (s : Constraint) (v : Nat) : RConstraint.output s v = { s with qo := v % R } := rfl
theorem fourth_eq (s : Constraint) (v : Nat) : RConstraint.fourth s v = { s with qf := v % R } := rfl
theorem constant_eq (s : Constraint) (v : Nat) : RConstraint.constant_ s v = { s with qc := v % R } := rfl
theorem public_eq (s : Constraint) (v : Nat) : RConstraint.public_ s v = { s with pi := v % R, hasPi := true } := rfl
theorem a_eq (s : Constraint) (w : Nat) : RConstraint.a s w = { s with a := w } := rfl
theorem b_eq (s : Constraint) (w : Nat) : RConstraint.b s w = { s with b := w } := rfl
theorem c_eq (s : Constraint) (w : Nat) : RConstraint.c s w = { s with c := w } := rfl
theorem d_eq (s : Constraint) (w : Nat) : RConstraint.d s w = { s with d := w } := rfl

theorem foldl_congr_mem {α β : Type} (f g : α → β → α) (l : List β) (a : α)
    (h : ∀ acc, ∀ i ∈ l, f acc i = g acc i) : l.foldl f a = l.foldl g a := by
  induction l generalizing a with
  | nil => rfl
  | cons x xs ih =>
    simp only [List.foldl_cons]
    rw [h a x (by simp)]
    exact ih _ (fun acc i hi => h acc i (by simp [hi]))

/-- `dst[..n].copy_from_slice(&src[..n])` copies slot by slot -/
theorem copy_prefix (dst src : Constraint) (n : Nat) :
    coeffPrefixSet dst n (coeffPrefix src n)
      = (List.range n).foldl (fun acc i => coeffSet acc i (coeffGet src i)) dst := by
  unfold coeffPrefixSet coeffPrefix
  apply foldl_congr_mem
  intro acc i hi
  have : i < n := List.mem_range.mp hi
  simp [List.getD, this]

/-- the slots below `Selector::Arithmetic` are the seven external coefficients -/
theorem copy_external (s : Constraint) :
    (List.range (Selector.toNat Selector.Arithmetic)).foldl (fun acc i => coeffSet acc i (coeffGet s i))
        RConstraint.default_
      = { qm := s.qm, ql := s.ql, qr := s.qr, qo := s.qo, qf := s.qf, qc := s.qc, pi := s.pi } := rfl

theorem witsCopy_eq (dst src : Constraint) :
    witsCopy dst src = { dst with a := src.a, b := src.b, c := src.c, d := src.d } := rfl

theorem from_external_eq : RConstraint.from_external = Constraint.fromExternal := by
  funext s
  unfold RConstraint.from_external
  simp only [copy_prefix, copy_external, witsCopy_eq]
  rfl

theorem arithmetic_eq : RConstraint.arithmetic = Constraint.arithmetic := by
  funext s; unfold RConstraint.arithmetic; rw [from_external_eq]; rfl
theorem range_eq : RConstraint.range = Constraint.range := by
  funext s; unfold RConstraint.range; rw [from_external_eq]; rfl
theorem logic_eq : RConstraint.logic = Constraint.logic := by
  funext s; unfold RConstraint.logic; rw [from_external_eq]; rfl
theorem logic_xor_eq : RConstraint.logic_xor = Constraint.logicXor := by
  funext s; unfold RConstraint.logic_xor; rw [from_external_eq]; rfl
theorem group_add_fixed_base_eq : RConstraint.group_add_fixed_base = Constraint.groupAddFixedBase := by
  funext s; unfold RConstraint.group_add_fixed_base; rw [from_external_eq]; rfl
theorem group_add_variable_base_eq : RConstraint.group_add_variable_base = Constraint.groupAddVariableBase := by
  funext s; unfold RConstraint.group_add_variable_base; rw [from_external_eq]; rfl

/-! ### composer.rs -/

theorem index_eq : RComposer.index = getVal := rfl
theorem append_witness_internal_eq (v : Nat) (c : Composer) :
    (RComposer.append_witness_internal v).run c = (c.wit.size, { c with wit := c.wit.push v }) := rfl
theorem append_witness_eq : RComposer.append_witness = appendWitness := rfl
theorem uninitialized_eq : RComposer.uninitialized = ({} : Composer) := rfl

theorem append_custom_gate_internal_eq : RComposer.append_custom_gate_internal = appendCustomGate := by
  funext s c
  cases s with
  | mk qm ql qr qo qf qc pi qarith qrange qlogic qfixed qvar a b c d hasPi => cases hasPi <;> rfl

theorem append_custom_gate_eq : RComposer.append_custom_gate = appendCustomGate := by
  funext s; unfold RComposer.append_custom_gate; rw [append_custom_gate_internal_eq]

theorem append_gate_eq : RComposer.append_gate = appendGate := by
  funext s; unfold RComposer.append_gate appendGate; rw [append_custom_gate_eq, arithmetic_eq]

/-- the fast-path constant of `append_evaluated_output` (raw Montgomery limbs in the source) is `-1` -/
theorem minus_one_limbs :
    fromMontLimbs [0xfffffffd00000003, 0xfb38ec08fffb13fc, 0x99ad88181ce5880f, 0x5bc8f5f97cd877d8] = R - 1 := by
  decide +kernel

theorem append_evaluated_output_eq : RComposer.append_evaluated_output = appendEvaluatedOutput := by
  funext s
  unfold RComposer.append_evaluated_output appendEvaluatedOutput
  simp only [index_eq, append_witness_eq, append_gate_eq, coeff_eq, witness_eq, getSel, getWire, minus_one_limbs, intoScalar]
  apply bind_congr; intro a
  apply bind_congr; intro b
  apply bind_congr; intro d
  generalize (if (s.qo == 1 % R) = true then _ else _ : Option Nat) = c?
  cases c? <;> rfl

theorem assert_equal_eq : RComposer.assert_equal = assertEqual := by
  funext a b; unfold RComposer.assert_equal assertEqual; rw [append_gate_eq]; rfl

theorem assert_equal_constant_eq : RComposer.assert_equal_constant = assertEqualConstant := by
  funext a c p
  unfold RComposer.assert_equal_constant assertEqualConstant
  rw [append_gate_eq]
  simp only [constant_eq, intoScalar, Nat.mod_mod]
  cases p <;> rfl

theorem gate_add_eq : RComposer.gate_add = gateAdd := by
  funext s
  unfold RComposer.gate_add gateAdd
  rw [append_evaluated_output_eq, arithmetic_eq]
  apply bind_congr; intro t
  cases t <;> rfl

theorem gate_mul_eq : RComposer.gate_mul = gateMul := by
  funext s
  unfold RComposer.gate_mul gateMul gateAdd
  rw [append_evaluated_output_eq, arithmetic_eq]
  apply bind_congr; intro t
  cases t <;> rfl

theorem appendWitness_mod (v : Nat) : appendWitness (v % R) = appendWitness v := by
  funext c; simp only [appendWitness, Nat.mod_mod]
theorem assertEqualConstant_mod (a v : Nat) (p : Option Nat) :
    assertEqualConstant a (v % R) p = assertEqualConstant a v p := by
  unfold assertEqualConstant; simp only [Nat.mod_mod]

theorem append_constant_eq : RComposer.append_constant = appendConstant := by
  funext v
  unfold RComposer.append_constant appendConstant
  rw [append_witness_eq, assert_equal_constant_eq]
  simp only [intoScalar, appendWitness_mod, assertEqualConstant_mod]

theorem append_public_eq : RComposer.append_public = appendPublic := by
  funext v
  unfold RComposer.append_public appendPublic
  rw [append_witness_eq, append_gate_eq]
  simp only [intoScalar, appendWitness_mod, public_eq, Nat.mod_mod]
  rfl

theorem append_dummy_gates_eq : RComposer.append_dummy_gates = appendDummyGates := by
  unfold RComposer.append_dummy_gates appendDummyGates
  rw [append_witness_eq, append_gate_eq]
  rfl

theorem initialized_eq : RComposer.initialized = Composer.initialized := by
  unfold RComposer.initialized Composer.initialized
  rw [append_witness_eq, assert_equal_constant_eq, append_dummy_gates_eq, uninitialized_eq]


/-! ### bits.rs / select.rs -/

theorem component_boolean_eq : RComposer.component_boolean = componentBoolean := by
  funext a; unfold RComposer.component_boolean componentBoolean; rw [append_gate_eq]; rfl

theorem component_select_eq : RComposer.component_select = componentSelect := by
  funext bit a b; unfold RComposer.component_select componentSelect; rw [gate_mul_eq, gate_add_eq]; rfl

theorem component_select_one_eq : RComposer.component_select_one = componentSelectOne := by
  funext bit v; unfold RComposer.component_select_one componentSelectOne
  rw [index_eq, append_witness_eq, append_gate_eq]; rfl

theorem component_select_zero_eq : RComposer.component_select_zero = componentSelectZero := by
  funext bit v; unfold RComposer.component_select_zero componentSelectZero; rw [gate_mul_eq]; rfl

/-! ### point.rs -/

theorem eight_inv_eq : EIGHT_INV = Generated.EIGHT_INV := by decide +kernel

theorem reject_degenerate_z_eq (e : Ext) :
    reject_degenerate_z e = (match e.toAffine? with | none => .error .degenerate | some _ => .ok ()) := by
  unfold reject_degenerate_z Ext.toAffine? intoScalar
  by_cases h : (e.z == 0) = true <;> simp [h]

theorem append_affine_point_eq : RComposer.append_affine_point = appendAffinePoint := by
  funext p; unfold RComposer.append_affine_point appendAffinePoint; rw [append_witness_eq]; rfl

theorem assert_equal_point_eq : RComposer.assert_equal_point = assertEqualPoint := by
  funext a b; unfold RComposer.assert_equal_point assertEqualPoint; rw [assert_equal_eq]; rfl

theorem component_neg_point_eq : RComposer.component_neg_point = componentNegPoint := by
  funext p; unfold RComposer.component_neg_point componentNegPoint; rw [gate_mul_eq]; rfl

theorem select_identity_gates_eq : RComposer.select_identity_gates = selectIdentityGates := by
  funext bit a; unfold RComposer.select_identity_gates selectIdentityGates
  rw [component_select_zero_eq, component_select_one_eq]; rfl

theorem component_select_identity_eq : RComposer.component_select_identity = componentSelectIdentity := by
  funext bit a; unfold RComposer.component_select_identity componentSelectIdentity
  rw [component_boolean_eq, select_identity_gates_eq]; rfl

theorem component_select_point_eq : RComposer.component_select_point = componentSelectPoint := by
  funext bit a b; unfold RComposer.component_select_point componentSelectPoint
  rw [component_select_eq]; rfl


theorem add_point_gates_eq : RComposer.add_point_gates = addPointGates := by
  funext a b
  unfold RComposer.add_point_gates addPointGates
  simp only [index_eq, append_witness_eq, append_custom_gate_eq, group_add_variable_base_eq, host_sum_eq]
  rfl

theorem component_add_point_eq : RComposer.component_add_point = componentAddPoint := by
  funext a b; unfold RComposer.component_add_point componentAddPoint; rw [add_point_gates_eq]; rfl

theorem component_sub_point_eq : RComposer.component_sub_point = componentSubPoint := by
  funext a b; unfold RComposer.component_sub_point componentSubPoint
  rw [component_neg_point_eq, component_add_point_eq]

theorem assert_torsion_free_gates_eq : RComposer.assert_torsion_free_gates = assertTorsionFreeGates := by
  funext p q; unfold RComposer.assert_torsion_free_gates assertTorsionFreeGates
  rw [append_affine_point_eq, gate_mul_eq, append_gate_eq, add_point_gates_eq, assert_equal_point_eq]; rfl

/-- `(JubJubExtended::from(p) * k).into()` is the model's `edMul k p` -/
theorem edMul_eq (k : Nat) (p : Pt) : jjAffineFromExt (Ext.mulBits (Ext.ofAffine p) k) = edMul k p := rfl

theorem assert_torsion_free_point_eq :
    RComposer.assert_torsion_free_point = (fun p => assertTorsionFreePoint p >>= fun _ => pure p) := by
  funext p; unfold RComposer.assert_torsion_free_point assertTorsionFreePoint
  simp only [index_eq, assert_torsion_free_gates_eq, edMul_eq, eight_inv_eq]
  rfl

theorem append_point_eq : RComposer.append_point = appendPoint := by
  funext e; unfold RComposer.append_point appendPoint jjAffineFromExt
  simp only [reject_degenerate_z_eq, append_affine_point_eq]
  cases e.toAffine? <;> rfl

theorem append_public_point_eq : RComposer.append_public_point = appendPublicPoint := by
  funext e; unfold RComposer.append_public_point appendPublicPoint jjAffineFromExt
  simp only [reject_degenerate_z_eq, append_affine_point_eq, assert_equal_constant_eq]
  cases e.toAffine? <;> rfl

theorem assert_equal_public_point_eq : RComposer.assert_equal_public_point = assertEqualPublicPoint := by
  funext p e; unfold RComposer.assert_equal_public_point assertEqualPublicPoint jjAffineFromExt
  simp only [reject_degenerate_z_eq, assert_equal_constant_eq]
  cases e.toAffine? <;> rfl

theorem append_constant_point_eq : RComposer.append_constant_point = appendConstantPoint := by
  funext e; unfold RComposer.append_constant_point appendConstantPoint jjAffineFromExt
  simp only [reject_degenerate_z_eq, append_constant_eq]
  cases e.toAffine? <;> rfl


end Plonk.ComposerSource
