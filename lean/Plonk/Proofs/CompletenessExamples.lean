/-
  C01 (completeness) — a concrete instance for the non-vacuity examples of
  `Plonk/Props/C01Complete.lean`, with a NON-TRIVIAL permutation:

  two addition rows `a + b + c = 0` wired to the SAME four witnesses `(1, 2, −3, 0)`, so that `σ`
  swaps the two rows column by column; domain `{1, −1}`; constant wire polynomials, sigma
  polynomials `σ_col = −K_col·X`.  The accumulator is not constant (`z₁ = num₀ / den₀`), it is
  obtained from `accumulator_exists_core`.
-/
import Plonk.Proofs.CompletenessProver
import Plonk.Proofs.CompletenessDegree
import Plonk.Proofs.CompletenessVerifier
import Plonk.Proofs.SoundnessInstance

namespace Plonk.Complete
open Polynomial Plonk Plonk.Quot Plonk.Perm Plonk.Sound

/-- the layout: two addition rows on the same four witnesses -/
def cLay : Composer :=
  { gates := #[{ ql := 1, qr := 1, qo := 1, qarith := 1, a := 0, b := 1, c := 2, d := 3 },
               { ql := 1, qr := 1, qo := 1, qarith := 1, a := 0, b := 1, c := 2, d := 3 }],
    wit := #[1, 2, R - 3, 0] }

/-- constant selectors and wires, `σ_col = −K_col·X`, accumulator left open (`0` here) -/
noncomputable def cP : ProverPolys F :=
  { Q := ⟨0, C 1, C 1, C 1, 0, 0, C 1, 0, 0, 0, 0⟩
    a := C (toF 1), b := C (toF 2), c := C (toF (R - 3)), d := C (toF 0), pi := 0
    s1 := C (-1) * X, s2 := C (-(Generated.K1 : F)) * X, s3 := C (-(Generated.K2 : F)) * X,
    s4 := C (-(Generated.K3 : F)) * X, z := 0 }

theorem cLay_sigma_active (c i : Nat) (hc : c < 4) (hi : i < 2) : sigmaFn cLay (c, i) = (c, 1 - i) := by
  interval_cases i <;> interval_cases c <;> decide +kernel

theorem cLay_sigma_col (p : Pos) : (sigmaFn cLay p).1 = p.1 := by
  by_cases ha : Active cLay p
  · obtain ⟨⟨h1, h2⟩, -⟩ := ha
    obtain ⟨c, i⟩ := p
    rw [cLay_sigma_active c i h1 h2]
  · rw [sigmaFn_of_not_active ha]

theorem cLay_gateAt (i : Nat) (hi : i < 2) :
    Quot.selF (cLay.gateAt i) = ⟨0, 1, 1, 1, 0, 0, 1, 0, 0, 0, 0⟩ := by
  interval_cases i <;> simp [Quot.selF, Composer.gateAt, cLay]

theorem cLay_piAt (i : Nat) : cLay.piAt i = 0 := by
  simp [Composer.piAt, cLay]

theorem cKey : KeyInterp (-1) 2 cLay cP where
  sel := fun i hi => by
    rw [cLay_gateAt i hi]
    simp [Sel.map, cP]
  pi := fun i _ => by rw [cLay_piAt]; simp [cP]
  s1 := fun i hi => by
    rw [cLay_sigma_active 0 i (by omega) hi]
    have e0 : toF (kOf 0) = 1 := by show toF 1 = 1; exact toF_one
    interval_cases i <;> simp [cP, idLabel, e0]
  s2 := fun i hi => by
    rw [cLay_sigma_active 1 i (by omega) hi]
    have e : toF (kOf 1) = (Generated.K1 : F) := rfl
    interval_cases i <;> simp [cP, idLabel, e]
  s3 := fun i hi => by
    rw [cLay_sigma_active 2 i (by omega) hi]
    have e : toF (kOf 2) = (Generated.K2 : F) := rfl
    interval_cases i <;> simp [cP, idLabel, e]
  s4 := fun i hi => by
    rw [cLay_sigma_active 3 i (by omega) hi]
    have e : toF (kOf 3) = (Generated.K3 : F) := rfl
    interval_cases i <;> simp [cP, idLabel, e]

theorem three_lt_R : 3 < R := by have := ten_lt_R; omega

/-- the wire value of a column -/
def cVal (col : Nat) : Nat := match col with | 0 => 1 | 1 => 2 | 2 => R - 3 | _ => 0

theorem cVal_lt (col : Nat) : cVal col < R := by
  have := three_lt_R
  unfold cVal
  split <;> omega

/-- the wire values of the instance depend on the column only -/
theorem cP_wireVal (p : Pos) : wireVal (-1) cP p = toF (cVal p.1) := by
  obtain ⟨c, i⟩ := p
  match c with
  | 0 => simp [wireVal, wireP, cP, cVal]
  | 1 => simp [wireVal, wireP, cP, cVal]
  | 2 => simp [wireVal, wireP, cP, cVal]
  | (c + 3) => simp [wireVal, wireP, cP, cVal]

theorem cP_wireNat (col i : Nat) : wireNat (-1) cP col i = cVal col := by
  unfold wireNat
  rw [cP_wireVal]
  exact val_toF_of_lt (cVal_lt _)

/-- every row of the instance holds -/
theorem cRows : ∀ i < 2, rowOKP (-1) 2 cLay cP i := by
  intro i hi
  unfold rowOKP
  simp only [cP_wireNat]
  interval_cases i <;> decide +kernel

/-- the wire values respect `σ` (which swaps the two rows) -/
theorem cRespects : ∀ p, wireVal (-1) cP (sigmaFn cLay p) = wireVal (-1) cP p := by
  intro p
  rw [cP_wireVal, cP_wireVal, cLay_sigma_col]

theorem cConst : ∀ p q, SameClass cLay p q → wireVal (-1) cP p = wireVal (-1) cP q :=
  (respects_iff_const cLay (wireVal (-1) cP)).mp cRespects

/-- `σ` is not the identity: the instance has genuine copy constraints -/
theorem cLay_sigma_nontrivial : sigmaFn cLay (0, 0) = (0, 1) := cLay_sigma_active 0 0 (by omega) (by omega)

/-- a good `γ` exists for every `β` -/
theorem c_good_gamma (β : F) : ∃ γ, γ ∉ denBadM (-1) 2 cLay cP β := by
  apply exists_notMem_of_card_lt
  have := denBadM_card_le (-1) 2 cLay cP β
  have := ten_lt_R
  omega

theorem cStruct : 0 < 2 ∧ IsPrimitiveRoot (-1 : F) 2 ∧ cLay.gates.size ≤ 2 :=
  ⟨by omega, neg_one_primitive, by decide⟩

/-- degrees of the instance with an accumulator of degree `< 2`: the honest profile
    `PolysDeg2 _ (n + 1) (n + 2)` for `n = 2` -/
theorem cDeg (Z : F[X]) (hZ : Z.degree < (2 : ℕ)) : PolysDeg2 (withZ cP Z) (2 + 1) (2 + 2) := by
  have hlin (a : F) : (C a * X : F[X]).natDegree ≤ 2 + 1 :=
    (natDegree_C_mul_le _ _).trans (by rw [natDegree_X]; omega)
  have hz : Z.natDegree ≤ 2 + 2 := by
    by_cases h0 : Z = 0
    · rw [h0]; simp
    · have := (natDegree_lt_iff_degree_lt h0).mpr hZ
      omega
  constructor
  · constructor <;> simp [withZ, cP]
  · simp [withZ, cP]
  · simp [withZ, cP]
  · simp [withZ, cP]
  · simp [withZ, cP]
  · simp [withZ, cP]
  · exact hlin _
  · exact hlin _
  · exact hlin _
  · exact hlin _
  · exact hz

/-! ### an instance for the verifier side: the polynomials `exP2` of the soundness instance
    (numerator identically zero, quotient `T = 0`), with an interpretation of the commitments -/

/-- verifier key: selectors `q_l, q_r, q_o` (and `q_arith`) committed to `1`, `σ₄` to `K₃·X`,
    everything else to `0` -/
def vKey : VKey :=
  { n := 2, qm := .inf, ql := .aff 1 0, qr := .aff 1 0, qo := .aff 1 0, qf := .inf, qc := .inf,
    qarith := .aff 1 0, qlogic := .inf, qrange := .inf, qfixed := .inf, qvar := .inf,
    s1 := .aff 2 0, s2 := .aff 2 0, s3 := .aff 2 0, s4 := .aff 2 0 }

/-- the evaluations of `exP2` at `z = 5` and `ωz = −5` -/
def vEv : Evals :=
  { a := 1, b := 2, c := R - 3, d := 0, aw := 1, bw := 2, dw := 0, qarith := 1, qc := 0, ql := 1, qr := 1,
    s1 := 5, s2 := Generated.K1 * 5, s3 := Generated.K2 * 5, z := 1 }

/-- a proof: accumulator committed to `1`, quotient shares to `0` -/
def vProof : ProofM :=
  { aC := .inf, bC := .inf, cC := .inf, dC := .inf, zC := .aff 1 0, tLow := .inf, tMid := .inf,
    tHigh := .inf, tFourth := .inf, wz := .inf, wzw := .inf, ev := vEv }

/-- the interpretation of the commitments as polynomials -/
noncomputable def vIota (c : G1) : F[X] :=
  if c = .inf then 0 else if c = .aff 1 0 then C 1 else C (Generated.K3 : F) * X

theorem v_agmRep : AgmRep vIota vKey vProof exP2 := by
  constructor <;> simp [vIota, vKey, vProof, exP2]

theorem toF_R_sub_three : toF (R - 3) = -3 := by
  have h : 3 ≤ R := by have := three_lt_R; omega
  unfold toF
  rw [Nat.cast_sub h, ZMod.natCast_self]
  simp

theorem v_trueEvals : TrueEvals (-1) (toF 5) vEv exP2 := by
  constructor <;> simp [vEv, exP2, toF_R_sub_three] <;> simp [toF]

theorem v_quotient : quotientOf vIota vProof 2 = 0 := by
  simp [quotientOf, vIota, vProof]

theorem v_numerator (β γ α : F) (s : Seps F) :
    NumP (-1) 2 exP2 ⟨β, γ, α⟩ s = 0 * (X ^ 2 - 1) := by
  rw [zero_mul]
  exact ex_NumP_zero β γ α s

theorem v_side : toF 24 = toF 5 ^ 2 - 1 ∧ toF 3 = (L1P 2).eval (toF 5) ∧
    toF 0 = exP2.pi.eval (toF 5) := by
  obtain ⟨h1, h2, -⟩ := ex_verifier_side
  exact ⟨h1, h2, by simp [exP2]⟩

/-! ### the instance as a satisfied system of the model -/

theorem c_val_lt : ∀ x, cLay.val x < R := by
  intro x
  have h3 := three_lt_R
  unfold Composer.val cLay
  rw [Array.getD_eq_getD_getElem?]
  rcases x with _ | _ | _ | _ | x
  · show 1 < R; omega
  · show 2 < R; omega
  · show R - 3 < R; omega
  · show 0 < R; omega
  · have : (#[1, 2, R - 3, 0] : Array Nat)[x + 4]? = none := by simp
    rw [this]; exact R_pos

theorem cLay_rowVals (i : Nat) (hi : i < 2) : cLay.rowVals i = ⟨1, 2, R - 3, 0⟩ := by
  interval_cases i <;> rfl

theorem cWire : WireInterp (-1) 2 cLay cP where
  a := fun i hi => by rw [cLay_rowVals i hi]; simp [cP]
  b := fun i hi => by rw [cLay_rowVals i hi]; simp [cP]
  c := fun i hi => by rw [cLay_rowVals i hi]; simp [cP]
  d := fun i hi => by rw [cLay_rowVals i hi]; simp [cP]

end Plonk.Complete
