/-
  G1 group law, part 4: the bridge to the symbolic verifier algebra (`evalTerms` of
  `VerifierAlgebra.lean`).  The results of the model's multi-scalar multiplications `G1.msum`,
  read in the curve group, are the `F`-linear combinations `evalTerms ι ts`:
  * for every additive map `φ` from the curve group to an `F`-module (`msum_evalTerms_hom`);
  * for the canonical interpretation `ιR` of the model's points in the `r`-torsion subgroup
    `G1.Sub = E(F_p)[r]` of the curve, which is an `F`-module (`msum_evalTerms`).
-/
import Mathlib.Algebra.Module.ZMod
import Plonk.Proofs.G1GroupMul
import Plonk.Proofs.VerifierAlgebra

set_option Elab.async false

namespace Plonk

namespace G1

theorem toF_smul_eq_nsmul {G : Type*} [AddCommGroup G] [Module F G] (k : Nat) (g : G) :
    toF k • g = (k % R) • g := by
  rw [← toF_mod, toF, Nat.cast_smul_eq_nsmul]

/-- every additive map from the curve group to an `F`-module sends the model's MSM result to the
    `F`-linear combination of the images -/
theorem msum_evalTerms_hom {G : Type*} [AddCommGroup G] [Module F G] (φ : Pt →+ G)
    {ts : List (Nat × G1)} (hv : ∀ t ∈ ts, t.2.Valid) :
    φ (pt (G1.msum ts)) = evalTerms (fun p => φ (pt p)) ts := by
  rw [(msum_spec hv).2]
  clear hv
  induction ts with
  | nil => simp
  | cons t ts ih =>
    obtain ⟨k, p⟩ := t
    rw [List.map_cons, List.sum_cons, map_add, ih, evalTerms_cons, toF_smul_eq_nsmul, map_nsmul]

/-! ### the prime-order subgroup -/

/-- `E(F_p)[r]`: the points killed by `r` -/
def Sub : AddSubgroup Pt := (nsmulAddMonoidHom (α := Pt) R).ker

theorem mem_Sub {Q : Pt} : Q ∈ Sub ↔ R • Q = 0 := by
  unfold Sub; rw [AddMonoidHom.mem_ker]; rfl

theorem Sub_nsmul_R (x : Sub) : R • x = 0 := by
  apply Subtype.ext
  rw [AddSubgroup.coe_nsmul]
  exact mem_Sub.mp x.2

noncomputable instance : Module F Sub := AddCommGroup.zmodModule Sub_nsmul_R

/-- canonical interpretation of the model's points in `E(F_p)[r]` (junk goes to `0`) -/
noncomputable def ιR (p : G1) : Sub := if h : R • pt p = 0 then ⟨pt p, mem_Sub.mpr h⟩ else 0

theorem coe_ιR {p : G1} (hv : p.Valid) (ht : p.torsionFree = true) : (ιR p : Pt) = pt p := by
  unfold ιR; rw [dif_pos ((torsionFree_iff hv).mp ht)]

theorem ιR_of_nsmul {p : G1} (h : R • pt p = 0) : (ιR p : Pt) = pt p := by
  unfold ιR; rw [dif_pos h]

theorem coe_toF_smul (k : Nat) (x : Sub) : ((toF k • x : Sub) : Pt) = (k % R) • (x : Pt) := by
  rw [toF_smul_eq_nsmul, AddSubgroup.coe_nsmul]

theorem coe_evalTerms_ιR : ∀ {ts : List (Nat × G1)}, (∀ t ∈ ts, t.2.Valid) →
    (∀ t ∈ ts, t.2.torsionFree = true) →
    ((evalTerms ιR ts : Sub) : Pt) = (ts.map fun t => (t.1 % R) • pt t.2).sum
  | [], _, _ => by simp
  | (k, p) :: ts, hv, ht => by
    rw [evalTerms_cons, AddSubgroup.coe_add, coe_toF_smul,
      coe_ιR (hv _ List.mem_cons_self) (ht _ List.mem_cons_self), List.map_cons, List.sum_cons,
      coe_evalTerms_ιR (fun t h => hv t (List.mem_cons_of_mem _ h))
        (fun t h => ht t (List.mem_cons_of_mem _ h))]

/-- an MSM of subgroup points stays in the subgroup -/
theorem msum_nsmul_R {ts : List (Nat × G1)} (hv : ∀ t ∈ ts, t.2.Valid)
    (ht : ∀ t ∈ ts, t.2.torsionFree = true) : R • pt (G1.msum ts) = 0 := by
  rw [(msum_spec hv).2, ← mem_Sub]
  apply AddSubgroup.list_sum_mem
  intro x hx
  obtain ⟨t, htm, rfl⟩ := List.mem_map.mp hx
  exact AddSubgroup.nsmul_mem _ (mem_Sub.mpr ((torsionFree_iff (hv t htm)).mp (ht t htm))) _

theorem msum_torsionFree {ts : List (Nat × G1)} (hv : ∀ t ∈ ts, t.2.Valid)
    (ht : ∀ t ∈ ts, t.2.torsionFree = true) : (G1.msum ts).torsionFree = true :=
  (torsionFree_iff (msum_spec hv).1).mpr (msum_nsmul_R hv ht)

/-- **`msum_evalTerms`**: the model's MSM result, as a point of `E(F_p)[r]`, is the `F`-linear
    combination `evalTerms ιR` of its inputs -/
theorem msum_evalTerms {ts : List (Nat × G1)} (hv : ∀ t ∈ ts, t.2.Valid)
    (ht : ∀ t ∈ ts, t.2.torsionFree = true) : ιR (G1.msum ts) = evalTerms ιR ts := by
  apply Subtype.ext
  rw [ιR_of_nsmul (msum_nsmul_R hv ht), coe_evalTerms_ιR hv ht, (msum_spec hv).2]

theorem add_nsmul_R {p q : G1} (hp : p.Valid) (hq : q.Valid) (tp : p.torsionFree = true)
    (tq : q.torsionFree = true) : R • pt (p.add q) = 0 := by
  rw [pt_add hp hq, nsmul_add, (torsionFree_iff hp).mp tp, (torsionFree_iff hq).mp tq, add_zero]

theorem ιR_add {p q : G1} (hp : p.Valid) (hq : q.Valid) (tp : p.torsionFree = true)
    (tq : q.torsionFree = true) : ιR (p.add q) = ιR p + ιR q := by
  apply Subtype.ext
  rw [ιR_of_nsmul (add_nsmul_R hp hq tp tq), AddSubgroup.coe_add, coe_ιR hp tp, coe_ιR hq tq,
    pt_add hp hq]

theorem ιR_inf : ιR .inf = 0 := by
  apply Subtype.ext
  rw [ιR_of_nsmul (by rw [pt_inf, nsmul_zero])]; rfl

theorem ιR_injective {p q : G1} (hp : p.Valid) (hq : q.Valid) (tp : p.torsionFree = true)
    (tq : q.torsionFree = true) (h : ιR p = ιR q) : p = q := by
  apply pt_injective hp hq
  rw [← coe_ιR hp tp, ← coe_ιR hq tq, h]

theorem ιR_eq_zero_iff {p : G1} (hp : p.Valid) (tp : p.torsionFree = true) : ιR p = 0 ↔ p = .inf := by
  constructor
  · intro h
    exact ιR_injective hp trivial tp torsionFree_inf (h.trans ιR_inf.symm)
  · rintro rfl; exact ιR_inf

theorem nsmul_mod_R {Q : Pt} (h : R • Q = 0) (k : Nat) : (k % R) • Q = k • Q := by
  conv_rhs => rw [← Nat.mod_add_div k R, add_nsmul, mul_nsmul, h, nsmul_zero, add_zero]

theorem smul_nsmul_R {k : Nat} (hk : k < 2 ^ 256) {p : G1} (hp : p.Valid) (tp : p.torsionFree = true) :
    R • pt (G1.smul k p) = 0 := by
  rw [(smul_spec hk hp).2, nsmul_left_comm, (torsionFree_iff hp).mp tp, nsmul_zero]

theorem smul_torsionFree {k : Nat} (hk : k < 2 ^ 256) {p : G1} (hp : p.Valid)
    (tp : p.torsionFree = true) : (G1.smul k p).torsionFree = true :=
  (torsionFree_iff (smul_spec hk hp).1).mpr (smul_nsmul_R hk hp tp)

theorem add_torsionFree {p q : G1} (hp : p.Valid) (hq : q.Valid) (tp : p.torsionFree = true)
    (tq : q.torsionFree = true) : (p.add q).torsionFree = true :=
  (torsionFree_iff (add_valid hp hq)).mpr (add_nsmul_R hp hq tp tq)

theorem ιR_smul {k : Nat} (hk : k < 2 ^ 256) {p : G1} (hp : p.Valid) (tp : p.torsionFree = true) :
    ιR (G1.smul k p) = toF k • ιR p := by
  apply Subtype.ext
  rw [ιR_of_nsmul (smul_nsmul_R hk hp tp), coe_toF_smul, coe_ιR hp tp, (smul_spec hk hp).2,
    nsmul_mod_R ((torsionFree_iff hp).mp tp)]

/-- the pairing-side test of the model verifier (`[x]·L + R = O`, trapdoor `x`), in `E(F_p)[r]` -/
theorem add_smul_msum_eq_inf_iff {x : Nat} (hx : x < 2 ^ 256) {left right : List (Nat × G1)}
    (hvl : ∀ t ∈ left, t.2.Valid) (htl : ∀ t ∈ left, t.2.torsionFree = true)
    (hvr : ∀ t ∈ right, t.2.Valid) (htr : ∀ t ∈ right, t.2.torsionFree = true) :
    G1.add (G1.smul x (G1.msum left)) (G1.msum right) = .inf ↔
      toF x • evalTerms ιR left + evalTerms ιR right = 0 := by
  have vl := (msum_spec hvl).1
  have vr := (msum_spec hvr).1
  have tl := msum_torsionFree hvl htl
  have tr := msum_torsionFree hvr htr
  have key : ∀ L Rr : G1, L.Valid → Rr.Valid → L.torsionFree = true → Rr.torsionFree = true →
      (G1.add (G1.smul x L) Rr = .inf ↔ toF x • ιR L + ιR Rr = 0) := by
    intro L Rr vL vR tL tR
    have hs := smul_spec hx vL
    have ts := smul_torsionFree hx vL tL
    generalize G1.smul x L = S at hs ts
    rw [← ιR_eq_zero_iff (add_valid hs.1 vR) (add_torsionFree hs.1 vR ts tR), ιR_add hs.1 vR ts tR]
    have : ιR S = toF x • ιR L := by
      apply Subtype.ext
      rw [coe_ιR hs.1 ts, coe_toF_smul, coe_ιR vL tL, hs.2, nsmul_mod_R ((torsionFree_iff vL).mp tL)]
    rw [this]
  rw [key _ _ vl vr tl tr, msum_evalTerms hvl htl, msum_evalTerms hvr htr]

end G1

end Plonk
