/-
  Host-side lemma for the tie of `add_point_gates` (used by `Plonk/Proofs/ComposerSource.lean`): the witness values the
  Rust code computes with dusk-jubjub's EXTENDED mixed addition (`JubJubExtended::from(p1) + p2`, identity when `Z = 0`,
  projection `(U/Z, V/Z)` otherwise) are the model's AFFINE `edAddOrId p1 p2` — for arbitrary coordinates, on or off the
  curve.  (The extended formulas themselves are the model of the external crate, `Plonk/Model/Jubjub.lean`.)
-/
import Plonk.Proofs.Edwards
import Plonk.GeneratedComposer

namespace Plonk.ComposerSource
open Plonk Plonk.GeneratedComposer

attribute [local irreducible] finv

theorem four_ne_zero_F : (4 : F) ≠ 0 := by
  have : (4 : F) = 2 * 2 := by ring
  rw [this]; exact mul_ne_zero two_ne_zero_F two_ne_zero_F

/-- the mixed extended sum of two affine points -/
def hostSum (p q : Pt) : Ext := Ext.add (Ext.ofAffine p) (Ext.ofAffine q)

abbrev kF (p q : Pt) : F := dF * toF p.1 * toF q.1 * toF p.2 * toF q.2

theorem hostSum_z (p q : Pt) : toF (hostSum p q).z = 4 * (1 - kF p q) * (1 + kF p q) := by
  simp only [hostSum, Ext.add, Ext.ofAffine, toF_fmul, toF_fsub, toF_fadd, toF_mod, toF_one, toF_two, toF_EDWARDS_D, kF]
  ring
theorem hostSum_u (p q : Pt) :
    toF (hostSum p q).u = (2 * (toF p.1 * toF q.2 + toF p.2 * toF q.1)) * (2 * (1 - kF p q)) := by
  simp only [hostSum, Ext.add, Ext.ofAffine, toF_fmul, toF_fsub, toF_fadd, toF_mod, toF_one, toF_two, toF_EDWARDS_D, kF]
  ring
theorem hostSum_v (p q : Pt) :
    toF (hostSum p q).v = (2 * (1 + kF p q)) * (2 * (toF p.2 * toF q.2 + toF p.1 * toF q.1)) := by
  simp only [hostSum, Ext.add, Ext.ofAffine, toF_fmul, toF_fsub, toF_fadd, toF_mod, toF_one, toF_two, toF_EDWARDS_D, kF]
  ring
theorem hostSum_z_lt (p q : Pt) : (hostSum p q).z < R := fmul_lt _ _


theorem edAddOrId_of_some {p q s : Pt} (h : edAdd? p q = some s) : edAddOrId p q = s := by
  unfold edAddOrId; rw [h]; rfl
theorem edAddOrId_of_none {p q : Pt} (h : edAdd? p q = none) : edAddOrId p q = Pt.id := by
  unfold edAddOrId; rw [h]; rfl

theorem proj_u (N A B : F) (h4 : (4 : F) ≠ 0) (hA : A ≠ 0) (hB : B ≠ 0) :
    (2 * N) * (2 * B) * (4 * B * A)⁻¹ = N / A := by
  field_simp
  ring
theorem proj_v (M A B : F) (h4 : (4 : F) ≠ 0) (hA : A ≠ 0) (hB : B ≠ 0) :
    (2 * A) * (2 * M) * (4 * B * A)⁻¹ = M / B := by
  field_simp
  ring

/-- the host-side projection with the `Z = 0` guard, for an arbitrary extended point -/
def projOrId (S : Ext) : Pt := if S.z == 0 then Pt.id else jjAffineFromExt S

theorem projOrId_of_zero (S : Ext) (h : (S.z == 0) = true) : projOrId S = Pt.id := by
  unfold projOrId; rw [if_pos h]
theorem projOrId_of_ne (S : Ext) (h : ¬ (S.z == 0) = true) :
    projOrId S = (fmul S.u (finv S.z), fmul S.v (finv S.z)) := by
  unfold projOrId jjAffineFromExt Ext.toAffine?
  rw [if_neg h, if_neg h]
  simp only [Option.getD_some]

/-- field-level characterisation: if `S` has the coordinates of the mixed sum of `p` and `q`, then `projOrId S` is the
    model's affine `edAddOrId p q` -/
theorem projOrId_eq (p q : Pt) (S : Ext) (hlt : S.z < R)
    (hz : toF S.z = 4 * (1 - kF p q) * (1 + kF p q))
    (hu : toF S.u = (2 * (toF p.1 * toF q.2 + toF p.2 * toF q.1)) * (2 * (1 - kF p q)))
    (hv : toF S.v = (2 * (1 + kF p q)) * (2 * (toF p.2 * toF q.2 + toF p.1 * toF q.1))) :
    projOrId S = edAddOrId p q := by
  by_cases hpole : (1 + kF p q) = 0 ∨ (1 - kF p q) = 0
  · have hz0 : toF S.z = 0 := by
      rw [hz]; rcases hpole with h | h <;> rw [h] <;> ring
    rw [projOrId_of_zero S ((beq_zero_iff hlt).mpr hz0)]
    exact (edAddOrId_of_none ((edAdd?_eq_none_iff p q).mpr hpole)).symm
  · rw [not_or] at hpole
    obtain ⟨hA, hB⟩ := hpole
    have hz0 : toF S.z ≠ 0 := by
      rw [hz]; exact mul_ne_zero (mul_ne_zero four_ne_zero_F hB) hA
    have hne : ¬ (S.z == 0) = true := fun h => hz0 ((beq_zero_iff hlt).mp h)
    rw [projOrId_of_ne S hne]
    refine (edAddOrId_of_some ((edAdd?_eq_some_iff p q _).mpr ⟨hA, hB, fmul_lt _ _, fmul_lt _ _, ?_, ?_⟩)).symm
    · show toF (fmul S.u (finv S.z)) = _
      rw [toF_fmul, toF_finv, hu, hz]
      exact proj_u _ _ _ four_ne_zero_F hA hB
    · show toF (fmul S.v (finv S.z)) = _
      rw [toF_fmul, toF_finv, hv, hz]
      exact proj_v _ _ _ four_ne_zero_F hA hB

theorem host_sum_eq0 (p q : Pt) :
    (if (Ext.add (Ext.ofAffine p) (Ext.ofAffine q)).z == 0 then Pt.id
     else jjAffineFromExt (Ext.add (Ext.ofAffine p) (Ext.ofAffine q))) = edAddOrId p q :=
  projOrId_eq p q (hostSum p q) (hostSum_z_lt p q) (hostSum_z p q) (hostSum_u p q) (hostSum_v p q)

/-- in the exact shape the translator emits (`sum.get_z() == BlsScalar::zero()`) -/
theorem host_sum_eq (p q : Pt) :
    (if (Ext.add (Ext.ofAffine p) (Ext.ofAffine q)).z == intoScalar 0 then Pt.id
     else jjAffineFromExt (Ext.add (Ext.ofAffine p) (Ext.ofAffine q))) = edAddOrId p q :=
  host_sum_eq0 p q
end Plonk.ComposerSource
