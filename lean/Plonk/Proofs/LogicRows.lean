/-
  C10 (logic gadget), math level: the five components of the logic widget over `F = ZMod R`,
  the quad table of `delta_xor_and`, and the three-accumulator chain (soundness and
  completeness). No composer glue.
-/
import Mathlib.Tactic.Ring
import Mathlib.Tactic.IntervalCases
import Mathlib.Tactic.NormNum
import Plonk.Proofs.RowBridge
import Plonk.Model.Composer

namespace Plonk
open Plonk

/-! ### field-level widget polynomial, bridge -/

/-- field-level `delta_xor_and(a, b, w, c, q_c)` -/
def deltaXorAndF (a b w c qc : F) : F :=
  let ab := a + b
  let f := w * (w * (4 * w - 18 * ab + 81) + 18 * (a * a + b * b) - 81 * ab + 83)
  let e := 3 * (ab + c) - 2 * f
  let bb := qc * (9 * c - 3 * ab)
  bb + e

@[simp] theorem toF_deltaXorAnd (a b w c qc : Nat) :
    toF (deltaXorAnd a b w c qc) = deltaXorAndF (toF a) (toF b) (toF w) (toF c) (toF qc) := by
  have h9 : toF 9 = 9 := toF_ofNat 9
  have h18 : toF 18 = 18 := toF_ofNat 18
  have h81 : toF 81 = 81 := toF_ofNat 81
  have h83 : toF 83 = 83 := toF_ofNat 83
  unfold deltaXorAnd deltaXorAndF; simp [h9, h18, h81, h83]

theorem deltaXorAnd_lt (a b w c qc : Nat) : deltaXorAnd a b w c qc < R := by
  unfold deltaXorAnd; exact fadd_lt _ _

/-- the five row equations of the logic widget, at the field level
    (`a b d` current-row accumulators, `an bn dn` next-row accumulators, `c` the product wire) -/
def logicRowF (qc a an b bn c d dn : F) : Prop :=
  deltaF (an - 4 * a) = 0 ∧ deltaF (bn - 4 * b) = 0 ∧ deltaF (dn - 4 * d) = 0 ∧
  c = (an - 4 * a) * (bn - 4 * b) ∧
  deltaXorAndF (an - 4 * a) (bn - 4 * b) c (dn - 4 * d) qc = 0

/-- `logicComps_zero_iff`: the model's five Boolean component checks are the five field
    equations (with `qa := an − 4a`, `qb := bn − 4b`, `qd := dn − 4d`). -/
theorem logicComps_zero_iff (qc a an b bn c d dn : Nat) :
    allZero (logicComps qc a an b bn c d dn) = true ↔
      deltaF (toF an - 4 * toF a) = 0 ∧ deltaF (toF bn - 4 * toF b) = 0 ∧
      deltaF (toF dn - 4 * toF d) = 0 ∧
      toF c = (toF an - 4 * toF a) * (toF bn - 4 * toF b) ∧
      deltaXorAndF (toF an - 4 * toF a) (toF bn - 4 * toF b) (toF c) (toF dn - 4 * toF d)
        (toF qc) = 0 := by
  rw [allZero_iff]
  · simp only [logicComps, List.mem_cons, List.mem_nil_iff, or_false, forall_eq_or_imp, forall_eq,
      toF_delta, toF_fsub, toF_fmul, toF_four, toF_deltaXorAnd, sub_eq_zero]
  · intro x hx
    simp only [logicComps, List.mem_cons, List.mem_nil_iff, or_false] at hx
    rcases hx with h | h | h | h | h
    · rw [h]; exact delta_lt _
    · rw [h]; exact delta_lt _
    · rw [h]; exact delta_lt _
    · rw [h]; exact fsub_lt _ _
    · rw [h]; exact deltaXorAnd_lt ..

theorem logicComps_zero_iff_row (qc a an b bn c d dn : Nat) :
    allZero (logicComps qc a an b bn c d dn) = true ↔
      logicRowF (toF qc) (toF a) (toF an) (toF b) (toF bn) (toF c) (toF d) (toF dn) :=
  logicComps_zero_iff ..

/-! ### `delta` vanishes exactly on quads -/

theorem natCast_eq_toF (n : Nat) : ((n : Nat) : F) = toF n := rfl

/-- `deltaF x = 0 ↔ x ∈ {0,1,2,3}` (`R` prime) -/
theorem deltaF_eq_zero_iff (x : F) : deltaF x = 0 ↔ ∃ q : Nat, q < 4 ∧ x = toF q := by
  constructor
  · intro h
    unfold deltaF at h
    rcases mul_eq_zero.mp h with h | h
    · rcases mul_eq_zero.mp h with h | h
      · rcases mul_eq_zero.mp h with h | h
        · exact ⟨0, by norm_num, by simpa using h⟩
        · exact ⟨1, by norm_num, by simpa using sub_eq_zero.mp h⟩
      · exact ⟨2, by norm_num, by simpa using sub_eq_zero.mp h⟩
    · exact ⟨3, by norm_num, by simpa using sub_eq_zero.mp h⟩
  · rintro ⟨q, hq, rfl⟩
    unfold deltaF
    interval_cases q <;> simp

theorem four_lt_R : 4 < R := by decide +kernel

/-- the quad is unique (`R > 3`) -/
theorem quad_unique {q q' : Nat} (hq : q < 4) (hq' : q' < 4) (h : toF q = toF q') : q = q' :=
  (toF_inj_of_lt (by have := four_lt_R; omega) (by have := four_lt_R; omega)).mp h

/-! ### the quad table -/

/-- the widget polynomial over ℤ -/
def dxaZ (a b w c qc : ℤ) : ℤ :=
  let f := w * (w * (4 * w - 18 * (a + b) + 81) + 18 * (a * a + b * b) - 81 * (a + b) + 83)
  let e := 3 * (a + b + c) - 2 * f
  let bb := qc * (9 * c - 3 * (a + b))
  bb + e

theorem dxaZ_table_and : ∀ a < 4, ∀ b < 4, ∀ c < 4,
    (dxaZ (a : ℕ) (b : ℕ) ((a : ℤ) * (b : ℤ)) (c : ℕ) 1 = 0 ↔ c = a &&& b) := by decide

theorem dxaZ_table_xor : ∀ a < 4, ∀ b < 4, ∀ c < 4,
    (dxaZ (a : ℕ) (b : ℕ) ((a : ℤ) * (b : ℤ)) (c : ℕ) (-1) = 0 ↔ c = a ^^^ b) := by decide

/-- size bound: the identity cannot vanish modulo `R` without vanishing in ℤ -/
theorem dxaZ_table_bound : ∀ a < 4, ∀ b < 4, ∀ c < 4, ∀ s : Bool,
    (dxaZ (a : ℕ) (b : ℕ) ((a : ℤ) * (b : ℤ)) (c : ℕ) (if s then -1 else 1)).natAbs < 100000 := by
  decide

theorem R_gt_table_bound : 100000 ≤ R := by decide +kernel

theorem deltaXorAndF_cast (a b w c qc : ℤ) :
    deltaXorAndF (a : F) (b : F) (w : F) (c : F) (qc : F) = ((dxaZ a b w c qc : ℤ) : F) := by
  unfold deltaXorAndF dxaZ; push_cast; ring

/-- the XOR/AND selector value: `q_c = −1` for XOR, `+1` for AND -/
def logicQc (isXor : Bool) : F := if isXor then -1 else 1

/-- the bitwise operation on naturals -/
def logicOp (isXor : Bool) (x y : Nat) : Nat := if isXor then x ^^^ y else x &&& y

theorem toF_logic_qc : toF (Constraint.logic {}).qc = logicQc false := by
  simp [Constraint.logic, Constraint.fromExternal, logicQc]

theorem toF_logicXor_qc : toF (Constraint.logicXor {}).qc = logicQc true := by
  simp [Constraint.logicXor, Constraint.fromExternal, logicQc, toF_R_sub_one]

/-- transfer of a table row from ℤ to `F` -/
theorem quad_table (isXor : Bool) (qa qb qd : Nat) (ha : qa < 4) (hb : qb < 4) (hd : qd < 4) :
    deltaXorAndF (toF qa) (toF qb) (toF qa * toF qb) (toF qd) (logicQc isXor) = 0 ↔
      qd = logicOp isXor qa qb := by
  have h := deltaXorAndF_cast (qa : ℕ) (qb : ℕ) ((qa : ℤ) * (qb : ℤ)) (qd : ℕ) (if isXor then -1 else 1)
  have hq : (((if isXor then -1 else 1 : ℤ)) : F) = logicQc isXor := by
    unfold logicQc; cases isXor <;> simp
  rw [hq] at h
  push_cast at h
  have h' : deltaXorAndF (toF qa) (toF qb) (toF qa * toF qb) (toF qd) (logicQc isXor)
      = ((dxaZ (qa : ℕ) (qb : ℕ) ((qa : ℤ) * (qb : ℤ)) (qd : ℕ) (if isXor then -1 else 1) : ℤ) : F) := h
  rw [h']
  have hbound := dxaZ_table_bound qa ha qb hb qd hd isXor
  have htab : dxaZ (qa : ℕ) (qb : ℕ) ((qa : ℤ) * (qb : ℤ)) (qd : ℕ) (if isXor then -1 else 1) = 0 ↔
      qd = logicOp isXor qa qb := by
    unfold logicOp
    cases isXor
    · simpa using dxaZ_table_and qa ha qb hb qd hd
    · simpa using dxaZ_table_xor qa ha qb hb qd hd
  rw [← htab, ZMod.intCast_zmod_eq_zero_iff_dvd]
  constructor
  · intro hdvd
    by_contra hne
    have h1 : (R : ℤ) ∣ ((dxaZ (qa : ℕ) (qb : ℕ) ((qa : ℤ) * (qb : ℤ)) (qd : ℕ)
        (if isXor then -1 else 1)).natAbs : ℤ) := Int.dvd_natAbs.mpr hdvd
    have h2 : R ∣ (dxaZ (qa : ℕ) (qb : ℕ) ((qa : ℤ) * (qb : ℤ)) (qd : ℕ)
        (if isXor then -1 else 1)).natAbs := by exact_mod_cast h1
    have h3 := Nat.le_of_dvd (Int.natAbs_pos.mpr hne) h2
    have := R_gt_table_bound
    omega
  · intro h0; rw [h0]; exact dvd_zero _

/-- AND row of the table (`q_c = 1`) -/
theorem quad_table_and (qa qb qd : Nat) (ha : qa < 4) (hb : qb < 4) (hd : qd < 4) :
    deltaXorAndF (toF qa) (toF qb) (toF qa * toF qb) (toF qd) 1 = 0 ↔ qd = qa &&& qb :=
  quad_table false qa qb qd ha hb hd

/-- XOR row of the table (`q_c = −1`) -/
theorem quad_table_xor (qa qb qd : Nat) (ha : qa < 4) (hb : qb < 4) (hd : qd < 4) :
    deltaXorAndF (toF qa) (toF qb) (toF qa * toF qb) (toF qd) (-1) = 0 ↔ qd = qa ^^^ qb :=
  quad_table true qa qb qd ha hb hd

/-- one logic row in terms of quads: the row equations say exactly that the three increments
    are quads, the product wire is their product, and the output quad is `op` of the inputs. -/
theorem logicRowF_iff (isXor : Bool) (a an b bn c d dn : F) :
    logicRowF (logicQc isXor) a an b bn c d dn ↔
      ∃ qa qb : Nat, qa < 4 ∧ qb < 4 ∧ an = 4 * a + toF qa ∧ bn = 4 * b + toF qb ∧
        dn = 4 * d + toF (logicOp isXor qa qb) ∧ c = toF qa * toF qb := by
  constructor
  · rintro ⟨h1, h2, h3, h4, h5⟩
    obtain ⟨qa, hqa, ea⟩ := (deltaF_eq_zero_iff _).mp h1
    obtain ⟨qb, hqb, eb⟩ := (deltaF_eq_zero_iff _).mp h2
    obtain ⟨qd, hqd, ed⟩ := (deltaF_eq_zero_iff _).mp h3
    rw [ea, eb] at h4
    rw [ea, eb, ed, h4] at h5
    have := (quad_table isXor qa qb qd hqa hqb hqd).mp h5
    subst this
    exact ⟨qa, qb, hqa, hqb, by rw [← ea]; ring, by rw [← eb]; ring, by rw [← ed]; ring, h4⟩
  · rintro ⟨qa, qb, hqa, hqb, ea, eb, ed, ec⟩
    have hop : logicOp isXor qa qb < 4 := by
      unfold logicOp; split
      · exact Nat.xor_lt_two_pow (n := 2) hqa hqb
      · exact Nat.and_lt_two_pow (n := 2) _ hqb
    have e1 : an - 4 * a = toF qa := by rw [ea]; ring
    have e2 : bn - 4 * b = toF qb := by rw [eb]; ring
    have e3 : dn - 4 * d = toF (logicOp isXor qa qb) := by rw [ed]; ring
    refine ⟨?_, ?_, ?_, ?_, ?_⟩
    · rw [e1]; exact (deltaF_eq_zero_iff _).mpr ⟨qa, hqa, rfl⟩
    · rw [e2]; exact (deltaF_eq_zero_iff _).mpr ⟨qb, hqb, rfl⟩
    · rw [e3]; exact (deltaF_eq_zero_iff _).mpr ⟨_, hop, rfl⟩
    · rw [e1, e2]; exact ec
    · rw [e1, e2, e3, ec]; exact (quad_table isXor qa qb _ hqa hqb hop).mpr rfl

/-! ### bitwise operations distribute over base-4 digits -/

theorem land_quad (a b q r : Nat) (hq : q < 4) (hr : r < 4) :
    (4 * a + q) &&& (4 * b + r) = 4 * (a &&& b) + (q &&& r) := by
  have h1 := Nat.and_div_two_pow (a := 4 * a + q) (b := 4 * b + r) (n := 2)
  have h2 := Nat.and_mod_two_pow (a := 4 * a + q) (b := 4 * b + r) (n := 2)
  have e1 : (4 * a + q) / 2 ^ 2 = a := by omega
  have e2 : (4 * b + r) / 2 ^ 2 = b := by omega
  have e3 : (4 * a + q) % 2 ^ 2 = q := by omega
  have e4 : (4 * b + r) % 2 ^ 2 = r := by omega
  rw [e1, e2] at h1; rw [e3, e4] at h2
  omega

theorem xor_quad (a b q r : Nat) (hq : q < 4) (hr : r < 4) :
    (4 * a + q) ^^^ (4 * b + r) = 4 * (a ^^^ b) + (q ^^^ r) := by
  have h1 := Nat.xor_div_two_pow (a := 4 * a + q) (b := 4 * b + r) (n := 2)
  have h2 := Nat.xor_mod_two_pow (a := 4 * a + q) (b := 4 * b + r) (n := 2)
  have e1 : (4 * a + q) / 2 ^ 2 = a := by omega
  have e2 : (4 * b + r) / 2 ^ 2 = b := by omega
  have e3 : (4 * a + q) % 2 ^ 2 = q := by omega
  have e4 : (4 * b + r) % 2 ^ 2 = r := by omega
  rw [e1, e2] at h1; rw [e3, e4] at h2
  omega

theorem logicOp_quad (isXor : Bool) (a b q r : Nat) (hq : q < 4) (hr : r < 4) :
    logicOp isXor (4 * a + q) (4 * b + r) = 4 * logicOp isXor a b + logicOp isXor q r := by
  unfold logicOp; cases isXor
  · simpa using land_quad a b q r hq hr
  · simpa using xor_quad a b q r hq hr

theorem four_pow_eq (m : Nat) : 4 ^ m = 2 ^ (2 * m) := by
  rw [Nat.pow_mul]

theorem logicOp_lt (isXor : Bool) {x y n : Nat} (hx : x < 4 ^ n) (hy : y < 4 ^ n) :
    logicOp isXor x y < 4 ^ n := by
  rw [four_pow_eq] at *
  unfold logicOp; split
  · exact Nat.xor_lt_two_pow hx hy
  · exact Nat.and_lt_two_pow _ hy

theorem logicOp_div (isXor : Bool) (x y m : Nat) :
    logicOp isXor x y / 4 ^ m = logicOp isXor (x / 4 ^ m) (y / 4 ^ m) := by
  rw [four_pow_eq]; unfold logicOp; split
  · exact Nat.xor_div_two_pow
  · exact Nat.and_div_two_pow

theorem logicOp_mod (isXor : Bool) (x y m : Nat) :
    logicOp isXor x y % 4 ^ m = logicOp isXor (x % 4 ^ m) (y % 4 ^ m) := by
  rw [four_pow_eq]; unfold logicOp; split
  · exact Nat.xor_mod_two_pow
  · exact Nat.and_mod_two_pow

/-! ### the chain: soundness -/

/-- **Soundness of the logic chain.** Three accumulator chains from `0` and a product-wire
    sequence satisfying the `n` row equations: the final accumulators are naturals `< 4^n`,
    the output is the bitwise `op` of the inputs, and every product wire is the product of the
    two input quads of its row. -/
theorem logic_chain_sound (isXor : Bool) (A B D W : Nat → F) (n : Nat)
    (hA : A 0 = 0) (hB : B 0 = 0) (hD : D 0 = 0)
    (hrow : ∀ i < n, logicRowF (logicQc isXor) (A i) (A (i + 1)) (B i) (B (i + 1)) (W i)
      (D i) (D (i + 1))) :
    (∃ a b : Nat, a < 4 ^ n ∧ b < 4 ^ n ∧ A n = toF a ∧ B n = toF b ∧
        D n = toF (logicOp isXor a b)) ∧
    (∀ i < n, W i = (A (i + 1) - 4 * A i) * (B (i + 1) - 4 * B i)) := by
  refine ⟨?_, fun i hi => (hrow i hi).2.2.2.1⟩
  induction n with
  | zero => exact ⟨0, 0, by norm_num, by norm_num, by simpa using hA, by simpa using hB,
      by simpa [logicOp] using hD⟩
  | succ k ih =>
    obtain ⟨a, b, ha, hb, eA, eB, eD⟩ := ih (fun i hi => hrow i (by omega))
    obtain ⟨qa, qb, hqa, hqb, ea, eb, ed, -⟩ := (logicRowF_iff isXor ..).mp (hrow k (by omega))
    refine ⟨4 * a + qa, 4 * b + qb, by rw [pow_succ]; omega, by rw [pow_succ]; omega, ?_, ?_, ?_⟩
    · rw [ea, eA]; unfold toF; push_cast; ring
    · rw [eb, eB]; unfold toF; push_cast; ring
    · rw [ed, eD, logicOp_quad isXor a b qa qb hqa hqb]; unfold toF; push_cast; ring

theorem four_pow_127_lt_R : 4 ^ 127 < R := by decide +kernel

/-- value form for `n ≤ 127` pairs (`4^n < R`): the canonical values are related by `op`. -/
theorem logic_chain_sound_val (isXor : Bool) (A B D W : Nat → F) (n : Nat) (hn : n ≤ 127)
    (hA : A 0 = 0) (hB : B 0 = 0) (hD : D 0 = 0)
    (hrow : ∀ i < n, logicRowF (logicQc isXor) (A i) (A (i + 1)) (B i) (B (i + 1)) (W i)
      (D i) (D (i + 1))) :
    (A n).val < 4 ^ n ∧ (B n).val < 4 ^ n ∧ (D n).val = logicOp isXor (A n).val (B n).val := by
  obtain ⟨⟨a, b, ha, hb, eA, eB, eD⟩, -⟩ := logic_chain_sound isXor A B D W n hA hB hD hrow
  have hR : 4 ^ n < R := lt_of_le_of_lt (Nat.pow_le_pow_right (by norm_num) hn) four_pow_127_lt_R
  have hab := logicOp_lt isXor ha hb
  rw [eA, eB, eD, val_toF_of_lt (by omega), val_toF_of_lt (by omega), val_toF_of_lt (by omega)]
  exact ⟨ha, hb, rfl⟩

/-! ### the chain: completeness (honest accumulators) -/

/-- honest accumulator: the top `i` quads of `v % 4^n` -/
def topQuads (v n i : Nat) : Nat := (v / 4 ^ (n - i)) % 4 ^ i

theorem topQuads_zero (v n : Nat) : topQuads v n 0 = 0 := by
  unfold topQuads; simp [Nat.mod_one]

theorem topQuads_self (v n : Nat) : topQuads v n n = v % 4 ^ n := by
  unfold topQuads; simp

theorem topQuads_lt (v n i : Nat) : topQuads v n i < 4 ^ i := Nat.mod_lt _ (by positivity)

theorem quadFromTop_lt (v n i : Nat) : Composer.quadFromTop v n i < 4 :=
  Nat.mod_lt _ (by norm_num)

/-- the accumulator recurrence of `append_logic_component`'s loop -/
theorem topQuads_succ (v n i : Nat) (hi : i < n) :
    topQuads v n (i + 1) = 4 * topQuads v n i + Composer.quadFromTop v n i := by
  unfold topQuads Composer.quadFromTop
  have e1 : n - i = (n - 1 - i) + 1 := by omega
  have e2 : n - (i + 1) = n - 1 - i := by omega
  rw [e1, e2, pow_succ (4) (n - 1 - i), ← Nat.div_div_eq_div_mul]
  generalize v / 4 ^ (n - 1 - i) = x
  rw [pow_succ' 4 i, Nat.mod_mul]
  omega

/-- the same recurrence through the model's field operations (for `i < 127`) -/
theorem topQuads_succ_model (v n i : Nat) (hi : i < n) (h127 : i + 1 ≤ 127) :
    fadd (fmul (topQuads v n i) 4) (Composer.quadFromTop v n i) = topQuads v n (i + 1) := by
  have h := topQuads_succ v n i hi
  have hlt := topQuads_lt v n (i + 1)
  have hR : 4 ^ (i + 1) < R :=
    lt_of_le_of_lt (Nat.pow_le_pow_right (by norm_num) h127) four_pow_127_lt_R
  unfold fadd fmul
  have : topQuads v n i * 4 < R := by omega
  rw [Nat.mod_eq_of_lt this, Nat.mod_eq_of_lt (by omega)]; omega

theorem quadFromTop_logicOp (isXor : Bool) (u v n i : Nat) :
    Composer.quadFromTop (logicOp isXor u v) n i =
      logicOp isXor (Composer.quadFromTop u n i) (Composer.quadFromTop v n i) := by
  unfold Composer.quadFromTop
  rw [logicOp_div]
  have := logicOp_mod isXor (u / 4 ^ (n - 1 - i)) (v / 4 ^ (n - 1 - i)) 1
  simpa using this

/-- **Completeness of the logic chain.** The honest accumulators (top quads of `u`, `v` and of
    `op u v`, product wire `lq·rq`) satisfy all `n` row equations, start at `0` and end at
    `u % 4^n`, `v % 4^n`, `op (u % 4^n) (v % 4^n)`. -/
theorem logic_chain_complete (isXor : Bool) (u v n : Nat) :
    let A := fun i => toF (topQuads u n i)
    let B := fun i => toF (topQuads v n i)
    let D := fun i => toF (topQuads (logicOp isXor u v) n i)
    let W := fun i => toF (Composer.quadFromTop u n i * Composer.quadFromTop v n i)
    A 0 = 0 ∧ B 0 = 0 ∧ D 0 = 0 ∧
    A n = toF (u % 4 ^ n) ∧ B n = toF (v % 4 ^ n) ∧
    D n = toF (logicOp isXor (u % 4 ^ n) (v % 4 ^ n)) ∧
    ∀ i < n, logicRowF (logicQc isXor) (A i) (A (i + 1)) (B i) (B (i + 1)) (W i) (D i) (D (i + 1)) := by
  intro A B D W
  refine ⟨by simp [A, topQuads_zero], by simp [B, topQuads_zero], by simp [D, topQuads_zero],
    by simp [A, topQuads_self], by simp [B, topQuads_self],
    by simp only [D, topQuads_self, logicOp_mod], ?_⟩
  intro i hi
  rw [logicRowF_iff]
  refine ⟨Composer.quadFromTop u n i, Composer.quadFromTop v n i, quadFromTop_lt .., quadFromTop_lt ..,
    ?_, ?_, ?_, ?_⟩
  · simp only [A]; rw [topQuads_succ u n i hi]; unfold toF; push_cast; ring
  · simp only [B]; rw [topQuads_succ v n i hi]; unfold toF; push_cast; ring
  · simp only [D]; rw [topQuads_succ _ n i hi, quadFromTop_logicOp]; unfold toF; push_cast; ring
  · simp only [W]; unfold toF; push_cast; ring

end Plonk
