/-
  C05 (prover exactness), algebraic half — the arrays that `prove` hands to `quotientEvals`
  (`cosetEvals d8 p` with its 8 wrap-around entries, the stored coset evaluations of selectors and
  sigmas, `cosetFft [0,1]`, `vanishingOverCoset`, the batch inversions, `nInv8`) store the values of
  the polynomials at the coset point `x_i = g·ω₈^i` and, eight places further, at `ω·x_i` with
  `ω = ω₈^8` the generator of the small domain: `storesAt_prove`.  This is where "the next row is
  read cyclically" is proved on the coset (`cosetEvals_getD_shift`: index `i + 8` wraps modulo `8n`).
-/
import Plonk.Proofs.QuotientExact

namespace Plonk.Quot
open Plonk Polynomial FftMath

/-! ### the generators of nested domains -/

theorem Domain.new?_gen (m : Nat) (d : Domain) (h : Domain.new? m = some d) :
    d.logSize < 32 ∧ d.size = 2 ^ d.logSize ∧ nextPow2' m = d.size ∧
    toF d.groupGen = toF ROOT_OF_UNITY ^ 2 ^ (32 - d.logSize) := by
  obtain ⟨j, hj, hp⟩ := nextPow2'_pow m
  unfold Domain.new? at h
  simp only [hp, log2_pow j hj] at h
  split at h
  · simp at h
  · next hlt =>
    simp only [TWO_ADACITY, ge_iff_le, Nat.not_le] at hlt
    injection h with h
    subst h
    refine ⟨hlt, rfl, hp, ?_⟩
    show toF ((List.range (TWO_ADACITY - j)).foldl (fun g _ => fsq g) ROOT_OF_UNITY) = _
    rw [toF_fsq_iter]; rfl

theorem nextPow2'_go_pow (j : Nat) : ∀ (f i : Nat), i ≤ j → j ≤ i + f →
    nextPow2'.go (2 ^ j) f (2 ^ i) = 2 ^ j := by
  intro f
  induction f with
  | zero => intro i h1 h2; have : i = j := by omega
            subst this; rfl
  | succ f ih =>
    intro i h1 h2
    unfold nextPow2'.go
    split
    · next hge =>
      have : j ≤ i := (Nat.pow_le_pow_iff_right (by omega)).mp hge
      have : i = j := by omega
      subst this; rfl
    · next hlt =>
      have hij : i < j := by
        by_contra hc
        have : i = j := by omega
        subst this; exact hlt (le_refl _)
      have := ih (i + 1) (by omega) (by omega)
      rwa [Nat.pow_succ, Nat.mul_comm] at this

theorem nextPow2'_pow_self (j : Nat) (hj : j ≤ 64) : nextPow2' (2 ^ j) = 2 ^ j := by
  have := nextPow2'_go_pow j 64 0 (by omega) (by omega)
  simpa [nextPow2'] using this

/-- the big domain of `prove` has exactly eight times the size of the small one, and the eighth
    power of its generator is the small generator -/
theorem gen8_pow_eight (m : Nat) (d d8 : Domain) (hd : Domain.new? m = some d)
    (hd8 : Domain.new? (8 * d.size) = some d8) :
    d8.size = 8 * d.size ∧ toF d8.groupGen ^ 8 = toF d.groupGen := by
  obtain ⟨hl, hs, -, hg⟩ := Domain.new?_gen m d hd
  obtain ⟨hl8, hs8, hn8, hg8⟩ := Domain.new?_gen _ d8 hd8
  have h8 : 8 * d.size = 2 ^ (d.logSize + 3) := by rw [hs, Nat.pow_add]; omega
  rw [h8, nextPow2'_pow_self _ (by omega)] at hn8
  have hlog : d8.logSize = d.logSize + 3 := by
    rw [hs8] at hn8
    exact (Nat.pow_right_injective (le_refl 2) hn8).symm
  refine ⟨by rw [h8, hn8], ?_⟩
  rw [hg8, hg, ← pow_mul, hlog]
  congr 1
  have : 32 - d.logSize = (32 - (d.logSize + 3)) + 3 := by omega
  rw [this, Nat.pow_add]

/-! ### `cosetEvals` -/

section coset
variable {d8 : Domain} (h8 : d8.WF)
include h8

theorem toPoly_cosetFft_getD (p : List Nat) (i : Nat) (hi : i < d8.size) :
    toF ((d8.cosetFft p).getD i 0) = (toPoly p).eval (toF GENERATOR * toF d8.groupGen ^ i) := by
  rw [Domain.toF_cosetFft_getD h8 (le_refl 1) p i hi, toPoly_eq_polyN]

/-- entry `i` of `cosetEvals`: the value at the coset point `g·ω₈^i` -/
theorem cosetEvals_getD (p : List Nat) (i : Nat) (hi : i < d8.size) :
    toF ((cosetEvals d8 p).getD i 0) = (toPoly p).eval (toF GENERATOR * toF d8.groupGen ^ i) := by
  unfold cosetEvals
  simp only [Array.getD_eq_getD_getElem?, List.getElem?_toArray, ← List.getD_eq_getElem?_getD]
  rw [getD_append', if_pos (by rw [Domain.cosetFft_length h8 (le_refl 1)]; exact hi)]
  exact toPoly_cosetFft_getD h8 p i hi

/-- entry `i + 8` of `cosetEvals` (the "next row" read of the quotient loop): the value at
    `ω₈^8·(g·ω₈^i)`; for the last eight indices the read wraps into the appended entries, which is
    the same point because `ω₈^(8n) = 1` -/
theorem cosetEvals_getD_shift (p : List Nat) (h8le : 8 ≤ d8.size) (i : Nat) (hi : i < d8.size) :
    toF ((cosetEvals d8 p).getD (i + 8) 0) =
      (toPoly p).eval (toF d8.groupGen ^ 8 * (toF GENERATOR * toF d8.groupGen ^ i)) := by
  unfold cosetEvals
  simp only [Array.getD_eq_getD_getElem?, List.getElem?_toArray, ← List.getD_eq_getElem?_getD]
  have hlen := Domain.cosetFft_length h8 (le_refl 1) p
  rw [getD_append', hlen]
  have e : toF d8.groupGen ^ 8 * (toF GENERATOR * toF d8.groupGen ^ i) =
      toF GENERATOR * toF d8.groupGen ^ (i + 8) := by rw [pow_add]; ring
  rw [e]
  split
  · next hlt => exact toPoly_cosetFft_getD h8 p (i + 8) hlt
  · next hge =>
    have hk : i + 8 - d8.size < 8 := by omega
    have : ((d8.cosetFft p).take 8).getD (i + 8 - d8.size) 0 =
        (d8.cosetFft p).getD (i + 8 - d8.size) 0 := by
      simp only [List.getD_eq_getElem?_getD, List.getElem?_take, if_pos hk]
    rw [this, toPoly_cosetFft_getD h8 p _ (by omega)]
    have hw : toF d8.groupGen ^ (i + 8) = toF d8.groupGen ^ (i + 8 - d8.size) := by
      conv_lhs => rw [show i + 8 = (i + 8 - d8.size) + d8.size by omega, pow_add,
        h8.prim.pow_eq_one, mul_one]
    rw [hw]

end coset

/-! ### `vanishingOverCoset` -/

theorem foldl_iter_map (hh g : Nat → Nat) (s : Nat) (m : Nat) :
    (List.range m).foldl (fun (acc : List Nat × Nat) _ => (hh acc.2 :: acc.1, g acc.2)) ([], s) =
      (((List.range m).map (fun i => hh (g^[i] s))).reverse, g^[m] s) := by
  induction m with
  | zero => rfl
  | succ m ih =>
    rw [List.range_succ, List.foldl_append, ih]
    simp [Function.iterate_succ_apply']

theorem toF_iterate_fmul (step p0 : Nat) (i : Nat) :
    toF ((fun a => fmul a step)^[i] p0) = toF p0 * toF step ^ i := by
  induction i with
  | zero => simp
  | succ i ih => rw [Function.iterate_succ_apply', toF_fmul, ih, pow_succ]; ring

theorem toF_vanishingOverCoset_getD (d8 : Domain) (deg : Nat) (hd : deg < 2 ^ 256)
    (i : Nat) (hi : i < d8.size) :
    toF ((d8.vanishingOverCoset deg).getD i 0) =
      (toF GENERATOR * toF d8.groupGen ^ i) ^ deg - 1 := by
  have hdeg : ∀ b : Nat, toF (fpow b deg) = toF b ^ deg := fun b => toF_fpow b deg hd
  simp only [Domain.vanishingOverCoset]
  rw [foldl_iter_map (fun a => fsub a 1) (fun a => fmul a (fpow d8.groupGen deg))]
  simp only [List.reverse_reverse]
  rw [getD_map_range _ _ _ hi, toF_fsub, toF_one, toF_iterate_fmul, hdeg, hdeg, mul_pow, ← pow_mul,
    ← pow_mul, mul_comm i deg]

/-! ### the coset avoids the small domain -/

theorem generator_pow_ne_one : toF GENERATOR ^ 2 ^ 32 ≠ 1 := by
  have h1 : fpow GENERATOR (2 ^ 32) ≠ 1 := by decide +kernel
  intro h
  apply h1
  rw [← toF_fpow _ _ (Nat.pow_lt_pow_right (by omega) (by omega)), ← toF_one] at h
  exact (toF_inj_of_lt (PolyC19.fpow_lt _ _) R_gt_one).mp h

/-- no point of the coset `g·⟨ω₈⟩` is a root of `X^n − 1` -/
theorem coset_pow_ne_one (m : Nat) (d d8 : Domain) (hd : Domain.new? m = some d)
    (hd8 : Domain.new? (8 * d.size) = some d8) (i : Nat) :
    (toF GENERATOR * toF d8.groupGen ^ i) ^ d.size ≠ 1 := by
  obtain ⟨hs8, -⟩ := gen8_pow_eight m d d8 hd hd8
  obtain ⟨hl8, hp8, -, -⟩ := Domain.new?_gen _ d8 hd8
  have h8 := Domain.new?_WF _ d8 hd8
  intro h
  have e1 : toF GENERATOR ^ d8.size = 1 := by
    have := congrArg (· ^ 8) h
    simp only [one_pow] at this
    rw [← pow_mul, mul_comm d.size 8, ← hs8, mul_pow, ← pow_mul, mul_comm i, pow_mul,
      h8.prim.pow_eq_one, one_pow, mul_one] at this
    exact this
  apply generator_pow_ne_one
  have : 2 ^ 32 = d8.size * 2 ^ (32 - d8.logSize) := by
    rw [hp8, ← Nat.pow_add]; congr 1; omega
  rw [this, pow_mul, e1, one_pow]

/-! ### the arrays of `prove` -/

/-- the polynomials behind the coefficient lists of the prover key and of the prover's rounds -/
noncomputable def polysOf (sel sigma : Array Poly) (aP bP cP dP zP piP : Poly) : ProverPolys F where
  Q := ⟨toPoly (sel.getD 0 []), toPoly (sel.getD 1 []), toPoly (sel.getD 2 []), toPoly (sel.getD 3 []),
        toPoly (sel.getD 4 []), toPoly (sel.getD 5 []), toPoly (sel.getD 6 []), toPoly (sel.getD 7 []),
        toPoly (sel.getD 8 []), toPoly (sel.getD 9 []), toPoly (sel.getD 10 [])⟩
  a := toPoly aP
  b := toPoly bP
  c := toPoly cP
  d := toPoly dP
  pi := toPoly piP
  s1 := toPoly (sigma.getD 0 [])
  s2 := toPoly (sigma.getD 1 [])
  s3 := toPoly (sigma.getD 2 [])
  s4 := toPoly (sigma.getD 3 [])
  z := toPoly zP

/-- the stored coset evaluations of an array of polynomials (`selE`, `sigE8` of the prover key) -/
theorem stored_getD {d8 : Domain} (h8 : d8.WF) (arr : Array Poly) (j i : Nat) (hi : i < d8.size) :
    toF (((arr.map fun p => (d8.cosetFft p).toArray).getD j #[]).getD i 0) =
      (toPoly (arr.getD j [])).eval (toF GENERATOR * toF d8.groupGen ^ i) := by
  by_cases hj : j < arr.size
  · simp only [Array.getD_eq_getD_getElem?, Array.getElem?_map, Array.getElem?_eq_getElem hj,
      Option.map_some, Option.getD_some, List.getElem?_toArray, ← List.getD_eq_getElem?_getD]
    exact toPoly_cosetFft_getD h8 _ i hi
  · have hn : arr[j]? = none := Array.getElem?_eq_none (by omega)
    simp [Array.getD_eq_getD_getElem?, Array.getElem?_map, hn]

theorem pow_mod_eight {ζ : F} (h : ζ ^ 8 = 1) (i : Nat) : ζ ^ (i % 8) = ζ ^ i := by
  conv_rhs => rw [← Nat.div_add_mod i 8, pow_add, pow_mul, h, one_pow, one_mul]

/-- **The arrays of `prove` store the polynomial values on the coset.** With `d`, `d8` the two
    domains of `prove`, the arrays built as `prove` / `compile` build them satisfy `StoresAt` at every
    index `i < 8n`, for the point `x_i = g·ω₈^i` and `ω = ` generator of `d`. -/
theorem storesAt_prove (m : Nat) (d d8 : Domain) (hd : Domain.new? m = some d)
    (hd8 : Domain.new? (8 * d.size) = some d8) (sel sigma : Array Poly) (aP bP cP dP zP piP : Poly)
    (vh linE : Array Nat) (hvh : vh = (d8.vanishingOverCoset d.size).toArray)
    (hlin : linE = (d8.cosetFft [0, 1]).toArray) (i : Nat) (hi : i < d8.size) :
    StoresAt (toF d.groupGen) (toF GENERATOR * toF d8.groupGen ^ i) d.size
      (polysOf sel sigma aP bP cP dP zP piP)
      (sel.map fun p => (d8.cosetFft p).toArray) (sigma.map fun p => (d8.cosetFft p).toArray)
      linE (cosetEvals d8 aP) (cosetEvals d8 bP) (cosetEvals d8 cP) (cosetEvals d8 dP)
      (cosetEvals d8 zP) (d8.cosetFft piP).toArray vh
      (batchInversion ((vh.toList).take 8)).toArray
      (batchInversion (linE.toList.map fun e => fsub e 1)).toArray (fmul d8.sizeInv 8) i := by
  obtain ⟨hs8, hg8⟩ := gen8_pow_eight m d d8 hd hd8
  have h8 := Domain.new?_WF _ d8 hd8
  have hw := Domain.new?_WF _ d hd
  have h8le : 8 ≤ d8.size := by have := hw.size_pos; omega
  have hdlt : d.size < 2 ^ 256 := hw.size_lt
  have hvlen : (d8.vanishingOverCoset d.size).length = d8.size := by
    simp only [Domain.vanishingOverCoset]
    rw [foldl_iter_map (fun a => fsub a 1) (fun a => fmul a (fpow d8.groupGen d.size))]
    simp
  subst hvh hlin
  have hlinv : ∀ k < d8.size, toF ((d8.cosetFft [0, 1]).getD k 0) =
      toF GENERATOR * toF d8.groupGen ^ k := by
    intro k hk
    rw [toPoly_cosetFft_getD h8 _ k hk]; simp
  constructor
  · simp only [selAt, polysOf, Sel.map, stored_getD h8 sel _ i hi]
  · exact cosetEvals_getD h8 aP i hi
  · exact cosetEvals_getD h8 bP i hi
  · exact cosetEvals_getD h8 cP i hi
  · exact cosetEvals_getD h8 dP i hi
  · rw [← hg8]; exact cosetEvals_getD_shift h8 aP h8le i hi
  · rw [← hg8]; exact cosetEvals_getD_shift h8 bP h8le i hi
  · rw [← hg8]; exact cosetEvals_getD_shift h8 dP h8le i hi
  · simp only [Array.getD_eq_getD_getElem?, List.getElem?_toArray, ← List.getD_eq_getElem?_getD]
    exact toPoly_cosetFft_getD h8 piP i hi
  · simp only [Array.getD_eq_getD_getElem?, List.getElem?_toArray, ← List.getD_eq_getElem?_getD]
    exact hlinv i hi
  · exact stored_getD h8 sigma 0 i hi
  · exact stored_getD h8 sigma 1 i hi
  · exact stored_getD h8 sigma 2 i hi
  · exact stored_getD h8 sigma 3 i hi
  · exact cosetEvals_getD h8 zP i hi
  · rw [← hg8]; exact cosetEvals_getD_shift h8 zP h8le i hi
  · simp only [Array.getD_eq_getD_getElem?, List.getElem?_toArray, ← List.getD_eq_getElem?_getD]
    exact toF_vanishingOverCoset_getD d8 d.size hdlt i hi
  · simp only [Array.getD_eq_getD_getElem?, List.getElem?_toArray, ← List.getD_eq_getElem?_getD]
    rw [toF_batchInversion_getD]
    have hk : i % 8 < 8 := Nat.mod_lt _ (by omega)
    have : ((d8.vanishingOverCoset d.size).take 8).getD (i % 8) 0 =
        (d8.vanishingOverCoset d.size).getD (i % 8) 0 := by
      simp only [List.getD_eq_getElem?_getD, List.getElem?_take, if_pos hk]
    rw [this, toF_vanishingOverCoset_getD d8 d.size hdlt (i % 8) (by omega)]
    have hz : (toF d8.groupGen ^ d.size) ^ 8 = 1 := by
      rw [← pow_mul, mul_comm, ← hs8, h8.prim.pow_eq_one]
    rw [mul_pow, mul_pow, ← pow_mul, mul_comm (i % 8), pow_mul, pow_mod_eight hz, ← pow_mul,
      mul_comm d.size i, pow_mul]
  · simp only [Array.getD_eq_getD_getElem?, List.getElem?_toArray, ← List.getD_eq_getElem?_getD]
    rw [toF_batchInversion_getD]
    have hlen : i < (d8.cosetFft [0, 1]).length := by
      rw [Domain.cosetFft_length h8 (le_refl 1)]; exact hi
    rw [getD_eq_getElem' _ _ (by simpa using hlen), List.getElem_map, toF_fsub, toF_one,
      ← getD_eq_getElem' _ _ hlen, hlinv i hi]
  · rw [toF_fmul, h8.sizeInv, hs8]
    have h0 : ((8 * d.size : ℕ) : F) ≠ 0 := by rw [← hs8]; exact h8.size_ne_zero
    have e : toF 8 = 8 := toF_ofNat 8
    rw [e]
    push_cast at h0 ⊢
    have h80 : (8 : F) ≠ 0 := left_ne_zero_of_mul h0
    have hn0 : (d.size : F) ≠ 0 := right_ne_zero_of_mul h0
    field_simp

/-- **The quotient evaluations inside `prove`.** Entry `i < 8n` of `quotientEvals`, called on the
    arrays `prove` builds, is the value of `Num / (X^n − 1)` at the coset point `g·ω₈^i`, where `Num` is
    the numerator polynomial of the polynomials behind the coefficient lists. -/
theorem quotient_entry_prove (m : Nat) (d d8 : Domain) (hd : Domain.new? m = some d)
    (hd8 : Domain.new? (8 * d.size) = some d8) (sel sigma : Array Poly) (aP bP cP dP zP piP : Poly)
    (vh linE : Array Nat) (hvh : vh = (d8.vanishingOverCoset d.size).toArray)
    (hlin : linE = (d8.cosetFft [0, 1]).toArray)
    (beta gamma alpha rSep lSep fSep vSep : Nat) (i : Nat) (hi : i < d8.size) :
    toF ((quotientEvals d8.size (sel.map fun p => (d8.cosetFft p).toArray)
        (sigma.map fun p => (d8.cosetFft p).toArray) linE (cosetEvals d8 aP) (cosetEvals d8 bP)
        (cosetEvals d8 cP) (cosetEvals d8 dP) (cosetEvals d8 zP) (d8.cosetFft piP).toArray vh
        (batchInversion ((vh.toList).take 8)).toArray
        (batchInversion (linE.toList.map fun e => fsub e 1)).toArray (fmul d8.sizeInv 8)
        beta gamma alpha rSep lSep fSep vSep).getD i 0) =
      (NumP (toF d.groupGen) d.size (polysOf sel sigma aP bP cP dP zP piP)
          ⟨toF beta, toF gamma, toF alpha⟩ ⟨toF rSep, toF lSep, toF fSep, toF vSep⟩).eval
        (toF GENERATOR * toF d8.groupGen ^ i) *
        ((toF GENERATOR * toF d8.groupGen ^ i) ^ d.size - 1)⁻¹ :=
  quotient_entry_coset (coset_pow_ne_one m d d8 hd hd8 i) _ d8.size _ _ _ _ _ _ _ _ _ _ _ _ _ _ _ _ _
    _ _ _ i hi (storesAt_prove m d d8 hd hd8 sel sigma aP bP cP dP zP piP vh linE hvh hlin i hi)

end Plonk.Quot
