/-
  C02 (soundness) — a concrete instance for the non-vacuity example of `soundness_algebraic`:
  two rows `a + b + c = 0` with `(a, b, c, d) = (1, 2, −3, 0)`, eight distinct witnesses (so `σ` is
  the identity), domain `{1, −1}`, constant wire polynomials, accumulator `Z = 1`.  The numerator
  polynomial is identically zero, the quotient is `T = 0`; good challenges exist because the bad
  sets are smaller than the field.
-/
import Plonk.Proofs.SoundnessCount
import Plonk.Proofs.SoundnessExamples
import Plonk.Proofs.SoundnessWitness
import Plonk.Proofs.SoundnessVerifier

namespace Plonk.Sound
open Polynomial Plonk Plonk.Quot Plonk.Perm

/-- the layout: two addition rows, eight distinct witnesses -/
def exLay2 : Composer :=
  { gates := #[{ ql := 1, qr := 1, qo := 1, qarith := 1, a := 0, b := 1, c := 2, d := 3 },
               { ql := 1, qr := 1, qo := 1, qarith := 1, a := 4, b := 5, c := 6, d := 7 }],
    wit := #[1, 2, R - 3, 0, 1, 2, R - 3, 0] }

/-- the polynomials: constant selectors and wires, `σ_col = K_col·X`, `Z = 1` -/
noncomputable def exP2 : ProverPolys F :=
  { Q := ⟨0, C 1, C 1, C 1, 0, 0, C 1, 0, 0, 0, 0⟩
    a := C 1, b := C 2, c := C (-3), d := 0, pi := 0
    s1 := X, s2 := C (Generated.K1 : F) * X, s3 := C (Generated.K2 : F) * X,
    s4 := C (Generated.K3 : F) * X, z := C 1 }

theorem exLay2_sigma (p : Pos) : sigmaFn exLay2 p = p := by
  by_cases ha : Active exLay2 p
  · obtain ⟨⟨h1, h2⟩, -⟩ := ha
    obtain ⟨c, i⟩ := p
    have hi : i < 2 := h2
    have hc : c < 4 := h1
    interval_cases i <;> interval_cases c <;> decide +kernel
  · exact sigmaFn_of_not_active ha

theorem exLay2_gateAt (i : Nat) (hi : i < 2) :
    Quot.selF (exLay2.gateAt i) = ⟨0, 1, 1, 1, 0, 0, 1, 0, 0, 0, 0⟩ := by
  interval_cases i <;> simp [Quot.selF, Composer.gateAt, exLay2]

theorem exLay2_piAt (i : Nat) : exLay2.piAt i = 0 := by
  simp [Composer.piAt, exLay2]

theorem exKey : KeyInterp (-1) (2 ^ 1) exLay2 exP2 where
  sel := fun i hi => by
    rw [exLay2_gateAt i hi]
    simp [Sel.map, exP2]
  pi := fun i _ => by rw [exLay2_piAt]; simp [exP2]
  s1 := fun i _ => by
    rw [exLay2_sigma]
    have e0 : toF (kOf 0) = 1 := by show toF 1 = 1; exact toF_one
    simp [exP2, idLabel, e0]
  s2 := fun i _ => by
    rw [exLay2_sigma]
    have e : toF (kOf 1) = (Generated.K1 : F) := rfl
    simp [exP2, idLabel, e]
  s3 := fun i _ => by
    rw [exLay2_sigma]
    have e : toF (kOf 2) = (Generated.K2 : F) := rfl
    simp [exP2, idLabel, e]
  s4 := fun i _ => by
    rw [exLay2_sigma]
    have e : toF (kOf 3) = (Generated.K3 : F) := rfl
    simp [exP2, idLabel, e]

theorem exLay2_selReduced (i : Nat) : SelReduced (exLay2.gateAt i) := by
  have h : ∀ g : Gate, g.qrange = 0 → g.qlogic = 0 → g.qfixed = 0 → g.qvar = 0 → SelReduced g :=
    fun g h1 h2 h3 h4 => ⟨by rw [h1]; exact R_pos, by rw [h2]; exact R_pos, by rw [h3]; exact R_pos,
      by rw [h4]; exact R_pos⟩
  by_cases hi : i < 2
  · interval_cases i <;> exact h _ rfl rfl rfl rfl
  · have : exLay2.gateAt i = {} := by
      simp only [Composer.gateAt, exLay2, Array.getD_eq_getD_getElem?]
      rw [Array.getElem?_eq_none (by simp; omega)]
      rfl
    rw [this]; exact h _ rfl rfl rfl rfl

/-- the numerator polynomial of the instance is identically zero -/
theorem ex_NumP_zero (β γ α : F) (s : Seps F) : NumP (-1) (2 ^ 1) exP2 ⟨β, γ, α⟩ s = 0 := by
  simp only [NumP, numR, gateSumR, arithR, permStepR, permNumR, permDenR, exP2, Chal.map, shiftP,
    zero_mul, mul_zero, add_zero, one_comp, zero_add, C_eq_natCast, C_neg, C_ofNat, C_1]
  ring

/-- any Finset smaller than the field misses an element -/
theorem exists_notMem_of_card_lt (B : Finset F) (h : B.card < R) : ∃ x, x ∉ B := by
  by_contra hall
  have : B = Finset.univ := Finset.eq_univ_iff_forall.mpr (fun x => by
    by_contra hx; exact hall ⟨x, hx⟩)
  rw [this, card_univ_F] at h
  omega

theorem exists_notMem_of_card_lt4 (B : Finset (F × F × F × F)) (h : B.card < R * (R * (R * R))) :
    ∃ x, x ∉ B := by
  by_contra hall
  have : B = Finset.univ := Finset.eq_univ_iff_forall.mpr (fun x => by
    by_contra hx; exact hall ⟨x, hx⟩)
  rw [this, Finset.card_univ, card_F4] at h
  omega

theorem hundred_lt_R : 100 < R := by decide +kernel

/-- **non-vacuity of `soundness_algebraic`**: challenges outside all five bad sets exist for the
    instance, and the quotient identity holds at `z = 5` with `T = 0` -/
theorem ex_soundness_hyps :
    ∃ β γ t α,
      β ∉ betaBad (-1) (2 ^ 1) exLay2 exP2 ∧ γ ∉ gammaBadM (-1) (2 ^ 1) exLay2 exP2 β ∧
      t ∉ sepBad (-1) (2 ^ 1) exLay2 exP2 ∧
      α ∉ alphaBadM (-1) (2 ^ 1) exLay2 exP2 β γ (sepsOf t) ∧
      (5 : F) ∉ idBad (NumP (-1) (2 ^ 1) exP2 ⟨β, γ, α⟩ (sepsOf t)) 0 (2 ^ 1) ∧
      (NumP (-1) (2 ^ 1) exP2 ⟨β, γ, α⟩ (sepsOf t)).eval 5 = (0 : F[X]).eval 5 * ((5 : F) ^ 2 ^ 1 - 1) := by
  have hR := hundred_lt_R
  obtain ⟨β, hβ⟩ := exists_notMem_of_card_lt _
    (lt_of_le_of_lt (betaBad_card_le (-1) (2 ^ 1) exLay2 exP2) (by omega))
  obtain ⟨γ, hγ⟩ := exists_notMem_of_card_lt _
    (lt_of_le_of_lt (gammaBadM_card_le (-1) (2 ^ 1) exLay2 exP2 β) (by omega))
  obtain ⟨t, ht⟩ := exists_notMem_of_card_lt4 _
    (lt_of_le_of_lt (sepBad_card_le (-1) (2 ^ 1) exLay2 exP2 (fun i _ => exLay2_selReduced i)) (by
      have h3 : 0 < R * (R * R) := by positivity
      calc 2 ^ 1 * (9 * (R * (R * R))) = 18 * (R * (R * R)) := by ring
        _ < R * (R * (R * R)) := Nat.mul_lt_mul_of_pos_right (by omega) h3))
  obtain ⟨α, hα⟩ := exists_notMem_of_card_lt _
    (lt_of_le_of_lt (alphaBadM_card_le (-1) (2 ^ 1) exLay2 exP2 β γ (sepsOf t)) (by omega))
  refine ⟨β, γ, t, α, hβ, hγ, ht, hα, ?_, ?_⟩
  · rw [ex_NumP_zero]; simp [idBad]
  · rw [ex_NumP_zero]; simp

/-- the two permutation identities of the instance vanish on the domain, for all `β γ` -/
theorem ex_perm_identities (β γ : F) (i : Nat) :
    permAtRow (-1) (2 ^ 1) exLay2 exP2 β γ i = 0 ∧ l1AtRow (-1) exP2 i = 0 := by
  constructor
  · unfold permAtRow
    rw [exLay2_sigma, exLay2_sigma, exLay2_sigma, exLay2_sigma, permNum_eq_factors]
    simp only [permDenR, exP2, eval_C]
    ring
  · simp [l1AtRow, exP2]

theorem ex_good_beta_gamma : ∃ β γ, β ∉ betaBad (-1) (2 ^ 1) exLay2 exP2 ∧
    γ ∉ gammaBadM (-1) (2 ^ 1) exLay2 exP2 β := by
  obtain ⟨β, γ, _, _, hβ, hγ, _⟩ := ex_soundness_hyps
  exact ⟨β, γ, hβ, hγ⟩

theorem ex_soundness_struct : (1 ≤ 32) ∧ exLay2.gates.size ≤ 2 ^ 1 ∧
    IsPrimitiveRoot (-1 : F) (2 ^ 1) :=
  ⟨by omega, by decide, by simpa using neg_one_primitive⟩

/-- the instance layout is well formed: all wires allocated, the last row is an arithmetic row -/
theorem exLay2_wf : LayoutWF exLay2 where
  alloc := by
    intro p h1 h2
    obtain ⟨c, i⟩ := p
    have hi : i < 2 := h2
    have hc : c < 4 := h1
    interval_cases i <;> interval_cases c <;> decide +kernel
  lastPlain := by
    intro i hi
    have : i = 1 := by
      have : exLay2.gates.size = 2 := rfl
      omega
    subst this
    exact ⟨rfl, rfl, rfl, rfl⟩

theorem exLay2_padded : exLay2.paddedSize = 2 ^ 1 := by decide

/-! ### an instance for the verifier link: every commitment is interpreted as the constant `7` -/

noncomputable def exP3 : ProverPolys F :=
  { Q := ⟨C 7, C 7, C 7, C 7, C 7, C 7, C 7, C 7, C 7, C 7, C 7⟩
    a := C 1, b := C 2, c := C 3, d := C 4, pi := 0
    s1 := C 5, s2 := C 5, s3 := C 5, s4 := C 7, z := C 7 }

def exEv3 : Evals :=
  { a := 1, b := 2, c := 3, d := 4, aw := 1, bw := 2, dw := 4, qarith := 7, qc := 7, ql := 7, qr := 7,
    s1 := 5, s2 := 5, s3 := 5, z := 7 }

theorem ex_agmRep (k : VKey) (p : ProofM) : AgmRep (fun _ => C 7) k p exP3 :=
  ⟨rfl, rfl, rfl, rfl, rfl, rfl, rfl, rfl, rfl, rfl, rfl, rfl⟩

theorem ex_trueEvals : TrueEvals (-1) (toF 5) exEv3 exP3 := by
  constructor <;> simp [exEv3, exP3, toF]

theorem ex_verifier_side : toF 24 = toF 5 ^ 2 - 1 ∧ toF 3 = (L1P 2).eval (toF 5) ∧
    toF 0 = exP3.pi.eval (toF 5) := by
  refine ⟨by simp [toF]; norm_num, ?_, by simp [exP3]⟩
  rw [eval_L1P]
  simp only [toF, Nat.cast_ofNat, Finset.sum_range_succ, Finset.sum_range_zero, pow_zero, pow_one,
    zero_add]
  have h2 := two_ne_zero_F
  field_simp
  norm_num

end Plonk.Sound
