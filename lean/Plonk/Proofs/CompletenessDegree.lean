/-
  C01 (completeness): the degree of the numerator and of the quotient for the HONEST prover's
  polynomials.

  `Sound.natDegree_NumP_le` (one bound `e` for all polynomials) gives `deg Num ≤ 5e + n`; with the
  honest bound `e = n + 2` (the blinded accumulator) this is `6n + 10`, i.e. a quotient of degree
  `≤ 5n + 10` — NOT enough for `commitments_fit` (`t.length ≤ 4n + 7`).  The refinement below keeps
  the accumulator apart: selector / public-input / sigma / wire polynomials of degree `≤ e`,
  accumulator of degree `≤ f` (`e ≤ f`, `n ≤ 4e + 1`) give `deg Num ≤ 4e + f`; with `e = n + 1`
  (wires blinded with two scalars), `f = n + 2` (accumulator blinded with three) this is `5n + 6`,
  so `deg T ≤ 4n + 6`: the quotient has at most `4n + 7` coefficients, exactly the capacity assumed
  by `commitments_fit`.
-/
import Mathlib.Tactic.ComputeDegree
import Plonk.Proofs.SoundnessDegree
import Plonk.Proofs.CompletenessCore

namespace Plonk.Complete
open Polynomial Plonk.Quot Plonk.Sound

section
variable {K : Type*} [Field K]

/-- selector, public-input, sigma and wire polynomials of degree `≤ e`, accumulator `≤ f` -/
structure PolysDeg2 (P : ProverPolys K) (e f : ℕ) : Prop where
  Q : SelDeg P.Q e
  a : P.a.natDegree ≤ e
  b : P.b.natDegree ≤ e
  c : P.c.natDegree ≤ e
  d : P.d.natDegree ≤ e
  pi : P.pi.natDegree ≤ e
  s1 : P.s1.natDegree ≤ e
  s2 : P.s2.natDegree ≤ e
  s3 : P.s3.natDegree ≤ e
  s4 : P.s4.natDegree ≤ e
  z : P.z.natDegree ≤ f

theorem PolysDeg2.toPolysDeg {P : ProverPolys K} {e f : ℕ} (h : PolysDeg2 P e f) (hef : e ≤ f) :
    PolysDeg P f :=
  ⟨⟨h.Q.qm.trans hef, h.Q.ql.trans hef, h.Q.qr.trans hef, h.Q.qo.trans hef, h.Q.qf.trans hef,
    h.Q.qc.trans hef, h.Q.qarith.trans hef, h.Q.qrange.trans hef, h.Q.qlogic.trans hef,
    h.Q.qfixed.trans hef, h.Q.qvar.trans hef⟩, h.a.trans hef, h.b.trans hef, h.c.trans hef,
    h.d.trans hef, h.pi.trans hef, h.s1.trans hef, h.s2.trans hef, h.s3.trans hef, h.s4.trans hef,
    h.z⟩

theorem deg_permStepR2 (β γ α : K) (w : Wires K[X]) (s1 s2 s3 s4 z zs l : K[X]) (e f : ℕ)
    (he : 1 ≤ e) (hw : WiresDeg w e) (h1 : s1.natDegree ≤ e) (h2 : s2.natDegree ≤ e)
    (h3 : s3.natDegree ≤ e) (h4 : s4.natDegree ≤ e) (hz : z.natDegree ≤ f)
    (hzs : zs.natDegree ≤ f) :
    (permStepR ⟨C β, C γ, C α⟩ w ⟨X, s1, s2, s3, s4, z, zs, l⟩).natDegree ≤ 4 * e + f := by
  have hn := deg_permNumR β γ w.a w.b w.c w.d e he hw.a hw.b hw.c hw.d
  have hd := deg_permDenR β γ w.a w.b w.c w.d s1 s2 s3 s4 e hw.a hw.b hw.c hw.d h1 h2 h3 h4
  simp only [permStepR]
  generalize permNumR (C β) (C γ) w.a w.b w.c w.d X = N at hn
  generalize permDenR (C β) (C γ) w.a w.b w.c w.d s1 s2 s3 s4 = D at hd
  compute_degree
  omega

/-- **`deg Num ≤ 4e + f`** for the honest prover's degree profile -/
theorem natDegree_NumP_le2 (ω : K) (n : ℕ) (P : ProverPolys K) (ch : Chal K) (s : Seps K) (e f : ℕ)
    (he : 1 ≤ e) (hef : e ≤ f) (hn : n ≤ 4 * e + 1) (hP : PolysDeg2 P e f) :
    (NumP ω n P ch s).natDegree ≤ 4 * e + f := by
  have hw : WiresDeg (⟨P.a, P.b, P.c, P.d, shiftP ω P.a, shiftP ω P.b, shiftP ω P.d⟩ : Wires K[X]) e :=
    ⟨hP.a, hP.b, hP.c, hP.d, (natDegree_shiftP_le ω _).trans hP.a,
      (natDegree_shiftP_le ω _).trans hP.b, (natDegree_shiftP_le ω _).trans hP.d⟩
  have hg := deg_gateSumR P.Q _ P.pi s e hP.Q hw hP.pi
  have hp := deg_permStepR2 ch.β ch.γ ch.α _ P.s1 P.s2 P.s3 P.s4 P.z (shiftP ω P.z) (L1P n) e f he hw
    hP.s1 hP.s2 hP.s3 hP.s4 hP.z ((natDegree_shiftP_le ω _).trans hP.z)
  have hl := natDegree_L1P_le (K := K) n
  have hz := hP.z
  unfold NumP numR
  simp only [Chal.map] at hp ⊢
  generalize gateSumR P.Q (⟨P.a, P.b, P.c, P.d, shiftP ω P.a, shiftP ω P.b, shiftP ω P.d⟩ : Wires K[X])
    P.pi (s.map C) = G at hg
  generalize permStepR (⟨C ch.β, C ch.γ, C ch.α⟩ : Chal K[X])
    (⟨P.a, P.b, P.c, P.d, shiftP ω P.a, shiftP ω P.b, shiftP ω P.d⟩ : Wires K[X])
    (⟨X, P.s1, P.s2, P.s3, P.s4, P.z, shiftP ω P.z, L1P n⟩ : PermRow K[X]) = S at hp
  generalize (L1P n : K[X]) = L at hl
  compute_degree
  omega

/-- **degree of the quotient**: `Num = T·(Xⁿ − 1)` ⇒ `deg T ≤ 4e + f − n` -/
theorem natDegree_quotient_le2 (ω : K) (n : ℕ) (hn0 : 0 < n) (P : ProverPolys K) (ch : Chal K)
    (s : Seps K) (e f : ℕ) (he : 1 ≤ e) (hef : e ≤ f) (hn : n ≤ 4 * e + 1) (hP : PolysDeg2 P e f)
    (T : K[X]) (hT : NumP ω n P ch s = T * (X ^ n - 1)) : T.natDegree ≤ 4 * e + f - n :=
  natDegree_quotient_le hn0 _ T hT _ (natDegree_NumP_le2 ω n P ch s e f he hef hn hP)

/-- the honest profile: wires blinded with two scalars (`deg ≤ n + 1`), accumulator with three
    (`deg ≤ n + 2`), everything else interpolated (`deg ≤ n − 1 ≤ n + 1`): `deg T ≤ 4n + 6` -/
theorem natDegree_quotient_honest (ω : K) (n : ℕ) (hn0 : 0 < n) (P : ProverPolys K) (ch : Chal K)
    (s : Seps K) (hP : PolysDeg2 P (n + 1) (n + 2)) (T : K[X])
    (hT : NumP ω n P ch s = T * (X ^ n - 1)) :
    (NumP ω n P ch s).natDegree ≤ 5 * n + 6 ∧ T.natDegree ≤ 4 * n + 6 := by
  have h1 := natDegree_NumP_le2 ω n P ch s (n + 1) (n + 2) (by omega) (by omega) (by omega) hP
  have h2 := natDegree_quotient_le2 ω n hn0 P ch s (n + 1) (n + 2) (by omega) (by omega) (by omega)
    hP T hT
  exact ⟨by omega, by omega⟩

end

end Plonk.Complete
