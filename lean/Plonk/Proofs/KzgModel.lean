/-
  C20, level (B): facts about the executable list code of `Plonk/Model/Kzg.lean`
  (setup shape, trimming, degree guard, batch rejection, powers, flattening, aggregate witness).
  The group operations `G1.add / G1.smul / G1.msum` are left uninterpreted here: every statement
  is about how the model arranges scalars, lists and error codes around them.
-/
import Plonk.Proofs.PolyBridge
import Plonk.Proofs.KzgMath
import Plonk.Model.Kzg

namespace Plonk
open Polynomial Poly KzgMath

/-! ### `nextNonzero`, `powersOf` -/

theorem nextNonzero_none_iff (ds : List Nat) : nextNonzero ds = none ↔ ∀ d ∈ ds, d % R = 0 := by
  induction ds with
  | nil => simp [nextNonzero]
  | cons d ds ih =>
    unfold nextNonzero
    by_cases h : d % R = 0
    · simp [h, ih]
    · simp [h]

/-- `nextNonzero` skips exactly a block of zero draws and returns the first non-zero one,
    reduced, together with the remaining draws -/
theorem nextNonzero_some {ds : List Nat} {x : Nat} {rest : List Nat}
    (h : nextNonzero ds = some (x, rest)) :
    ∃ pre d, ds = pre ++ d :: rest ∧ (∀ a ∈ pre, a % R = 0) ∧ x = d % R ∧ x ≠ 0 ∧ x < R := by
  induction ds with
  | nil => simp [nextNonzero] at h
  | cons d ds ih =>
    unfold nextNonzero at h
    by_cases h0 : d % R = 0
    · simp only [h0, beq_self_eq_true, if_true] at h
      obtain ⟨pre, d', rfl, hpre, hx⟩ := ih h
      exact ⟨d :: pre, d', rfl, by simpa [h0] using hpre, hx⟩
    · have : (d % R == 0) = false := by simpa using h0
      simp only [this] at h
      simp only [Bool.false_eq_true, if_false, Option.some.injEq, Prod.mk.injEq] at h
      obtain ⟨rfl, rfl⟩ := h
      exact ⟨[], d, rfl, by simp, rfl, h0, Nat.mod_lt _ R_pos⟩

theorem powersOf_fold (x n : Nat) :
    (List.range n).foldl (fun (acc : List Nat × Nat) _ => (acc.2 :: acc.1, fmul acc.2 x))
        ([], 1 % R)
      = (((List.range n).map fun i => x ^ i % R).reverse, x ^ n % R) := by
  induction n with
  | zero => simp
  | succ n ih =>
    rw [List.range_succ, List.foldl_append, ih]
    simp only [List.foldl_cons, List.foldl_nil, List.map_append, List.map_cons, List.map_nil,
      List.reverse_append, List.reverse_cons, List.reverse_nil, List.nil_append,
      List.cons_append, Prod.mk.injEq, true_and]
    unfold fmul
    rw [Nat.mod_mul_mod, pow_succ]

/-- `powersOf x n = [x⁰, x¹, …, xⁿ]` (reduced mod `R`) -/
theorem powersOf_eq (x n : Nat) : powersOf x n = (List.range (n + 1)).map fun i => x ^ i % R := by
  unfold powersOf
  rw [powersOf_fold]; simp

theorem length_powersOf (x n : Nat) : (powersOf x n).length = n + 1 := by
  rw [powersOf_eq]; simp

theorem getD_powersOf (x n i : Nat) (hi : i ≤ n) : (powersOf x n).getD i 0 = x ^ i % R := by
  rw [powersOf_eq, List.getD_eq_getElem?_getD, List.getElem?_map,
    List.getElem?_range (by omega)]
  rfl

theorem toF_pow_mod (x i : Nat) : toF (x ^ i % R) = toF x ^ i := by
  rw [toF_mod]; unfold toF; push_cast; rfl

/-- in the field: the `i`-th entry is `xⁱ` -/
theorem map_toF_powersOf (x n : Nat) :
    (powersOf x n).map toF = (List.range (n + 1)).map fun i => toF x ^ i := by
  rw [powersOf_eq, List.map_map]
  exact List.map_congr_left (fun i _ => toF_pow_mod x i)

/-! ### `SRS.setup` -/

theorem setup_degreeIsZero_iff (m : Nat) (draws : List Nat) :
    SRS.setup m draws = .error .degreeIsZero ↔ m < 1 := by
  unfold SRS.setup
  by_cases h : m < 1
  · simp [h]
  · simp only [h, if_false, iff_false]
    cases nextNonzero draws with
    | none => simp
    | some xd =>
      obtain ⟨x, d1⟩ := xd
      dsimp only
      cases nextNonzero d1 with
      | none => simp
      | some xd2 =>
        obtain ⟨sg, d2⟩ := xd2
        dsimp only
        cases nextNonzero d2 with
        | none => simp
        | some xd3 => simp

/-- shape of a successful setup: ONE secret `x` (the first non-zero draw), the commit key is
    `[x⁰]g, [x¹]g, …, [x^(m+blind)]g`, the opening key holds `h` and `[x]h` for the same `x` -/
theorem setup_ok {m : Nat} {draws : List Nat} {s : SRS} (h : SRS.setup m draws = .ok s) :
    1 ≤ m ∧ ∃ sg sh d1 d2 d3,
      nextNonzero draws = some (s.x, d1) ∧ nextNonzero d1 = some (sg, d2) ∧
      nextNonzero d2 = some (sh, d3) ∧
      s.g = G1.smul sg G1.gen ∧ s.h = G2.smul sh G2.gen ∧ s.xh = G2.smul s.x s.h ∧
      s.powers = (powersOf s.x (m + Generated.ADDED_BLINDING_DEGREE)).map (fun k => G1.smul k s.g) := by
  unfold SRS.setup at h
  by_cases hm : m < 1
  · simp [hm] at h
  · simp only [hm, if_false] at h
    refine ⟨by omega, ?_⟩
    cases h1 : nextNonzero draws with
    | none => simp [h1] at h
    | some xd =>
      obtain ⟨x, d1⟩ := xd
      rw [h1] at h
      dsimp only at h
      cases h2 : nextNonzero d1 with
      | none => simp [h2] at h
      | some xd2 =>
        obtain ⟨sg, d2⟩ := xd2
        rw [h2] at h
        dsimp only at h
        cases h3 : nextNonzero d2 with
        | none => simp [h3] at h
        | some xd3 =>
          obtain ⟨sh, d3⟩ := xd3
          rw [h3] at h
          dsimp only at h
          injection h with h
          subst h
          exact ⟨sg, sh, d1, d2, d3, rfl, h2, h3, by dsimp only, by dsimp only, by dsimp only,
            by dsimp only⟩

theorem setup_powers_length {m : Nat} {draws : List Nat} {s : SRS}
    (h : SRS.setup m draws = .ok s) :
    s.powers.length = m + Generated.ADDED_BLINDING_DEGREE + 1 := by
  obtain ⟨_, _, _, _, _, _, _, _, _, _, _, _, hp⟩ := setup_ok h
  rw [hp, List.length_map, length_powersOf]

/-- the `i`-th point of the key is `[xⁱ mod r] g` -/
theorem setup_powers_eq {m : Nat} {draws : List Nat} {s : SRS}
    (h : SRS.setup m draws = .ok s) :
    s.powers = (List.range (m + Generated.ADDED_BLINDING_DEGREE + 1)).map
      (fun i => G1.smul (s.x ^ i % R) s.g) := by
  obtain ⟨_, _, _, _, _, _, _, _, _, _, _, _, hp⟩ := setup_ok h
  rw [hp, powersOf_eq, List.map_map]; rfl

theorem setup_secret_nonzero {m : Nat} {draws : List Nat} {s : SRS}
    (h : SRS.setup m draws = .ok s) : s.x ≠ 0 ∧ s.x < R ∧ toF s.x ≠ 0 := by
  obtain ⟨_, _, _, _, _, _, h1, _⟩ := setup_ok h
  obtain ⟨_, _, _, _, _, hx⟩ := nextNonzero_some h1
  exact ⟨hx.1, hx.2, fun h0 => hx.1 ((toF_eq_zero_of_lt hx.2).mp h0)⟩

/-! ### `truncateKey`, `SRS.trim` -/

theorem truncateKey_zero_iff (powers : List G1) (d : Nat) :
    truncateKey powers d = .error .truncatedDegreeIsZero ↔ d = 0 := by
  unfold truncateKey
  by_cases h0 : d = 0
  · simp [h0]
  · by_cases h1 : d > powers.length - 1 <;> simp [h0, h1]

theorem truncateKey_tooLarge_iff (powers : List G1) (d : Nat) :
    truncateKey powers d = .error .truncatedDegreeTooLarge ↔ d ≠ 0 ∧ d > powers.length - 1 := by
  unfold truncateKey
  by_cases h0 : d = 0
  · simp [h0]
  · by_cases h1 : d > powers.length - 1 <;> simp [h0, h1]

theorem truncateKey_ok_iff (powers : List G1) (d : Nat) (ck : List G1) :
    truncateKey powers d = .ok ck ↔
      d ≠ 0 ∧ d ≤ powers.length - 1 ∧ ck = powers.take ((if d = 1 then 2 else d) + 1) := by
  unfold truncateKey
  by_cases h0 : d = 0
  · simp [h0]
  · by_cases h1 : d > powers.length - 1
    · simp [h0, h1]
    · simp only [beq_iff_eq, h0, if_false, h1, Except.ok.injEq, ne_eq, not_false_eq_true,
        true_and]
      constructor
      · rintro rfl; exact ⟨by omega, rfl⟩
      · rintro ⟨_, rfl⟩; rfl

/-- every outcome of `truncateKey` is one of the three above -/
theorem truncateKey_cases (powers : List G1) (d : Nat) :
    (d = 0 ∧ truncateKey powers d = .error .truncatedDegreeIsZero) ∨
    (d ≠ 0 ∧ d > powers.length - 1 ∧ truncateKey powers d = .error .truncatedDegreeTooLarge) ∨
    (d ≠ 0 ∧ d ≤ powers.length - 1 ∧
      truncateKey powers d = .ok (powers.take ((if d = 1 then 2 else d) + 1))) := by
  by_cases h0 : d = 0
  · exact Or.inl ⟨h0, (truncateKey_zero_iff _ _).mpr h0⟩
  · by_cases h1 : d > powers.length - 1
    · exact Or.inr (Or.inl ⟨h0, h1, (truncateKey_tooLarge_iff _ _).mpr ⟨h0, h1⟩⟩)
    · exact Or.inr (Or.inr ⟨h0, by omega, (truncateKey_ok_iff _ _ _).mpr ⟨h0, by omega, rfl⟩⟩)

theorem truncateKey_prefix {powers : List G1} {d : Nat} {ck : List G1}
    (h : truncateKey powers d = .ok ck) : ck <+: powers := by
  obtain ⟨_, _, rfl⟩ := (truncateKey_ok_iff _ _ _).mp h
  exact List.take_prefix _ _

/-- length of the truncated key.  The side condition `2 < powers.length` only matters for
    `d = 1` on a two-point key, where the source would slice out of bounds; keys produced by
    `SRS.setup` have at least `1 + blind + 1 = 8` points. -/
theorem truncateKey_length {powers : List G1} {d : Nat} {ck : List G1}
    (h : truncateKey powers d = .ok ck) (h2 : 2 < powers.length) :
    ck.length = (if d = 1 then 2 else d) + 1 := by
  obtain ⟨h0, h1, rfl⟩ := (truncateKey_ok_iff _ _ _).mp h
  rw [List.length_take]
  split <;> omega

theorem trim_eq (s : SRS) (n : Nat) :
    SRS.trim s n = truncateKey s.powers (n + Generated.ADDED_BLINDING_DEGREE) := rfl

theorem blinding_eq : Generated.ADDED_BLINDING_DEGREE = 6 := rfl
theorem padding_eq : Generated.CIRCUIT_SIZE_PADDING = 6 := rfl

/-- trimming a generated SRS: succeeds exactly for `n ≤ maxDegree`, and then keeps exactly the
    first `n + blind + 1` points -/
theorem trim_setup {m : Nat} {draws : List Nat} {s : SRS} (h : SRS.setup m draws = .ok s)
    (n : Nat) :
    (n ≤ m ∧ SRS.trim s n = .ok (s.powers.take (n + Generated.ADDED_BLINDING_DEGREE + 1)) ∧
      (s.powers.take (n + Generated.ADDED_BLINDING_DEGREE + 1)).length
        = n + Generated.ADDED_BLINDING_DEGREE + 1) ∨
    (m < n ∧ SRS.trim s n = .error .truncatedDegreeTooLarge) := by
  have hl := setup_powers_length h
  rw [blinding_eq] at hl
  rw [trim_eq, blinding_eq]
  by_cases hn : n ≤ m
  · left
    refine ⟨hn, ?_, ?_⟩
    · rw [truncateKey_ok_iff]
      refine ⟨by omega, by omega, ?_⟩
      rw [if_neg (by omega)]
    · rw [List.length_take]; omega
  · right
    exact ⟨by omega, (truncateKey_tooLarge_iff _ _).mpr ⟨by omega, by omega⟩⟩


/-! ### the length-only / powers-free views used by the trapdoor prover -/

/-- `truncateLen` is exactly the length view of `truncateKey`: same errors, and on success the
    length of the truncated key -/
theorem truncateLen_eq (powers : List G1) (d : Nat) :
    truncateLen powers.length d = (truncateKey powers d).map List.length := by
  unfold truncateLen truncateKey
  by_cases h0 : d = 0
  · simp [h0, Except.map]
  · by_cases h1 : d > powers.length - 1
    · simp [h0, h1, Except.map]
    · simp [h0, h1, Except.map, List.length_take, Nat.min_comm]

/-- `SRS.setupLite` is `SRS.setup` without the materialised powers: same errors, same
    `g, h, xh, x`, and the reported length is the length of the full key -/
theorem setupLite_eq (m : Nat) (draws : List Nat) :
    SRS.setupLite m draws
      = (SRS.setup m draws).map (fun s => ({ s with powers := [] }, s.powers.length)) := by
  unfold SRS.setupLite SRS.setup
  by_cases hm : m < 1
  · simp [hm, Except.map]
  · simp only [hm, if_false]
    cases nextNonzero draws with
    | none => rfl
    | some xd =>
      obtain ⟨x, d1⟩ := xd
      dsimp only
      cases nextNonzero d1 with
      | none => rfl
      | some xd2 =>
        obtain ⟨sg, d2⟩ := xd2
        dsimp only
        cases nextNonzero d2 with
        | none => rfl
        | some xd3 =>
          obtain ⟨sh, d3⟩ := xd3
          simp only [Except.map, List.length_map, length_powersOf]

/-! ### `nextPow2'` -/

theorem nextPow2'_go_ge (n f p : Nat) : p ≤ nextPow2'.go n f p := by
  induction f generalizing p with
  | zero => simp [nextPow2'.go]
  | succ f ih =>
    unfold nextPow2'.go
    split
    · exact Nat.le_refl _
    · exact Nat.le_trans (by omega) (ih (2 * p))

theorem nextPow2'_go_mono {n n' : Nat} (h : n ≤ n') (f p : Nat) :
    nextPow2'.go n f p ≤ nextPow2'.go n' f p := by
  induction f generalizing p with
  | zero => simp [nextPow2'.go]
  | succ f ih =>
    unfold nextPow2'.go
    by_cases h1 : p ≥ n'
    · rw [if_pos h1, if_pos (by omega)]
    · rw [if_neg h1]
      by_cases h2 : p ≥ n
      · rw [if_pos h2]
        exact Nat.le_trans (by omega) (nextPow2'_go_ge n' f (2 * p))
      · rw [if_neg h2]; exact ih (2 * p)

theorem nextPow2'_mono {n n' : Nat} (h : n ≤ n') : nextPow2' n ≤ nextPow2' n' :=
  nextPow2'_go_mono h 64 1

/-! ### `commit` -/

theorem commit_error_iff (ck : List G1) (p : Poly) (e : KErr) :
    commit ck p = .error e ↔ e = .polynomialDegreeTooLarge ∧ Poly.degree p > ck.length - 1 := by
  unfold commit
  by_cases h : Poly.degree p > ck.length - 1
  · simp [h, eq_comm]
  · simp [h]

theorem commit_ok_iff (ck : List G1) (p : Poly) (c : G1) :
    commit ck p = .ok c ↔ Poly.degree p ≤ ck.length - 1 ∧ c = G1.msum (p.zip ck) := by
  unfold commit
  by_cases h : Poly.degree p > ck.length - 1
  · simp [h]
  · simp [h, eq_comm]; omega

/-- under the degree guard, the coefficients that `p.zip ck` drops (when the raw list `p` is
    longer than the key) are all zero: the MSM sees the whole polynomial -/
theorem commit_guard_no_loss {ck : List G1} {p : Poly} (hck : ck ≠ [])
    (h : Poly.degree p ≤ ck.length - 1) {i : Nat} (hi : ck.length ≤ i) : p.getD i 0 = 0 := by
  apply getD_eq_zero_of_length_trim_le
  have : 0 < ck.length := List.length_pos_iff.mpr hck
  unfold Poly.degree at h
  omega

/-- the trimmed key of the compiler is long enough for every polynomial the prover commits -/
theorem trim_enough {m : Nat} {draws : List Nat} {s : SRS} (hs : SRS.setup m draws = .ok s)
    (c : Nat) (hfit : nextPow2' (c + Generated.CIRCUIT_SIZE_PADDING) ≤ m) :
    ∃ ck, SRS.trim s (nextPow2' (c + Generated.CIRCUIT_SIZE_PADDING)) = .ok ck ∧
      ck <+: s.powers ∧
      ck.length = nextPow2' (c + Generated.CIRCUIT_SIZE_PADDING)
        + Generated.ADDED_BLINDING_DEGREE + 1 ∧
      nextPow2' c + 6 ≤ ck.length - 1 ∧
      ∀ p : Poly, Poly.degree p ≤ nextPow2' c + 6 → commit ck p = .ok (G1.msum (p.zip ck)) := by
  rcases trim_setup hs (nextPow2' (c + Generated.CIRCUIT_SIZE_PADDING)) with ⟨_, h1, h2⟩ | ⟨h1, _⟩
  · refine ⟨_, h1, List.take_prefix _ _, h2, ?_, ?_⟩
    · have := nextPow2'_mono (Nat.le_add_right c Generated.CIRCUIT_SIZE_PADDING)
      rw [h2, blinding_eq]; omega
    · intro p hp
      rw [commit_ok_iff]
      refine ⟨?_, rfl⟩
      have := nextPow2'_mono (Nat.le_add_right c Generated.CIRCUIT_SIZE_PADDING)
      rw [h2, blinding_eq]; omega
  · omega

/-! ### `batchCheck` -/

/-- the derived boolean equality of `G1` is equality -/
theorem G1.beq_iff (a b : G1) : (a == b) = true ↔ a = b := by
  cases a <;> cases b <;> simp [BEq.beq, instBEqG1.beq]

theorem batchCheck_reject_iff (s : SRS) (t : Transcript) (points : List Nat)
    (proofs : List KProof) :
    batchCheck s t points proofs = .error .proofVerificationError
      ↔ proofs = [] ∨ points.length ≠ proofs.length := by
  unfold batchCheck
  by_cases h : (proofs.isEmpty || points.length != proofs.length) = true
  · rw [if_pos h]
    simpa using h
  · rw [if_neg h]
    have h' : ¬ (proofs = [] ∨ points.length ≠ proofs.length) := by simpa using h
    simp only [h', iff_false]
    split <;> simp

/-- on a well-formed batch the result is decided by the single G1 equation
    `[x]·ΣuⁱWᵢ = Σuⁱ(Cᵢ + zᵢWᵢ) − (Σuⁱeᵢ)·g` -/
theorem batchCheck_ok_iff (s : SRS) (t : Transcript) (points : List Nat) (proofs : List KProof)
    (hne : proofs ≠ []) (hlen : points.length = proofs.length) :
    batchCheck s t points proofs = .ok () ↔
      (let u := (batchChallenge t points proofs).2
       let rows := (proofs.zip (powersOf u (proofs.length - 1))).zip points
       G1.smul s.x (G1.msum (rows.map fun r => (r.1.2, r.1.1.witness)))
        = G1.add (G1.msum (rows.flatMap fun r =>
              [(r.1.2, r.1.1.comm), (fmul r.1.2 r.2, r.1.1.witness)]))
            (G1.neg (G1.smul (rows.foldl (fun acc r => fadd acc (fmul r.1.2 r.1.1.eval)) 0)
              s.g))) := by
  unfold batchCheck
  have h : ¬ ((proofs.isEmpty || points.length != proofs.length) = true) := by
    simp [hne, hlen]
  rw [if_neg h]
  dsimp only
  split
  · next heq => simp only [true_iff]; exact (G1.beq_iff _ _).mp heq
  · next hneq =>
    simp only [reduceCtorEq, false_iff]
    intro heq; exact hneq ((G1.beq_iff _ _).mpr heq)

theorem batchCheck_cases (s : SRS) (t : Transcript) (points : List Nat) (proofs : List KProof) :
    batchCheck s t points proofs = .ok () ∨
    batchCheck s t points proofs = .error .proofVerificationError ∨
    batchCheck s t points proofs = .error .pairingCheckFailure := by
  unfold batchCheck
  split
  · exact Or.inr (Or.inl rfl)
  · dsimp only
    split
    · exact Or.inl rfl
    · exact Or.inr (Or.inr rfl)

/-! ### `flatten` -/

theorem foldl_fadd_fmul (l : List (Nat × Nat)) (acc : Nat) :
    toF (l.foldl (fun acc (ep : Nat × Nat) => fadd acc (fmul ep.1 ep.2)) acc)
      = toF acc + (l.map fun ep => toF ep.1 * toF ep.2).sum := by
  induction l generalizing acc with
  | nil => simp
  | cons a l ih => rw [List.foldl_cons, ih]; simp [add_assoc]

theorem sum_zip_range (es : List Nat) (f : ℕ → F) (n : Nat) (h : es.length ≤ n) :
    ((es.zip ((List.range n).map f)).map fun ep => toF ep.1 * ep.2).sum
      = ∑ j ∈ Finset.range es.length, f j * toF (es.getD j 0) := by
  induction es generalizing n f with
  | nil => simp
  | cons e es ih =>
    obtain ⟨m, rfl⟩ : ∃ m, n = m + 1 := ⟨n - 1, by simp at h; omega⟩
    have hm : es.length ≤ m := by simpa using h
    rw [List.range_succ_eq_map]
    simp only [List.map_cons, List.map_map, List.zip_cons_cons, List.sum_cons, List.length_cons,
      Finset.sum_range_succ', List.getD_cons_zero, List.getD_cons_succ]
    rw [add_comm, mul_comm]
    congr 1
    exact ih (f ∘ Nat.succ) m hm

/-- the G1 component is the MSM of the commitments against `[v⁰, v¹, …]` -/
theorem flatten_fst (comms : List G1) (evals : List Nat) (v : Nat) :
    (flatten comms evals v).1 = G1.msum ((powersOf v (comms.length - 1)).zip comms) := rfl

/-- the scalar component of `flatten` is the linear combination `Σ vʲ eⱼ` -/
theorem flatten_snd (comms : List G1) (evals : List Nat) (v : Nat) (hne : comms ≠ [])
    (hlen : evals.length = comms.length) :
    toF (flatten comms evals v).2
      = agg (toF v) evals.length (fun j => toF (evals.getD j 0)) := by
  unfold flatten
  dsimp only
  have hpos : 0 < comms.length := List.length_pos_iff.mpr hne
  have h := foldl_fadd_fmul (evals.zip (powersOf v (comms.length - 1))) 0
  rw [show (fun (acc : Nat) (x : Nat × Nat) =>
        match x with | (e, p) => fadd acc (fmul e p))
      = (fun acc (ep : Nat × Nat) => fadd acc (fmul ep.1 ep.2)) from rfl]
  rw [h, toF_zero, zero_add]
  have hz : (evals.zip (powersOf v (comms.length - 1))).map (fun ep => toF ep.1 * toF ep.2)
      = (evals.zip ((powersOf v (comms.length - 1)).map toF)).map (fun ep => toF ep.1 * ep.2) := by
    rw [List.zip_map_right, List.map_map]; rfl
  rw [hz, map_toF_powersOf, sum_zip_range _ _ _ (by omega)]
  rfl

/-! ### `aggregateWitness` -/

theorem toPoly_zipOnto_le (f : Nat → Nat → Nat) (c : F)
    (hf : ∀ x y, toF (f x y) = toF x + c * toF y) {a b : List Nat} (h : b.length ≤ a.length) :
    toPoly (zipOnto f a b) = toPoly a + C c * toPoly b := by
  ext i
  rw [coeff_toPoly, getD_zipOnto, coeff_add, coeff_C_mul, coeff_toPoly, coeff_toPoly]
  split
  · exact hf _ _
  · next hi =>
    rw [List.getD_eq_default _ _ (by omega), List.getD_eq_default _ _ (by omega)]; simp

theorem le_foldl_max (polys : List Poly) (m0 : Nat) :
    m0 ≤ polys.foldl (fun m p => max m p.length) m0 ∧
    ∀ p ∈ polys, p.length ≤ polys.foldl (fun m p => max m p.length) m0 := by
  induction polys generalizing m0 with
  | nil => simp
  | cons q qs ih =>
    obtain ⟨h1, h2⟩ := ih (max m0 q.length)
    rw [List.foldl_cons]
    refine ⟨by omega, ?_⟩
    intro p hp
    rcases List.mem_cons.mp hp with rfl | hp
    · omega
    · exact h2 p hp

theorem aggregate_fold (v : Nat) (polys : List Poly) (c0 : List Nat) (w : Nat)
    (hlen : ∀ p ∈ polys, p.length ≤ c0.length) :
    toPoly (polys.foldl (fun (acc : List Nat × Nat) p =>
        (Poly.zipOnto (fun c t => fadd c (fmul t acc.2)) acc.1 p, fmul acc.2 v)) (c0, w)).1
      = toPoly c0 + C (toF w) * aggL (toF v) (polys.map toPoly) := by
  induction polys generalizing c0 w with
  | nil => simp [aggL]
  | cons p ps ih =>
    rw [List.foldl_cons, ih]
    · rw [toPoly_zipOnto_le _ (toF w) (fun x y => by simp [mul_comm]) (hlen p (by simp))]
      simp only [List.map_cons, aggL, toF_fmul, smul_eq_C_mul, C_mul]
      ring
    · intro q hq
      rw [length_zipOnto]
      exact hlen q (List.mem_cons_of_mem _ hq)

theorem toPoly_replicate_zero (n : Nat) : toPoly (List.replicate n 0) = 0 := by
  apply toPoly_eq_zero_of_isZero
  rw [isZero_iff]
  intro x hx
  exact (List.mem_replicate.mp hx).2

/-- `aggregateWitness polys z v` is the Ruffini quotient of `Σ vʲ pⱼ` by `X − z` -/
theorem toPoly_aggregateWitness (polys : List Poly) (z v : Nat) :
    toPoly (aggregateWitness polys z v)
      = aggL (toF v) (polys.map toPoly) /ₘ (X - C (toF z)) := by
  unfold aggregateWitness
  split
  · next h =>
    have : polys = [] := by simpa using h
    subst this
    simp [aggL]
  · dsimp only
    rw [ruffini_eq_divByMonic, toPoly_ofCoeffs, aggregate_fold]
    · rw [toPoly_replicate_zero]; simp
    · intro p hp
      rw [List.length_replicate]
      exact (le_foldl_max polys 0).2 p hp

/-- the same statement with the index-sum of level (A) -/
theorem toPoly_aggregateWitness_agg (polys : List Poly) (z v : Nat) :
    toPoly (aggregateWitness polys z v)
      = agg (toF v) polys.length (fun j => toPoly (polys.getD j [])) /ₘ (X - C (toF z)) := by
  rw [toPoly_aggregateWitness, aggL_eq_agg, List.length_map]
  congr 2
  funext j
  rw [List.getD_eq_getElem?_getD, List.getD_eq_getElem?_getD, List.getElem?_map]
  cases polys[j]? <;> simp

/-- hence it satisfies the quotient identity required by `aggregate_open_iff'` -/
theorem aggregateWitness_quot (polys : List Poly) (z v : Nat) :
    agg (toF v) polys.length (fun j => toPoly (polys.getD j []))
      = toPoly (aggregateWitness polys z v) * (X - C (toF z))
        + C ((agg (toF v) polys.length (fun j => toPoly (polys.getD j []))).eval (toF z)) := by
  rw [toPoly_aggregateWitness_agg]
  exact divByMonic_quot _ _


/-! ### level (A) instantiated with the model's polynomial code

  Polynomials are the model's coefficient lists (`toPoly`), witnesses are computed by the model's
  `Poly.ruffini` / `aggregateWitness`, true values by the model's `Poly.evaluate`; only the group
  (`commit x g`) is abstract. -/

section Tie
variable {G : Type*} [AddCommGroup G] [Module F G]

/-- the defect of one aggregated opening computed with the model's `evaluate` -/
def modelDefect (polys : List Poly) (evals : ℕ → Nat) (z v : Nat) : F :=
  agg (toF v) polys.length
    (fun j => toF (evals j) - toF (Poly.evaluate (polys.getD j []) z))

theorem single_open_model {g : G} (hg : Nondeg F g) (x : F) (p : Poly) (z e : Nat) :
    x • KzgMath.commit x g (toPoly (Poly.ruffini p z))
        = KzgMath.commit x g (toPoly p) + toF z • KzgMath.commit x g (toPoly (Poly.ruffini p z))
          - toF e • g
      ↔ toF e = toF (Poly.evaluate p z) := by
  rw [evaluate_spec]
  exact single_open_iff' hg x (toF z) (toF e) (toPoly p) _ (ruffini_spec p z)

theorem aggregate_open_model {g : G} (hg : Nondeg F g) (x : F) (polys : List Poly)
    (evals : ℕ → Nat) (z v : Nat) :
    x • KzgMath.commit x g (toPoly (aggregateWitness polys z v))
        = agg (toF v) polys.length (fun j => KzgMath.commit x g (toPoly (polys.getD j [])))
          + toF z • KzgMath.commit x g (toPoly (aggregateWitness polys z v))
          - agg (toF v) polys.length (fun j => toF (evals j)) • g
      ↔ modelDefect polys evals z v = 0 := by
  rw [aggregate_open_iff' hg x (toF z) (toF v) polys.length
    (fun j => toPoly (polys.getD j [])) (fun j => toF (evals j)) _ (aggregateWitness_quot polys z v)]
  unfold modelDefect
  simp only [evaluate_spec]

theorem batch_check_model {g : G} (hg : Nondeg F g) (x u : F) (n : ℕ) (polys : ℕ → List Poly)
    (evals : ℕ → ℕ → Nat) (z v : ℕ → Nat) :
    x • agg u n (fun i => KzgMath.commit x g (toPoly (aggregateWitness (polys i) (z i) (v i))))
        = agg u n (fun i =>
            agg (toF (v i)) (polys i).length
              (fun j => KzgMath.commit x g (toPoly ((polys i).getD j [])))
            + toF (z i) • KzgMath.commit x g (toPoly (aggregateWitness (polys i) (z i) (v i))))
          - agg u n (fun i => agg (toF (v i)) (polys i).length (fun j => toF (evals i j))) • g
      ↔ agg u n (fun i => modelDefect (polys i) (evals i) (z i) (v i)) = 0 := by
  rw [batch_check_iff' hg x u n (fun i => toF (v i)) (fun i => toF (z i))
    (fun i => (polys i).length) (fun i j => toPoly ((polys i).getD j []))
    (fun i j => toF (evals i j)) _ (fun i _ => aggregateWitness_quot (polys i) (z i) (v i))]
  unfold defect modelDefect
  simp only [evaluate_spec]

theorem modelDefect_eq_zero_of_true (polys : List Poly) (evals : ℕ → Nat) (z v : Nat)
    (h : ∀ j < polys.length, toF (evals j) = toF (Poly.evaluate (polys.getD j []) z)) :
    modelDefect polys evals z v = 0 := by
  unfold modelDefect
  rw [agg_congr (toF v) polys.length (h := fun _ => 0) (fun j hj => by rw [h j hj, sub_self]),
    agg_zero_fun]

theorem nondeg_one : Nondeg F (1 : F) := fun a h => by simpa using h

end Tie

end Plonk
