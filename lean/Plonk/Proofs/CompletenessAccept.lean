/-
  C01 (completeness): the model verifier's OWN grouped multi-scalar multiplication vanishes.

  `VerifierM.verify` accepts iff `[x]·(Σ left) + Σ right = O` for the term lists of the model's
  `verifyTerms` (C03 `accept_iff_equation`).  Interpreting every point by the commitment `[q(x)]g`
  of the polynomial `q = ι c` it commits to (the trapdoor view of the honest prover's commitments,
  C20 `commit_eval`), `verify_msm_zero` shows that for the honest prover's polynomials —
  numerator `= T·(Xⁿ − 1)`, true evaluations, shares recombining to `T`, opening witnesses the
  quotients of the two aggregated polynomials — this combination IS zero:
      `x • evalTerms ι' left + evalTerms ι' right = 0`,  `ι' c = commit x g (ι c)`,
  for every trapdoor, every `g` and all challenges.  The only missing link to `verify = .ok` is (A3)
  of C02: `G1.msum / G1.smul / G1.add` compute `Σ sᵢ•Pᵢ` in a prime-order group.
-/
import Plonk.Proofs.CompletenessVerifier

namespace Plonk.Complete
open Polynomial Plonk Plonk.Quot Plonk.Sound
open Plonk.KzgMath (agg)

section
variable {G : Type*} [AddCommGroup G] [Module F G]

/-- committing commutes with the symbolic evaluation of a term list -/
theorem evalTerms_commit (x : F) (g : G) (ι : G1 → F[X]) (ts : List (Nat × G1)) :
    evalTerms (fun c => KzgMath.commit x g (ι c)) ts = KzgMath.commit x g (evalTerms ι ts) := by
  induction ts with
  | nil => simp [KzgMath.commit_zero]
  | cons t ts ih =>
    obtain ⟨s, c⟩ := t
    rw [evalTerms_cons, evalTerms_cons, ih, KzgMath.commit_add, KzgMath.commit_smul]

/-- the interpretation of the remaining commitments: wires, opened key polynomials, the generator
    and the two opening witnesses -/
structure OpenRep (ι : G1 → F[X]) (vk : VKey) (g1 : G1) (p : ProofM) (P : ProverPolys F)
    (Wz Wzw : F[X]) : Prop where
  a : ι p.aC = P.a
  b : ι p.bC = P.b
  c : ι p.cC = P.c
  d : ι p.dC = P.d
  s1 : ι vk.s1 = P.s1
  s2 : ι vk.s2 = P.s2
  s3 : ι vk.s3 = P.s3
  qarith : ι vk.qarith = P.Q.qarith
  g : ι g1 = 1
  wz : ι p.wz = Wz
  wzw : ι p.wzw = Wzw

/-- the aggregated polynomial opened at `z` (V2/V3), written out -/
theorem agg_open_z (v : F) (D : F[X]) (P : ProverPolys F) (y : F) :
    (agg v 12 (openPolys D P 0)).eval y =
      D.eval y + v * P.a.eval y + v ^ 2 * P.b.eval y + v ^ 3 * P.c.eval y + v ^ 4 * P.d.eval y +
      v ^ 5 * P.s1.eval y + v ^ 6 * P.s2.eval y + v ^ 7 * P.s3.eval y + v ^ 8 * P.Q.qarith.eval y +
      v ^ 9 * P.Q.qc.eval y + v ^ 10 * P.Q.ql.eval y + v ^ 11 * P.Q.qr.eval y := by
  rw [KzgMath.eval_agg]
  simp [KzgMath.agg, Finset.sum_range_succ, openPolys]

/-- the aggregated polynomial opened at `ωz`, written out -/
theorem agg_open_zw (vw : F) (D : F[X]) (P : ProverPolys F) (y : F) :
    (agg vw 4 (openPolys D P 1)).eval y =
      P.z.eval y + vw * P.a.eval y + vw ^ 2 * P.b.eval y + vw ^ 3 * P.d.eval y := by
  rw [KzgMath.eval_agg]
  simp [KzgMath.agg, Finset.sum_range_succ, openPolys]

/-- **the model verifier's grouped MSM vanishes on the honest prover's data** (current equation,
    V2/V3) -/
theorem verify_msm_zero (g : G) (x : F) (ι : G1 → F[X]) (vk : VKey) (g1 : G1) (d : Domain)
    (roots pis : List Nat) (p : ProofM) (ch : Challenges) (l1 piEval : Nat)
    (right left : List (Nat × G1))
    (hlp : d.lagrangeAndPi roots pis ch.z = some (l1, piEval))
    (hc : verifyTerms vk g1 d roots pis p ch false = some (right, left))
    (n : ℕ) (P : ProverPolys F) (A : AgmRep ι vk p P)
    (E : TrueEvals (toF d.groupGen) (toF ch.z) p.ev P)
    (hzh : toF (d.evaluateVanishing ch.z) = toF ch.z ^ n - 1)
    (hl1 : toF l1 = (L1P n).eval (toF ch.z)) (hpi : toF piEval = P.pi.eval (toF ch.z))
    (T : F[X]) (hq : quotientOf ι p n = T)
    (hT : NumP (toF d.groupGen) n P ⟨toF ch.beta, toF ch.gamma, toF ch.alpha⟩
      ⟨toF ch.rangeSep, toF ch.logicSep, toF ch.fixedSep, toF ch.varSep⟩ = T * (X ^ n - 1))
    (O : OpenRep ι vk g1 p P
      (agg (toF ch.v) 12 (openPolys (linPoly ι vk p ch (d.evaluateVanishing ch.z) l1) P 0) /ₘ
        (X - C (toF ch.z)))
      (agg (toF ch.vw) 4 (openPolys (linPoly ι vk p ch (d.evaluateVanishing ch.z) l1) P 1) /ₘ
        (X - C (toF d.groupGen * toF ch.z)))) :
    x • evalTerms (fun c => KzgMath.commit x g (ι c)) left +
      evalTerms (fun c => KzgMath.commit x g (ι c)) right = 0 := by
  obtain ⟨_, _, ref, _, hr⟩ := verifyTerms_some_of_lagrange vk g1 d roots pis p ch false
    (by rw [hlp]; simp)
  obtain ⟨e1, e2⟩ := verifyCode_eq_verifyRef (fun c => KzgMath.commit x g (ι c)) vk g1 d roots pis p
    ch false right left ref hc hr
  rw [e1, e2, verifyRef_explicit_current _ vk g1 d roots pis p ch l1 piEval ref hlp hr,
    evalTerms_commit]
  -- the value of the linearisation polynomial and the two opening identities
  have hD := linPoly_eval ι vk p ch (d.evaluateVanishing ch.z) l1 piEval (toF d.groupGen) n P A E
    hzh hl1 hpi T hq hT
  set D := linPoly ι vk p ch (d.evaluateVanishing ch.z) l1 with hDdef
  have hDx : (evalTerms ι (linearizationTerms vk p ch (d.evaluateVanishing ch.z) l1)).eval x =
      D.eval x + toF ch.u * P.z.eval x := by
    rw [hDdef, linPoly, eval_sub, eval_smul, smul_eq_mul, A.z]; ring
  have h1 := KzgMath.quot_eval
    (KzgMath.divByMonic_quot (agg (toF ch.v) 12 (openPolys D P 0)) (toF ch.z)) x
  have h2 := KzgMath.quot_eval
    (KzgMath.divByMonic_quot (agg (toF ch.vw) 4 (openPolys D P 1)) (toF d.groupGen * toF ch.z)) x
  rw [agg_open_z, agg_open_z, hD, ← E.a, ← E.b, ← E.c, ← E.d, ← E.s1, ← E.s2, ← E.s3, ← E.qarith,
    ← E.qc, ← E.ql, ← E.qr] at h1
  rw [agg_open_zw, agg_open_zw, ← E.z, ← E.aw, ← E.bw, ← E.dw] at h2
  simp only [KzgMath.commit_eval, O.a, O.b, O.c, O.d, O.s1, O.s2, O.s3, O.qarith, O.g, O.wz, O.wzw,
    A.qc, A.ql, A.qr, A.z, hDx, eval_one]
  generalize (agg (toF ch.v) 12 (openPolys D P 0) /ₘ (X - C (toF ch.z))).eval x = wx at h1 ⊢
  generalize (agg (toF ch.vw) 4 (openPolys D P 1) /ₘ
    (X - C (toF d.groupGen * toF ch.z))).eval x = wwx at h2 ⊢
  generalize D.eval x = dx at h1 ⊢
  generalize P.z.eval x = zx at h2 ⊢
  generalize P.a.eval x = ax at h1 h2 ⊢
  generalize P.b.eval x = bx at h1 h2 ⊢
  generalize P.c.eval x = cx at h1 ⊢
  generalize P.d.eval x = ddx at h1 h2 ⊢
  generalize P.s1.eval x = s1x at h1 ⊢
  generalize P.s2.eval x = s2x at h1 ⊢
  generalize P.s3.eval x = s3x at h1 ⊢
  generalize P.Q.qarith.eval x = qax at h1 ⊢
  generalize P.Q.qc.eval x = qcx at h1 ⊢
  generalize P.Q.ql.eval x = qlx at h1 ⊢
  generalize P.Q.qr.eval x = qrx at h1 ⊢
  generalize toF (r0Eval p.ev ch l1 piEval) = r0 at h1 ⊢
  linear_combination (norm := module) (-h1 - toF ch.u * h2) • g

/-- the aggregated polynomial opened at `z` in the legacy V1 equation (eight polynomials) -/
theorem agg_open_z_legacy (v : F) (D : F[X]) (P : ProverPolys F) (y : F) :
    (agg v 8 (openPolys D P 0)).eval y =
      D.eval y + v * P.a.eval y + v ^ 2 * P.b.eval y + v ^ 3 * P.c.eval y + v ^ 4 * P.d.eval y +
      v ^ 5 * P.s1.eval y + v ^ 6 * P.s2.eval y + v ^ 7 * P.s3.eval y := by
  rw [KzgMath.eval_agg]
  simp [KzgMath.agg, Finset.sum_range_succ, openPolys]

/-- **the same for the legacy V1 equation** (`verify_legacy`: seven commitments besides `D − u·Z`
    opened at `z`) -/
theorem verify_msm_zero_legacy (g : G) (x : F) (ι : G1 → F[X]) (vk : VKey) (g1 : G1) (d : Domain)
    (roots pis : List Nat) (p : ProofM) (ch : Challenges) (l1 piEval : Nat)
    (right left : List (Nat × G1))
    (hlp : d.lagrangeAndPi roots pis ch.z = some (l1, piEval))
    (hc : verifyTerms vk g1 d roots pis p ch true = some (right, left))
    (n : ℕ) (P : ProverPolys F) (A : AgmRep ι vk p P)
    (E : TrueEvals (toF d.groupGen) (toF ch.z) p.ev P)
    (hzh : toF (d.evaluateVanishing ch.z) = toF ch.z ^ n - 1)
    (hl1 : toF l1 = (L1P n).eval (toF ch.z)) (hpi : toF piEval = P.pi.eval (toF ch.z))
    (T : F[X]) (hq : quotientOf ι p n = T)
    (hT : NumP (toF d.groupGen) n P ⟨toF ch.beta, toF ch.gamma, toF ch.alpha⟩
      ⟨toF ch.rangeSep, toF ch.logicSep, toF ch.fixedSep, toF ch.varSep⟩ = T * (X ^ n - 1))
    (O : OpenRep ι vk g1 p P
      (agg (toF ch.v) 8 (openPolys (linPoly ι vk p ch (d.evaluateVanishing ch.z) l1) P 0) /ₘ
        (X - C (toF ch.z)))
      (agg (toF ch.vw) 4 (openPolys (linPoly ι vk p ch (d.evaluateVanishing ch.z) l1) P 1) /ₘ
        (X - C (toF d.groupGen * toF ch.z)))) :
    x • evalTerms (fun c => KzgMath.commit x g (ι c)) left +
      evalTerms (fun c => KzgMath.commit x g (ι c)) right = 0 := by
  obtain ⟨_, _, ref, _, hr⟩ := verifyTerms_some_of_lagrange vk g1 d roots pis p ch true
    (by rw [hlp]; simp)
  obtain ⟨e1, e2⟩ := verifyCode_eq_verifyRef (fun c => KzgMath.commit x g (ι c)) vk g1 d roots pis p
    ch true right left ref hc hr
  rw [e1, e2, verifyRef_explicit_legacy _ vk g1 d roots pis p ch l1 piEval ref hlp hr,
    evalTerms_commit]
  have hD := linPoly_eval ι vk p ch (d.evaluateVanishing ch.z) l1 piEval (toF d.groupGen) n P A E
    hzh hl1 hpi T hq hT
  set D := linPoly ι vk p ch (d.evaluateVanishing ch.z) l1 with hDdef
  have hDx : (evalTerms ι (linearizationTerms vk p ch (d.evaluateVanishing ch.z) l1)).eval x =
      D.eval x + toF ch.u * P.z.eval x := by
    rw [hDdef, linPoly, eval_sub, eval_smul, smul_eq_mul, A.z]; ring
  have h1 := KzgMath.quot_eval
    (KzgMath.divByMonic_quot (agg (toF ch.v) 8 (openPolys D P 0)) (toF ch.z)) x
  have h2 := KzgMath.quot_eval
    (KzgMath.divByMonic_quot (agg (toF ch.vw) 4 (openPolys D P 1)) (toF d.groupGen * toF ch.z)) x
  rw [agg_open_z_legacy, agg_open_z_legacy, hD, ← E.a, ← E.b, ← E.c, ← E.d, ← E.s1, ← E.s2,
    ← E.s3] at h1
  rw [agg_open_zw, agg_open_zw, ← E.z, ← E.aw, ← E.bw, ← E.dw] at h2
  simp only [KzgMath.commit_eval, O.a, O.b, O.c, O.d, O.s1, O.s2, O.s3, O.g, O.wz, O.wzw,
    A.z, hDx, eval_one]
  generalize (agg (toF ch.v) 8 (openPolys D P 0) /ₘ (X - C (toF ch.z))).eval x = wx at h1 ⊢
  generalize (agg (toF ch.vw) 4 (openPolys D P 1) /ₘ
    (X - C (toF d.groupGen * toF ch.z))).eval x = wwx at h2 ⊢
  generalize D.eval x = dx at h1 ⊢
  generalize P.z.eval x = zx at h2 ⊢
  generalize P.a.eval x = ax at h1 h2 ⊢
  generalize P.b.eval x = bx at h1 h2 ⊢
  generalize P.c.eval x = cx at h1 ⊢
  generalize P.d.eval x = ddx at h1 h2 ⊢
  generalize P.s1.eval x = s1x at h1 ⊢
  generalize P.s2.eval x = s2x at h1 ⊢
  generalize P.s3.eval x = s3x at h1 ⊢
  generalize toF (r0Eval p.ev ch l1 piEval) = r0 at h1 ⊢
  linear_combination (norm := module) (-h1 - toF ch.u * h2) • g

end

end Plonk.Complete
