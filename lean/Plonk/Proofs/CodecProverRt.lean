/-
  Prover-key and prover round trips: `PKeyRaw.fromBytes (PKeyRaw.toBytes k) = .ok k`,
  `ProverM.fromBytes (ProverM.toBytes p) = .ok p` for well-formed data.
-/
import Plonk.Proofs.CodecProver

set_option Elab.async false

namespace Plonk

theorem polyToBytes_of_trim {p : Poly} (ht : Poly.trim p = p) : polyToBytes p = p.flatMap scalarBytesLE := by
  unfold polyToBytes Poly.degree
  rw [ht]
  cases p with
  | nil => rfl
  | cons c cs =>
    have : (c :: cs).length - 1 + 1 = (c :: cs).length := by simp
    rw [this, List.take_length]

theorem u64le?_append {n : Nat} (hn : n < 2 ^ 64) (rest : List Nat) :
    u64le? (natToBytesLE n 8 ++ rest) = some (n, rest) := by
  unfold u64le?
  have hl : (natToBytesLE n 8).length = 8 := natToBytesLE_length _ _
  rw [if_neg (by rw [List.length_append, hl]; omega), List.take_left' hl, List.drop_left' hl,
    bytesToNatLE_natToBytesLE (lt_of_lt_of_eq hn (by norm_num))]

theorem pkReadPoly_encode {n : Nat} {p : Poly} (rest : List Nat) (ht : Poly.trim p = p) (hl : p.length ≤ n)
    (hn : n < 2 ^ 64) (hp : ∀ c ∈ p, c < R) :
    pkReadPoly n (natToBytesLE p.length 8 ++ polyToBytes p ++ rest) = .ok (p, rest) := by
  unfold pkReadPoly
  rw [List.append_assoc, u64le?_append (by omega), polyToBytes_of_trim ht]
  simp only
  rw [if_neg (by omega)]
  by_cases hz : p = []
  · subst hz; simp
  · have hlen : p.length ≠ 0 := by rwa [Ne, List.length_eq_zero_iff]
    have hfl : (p.flatMap scalarBytesLE).length = p.length * 32 := by
      rw [flatMap_scalarBytesLE_length]; omega
    rw [if_neg (by simp; omega), if_neg (by rw [List.length_append, hfl]; omega), List.take_left' hfl,
      List.drop_left' hfl]
    have := readScalars_encode p [] hp
    rw [List.append_nil] at this
    rw [this]
    simp only [ht]

theorem Domain.bne_self (d : Domain) : (d != d) = false := by
  have : (d == d) = true := (Domain.beq_iff d d).mpr rfl
  simp [bne, this]

theorem evalsToBytes_length (d : Domain) (ev : List Nat) : (evalsToBytes d ev).length = 172 + 32 * ev.length := by
  unfold evalsToBytes
  rw [List.length_append, Domain.toBytes_length, flatMap_scalarBytesLE_length]

theorem pkReadEvals_encode {d8 : Domain} {ev : List Nat} (rest : List Nat) (hd : Domain.new? d8.size = some d8)
    (hl : ev.length = d8.size) (hev : ∀ e ∈ ev, e < R) :
    pkReadEvals (d8.size * 32 + 172) d8 (evalsToBytes d8 ev ++ rest) = .ok (ev, rest) := by
  unfold pkReadEvals
  have hlen : (evalsToBytes d8 ev).length = d8.size * 32 + 172 := by rw [evalsToBytes_length, hl]; omega
  rw [if_neg (by rw [List.length_append, hlen]; omega), List.take_left' hlen, List.drop_left' hlen,
    evalsFromBytes_evalsToBytes hd hl hev]
  simp only [Domain.bne_self, Bool.false_eq_true, if_false]

/-- one (polynomial, evaluations) item of the prover-key encoding -/
def pkItem (d8 : Domain) (p : Poly) (ev : List Nat) : List Nat :=
  natToBytesLE p.length 8 ++ polyToBytes p ++ evalsToBytes d8 ev

theorem PKeyRaw_go_encode {n : Nat} {d8 : Domain} (hn : n < 2 ^ 64) (hd : Domain.new? d8.size = some d8)
    (lp : List Poly) (le : List (List Nat)) (rest : List Nat) (ps : Array Poly) (es : Array (List Nat))
    (hlen : lp.length = le.length)
    (hp : ∀ p ∈ lp, Poly.trim p = p ∧ p.length ≤ n ∧ ∀ c ∈ p, c < R)
    (he : ∀ e ∈ le, e.length = d8.size ∧ ∀ c ∈ e, c < R) :
    PKeyRaw.fromBytes.go (pkReadPoly n) (pkReadEvals (d8.size * 32 + 172) d8) lp.length
      ((List.zip lp le).flatMap (fun q => pkItem d8 q.1 q.2) ++ rest) ps es =
      .ok (⟨ps.toList ++ lp⟩, ⟨es.toList ++ le⟩, rest) := by
  induction lp generalizing le ps es with
  | nil =>
    cases le with
    | nil => simp [PKeyRaw.fromBytes.go]
    | cons e le => simp at hlen
  | cons p lp ih =>
    cases le with
    | nil => simp at hlen
    | cons e le =>
      obtain ⟨h1, h2, h3⟩ := hp p (by simp)
      obtain ⟨g1, g2⟩ := he e (by simp)
      rw [List.length_cons, PKeyRaw_go_succ, List.zip_cons_cons, List.flatMap_cons]
      simp only [pkItem]
      rw [List.append_assoc, List.append_assoc, pkReadPoly_encode _ h1 h2 hn h3]
      simp only
      rw [pkReadEvals_encode _ hd g1 g2]
      simp only
      have := ih le (ps.push p) (es.push e) (by simpa using hlen)
        (fun q hq => hp q (List.mem_cons_of_mem _ hq)) (fun q hq => he q (List.mem_cons_of_mem _ hq))
      simp only [pkItem] at this
      rw [this]
      simp

theorem range_flatMap_getD {α β γ : Type} (F : α → β → List γ) (a : α) (b : β) (l1 : List α) (l2 : List β)
    (hl : l1.length = l2.length) :
    (List.range l1.length).flatMap (fun i => F (l1.getD i a) (l2.getD i b)) =
      (List.zip l1 l2).flatMap (fun q => F q.1 q.2) := by
  induction l1 generalizing l2 with
  | nil => rfl
  | cons x l1 ih =>
    cases l2 with
    | nil => simp at hl
    | cons y l2 =>
      rw [List.length_cons, List.range_succ_eq_map, List.flatMap_cons, List.flatMap_map, List.zip_cons_cons,
        List.flatMap_cons]
      congr 1
      rw [← ih l2 (by simpa using hl)]
      rfl

theorem array_getD_mk {α : Type} (l : List α) (i : Nat) (d : α) : (Array.mk l).getD i d = l.getD i d := by
  simp [Array.getD, List.getD]
  split <;> simp_all

/-- shape of the prover-key encoding: header, 15 items, `lin`, `vh`, zero padding -/
theorem PKeyRaw.toBytes_shape {n : Nat} {lp : List Poly} {le : List (List Nat)} {lin vh : List Nat} {d8 : Domain}
    (hd : Domain.new? (n * 8) = some d8) (hlp : lp.length = 15) (hle : le.length = 15)
    (hev0 : ∀ e ∈ le, e.length = d8.size) :
    ∃ pad, (PKeyRaw.mk n ⟨lp⟩ ⟨le⟩ lin vh).toBytes = natToBytesLE n 8 ++ (natToBytesLE (d8.size * 32 + 172) 8 ++
      ((List.zip lp le).flatMap (fun q => pkItem d8 q.1 q.2) ++
        (evalsToBytes d8 lin ++ (evalsToBytes d8 vh ++ pad)))) := by
  unfold PKeyRaw.toBytes
  simp only [Nat.mul_comm 8 n, hd, DOMAIN_SIZE_eq, array_getD_mk]
  have h0 : (le.getD 0 []).length = d8.size := by
    match le, hle with
    | e :: le', _ => exact hev0 e (by simp)
  have hr : (List.range 15).flatMap (fun i => natToBytesLE (List.length (lp.getD i [])) 8 ++ polyToBytes (lp.getD i []) ++
      evalsToBytes d8 (le.getD i [])) = (List.zip lp le).flatMap (fun q => pkItem d8 q.1 q.2) := by
    have := range_flatMap_getD (fun p e => pkItem d8 p e) [] [] lp le (by rw [hlp, hle])
    rw [hlp] at this
    exact this
  rw [hr, h0]
  generalize List.replicate _ 0 = pad
  exact ⟨pad, by simp only [List.append_assoc]⟩

/-- prover-key round trip for well-formed keys (`PKeyRaw.WF`, which includes that the polynomials are
    stored trimmed) -/
theorem PKeyRaw.fromBytes_toBytes {k : PKeyRaw} {d8 : Domain} (wf : k.WF d8) :
    PKeyRaw.fromBytes k.toBytes = .ok k := by
  obtain ⟨n, ⟨lp⟩, ⟨le⟩, lin, vh⟩ := k
  have ht : ∀ p ∈ lp, Poly.trim p = p := wf.trimmed
  have hn : n * 8 < 2 ^ 64 := wf.n_lt
  have hd : Domain.new? (n * 8) = some d8 := wf.dom
  have hs8 : d8.size = n * 8 := wf.size8
  have hlp : lp.length = 15 := wf.npolys
  have hle : le.length = 15 := wf.nevals
  have hpol : ∀ p ∈ lp, p.length ≤ n ∧ ∀ c ∈ p, c < R := wf.polys
  have hev : ∀ e ∈ le, e.length = n * 8 ∧ ∀ c ∈ e, c < R := wf.evals
  have hml : d8.matchesLinearOverCoset lin = true := wf.lin
  have hmv : d8.matchesVanishingOverCoset n vh = true := wf.vh
  have hll : lin.length = n * 8 := wf.lin_len
  have hvl : vh.length = n * 8 := wf.vh_len
  have hllt : ∀ c ∈ lin, c < R := wf.lin_lt
  have hvlt : ∀ c ∈ vh, c < R := wf.vh_lt
  have hpow : nextPow2' (n * 8) = n * 8 := wf.pow2
  have hdd : Domain.new? d8.size = some d8 := Domain.new?_idem hd
  obtain ⟨pad, e⟩ := PKeyRaw.toBytes_shape (lin := lin) (vh := vh) hd hlp hle (fun e he => by rw [(hev e he).1, hs8])
  rw [e]
  unfold PKeyRaw.fromBytes
  rw [u64le?_append (by omega)]
  simp only
  have hs32 := Domain.new?_size_lt hd
  rw [u64le?_append (by omega)]
  simp only
  rw [USIZE_MAX_eq, if_neg (by omega), hpow, hd]
  simp only [bne_self_eq_false, Bool.false_eq_true, if_false]
  have hgo := PKeyRaw_go_encode (n := n) (d8 := d8) (by omega) hdd lp le
    (evalsToBytes d8 lin ++ (evalsToBytes d8 vh ++ pad)) #[] #[] (by rw [hlp, hle])
    (fun p hp => ⟨ht p hp, hpol p hp⟩) (fun e he => ⟨by rw [(hev e he).1, hs8], (hev e he).2⟩)
  rw [hlp] at hgo
  have hgo' : PKeyRaw.fromBytes.go (pkReadPoly n) (pkReadEvals (d8.size * 32 + 172) d8) 15
      ((List.zip lp le).flatMap (fun q => pkItem d8 q.1 q.2) ++ (evalsToBytes d8 lin ++ (evalsToBytes d8 vh ++ pad)))
      #[] #[] = _ := hgo
  have hlin := pkReadEvals_encode (d8 := d8) (ev := lin) (evalsToBytes d8 vh ++ pad) hdd (by rw [hll, hs8]) hllt
  have hvh := pkReadEvals_encode (d8 := d8) (ev := vh) pad hdd (by rw [hvl, hs8]) hvlt
  show @Eq (Except DecErr PKeyRaw) (match PKeyRaw.fromBytes.go (pkReadPoly n) (pkReadEvals (d8.size * 32 + 172) d8) 15
      ((List.zip lp le).flatMap (fun q => pkItem d8 q.1 q.2) ++ (evalsToBytes d8 lin ++ (evalsToBytes d8 vh ++ pad)))
      #[] #[] with
    | .error e => Except.error e
    | .ok (ps, es, r) =>
      match pkReadEvals (d8.size * 32 + 172) d8 r with
      | .error e => Except.error e
      | .ok (lin, r) =>
        if !d8.matchesLinearOverCoset lin then Except.error DecErr.invalidData else
        match pkReadEvals (d8.size * 32 + 172) d8 r with
        | .error e => Except.error e
        | .ok (vh, _) =>
          if !d8.matchesVanishingOverCoset n vh then Except.error DecErr.invalidData else
          Except.ok ({ n := n, polys := ps, evals := es, lin := lin, vh := vh } : PKeyRaw)) _
  rw [hgo']
  simp only
  rw [hlin]
  simp only [hml, Bool.not_true, Bool.false_eq_true, if_false]
  rw [hvh]
  simp only [hmv, Bool.not_true, Bool.false_eq_true, if_false, List.nil_append]

/-- prover round trip.  Hypotheses: well-formed prover key, non-empty well-formed commit key,
    well-formed verifier key, the checks of `Prover::new` (`constraints ≤ 2^63`, `size` its next power of
    two and equal to `key.n`, the domain of `constraints` exists, `vh` has no zero entry), and the total
    length fits `usize`. -/
theorem ProverM.fromBytes_toBytes {p : ProverM} {d8 : Domain} (wf : p.key.WF d8)
    (hck : p.ck ≠ [] ∧ ∀ q ∈ p.ck, q.Valid ∧ q.torsionFree = true) (hvk : p.vk.WF)
    (hc : p.constraints ≤ 2 ^ 63) (hsz : nextPow2' p.constraints = p.size) (hn : p.key.n = p.size)
    (hd : (Domain.new? p.constraints).isSome = true) (hvz : ∀ x ∈ p.key.vh, x ≠ 0)
    (hfit : p.label.length + p.key.toBytes.length + (8 + 97 * p.ck.length) + 968 < 2 ^ 64) :
    ProverM.fromBytes p.toBytes = .ok p := by
  have hckl := commitKeyToRaw_length p.ck
  have hvkl := VKey.toBytes_length p.vk
  have e : p.toBytes = u64beBytes p.label.length ++ (u64beBytes p.key.toBytes.length ++
      (u64beBytes (commitKeyToRaw p.ck).length ++ (u64beBytes p.vk.toBytes.length ++ (u64beBytes p.size ++
      (u64beBytes p.constraints ++ (p.label ++ (p.key.toBytes ++ (commitKeyToRaw p.ck ++ (p.vk.toBytes ++ []))))))))) := by
    unfold ProverM.toBytes
    simp only [List.append_assoc, List.append_nil]
  obtain ⟨p1, p2, p3, p4, p5, p6, p7⟩ := header_parts (u64beBytes p.label.length) (u64beBytes p.key.toBytes.length)
    (u64beBytes (commitKeyToRaw p.ck).length) (u64beBytes p.vk.toBytes.length) (u64beBytes p.size)
    (u64beBytes p.constraints)
    (p.label ++ (p.key.toBytes ++ (commitKeyToRaw p.ck ++ (p.vk.toBytes ++ []))))
    (by simp) (by simp) (by simp) (by simp) (by simp) (by simp)
  rw [← e] at p1 p2 p3 p4 p5 p6 p7
  have hlen : ¬ p.toBytes.length < 48 := by
    have := congrArg List.length p7
    rw [List.length_drop] at this
    intro hlt
    have h0 : p.toBytes.length - 48 = 0 := by omega
    rw [h0] at this
    have := this.symm
    simp only [List.length_append, hvkl] at this
    omega
  have hsize : p.size < 2 ^ 64 := by have := wf.n_lt; rw [hn] at this; omega
  unfold ProverM.fromBytes
  rw [if_neg hlen]
  simp only [List.drop_drop, Nat.reduceAdd]
  rw [p1, p2, p3, p4, p5, p6, p7, u64be_val (by omega : p.label.length < 2 ^ 64),
    u64be_val (by omega : p.key.toBytes.length < 2 ^ 64), u64be_val (by omega : (commitKeyToRaw p.ck).length < 2 ^ 64),
    u64be_val (by omega : p.vk.toBytes.length < 2 ^ 64), u64be_val hsize, u64be_val (by omega : p.constraints < 2 ^ 64)]
  have hl1 : (p.label ++ (p.key.toBytes ++ (commitKeyToRaw p.ck ++ (p.vk.toBytes ++ [])))).length =
      p.label.length + p.key.toBytes.length + (commitKeyToRaw p.ck).length + p.vk.toBytes.length := by
    simp only [List.length_append, List.length_nil]; omega
  rw [USIZE_MAX_eq, if_neg (by omega), if_neg (by omega), if_neg (by omega), if_neg (by rw [hl1]; omega)]
  have hcs : (decide (p.constraints > 2 ^ 63) || nextPow2' p.constraints != p.size) = false := by
    rw [hsz]; simp; omega
  rw [hcs]
  simp only [Bool.false_eq_true, if_false]
  have q1 : List.drop (48 + p.label.length) p.toBytes =
      p.key.toBytes ++ (commitKeyToRaw p.ck ++ (p.vk.toBytes ++ [])) := by
    rw [← List.drop_drop, p7]; exact List.drop_left' rfl
  have q2 : List.drop (48 + p.label.length + p.key.toBytes.length) p.toBytes =
      commitKeyToRaw p.ck ++ (p.vk.toBytes ++ []) := by
    rw [← List.drop_drop, q1]; exact List.drop_left' rfl
  have q3 : List.drop (48 + p.label.length + p.key.toBytes.length + (commitKeyToRaw p.ck).length) p.toBytes =
      p.vk.toBytes ++ [] := by
    rw [← List.drop_drop, q2]; exact List.drop_left' rfl
  rw [q1, q2, q3, List.take_left' rfl, List.take_left' rfl, List.take_left' rfl, List.take_left' rfl,
    PKeyRaw.fromBytes_toBytes wf]
  simp only [hn, bne_self_eq_false, Bool.false_eq_true, if_false]
  rw [commitKeyFromRaw_toRaw hck.1 (by rw [USIZE_MAX_eq]; omega) hck.2]
  simp only
  rw [VKey.fromBytes_toBytes hvk]
  simp only
  cases hdd : Domain.new? p.constraints with
  | none => rw [hdd] at hd; cases hd
  | some d =>
    simp only
    have hds : d.size = p.key.n := by rw [Domain.new?_size hdd, hsz, hn]
    rw [hds, wf.dom]
    simp only
    have hvl : (p.key.vh.length != d8.size) = false := by rw [wf.vh_len, wf.size8]; simp
    have hany : (p.key.vh.any fun x => x == 0) = false := by
      rw [List.any_eq_false]; intro x hx; simpa using hvz x hx
    rw [hvl, hany]
    simp only [Bool.or_self, Bool.false_eq_true, if_false]

/-- decoding is idempotent through the encoder: whatever the prover-key decoder accepts re-encodes to
    bytes that decode to the same key -/
theorem PKeyRaw.fromBytes_reencode {bs : List Nat} {k : PKeyRaw} (h : PKeyRaw.fromBytes bs = .ok k) :
    PKeyRaw.fromBytes k.toBytes = .ok k := by
  obtain ⟨⟨d8, wf⟩, _⟩ := PKeyRaw.fromBytes_wf h
  exact PKeyRaw.fromBytes_toBytes wf

end Plonk
