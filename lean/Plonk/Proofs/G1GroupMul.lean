/-
  G1 group law, part 3: double-and-add (`J1.mul`, `G1.smul`), the Straus multi-scalar loop
  (`G1.msum`) and the subgroup test (`G1.torsionFree`) in the Mathlib point group.
-/
import Plonk.Proofs.G1GroupJac

set_option Elab.async false

namespace Plonk

/-! ### bits -/

theorem g1_bit_lt_two (k m : Nat) : bit k m < 2 := Nat.mod_lt _ (by decide)

/-- one step of MSB-first recomposition -/
theorem g1_hi_step (k bits i : Nat) (h : i < bits) :
    k / 2 ^ (bits - (i + 1)) % 2 ^ (i + 1) = 2 * (k / 2 ^ (bits - i) % 2 ^ i) + bit k (bits - 1 - i) := by
  have e1 : bits - (i + 1) = bits - 1 - i := by omega
  have e2 : bits - i = (bits - 1 - i) + 1 := by omega
  rw [e1, e2]
  generalize bits - 1 - i = m
  unfold bit
  rw [pow_succ 2 m, ← Nat.div_div_eq_div_mul, pow_succ' 2 i, Nat.mod_mul]
  omega

theorem g1_R_lt_pow_255 : R < 2 ^ 255 := by decide +kernel
theorem g1_R_lt_pow_256 : R < 2 ^ 256 := by decide +kernel

/-! ### representing Mathlib points -/

namespace J1

/-- `j` represents the point `Q` of the curve group (through some valid affine model point) -/
def RepPt (j : J1) (Q : G1.Pt) : Prop := ∃ q, Rep j q ∧ G1.pt q = Q

theorem RepPt.inf : RepPt inf 0 := ⟨.inf, inf_rep, rfl⟩

theorem RepPt.ofAffine {p : G1} (hp : p.Valid) : RepPt (ofAffine p) (G1.pt p) :=
  ⟨p, ofAffine_rep hp, rfl⟩

theorem RepPt.double {j : J1} {Q : G1.Pt} (h : RepPt j Q) : RepPt j.double (Q + Q) := by
  obtain ⟨q, hq, rfl⟩ := h
  exact ⟨q.add q, double_rep hq, G1.pt_add hq.valid hq.valid⟩

theorem RepPt.add {j k : J1} {Q S : G1.Pt} (h1 : RepPt j Q) (h2 : RepPt k S) :
    RepPt (j.add k) (Q + S) := by
  obtain ⟨q, hq, rfl⟩ := h1
  obtain ⟨s, hs, rfl⟩ := h2
  exact ⟨q.add s, add_rep hq hs, G1.pt_add hq.valid hs.valid⟩

theorem RepPt.toAffine {j : J1} {Q : G1.Pt} (h : RepPt j Q) :
    j.toAffine.Valid ∧ G1.pt j.toAffine = Q := by
  obtain ⟨q, hq, rfl⟩ := h
  rw [toAffine_rep hq]; exact ⟨hq.valid, rfl⟩

/-- conditional addition, as in the loops of `mul` and `msum` -/
theorem RepPt.condAdd {acc pj : J1} {A Q : G1.Pt} (hacc : RepPt acc A) (hp : RepPt pj Q)
    {b : Nat} (hb : b < 2) : RepPt (if (b == 1) = true then acc.add pj else acc) (A + b • Q) := by
  by_cases h1 : b = 1
  · subst h1; rw [if_pos (by rfl), one_nsmul]; exact hacc.add hp
  · have h0 : b = 0 := by omega
    subst h0; rw [if_neg (by simp), zero_nsmul, add_zero]; exact hacc

/-! ### double-and-add -/

theorem mul_eq (p : J1) (k bits : Nat) : p.mul k bits =
    (List.range bits).foldl (fun acc i =>
      if (bit k (bits - 1 - i) == 1) = true then acc.double.add p else acc.double) inf := rfl

theorem mul_prefix {j : J1} {Q : G1.Pt} (h : RepPt j Q) (k bits : Nat) :
    ∀ i, i ≤ bits → RepPt ((List.range i).foldl (fun acc i =>
      if (bit k (bits - 1 - i) == 1) = true then acc.double.add j else acc.double) inf)
      ((k / 2 ^ (bits - i) % 2 ^ i) • Q)
  | 0, _ => by
    rw [List.range_zero, List.foldl_nil, pow_zero, Nat.mod_one, zero_nsmul]; exact RepPt.inf
  | i + 1, hi => by
    have ih := mul_prefix h k bits i (by omega)
    rw [List.range_succ, List.foldl_append, List.foldl_cons, List.foldl_nil,
      g1_hi_step k bits i (by omega), add_nsmul, mul_nsmul', two_nsmul]
    exact ih.double.condAdd h (g1_bit_lt_two _ _)

/-- `J1.mul` computes `(k mod 2^bits) • Q` -/
theorem mul_repPt {j : J1} {Q : G1.Pt} (h : RepPt j Q) (k bits : Nat) :
    RepPt (j.mul k bits) ((k % 2 ^ bits) • Q) := by
  have := mul_prefix h k bits bits le_rfl
  rw [Nat.sub_self, pow_zero, Nat.div_one] at this
  rw [mul_eq]; exact this

end J1

/-! ### `G1.smul`, `G1.torsionFree` -/

namespace G1

theorem smul_eq (k : Nat) (p : G1) : G1.smul k p = ((J1.ofAffine p).mul k 256).toAffine := rfl

theorem smul_spec' (k : Nat) {p : G1} (hp : p.Valid) :
    (G1.smul k p).Valid ∧ pt (G1.smul k p) = (k % 2 ^ 256) • pt p := by
  rw [smul_eq]; exact (J1.mul_repPt (J1.RepPt.ofAffine hp) k 256).toAffine

theorem smul_spec {k : Nat} (hk : k < 2 ^ 256) {p : G1} (hp : p.Valid) :
    (G1.smul k p).Valid ∧ pt (G1.smul k p) = k • pt p := by
  have := smul_spec' k hp
  rwa [Nat.mod_eq_of_lt hk] at this

theorem beq_inf_iff (q : G1) : (q == G1.inf) = true ↔ q = .inf := by
  cases q with
  | inf => exact ⟨fun _ => rfl, fun _ => rfl⟩
  | aff x y => exact ⟨fun h => Bool.noConfusion h, fun h => G1.noConfusion h⟩

/-- the model's subgroup test is `[r]P = O` in the curve group -/
theorem torsionFree_iff {p : G1} (hp : p.Valid) : p.torsionFree = true ↔ R • pt p = 0 := by
  have key : ∀ q : G1, q.Valid ∧ pt q = R • pt p → ((q == G1.inf) = true ↔ R • pt p = 0) := by
    intro q h; rw [beq_inf_iff, ← pt_eq_zero_iff h.1, h.2]
  exact key (G1.smul R p) (smul_spec g1_R_lt_pow_256 hp)

/-! ### the Straus loop -/

theorem msum_eq (ps : List (Nat × G1)) : G1.msum ps =
    ((List.range 255).foldl (fun acc i =>
      (ps.map fun t => (t.1 % R, J1.ofAffine t.2)).foldl
        (fun acc t => if (bit t.1 (254 - i) == 1) = true then acc.add t.2 else acc) acc.double)
      J1.inf).toAffine := rfl

theorem msum_inner (m : Nat) :
    ∀ (ps : List (Nat × G1)), (∀ t ∈ ps, t.2.Valid) → ∀ {acc : J1} {A : Pt}, J1.RepPt acc A →
      J1.RepPt ((ps.map fun t => (t.1 % R, J1.ofAffine t.2)).foldl
        (fun acc t => if (bit t.1 m == 1) = true then acc.add t.2 else acc) acc)
        (A + (ps.map fun t => bit (t.1 % R) m • pt t.2).sum)
  | [], _, acc, A, h => by
    rw [List.map_nil, List.foldl_nil, List.map_nil, List.sum_nil, add_zero]; exact h
  | t :: ps, hv, acc, A, h => by
    rw [List.map_cons, List.foldl_cons, List.map_cons, List.sum_cons, ← add_assoc]
    exact msum_inner m ps (fun t ht => hv t (List.mem_cons_of_mem _ ht))
      (h.condAdd (J1.RepPt.ofAffine (hv t List.mem_cons_self)) (g1_bit_lt_two _ _))

theorem sum_two_mul_add {α : Type} (f g : α → Nat) (h : α → Pt) : ∀ (l : List α),
    (l.map fun t => (2 * f t + g t) • h t).sum =
      (l.map fun t => f t • h t).sum + (l.map fun t => f t • h t).sum + (l.map fun t => g t • h t).sum
  | [] => by simp
  | a :: l => by
    rw [List.map_cons, List.sum_cons, sum_two_mul_add f g h l, List.map_cons, List.sum_cons,
      List.map_cons, List.sum_cons, add_nsmul, mul_nsmul', two_nsmul]
    abel

theorem msum_prefix (ps : List (Nat × G1)) (hv : ∀ t ∈ ps, t.2.Valid) :
    ∀ i, i ≤ 255 → J1.RepPt ((List.range i).foldl (fun acc i =>
      (ps.map fun t => (t.1 % R, J1.ofAffine t.2)).foldl
        (fun acc t => if (bit t.1 (254 - i) == 1) = true then acc.add t.2 else acc) acc.double)
      J1.inf) (ps.map fun t => (t.1 % R / 2 ^ (255 - i) % 2 ^ i) • pt t.2).sum
  | 0, _ => by
    have : (ps.map fun t => (t.1 % R / 2 ^ (255 - 0) % 2 ^ 0) • pt t.2).sum = 0 := by
      apply List.sum_eq_zero
      intro x hx
      obtain ⟨t, _, rfl⟩ := List.mem_map.mp hx
      rw [pow_zero, Nat.mod_one, zero_nsmul]
    rw [this, List.range_zero, List.foldl_nil]; exact J1.RepPt.inf
  | i + 1, hi => by
    have ih := msum_prefix ps hv i (by omega)
    have e : (ps.map fun t => (t.1 % R / 2 ^ (255 - (i + 1)) % 2 ^ (i + 1)) • pt t.2) =
        ps.map fun t => (2 * (t.1 % R / 2 ^ (255 - i) % 2 ^ i) + bit (t.1 % R) (254 - i)) • pt t.2 := by
      apply List.map_congr_left
      intro t _
      rw [g1_hi_step (t.1 % R) 255 i (by omega)]
    rw [List.range_succ, List.foldl_append, List.foldl_cons, List.foldl_nil, e, sum_two_mul_add]
    exact msum_inner (254 - i) ps hv ih.double

/-- `G1.msum` is `Σ (kᵢ mod r) • Pᵢ` in the curve group -/
theorem msum_spec {ps : List (Nat × G1)} (hv : ∀ t ∈ ps, t.2.Valid) :
    (G1.msum ps).Valid ∧ pt (G1.msum ps) = (ps.map fun t => (t.1 % R) • pt t.2).sum := by
  have h := msum_prefix ps hv 255 le_rfl
  have e : (ps.map fun t => (t.1 % R / 2 ^ (255 - 255) % 2 ^ 255) • pt t.2) =
      ps.map fun t => (t.1 % R) • pt t.2 := by
    apply List.map_congr_left
    intro t _
    rw [Nat.sub_self, pow_zero, Nat.div_one,
      Nat.mod_eq_of_lt (lt_trans (Nat.mod_lt _ (by decide +kernel)) g1_R_lt_pow_255)]
  rw [e] at h
  rw [msum_eq]; exact h.toAffine

/-- for points of the prime-order subgroup the reduction of the scalars is invisible -/
theorem msum_spec_torsionFree {ps : List (Nat × G1)} (hv : ∀ t ∈ ps, t.2.Valid)
    (ht : ∀ t ∈ ps, t.2.torsionFree = true) :
    pt (G1.msum ps) = (ps.map fun t => t.1 • pt t.2).sum := by
  rw [(msum_spec hv).2]
  congr 1
  apply List.map_congr_left
  intro t htm
  have h0 : R • pt t.2 = 0 := (torsionFree_iff (hv t htm)).mp (ht t htm)
  conv_rhs => rw [← Nat.mod_add_div t.1 R, add_nsmul, mul_nsmul, h0, nsmul_zero, add_zero]

end G1

end Plonk
