/-
  C15 — compressed circuit descriptions: the dictionary of `from_composer`, the first-use witness
  relabelling of `from_bytes`, the structure of `decompressCompress`, the capacity equivalence between
  `Compiler::max_constraints` and `PublicParameters::trim`, and what `validate_indices` guarantees.
-/
import Plonk.Model.Compress
import Plonk.Model.Prover
import Plonk.Proofs.PermutationRelabel
import Mathlib.Data.List.Basic
import Mathlib.Data.Nat.Log
import Mathlib.Data.Finset.Card
import Mathlib.Data.Finset.Image
import Mathlib.Tactic.Linarith

namespace Plonk.CompressModel
open Plonk

/-! ## 1. `dictInsert` -/

theorem prefix_getElem? {α} {t t' : List α} (h : t <+: t') {i : Nat} {k : α} (hk : t[i]? = some k) :
    t'[i]? = some k := by
  obtain ⟨s, rfl⟩ := h
  have hi : i < t.length := by
    by_contra hc
    rw [List.getElem?_eq_none (by omega)] at hk
    cases hk
  rw [List.getElem?_append_left hi]
  exact hk

theorem dictInsert_spec {tbl tbl' : List Nat} {k i : Nat} (h : dictInsert tbl k = (tbl', i)) :
    tbl'[i]? = some k ∧ tbl <+: tbl' ∧ (∀ j, j < i → tbl'[j]? ≠ some k) := by
  unfold dictInsert at h
  split at h
  · rename_i i0 hf
    obtain ⟨h1, h2⟩ := Prod.mk.inj h
    subst h1; subst h2
    rw [List.findIdx?_eq_some_iff_getElem] at hf
    obtain ⟨hlt, hp, hmin⟩ := hf
    refine ⟨?_, List.prefix_refl _, ?_⟩
    · rw [List.getElem?_eq_getElem hlt]
      simp only [beq_iff_eq] at hp
      rw [hp]
    · intro j hj hc
      have hjl : j < tbl.length := by omega
      have := hmin j hj
      rw [List.getElem?_eq_getElem hjl] at hc
      simp only [Option.some.injEq] at hc
      simp [hc] at this
  · rename_i hf
    obtain ⟨h1, h2⟩ := Prod.mk.inj h
    subst h1; subst h2
    rw [List.findIdx?_eq_none_iff] at hf
    refine ⟨by simp, List.prefix_append _ _, ?_⟩
    intro j hj hc
    rw [List.getElem?_append_left hj, List.getElem?_eq_getElem hj] at hc
    simp only [Option.some.injEq] at hc
    have := hf _ (List.getElem_mem hj)
    simp [hc] at this

/-- the index returned is inside the returned table, and the table grows by at most one entry -/
theorem dictInsert_bounds (tbl : List Nat) (k : Nat) :
    (dictInsert tbl k).2 < (dictInsert tbl k).1.length ∧
    (dictInsert tbl k).1.length ≤ tbl.length + 1 := by
  unfold dictInsert
  split
  · rename_i i0 hf
    rw [List.findIdx?_eq_some_iff_getElem] at hf
    obtain ⟨hlt, -, -⟩ := hf
    exact ⟨hlt, by simp⟩
  · simp

/-- a key that is already present leaves the table unchanged (first index wins) -/
theorem dictInsert_of_mem {tbl : List Nat} {k : Nat} (h : k ∈ tbl) :
    dictInsert tbl k = (tbl, tbl.idxOf k) := by
  unfold dictInsert
  cases hf : tbl.findIdx? (· == k) with
  | none =>
    rw [List.findIdx?_eq_none_iff] at hf
    have := hf k h
    simp at this
  | some i =>
    simp only
    rw [List.findIdx?_eq_some_iff_findIdx_eq] at hf
    rw [List.idxOf, ← hf.2]

/-- the dictionary pass of `from_composer`: every key is replaced by its index; the table is threaded -/
def dictFold (tbl : List Nat) (keys : List Nat) : List Nat × List Nat :=
  keys.foldl (fun acc k => ((dictInsert acc.1 k).1, acc.2 ++ [(dictInsert acc.1 k).2])) (tbl, [])

theorem dictFold_aux (keys : List Nat) : ∀ (t is : List Nat),
    t <+: (keys.foldl (fun acc k => ((dictInsert acc.1 k).1, acc.2 ++ [(dictInsert acc.1 k).2])) (t, is)).1 ∧
    ∃ js, (keys.foldl (fun acc k => ((dictInsert acc.1 k).1, acc.2 ++ [(dictInsert acc.1 k).2])) (t, is)).2 = is ++ js ∧
      js.map (fun i => (keys.foldl (fun acc k => ((dictInsert acc.1 k).1, acc.2 ++ [(dictInsert acc.1 k).2])) (t, is)).1[i]?)
        = keys.map some := by
  induction keys with
  | nil => intro t is; exact ⟨List.prefix_refl _, [], by simp, by simp⟩
  | cons k ks ih =>
    intro t is
    simp only [List.foldl_cons]
    obtain ⟨hp, js, hjs, hmap⟩ := ih (dictInsert t k).1 (is ++ [(dictInsert t k).2])
    obtain ⟨h1, h2, -⟩ := dictInsert_spec (tbl := t) (k := k) (tbl' := (dictInsert t k).1) (i := (dictInsert t k).2) rfl
    refine ⟨h2.trans hp, (dictInsert t k).2 :: js, by rw [hjs]; simp, ?_⟩
    simp only [List.map_cons, hmap]
    rw [prefix_getElem? hp h1]

/-- `dict_roundtrip`: for ANY initial table (duplicates included), replacing the keys by their dictionary
    indices and looking the indices up in the final table returns the original keys; the initial table is a
    prefix of the final one (so `split_off(base)` followed by re-appending to the base is the identity). -/
theorem dict_roundtrip (tbl keys : List Nat) :
    (dictFold tbl keys).2.map (fun i => (dictFold tbl keys).1[i]?) = keys.map some ∧
    tbl <+: (dictFold tbl keys).1 ∧ (dictFold tbl keys).2.length = keys.length := by
  obtain ⟨hp, js, hjs, hmap⟩ := dictFold_aux keys tbl []
  unfold dictFold
  rw [hjs]
  simp only [List.nil_append]
  refine ⟨hmap, hp, ?_⟩
  have := congrArg List.length hmap
  simpa using this

theorem dictFold_length_le (keys : List Nat) : ∀ tbl, (dictFold tbl keys).1.length ≤ tbl.length + keys.length := by
  unfold dictFold
  suffices h : ∀ (t is : List Nat),
      (keys.foldl (fun acc k => ((dictInsert acc.1 k).1, acc.2 ++ [(dictInsert acc.1 k).2])) (t, is)).1.length
        ≤ t.length + keys.length from fun tbl => h tbl []
  induction keys with
  | nil => intro t is; simp
  | cons k ks ih =>
    intro t is
    simp only [List.foldl_cons, List.length_cons]
    have := ih (dictInsert t k).1 (is ++ [(dictInsert t k).2])
    have := (dictInsert_bounds t k).2
    omega

/-! ## 2. `remapWitness` -/

/-- value bound to label `w` in the association list (first match), `0` when absent -/
def look (m : List (Nat × Nat)) (w : Nat) : Nat := ((m.find? (·.1 == w)).map (·.2)).getD 0

theorem remap_hit {m : List (Nat × Nat)} {w : Nat} (next : Nat) (h : w ∈ m.map (·.1)) :
    remapWitness m next w = (m, next, look m w) := by
  unfold remapWitness look
  cases hf : m.find? (·.1 == w) with
  | none =>
    rw [List.find?_eq_none] at hf
    obtain ⟨p, hp, rfl⟩ := List.mem_map.1 h
    have := hf p hp
    simp at this
  | some p => obtain ⟨a, v⟩ := p; simp

theorem remap_miss {m : List (Nat × Nat)} {w : Nat} (next : Nat) (h : w ∉ m.map (·.1)) :
    remapWitness m next w = ((w, next) :: m, next + 1, next) := by
  unfold remapWitness
  cases hf : m.find? (·.1 == w) with
  | none => rfl
  | some p =>
    have h1 := List.find?_some hf
    have h2 := List.mem_of_find?_eq_some hf
    simp only [beq_iff_eq] at h1
    exact absurd (List.mem_map.2 ⟨p, h2, h1⟩) h

theorem look_cons_self (m : List (Nat × Nat)) (w n : Nat) : look ((w, n) :: m) w = n := by
  simp [look]

theorem look_cons_ne (m : List (Nat × Nat)) {w u : Nat} (n : Nat) (h : u ≠ w) :
    look ((w, n) :: m) u = look m u := by
  have : ¬ (w = u) := fun e => h e.symm
  simp [look, this]

/-- the invariant threaded by `remapWitness`: after the labels `P` (in this order) the map is defined exactly
    on the labels seen, is onto `{0..next-1}`, and is ordered by first use -/
structure RInv (P : List Nat) (m : List (Nat × Nat)) (next : Nat) : Prop where
  keys : ∀ u, u ∈ m.map (·.1) ↔ u ∈ P
  bound : ∀ u, u ∈ P → look m u < next
  surj : ∀ v, v < next → ∃ u, u ∈ P ∧ look m u = v
  order : ∀ u, u ∈ P → ∀ v, v ∈ P → (look m u < look m v ↔ P.idxOf u < P.idxOf v)

theorem RInv.nil : RInv [] [] 0 :=
  ⟨by simp, by simp, by simp, by simp⟩

theorem RInv.inj {P m next} (h : RInv P m next) {u v : Nat} (hu : u ∈ P) (hv : v ∈ P)
    (e : look m u = look m v) : u = v := by
  have h1 := h.order u hu v hv
  have h2 := h.order v hv u hu
  have : P.idxOf u = P.idxOf v := by omega
  exact (List.idxOf_inj hu).1 this

theorem remap_step {P m next} (h : RInv P m next) (w : Nat) :
    RInv (P ++ [w]) (remapWitness m next w).1 (remapWitness m next w).2.1 ∧
    (remapWitness m next w).2.2 = look (remapWitness m next w).1 w ∧
    (∀ u, u ∈ P → look (remapWitness m next w).1 u = look m u) := by
  by_cases hw : w ∈ P
  · have hk : w ∈ m.map (·.1) := (h.keys w).2 hw
    rw [remap_hit next hk]
    refine ⟨⟨?_, ?_, ?_, ?_⟩, rfl, fun _ _ => rfl⟩
    · intro u
      rw [h.keys u]
      simp only [List.mem_append, List.mem_singleton]
      constructor
      · exact Or.inl
      · rintro (h1 | rfl)
        · exact h1
        · exact hw
    · intro u hu
      have : u ∈ P := by
        rcases List.mem_append.1 hu with h1 | h1
        · exact h1
        · rw [List.mem_singleton.1 h1]; exact hw
      exact h.bound u this
    · intro v hv
      obtain ⟨u, hu, e⟩ := h.surj v hv
      exact ⟨u, List.mem_append_left _ hu, e⟩
    · intro u hu v hv
      have hu' : u ∈ P := by
        rcases List.mem_append.1 hu with h1 | h1
        · exact h1
        · rw [List.mem_singleton.1 h1]; exact hw
      have hv' : v ∈ P := by
        rcases List.mem_append.1 hv with h1 | h1
        · exact h1
        · rw [List.mem_singleton.1 h1]; exact hw
      rw [List.idxOf_append_of_mem hu', List.idxOf_append_of_mem hv']
      exact h.order u hu' v hv'
  · have hk : w ∉ m.map (·.1) := fun hc => hw ((h.keys w).1 hc)
    rw [remap_miss next hk]
    show RInv (P ++ [w]) ((w, next) :: m) (next + 1) ∧ next = look ((w, next) :: m) w ∧
      (∀ u, u ∈ P → look ((w, next) :: m) u = look m u)
    have hne : ∀ u, u ∈ P → u ≠ w := fun u hu e => hw (e ▸ hu)
    have hst : ∀ u, u ∈ P → look ((w, next) :: m) u = look m u := fun u hu => look_cons_ne m next (hne u hu)
    have hidx : ∀ u, u ∈ P → (P ++ [w]).idxOf u = P.idxOf u ∧ P.idxOf u < P.length := fun u hu =>
      ⟨List.idxOf_append_of_mem hu, List.idxOf_lt_length_of_mem hu⟩
    have hidw : (P ++ [w]).idxOf w = P.length := by
      rw [List.idxOf_append_of_notMem hw]; simp
    refine ⟨⟨?_, ?_, ?_, ?_⟩, (look_cons_self m w next).symm, hst⟩
    · intro u
      simp only [List.map_cons, List.mem_cons, List.mem_append, List.mem_nil_iff, or_false]
      rw [h.keys u]
      constructor
      · rintro (h1 | h1)
        · exact Or.inr h1
        · exact Or.inl h1
      · rintro (h1 | h1)
        · exact Or.inr h1
        · exact Or.inl h1
    · intro u hu
      rcases List.mem_append.1 hu with h1 | h1
      · rw [hst u h1]; have := h.bound u h1; omega
      · rw [List.mem_singleton.1 h1, look_cons_self]; omega
    · intro v hv
      by_cases hvn : v = next
      · exact ⟨w, by simp, by rw [look_cons_self, hvn]⟩
      · obtain ⟨u, hu, e⟩ := h.surj v (by omega)
        exact ⟨u, List.mem_append_left _ hu, by rw [hst u hu, e]⟩
    · intro u hu v hv
      rcases List.mem_append.1 hu with h1 | h1 <;> rcases List.mem_append.1 hv with h2 | h2
      · rw [hst u h1, hst v h2, (hidx u h1).1, (hidx v h2).1]
        exact h.order u h1 v h2
      · rw [List.mem_singleton.1 h2, hst u h1, look_cons_self, (hidx u h1).1, hidw]
        have := h.bound u h1
        have := (hidx u h1).2
        omega
      · rw [List.mem_singleton.1 h1, hst v h2, look_cons_self, (hidx v h2).1, hidw]
        have := h.bound v h2
        have := (hidx v h2).2
        omega
      · rw [List.mem_singleton.1 h1, List.mem_singleton.1 h2]
        omega



/-- the invariant pins the number of allocated labels: it is the number of distinct labels seen -/
theorem RInv.card {P m next} (h : RInv P m next) : next = P.toFinset.card := by
  have himg : P.toFinset.image (look m) = Finset.range next := by
    ext v
    simp only [Finset.mem_image, List.mem_toFinset, Finset.mem_range]
    constructor
    · rintro ⟨u, hu, rfl⟩; exact h.bound u hu
    · intro hv; exact h.surj v hv
  have hinj : Set.InjOn (look m) (P.toFinset : Set Nat) := by
    intro u hu v hv e
    simp only [Finset.mem_coe, List.mem_toFinset] at hu hv
    exact h.inj hu hv e
  have := Finset.card_image_of_injOn hinj
  rw [himg, Finset.card_range] at this
  exact this

/-- thread `remapWitness` through a sequence of labels, collecting the outputs (map, next, outputs) -/
def remapAll (ws : List Nat) : List (Nat × Nat) × Nat × List Nat :=
  ws.foldl (fun acc w => ((remapWitness acc.1 acc.2.1 w).1, (remapWitness acc.1 acc.2.1 w).2.1,
                          acc.2.2 ++ [(remapWitness acc.1 acc.2.1 w).2.2])) ([], 0, [])

theorem remapFold_spec (ws : List Nat) : ∀ (P : List Nat) (m : List (Nat × Nat)) (n : Nat) (outs : List Nat),
    RInv P m n →
    RInv (P ++ ws) (ws.foldl (fun acc w => ((remapWitness acc.1 acc.2.1 w).1, (remapWitness acc.1 acc.2.1 w).2.1,
                          acc.2.2 ++ [(remapWitness acc.1 acc.2.1 w).2.2])) (m, n, outs)).1
      (ws.foldl (fun acc w => ((remapWitness acc.1 acc.2.1 w).1, (remapWitness acc.1 acc.2.1 w).2.1,
                          acc.2.2 ++ [(remapWitness acc.1 acc.2.1 w).2.2])) (m, n, outs)).2.1 ∧
    (ws.foldl (fun acc w => ((remapWitness acc.1 acc.2.1 w).1, (remapWitness acc.1 acc.2.1 w).2.1,
                          acc.2.2 ++ [(remapWitness acc.1 acc.2.1 w).2.2])) (m, n, outs)).2.2 =
      outs ++ ws.map (look (ws.foldl (fun acc w => ((remapWitness acc.1 acc.2.1 w).1, (remapWitness acc.1 acc.2.1 w).2.1,
                          acc.2.2 ++ [(remapWitness acc.1 acc.2.1 w).2.2])) (m, n, outs)).1) ∧
    (∀ u, u ∈ P → look (ws.foldl (fun acc w => ((remapWitness acc.1 acc.2.1 w).1, (remapWitness acc.1 acc.2.1 w).2.1,
                          acc.2.2 ++ [(remapWitness acc.1 acc.2.1 w).2.2])) (m, n, outs)).1 u = look m u) := by
  induction ws with
  | nil => intro P m n outs h; simpa using h
  | cons w rest ih =>
    intro P m n outs h
    obtain ⟨j1, e1, s1⟩ := remap_step h w
    simp only [List.foldl_cons]
    generalize remapWitness m n w = st at *
    obtain ⟨m1, n1, v1⟩ := st
    simp only at j1 e1 s1
    obtain ⟨j2, e2, s2⟩ := ih _ m1 n1 (outs ++ [v1]) j1
    generalize rest.foldl _ (m1, n1, outs ++ [v1]) = fin at *
    refine ⟨by simpa using j2, ?_, ?_⟩
    · rw [e2, e1, List.map_cons, s2 w (by simp)]
      simp
    · intro u hu
      rw [s2 u (by simp [hu]), s1 u hu]

theorem remapAll_spec (ws : List Nat) :
    RInv ws (remapAll ws).1 (remapAll ws).2.1 ∧ (remapAll ws).2.2 = ws.map (look (remapAll ws).1) := by
  obtain ⟨h1, h2, -⟩ := remapFold_spec ws [] [] 0 [] RInv.nil
  exact ⟨by simpa [remapAll] using h1, by simpa [remapAll] using h2⟩

/-! ## 3. structure of `decompressCompress` -/

/-- relabel the four wires of a gate, keep the eleven selectors -/
def relabel (f : Nat → Nat) (g : Gate) : Gate := { g with a := f g.a, b := f g.b, c := f g.c, d := f g.d }

/-- the loop body of `from_bytes` (same text as in `decompressCompress`) -/
def gateStep (acc : List Gate × List (Nat × Nat) × Nat) (g : Gate) : List Gate × List (Nat × Nat) × Nat :=
  let (gs, m, next) := acc
  let (m, next, a) := remapWitness m next g.a
  let (m, next, b) := remapWitness m next g.b
  let (m, next, cc) := remapWitness m next g.c
  let (m, next, d) := remapWitness m next g.d
  (gs ++ [{ g with a := a, b := b, c := cc, d := d }], m, next)

/-- sorted insertion with replacement (`BTreeMap`-like), the loop body of the public-input rows -/
def insRow (acc : List Nat) (r : Nat) : List Nat :=
  let (lo, hi) := acc.partition (· < r)
  lo ++ [r] ++ hi.filter (· != r)

theorem decompressCompress_eq (c : Composer) : decompressCompress c =
    { gates := (c.gates.toList.foldl gateStep ([], [], 0)).1.toArray,
      wit := Array.replicate (c.gates.toList.foldl gateStep ([], [], 0)).2.2 0,
      pis := (((c.pis.toList.map (·.1)).foldl insRow []).map fun r => (r, 0)).toArray } := rfl

theorem sortedRows_eq (c : Composer) :
    compile.Plonk.Driver.sortedRows c = (c.pis.toList.map (·.1)).foldl insRow [] := rfl

theorem gateStep_eq (gs : List Gate) (m : List (Nat × Nat)) (n : Nat) (g : Gate) :
    gateStep (gs, m, n) g =
      (gs ++ [{ g with
          a := (remapWitness m n g.a).2.2,
          b := (remapWitness (remapWitness m n g.a).1 (remapWitness m n g.a).2.1 g.b).2.2,
          c := (remapWitness (remapWitness (remapWitness m n g.a).1 (remapWitness m n g.a).2.1 g.b).1
                  (remapWitness (remapWitness m n g.a).1 (remapWitness m n g.a).2.1 g.b).2.1 g.c).2.2,
          d := (remapWitness (remapWitness (remapWitness (remapWitness m n g.a).1 (remapWitness m n g.a).2.1 g.b).1
                  (remapWitness (remapWitness m n g.a).1 (remapWitness m n g.a).2.1 g.b).2.1 g.c).1
                (remapWitness (remapWitness (remapWitness m n g.a).1 (remapWitness m n g.a).2.1 g.b).1
                  (remapWitness (remapWitness m n g.a).1 (remapWitness m n g.a).2.1 g.b).2.1 g.c).2.1 g.d).2.2 }],
       (remapWitness (remapWitness (remapWitness (remapWitness m n g.a).1 (remapWitness m n g.a).2.1 g.b).1
                  (remapWitness (remapWitness m n g.a).1 (remapWitness m n g.a).2.1 g.b).2.1 g.c).1
                (remapWitness (remapWitness (remapWitness m n g.a).1 (remapWitness m n g.a).2.1 g.b).1
                  (remapWitness (remapWitness m n g.a).1 (remapWitness m n g.a).2.1 g.b).2.1 g.c).2.1 g.d).1,
       (remapWitness (remapWitness (remapWitness (remapWitness m n g.a).1 (remapWitness m n g.a).2.1 g.b).1
                  (remapWitness (remapWitness m n g.a).1 (remapWitness m n g.a).2.1 g.b).2.1 g.c).1
                (remapWitness (remapWitness (remapWitness m n g.a).1 (remapWitness m n g.a).2.1 g.b).1
                  (remapWitness (remapWitness m n g.a).1 (remapWitness m n g.a).2.1 g.b).2.1 g.c).2.1 g.d).2.1) := rfl

theorem gateStep_spec {P : List Nat} {m : List (Nat × Nat)} {n : Nat} (h : RInv P m n) (gs : List Gate) (g : Gate) :
    RInv (P ++ [g.a, g.b, g.c, g.d]) (gateStep (gs, m, n) g).2.1 (gateStep (gs, m, n) g).2.2 ∧
    (gateStep (gs, m, n) g).1 = gs ++ [relabel (look (gateStep (gs, m, n) g).2.1) g] ∧
    (∀ u, u ∈ P → look (gateStep (gs, m, n) g).2.1 u = look m u) := by
  rw [gateStep_eq]
  obtain ⟨i1, v1, s1⟩ := remap_step h g.a
  generalize remapWitness m n g.a = r1 at *
  obtain ⟨i2, v2, s2⟩ := remap_step i1 g.b
  generalize remapWitness r1.1 r1.2.1 g.b = r2 at *
  obtain ⟨i3, v3, s3⟩ := remap_step i2 g.c
  generalize remapWitness r2.1 r2.2.1 g.c = r3 at *
  obtain ⟨i4, v4, s4⟩ := remap_step i3 g.d
  generalize remapWitness r3.1 r3.2.1 g.d = r4 at *
  have hP : P ++ [g.a] ++ [g.b] ++ [g.c] ++ [g.d] = P ++ [g.a, g.b, g.c, g.d] := by simp
  rw [hP] at i4
  refine ⟨i4, ?_, ?_⟩
  · show gs ++ [_] = gs ++ [_]
    congr 2
    have ea : r1.2.2 = look r4.1 g.a := by
      rw [v1, s4 _ (by simp), s3 _ (by simp), s2 _ (by simp)]
    have eb : r2.2.2 = look r4.1 g.b := by
      rw [v2, s4 _ (by simp), s3 _ (by simp)]
    have ec : r3.2.2 = look r4.1 g.c := by
      rw [v3, s4 _ (by simp)]
    show ({ g with a := r1.2.2, b := r2.2.2, c := r3.2.2, d := r4.2.2 } : Gate) = relabel (look r4.1) g
    rw [ea, eb, ec, v4]
    rfl
  · intro u hu
    show look r4.1 u = look m u
    rw [s4 _ (by simp [hu]), s3 _ (by simp [hu]), s2 _ (by simp [hu]), s1 _ hu]

/-- the wire labels of a gate list in processing order -/
def wiresOf (gates : List Gate) : List Nat := gates.flatMap fun g => [g.a, g.b, g.c, g.d]

theorem gateFold_spec (gates : List Gate) : ∀ (P : List Nat) (m : List (Nat × Nat)) (n : Nat) (gs : List Gate),
    RInv P m n →
    RInv (P ++ wiresOf gates) (gates.foldl gateStep (gs, m, n)).2.1 (gates.foldl gateStep (gs, m, n)).2.2 ∧
    (gates.foldl gateStep (gs, m, n)).1 = gs ++ gates.map (relabel (look (gates.foldl gateStep (gs, m, n)).2.1)) ∧
    (∀ u, u ∈ P → look (gates.foldl gateStep (gs, m, n)).2.1 u = look m u) := by
  induction gates with
  | nil => intro P m n gs h; simpa [wiresOf] using h
  | cons g rest ih =>
    intro P m n gs h
    obtain ⟨j1, e1, s1⟩ := gateStep_spec h gs g
    simp only [List.foldl_cons]
    generalize gateStep (gs, m, n) g = st at *
    obtain ⟨gs1, m1, n1⟩ := st
    simp only at j1 e1 s1
    obtain ⟨j2, e2, s2⟩ := ih _ m1 n1 gs1 j1
    generalize rest.foldl gateStep (gs1, m1, n1) = fin at *
    refine ⟨by simpa [wiresOf] using j2, ?_, ?_⟩
    · rw [e2, e1]
      simp only [List.map_cons, List.append_assoc, List.singleton_append]
      congr 2
      unfold relabel
      rw [s2 g.a (by simp), s2 g.b (by simp), s2 g.c (by simp), s2 g.d (by simp)]
    · intro u hu
      rw [s2 u (by simp [hu]), s1 u hu]

/-- the labels used by the gates of `c`, in order of use (a, b, c, d of gate 0, then gate 1, …) -/
def usedWires (c : Composer) : List Nat := wiresOf c.gates.toList

/-- the first-use relabelling computed by `from_bytes` -/
def firstUseMap (c : Composer) : Nat → Nat := look (c.gates.toList.foldl gateStep ([], [], 0)).2.1

/-- the number of witnesses allocated by `from_bytes` -/
def firstUseCount (c : Composer) : Nat := (c.gates.toList.foldl gateStep ([], [], 0)).2.2

theorem firstUse_inv (c : Composer) :
    RInv (usedWires c) (c.gates.toList.foldl gateStep ([], [], 0)).2.1 (firstUseCount c) := by
  have := (gateFold_spec c.gates.toList [] [] 0 [] RInv.nil).1
  simpa [usedWires, firstUseCount] using this

theorem dc_gates (c : Composer) : (decompressCompress c).gates = c.gates.map (relabel (firstUseMap c)) := by
  rw [decompressCompress_eq]
  have := (gateFold_spec c.gates.toList [] [] 0 [] RInv.nil).2.1
  simp only [List.nil_append] at this
  show (c.gates.toList.foldl gateStep ([], [], 0)).1.toArray = _
  rw [this]
  unfold firstUseMap
  rw [← Array.toList_map]

theorem dc_wit (c : Composer) : (decompressCompress c).wit = Array.replicate (firstUseCount c) 0 := by
  rw [decompressCompress_eq]; rfl

theorem dc_pis (c : Composer) :
    (decompressCompress c).pis = ((compile.Plonk.Driver.sortedRows c).map fun r => (r, 0)).toArray := by
  rw [decompressCompress_eq, sortedRows_eq]

theorem firstUse_lt (c : Composer) {u : Nat} (hu : u ∈ usedWires c) : firstUseMap c u < firstUseCount c :=
  (firstUse_inv c).bound u hu

theorem firstUse_surj (c : Composer) {v : Nat} (hv : v < firstUseCount c) :
    ∃ u, u ∈ usedWires c ∧ firstUseMap c u = v := (firstUse_inv c).surj v hv

theorem firstUse_order (c : Composer) {u v : Nat} (hu : u ∈ usedWires c) (hv : v ∈ usedWires c) :
    firstUseMap c u < firstUseMap c v ↔ (usedWires c).idxOf u < (usedWires c).idxOf v :=
  (firstUse_inv c).order u hu v hv

theorem firstUse_inj (c : Composer) {u v : Nat} (hu : u ∈ usedWires c) (hv : v ∈ usedWires c)
    (e : firstUseMap c u = firstUseMap c v) : u = v := (firstUse_inv c).inj hu hv e

/-- the number of allocated witnesses is the number of distinct labels used by gates -/
theorem firstUseCount_eq (c : Composer) : firstUseCount c = (usedWires c).toFinset.card :=
  (firstUse_inv c).card

/-! ### public-input rows -/

theorem insRow_eq (acc : List Nat) (r : Nat) :
    insRow acc r = acc.filter (· < r) ++ [r] ++ (acc.filter (fun x => !decide (x < r))).filter (· != r) := by
  unfold insRow
  rw [List.partition_eq_filter_filter]
  rfl

theorem mem_insRow (acc : List Nat) (r x : Nat) : x ∈ insRow acc r ↔ x = r ∨ x ∈ acc := by
  rw [insRow_eq]
  simp only [List.mem_append, List.mem_filter, decide_eq_true_eq, List.mem_singleton, Bool.not_eq_true',
    decide_eq_false_iff_not, bne_iff_ne, ne_eq]
  constructor
  · rintro ((⟨h, -⟩ | h) | ⟨⟨h, -⟩, -⟩)
    · exact Or.inr h
    · exact Or.inl h
    · exact Or.inr h
  · rintro (h | h)
    · exact Or.inl (Or.inr h)
    · by_cases h1 : x < r
      · exact Or.inl (Or.inl ⟨h, h1⟩)
      · by_cases h2 : x = r
        · exact Or.inl (Or.inr h2)
        · exact Or.inr ⟨⟨h, h1⟩, h2⟩

theorem insRow_pairwise {acc : List Nat} (h : acc.Pairwise (· < ·)) (r : Nat) : (insRow acc r).Pairwise (· < ·) := by
  rw [insRow_eq]
  rw [List.pairwise_append, List.pairwise_append]
  refine ⟨⟨h.sublist List.filter_sublist, List.pairwise_singleton _ _, ?_⟩,
    h.sublist (List.filter_sublist.trans List.filter_sublist), ?_⟩
  · intro a ha b hb
    simp only [List.mem_filter, decide_eq_true_eq] at ha
    rw [List.mem_singleton.1 hb]; exact ha.2
  · intro a ha b hb
    simp only [List.mem_filter, Bool.not_eq_true', decide_eq_false_iff_not, bne_iff_ne, ne_eq] at hb
    have hb' : r < b := by omega
    rcases List.mem_append.1 ha with h1 | h1
    · simp only [List.mem_filter, decide_eq_true_eq] at h1
      omega
    · rw [List.mem_singleton.1 h1]; exact hb'

theorem insFold_spec (l : List Nat) : ∀ acc : List Nat, acc.Pairwise (· < ·) →
    (l.foldl insRow acc).Pairwise (· < ·) ∧ ∀ x, x ∈ l.foldl insRow acc ↔ x ∈ acc ∨ x ∈ l := by
  induction l with
  | nil => intro acc h; simpa using h
  | cons r rest ih =>
    intro acc h
    obtain ⟨h1, h2⟩ := ih (insRow acc r) (insRow_pairwise h r)
    refine ⟨h1, fun x => ?_⟩
    rw [List.foldl_cons, h2, mem_insRow]
    simp only [List.mem_cons]
    tauto

/-- inserting a strictly increasing list into the strictly smaller accumulator appends it -/
theorem insFold_sorted (l : List Nat) : ∀ acc : List Nat, (acc ++ l).Pairwise (· < ·) →
    l.foldl insRow acc = acc ++ l := by
  induction l with
  | nil => intro acc _; simp
  | cons r rest ih =>
    intro acc h
    have hlt : ∀ a, a ∈ acc → a < r := by
      intro a ha
      exact (List.pairwise_append.1 h).2.2 a ha r (by simp)
    have e : insRow acc r = acc ++ [r] := by
      rw [insRow_eq]
      have e1 : acc.filter (· < r) = acc := List.filter_eq_self.2 (fun a ha => by simpa using hlt a ha)
      have e2 : acc.filter (fun x => !decide (x < r)) = [] := by
        rw [List.filter_eq_nil_iff]
        intro a ha
        simpa using hlt a ha
      rw [e1, e2]; simp
    rw [List.foldl_cons, e, ih (acc ++ [r]) (by simpa using h)]
    simp

/-- the public-input rows kept by compression: strictly increasing, the same set as the original rows -/
theorem sortedRows_spec (c : Composer) :
    (compile.Plonk.Driver.sortedRows c).Pairwise (· < ·) ∧
    ∀ r, r ∈ compile.Plonk.Driver.sortedRows c ↔ r ∈ c.pis.toList.map (·.1) := by
  rw [sortedRows_eq]
  obtain ⟨h1, h2⟩ := insFold_spec (c.pis.toList.map (·.1)) [] List.Pairwise.nil
  exact ⟨h1, fun r => by rw [h2]; simp⟩

/-- compression is idempotent on the public-input positions: the rows of the rebuilt composer are the same -/
theorem dc_sortedRows (c : Composer) :
    compile.Plonk.Driver.sortedRows (decompressCompress c) = compile.Plonk.Driver.sortedRows c := by
  rw [sortedRows_eq (decompressCompress c), dc_pis]
  have : (((compile.Plonk.Driver.sortedRows c).map fun r => (r, 0)).toArray.toList.map (·.1))
      = compile.Plonk.Driver.sortedRows c := by
    simp [List.map_map, Function.comp_def]
  rw [this]
  simpa using insFold_sorted _ [] (by simpa using (sortedRows_spec c).1)

theorem dc_size (c : Composer) : (decompressCompress c).gates.size = c.gates.size := by
  rw [dc_gates]; simp

theorem dc_paddedSize (c : Composer) : (decompressCompress c).paddedSize = c.paddedSize := by
  unfold Composer.paddedSize; rw [dc_size]

theorem dc_gateAt (c : Composer) (i : Nat) :
    (decompressCompress c).gateAt i = relabel (firstUseMap c) (c.gateAt i) ∨
    (i ≥ c.gates.size ∧ (decompressCompress c).gateAt i = {} ∧ c.gateAt i = {}) := by
  unfold Composer.gateAt
  rw [dc_gates]
  by_cases hi : i < c.gates.size
  · left; simp [Array.getD, hi]
  · right; simp [Array.getD, hi]; omega


/-! ## 4. capacity: `max_constraints` against `trim` -/

theorem nextPow2_go_spec (n : Nat) : ∀ (f j : Nat), ∃ j', j ≤ j' ∧ j' ≤ j + f ∧ nextPow2.go n f (2 ^ j) = 2 ^ j' ∧
    (n ≤ 2 ^ (j + f) → n ≤ 2 ^ j') ∧ (∀ i, j ≤ i → i < j' → 2 ^ i < n) := by
  intro f
  induction f with
  | zero =>
    intro j
    exact ⟨j, le_refl _, by omega, by simp [nextPow2.go], fun h => by simpa using h, fun i h1 h2 => by omega⟩
  | succ f ih =>
    intro j
    unfold nextPow2.go
    by_cases h : 2 ^ j ≥ n
    · rw [if_pos h]
      exact ⟨j, le_refl _, by omega, rfl, fun _ => h, fun i h1 h2 => by omega⟩
    · rw [if_neg h]
      obtain ⟨j', h1, h2, h3, h4, h5⟩ := ih (j + 1)
      have e : 2 * 2 ^ j = 2 ^ (j + 1) := by rw [pow_succ, Nat.mul_comm]
      rw [e]
      refine ⟨j', by omega, by omega, h3, fun hh => h4 (by rw [show j + 1 + f = j + (f + 1) by omega]; exact hh), ?_⟩
      intro i hi1 hi2
      by_cases hij : i = j
      · subst hij; omega
      · exact h5 i (by omega) hi2

/-- for arguments up to `2^64` (every `usize`), `nextPow2 n` is the least power of two `≥ n` -/
theorem nextPow2_spec {n : Nat} (h : n ≤ 2 ^ 64) :
    ∃ k, nextPow2 n = 2 ^ k ∧ n ≤ 2 ^ k ∧ ∀ i, i < k → 2 ^ i < n := by
  obtain ⟨k, -, -, h3, h4, h5⟩ := nextPow2_go_spec n 64 0
  refine ⟨k, ?_, h4 (by simpa using h), fun i hi => h5 i (by omega) hi⟩
  unfold nextPow2
  simpa using h3

/-- a power of two bounds `n` iff it bounds `nextPow2 n` -/
theorem nextPow2_le_pow {n : Nat} (h : n ≤ 2 ^ 64) (L : Nat) : nextPow2 n ≤ 2 ^ L ↔ n ≤ 2 ^ L := by
  obtain ⟨k, e, h1, h2⟩ := nextPow2_spec h
  rw [e]
  constructor
  · intro hk; exact le_trans h1 hk
  · intro hn
    have : ¬ L < k := fun hl => by have := h2 L hl; omega
    exact Nat.pow_le_pow_right (by norm_num) (by omega)

/-- `nextPow2 n` fits below `av` iff it fits below the largest power of two not exceeding `av` -/
theorem nextPow2_le_iff {n av : Nat} (h : n ≤ 2 ^ 64) (hav : av ≠ 0) :
    nextPow2 n ≤ av ↔ n ≤ 2 ^ (Nat.log2 av) := by
  rw [← nextPow2_le_pow h]
  obtain ⟨k, e, -, -⟩ := nextPow2_spec h
  rw [e]
  constructor
  · intro hk
    exact Nat.pow_le_pow_right (by norm_num) ((Nat.le_log2 hav).2 hk)
  · intro hk
    exact le_trans hk (Nat.log2_self_le hav)

theorem nextPow2_ge_eight {n : Nat} (h6 : 6 ≤ n) (h : n ≤ 2 ^ 64) : 8 ≤ nextPow2 n := by
  obtain ⟨k, e, h1, -⟩ := nextPow2_spec h
  rw [e] at *
  have : ¬ k < 3 := by
    intro hk
    have : 2 ^ k ≤ 2 ^ 2 := Nat.pow_le_pow_right (by norm_num) (by omega)
    omega
  have : 2 ^ 3 ≤ 2 ^ k := Nat.pow_le_pow_right (by norm_num) (by omega)
  omega

theorem truncateLen_of_two_le {len d : Nat} (h2 : 2 ≤ d) :
    truncateLen len d = if d > len - 1 then .error .truncatedDegreeTooLarge else .ok (min len (d + 1)) := by
  unfold truncateLen
  have h0 : (d == 0) = false := by simp; omega
  have h1 : (d == 1) = false := by simp; omega
  simp [h0, h1]

/-- the direct route: `pp.trim(nextPow2(c + 6))` succeeds exactly when the padded size plus the blinding degree
    fits the commit key; the `d == 1` branch of `truncate` is unreachable (`d ≥ 14`) and the trimmed key has
    `nextPow2(c + 6) + 7` points -/
theorem trim_ok_iff (c maxDegree : Nat) (hc : c + Generated.CIRCUIT_SIZE_PADDING ≤ 2 ^ 64) :
    (∃ k, truncateLen (maxDegree + 1)
        (nextPow2 (c + Generated.CIRCUIT_SIZE_PADDING) + Generated.ADDED_BLINDING_DEGREE) = .ok k) ↔
    nextPow2 (c + Generated.CIRCUIT_SIZE_PADDING) + Generated.ADDED_BLINDING_DEGREE ≤ maxDegree := by
  have h8 := nextPow2_ge_eight (n := c + Generated.CIRCUIT_SIZE_PADDING) (by simp [Generated.CIRCUIT_SIZE_PADDING]) hc
  generalize nextPow2 (c + Generated.CIRCUIT_SIZE_PADDING) = P at *
  rw [truncateLen_of_two_le (by simp only [Generated.ADDED_BLINDING_DEGREE]; omega)]
  simp only [Generated.ADDED_BLINDING_DEGREE, Nat.add_sub_cancel]
  by_cases hle : P + 6 ≤ maxDegree
  · rw [if_neg (by omega)]
    exact ⟨fun _ => hle, fun _ => ⟨_, rfl⟩⟩
  · rw [if_pos (by omega)]
    exact ⟨fun ⟨k, hk⟩ => (by cases hk), fun h => absurd h hle⟩

theorem trim_ok_value {c maxDegree k : Nat} (hc : c + Generated.CIRCUIT_SIZE_PADDING ≤ 2 ^ 64)
    (h : truncateLen (maxDegree + 1)
        (nextPow2 (c + Generated.CIRCUIT_SIZE_PADDING) + Generated.ADDED_BLINDING_DEGREE) = .ok k) :
    k = nextPow2 (c + Generated.CIRCUIT_SIZE_PADDING) + Generated.ADDED_BLINDING_DEGREE + 1 ∧
    14 ≤ nextPow2 (c + Generated.CIRCUIT_SIZE_PADDING) + Generated.ADDED_BLINDING_DEGREE := by
  have h8 := nextPow2_ge_eight (n := c + Generated.CIRCUIT_SIZE_PADDING) (by simp [Generated.CIRCUIT_SIZE_PADDING]) hc
  have hle := (trim_ok_iff c maxDegree hc).1 ⟨k, h⟩
  generalize nextPow2 (c + Generated.CIRCUIT_SIZE_PADDING) = P at *
  rw [truncateLen_of_two_le (by simp only [Generated.ADDED_BLINDING_DEGREE]; omega)] at h
  simp only [Generated.ADDED_BLINDING_DEGREE, Nat.add_sub_cancel] at h hle ⊢
  rw [if_neg (by omega)] at h
  injection h with h
  omega

/-- `max_constraints` in closed form -/
theorem maxConstraints_eq (maxDegree : Nat) :
    maxConstraints maxDegree =
      if maxDegree ≤ 6 then 0 else 2 ^ Nat.log2 (maxDegree - 6) - 6 := by
  unfold maxConstraints
  simp only [Generated.ADDED_BLINDING_DEGREE, Generated.CIRCUIT_SIZE_PADDING]
  by_cases h : maxDegree ≤ 6
  · have : maxDegree - 6 = 0 := by omega
    simp [h, this]
  · have : maxDegree - 6 ≠ 0 := by omega
    simp [h, this]

/-- `capacity_equiv`, exact form: the direct route succeeds iff the constraint count passes the bound of
    `from_bytes` AND (the count is positive or the parameters hold at least the minimal circuit).  The extra
    disjunct is forced: `max_constraints` saturates at `0`, so an EMPTY description passes `from_bytes` on
    parameters with `max_degree < 14`, where `trim(8)` fails. -/
theorem capacity_exact (c maxDegree : Nat) (hc : c + Generated.CIRCUIT_SIZE_PADDING ≤ 2 ^ 64) :
    (∃ k, truncateLen (maxDegree + 1)
        (nextPow2 (c + Generated.CIRCUIT_SIZE_PADDING) + Generated.ADDED_BLINDING_DEGREE) = .ok k) ↔
    (c ≤ maxConstraints maxDegree ∧ (0 < c ∨ 14 ≤ maxDegree)) := by
  rw [trim_ok_iff c maxDegree hc, maxConstraints_eq]
  simp only [Generated.ADDED_BLINDING_DEGREE, Generated.CIRCUIT_SIZE_PADDING] at *
  by_cases h6 : maxDegree ≤ 6
  · rw [if_pos h6]
    have h8 := nextPow2_ge_eight (n := c + 6) (by omega) hc
    constructor
    · intro h; omega
    · rintro ⟨h1, h2⟩; omega
  · rw [if_neg h6]
    have hav : maxDegree - 6 ≠ 0 := by omega
    have key := nextPow2_le_iff (n := c + 6) (av := maxDegree - 6) hc hav
    have e : nextPow2 (c + 6) + 6 ≤ maxDegree ↔ nextPow2 (c + 6) ≤ maxDegree - 6 := by omega
    rw [e, key]
    have hlog : 14 ≤ maxDegree ↔ 8 ≤ 2 ^ Nat.log2 (maxDegree - 6) := by
      constructor
      · intro h
        have : 3 ≤ Nat.log2 (maxDegree - 6) := (Nat.le_log2 hav).2 (by norm_num; omega)
        calc 8 = 2 ^ 3 := by norm_num
          _ ≤ _ := Nat.pow_le_pow_right (by norm_num) this
      · intro h
        have := Nat.log2_self_le hav
        omega
    have hsmall : ¬ 14 ≤ maxDegree → 2 ^ Nat.log2 (maxDegree - 6) ≤ 4 := by
      intro h
      have hl : ¬ 3 ≤ Nat.log2 (maxDegree - 6) := by
        rw [Nat.le_log2 hav]; norm_num; omega
      calc 2 ^ Nat.log2 (maxDegree - 6) ≤ 2 ^ 2 := Nat.pow_le_pow_right (by norm_num) (by omega)
        _ = 4 := by norm_num
    constructor
    · intro h
      refine ⟨by omega, ?_⟩
      by_cases h14 : 14 ≤ maxDegree
      · exact Or.inr h14
      · have := hsmall h14; omega
    · rintro ⟨h1, h2 | h2⟩
      · omega
      · have := hlog.1 h2; omega

/-- `capacity_equiv`: for a non-empty circuit (or parameters that hold the minimal circuit) the bound of
    `from_bytes` and the success of `trim` are the same condition -/
theorem capacity_equiv (c maxDegree : Nat) (hc : c + Generated.CIRCUIT_SIZE_PADDING ≤ 2 ^ 64)
    (hne : 0 < c ∨ 14 ≤ maxDegree) :
    c ≤ maxConstraints maxDegree ↔
    (∃ k, truncateLen (maxDegree + 1)
        (nextPow2 (c + Generated.CIRCUIT_SIZE_PADDING) + Generated.ADDED_BLINDING_DEGREE) = .ok k) := by
  rw [capacity_exact c maxDegree hc]
  exact ⟨fun h => ⟨h, hne⟩, fun h => h.1⟩

/-- the two routes succeed or fail together, for ALL `c` and `maxDegree`: the compressed route is the bound of
    `from_bytes` followed by the very same `trim`, and the bound never rejects what `trim` accepts -/
theorem routes_agree (c maxDegree : Nat) (hc : c + Generated.CIRCUIT_SIZE_PADDING ≤ 2 ^ 64) :
    (c ≤ maxConstraints maxDegree ∧
      ∃ k, truncateLen (maxDegree + 1)
        (nextPow2 (c + Generated.CIRCUIT_SIZE_PADDING) + Generated.ADDED_BLINDING_DEGREE) = .ok k) ↔
    (∃ k, truncateLen (maxDegree + 1)
        (nextPow2 (c + Generated.CIRCUIT_SIZE_PADDING) + Generated.ADDED_BLINDING_DEGREE) = .ok k) := by
  constructor
  · exact fun h => h.2
  · intro h
    exact ⟨((capacity_exact c maxDegree hc).1 h).1, h⟩

/-! ## 6. `CompressedShape.valid` -/

theorem chain_pairwise : ∀ (l : List Nat), (l.zip l.tail).all (fun (a, b) => decide (a < b)) = true →
    l.Pairwise (· < ·)
  | [] => fun _ => List.Pairwise.nil
  | [a] => fun _ => List.pairwise_singleton _ _
  | a :: b :: t => by
    intro h
    simp only [List.tail_cons, List.zip_cons_cons, List.all_cons, Bool.and_eq_true, decide_eq_true_eq] at h
    have ih := chain_pairwise (b :: t) (by simpa using h.2)
    refine List.Pairwise.cons ?_ ih
    intro x hx
    rcases List.mem_cons.1 hx with rfl | hx
    · exact h.1
    · have := (List.pairwise_cons.1 ih).1 x hx
      omega

theorem bounded_decode {s : CompressedShape} {base max : Nat} (h : s.valid base max = true) :
    s.publicInputs.length ≤ max ∧ s.polynomials.length ≤ max ∧ s.constraints.length ≤ max ∧
    s.scalars ≤ 11 * max ∧
    (∀ r, r ∈ s.publicInputs → r < s.constraints.length) ∧
    s.publicInputs.Pairwise (· < ·) ∧
    (∀ p, p ∈ s.polynomials → ∀ i, i ∈ p → i < base + s.scalars) ∧
    (∀ q, q ∈ s.constraints → q.1 < s.polynomials.length ∧ q.2.1 < s.witnesses ∧ q.2.2.1 < s.witnesses ∧
        q.2.2.2.1 < s.witnesses ∧ q.2.2.2.2 < s.witnesses) := by
  unfold CompressedShape.valid at h
  simp only [Bool.and_eq_true, decide_eq_true_eq, List.all_eq_true, Generated.SELECTORS_PER_POLYNOMIAL] at h
  obtain ⟨⟨⟨⟨⟨⟨⟨h1, h2⟩, h3⟩, h4⟩, h5⟩, h6⟩, h7⟩, h8⟩ := h
  have h4 := of_decide_eq_true h4
  refine ⟨h1, h2, h3, by omega, h5, ?_, h7, ?_⟩
  · apply chain_pairwise
    rw [List.all_eq_true]
    intro x hx
    have := h6 x hx
    obtain ⟨a, b⟩ := x
    simpa using this
  · intro q hq
    have := h8 q hq
    obtain ⟨p, a, b, c, d⟩ := q
    simpa [and_assoc] using this

/-- a description with more constraints than the capacity is rejected -/
theorem too_many_constraints_invalid {s : CompressedShape} {base max : Nat} (h : max < s.constraints.length) :
    s.valid base max = false := by
  cases hv : s.valid base max with
  | false => rfl
  | true => have := (bounded_decode hv).2.2.1; omega

theorem packedSizeLimit_eq (max : Nat) : packedSizeLimit max = 857 * max + 30 := by
  unfold packedSizeLimit
  simp only [Generated.PACKED_BYTES_PER_CONSTRAINT, Generated.PACKED_FIXED_BYTES]
  omega

theorem packedSizeLimit_mono {a b : Nat} (h : a ≤ b) : packedSizeLimit a ≤ packedSizeLimit b := by
  rw [packedSizeLimit_eq, packedSizeLimit_eq]; omega


/-! ## 5. `compile` only reads the shape -/

/-- the eleven selectors of a gate -/
def selectorsOf (g : Gate) : List Nat :=
  [g.qm, g.ql, g.qr, g.qo, g.qf, g.qc, g.qarith, g.qrange, g.qlogic, g.qfixed, g.qvar]

/-- `compile` reads the layout only through: the number of gates, the eleven selector columns, the sigma maps
    on the padded domain and the sorted public-input rows (the `lay` field just records the layout). -/
theorem compile_congr (srs : SRS) (srsLen : Nat) (label : List Nat) (c1 c2 : Composer)
    (hsize : c1.gates.size = c2.gates.size)
    (hsel : ∀ i, selectorsOf (c1.gateAt i) = selectorsOf (c2.gateAt i))
    (hsig : sigmaMaps c1 (nextPow2 c2.gates.size) = sigmaMaps c2 (nextPow2 c2.gates.size))
    (hpi : compile.Plonk.Driver.sortedRows c1 = compile.Plonk.Driver.sortedRows c2) :
    compile srs srsLen label c1 = (compile srs srsLen label c2).map (fun k => { k with lay := c1 }) := by
  have hq : ∀ i, (c1.gateAt i).qm = (c2.gateAt i).qm ∧ (c1.gateAt i).ql = (c2.gateAt i).ql ∧
      (c1.gateAt i).qr = (c2.gateAt i).qr ∧ (c1.gateAt i).qo = (c2.gateAt i).qo ∧
      (c1.gateAt i).qf = (c2.gateAt i).qf ∧ (c1.gateAt i).qc = (c2.gateAt i).qc ∧
      (c1.gateAt i).qarith = (c2.gateAt i).qarith ∧ (c1.gateAt i).qrange = (c2.gateAt i).qrange ∧
      (c1.gateAt i).qlogic = (c2.gateAt i).qlogic ∧ (c1.gateAt i).qfixed = (c2.gateAt i).qfixed ∧
      (c1.gateAt i).qvar = (c2.gateAt i).qvar := by
    intro i
    have := hsel i
    simp only [selectorsOf, List.cons.injEq, and_true] at this
    exact this
  unfold compile
  simp only [hsize, hpi, hsig, fun i => (hq i).1, fun i => (hq i).2.1, fun i => (hq i).2.2.1,
    fun i => (hq i).2.2.2.1, fun i => (hq i).2.2.2.2.1, fun i => (hq i).2.2.2.2.2.1,
    fun i => (hq i).2.2.2.2.2.2.1, fun i => (hq i).2.2.2.2.2.2.2.1, fun i => (hq i).2.2.2.2.2.2.2.2.1,
    fun i => (hq i).2.2.2.2.2.2.2.2.2.1, fun i => (hq i).2.2.2.2.2.2.2.2.2.2]
  have hT : ∀ (n constraints : Nat) (label : List Nat) (sel sigma : Array Poly) (vk : VKey) (pi : List Nat) (x : Nat) (g : G1)
      (ckLen : Nat) (selE sigE8 : Array (Array Nat)) (linE vh : Array Nat) (p : Poly),
      commitT ⟨n, constraints, label, sel, sigma, vk, pi, x, g, ckLen, c1, selE, sigE8, linE, vh⟩ p =
      commitT ⟨n, constraints, label, sel, sigma, vk, pi, x, g, ckLen, c2, selE, sigE8, linE, vh⟩ p :=
    fun _ _ _ _ _ _ _ _ _ _ _ _ _ _ _ => rfl
  have h4 : ∀ (n constraints : Nat) (label : List Nat) (sel sigma : Array Poly) (vk : VKey) (pi : List Nat) (x : Nat) (g : G1)
      (ckLen : Nat) (selE sigE8 : Array (Array Nat)) (linE vh : Array Nat) (p q r s : Poly),
      commit4 ⟨n, constraints, label, sel, sigma, vk, pi, x, g, ckLen, c1, selE, sigE8, linE, vh⟩ p q r s =
      commit4 ⟨n, constraints, label, sel, sigma, vk, pi, x, g, ckLen, c2, selE, sigE8, linE, vh⟩ p q r s :=
    fun _ _ _ _ _ _ _ _ _ _ _ _ _ _ _ _ _ _ => rfl
  simp only [hT, h4]
  cases truncateLen srsLen (nextPow2 (c2.gates.size + Generated.CIRCUIT_SIZE_PADDING) + Generated.ADDED_BLINDING_DEGREE) with
  | error e => rfl
  | ok ckLen =>
    simp only
    cases Domain.new? (nextPow2 c2.gates.size - 1) with
    | none => rfl
    | some d =>
      simp only
      split
      · rfl
      · rfl
      · cases Domain.new? (8 * d.size) with
        | none => rfl
        | some d8 => rfl


theorem dc_selectors (c : Composer) (i : Nat) :
    selectorsOf ((decompressCompress c).gateAt i) = selectorsOf (c.gateAt i) := by
  rcases dc_gateAt c i with h | ⟨-, h1, h2⟩
  · rw [h]; rfl
  · rw [h1, h2]

/-- a wire position of the padded table reads a label that the gates use -/
theorem wire_mem_usedWires (c : Composer) {i : Nat} (hi : i < c.gates.size) :
    c.gates[i].a ∈ usedWires c ∧ c.gates[i].b ∈ usedWires c ∧ c.gates[i].c ∈ usedWires c ∧
    c.gates[i].d ∈ usedWires c := by
  have hm : c.gates[i] ∈ c.gates.toList := by simp
  unfold usedWires wiresOf
  simp only [List.mem_flatMap]
  exact ⟨⟨_, hm, by simp⟩, ⟨_, hm, by simp⟩, ⟨_, hm, by simp⟩, ⟨_, hm, by simp⟩⟩

/-- item 5, reduced to the sigma maps: once the sigma maps of the rebuilt composer agree with the original
    ones, the two compilations agree in everything but the recorded layout -/
theorem dc_compile_of_sigma (srs : SRS) (srsLen : Nat) (label : List Nat) (c : Composer)
    (hsig : sigmaMaps (decompressCompress c) (nextPow2 c.gates.size) = sigmaMaps c (nextPow2 c.gates.size)) :
    compile srs srsLen label (decompressCompress c) =
      (compile srs srsLen label c).map (fun k => { k with lay := decompressCompress c }) :=
  compile_congr srs srsLen label (decompressCompress c) c (dc_size c) (dc_selectors c) hsig (dc_sortedRows c)


/-! ### the sigma maps (through `Perm.relabel_sigma`) -/

/-- every gate wire is an allocated witness (always true of composers built by the gadgets; the Rust code
    panics otherwise, the model's `wirePositions` silently drops such wires) -/
def WiresInRange (c : Composer) : Prop :=
  ∀ i (h : i < c.gates.size), c.gates[i].a < c.wit.size ∧ c.gates[i].b < c.wit.size ∧
    c.gates[i].c < c.wit.size ∧ c.gates[i].d < c.wit.size

theorem gateAt_of_lt (c : Composer) {i : Nat} (h : i < c.gates.size) : c.gateAt i = c.gates[i] := by
  simp [Composer.gateAt, Array.getD, h]

theorem wireAt_mem (c : Composer) (p : Perm.Pos) (hp : p.2 < c.gates.size) : Perm.wireAt c p ∈ usedWires c := by
  obtain ⟨h1, h2, h3, h4⟩ := wire_mem_usedWires c hp
  unfold Perm.wireAt
  rw [gateAt_of_lt c hp]
  split
  · exact h1
  · exact h2
  · exact h3
  · exact h4

theorem wireAt_lt {c : Composer} (h : WiresInRange c) (p : Perm.Pos) (hp : p.2 < c.gates.size) :
    Perm.wireAt c p < c.wit.size := by
  obtain ⟨h1, h2, h3, h4⟩ := h p.2 hp
  unfold Perm.wireAt
  rw [gateAt_of_lt c hp]
  split
  · exact h1
  · exact h2
  · exact h3
  · exact h4

/-- the rebuilt composer has the same sigma maps, for every table length -/
theorem dc_sigma (c : Composer) (h : WiresInRange c) (n : Nat) :
    sigmaMaps (decompressCompress c) n = sigmaMaps c n := by
  refine Perm.relabel_sigma (firstUseMap c) c (decompressCompress c) n (dc_gates c) ?_ ?_
  · intro p q _ hp2 _ hq2 e
    exact firstUse_inj c (wireAt_mem c p hp2) (wireAt_mem c q hq2) e
  · intro p _ hp2
    rw [dc_wit, Array.size_replicate]
    exact ⟨fun _ => firstUse_lt c (wireAt_mem c p hp2), fun _ => wireAt_lt h p hp2⟩

/-- item 5: compiling the rebuilt composer gives the same result (key or error) up to the recorded layout -/
theorem dc_compile (srs : SRS) (srsLen : Nat) (label : List Nat) (c : Composer) (h : WiresInRange c) :
    compile srs srsLen label (decompressCompress c) =
      (compile srs srsLen label c).map (fun k => { k with lay := decompressCompress c }) :=
  dc_compile_of_sigma srs srsLen label c (dc_sigma c h _)

end Plonk.CompressModel
