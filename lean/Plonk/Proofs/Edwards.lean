/-
  Field-level ("math level") facts about the JubJub twisted Edwards curve
  `-x² + y² = 1 + d·x²·y²` over `F = ZMod R` and their bridge to the model's `Nat` functions
  of `Plonk/Model/Jubjub.lean` (`onCurve`, `edDen`, `edAdd?`, `edAddOrId`, `edNeg`).

  * `d` is a non-square, `-1` is a square (Euler's criterion evaluated by the kernel), `2 ≠ 0`;
  * completeness of the addition law (`add_complete`), closure (`add_on_curve`);
  * bridge `edAdd?` / `edAddOrId` ↔ field addition law `addF`.
  Associativity is in `EdwardsAssoc.lean`; group structure, `smulF`, the ladder and the
  hypothesis structure `JubjubGroupFacts` (group order only) are in `EdwardsGroup.lean`.
-/
import Mathlib.Tactic.LinearCombination
import Mathlib.Tactic.FieldSimp
import Mathlib.Tactic.Ring
import Mathlib.NumberTheory.LegendreSymbol.Basic
import Plonk.Proofs.FieldBridge
import Plonk.Model.Jubjub

namespace Plonk
open Plonk

/-! ### Constants -/

/-- the Edwards parameter `d` in the field -/
def dF : F := toF EDWARDS_D

theorem toF_EDWARDS_D : toF EDWARDS_D = dF := rfl

theorem R_div_two_lt : R / 2 < 2^256 := by decide +kernel

theorem two_ne_zero_F : (2 : F) ≠ 0 := by
  have h : toF 2 ≠ 0 := by
    rw [Ne, toF_eq_zero_of_lt (by decide +kernel)]; decide
  simpa using h

theorem dF_ne_zero : dF ≠ 0 := by
  unfold dF
  rw [Ne, toF_eq_zero_of_lt (by decide +kernel)]; decide +kernel

/-- Euler: `d^((r-1)/2) = -1`, evaluated by the kernel -/
theorem dF_pow_half : dF ^ (R / 2) = -1 := by
  have h := toF_fpow EDWARDS_D (R / 2) R_div_two_lt
  have e : fpow EDWARDS_D (R / 2) = R - 1 := by decide +kernel
  rw [e, toF_R_sub_one] at h
  exact h.symm

theorem neg_one_ne_one_F : (-1 : F) ≠ 1 := by
  intro h
  apply two_ne_zero_F
  linear_combination -h

/-- `d` is not a square in `F` -/
theorem d_nonresidue : ¬ IsSquare (toF EDWARDS_D) := by
  rw [toF_EDWARDS_D, ZMod.euler_criterion R dF_ne_zero, dF_pow_half]
  exact neg_one_ne_one_F

theorem dF_not_sq (t : F) : t * t ≠ dF := by
  intro h; exact d_nonresidue ⟨t, h.symm⟩

/-- `-1` is a square in `F` (`r ≡ 1 mod 4`) -/
theorem neg_one_is_square : IsSquare (-1 : F) := by
  rw [ZMod.exists_sq_eq_neg_one_iff]
  decide +kernel

/-! ### The curve -/

/-- `-x² + y² = 1 + d x² y²`, in the form of the model's `onCurve` -/
def OnCurveF (x y : F) : Prop := y^2 - x^2 - dF * x^2 * y^2 = 1

theorem onCurve_iff (p : Pt) : onCurve p = true ↔ OnCurveF (toF p.1) (toF p.2) := by
  unfold onCurve OnCurveF
  simp only [beq_iff_eq]
  rw [one_mod_R, ← toF_inj_of_lt (fsub_lt _ _) R_gt_one]
  simp only [toF_fsub, toF_fmul, toF_fsq, toF_one, toF_EDWARDS_D]
  constructor <;> intro h <;> linear_combination h

theorem id_on_curve : OnCurveF 0 1 := by unfold OnCurveF; ring

theorem neg_on_curve {x y : F} (h : OnCurveF x y) : OnCurveF (-x) y := by
  unfold OnCurveF at *; linear_combination h

/-! ### Completeness (probe `/verif/design-probes/Edwards.lean`) -/

theorem edwards_denominators_ne_zero {K : Type*} [Field K]
    (d i : K) (h2ne : (2:K) ≠ 0) (hi : i * i = -1) (hd : ∀ t : K, t * t ≠ d)
    (x1 y1 x2 y2 : K)
    (h1 : -x1^2 + y1^2 = 1 + d * x1^2 * y1^2)
    (h2 : -x2^2 + y2^2 = 1 + d * x2^2 * y2^2) :
    1 + d * x1 * x2 * y1 * y2 ≠ 0 ∧ 1 - d * x1 * x2 * y1 * y2 ≠ 0 := by
  -- it suffices to refute e^2 = 1 for e = d x1 x2 y1 y2
  suffices key : (d * x1 * x2 * y1 * y2)^2 ≠ 1 by
    constructor
    · intro h; apply key
      have : d * x1 * x2 * y1 * y2 = -1 := by linear_combination h
      rw [this]; ring
    · intro h; apply key
      have : d * x1 * x2 * y1 * y2 = 1 := by linear_combination -h
      rw [this]; ring
  intro hε
  set e := d * x1 * x2 * y1 * y2 with he
  have e_ne : e ≠ 0 := by
    intro h0; rw [h0] at hε; norm_num at hε
  have hx1 : x1 ≠ 0 := by rintro rfl; apply e_ne; rw [he]; ring
  have hy1 : y1 ≠ 0 := by rintro rfl; apply e_ne; rw [he]; ring
  have hy2 : y2 ≠ 0 := by rintro rfl; apply e_ne; rw [he]; ring
  have K1 : -x1^2 + y1^2 = d * x1^2 * y1^2 * (-x2^2 + y2^2) := by
    linear_combination h1 - d * x1^2 * y1^2 * h2 - hε
  have sq_plus : (i * x1 + e * y1)^2 = d * (x1 * y1 * (i * x2 + y2))^2 := by
    linear_combination K1 + (x1^2 - d * x1^2 * y1^2 * x2^2) * hi + y1^2 * hε
  have sq_minus : (i * x1 - e * y1)^2 = d * (x1 * y1 * (i * x2 - y2))^2 := by
    linear_combination K1 + (x1^2 - d * x1^2 * y1^2 * x2^2) * hi + y1^2 * hε
  by_cases hp : i * x2 + y2 = 0
  · by_cases hm : i * x2 - y2 = 0
    · apply hy2
      have : (2:K) * y2 = 0 := by linear_combination hp - hm
      rcases mul_eq_zero.mp this with h | h
      · exact absurd h h2ne
      · exact h
    · apply hd ((i * x1 - e * y1) / (x1 * y1 * (i * x2 - y2)))
      have hden : x1 * y1 * (i * x2 - y2) ≠ 0 := mul_ne_zero (mul_ne_zero hx1 hy1) hm
      field_simp
      linear_combination sq_minus
  · apply hd ((i * x1 + e * y1) / (x1 * y1 * (i * x2 + y2)))
    have hden : x1 * y1 * (i * x2 + y2) ≠ 0 := mul_ne_zero (mul_ne_zero hx1 hy1) hp
    field_simp
    linear_combination sq_plus

/-- The addition law is complete on JubJub: the denominators never vanish on curve points. -/
theorem add_complete {x1 y1 x2 y2 : F} (h1 : OnCurveF x1 y1) (h2 : OnCurveF x2 y2) :
    1 + dF * x1 * x2 * y1 * y2 ≠ 0 ∧ 1 - dF * x1 * x2 * y1 * y2 ≠ 0 := by
  obtain ⟨i, hi⟩ := neg_one_is_square
  unfold OnCurveF at h1 h2
  exact edwards_denominators_ne_zero dF i two_ne_zero_F hi.symm dF_not_sq x1 y1 x2 y2
    (by linear_combination h1) (by linear_combination h2)

/-! ### Points and the addition law -/

/-- affine points over the field -/
abbrev PtF := F × F

/-- field interpretation of a model point -/
def toFP (p : Pt) : PtF := (toF p.1, toF p.2)

@[simp] theorem toFP_fst (p : Pt) : (toFP p).1 = toF p.1 := rfl
@[simp] theorem toFP_snd (p : Pt) : (toFP p).2 = toF p.2 := rfl

def OnCurveP (p : PtF) : Prop := OnCurveF p.1 p.2

theorem onCurve_iff_P (p : Pt) : onCurve p = true ↔ OnCurveP (toFP p) := onCurve_iff p

/-- the (unified, complete) twisted Edwards addition law with `a = -1` -/
def addF (p q : PtF) : PtF :=
  ((p.1 * q.2 + p.2 * q.1) / (1 + dF * p.1 * q.1 * p.2 * q.2),
   (p.2 * q.2 + p.1 * q.1) / (1 - dF * p.1 * q.1 * p.2 * q.2))

def negF (p : PtF) : PtF := (-p.1, p.2)

def idF : PtF := (0, 1)

theorem toFP_id : toFP Pt.id = idF := by simp [toFP, Pt.id, idF]

theorem toFP_edNeg (p : Pt) : toFP (edNeg p) = negF (toFP p) := by
  simp [toFP, edNeg, negF]

theorem id_on_curveP : OnCurveP idF := id_on_curve

theorem neg_on_curveP {p : PtF} (h : OnCurveP p) : OnCurveP (negF p) := neg_on_curve h

theorem add_completeP {p q : PtF} (hp : OnCurveP p) (hq : OnCurveP q) :
    1 + dF * p.1 * q.1 * p.2 * q.2 ≠ 0 ∧ 1 - dF * p.1 * q.1 * p.2 * q.2 ≠ 0 :=
  add_complete hp hq

/-- polynomial form of closure: numerators and denominators of the sum satisfy the
    homogenised curve equation (cofactors found with sympy) -/
theorem add_on_curve_poly {x1 y1 x2 y2 : F} (h1 : OnCurveF x1 y1) (h2 : OnCurveF x2 y2) :
    (y1 * y2 + x1 * x2)^2 * (1 + dF * x1 * x2 * y1 * y2)^2
      - (x1 * y2 + y1 * x2)^2 * (1 - dF * x1 * x2 * y1 * y2)^2
      - dF * (x1 * y2 + y1 * x2)^2 * (y1 * y2 + x1 * x2)^2
      = (1 + dF * x1 * x2 * y1 * y2)^2 * (1 - dF * x1 * x2 * y1 * y2)^2 := by
  unfold OnCurveF at h1 h2
  linear_combination
    (dF^3*x1^2*x2^4*y1^2*y2^4 - dF^2*x1^2*x2^4*y2^4 + dF^2*x2^4*y1^2*y2^4 - dF^2*x2^4*y2^4
      - dF*x1^2*x2^4*y2^2 + dF*x1^2*x2^2*y2^4 + dF*x2^4*y1^2*y2^2 - 2*dF*x2^4*y2^4
      - dF*x2^2*y1^2*y2^4 - 2*dF*x2^2*y2^2 - 2*x2^4*y2^2 + x2^4 + 2*x2^2*y2^4
      - 4*x2^2*y2^2 + y2^4) * h1
    + (dF*x1^4*x2^2*y2^2 + 2*dF*x1^2*x2^2*y2^2 + dF*x2^2*y1^4*y2^2 - 2*dF*x2^2*y1^2*y2^2
      + dF*x2^2*y2^2 + 2*x1^2*x2^2*y2^2 - x1^2*x2^2 + x1^2*y2^2 - 2*x2^2*y1^2*y2^2
      + x2^2*y1^2 + 2*x2^2*y2^2 - x2^2 - y1^2*y2^2 + y2^2 + 1) * h2

theorem onCurve_of_homogeneous {A B Nx Ny : F} (hA : A ≠ 0) (hB : B ≠ 0)
    (key : Ny^2 * A^2 - Nx^2 * B^2 - dF * Nx^2 * Ny^2 = A^2 * B^2) :
    OnCurveF (Nx / A) (Ny / B) := by
  unfold OnCurveF
  field_simp
  linear_combination key

/-- closure: the sum of two curve points is a curve point -/
theorem add_on_curve {x1 y1 x2 y2 : F} (h1 : OnCurveF x1 y1) (h2 : OnCurveF x2 y2) :
    OnCurveF ((x1 * y2 + y1 * x2) / (1 + dF * x1 * x2 * y1 * y2))
             ((y1 * y2 + x1 * x2) / (1 - dF * x1 * x2 * y1 * y2)) := by
  obtain ⟨hA, hB⟩ := add_complete h1 h2
  have key := add_on_curve_poly h1 h2
  exact onCurve_of_homogeneous hA hB key

theorem add_on_curveP {p q : PtF} (hp : OnCurveP p) (hq : OnCurveP q) : OnCurveP (addF p q) :=
  add_on_curve hp hq

/-! ### Bridge to the model's `edDen`, `edAdd?`, `edAddOrId` -/

theorem fdiv_lt (a b : Nat) : fdiv a b < R := by unfold fdiv; exact fmul_lt _ _

theorem toF_edDen_fst (p q : Pt) :
    toF (edDen p q).1 = 1 + dF * toF p.1 * toF q.1 * toF p.2 * toF q.2 := by
  simp only [edDen, toF_fadd, toF_fmul, toF_one, toF_EDWARDS_D]; ring

theorem toF_edDen_snd (p q : Pt) :
    toF (edDen p q).2 = 1 - dF * toF p.1 * toF q.1 * toF p.2 * toF q.2 := by
  simp only [edDen, toF_fsub, toF_fmul, toF_one, toF_EDWARDS_D]; ring

theorem edDen_fst_lt (p q : Pt) : (edDen p q).1 < R := by unfold edDen; exact fadd_lt _ _
theorem edDen_snd_lt (p q : Pt) : (edDen p q).2 < R := by unfold edDen; exact fsub_lt _ _

theorem edAdd?_def (p q : Pt) : edAdd? p q =
    if (edDen p q).1 = 0 ∨ (edDen p q).2 = 0 then none
    else some (fdiv (fadd (fmul p.1 q.2) (fmul p.2 q.1)) (edDen p q).1,
               fdiv (fadd (fmul p.2 q.2) (fmul p.1 q.1)) (edDen p q).2) := by
  unfold edAdd?
  simp only [Bool.or_eq_true, beq_iff_eq]

/-- `edAdd?` fails exactly at a pole of the addition law -/
theorem edAdd?_eq_none_iff (p q : Pt) :
    edAdd? p q = none ↔
      (1 + dF * toF p.1 * toF q.1 * toF p.2 * toF q.2 = 0 ∨
       1 - dF * toF p.1 * toF q.1 * toF p.2 * toF q.2 = 0) := by
  rw [edAdd?_def, ← toF_edDen_fst, ← toF_edDen_snd,
    ← eq_zero_iff_toF (edDen_fst_lt p q), ← eq_zero_iff_toF (edDen_snd_lt p q)]
  split <;> simp_all

/-- `edAdd?` succeeds exactly off the poles, with the (reduced) value of the addition law -/
theorem edAdd?_eq_some_iff (p q s : Pt) :
    edAdd? p q = some s ↔
      1 + dF * toF p.1 * toF q.1 * toF p.2 * toF q.2 ≠ 0 ∧
      1 - dF * toF p.1 * toF q.1 * toF p.2 * toF q.2 ≠ 0 ∧
      s.1 < R ∧ s.2 < R ∧
      toF s.1 = (toF p.1 * toF q.2 + toF p.2 * toF q.1)
                  / (1 + dF * toF p.1 * toF q.1 * toF p.2 * toF q.2) ∧
      toF s.2 = (toF p.2 * toF q.2 + toF p.1 * toF q.1)
                  / (1 - dF * toF p.1 * toF q.1 * toF p.2 * toF q.2) := by
  rw [edAdd?_def, ← toF_edDen_fst, ← toF_edDen_snd]
  split
  · next h =>
    rw [eq_zero_iff_toF (edDen_fst_lt p q), eq_zero_iff_toF (edDen_snd_lt p q)] at h
    constructor
    · intro h'; cases h'
    · rintro ⟨h1, h2, -⟩; rcases h with h | h <;> contradiction
  · next h =>
    rw [eq_zero_iff_toF (edDen_fst_lt p q), eq_zero_iff_toF (edDen_snd_lt p q), not_or] at h
    constructor
    · intro h'
      injection h' with h'
      subst h'
      refine ⟨h.1, h.2, fdiv_lt _ _, fdiv_lt _ _, ?_, ?_⟩ <;> simp
    · rintro ⟨-, -, hs1, hs2, e1, e2⟩
      rw [Option.some.injEq]
      apply Prod.ext
      · rw [← toF_inj_of_lt (fdiv_lt _ _) hs1, e1]; simp
      · rw [← toF_inj_of_lt (fdiv_lt _ _) hs2, e2]; simp

/-- statement for reduced results, in point form -/
theorem edAdd?_eq_some_iff' (p q s : Pt) (hs1 : s.1 < R) (hs2 : s.2 < R) :
    edAdd? p q = some s ↔
      1 + dF * toF p.1 * toF q.1 * toF p.2 * toF q.2 ≠ 0 ∧
      1 - dF * toF p.1 * toF q.1 * toF p.2 * toF q.2 ≠ 0 ∧
      toFP s = addF (toFP p) (toFP q) := by
  rw [edAdd?_eq_some_iff]
  simp only [toFP, addF, Prod.mk.injEq, hs1, hs2, true_and]

/-- on curve points the host-side addition never takes the identity fallback -/
theorem edAdd?_on_curve (p q : Pt) (hp : onCurve p = true) (hq : onCurve q = true) :
    edAdd? p q = some (edAddOrId p q) := by
  rw [onCurve_iff] at hp hq
  obtain ⟨hA, hB⟩ := add_complete hp hq
  unfold edAddOrId
  cases h : edAdd? p q with
  | none =>
    rw [edAdd?_eq_none_iff] at h
    rcases h with h | h <;> contradiction
  | some s => rfl

theorem edAddOrId_lt (p q : Pt) : (edAddOrId p q).1 < R ∧ (edAddOrId p q).2 < R := by
  unfold edAddOrId
  cases h : edAdd? p q with
  | none => simp only [Option.getD_none, Pt.id]; exact ⟨R_pos, R_gt_one⟩
  | some s =>
    rw [edAdd?_eq_some_iff] at h
    exact ⟨h.2.2.1, h.2.2.2.1⟩

/-- on curve points `edAddOrId` is the addition law -/
theorem toFP_edAddOrId (p q : Pt) (hp : onCurve p = true) (hq : onCurve q = true) :
    toFP (edAddOrId p q) = addF (toFP p) (toFP q) := by
  have h := edAdd?_on_curve p q hp hq
  rw [edAdd?_eq_some_iff' _ _ _ (edAddOrId_lt p q).1 (edAddOrId_lt p q).2] at h
  exact h.2.2

theorem edAddOrId_on_curve (p q : Pt) (hp : onCurve p = true) (hq : onCurve q = true) :
    onCurve (edAddOrId p q) = true := by
  rw [onCurve_iff_P, toFP_edAddOrId p q hp hq]
  rw [onCurve_iff_P] at hp hq
  exact add_on_curveP hp hq

theorem edNeg_on_curve (p : Pt) (hp : onCurve p = true) : onCurve (edNeg p) = true := by
  rw [onCurve_iff_P] at *
  rw [toFP_edNeg]; exact neg_on_curveP hp

theorem id_on_curve_model : onCurve Pt.id = true := by
  rw [onCurve_iff_P, toFP_id]; exact id_on_curveP

end Plonk
