/-
  C02 (soundness), opening layer.  Built on `KzgMath` / `KzgModel` (C20).

  * `batch_open_sound` / `forged_evaluation_rejected_math` — honest-witness form (the witnesses are
    the true quotients): the batched check in the trapdoor view passes, for `vᵢ` and `u` outside
    explicit bad sets, exactly when every claimed evaluation is the true one.
  * `batch_open_sound_model` — the same on the model's `aggregateWitness` / `Poly.evaluate`.
  * `agm_batch_open_sound` — ALGEBRAIC adversary: the witnesses are commitments of ARBITRARY
    polynomials `hᵢ` (the representation an algebraic adversary must output).  If the check passes
    and the trapdoor `x` is not a root of the explicit non-zero polynomial `openPoly`, `u` is outside
    a set of at most `n − 1` values and every `vᵢ` outside a set of at most `kᵢ − 1` values, then
    every claimed evaluation is the true one.
-/
import Plonk.Proofs.KzgMath
import Plonk.Proofs.KzgModel

namespace Plonk.Sound
open Polynomial Plonk.KzgMath

section math
variable {F : Type*} [Field F] [DecidableEq F] {G : Type*} [AddCommGroup G] [Module F G]

/-- the explicit bad set of an aggregation challenge: the roots of `Σⱼ δⱼ Xʲ`, `δⱼ` the errors of
    the claimed evaluations (empty when there is no error) -/
noncomputable def aggBad (k : ℕ) (δ : ℕ → F) : Finset F :=
  if ∀ j < k, δ j = 0 then ∅ else (badPoly k δ).roots.toFinset

theorem aggBad_card_le (k : ℕ) (δ : ℕ → F) : (aggBad k δ).card ≤ k - 1 := by
  unfold aggBad
  split
  · simp
  · exact (Multiset.toFinset_card_le _).trans ((card_roots' _).trans (natDegree_badPoly_le k δ))

theorem agg_zero_iff_of_not_bad (k : ℕ) (δ : ℕ → F) (v : F) (hv : v ∉ aggBad k δ) :
    agg v k δ = 0 ↔ ∀ j < k, δ j = 0 := by
  by_cases h : ∀ j < k, δ j = 0
  · exact ⟨fun _ => h, fun _ => by rw [agg_congr v k h, agg_zero_fun]⟩
  · refine ⟨fun h0 => ?_, fun h' => absurd h' h⟩
    exfalso
    have hne : badPoly k δ ≠ 0 := by
      intro h0'
      apply h
      intro j hj
      have := coeff_badPoly k δ j
      rw [h0', if_pos hj] at this
      simpa using this.symm
    apply hv
    rw [aggBad, if_neg h, Multiset.mem_toFinset, mem_roots hne, IsRoot, eval_badPoly]
    exact h0

/-- the errors of the claimed evaluations at point `i` -/
def evalErr (z : ℕ → F) (p : ℕ → ℕ → F[X]) (e : ℕ → ℕ → F) (i j : ℕ) : F :=
  e i j - (p i j).eval (z i)

/-- **Batched opening, honest witnesses.**  For every `vᵢ ∉ aggBad` (at most `kᵢ − 1` values, fixed
    by the polynomials, points and claimed evaluations) and every `u` outside a set of at most
    `n − 1` values, the batched check passes iff every claimed evaluation is the true one. -/
theorem batch_open_sound {g : G} (hg : Nondeg F g) (x : F) (n : ℕ) (z : ℕ → F) (k : ℕ → ℕ)
    (p : ℕ → ℕ → F[X]) (e : ℕ → ℕ → F) (v : ℕ → F)
    (hv : ∀ i < n, v i ∉ aggBad (k i) (evalErr z p e i)) (u : F)
    (hu : u ∉ aggBad n (defect v z k p e)) :
    (x • agg u n (fun i => KzgMath.commit x g (agg (v i) (k i) (p i) /ₘ (X - C (z i))))
        = agg u n (fun i => agg (v i) (k i) (fun j => KzgMath.commit x g (p i j))
            + z i • KzgMath.commit x g (agg (v i) (k i) (p i) /ₘ (X - C (z i))))
          - agg u n (fun i => agg (v i) (k i) (e i)) • g)
      ↔ ∀ i < n, ∀ j < k i, e i j = (p i j).eval (z i) := by
  rw [batch_check_iff hg, agg_zero_iff_of_not_bad n _ u hu]
  refine forall₂_congr (fun i hi => ?_)
  exact (agg_zero_iff_of_not_bad (k i) (evalErr z p e i) (v i) (hv i hi)).trans
    (forall₂_congr (fun j _ => sub_eq_zero))

/-- **`forged_evaluation_rejected`** (honest witnesses): one wrong evaluation and the check fails,
    outside the explicit bad sets -/
theorem forged_evaluation_rejected_math {g : G} (hg : Nondeg F g) (x : F) (n : ℕ) (z : ℕ → F)
    (k : ℕ → ℕ) (p : ℕ → ℕ → F[X]) (e : ℕ → ℕ → F) (i0 j0 : ℕ) (hi0 : i0 < n) (hj0 : j0 < k i0)
    (hforged : e i0 j0 ≠ (p i0 j0).eval (z i0)) (v : ℕ → F)
    (hv : ∀ i < n, v i ∉ aggBad (k i) (evalErr z p e i)) (u : F)
    (hu : u ∉ aggBad n (defect v z k p e)) :
    ¬ (x • agg u n (fun i => KzgMath.commit x g (agg (v i) (k i) (p i) /ₘ (X - C (z i))))
        = agg u n (fun i => agg (v i) (k i) (fun j => KzgMath.commit x g (p i j))
            + z i • KzgMath.commit x g (agg (v i) (k i) (p i) /ₘ (X - C (z i))))
          - agg u n (fun i => agg (v i) (k i) (e i)) • g) := by
  rw [batch_open_sound hg x n z k p e v hv u hu]
  exact fun h => hforged (h i0 hi0 j0 hj0)

/-! ### algebraic adversary: arbitrary witness polynomials -/

/-- the polynomial of point `i` whose vanishing says that `hᵢ` is the quotient of the flattened
    polynomial minus the flattened claimed value by `X − zᵢ` -/
noncomputable def openTerm (v z : ℕ → F) (k : ℕ → ℕ) (p : ℕ → ℕ → F[X]) (e : ℕ → ℕ → F)
    (h : ℕ → F[X]) (i : ℕ) : F[X] :=
  (X - C (z i)) * h i - agg (v i) (k i) (p i) + C (agg (v i) (k i) (e i))

/-- the polynomial in the trapdoor that the batched check evaluates -/
noncomputable def openPoly (u : F) (n : ℕ) (v z : ℕ → F) (k : ℕ → ℕ) (p : ℕ → ℕ → F[X])
    (e : ℕ → ℕ → F) (h : ℕ → F[X]) : F[X] :=
  agg u n (openTerm v z k p e h)

omit [DecidableEq F] in
theorem coeff_agg (u : F) (n : ℕ) (Ψ : ℕ → F[X]) (m : ℕ) :
    (agg u n Ψ).coeff m = agg u n (fun i => (Ψ i).coeff m) := by
  simp only [agg, finsetSum_coeff, coeff_smul]

omit [DecidableEq F] in
theorem natDegree_agg_le (u : F) (n : ℕ) (Ψ : ℕ → F[X]) (D : ℕ) (hΨ : ∀ i < n, (Ψ i).natDegree ≤ D) :
    (agg u n Ψ).natDegree ≤ D := by
  unfold agg
  refine natDegree_sum_le_of_forall_le _ _ (fun i hi => ?_)
  exact (natDegree_smul_le _ _).trans (hΨ i (Finset.mem_range.mp hi))

omit [DecidableEq F] in
theorem natDegree_openTerm_le (v z : ℕ → F) (k : ℕ → ℕ) (p : ℕ → ℕ → F[X]) (e : ℕ → ℕ → F)
    (h : ℕ → F[X]) (i : ℕ) (D : ℕ) (hh : (h i).natDegree ≤ D) (hp : ∀ j < k i, (p i j).natDegree ≤ D + 1) :
    (openTerm v z k p e h i).natDegree ≤ D + 1 := by
  unfold openTerm
  refine (natDegree_add_le _ _).trans (max_le ((natDegree_sub_le _ _).trans (max_le ?_ ?_)) ?_)
  · refine natDegree_mul_le.trans ?_
    rw [natDegree_X_sub_C]; omega
  · exact natDegree_agg_le _ _ _ _ hp
  · rw [natDegree_C]; omega

omit [DecidableEq F] in
/-- the batched check with witnesses `Wᵢ = commit hᵢ` is the evaluation of `openPoly` at the
    trapdoor -/
theorem agm_batch_check_iff {g : G} (hg : Nondeg F g) (x u : F) (n : ℕ) (v z : ℕ → F) (k : ℕ → ℕ)
    (p : ℕ → ℕ → F[X]) (e : ℕ → ℕ → F) (h : ℕ → F[X]) :
    (x • agg u n (fun i => KzgMath.commit x g (h i))
        = agg u n (fun i => agg (v i) (k i) (fun j => KzgMath.commit x g (p i j)) + z i • KzgMath.commit x g (h i))
          - agg u n (fun i => agg (v i) (k i) (e i)) • g)
      ↔ (openPoly u n v z k p e h).eval x = 0 := by
  have hC : ∀ i, agg (v i) (k i) (fun j => KzgMath.commit x g (p i j))
      = (agg (v i) (k i) (p i)).eval x • g := fun i => by rw [commit_agg, commit_eval]
  simp only [hC]
  simp only [commit_eval]
  rw [batch_check_general hg, openPoly, eval_agg]
  simp only [openTerm, eval_add, eval_sub, eval_mul, eval_X, eval_C]

/-- the explicit bad set of the trapdoor: the roots of `openPoly` (empty when it is zero) -/
noncomputable def trapdoorBad (u : F) (n : ℕ) (v z : ℕ → F) (k : ℕ → ℕ) (p : ℕ → ℕ → F[X])
    (e : ℕ → ℕ → F) (h : ℕ → F[X]) : Finset F :=
  (openPoly u n v z k p e h).roots.toFinset

theorem trapdoorBad_card_le (u : F) (n : ℕ) (v z : ℕ → F) (k : ℕ → ℕ) (p : ℕ → ℕ → F[X])
    (e : ℕ → ℕ → F) (h : ℕ → F[X]) (D : ℕ) (hh : ∀ i < n, (h i).natDegree ≤ D)
    (hp : ∀ i < n, ∀ j < k i, (p i j).natDegree ≤ D + 1) :
    (trapdoorBad u n v z k p e h).card ≤ D + 1 := by
  unfold trapdoorBad openPoly
  refine (Multiset.toFinset_card_le _).trans ((card_roots' _).trans ?_)
  exact natDegree_agg_le _ _ _ _ (fun i hi => natDegree_openTerm_le v z k p e h i D (hh i hi) (hp i hi))

/-- the explicit bad set of `u` for an algebraic adversary: for the first coefficient index at
    which some `openTerm` is non-zero, the roots of `Σᵢ (that coefficient of openTermᵢ)·Xⁱ` -/
noncomputable def agmUBad (n : ℕ) (Ψ : ℕ → F[X]) : Finset F := by
  classical
  exact if hex : ∃ m, ¬ ∀ i < n, (Ψ i).coeff m = 0 then
    aggBad n (fun i => (Ψ i).coeff (Nat.find hex)) else ∅

theorem agmUBad_card_le (n : ℕ) (Ψ : ℕ → F[X]) : (agmUBad n Ψ).card ≤ n - 1 := by
  classical
  unfold agmUBad
  split
  · exact aggBad_card_le _ _
  · simp

theorem agg_poly_zero_of_not_bad (n : ℕ) (Ψ : ℕ → F[X]) (u : F) (hu : u ∉ agmUBad n Ψ)
    (h0 : agg u n Ψ = 0) : ∀ i < n, Ψ i = 0 := by
  classical
  by_contra hne
  have hex : ∃ m, ¬ ∀ i < n, (Ψ i).coeff m = 0 := by
    by_contra hall
    apply hne
    intro i hi
    ext m
    rw [coeff_zero]
    by_contra hc
    exact hall ⟨m, fun hh => hc (hh i hi)⟩
  have hspec := Nat.find_spec hex
  rw [agmUBad, dif_pos hex] at hu
  apply hspec
  rw [← agg_zero_iff_of_not_bad n _ u hu, ← coeff_agg, h0, coeff_zero]

/-- **Batched opening against an algebraic adversary.**  Claimed evaluations `e`, committed
    polynomials `p`, points `z`; aggregation challenges `vᵢ ∉ aggBad` (at most `kᵢ − 1` values
    each); then ARBITRARY witness polynomials `hᵢ`; `u ∉ agmUBad` (at most `n − 1` values);
    trapdoor `x ∉ trapdoorBad` (at most `D + 1` values when all degrees are `≤ D + 1`).  If the
    batched check passes, every claimed evaluation is the true one. -/
theorem agm_batch_open_sound {g : G} (hg : Nondeg F g) (n : ℕ) (z : ℕ → F) (k : ℕ → ℕ)
    (p : ℕ → ℕ → F[X]) (e : ℕ → ℕ → F) (v : ℕ → F)
    (hv : ∀ i < n, v i ∉ aggBad (k i) (evalErr z p e i)) (h : ℕ → F[X]) (u : F)
    (hu : u ∉ agmUBad n (openTerm v z k p e h)) (x : F)
    (hx : x ∉ trapdoorBad u n v z k p e h)
    (hcheck : x • agg u n (fun i => KzgMath.commit x g (h i))
        = agg u n (fun i => agg (v i) (k i) (fun j => KzgMath.commit x g (p i j)) + z i • KzgMath.commit x g (h i))
          - agg u n (fun i => agg (v i) (k i) (e i)) • g) :
    ∀ i < n, ∀ j < k i, e i j = (p i j).eval (z i) := by
  rw [agm_batch_check_iff hg] at hcheck
  have hzero : openPoly u n v z k p e h = 0 := by
    by_contra hne
    apply hx
    rw [trapdoorBad, Multiset.mem_toFinset, mem_roots hne]
    exact hcheck
  have hterms := agg_poly_zero_of_not_bad n _ u hu hzero
  intro i hi
  have hi0 := congrArg (eval (z i)) (hterms i hi)
  simp only [openTerm, eval_add, eval_sub, eval_mul, eval_X, eval_C, sub_self, zero_mul, eval_zero,
    zero_sub] at hi0
  rw [eval_agg] at hi0
  have hd : agg (v i) (k i) (evalErr z p e i) = 0 := by
    unfold evalErr
    rw [agg_sub]
    linear_combination hi0
  have := (agg_zero_iff_of_not_bad (k i) _ (v i) (hv i hi)).mp hd
  intro j hj
  exact sub_eq_zero.mp (this j hj)

end math

/-! ### on the model's functions -/

section model
variable {G : Type*} [AddCommGroup G] [Module Plonk.F G]

/-- **`forged_evaluation_rejected`** on the model's `aggregateWitness` / `Poly.evaluate`
    (honest witnesses): for `vᵢ`, `u` outside the explicit bad sets the batched check of
    `batch_check` (trapdoor view) passes iff every claimed evaluation is the value computed by the
    model's `Poly.evaluate` on the committed coefficient list. -/
theorem batch_open_sound_model {g : G} (hg : Nondeg Plonk.F g) (x : Plonk.F) (n : ℕ)
    (polys : ℕ → List Poly) (evals : ℕ → ℕ → Nat) (z v : ℕ → Nat)
    (hv : ∀ i < n, toF (v i) ∉ aggBad (polys i).length
      (fun j => toF (evals i j) - toF (Poly.evaluate ((polys i).getD j []) (z i))))
    (u : Plonk.F)
    (hu : u ∉ aggBad n (fun i => modelDefect (polys i) (evals i) (z i) (v i))) :
    (x • agg u n (fun i => KzgMath.commit x g (toPoly (aggregateWitness (polys i) (z i) (v i))))
        = agg u n (fun i =>
            agg (toF (v i)) (polys i).length
              (fun j => KzgMath.commit x g (toPoly ((polys i).getD j [])))
            + toF (z i) • KzgMath.commit x g (toPoly (aggregateWitness (polys i) (z i) (v i))))
          - agg u n (fun i => agg (toF (v i)) (polys i).length (fun j => toF (evals i j))) • g)
      ↔ ∀ i < n, ∀ j < (polys i).length,
          toF (evals i j) = toF (Poly.evaluate ((polys i).getD j []) (z i)) := by
  rw [batch_check_model hg, agg_zero_iff_of_not_bad n _ u hu]
  refine forall₂_congr (fun i hi => ?_)
  unfold modelDefect
  rw [agg_zero_iff_of_not_bad _ _ _ (hv i hi)]
  exact forall₂_congr (fun j _ => sub_eq_zero)

end model

end Plonk.Sound
