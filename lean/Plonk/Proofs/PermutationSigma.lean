import Mathlib.Data.List.Nodup
import Mathlib.Data.List.Perm.Basic
import Plonk.Model.Prover
/-
  C05 (permutation half), part 2: functional characterisation of the model's `wirePositions`
  and `sigmaMaps` (`compute_sigma_permutations`).
-/
namespace Plonk
namespace Perm
abbrev Pos := Nat × Nat

def wireAt (c : Composer) (p : Pos) : Nat :=
  match p.1 with
  | 0 => (c.gateAt p.2).a
  | 1 => (c.gateAt p.2).b
  | 2 => (c.gateAt p.2).c
  | _ => (c.gateAt p.2).d

def rowPos (i : Nat) : List Pos := [(0, i), (1, i), (2, i), (3, i)]
def allPos (m : Nat) : List Pos := (List.range m).flatMap rowPos

def pushAll (m : Array (List Pos)) (ps : List (Nat × Pos)) : Array (List Pos) :=
  ps.foldl (fun m x => m.modify x.1 (fun l => l ++ [x.2])) m

theorem wirePositions_eq (c : Composer) :
    wirePositions c = pushAll (Array.replicate c.wit.size []) ((allPos c.gates.size).map fun p => (wireAt c p, p)) := by
  unfold wirePositions pushAll allPos
  simp only [Id.run, Std.Legacy.Range.forIn_eq_forIn_range', bind_pure_comp, map_pure, List.forIn_pure_yield_eq_foldl, bind_pure]
  have hsz : ([:c.gates.size] : Std.Legacy.Range).size = c.gates.size := by
    simp [Std.Legacy.Range.size]
  rw [hsz, ← List.range_eq_range', List.foldl_map, List.foldl_flatMap]
  show _ = _
  congr 1


theorem pushAll_size (ps : List (Nat × Pos)) : ∀ m : Array (List Pos), (pushAll m ps).size = m.size := by
  induction ps with
  | nil => intro m; rfl
  | cons x xs ih => intro m; simp only [pushAll, List.foldl_cons] at ih ⊢; rw [ih]; simp

theorem pushAll_getD (ps : List (Nat × Pos)) (w : Nat) : ∀ m : Array (List Pos), w < m.size →
    (pushAll m ps).getD w [] = m.getD w [] ++ (ps.filter (fun x => x.1 == w)).map (·.2) := by
  induction ps with
  | nil => intro m _; simp [pushAll]
  | cons x xs ih =>
    intro m hw
    simp only [pushAll, List.foldl_cons] at ih ⊢
    rw [ih _ (by simpa using hw)]
    by_cases hx : x.1 = w
    · subst hx
      simp [Array.getD_eq_getD_getElem?, Array.getElem_modify, hw]
    · have : (x.1 == w) = false := by simpa using hx
      simp [Array.getD_eq_getD_getElem?, Array.getElem?_modify, hx, this]

/-- positions wired to witness `w`, in scan order -/
def classOf (c : Composer) (w : Nat) : List Pos := (allPos c.gates.size).filter fun q => wireAt c q == w

theorem wirePositions_size (c : Composer) : (wirePositions c).size = c.wit.size := by
  rw [wirePositions_eq, pushAll_size]; simp

theorem wirePositions_getD (c : Composer) (w : Nat) (hw : w < c.wit.size) :
    (wirePositions c).getD w [] = classOf c w := by
  rw [wirePositions_eq, pushAll_getD _ _ _ (by simpa using hw)]
  simp [classOf, List.filter_map, Function.comp_def, hw]

theorem wirePositions_toList (c : Composer) :
    (wirePositions c).toList = (List.range c.wit.size).map (classOf c) := by
  apply List.ext_getElem
  · simp [wirePositions_size]
  · intro i h1 h2
    have hi : i < c.wit.size := by simpa using h2
    have := wirePositions_getD c i hi
    rw [Array.getD_eq_getD_getElem?, Array.getElem?_eq_getElem (by rw [wirePositions_size]; exact hi)] at this
    simpa using this


/-! ### `sigmaMaps` as a fold of cycle writes -/

/-- the identity table -/
def ident (n : Nat) : Array (Array Pos) :=
  (Array.range 4).map fun col => (Array.range n).map fun i => (col, i)

/-- one assignment `sigmas[col][i] = v` -/
def write (s : Array (Array Pos)) (p v : Pos) : Array (Array Pos) :=
  s.modify p.1 (fun a => a.setIfInBounds p.2 v)

/-- the inner loop: every wire of `l` is sent to the next one, cyclically -/
def writeCycle (s : Array (Array Pos)) (l : List Pos) : Array (Array Pos) :=
  (l.zipIdx.map (fun x => (x.2, x.1))).foldl
    (fun s x => write s x.2 (l.getD ((x.1 + 1) % l.length) x.2)) s

theorem sigmaMaps_eq (c : Composer) (n : Nat) :
    sigmaMaps c n = (wirePositions c).toList.foldl writeCycle (ident n) := by
  unfold sigmaMaps
  simp only [Id.run, bind_pure_comp, map_pure, List.forIn_pure_yield_eq_foldl, bind_pure,
    Array.forIn_pure_yield_eq_foldl]
  rw [← Array.foldl_toList]
  rfl

/-- read a table entry (out-of-range positions read as themselves) -/
def readS (s : Array (Array Pos)) (p : Pos) : Pos := (s.getD p.1 #[]).getD p.2 p

/-- four columns of length `n` -/
def Shape (s : Array (Array Pos)) (n : Nat) : Prop := s.size = 4 ∧ ∀ col, col < 4 → (s.getD col #[]).size = n

theorem ident_shape (n : Nat) : Shape (ident n) n := by
  refine ⟨by simp [ident], ?_⟩
  intro col hcol
  simp [ident, Array.getD_eq_getD_getElem?, hcol]

theorem readS_ident (n : Nat) (p : Pos) : readS (ident n) p = p := by
  unfold readS ident
  by_cases h1 : p.1 < 4
  · by_cases h2 : p.2 < n
    · simp [Array.getD_eq_getD_getElem?, h1, h2]
    · simp [Array.getD_eq_getD_getElem?, h1, h2]
  · simp [Array.getD_eq_getD_getElem?, h1]

theorem getD_write (s : Array (Array Pos)) (p v : Pos) (col : Nat) :
    (write s p v).getD col #[] =
      if p.1 = col then (s.getD col #[]).setIfInBounds p.2 v else s.getD col #[] := by
  unfold write
  rw [Array.getD_eq_getD_getElem?, Array.getD_eq_getD_getElem?, Array.getElem?_modify]
  by_cases hc : p.1 = col
  · subst hc
    simp only [if_true]
    cases h : s[p.1]? <;> simp
  · simp [hc]

theorem write_shape {s : Array (Array Pos)} {n : Nat} (h : Shape s n) (p v : Pos) : Shape (write s p v) n := by
  refine ⟨by simp [write, h.1], ?_⟩
  intro col hcol
  rw [getD_write]
  split
  · simpa using h.2 col hcol
  · exact h.2 col hcol

theorem getD_setIfInBounds (a : Array Pos) (i j : Nat) (v q : Pos) :
    (a.setIfInBounds i v).getD j q = if i = j ∧ i < a.size then v else a.getD j q := by
  rw [Array.getD_eq_getD_getElem?, Array.getD_eq_getD_getElem?, Array.getElem?_setIfInBounds]
  by_cases h : i = j
  · subst h
    by_cases h2 : i < a.size
    · simp [h2]
    · simp [h2]
  · simp [h]

theorem readS_write {s : Array (Array Pos)} {n : Nat} (h : Shape s n) (p v q : Pos) :
    readS (write s p v) q = if q = p ∧ p.1 < 4 ∧ p.2 < n then v else readS s q := by
  unfold readS
  rw [getD_write]
  by_cases hc : p.1 = q.1
  · rw [if_pos hc, getD_setIfInBounds]
    by_cases hcol : q.1 < 4
    · have hsz := h.2 q.1 hcol
      by_cases hr : p.2 = q.2
      · have : q = p := Prod.ext hc.symm hr.symm
        by_cases hb : p.2 < n
        · rw [if_pos ⟨hr, by rw [hsz]; exact hb⟩, if_pos ⟨this, hc ▸ hcol, hb⟩]
        · rw [if_neg (fun hh => hb (by rw [← hsz]; exact hh.2)), if_neg (fun hh => hb hh.2.2)]
      · have : q ≠ p := fun e => hr (by rw [e])
        rw [if_neg (fun hh => hr hh.1), if_neg (fun hh => this hh.1)]
    · have hsz : (s.getD q.1 #[]).size = 0 := by
        rw [Array.getD_eq_getD_getElem?, Array.getElem?_eq_none (by rw [h.1]; omega)]
        rfl
      rw [if_neg (fun hh => by rw [hsz] at hh; exact Nat.not_lt_zero _ hh.2),
        if_neg (fun hh => hcol (hc ▸ hh.2.1))]
  · have : q ≠ p := fun e => hc (by rw [e])
    rw [if_neg hc, if_neg (fun hh => this hh.1)]

/-- a fold of writes to pairwise distinct targets (out-of-range writes are dropped) -/
theorem foldl_write {n : Nat} (v : Nat × Pos → Pos) : ∀ (items : List (Nat × Pos)) (s : Array (Array Pos)),
    Shape s n → (items.map (·.2)).Nodup →
    Shape (items.foldl (fun s x => write s x.2 (v x)) s) n ∧
    (∀ x ∈ items, x.2.1 < 4 → x.2.2 < n →
      readS (items.foldl (fun s x => write s x.2 (v x)) s) x.2 = v x) ∧
    (∀ q, q ∉ items.map (·.2) → readS (items.foldl (fun s x => write s x.2 (v x)) s) q = readS s q) := by
  intro items
  induction items with
  | nil => intro s hs _; exact ⟨hs, by simp, by simp⟩
  | cons x xs ih =>
    intro s hs hnd
    rw [List.map_cons, List.nodup_cons] at hnd
    obtain ⟨h1, h2, h3⟩ := ih (write s x.2 (v x)) (write_shape hs _ _) hnd.2
    simp only [List.foldl_cons]
    refine ⟨h1, ?_, ?_⟩
    · intro y hy hy1 hy2
      rcases List.mem_cons.mp hy with rfl | hy
      · rw [h3 _ hnd.1, readS_write hs, if_pos ⟨rfl, hy1, hy2⟩]
      · exact h2 y hy hy1 hy2
    · intro q hq
      rw [List.map_cons, List.mem_cons, not_or] at hq
      rw [h3 q hq.2, readS_write hs, if_neg (fun hh => hq.1 hh.1)]

/-- successor of `p` in the cyclic list `l` -/
def nextIn (l : List Pos) (p : Pos) : Pos := l.getD ((l.idxOf p + 1) % l.length) p

theorem writeCycle_spec {n : Nat} {s : Array (Array Pos)} (hs : Shape s n) (l : List Pos)
    (hnd : l.Nodup) :
    Shape (writeCycle s l) n ∧
    (∀ q, q ∈ l → q.1 < 4 → q.2 < n → readS (writeCycle s l) q = nextIn l q) ∧
    (∀ q, q ∉ l → readS (writeCycle s l) q = readS s q) := by
  have hmap : (l.zipIdx.map (fun x => (x.2, x.1))).map (·.2) = l := by
    rw [List.map_map]
    have : ((fun x : Nat × Pos => x.2) ∘ fun x : Pos × Nat => (x.2, x.1)) = Prod.fst := rfl
    rw [this, List.zipIdx_map_fst]
  obtain ⟨h1, h2, h3⟩ := foldl_write (n := n) (fun x => l.getD ((x.1 + 1) % l.length) x.2)
    (l.zipIdx.map (fun x => (x.2, x.1))) s hs (by rw [hmap]; exact hnd)
  refine ⟨h1, ?_, ?_⟩
  · intro q hq hq1 hq2
    have hidx : l.idxOf q < l.length := List.idxOf_lt_length_iff.mpr hq
    have hmem : (l.idxOf q, q) ∈ l.zipIdx.map (fun x => (x.2, x.1)) := by
      rw [List.mem_map]
      refine ⟨(q, l.idxOf q), ?_, rfl⟩
      rw [List.mem_zipIdx_iff_getElem?]
      simp [List.getElem?_eq_getElem hidx]
    exact h2 _ hmem hq1 hq2
  · intro q hq
    exact h3 q (by rw [hmap]; exact hq)

/-- the outer loop over pairwise disjoint duplicate-free cycles -/
theorem foldl_writeCycle {n : Nat} : ∀ (L : List (List Pos)) (s : Array (Array Pos)),
    Shape s n → (∀ l ∈ L, l.Nodup) → L.Pairwise List.Disjoint →
    Shape (L.foldl writeCycle s) n ∧
    (∀ l ∈ L, ∀ q ∈ l, q.1 < 4 → q.2 < n → readS (L.foldl writeCycle s) q = nextIn l q) ∧
    (∀ q, (∀ l ∈ L, q ∉ l) → readS (L.foldl writeCycle s) q = readS s q) := by
  intro L
  induction L with
  | nil => intro s hs _ _; exact ⟨hs, by simp, by simp⟩
  | cons l ls ih =>
    intro s hs hnd hpw
    rw [List.pairwise_cons] at hpw
    obtain ⟨w1, w2, w3⟩ := writeCycle_spec hs l (hnd l List.mem_cons_self)
    obtain ⟨h1, h2, h3⟩ := ih (writeCycle s l) w1 (fun l' h => hnd l' (List.mem_cons_of_mem _ h)) hpw.2
    simp only [List.foldl_cons]
    refine ⟨h1, ?_, ?_⟩
    · intro l' hl' q hq hq1 hq2
      rcases List.mem_cons.mp hl' with rfl | hl'
      · rw [h3 q (fun l'' hl'' hq' => hpw.1 l'' hl'' hq hq'), w2 q hq hq1 hq2]
      · exact h2 l' hl' q hq hq1 hq2
    · intro q hq
      rw [h3 q (fun l' hl' => hq l' (List.mem_cons_of_mem _ hl')), w3 q (hq l List.mem_cons_self)]

/-! ### the position set and the classes -/

theorem mem_rowPos (i : Nat) (p : Pos) : p ∈ rowPos i ↔ p.1 < 4 ∧ p.2 = i := by
  obtain ⟨a, b⟩ := p
  simp only [rowPos, List.mem_cons, Prod.mk.injEq, List.not_mem_nil, or_false]
  omega

theorem mem_allPos (m : Nat) (p : Pos) : p ∈ allPos m ↔ p.1 < 4 ∧ p.2 < m := by
  simp only [allPos, List.mem_flatMap, List.mem_range, mem_rowPos]
  constructor
  · rintro ⟨i, hi, h1, h2⟩; exact ⟨h1, h2 ▸ hi⟩
  · rintro ⟨h1, h2⟩; exact ⟨p.2, h2, h1, rfl⟩

theorem allPos_nodup (m : Nat) : (allPos m).Nodup := by
  unfold allPos
  rw [List.nodup_flatMap]
  refine ⟨fun i _ => by simp [rowPos], ?_⟩
  refine List.Pairwise.imp_of_mem ?_ (List.nodup_range (n := m))
  intro a b _ _ hab
  show List.Disjoint (rowPos a) (rowPos b)
  intro p h1 h2
  rw [mem_rowPos] at h1 h2
  exact hab (h1.2.symm.trans h2.2)

theorem mem_classOf (c : Composer) (w : Nat) (p : Pos) :
    p ∈ classOf c w ↔ (p.1 < 4 ∧ p.2 < c.gates.size) ∧ wireAt c p = w := by
  simp [classOf, mem_allPos]

theorem classOf_nodup (c : Composer) (w : Nat) : (classOf c w).Nodup :=
  (allPos_nodup _).filter _

theorem classes_pairwise_disjoint (c : Composer) (ws : List Nat) (hws : ws.Nodup) :
    (ws.map (classOf c)).Pairwise List.Disjoint := by
  rw [List.pairwise_map]
  refine List.Pairwise.imp ?_ hws
  intro a b hab p h1 h2
  rw [mem_classOf] at h1 h2
  exact hab (h1.2.symm.trans h2.2)

/-! ### the permutation as a function -/

/-- `σ` as a function on positions: the next position of the same (allocated) witness,
    cyclically; everything else is fixed -/
def sigmaFn (c : Composer) (p : Pos) : Pos :=
  if (p.1 < 4 ∧ p.2 < c.gates.size) ∧ wireAt c p < c.wit.size then nextIn (classOf c (wireAt c p)) p
  else p

/-- the table of a function -/
def tableOf (f : Pos → Pos) (n : Nat) : Array (Array Pos) :=
  (Array.range 4).map fun col => (Array.range n).map fun i => f (col, i)

theorem table_ext {s : Array (Array Pos)} {n : Nat} (hs : Shape s n) (f : Pos → Pos)
    (h : ∀ p, p.1 < 4 → p.2 < n → readS s p = f p) : s = tableOf f n := by
  apply Array.ext
  · simp [tableOf, hs.1]
  · intro col h1 h2
    have hcol : col < 4 := by rw [← hs.1]; exact h1
    have hsz := hs.2 col hcol
    rw [Array.getD_eq_getD_getElem?, Array.getElem?_eq_getElem h1] at hsz
    simp only [Option.getD_some] at hsz
    apply Array.ext
    · simp [tableOf, hsz]
    · intro i h3 h4
      have hi : i < n := by rw [← hsz]; exact h3
      have := h (col, i) hcol hi
      unfold readS at this
      simp only at this
      have e1 : s.getD col #[] = s[col] := by
        rw [Array.getD_eq_getD_getElem?, Array.getElem?_eq_getElem h1, Option.getD_some]
      rw [e1, Array.getD_eq_getD_getElem?, Array.getElem?_eq_getElem h3, Option.getD_some] at this
      simp [tableOf, this]

/-- generic form: the fold over any duplicate-free list of witnesses -/
theorem foldl_classes (c : Composer) (n : Nat) (ws : List Nat) (hws : ws.Nodup) :
    Shape ((ws.map (classOf c)).foldl writeCycle (ident n)) n ∧
    ∀ p, p.1 < 4 → p.2 < n → readS ((ws.map (classOf c)).foldl writeCycle (ident n)) p =
      if (p.1 < 4 ∧ p.2 < c.gates.size) ∧ wireAt c p ∈ ws then nextIn (classOf c (wireAt c p)) p else p := by
  obtain ⟨h1, h2, h3⟩ := foldl_writeCycle (n := n) (ws.map (classOf c)) (ident n) (ident_shape n)
    (by
      intro l hl
      obtain ⟨w, _, rfl⟩ := List.mem_map.mp hl
      exact classOf_nodup c w)
    (classes_pairwise_disjoint c ws hws)
  refine ⟨h1, ?_⟩
  intro p hp1 hp2
  split
  · next h =>
    exact h2 _ (List.mem_map_of_mem h.2) p ((mem_classOf c _ p).mpr ⟨h.1, rfl⟩) hp1 hp2
  · next h =>
    rw [h3 p, readS_ident]
    intro l hl hp
    obtain ⟨w, hw, rfl⟩ := List.mem_map.mp hl
    rw [mem_classOf] at hp
    exact h ⟨hp.1, hp.2 ▸ hw⟩

/-- **`sigmaMaps` is the table of `sigmaFn`** (for every table length `n`: writes to rows `≥ n`
    are dropped by the model and never read by the table) -/
theorem sigmaMaps_eq_table (c : Composer) (n : Nat) :
    sigmaMaps c n = tableOf (sigmaFn c) n := by
  rw [sigmaMaps_eq, wirePositions_toList]
  obtain ⟨h1, h2⟩ := foldl_classes c n (List.range c.wit.size) List.nodup_range
  apply table_ext h1
  intro p hp1 hp2
  rw [h2 p hp1 hp2]
  simp only [sigmaFn, List.mem_range]

end Perm
end Plonk
