/-
  C05 (prover exactness), algebraic half, math level II — no model code in this file.

  The widget components, the gate sum, the permutation step and the quotient numerator as
  polynomial functions over an arbitrary commutative ring (`rangeCompsR … numR`) and their
  compatibility with ring homomorphisms (`map_numR`): instantiated at `F` they are the row values,
  instantiated at `F[X]` they are the prover's polynomials, `Polynomial.eval` maps one to the other
  (`numerator_at_root_poly`, where the cyclic reading of the next row is proved).  The first
  Lagrange polynomial `L1P`.  The running product of the permutation argument
  (`grand_product_math`).
-/
import Plonk.Generated
import Plonk.Model.Field
import Plonk.Proofs.QuotientMath

namespace Plonk.Quot
open Polynomial

/-! ### row data -/

/-- the eleven selector values of a row (or the eleven selector polynomials) -/
structure Sel (A : Type*) where
  qm : A
  ql : A
  qr : A
  qo : A
  qf : A
  qc : A
  qarith : A
  qrange : A
  qlogic : A
  qfixed : A
  qvar : A

/-- the wire values a row identity reads: this row's `a b c d`, the next row's `a b d` -/
structure Wires (A : Type*) where
  a : A
  b : A
  c : A
  d : A
  an : A
  bn : A
  dn : A

/-- the four widget separation challenges -/
structure Seps (A : Type*) where
  rs : A
  ls : A
  fs : A
  vs : A

/-- the data of the permutation argument at a point: the point `x`, the four sigma values, the
    accumulator here and at the next point, and the value of the first Lagrange polynomial -/
structure PermRow (A : Type*) where
  x : A
  s1 : A
  s2 : A
  s3 : A
  s4 : A
  z : A
  zn : A
  l1 : A

/-- `β γ α` -/
structure Chal (A : Type*) where
  β : A
  γ : A
  α : A

variable {A : Type*} {B : Type*}

def Sel.map (f : A → B) (q : Sel A) : Sel B :=
  ⟨f q.qm, f q.ql, f q.qr, f q.qo, f q.qf, f q.qc, f q.qarith, f q.qrange, f q.qlogic, f q.qfixed,
    f q.qvar⟩
def Wires.map (f : A → B) (w : Wires A) : Wires B :=
  ⟨f w.a, f w.b, f w.c, f w.d, f w.an, f w.bn, f w.dn⟩
def Seps.map (f : A → B) (s : Seps A) : Seps B := ⟨f s.rs, f s.ls, f s.fs, f s.vs⟩
def PermRow.map (f : A → B) (p : PermRow A) : PermRow B :=
  ⟨f p.x, f p.s1, f p.s2, f p.s3, f p.s4, f p.z, f p.zn, f p.l1⟩
def Chal.map (f : A → B) (c : Chal A) : Chal B := ⟨f c.β, f c.γ, f c.α⟩

/-! ### the widget identities over a commutative ring -/

section ring
variable [CommRing A] [CommRing B]

/-- `δ(x) = x(x−1)(x−2)(x−3)` -/
def deltaR (x : A) : A := x * (x - 1) * (x - 2) * (x - 3)

/-- the four range components -/
def rangeCompsR (w : Wires A) : List A :=
  [deltaR (w.c - 4 * w.d), deltaR (w.b - 4 * w.c), deltaR (w.a - 4 * w.b), deltaR (w.dn - 4 * w.a)]

def deltaXorAndR (a b w c qc : A) : A :=
  qc * (9 * c - 3 * (a + b)) +
    (3 * (a + b + c) -
      2 * (w * (w * (4 * w - 18 * (a + b) + 81) + 18 * (a * a + b * b) - 81 * (a + b) + 83)))

/-- the five logic components -/
def logicCompsR (qc : A) (w : Wires A) : List A :=
  [deltaR (w.an - 4 * w.a), deltaR (w.bn - 4 * w.b), deltaR (w.dn - 4 * w.d),
   w.c - (w.an - 4 * w.a) * (w.bn - 4 * w.b),
   deltaXorAndR (w.an - 4 * w.a) (w.bn - 4 * w.b) w.c (w.dn - 4 * w.d) qc]

/-- the four fixed-base components (`bit = d_next − 2d`) -/
def fixedCompsR (ql qr qc : A) (w : Wires A) : List A :=
  let bit := w.dn - w.d - w.d
  let yAlpha := bit * bit * (qr - 1) + 1
  let xAlpha := bit * ql
  let k := w.c * w.a * w.b * (EDWARDS_D : A)
  [bit * (bit - 1) * (bit + 1), bit * qc - w.c,
   w.an + w.an * k - (w.a * yAlpha + w.b * xAlpha),
   w.bn - w.bn * k - (w.b * yAlpha + w.a * xAlpha)]

/-- the three curve-addition components -/
def varCompsR (w : Wires A) : List A :=
  let k := (EDWARDS_D : A) * w.dn * (w.b * w.c)
  [w.a * w.d - w.dn, w.dn + w.b * w.c - (w.an + w.an * k),
   w.b * w.d + w.a * w.c - (w.bn - w.bn * k)]

/-- the arithmetic identity without the public input -/
def arithR (q : Sel A) (w : Wires A) : A :=
  (w.a * w.b * q.qm + w.a * q.ql + w.b * q.qr + w.c * q.qo + w.d * q.qf + q.qc) * q.qarith

/-- the full row expression of the quotient's first half:
    `arith + q_range·range(ρ) + q_logic·logic(λ) + q_fixed·fixed(φ) + q_var·var(ν) + PI` -/
def gateSumR (q : Sel A) (w : Wires A) (pi : A) (s : Seps A) : A :=
  arithR q w + q.qrange * wsum (rangeCompsR w) s.rs + q.qlogic * wsum (logicCompsR q.qc w) s.ls +
    q.qfixed * wsum (fixedCompsR q.ql q.qr q.qc w) s.fs + q.qvar * wsum (varCompsR w) s.vs + pi

/-- `(a+βx+γ)(b+βk₁x+γ)(c+βk₂x+γ)(d+βk₃x+γ)` -/
def permNumR (β γ a b c d x : A) : A :=
  (a + β * x + γ) * (b + β * (Generated.K1 : A) * x + γ) * (c + β * (Generated.K2 : A) * x + γ) *
    (d + β * (Generated.K3 : A) * x + γ)

/-- `(a+βσ₁+γ)(b+βσ₂+γ)(c+βσ₃+γ)(d+βσ₄+γ)` -/
def permDenR (β γ a b c d s1 s2 s3 s4 : A) : A :=
  (a + β * s1 + γ) * (b + β * s2 + γ) * (c + β * s3 + γ) * (d + β * s4 + γ)

/-- the permutation step `num·z − den·z_next` -/
def permStepR (ch : Chal A) (w : Wires A) (p : PermRow A) : A :=
  permNumR ch.β ch.γ w.a w.b w.c w.d p.x * p.z -
    permDenR ch.β ch.γ w.a w.b w.c w.d p.s1 p.s2 p.s3 p.s4 * p.zn

/-- the quotient numerator `gate + α·perm + α²·L₁·(z − 1)` -/
def numR (q : Sel A) (w : Wires A) (pi : A) (p : PermRow A) (ch : Chal A) (s : Seps A) : A :=
  gateSumR q w pi s + ch.α * permStepR ch w p + ch.α ^ 2 * p.l1 * (p.z - 1)

/-! ### compatibility with ring homomorphisms -/

theorem map_deltaR (f : A →+* B) (x : A) : f (deltaR x) = deltaR (f x) := by
  simp [deltaR, map_ofNat]

theorem map_rangeCompsR (f : A →+* B) (w : Wires A) :
    (rangeCompsR w).map f = rangeCompsR (w.map f) := by
  simp [rangeCompsR, Wires.map, map_deltaR, map_ofNat]

theorem map_deltaXorAndR (f : A →+* B) (a b w c qc : A) :
    f (deltaXorAndR a b w c qc) = deltaXorAndR (f a) (f b) (f w) (f c) (f qc) := by
  simp [deltaXorAndR, map_ofNat]

theorem map_logicCompsR (f : A →+* B) (qc : A) (w : Wires A) :
    (logicCompsR qc w).map f = logicCompsR (f qc) (w.map f) := by
  simp [logicCompsR, Wires.map, map_deltaR, map_deltaXorAndR, map_ofNat]

theorem map_fixedCompsR (f : A →+* B) (ql qr qc : A) (w : Wires A) :
    (fixedCompsR ql qr qc w).map f = fixedCompsR (f ql) (f qr) (f qc) (w.map f) := by
  simp [fixedCompsR, Wires.map]

theorem map_varCompsR (f : A →+* B) (w : Wires A) :
    (varCompsR w).map f = varCompsR (w.map f) := by
  simp [varCompsR, Wires.map]

theorem map_arithR (f : A →+* B) (q : Sel A) (w : Wires A) :
    f (arithR q w) = arithR (q.map f) (w.map f) := by
  simp [arithR, Sel.map, Wires.map]

theorem map_gateSumR (f : A →+* B) (q : Sel A) (w : Wires A) (pi : A) (s : Seps A) :
    f (gateSumR q w pi s) = gateSumR (q.map f) (w.map f) (f pi) (s.map f) := by
  unfold gateSumR
  simp only [map_add, map_mul, map_wsum, map_arithR, map_rangeCompsR, map_logicCompsR,
    map_fixedCompsR, map_varCompsR]
  rfl

theorem map_permStepR (f : A →+* B) (ch : Chal A) (w : Wires A) (p : PermRow A) :
    f (permStepR ch w p) = permStepR (ch.map f) (w.map f) (p.map f) := by
  simp [permStepR, permNumR, permDenR, Chal.map, Wires.map, PermRow.map]

theorem map_numR (f : A →+* B) (q : Sel A) (w : Wires A) (pi : A) (p : PermRow A) (ch : Chal A)
    (s : Seps A) :
    f (numR q w pi p ch s) = numR (q.map f) (w.map f) (f pi) (p.map f) (ch.map f) (s.map f) := by
  unfold numR
  simp only [map_add, map_mul, map_sub, map_pow, map_one, map_gateSumR, map_permStepR]
  rfl

end ring

/-! ### the first Lagrange polynomial -/

section field
variable {K : Type*} [Field K]

/-- `L₁ = (Xⁿ − 1) / (n (X − 1)) = n⁻¹ Σ_{j<n} X^j` -/
noncomputable def L1P (n : ℕ) : K[X] := C ((n : K)⁻¹) * ∑ j ∈ Finset.range n, X ^ j

theorem L1P_mul (n : ℕ) : (L1P n : K[X]) * (X - 1) = C ((n : K)⁻¹) * (X ^ n - 1) := by
  unfold L1P; rw [mul_assoc, geom_sum_mul]

theorem eval_L1P (n : ℕ) (x : K) : (L1P n).eval x = (n : K)⁻¹ * ∑ j ∈ Finset.range n, x ^ j := by
  simp [L1P, eval_finsetSum]

/-- `L₁(ω⁰) = 1`, `L₁(ω^i) = 0` for `0 < i < n` -/
theorem eval_L1P_root {ω : K} {n : ℕ} (hω : IsPrimitiveRoot ω n) (hn : (n : K) ≠ 0) {i : ℕ}
    (hi : i < n) : (L1P n).eval (ω ^ i) = if i = 0 then 1 else 0 := by
  rw [eval_L1P]
  split
  · next h0 => subst h0; simp [hn]
  · next h0 =>
    have h1 : ω ^ i ≠ 1 := hω.pow_ne_one_of_pos_of_lt h0 hi
    have hx : (ω ^ i) ^ n = 1 := by rw [← pow_mul, mul_comm, pow_mul, hω.pow_eq_one, one_pow]
    rw [FftMath.geom_sum_eq_zero_of_pow_eq_one h1 hx, mul_zero]

/-- away from `1`: `L₁(x) = (xⁿ − 1)·n⁻¹·(x − 1)⁻¹` (the form the quotient code evaluates) -/
theorem eval_L1P_of_ne_one (n : ℕ) {x : K} (hx : x ≠ 1) :
    (L1P n).eval x = (x - 1)⁻¹ * ((x ^ n - 1) * (n : K)⁻¹) := by
  have h := congrArg (eval x) (L1P_mul (K := K) n)
  simp only [eval_mul, eval_sub, eval_X, eval_one, eval_C, eval_pow] at h
  have h1 : x - 1 ≠ 0 := sub_ne_zero.mpr hx
  field_simp
  linear_combination h

/-! ### 4. the numerator polynomial at a domain point -/

/-- `P(ωX)` -/
noncomputable def shiftP (ω : K) (P : K[X]) : K[X] := P.comp (C ω * X)

theorem eval_shiftP (ω x : K) (P : K[X]) : (shiftP ω P).eval x = P.eval (ω * x) := by
  simp [shiftP, eval_comp]

/-- the prover's polynomials: selectors, wires, public inputs, sigmas, accumulator -/
structure ProverPolys (K : Type*) [Field K] where
  Q : Sel K[X]
  a : K[X]
  b : K[X]
  c : K[X]
  d : K[X]
  pi : K[X]
  s1 : K[X]
  s2 : K[X]
  s3 : K[X]
  s4 : K[X]
  z : K[X]

/-- the numerator polynomial
    `gate(A,B,C,D,A(ωX),B(ωX),D(ωX),Q,PI) + α·(perm identity) + α²·L₁·(Z − 1)` -/
noncomputable def NumP (ω : K) (n : ℕ) (P : ProverPolys K) (ch : Chal K) (s : Seps K) : K[X] :=
  numR P.Q ⟨P.a, P.b, P.c, P.d, shiftP ω P.a, shiftP ω P.b, shiftP ω P.d⟩ P.pi
    ⟨X, P.s1, P.s2, P.s3, P.s4, P.z, shiftP ω P.z, L1P n⟩ (ch.map C) (s.map C)

/-- evaluation of the numerator polynomial at an arbitrary point: the row expression of the values
    at `x` and `ωx` -/
theorem eval_NumP (ω : K) (n : ℕ) (P : ProverPolys K) (ch : Chal K) (s : Seps K) (x : K) :
    (NumP ω n P ch s).eval x =
      numR (P.Q.map (eval x))
        ⟨P.a.eval x, P.b.eval x, P.c.eval x, P.d.eval x, P.a.eval (ω * x), P.b.eval (ω * x),
          P.d.eval (ω * x)⟩ (P.pi.eval x)
        ⟨x, P.s1.eval x, P.s2.eval x, P.s3.eval x, P.s4.eval x, P.z.eval x, P.z.eval (ω * x),
          (L1P n).eval x⟩ ch s := by
  have h := map_numR (evalRingHom x) P.Q
    ⟨P.a, P.b, P.c, P.d, shiftP ω P.a, shiftP ω P.b, shiftP ω P.d⟩ P.pi
    ⟨X, P.s1, P.s2, P.s3, P.s4, P.z, shiftP ω P.z, L1P n⟩ (ch.map C) (s.map C)
  simp only [coe_evalRingHom] at h
  unfold NumP
  rw [h]
  simp [Wires.map, PermRow.map, Chal.map, Seps.map, eval_shiftP]

/-- **The numerator at a domain point.** At `ω^i` (`i < n`) the numerator polynomial takes the
    value `N_i` computed from the values of the wire / selector / sigma / accumulator / public-input
    polynomials at row `i` and of the wires and the accumulator at row `(i+1) mod n`: the next row
    is read cyclically (`ω·ω^(n-1) = ω^0`). -/
theorem numerator_at_root_poly {ω : K} {n : ℕ} (hω : IsPrimitiveRoot ω n) (hn : (n : K) ≠ 0)
    (P : ProverPolys K) (ch : Chal K) (s : Seps K) {i : ℕ} (hi : i < n) :
    (NumP ω n P ch s).eval (ω ^ i) =
      numR (P.Q.map (eval (ω ^ i)))
        ⟨P.a.eval (ω ^ i), P.b.eval (ω ^ i), P.c.eval (ω ^ i), P.d.eval (ω ^ i),
          P.a.eval (ω ^ ((i + 1) % n)), P.b.eval (ω ^ ((i + 1) % n)),
          P.d.eval (ω ^ ((i + 1) % n))⟩ (P.pi.eval (ω ^ i))
        ⟨ω ^ i, P.s1.eval (ω ^ i), P.s2.eval (ω ^ i), P.s3.eval (ω ^ i), P.s4.eval (ω ^ i),
          P.z.eval (ω ^ i), P.z.eval (ω ^ ((i + 1) % n)), if i = 0 then 1 else 0⟩ ch s := by
  have hw : ω * ω ^ i = ω ^ ((i + 1) % n) := by
    rw [← pow_succ']
    conv_lhs => rw [← Nat.div_add_mod (i + 1) n, pow_add, pow_mul, hω.pow_eq_one, one_pow, one_mul]
  rw [eval_NumP, hw, eval_L1P_root hω hn hi]

/-! ### 5. the running product -/

/-- `z₀ = 1`, `z_{i+1} = z_i·num_i/den_i` with non-zero denominators: every inner permutation step
    vanishes, `z_i` is the partial product, and the wrap-around step (`z_n := z_0`) vanishes iff
    the two full products agree. -/
theorem grand_product_math (n : ℕ) (hn : 0 < n) (num den z : ℕ → K)
    (hden : ∀ i < n, den i ≠ 0) (hz0 : z 0 = 1)
    (hz : ∀ i, i + 1 < n → z (i + 1) = z i * (num i * (den i)⁻¹)) :
    (∀ i, i + 1 < n → num i * z i - den i * z (i + 1) = 0) ∧
    (∀ i < n, z i = ∏ j ∈ Finset.range i, num j / den j) ∧
    (num (n - 1) * z (n - 1) - den (n - 1) * z 0 = 0 ↔
      ∏ j ∈ Finset.range n, num j = ∏ j ∈ Finset.range n, den j) := by
  have hprod : ∀ i < n, z i = ∏ j ∈ Finset.range i, num j / den j := by
    intro i
    induction i with
    | zero => intro _; simp [hz0]
    | succ i ih =>
      intro hi
      rw [hz i hi, ih (by omega), Finset.prod_range_succ, div_eq_mul_inv]
  refine ⟨?_, hprod, ?_⟩
  · intro i hi
    rw [hz i hi]
    have := hden i (by omega)
    field_simp
    ring
  · obtain ⟨m, rfl⟩ : ∃ m, n = m + 1 := ⟨n - 1, by omega⟩
    simp only [Nat.add_sub_cancel]
    rw [hprod m (by omega), hz0, Finset.prod_range_succ, Finset.prod_range_succ,
      Finset.prod_div_distrib]
    have hd : ∏ j ∈ Finset.range m, den j ≠ 0 :=
      Finset.prod_ne_zero_iff.mpr (fun j hj => hden j (by have := Finset.mem_range.mp hj; omega))
    rw [sub_eq_zero, mul_one, mul_div_assoc', div_eq_iff hd, mul_comm (num m), mul_comm (den m)]

end field

end Plonk.Quot
