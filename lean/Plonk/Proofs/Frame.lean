/-
  Framing: a component only appends to the composer; rows already present keep their meaning.
  Shared by every gadget proof.
-/
import Plonk.Proofs.ComposerBasics

namespace Plonk
open Plonk Plonk.Composer

namespace Composer

/-- `c'` is `c` with more gates / witnesses appended (nothing earlier is rewritten). -/
structure Extends (c c' : Composer) : Prop where
  gates_prefix : ∀ i, i < c.gates.size → c'.gates[i]? = c.gates[i]?
  gates_size : c.gates.size ≤ c'.gates.size
  wit_prefix : ∀ i, i < c.wit.size → c'.wit[i]? = c.wit[i]?
  wit_size : c.wit.size ≤ c'.wit.size
  pis_old : ∀ i, i < c.gates.size → c'.piAt i = c.piAt i

theorem Extends.refl (c : Composer) : Extends c c :=
  ⟨fun _ _ => rfl, Nat.le_refl _, fun _ _ => rfl, Nat.le_refl _, fun _ _ => rfl⟩

theorem Extends.trans {a b c : Composer} (h1 : Extends a b) (h2 : Extends b c) : Extends a c where
  gates_prefix i hi := by
    rw [h2.gates_prefix i (Nat.lt_of_lt_of_le hi h1.gates_size), h1.gates_prefix i hi]
  gates_size := Nat.le_trans h1.gates_size h2.gates_size
  wit_prefix i hi := by
    rw [h2.wit_prefix i (Nat.lt_of_lt_of_le hi h1.wit_size), h1.wit_prefix i hi]
  wit_size := Nat.le_trans h1.wit_size h2.wit_size
  pis_old i hi := by
    rw [h2.pis_old i (Nat.lt_of_lt_of_le hi h1.gates_size), h1.pis_old i hi]

/-- old witness values are unchanged -/
theorem Extends.val_eq {c c' : Composer} (h : Extends c c') {w : Nat} (hw : w < c.wit.size) :
    c'.val w = c.val w := by
  unfold val
  simp only [Array.getD_eq_getD_getElem?]
  rw [h.wit_prefix w hw]

theorem Extends.gateAt_eq {c c' : Composer} (h : Extends c c') {i : Nat} (hi : i < c.gates.size) :
    c'.gateAt i = c.gateAt i := by
  unfold gateAt
  simp only [Array.getD_eq_getD_getElem?]
  rw [h.gates_prefix i hi]

theorem Extends.rowValsW_eq {c c' : Composer} (h : Extends c c') (w : Nat → Nat) {i : Nat}
    (hi : i < c.gates.size) : c'.rowValsW w i = c.rowValsW w i := by
  unfold rowValsW; rw [h.gates_prefix i hi]

/-- a row whose successor already existed keeps its meaning -/
theorem Extends.rowHoldsW_eq {c c' : Composer} (h : Extends c c') (w : Nat → Nat) {i : Nat}
    (hi : i + 1 < c.gates.size) : c'.rowHoldsW w i = c.rowHoldsW w i := by
  unfold rowHoldsW
  rw [h.rowValsW_eq w (Nat.lt_of_succ_lt hi), h.rowValsW_eq w hi,
      h.gateAt_eq (Nat.lt_of_succ_lt hi), h.pis_old i (Nat.lt_of_succ_lt hi)]

/-- a gate that reads no next-row wire -/
def Gate.plain (g : Gate) : Prop := g.qrange = 0 ∧ g.qlogic = 0 ∧ g.qfixed = 0 ∧ g.qvar = 0

theorem rowHolds_plain_next {g : Gate} (hg : Gate.plain g) (a b c d an bn dn an' bn' dn' pi : Nat) :
    rowHolds g a b c d an bn dn pi = rowHolds g a b c d an' bn' dn' pi := by
  obtain ⟨h1, h2, h3, h4⟩ := hg
  unfold rowHolds; simp [h1, h2, h3, h4]

/-- a plain row keeps its meaning whatever is appended after it -/
theorem Extends.rowHoldsW_eq_of_plain {c c' : Composer} (h : Extends c c') (w : Nat → Nat) {i : Nat}
    (hi : i < c.gates.size) (hp : Gate.plain (c.gateAt i)) :
    c'.rowHoldsW w i = c.rowHoldsW w i := by
  unfold rowHoldsW
  rw [h.rowValsW_eq w hi, h.gateAt_eq hi, h.pis_old i hi]
  exact rowHolds_plain_next hp ..

/-! ### the primitives extend -/

theorem piAt_push_of_ne (c : Composer) (n v i : Nat) (h : i ≠ n) :
    ({ c with pis := c.pis.push (n, v) } : Composer).piAt i = c.piAt i := by
  unfold piAt
  simp only [Array.foldl_push]
  have : (n == i) = false := by simp; omega
  simp [this]

theorem extends_appendWitness (v : Nat) (c : Composer) :
    Extends c ((appendWitness v).run c).2 := by
  refine ⟨fun _ _ => rfl, Nat.le_refl _, ?_, ?_, fun _ _ => rfl⟩
  · intro i hi; simp [Array.getElem?_push, Nat.ne_of_lt hi]
  · simp

theorem extends_appendCustomGate (s : Constraint) (c : Composer) :
    Extends c ((appendCustomGate s).run c).2 := by
  refine ⟨?_, ?_, fun _ _ => rfl, Nat.le_refl _, ?_⟩
  · intro i hi; simp [Array.getElem?_push, Nat.ne_of_lt hi]
  · simp
  · intro i hi
    simp only [appendCustomGate_run]
    split
    · exact piAt_push_of_ne c _ _ i (Nat.ne_of_lt hi)
    · rfl

theorem extends_appendGate (s : Constraint) (c : Composer) :
    Extends c ((appendGate s).run c).2 := extends_appendCustomGate _ c

end Composer
end Plonk
