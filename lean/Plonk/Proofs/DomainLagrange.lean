import Plonk.Proofs.DomainBridge

namespace Plonk.PolyC19
open Polynomial

/-! Kernel caveat: the kernel must never be made to unfold `fmul`/`fsub`/`fadd` applied to a
    non-literal and a literal (`fsub x 1` unfolds to `(x + (R − 1)) % R`, and weak-head-normalising
    that peels `R` successors).  `Function.comp` and matcher applications lose the unfolding race
    against `fmul`, so the list fusions below are stated with explicit lambdas instead of `∘`. -/

theorem map_map' {α β γ : Type} (f : α → β) (g : β → γ) (l : List α) :
    (l.map f).map g = l.map (fun x => g (f x)) := by
  induction l with
  | nil => rfl
  | cons x xs ih => simp [ih]

theorem map_zip_map_self {α β γ : Type} (l : List α) (g : α → β) (f : β × α → γ) :
    ((l.map g).zip l).map f = l.map (fun r => f (g r, r)) := by
  induction l with
  | nil => rfl
  | cons x xs ih => simp [ih]

theorem map_self_zip_map {α β γ : Type} (l : List α) (g : α → β) (f : α × β → γ) :
    (l.zip (l.map g)).map f = l.map (fun r => f (r, g r)) := by
  induction l with
  | nil => rfl
  | cons x xs ih => simp [ih]

theorem lag_entry {d : Domain} (ok : DomainOK d) (tau i : Nat) :
    fmul (fmul (fmul (fsub (fpow tau d.size) 1) d.sizeInv) (toF d.groupGen ^ i).val)
      (binv (fsub tau (toF d.groupGen ^ i).val)) =
    (lagrangeF d.size (toF d.groupGen) (toF tau) i).val := by
  refine eq_val_of_toF (fmul_lt _ _) ?_
  simp only [toF_fmul, toF_fsub, toF_binv, toF_val, toF_fpow _ _ ok.size_lt, toF_one,
    ok.sizeInv_eq]
  unfold lagrangeF
  rw [div_eq_mul_inv, mul_inv]
  ring

/-- `τ` outside the domain: entry `i` is the canonical representative of
    `L_i(τ) = (τ^n − 1)·ω^i / (n·(τ − ω^i))` -/
theorem lagrangeCoeffs_outside {d : Domain} (ok : DomainOK d) (tau : Nat)
    (h : toF tau ^ d.size ≠ 1) :
    d.lagrangeCoeffs tau =
      (List.range d.size).map (fun i => (lagrangeF d.size (toF d.groupGen) (toF tau) i).val) := by
  unfold Domain.lagrangeCoeffs
  have hc : (fpow tau d.size == 1 % R) = false := by
    rw [beq_eq_false_iff_ne]
    intro e
    apply h
    rw [← toF_fpow _ _ ok.size_lt, e]; simp
  simp only [hc, Bool.false_eq_true, if_false]
  rw [batchInversion_eq_map, map_map', map_zip_map_self, elements_eq, map_map']
  apply List.map_congr_left
  intro i _
  exact lag_entry ok tau i

/-- `τ = ω^k` in the domain: the indicator vector of `k` -/
theorem lagrangeCoeffs_inside {d : Domain} (ok : DomainOK d) (tau k : Nat) (hk : k < d.size)
    (h : toF tau = toF d.groupGen ^ k) :
    d.lagrangeCoeffs tau = (List.range d.size).map (fun i => if i = k then 1 else 0) := by
  unfold Domain.lagrangeCoeffs
  have hc : (fpow tau d.size == 1 % R) = true := by
    rw [beq_iff_eq]
    apply (toF_inj_of_lt (fpow_lt _ _) one_mod_R_lt).mp
    rw [toF_fpow _ _ ok.size_lt, h, toF_mod, toF_one, ← pow_mul, mul_comm, pow_mul,
      ok.prim.pow_eq_one, one_pow]
  have hfind : d.elements.findIdx? (· == tau % R) = some k := by
    rw [List.findIdx?_eq_some_iff_getElem]
    refine ⟨by rw [elements_length]; exact hk, ?_, ?_⟩
    · rw [elements_getElem, beq_iff_eq]
      exact (eq_val_of_toF (Nat.mod_lt _ R_pos) (by rw [toF_mod, h])).symm
    · intro j hj
      rw [elements_getElem]
      simp only [beq_iff_eq]
      intro e
      have e2 : toF d.groupGen ^ j = toF d.groupGen ^ k := by
        rw [← toF_val (toF d.groupGen ^ j), e, toF_mod, h]
      have := ok.prim.pow_inj (by omega) hk e2
      omega
  simp only [hc, if_true, hfind]
  apply List.map_congr_left
  intro i _
  simp [one_mod_R]

end Plonk.PolyC19
