/-
  Tie by TRANSLATION: `Plonk/GeneratedWidgets.lean` is regenerated from the Rust sources
  `src/proof_system/widget/*/{proverkey,verifierkey}.rs` by `tools/rs2lean.py` on every run. The theorems below state
  that each translated function — the prover's quotient term, the prover's linearisation term and the verifier's
  linearisation scalar of every gate widget — is the model's widget scalar (`rangeScalar`, `logicScalar`, `fixedScalar`,
  `varScalar` of `Plonk/Model/Verifier.lean`, i.e. the separation-challenge-weighted sum of the model's row components
  `rangeComps` / `logicComps` / `fixedComps` / `varComps`), so the three sites of each widget agree with each other and
  with the row semantics all gadget theorems are about. A change of any of these Rust formulas changes the generated
  definition and breaks the corresponding proof.
-/
import Plonk.GeneratedWidgets
import Plonk.Proofs.VerifierAlgebra

set_option linter.unusedTactic false
set_option linter.unreachableTactic false

namespace Plonk.WidgetSource
open Plonk Plonk.GeneratedWidgets

/-- close an equation between a translated source formula and the model's formula: syntactically equal after unfolding,
    or equal as ring expressions (possibly inside a one/two-element list of `(scalar, label)` pairs) -/
macro "src_close" : tactic =>
  `(tactic| first
      | done
      | ring1
      | (congr 2; ring1)
      | (congr 2 <;> first | ring1 | (congr 1; ring1) | (congr 2; ring1)))

/-- the evaluations structure with the wire values of row `i` in place of the evaluations at `z` -/
def rowEvals (a b c d aw bw dw ql qr qc : Nat) : Evals :=
  { a := a, b := b, c := c, d := d, aw := aw, bw := bw, dw := dw, qarith := 0, qc := qc, ql := ql, qr := qr,
    s1 := 0, s2 := 0, s3 := 0, z := 0 }

theorem range_delta_eq (x : F) : range_delta x = deltaF x := by
  unfold range_delta deltaF; ring

theorem logic_delta_eq (x : F) : logic_delta x = deltaF x := by
  unfold logic_delta deltaF; ring

theorem logic_delta_xor_and_eq (a b w c qc : F) : logic_delta_xor_and a b w c qc = deltaXorAndF a b w c qc := by
  unfold logic_delta_xor_and deltaXorAndF; ring

/-! ### range -/

theorem range_verifier_source (sep : Nat) (e : Evals) :
    range_verifier (A := F) (evaluations_a_eval := toF e.a) (evaluations_b_eval := toF e.b)
      (evaluations_c_eval := toF e.c) (evaluations_d_eval := toF e.d) (evaluations_d_w_eval := toF e.dw)
      (range_separation_challenge := toF sep)
    = [(toF (rangeScalar sep e), "self_q_range_0")] := by
  rw [toF_rangeScalar]
  simp only [range_verifier, range_delta_eq]
  src_close

theorem range_linearization_source (sep : Nat) (e : Evals) (q : F) :
    range_linearization (A := F) (evaluations_a_eval := toF e.a) (evaluations_b_eval := toF e.b)
      (evaluations_c_eval := toF e.c) (evaluations_d_eval := toF e.d) (evaluations_d_w_eval := toF e.dw)
      (range_separation_challenge := toF sep) (self_q_range_0 := q)
    = q * toF (rangeScalar sep e) := by
  rw [toF_rangeScalar]
  simp only [range_linearization, range_delta_eq]
  src_close

theorem range_quotient_source (sep a b c d dw : Nat) (q : F) :
    range_quotient_i (A := F) (a_i := toF a) (b_i := toF b) (c_i := toF c) (d_i := toF d) (d_i_w := toF dw)
      (range_separation_challenge := toF sep) (self_q_range_1_index := q)
    = q * toF (rangeScalar sep (rowEvals a b c d 0 0 dw 0 0 0)) := by
  rw [toF_rangeScalar]
  simp only [range_quotient_i, range_delta_eq, rowEvals]
  src_close

/-! ### logic -/

theorem logic_verifier_source (sep : Nat) (e : Evals) :
    logic_verifier (A := F) (evaluations_a_eval := toF e.a) (evaluations_a_w_eval := toF e.aw)
      (evaluations_b_eval := toF e.b) (evaluations_b_w_eval := toF e.bw) (evaluations_c_eval := toF e.c)
      (evaluations_d_eval := toF e.d) (evaluations_d_w_eval := toF e.dw) (evaluations_q_c_eval := toF e.qc)
      (logic_separation_challenge := toF sep)
    = [(toF (logicScalar sep e), "self_q_logic_0")] := by
  rw [toF_logicScalar]
  simp only [logic_verifier, logic_delta_eq, logic_delta_xor_and_eq]
  src_close

theorem logic_linearization_source (sep : Nat) (e : Evals) (q : F) :
    logic_linearization (A := F) (evaluations_a_eval := toF e.a) (evaluations_a_w_eval := toF e.aw)
      (evaluations_b_eval := toF e.b) (evaluations_b_w_eval := toF e.bw) (evaluations_c_eval := toF e.c)
      (evaluations_d_eval := toF e.d) (evaluations_d_w_eval := toF e.dw) (evaluations_q_c_eval := toF e.qc)
      (logic_separation_challenge := toF sep) (self_q_logic_0 := q)
    = q * toF (logicScalar sep e) := by
  rw [toF_logicScalar]
  simp only [logic_linearization, logic_delta_eq, logic_delta_xor_and_eq]
  src_close

theorem logic_quotient_source (sep a aw b bw c d dw qc : Nat) (q : F) :
    logic_quotient_i (A := F) (a_i := toF a) (a_i_w := toF aw) (b_i := toF b) (b_i_w := toF bw) (c_i := toF c)
      (d_i := toF d) (d_i_w := toF dw) (logic_separation_challenge := toF sep) (self_q_c_1_index := toF qc)
      (self_q_logic_1_index := q)
    = q * toF (logicScalar sep (rowEvals a b c d aw bw dw 0 0 qc)) := by
  rw [toF_logicScalar]
  simp only [logic_quotient_i, logic_delta_eq, logic_delta_xor_and_eq, rowEvals]
  src_close

/-! ### fixed-base scalar multiplication -/

theorem fixed_verifier_source (sep : Nat) (e : Evals) :
    fixed_verifier (A := F) (EDWARDS_D := dF) (ecc_separation_challenge := toF sep)
      (evaluations_a_eval := toF e.a) (evaluations_a_w_eval := toF e.aw) (evaluations_b_eval := toF e.b)
      (evaluations_b_w_eval := toF e.bw) (evaluations_c_eval := toF e.c) (evaluations_d_eval := toF e.d)
      (evaluations_d_w_eval := toF e.dw) (evaluations_q_c_eval := toF e.qc) (evaluations_q_l_eval := toF e.ql)
      (evaluations_q_r_eval := toF e.qr)
    = [(toF (fixedScalar sep e), "self_q_fixed_group_add_0")] := by
  rw [toF_fixedScalar]
  simp only [fixed_verifier, fixed_extract_bit, fixed_check_bit_consistency]
  src_close

theorem fixed_linearization_source (sep : Nat) (e : Evals) (q : F) :
    fixed_linearization (A := F) (EDWARDS_D := dF) (ecc_separation_challenge := toF sep)
      (evaluations_a_eval := toF e.a) (evaluations_a_w_eval := toF e.aw) (evaluations_b_eval := toF e.b)
      (evaluations_b_w_eval := toF e.bw) (evaluations_c_eval := toF e.c) (evaluations_d_eval := toF e.d)
      (evaluations_d_w_eval := toF e.dw) (evaluations_q_c_eval := toF e.qc) (evaluations_q_l_eval := toF e.ql)
      (evaluations_q_r_eval := toF e.qr) (self_q_fixed_group_add_0 := q)
    = q * toF (fixedScalar sep e) := by
  rw [toF_fixedScalar]
  simp only [fixed_linearization, fixed_extract_bit, fixed_check_bit_consistency]
  src_close

theorem fixed_quotient_source (sep a aw b bw c d dw ql qr qc : Nat) (q : F) :
    fixed_quotient_i (A := F) (EDWARDS_D := dF) (a_i := toF a) (a_i_w := toF aw) (b_i := toF b) (b_i_w := toF bw)
      (c_i := toF c) (d_i := toF d) (d_i_w := toF dw) (ecc_separation_challenge := toF sep)
      (self_q_c_1_index := toF qc) (self_q_fixed_group_add_1_index := q) (self_q_l_1_index := toF ql)
      (self_q_r_1_index := toF qr)
    = q * toF (fixedScalar sep (rowEvals a b c d aw bw dw ql qr qc)) := by
  rw [toF_fixedScalar]
  simp only [fixed_quotient_i, fixed_extract_bit, fixed_check_bit_consistency, rowEvals]
  src_close

/-! ### variable-base curve addition -/

theorem var_verifier_source (sep : Nat) (e : Evals) :
    var_verifier (A := F) (EDWARDS_D := dF) (curve_add_separation_challenge := toF sep)
      (evaluations_a_eval := toF e.a) (evaluations_a_w_eval := toF e.aw) (evaluations_b_eval := toF e.b)
      (evaluations_b_w_eval := toF e.bw) (evaluations_c_eval := toF e.c) (evaluations_d_eval := toF e.d)
      (evaluations_d_w_eval := toF e.dw)
    = [(toF (varScalar sep e), "self_q_variable_group_add_0")] := by
  rw [toF_varScalar]
  simp only [var_verifier]
  src_close

theorem var_linearization_source (sep : Nat) (e : Evals) (q : F) :
    var_linearization (A := F) (EDWARDS_D := dF) (curve_add_separation_challenge := toF sep)
      (evaluations_a_eval := toF e.a) (evaluations_a_w_eval := toF e.aw) (evaluations_b_eval := toF e.b)
      (evaluations_b_w_eval := toF e.bw) (evaluations_c_eval := toF e.c) (evaluations_d_eval := toF e.d)
      (evaluations_d_w_eval := toF e.dw) (self_q_variable_group_add_0 := q)
    = q * toF (varScalar sep e) := by
  rw [toF_varScalar]
  simp only [var_linearization]
  src_close

theorem var_quotient_source (sep a aw b bw c d dw : Nat) (q : F) :
    var_quotient_i (A := F) (EDWARDS_D := dF) (a_i := toF a) (a_i_w := toF aw) (b_i := toF b) (b_i_w := toF bw)
      (c_i := toF c) (curve_add_separation_challenge := toF sep) (d_i := toF d) (d_i_w := toF dw)
      (self_q_variable_group_add_1_index := q)
    = q * toF (varScalar sep (rowEvals a b c d aw bw dw 0 0 0)) := by
  rw [toF_varScalar]
  simp only [var_quotient_i, rowEvals]
  src_close

/-! ### arithmetic -/

/-- the six verifier terms are `q_arith(z)·(ab, a, b, c, d, 1)` on `[q_m] [q_l] [q_r] [q_o] [q_4] [q_c]`, exactly the
    `arith` block of the model's `linearizationTerms` -/
theorem arith_verifier_source (e : Evals) :
    arith_verifier (A := F) (evaluations_a_eval := toF e.a) (evaluations_b_eval := toF e.b)
      (evaluations_c_eval := toF e.c) (evaluations_d_eval := toF e.d) (evaluations_q_arith_eval := toF e.qarith)
    = [(toF (fmul (fmul e.a e.b) e.qarith), "self_q_m_0"), (toF (fmul e.a e.qarith), "self_q_l_0"),
       (toF (fmul e.b e.qarith), "self_q_r_0"), (toF (fmul e.c e.qarith), "self_q_o_0"),
       (toF (fmul e.d e.qarith), "self_q_f_0"), (toF e.qarith, "self_q_c_0")] := by
  simp only [arith_verifier, toF_fmul]

theorem arith_linearization_source (e : Evals) (qm ql qr qo qf qc : F) :
    arith_linearization (A := F) (evaluations_a_eval := toF e.a) (evaluations_b_eval := toF e.b)
      (evaluations_c_eval := toF e.c) (evaluations_d_eval := toF e.d) (evaluations_q_arith_eval := toF e.qarith)
      (self_q_c_0 := qc) (self_q_f_0 := qf) (self_q_l_0 := ql) (self_q_m_0 := qm) (self_q_o_0 := qo) (self_q_r_0 := qr)
    = toF (fmul (fmul e.a e.b) e.qarith) * qm + toF (fmul e.a e.qarith) * ql + toF (fmul e.b e.qarith) * qr
      + toF (fmul e.c e.qarith) * qo + toF (fmul e.d e.qarith) * qf + toF e.qarith * qc := by
  simp only [arith_linearization, toF_fmul]
  src_close

/-- the prover's quotient term of the arithmetic widget is the model's `arithVal` without the public input -/
theorem arith_quotient_source (g : Gate) (a b c d : Nat) :
    arith_quotient_i (A := F) (a_i := toF a) (b_i := toF b) (c_i := toF c) (d_i := toF d)
      (self_q_arith_1_index := toF g.qarith) (self_q_c_1_index := toF g.qc) (self_q_f_1_index := toF g.qf)
      (self_q_l_1_index := toF g.ql) (self_q_m_1_index := toF g.qm) (self_q_o_1_index := toF g.qo)
      (self_q_r_1_index := toF g.qr)
    = toF (arithVal g a b c d 0) := by
  rw [toF_arithVal]
  simp only [arith_quotient_i, arithF]
  simp

/-! ### permutation -/

/-- the scalar on `[z]` in the model's `linearizationTerms` (copied text; `linearizationTerms_perm` ties the copy) -/
def permZScalar (e : Evals) (ch : Challenges) (l1 : Nat) : Nat :=
  let K1 := Generated.K1; let K2 := Generated.K2; let K3 := Generated.K3
  let bz := fmul ch.beta ch.z
  let x := fmul (fmul (fmul (fadd (fadd e.a bz) ch.gamma)
                            (fadd (fadd e.b (fmul (fmul ch.beta K1) ch.z)) ch.gamma))
                      (fadd (fadd e.c (fmul (fmul ch.beta K2) ch.z)) ch.gamma))
                (fmul (fadd (fadd e.d (fmul (fmul ch.beta K3) ch.z)) ch.gamma) ch.alpha)
  let r := fmul l1 (fsq ch.alpha)
  fadd (fadd x r) ch.u

/-- the scalar on `[s_sigma_4]` in the model's `linearizationTerms` -/
def permS4Scalar (e : Evals) (ch : Challenges) : Nat :=
  fneg (fmul (fmul (fmul (fadd (fadd e.a (fmul ch.beta e.s1)) ch.gamma)
                         (fadd (fadd e.b (fmul ch.beta e.s2)) ch.gamma))
                   (fadd (fadd e.c (fmul ch.beta e.s3)) ch.gamma))
             (fmul (fmul ch.beta e.z) ch.alpha))

theorem linearizationTerms_perm (k : VKey) (p : ProofM) (ch : Challenges) (zh l1 : Nat) :
    (linearizationTerms k p ch zh l1)[10]? = some (permZScalar p.ev ch l1, p.zC) ∧
    (linearizationTerms k p ch zh l1)[11]? = some (permS4Scalar p.ev ch, k.s4) := by
  constructor <;> rfl

theorem perm_verifier_source (e : Evals) (ch : Challenges) (l1 : Nat) :
    perm_verifier (A := F) (K1 := toF Generated.K1) (K2 := toF Generated.K2) (K3 := toF Generated.K3)
      (alpha := toF ch.alpha) (beta := toF ch.beta) (evaluations_a_eval := toF e.a) (evaluations_b_eval := toF e.b)
      (evaluations_c_eval := toF e.c) (evaluations_d_eval := toF e.d) (evaluations_s_sigma_1_eval := toF e.s1)
      (evaluations_s_sigma_2_eval := toF e.s2) (evaluations_s_sigma_3_eval := toF e.s3)
      (evaluations_z_eval := toF e.z) (gamma := toF ch.gamma) (l1_eval := toF l1) (u_challenge := toF ch.u)
      (z_challenge := toF ch.z)
    = [(toF (permZScalar e ch l1), "z_comm"), (toF (permS4Scalar e ch), "self_s_sigma_4_0")] := by
  simp only [perm_verifier, permZScalar, permS4Scalar, toF_fmul, toF_fadd, toF_fsq, toF_fneg]
  src_close

/-- the three permutation terms of the prover's quotient numerator at row `i` (copied text of the model's
    `quotientEvals`: `idp + cpp + (z − 1)·l1α²`) -/
def permQuotTerm (a b c d z zw x s1 s2 s3 s4 alpha beta gamma l1a2 : Nat) : Nat :=
  let idp := fmul (fmul (fmul (fmul (fmul (fadd (fadd a (fmul beta x)) gamma)
                (fadd (fadd b (fmul (fmul beta Generated.K1) x)) gamma))
                (fadd (fadd c (fmul (fmul beta Generated.K2) x)) gamma))
                (fadd (fadd d (fmul (fmul beta Generated.K3) x)) gamma)) z) alpha
  let cpp := fneg (fmul (fmul (fmul (fmul (fmul (fadd (fadd a (fmul beta s1)) gamma)
                (fadd (fadd b (fmul beta s2)) gamma)) (fadd (fadd c (fmul beta s3)) gamma))
                (fadd (fadd d (fmul beta s4)) gamma)) zw) alpha)
  fadd (fadd idp cpp) (fmul (fsub z 1) l1a2)

theorem perm_quotient_source (a b c d z zw x s1 s2 s3 s4 alpha beta gamma l1a2 : Nat) :
    perm_quotient_i (A := F) (K1 := toF Generated.K1) (K2 := toF Generated.K2) (K3 := toF Generated.K3)
      (a_i := toF a) (alpha := toF alpha) (b_i := toF b) (beta := toF beta) (c_i := toF c) (d_i := toF d)
      (gamma := toF gamma) (l1_alpha_sq := toF l1a2) (self_linear_evaluations_index := toF x)
      (self_s_sigma_1_1_index := toF s1) (self_s_sigma_2_1_index := toF s2) (self_s_sigma_3_1_index := toF s3)
      (self_s_sigma_4_1_index := toF s4) (z_i := toF z) (z_i_w := toF zw)
    = toF (permQuotTerm a b c d z zw x s1 s2 s3 s4 alpha beta gamma l1a2) := by
  simp only [perm_quotient_i, perm_quotient_identity_i, perm_quotient_copy_i, perm_quotient_one_i, permQuotTerm,
    toF_fmul, toF_fadd, toF_fsub, toF_fneg, toF_one]
  src_close

/-- prover linearisation: the `z(X)` and `s_sigma_4(X)` multipliers are the verifier's scalars without `u`
    and without the `L_1` term (added separately by `compute_linearizer_check_is_one`) -/
theorem perm_linearizer_source (e : Evals) (ch : Challenges) (zpoly s4poly : F) :
    perm_linearizer_identity (A := F) (K1 := toF Generated.K1) (K2 := toF Generated.K2) (K3 := toF Generated.K3)
      (a_eval := toF e.a) (alpha := toF ch.alpha) (b_eval := toF e.b) (beta := toF ch.beta) (c_eval := toF e.c)
      (d_eval := toF e.d) (gamma := toF ch.gamma) (z_challenge := toF ch.z) (z_poly := zpoly)
    + perm_linearizer_copy (A := F) (a_eval := toF e.a) (alpha := toF ch.alpha) (b_eval := toF e.b)
      (beta := toF ch.beta) (c_eval := toF e.c) (gamma := toF ch.gamma) (s_sigma_4_poly := s4poly)
      (sigma_1_eval := toF e.s1) (sigma_2_eval := toF e.s2) (sigma_3_eval := toF e.s3) (z_eval := toF e.z)
    = zpoly * (toF (permZScalar e ch 0) - toF ch.u) + s4poly * toF (permS4Scalar e ch) := by
  simp only [perm_linearizer_identity, perm_linearizer_copy, permZScalar, permS4Scalar, toF_fmul, toF_fadd, toF_fsq,
    toF_fneg, toF_zero]
  src_close

/-! ### `proof.rs`: order of the widget terms, quotient terms, `r_0` -/

/-- `append_linearization_commitment_terms` calls the six widgets in the order of the model's `linearizationTerms`
    (arithmetic block of 6 terms, then range, logic, fixed-base, curve addition, then the two permutation terms) -/
theorem verify_call_order :
    verify_lin_terms_calls = ["arithmetic", "range", "logic", "fixed_base", "variable_base", "permutation"] := by
  decide

/-- the four quotient terms `−z_h, z^n·(−z_h), z^{2n}·(−z_h), z^{3n}·(−z_h)` on `t_low … t_fourth` -/
def quotientScalars (zh : Nat) : List Nat :=
  let zhNeg := fneg zh
  let zPowN := fadd zh 1
  let zN := fmul zPowN zhNeg
  let z2N := fmul (fsq zPowN) zhNeg
  let z3N := fmul z2N zPowN
  [zhNeg, zN, z2N, z3N]

theorem linearizationTerms_quotient (k : VKey) (p : ProofM) (ch : Challenges) (zh l1 : Nat) :
    (linearizationTerms k p ch zh l1).drop 12
      = [((quotientScalars zh).getD 0 0, p.tLow), ((quotientScalars zh).getD 1 0, p.tMid),
         ((quotientScalars zh).getD 2 0, p.tHigh), ((quotientScalars zh).getD 3 0, p.tFourth)] := by
  rfl

theorem verify_lin_terms_source (zh : Nat) :
    verify_lin_terms (A := F) (z_h_eval := toF zh)
    = [(toF ((quotientScalars zh).getD 0 0), "self_t_low_comm_0"), (toF ((quotientScalars zh).getD 1 0), "self_t_mid_comm_0"),
       (toF ((quotientScalars zh).getD 2 0), "self_t_high_comm_0"), (toF ((quotientScalars zh).getD 3 0), "self_t_fourth_comm_0")] := by
  simp only [verify_lin_terms, quotientScalars, List.getD_cons_zero, List.getD_cons_succ, toF_fmul, toF_fadd, toF_fsq,
    toF_fneg, toF_one]
  first
    | done
    | (refine List.cons_eq_cons.mpr ⟨Prod.ext (by ring1) rfl, List.cons_eq_cons.mpr ⟨Prod.ext (by ring1) rfl,
        List.cons_eq_cons.mpr ⟨Prod.ext (by ring1) rfl, List.cons_eq_cons.mpr ⟨Prod.ext (by ring1) rfl, rfl⟩⟩⟩⟩)

/-- `r_0` of `Proof::verify` and of `Proof::verify_legacy` is the model's `r0Eval` -/
theorem verify_r0_source (e : Evals) (ch : Challenges) (l1 pi : Nat) :
    verify_r0 (A := F) (alpha := toF ch.alpha) (beta := toF ch.beta) (gamma := toF ch.gamma) (l1_eval := toF l1)
      (pi_eval := toF pi) (self_evaluations_a_eval := toF e.a) (self_evaluations_b_eval := toF e.b)
      (self_evaluations_c_eval := toF e.c) (self_evaluations_d_eval := toF e.d)
      (self_evaluations_s_sigma_1_eval := toF e.s1) (self_evaluations_s_sigma_2_eval := toF e.s2)
      (self_evaluations_s_sigma_3_eval := toF e.s3) (self_evaluations_z_eval := toF e.z)
    = toF (r0Eval e ch l1 pi) ∧
    verify_legacy_r0 (A := F) (alpha := toF ch.alpha) (beta := toF ch.beta) (gamma := toF ch.gamma) (l1_eval := toF l1)
      (pi_eval := toF pi) (self_evaluations_a_eval := toF e.a) (self_evaluations_b_eval := toF e.b)
      (self_evaluations_c_eval := toF e.c) (self_evaluations_d_eval := toF e.d)
      (self_evaluations_s_sigma_1_eval := toF e.s1) (self_evaluations_s_sigma_2_eval := toF e.s2)
      (self_evaluations_s_sigma_3_eval := toF e.s3) (self_evaluations_z_eval := toF e.z)
    = toF (r0Eval e ch l1 pi) := by
  constructor <;>
  · simp only [verify_r0, verify_legacy_r0, r0Eval, toF_fmul, toF_fadd, toF_fsub, toF_fsq]
    src_close

end Plonk.WidgetSource
