/-
  C05 (permutation half), part 6: soundness and completeness of the grand-product check
  `∏ (val p + β·id p + γ) = ∏ (val p + β·id(σ p) + γ)` (mathematical level, any field).
-/
import Mathlib.Algebra.Polynomial.Roots
import Mathlib.Algebra.Polynomial.BigOperators
import Mathlib.Algebra.BigOperators.Group.Finset.Basic
import Mathlib.Tactic.LinearCombination
import Mathlib.Tactic.Ring

namespace Plonk
namespace Perm

open Polynomial

variable {K : Type} [Field K] {ι : Type}

/-- the polynomial (in `γ`) of one side of the check, for a fixed `β` -/
noncomputable def sidePoly (S : Finset ι) (val lab : ι → K) (β : K) : K[X] :=
  ∏ p ∈ S, (X + C (val p + β * lab p))

theorem sidePoly_natDegree_le (S : Finset ι) (val lab : ι → K) (β : K) :
    (sidePoly S val lab β).natDegree ≤ S.card := by
  unfold sidePoly
  refine (natDegree_prod_le _ _).trans ?_
  rw [Finset.card_eq_sum_ones]
  exact Finset.sum_le_sum (fun p _ => by rw [natDegree_X_add_C])

theorem sidePoly_eval (S : Finset ι) (val lab : ι → K) (β γ : K) :
    (sidePoly S val lab β).eval γ = ∏ p ∈ S, (val p + β * lab p + γ) := by
  unfold sidePoly
  rw [eval_prod]
  refine Finset.prod_congr rfl (fun p _ => ?_)
  simp only [eval_add, eval_X, eval_C]
  ring

/-- the set of challenges `β` for which two different (value, label) pairs collide -/
noncomputable def badBeta [DecidableEq K] (S : Finset ι) (val idl : ι → K) (σ : ι → ι) : Finset K :=
  (S ×ˢ S).image fun pq => (val pq.1 - val pq.2) / (idl pq.2 - idl (σ pq.1))

theorem badBeta_card_le [DecidableEq K] (S : Finset ι) (val idl : ι → K) (σ : ι → ι) :
    (badBeta S val idl σ).card ≤ S.card * S.card := by
  unfold badBeta
  refine Finset.card_image_le.trans ?_
  rw [Finset.card_product]

/-- **soundness for one `β`**: if `β` is not a bad challenge and the two sides agree as
    polynomials in `γ`, the values respect `σ` -/
theorem sound_of_sidePoly_eq [DecidableEq K] (S : Finset ι) (val idl : ι → K) (σ : ι → ι)
    (hσ : ∀ p ∈ S, σ p ∈ S) (hinj : Set.InjOn idl (S : Set ι)) (β : K) (hβ : β ∉ badBeta S val idl σ)
    (h : sidePoly S val idl β = sidePoly S val (fun p => idl (σ p)) β) :
    ∀ p ∈ S, val (σ p) = val p := by
  intro p hp
  have h1 : (sidePoly S val (fun p => idl (σ p)) β).eval (-(val p + β * idl (σ p))) = 0 := by
    rw [sidePoly_eval]
    exact Finset.prod_eq_zero hp (by ring)
  rw [← h, sidePoly_eval, Finset.prod_eq_zero_iff] at h1
  obtain ⟨q, hq, hq0⟩ := h1
  by_cases hl : idl q = idl (σ p)
  · have : q = σ p := hinj hq (hσ p hp) hl
    subst this
    have : val (σ p) - val p = 0 := by rw [← hq0]; ring
    exact sub_eq_zero.mp this
  · exfalso
    apply hβ
    unfold badBeta
    rw [Finset.mem_image]
    refine ⟨(p, q), Finset.mem_product.mpr ⟨hp, hq⟩, ?_⟩
    have hne : idl q - idl (σ p) ≠ 0 := sub_ne_zero.mpr hl
    rw [div_eq_iff hne]
    show val p - val q = β * (idl q - idl (σ p))
    linear_combination (-1 : K) * hq0

/-- **`perm_product_sound`**: there is a set of at most `|S|²` bad challenges `β` (depending only
    on the committed values, the labels and `σ`) such that for every other `β`, if the two grand
    products agree for more than `|S|` values of `γ`, then `val (σ p) = val p` for all `p ∈ S`. -/
theorem perm_product_sound [DecidableEq K] (S : Finset ι) (val idl : ι → K) (σ : ι → ι)
    (hσ : ∀ p ∈ S, σ p ∈ S) (hinj : Set.InjOn idl (S : Set ι)) :
    ∃ B : Finset K, B.card ≤ S.card * S.card ∧
      ∀ β, β ∉ B → ∀ Γ : Finset K, S.card < Γ.card →
        (∀ γ ∈ Γ, ∏ p ∈ S, (val p + β * idl p + γ) = ∏ p ∈ S, (val p + β * idl (σ p) + γ)) →
        ∀ p ∈ S, val (σ p) = val p := by
  refine ⟨badBeta S val idl σ, badBeta_card_le S val idl σ, ?_⟩
  intro β hβ Γ hΓ hprod
  apply sound_of_sidePoly_eq S val idl σ hσ hinj β hβ
  apply eq_of_natDegree_lt_card_of_eval_eq' _ _ Γ
  · intro γ hγ
    rw [sidePoly_eval, sidePoly_eval]
    exact hprod γ hγ
  · exact lt_of_le_of_lt (max_le (sidePoly_natDegree_le _ _ _ _) (sidePoly_natDegree_le _ _ _ _)) hΓ

/-- the two-variable form: the identity of the two products as polynomials in `γ` over `K[β]`
    forces `val (σ p) = val p` (no exceptional set) -/
theorem perm_product_sound_poly (S : Finset ι) (val idl : ι → K) (σ : ι → ι)
    (hσ : ∀ p ∈ S, σ p ∈ S) (hinj : Set.InjOn idl (S : Set ι))
    (h : (∏ p ∈ S, (X + C (C (val p) + X * C (idl p))) : K[X][X]) =
         ∏ p ∈ S, (X + C (C (val p) + X * C (idl (σ p))))) :
    ∀ p ∈ S, val (σ p) = val p := by
  intro p hp
  have h1 : (∏ p ∈ S, (X + C (C (val p) + X * C (idl (σ p)))) : K[X][X]).eval
      (-(C (val p) + X * C (idl (σ p)))) = 0 := by
    rw [eval_prod]
    exact Finset.prod_eq_zero hp (by simp)
  rw [← h, eval_prod, Finset.prod_eq_zero_iff] at h1
  obtain ⟨q, hq, hq0⟩ := h1
  simp only [eval_add, eval_X, eval_C] at hq0
  have e : (C (val q) + X * C (idl q) : K[X]) = C (val p) + X * C (idl (σ p)) := by
    linear_combination hq0
  have e0 := congrArg (fun f => f.coeff 0) e
  have e1 := congrArg (fun f => f.coeff 1) e
  simp at e0 e1
  have : q = σ p := hinj hq (hσ p hp) e1
  subst this
  exact e0

/-- **completeness**: if the values respect a `σ` that permutes `S`, the two grand products agree
    for all `β`, `γ` -/
theorem perm_product_complete (S : Finset ι) (val idl : ι → K) (σ : ι → ι)
    (hσ : ∀ p ∈ S, σ p ∈ S) (hinj : Set.InjOn σ (S : Set ι)) (hsurj : Set.SurjOn σ (S : Set ι) (S : Set ι))
    (hval : ∀ p ∈ S, val (σ p) = val p) (β γ : K) :
    ∏ p ∈ S, (val p + β * idl p + γ) = ∏ p ∈ S, (val p + β * idl (σ p) + γ) := by
  symm
  refine Finset.prod_nbij σ hσ hinj hsurj ?_
  intro p hp
  rw [hval p hp]

end Perm
end Plonk
