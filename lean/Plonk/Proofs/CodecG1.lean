/-
  G1 point codecs (compressed, raw Montgomery): bridge of the `Nat`-mod-`P` operations to `ZMod P`,
  square roots (`P ≡ 3 mod 4`), round trip, canonicity, well-formedness.
-/
import Mathlib.Algebra.Field.ZMod
import Mathlib.FieldTheory.Finite.Basic
import Mathlib.Tactic.Ring
import Mathlib.Tactic.LinearCombination
import Plonk.Proofs.Prime
import Plonk.Proofs.BytesLemmas
import Plonk.Model.Codec

-- (threads cannot be created under the virtual-memory cap of the shared machine)
set_option Elab.async false

namespace Plonk

/-! ### the base field -/

abbrev Fp := ZMod P

def toP (a : Nat) : Fp := (a : ZMod P)

theorem P_pos : 0 < P := by decide +kernel
theorem P_odd : P = 2 * ((P - 1) / 2) + 1 := by decide +kernel
theorem P_lt_pow : P < 32 * 256 ^ 47 := by decide +kernel
theorem P_lt_256_pow_48 : P < 256 ^ 48 := by decide +kernel
theorem P_add_one_div_four : (P + 1) / 4 * 4 = P + 1 := by decide +kernel
theorem one_mod_P : 1 % P = 1 := by decide +kernel

@[simp] theorem toP_mod (a : Nat) : toP (a % P) = toP a := by
  unfold toP; exact ZMod.natCast_mod a P

@[simp] theorem toP_padd (a b : Nat) : toP (padd a b) = toP a + toP b := by
  unfold padd; rw [toP_mod]; unfold toP; push_cast; rfl

@[simp] theorem toP_pmul (a b : Nat) : toP (pmul a b) = toP a * toP b := by
  unfold pmul; rw [toP_mod]; unfold toP; push_cast; rfl

@[simp] theorem toP_psq (a : Nat) : toP (psq a) = toP a * toP a := by
  unfold psq; rw [toP_mod]; unfold toP; push_cast; rfl

theorem toP_P_sub (b : Nat) : toP (P - b % P) = - toP b := by
  have hb : b % P ≤ P := (Nat.mod_lt b P_pos).le
  unfold toP
  rw [Nat.cast_sub hb]
  simp [ZMod.natCast_mod]

@[simp] theorem toP_pneg (a : Nat) : toP (pneg a) = - toP a := by
  unfold pneg; rw [toP_mod, toP_P_sub]

theorem toP_inj_of_lt {a b : Nat} (ha : a < P) (hb : b < P) : toP a = toP b ↔ a = b := by
  unfold toP
  rw [ZMod.natCast_eq_natCast_iff]; unfold Nat.ModEq
  rw [Nat.mod_eq_of_lt ha, Nat.mod_eq_of_lt hb]

theorem toP_eq_zero_of_lt {a : Nat} (h : a < P) : toP a = 0 ↔ a = 0 := by
  have := toP_inj_of_lt h P_pos
  simpa [toP] using this

theorem padd_lt (a b : Nat) : padd a b < P := Nat.mod_lt _ P_pos
theorem pmul_lt (a b : Nat) : pmul a b < P := Nat.mod_lt _ P_pos
theorem psq_lt (a : Nat) : psq a < P := Nat.mod_lt _ P_pos
theorem pneg_lt (a : Nat) : pneg a < P := Nat.mod_lt _ P_pos

@[simp] theorem toP_zero : toP 0 = 0 := by simp [toP]
@[simp] theorem toP_one : toP 1 = 1 := by simp [toP]
@[simp] theorem toP_four : toP 4 = 4 := by unfold toP; exact Nat.cast_ofNat

theorem powModF_lt (fuel b e m acc : Nat) (hm : 0 < m) (hacc : acc < m) : powModF fuel b e m acc < m := by
  induction fuel generalizing b e acc with
  | zero => simpa [powModF] using hacc
  | succ n ih =>
    unfold powModF
    split
    · exact hacc
    · apply ih
      split
      · exact Nat.mod_lt _ hm
      · exact hacc

theorem ppow_lt (a e : Nat) : ppow a e < P := by
  unfold ppow; exact powModF_lt _ _ _ _ _ P_pos (Nat.mod_lt _ P_pos)

/-- `ppow` is exponentiation in `ZMod P` (exponents below `2^384`) -/
theorem toP_ppow (a e : Nat) (he : e < 2 ^ 384) : toP (ppow a e) = toP a ^ e := by
  unfold ppow
  have h := powModF_spec 384 (a % P) e P (1 % P) he
  have h1 : toP (powModF 384 (a % P) e P (1 % P)) = toP (1 % P * (a % P) ^ e) := by
    rw [← toP_mod, h, toP_mod]
  rw [h1]; unfold toP; push_cast
  simp [ZMod.natCast_mod]

theorem sqrt_exp_lt : (P + 1) / 4 < 2 ^ 384 := by decide +kernel

theorem psqrt?_eq (a : Nat) : psqrt? a =
    if psq (ppow a ((P + 1) / 4)) == a % P then some (ppow a ((P + 1) / 4)) else none := rfl

/-- whatever `psqrt?` returns is a reduced square root -/
theorem psqrt?_some {a s : Nat} (h : psqrt? a = some s) : s < P ∧ toP s * toP s = toP a := by
  rw [psqrt?_eq] at h
  split at h
  · next hc =>
    have h := Option.some.inj h
    subst h
    refine ⟨ppow_lt _ _, ?_⟩
    have hc : psq (ppow a ((P + 1) / 4)) = a % P := by simpa using hc
    rw [← toP_psq, hc, toP_mod]
  · cases h

/-- Euler: for `P ≡ 3 mod 4`, `a^((P+1)/4)` squares back to `a` whenever `a` is a square -/
theorem sqrt_pow_sq [Fact P.Prime] (y : Fp) : ((y * y) ^ ((P + 1) / 4)) * ((y * y) ^ ((P + 1) / 4)) = y * y := by
  by_cases hy : y = 0
  · subst hy
    have : (P + 1) / 4 ≠ 0 := by decide +kernel
    simp [zero_pow this]
  · have hc : y ^ (P - 1) = 1 := ZMod.pow_card_sub_one_eq_one hy
    have e1 : ((y * y) ^ ((P + 1) / 4)) * ((y * y) ^ ((P + 1) / 4)) = y ^ ((P + 1) / 4 * 4) := by
      rw [pow_mul]; ring
    rw [e1, P_add_one_div_four]
    have : P + 1 = (P - 1) + 2 := by have := P_pos; omega
    rw [this, pow_add, hc]; ring

/-- `psqrt?` finds a root of every square, and it is `± y` -/
theorem psqrt?_of_square [Fact P.Prime] {a y : Nat} (h : toP y * toP y = toP a) :
    ∃ s, psqrt? a = some s ∧ s < P ∧ (toP s = toP y ∨ toP s = - toP y) := by
  have hs : toP (ppow a ((P + 1) / 4)) * toP (ppow a ((P + 1) / 4)) = toP a := by
    rw [toP_ppow _ _ sqrt_exp_lt, ← h]; exact sqrt_pow_sq (toP y)
  refine ⟨ppow a ((P + 1) / 4), ?_, ppow_lt _ _, ?_⟩
  · rw [psqrt?_eq]
    have : psq (ppow a ((P + 1) / 4)) = a % P := by
      rw [← toP_inj_of_lt (psq_lt _) (Nat.mod_lt _ P_pos), toP_psq, hs, toP_mod]
    rw [this]; simp
  · have : (toP (ppow a ((P + 1) / 4)) - toP y) * (toP (ppow a ((P + 1) / 4)) + toP y) = 0 := by
      linear_combination hs - h
    rcases mul_eq_zero.mp this with h1 | h1
    · left; exact sub_eq_zero.mp h1
    · right; exact eq_neg_of_add_eq_zero_left h1

/-! ### the sign flag -/

theorem plexLargest_of_lt {y : Nat} (h : y < P) : plexLargest y = decide ((P - 1) / 2 < y) := by
  unfold plexLargest; rw [Nat.mod_eq_of_lt h]

theorem pneg_of_lt {y : Nat} (h : y < P) (h0 : y ≠ 0) : pneg y = P - y := by
  unfold pneg; rw [Nat.mod_eq_of_lt h, Nat.mod_eq_of_lt (by omega)]

theorem pneg_zero : pneg 0 = 0 := by
  unfold pneg; simp

theorem plexLargest_pneg {y : Nat} (h : y < P) (h0 : y ≠ 0) : plexLargest (pneg y) = !plexLargest y := by
  rw [pneg_of_lt h h0, plexLargest_of_lt h, plexLargest_of_lt (by omega)]
  have := P_odd
  generalize (P - 1) / 2 = k at *
  by_cases hk : k < y
  · have : ¬ (k < P - y) := by omega
    simp [hk, this]
  · have : k < P - y := by omega
    simp [hk, this]

/-- no point of the curve has `y = 0`: `−4` is not a cube in `F_p` -/
theorem neg_four_not_cube_check : ppow (P - 4) ((P - 1) / 3) ≠ 1 := by decide +kernel

theorem no_cube_root [Fact P.Prime] (x : Fp) : x * x * x + 4 ≠ 0 := by
  intro h
  have hx : x ≠ 0 := by
    rintro rfl
    have h4 : (4 : Fp) = toP 4 := by simp
    rw [h4] at h; simp only [mul_zero, zero_add] at h
    rw [toP_eq_zero_of_lt (by decide +kernel)] at h; omega
  have hc : x ^ (P - 1) = 1 := ZMod.pow_card_sub_one_eq_one hx
  have h3 : (P - 1) / 3 * 3 = P - 1 := by decide +kernel
  have hm4 : toP (P - 4) = x * x * x := by
    have : toP (P - 4 % P) = - toP 4 := toP_P_sub 4
    rw [Nat.mod_eq_of_lt (by decide +kernel)] at this
    rw [this, toP_four]; linear_combination -h
  apply neg_four_not_cube_check
  rw [← toP_inj_of_lt (ppow_lt _ _) (by decide +kernel), toP_ppow _ _ (by decide +kernel), hm4, toP_one]
  have : (x * x * x) ^ ((P - 1) / 3) = x ^ ((P - 1) / 3 * 3) := by rw [pow_mul]; ring
  rw [this, h3, hc]

/-! ### compressed G1 -/

/-- a well-formed point: the identity, or reduced coordinates on the curve -/
def G1.Valid : G1 → Prop
  | .inf => True
  | .aff x y => x < P ∧ y < P ∧ (G1.aff x y).onCurve = true

theorem natToBytesBE_succ (v n : Nat) :
    natToBytesBE v (n + 1) = (v / 256 ^ n % 256) :: natToBytesBE v n := by
  unfold natToBytesBE
  rw [List.range_succ_eq_map, List.map_cons, List.map_map]
  congr 1
  apply List.map_congr_left
  intro i _
  simp only [Function.comp]
  have : n + 1 - 1 - (i + 1) = n - 1 - i := by omega
  rw [this]

theorem G1.toCompressed_aff (x y : Nat) : G1.toCompressed (.aff x y) =
    (x % P / 256 ^ 47 % 256 + 0x80 + (if plexLargest y then 0x20 else 0)) :: natToBytesBE (x % P) 47 := by
  have h : natToBytesBE (x % P) 48 = _ := natToBytesBE_succ (x % P) 47
  simp only [G1.toCompressed, h]

theorem G1.toCompressed_length (p : G1) : p.toCompressed.length = 48 := by
  cases p with
  | inf => simp [G1.toCompressed]
  | aff x y => rw [G1.toCompressed_aff]; simp

/-- the decoder on a 48-byte list, flags made explicit -/
theorem G1.fromCompressedUnchecked?_cons (b0 : Nat) (rest : List Nat) (hl : rest.length = 47) :
    G1.fromCompressedUnchecked? (b0 :: rest) =
      if bytesToNatBE ((b0 % 32) :: rest) ≥ P then none else
      if ((b0 / 64) % 2 == 1) && ((b0 / 128) % 2 == 1) && !((b0 / 32) % 2 == 1) &&
          bytesToNatBE ((b0 % 32) :: rest) == 0 then some .inf else
      (psqrt? (padd (pmul (psq (bytesToNatBE ((b0 % 32) :: rest))) (bytesToNatBE ((b0 % 32) :: rest))) 4)).bind
      fun y =>
        if !((b0 / 64) % 2 == 1) && ((b0 / 128) % 2 == 1) then
          some (.aff (bytesToNatBE ((b0 % 32) :: rest))
            (if plexLargest y != ((b0 / 32) % 2 == 1) then pneg y else y)) else none := by
  unfold G1.fromCompressedUnchecked?
  have : ((b0 :: rest).length != 48) = false := by simp [hl]
  rw [this]
  simp only [Bool.false_eq_true, ↓reduceIte]
  rw [List.headD_cons, List.tail_cons]
  generalize psqrt? _ = o
  cases o <;> rfl

theorem G1.onCurve_aff_iff (x y : Nat) :
    (G1.aff x y).onCurve = true ↔ toP y * toP y = toP x * toP x * toP x + 4 := by
  unfold G1.onCurve
  rw [beq_iff_eq, ← toP_inj_of_lt (psq_lt _) (padd_lt _ _)]
  simp

theorem G1.fromCompressedUnchecked_inf : G1.fromCompressedUnchecked? (G1.toCompressed .inf) = some .inf := by
  decide +kernel

/-- flag arithmetic of the first byte -/
theorem flag_arith (t : Nat) (s : Bool) (ht : t < 32) :
    (t + 0x80 + (if s then 0x20 else 0)) % 32 = t ∧
    ((t + 0x80 + (if s then 0x20 else 0)) / 64 % 2 == 1) = false ∧
    ((t + 0x80 + (if s then 0x20 else 0)) / 128 % 2 == 1) = true ∧
    ((t + 0x80 + (if s then 0x20 else 0)) / 32 % 2 == 1) = s := by
  cases s <;> simp <;> omega

/-- compressed round trip (no subgroup check) -/
theorem G1.fromCompressedUnchecked_toCompressed [Fact P.Prime] {p : G1} (hp : p.Valid) :
    G1.fromCompressedUnchecked? p.toCompressed = some p := by
  cases p with
  | inf => exact G1.fromCompressedUnchecked_inf
  | aff x y =>
    obtain ⟨hx, hy, hc⟩ := hp
    rw [G1.toCompressed_aff, G1.fromCompressedUnchecked?_cons _ _ (by simp), Nat.mod_eq_of_lt hx]
    have ht : x / 256 ^ 47 % 256 < 32 := by
      have : x / 256 ^ 47 < 32 := by
        rw [Nat.div_lt_iff_lt_mul (by positivity)]; exact lt_trans hx P_lt_pow
      omega
    obtain ⟨f1, f2, f3, f4⟩ := flag_arith (x / 256 ^ 47 % 256) (plexLargest y) ht
    have hxv : bytesToNatBE ((x / 256 ^ 47 % 256) :: natToBytesBE x 47) = x := by
      rw [← natToBytesBE_succ]; exact bytesToNatBE_natToBytesBE (lt_trans hx P_lt_256_pow_48)
    rw [f1, f2, f3, f4, hxv, if_neg (by omega)]
    simp only [Bool.false_and, Bool.false_eq_true, ↓reduceIte, Bool.not_false, Bool.and_self]
    rw [G1.onCurve_aff_iff] at hc
    have hsq : toP y * toP y = toP (padd (pmul (psq x) x) 4) := by simp [hc]
    obtain ⟨s, hs, hslt, hsy⟩ := psqrt?_of_square hsq
    rw [hs, Option.bind_some]
    suffices hsuff : (if (plexLargest s != plexLargest y) = true then pneg s else s) = y by rw [hsuff]
    rcases hsy with h | h
    · rw [toP_inj_of_lt hslt hy] at h
      subst h; simp
    · by_cases hy0 : y = 0
      · subst hy0
        rw [toP_zero, neg_zero, ← toP_zero, toP_inj_of_lt hslt P_pos] at h
        subst h; simp
      · have hs' : s = pneg y := by
          rw [← toP_inj_of_lt hslt (pneg_lt _), toP_pneg]; exact h
        have hy' : y = pneg s := by
          rw [← toP_inj_of_lt hy (pneg_lt _), toP_pneg, h, neg_neg]
        have hs0 : s ≠ 0 := by
          rintro rfl; rw [pneg_zero] at hy'; exact hy0 hy'
        have : plexLargest y = !plexLargest s := by
          conv_lhs => rw [hy']
          exact plexLargest_pneg hslt hs0
        rw [this, ← hy']; cases plexLargest s <;> simp

theorem G1.fromCompressedUnchecked?_length {bs : List Nat} {p : G1}
    (h : G1.fromCompressedUnchecked? bs = some p) : bs.length = 48 := by
  by_contra hl
  have : (bs.length != 48) = true := by simpa using hl
  unfold G1.fromCompressedUnchecked? at h
  rw [this, if_pos rfl] at h
  cases h

theorem bytesToNatBE_replicate_zero (n : Nat) : bytesToNatBE (List.replicate n 0) = 0 := by
  induction n with
  | zero => rfl
  | succ n ih => rw [List.replicate_succ, bytesToNatBE_cons, ih]; simp

theorem byte_flags {b0 : Nat} (hb : b0 < 256) (hcomp : (b0 / 128 % 2 == 1) = true)
    (hinf : (b0 / 64 % 2 == 1) = false) :
    b0 = b0 % 32 + 0x80 + (if (b0 / 32 % 2 == 1) then 0x20 else 0) := by
  have h1 : b0 / 128 % 2 = 1 := by simpa using hcomp
  have h2 : ¬ (b0 / 64 % 2 = 1) := by simpa using hinf
  by_cases h3 : b0 / 32 % 2 = 1
  · simp [h3]; omega
  · simp [h3]; omega

/-- compressed decoding is canonical, and what it accepts is a reduced point of the curve -/
theorem G1.fromCompressedUnchecked_spec [Fact P.Prime] {bs : List Nat} {p : G1}
    (h : G1.fromCompressedUnchecked? bs = some p) : (AllBytes bs → p.toCompressed = bs) ∧ p.Valid := by
  have hl := G1.fromCompressedUnchecked?_length h
  match bs, hl with
  | b0 :: rest, hl =>
    have hl' : rest.length = 47 := by simpa using hl
    rw [G1.fromCompressedUnchecked?_cons _ _ hl'] at h
    by_cases hx : bytesToNatBE ((b0 % 32) :: rest) ≥ P
    · rw [if_pos hx] at h; cases h
    · rw [if_neg hx] at h
      have hx : bytesToNatBE ((b0 % 32) :: rest) < P := by omega
      split at h
      · next hc =>
        have h := Option.some.inj h
        subst h
        simp only [Bool.and_eq_true, Bool.not_eq_true', beq_iff_eq, beq_eq_false_iff_ne] at hc
        obtain ⟨⟨⟨h64, h128⟩, h32⟩, h0⟩ := hc
        refine ⟨fun hb => ?_, trivial⟩
        have hb0 : b0 < 256 := hb.head
        have hbr : AllBytes ((b0 % 32) :: rest) := AllBytes.cons (by omega) hb.tail
        have hz : (b0 % 32) :: rest = List.replicate 48 0 :=
          bytesToNatBE_inj hbr (AllBytes.replicate_zero 48) (by simp [hl'])
            (by rw [h0, bytesToNatBE_replicate_zero])
        have hz' : (b0 % 32) :: rest = 0 :: List.replicate 47 0 := hz
        injection hz' with hz1 hz2
        have : b0 = 0x80 + 0x40 := by omega
        rw [this, hz2]; rfl
      · next hc =>
        cases hsq : psqrt? (padd (pmul (psq (bytesToNatBE ((b0 % 32) :: rest))) (bytesToNatBE ((b0 % 32) :: rest))) 4) with
        | none => rw [hsq] at h; cases h
        | some y0 =>
          rw [hsq, Option.bind_some] at h
          split at h
          · next hf =>
            have h := Option.some.inj h
            subst h
            obtain ⟨hy0lt, hy0sq⟩ := psqrt?_some hsq
            simp only [Bool.and_eq_true, Bool.not_eq_true'] at hf
            obtain ⟨hinf, hcomp⟩ := hf
            generalize hX : bytesToNatBE ((b0 % 32) :: rest) = X at *
            have hy0 : y0 ≠ 0 := by
              rintro rfl
              simp only [toP_zero, mul_zero, toP_padd, toP_pmul, toP_psq, toP_four] at hy0sq
              exact no_cube_root (toP X) hy0sq.symm
            have hflag : plexLargest (if (plexLargest y0 != (b0 / 32 % 2 == 1)) = true then pneg y0 else y0)
                = (b0 / 32 % 2 == 1) := by
              by_cases hs : plexLargest y0 = (b0 / 32 % 2 == 1)
              · simp [hs]
              · have : (plexLargest y0 != (b0 / 32 % 2 == 1)) = true := by simpa using hs
                rw [if_pos this, plexLargest_pneg hy0lt hy0]
                cases hp : plexLargest y0 <;> cases hq : (b0 / 32 % 2 == 1) <;> simp_all
            constructor
            · intro hb
              have hb0 : b0 < 256 := hb.head
              have hbr : AllBytes ((b0 % 32) :: rest) := AllBytes.cons (by omega) hb.tail
              have hbytes : natToBytesBE X 48 = (b0 % 32) :: rest := by
                have := natToBytesBE_bytesToNatBE hbr
                rw [hX] at this
                simpa [hl'] using this
              have hbytes' : (X / 256 ^ 47 % 256) :: natToBytesBE X 47 = (b0 % 32) :: rest :=
                (natToBytesBE_succ X 47).symm.trans hbytes
              obtain ⟨hb1, hb2⟩ := List.cons.inj hbytes'
              rw [G1.toCompressed_aff, hflag, Nat.mod_eq_of_lt hx, hb1, hb2]
              rw [← byte_flags hb0 hcomp hinf]
            · refine ⟨hx, ?_, ?_⟩
              · split
                · exact pneg_lt _
                · exact hy0lt
              · rw [G1.onCurve_aff_iff]
                have : toP y0 * toP y0 = toP X * toP X * toP X + 4 := by
                  rw [hy0sq]; simp
                split
                · rw [toP_pneg]; linear_combination this
                · exact this
          · cases h

/-- `G1Affine::from_bytes` round trip -/
theorem G1.fromCompressed_toCompressed [Fact P.Prime] {p : G1} (hp : p.Valid) (ht : p.torsionFree = true) :
    G1.fromCompressed? p.toCompressed = some p := by
  unfold G1.fromCompressed?
  rw [G1.fromCompressedUnchecked_toCompressed hp]
  simp [ht]

theorem G1.fromCompressed?_some {bs : List Nat} {p : G1} (h : G1.fromCompressed? bs = some p) :
    G1.fromCompressedUnchecked? bs = some p ∧ p.torsionFree = true := by
  unfold G1.fromCompressed? at h
  split at h
  · next q hq =>
    split at h
    · next ht => have h := Option.some.inj h; subst h; exact ⟨hq, ht⟩
    · cases h
  · cases h

/-- `G1Affine::from_bytes` is canonical and accepts only reduced, on-curve, torsion-free points -/
theorem G1.fromCompressed_canonical [Fact P.Prime] {bs : List Nat} {p : G1} (hb : AllBytes bs)
    (h : G1.fromCompressed? bs = some p) : p.toCompressed = bs ∧ p.Valid ∧ p.torsionFree = true := by
  obtain ⟨h1, h2⟩ := G1.fromCompressed?_some h
  obtain ⟨h3, h4⟩ := G1.fromCompressedUnchecked_spec h1
  exact ⟨h3 hb, h4, h2⟩

/-- `G1Affine::from_bytes` accepts only reduced, on-curve, torsion-free points (any input list) -/
theorem G1.fromCompressed_wf [Fact P.Prime] {bs : List Nat} {p : G1}
    (h : G1.fromCompressed? bs = some p) : p.Valid ∧ p.torsionFree = true := by
  obtain ⟨h1, h2⟩ := G1.fromCompressed?_some h
  exact ⟨(G1.fromCompressedUnchecked_spec h1).2, h2⟩

theorem G1.fromCompressed?_length {bs : List Nat} {p : G1} (h : G1.fromCompressed? bs = some p) :
    bs.length = 48 := G1.fromCompressedUnchecked?_length (G1.fromCompressed?_some h).1

/-! ### raw (Montgomery) G1 -/

theorem mont_r_inv' : pmul MONT_R MONT_RINV = 1 := by decide +kernel
theorem MONT_R_lt : MONT_R < P := by decide +kernel
theorem torsionFree_inf : G1.torsionFree .inf = true := by decide +kernel

theorem toP_mont : toP MONT_R * toP MONT_RINV = 1 := by
  rw [← toP_pmul, mont_r_inv', toP_one]

theorem pmul_mont_cancel {x : Nat} (hx : x < P) : pmul (pmul x MONT_R) MONT_RINV = x := by
  rw [← toP_inj_of_lt (pmul_lt _ _) hx, toP_pmul, toP_pmul, mul_assoc, toP_mont, mul_one]

theorem pmul_mont_cancel' {x : Nat} (hx : x < P) : pmul (pmul x MONT_RINV) MONT_R = x := by
  rw [← toP_inj_of_lt (pmul_lt _ _) hx, toP_pmul, toP_pmul, mul_assoc, mul_comm (toP MONT_RINV), toP_mont,
    mul_one]

theorem raw_parts (a b : List Nat) (c : Nat) (la : a.length = 48) (lb : b.length = 48) :
    (a ++ b ++ [c]).take 48 = a ∧ ((a ++ b ++ [c]).drop 48).take 48 = b ∧ (a ++ b ++ [c]).getD 96 0 = c := by
  refine ⟨?_, ?_, ?_⟩
  · rw [List.append_assoc, List.take_left' la]
  · rw [List.append_assoc, List.drop_left' la, List.take_left' lb]
  · rw [List.getD_eq_getElem?_getD, List.getElem?_append_right (by simp [la, lb])]
    simp [la, lb]

theorem G1.toRaw_aff (x y : Nat) : G1.toRaw (.aff x y) =
    natToBytesLE (pmul x MONT_R) 48 ++ natToBytesLE (pmul y MONT_R) 48 ++ [0] := rfl
theorem G1.toRaw_inf : G1.toRaw .inf = natToBytesLE 0 48 ++ natToBytesLE (pmul 1 MONT_R) 48 ++ [1] := rfl

theorem G1.toRaw_length (p : G1) : p.toRaw.length = 97 := by
  cases p <;> simp [G1.toRaw]

theorem G1.fromRawChecked_eq (bs : List Nat) : G1.fromRawChecked bs =
    if bs.getD 96 0 > 1 || bytesToNatLE (bs.take 48) ≥ P || bytesToNatLE ((bs.drop 48).take 48) ≥ P then none else
    if bs.getD 96 0 == 1 then
      (if bytesToNatLE (bs.take 48) == 0 && bytesToNatLE ((bs.drop 48).take 48) == MONT_R then some .inf else none)
    else
      if (G1.aff (pmul (bytesToNatLE (bs.take 48)) MONT_RINV) (pmul (bytesToNatLE ((bs.drop 48).take 48)) MONT_RINV)).onCurve
          && (G1.aff (pmul (bytesToNatLE (bs.take 48)) MONT_RINV)
                (pmul (bytesToNatLE ((bs.drop 48).take 48)) MONT_RINV)).torsionFree
      then some (G1.aff (pmul (bytesToNatLE (bs.take 48)) MONT_RINV) (pmul (bytesToNatLE ((bs.drop 48).take 48)) MONT_RINV))
      else none := rfl

/-- raw round trip -/
theorem G1.fromRawChecked_toRaw {p : G1} (hp : p.Valid) (ht : p.torsionFree = true) :
    G1.fromRawChecked p.toRaw = some p := by
  cases p with
  | inf => decide +kernel
  | aff x y =>
    obtain ⟨hx, hy, hc⟩ := hp
    rw [G1.fromRawChecked_eq]
    obtain ⟨e1, e2, e3⟩ := raw_parts (natToBytesLE (pmul x MONT_R) 48) (natToBytesLE (pmul y MONT_R) 48) 0
      (by simp) (by simp)
    rw [G1.toRaw_aff, e1, e2, e3, bytesToNatLE_natToBytesLE (lt_trans (pmul_lt _ _) P_lt_256_pow_48),
      bytesToNatLE_natToBytesLE (lt_trans (pmul_lt _ _) P_lt_256_pow_48), pmul_mont_cancel hx, pmul_mont_cancel hy,
      hc, ht]
    have h1 : ¬ (pmul x MONT_R ≥ P) := by have := pmul_lt x MONT_R; omega
    have h2 : ¬ (pmul y MONT_R ≥ P) := by have := pmul_lt y MONT_R; omega
    simp [h1, h2]

/-- what the raw decoder accepts: flag 0/1, limbs below `p`, canonical identity, on curve, torsion free -/
theorem G1.fromRawChecked_wf {bs : List Nat} {p : G1} (h : G1.fromRawChecked bs = some p) :
    bs.getD 96 0 ≤ 1 ∧ bytesToNatLE (bs.take 48) < P ∧ bytesToNatLE ((bs.drop 48).take 48) < P ∧
    (bs.getD 96 0 = 1 → p = .inf ∧ bytesToNatLE (bs.take 48) = 0 ∧ bytesToNatLE ((bs.drop 48).take 48) = MONT_R) ∧
    (bs.getD 96 0 = 0 → p = .aff (pmul (bytesToNatLE (bs.take 48)) MONT_RINV)
        (pmul (bytesToNatLE ((bs.drop 48).take 48)) MONT_RINV)) ∧
    p.Valid ∧ p.torsionFree = true := by
  rw [G1.fromRawChecked_eq] at h
  split at h
  · cases h
  · next hc =>
    simp only [Bool.or_eq_true, decide_eq_true_eq, not_or, not_lt, not_le] at hc
    obtain ⟨⟨hf, hxm⟩, hym⟩ := hc
    refine ⟨hf, hxm, hym, ?_⟩
    split at h
    · next hf1 =>
      have hf1 : bs.getD 96 0 = 1 := by simpa using hf1
      split at h
      · next hz =>
        have h := Option.some.inj h
        subst h
        simp only [Bool.and_eq_true, beq_iff_eq] at hz
        exact ⟨fun _ => ⟨rfl, hz.1, hz.2⟩, fun h0 => by omega, trivial, torsionFree_inf⟩
      · cases h
    · next hf1 =>
      have hf1 : ¬ bs.getD 96 0 = 1 := by simpa using hf1
      split at h
      · next hct =>
        have h := Option.some.inj h
        subst h
        simp only [Bool.and_eq_true] at hct
        exact ⟨fun h1 => absurd h1 hf1, fun _ => rfl, ⟨pmul_lt _ _, pmul_lt _ _, hct.1⟩, hct.2⟩
      · cases h

/-- the raw decoder is canonical on 97-byte lists -/
theorem G1.fromRawChecked_canonical {bs : List Nat} {p : G1} (hb : AllBytes bs) (hl : bs.length = 97)
    (h : G1.fromRawChecked bs = some p) : p.toRaw = bs := by
  obtain ⟨hf, hxm, hym, h1, h0, _, _⟩ := G1.fromRawChecked_wf h
  have h96 : bs.drop 96 = [bs.getD 96 0] := by
    have hlen : (bs.drop 96).length = 1 := by simp [hl]
    have hget : bs.getD 96 0 = (bs.drop 96).getD 0 0 := by
      simp [List.getD_eq_getElem?_getD]
    rw [hget]
    match bs.drop 96, hlen with
    | [c], _ => rfl
  have hsplit : bs = bs.take 48 ++ (bs.drop 48).take 48 ++ [bs.getD 96 0] := by
    calc bs = bs.take 48 ++ bs.drop 48 := (List.take_append_drop 48 bs).symm
      _ = bs.take 48 ++ ((bs.drop 48).take 48 ++ (bs.drop 48).drop 48) := by
        rw [List.take_append_drop 48 (bs.drop 48)]
      _ = bs.take 48 ++ (bs.drop 48).take 48 ++ [bs.getD 96 0] := by
        rw [List.drop_drop, h96, List.append_assoc]
  have la : (bs.take 48).length = 48 := by simp [hl]
  have lb : ((bs.drop 48).take 48).length = 48 := by simp [hl]
  have ea : natToBytesLE (bytesToNatLE (bs.take 48)) 48 = bs.take 48 := by
    have := natToBytesLE_bytesToNatLE (hb.take 48); rwa [la] at this
  have eb : natToBytesLE (bytesToNatLE ((bs.drop 48).take 48)) 48 = (bs.drop 48).take 48 := by
    have := natToBytesLE_bytesToNatLE ((hb.drop 48).take 48); rwa [lb] at this
  rcases Nat.le_one_iff_eq_zero_or_eq_one.mp hf with hf0 | hf1
  · rw [h0 hf0, G1.toRaw_aff]
    rw [pmul_mont_cancel' hxm, pmul_mont_cancel' hym, ea, eb, ← hf0]
    exact hsplit.symm
  · obtain ⟨hp, hx0, hy0⟩ := h1 hf1
    rw [hp, G1.toRaw_inf]
    have : pmul 1 MONT_R = MONT_R := by decide +kernel
    rw [this, ← hx0, ← hy0, ea, eb, ← hf1]
    exact hsplit.symm

end Plonk
