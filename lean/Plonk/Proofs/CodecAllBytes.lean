/-
  The encoders produce byte lists (used by the non-vacuity examples of the canonicity theorems).
-/
import Plonk.Proofs.CodecProver

set_option Elab.async false

namespace Plonk

theorem ProofM.toBytes_allBytes {p : ProofM} (hp : p.WF) : AllBytes p.toBytes := by
  rw [ProofM.toBytes_eq]
  exact AllBytes.append (AllBytes.flatMap fun q hq => G1.toCompressed_allBytes (hp.1 q hq).1)
    (AllBytes.flatMap fun s _ => scalarBytesLE_allBytes s)

theorem VKey.toBytes_allBytes {k : VKey} (hk : k.WF) : AllBytes k.toBytes := by
  rw [VKey.toBytes_eq, VKey.body]
  exact AllBytes.append (AllBytes.append (natToBytesLE_allBytes _ _)
    (AllBytes.flatMap fun q hq => G1.toCompressed_allBytes (hk.2 q hq).1)) (AllBytes.replicate_zero _)

theorem Domain.toBytes_allBytes (d : Domain) : AllBytes d.toBytes := by
  unfold Domain.toBytes
  exact AllBytes.append (AllBytes.append (AllBytes.append (AllBytes.append (AllBytes.append (AllBytes.append
    (natToBytesLE_allBytes _ _) (natToBytesLE_allBytes _ _)) (scalarBytesLE_allBytes _)) (scalarBytesLE_allBytes _))
    (scalarBytesLE_allBytes _)) (scalarBytesLE_allBytes _)) (scalarBytesLE_allBytes _)

theorem evalsToBytes_allBytes (d : Domain) (ev : List Nat) : AllBytes (evalsToBytes d ev) := by
  unfold evalsToBytes
  exact AllBytes.append (Domain.toBytes_allBytes d) (AllBytes.flatMap fun s _ => scalarBytesLE_allBytes s)

theorem G1.toRaw_allBytes (p : G1) : AllBytes p.toRaw := by
  cases p with
  | inf =>
    rw [G1.toRaw_inf]
    exact AllBytes.append (AllBytes.append (natToBytesLE_allBytes _ _) (natToBytesLE_allBytes _ _))
      (AllBytes.cons (by norm_num) AllBytes.nil)
  | aff x y =>
    rw [G1.toRaw_aff]
    exact AllBytes.append (AllBytes.append (natToBytesLE_allBytes _ _) (natToBytesLE_allBytes _ _))
      (AllBytes.cons (by norm_num) AllBytes.nil)

theorem commitKeyToRaw_allBytes (ck : List G1) : AllBytes (commitKeyToRaw ck) := by
  unfold commitKeyToRaw
  exact AllBytes.append (natToBytesLE_allBytes _ _) (AllBytes.flatMap fun p _ => G1.toRaw_allBytes p)

end Plonk
