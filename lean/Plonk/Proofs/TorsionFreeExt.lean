/-
  C13, host side — the extended-coordinate arithmetic of `Plonk/Model/Jubjub.lean`
  (`Ext.add`, `Ext.double`, `Ext.mulBits`, `edMul`, `Ext.onCurve`, `Ext.torsionFree`,
  `Ext.primeOrder`, `Ext.toAffine?`) against the affine group law `addF` / `smulF` over
  `F = ZMod R`.

  Main results
  * `RepF.double`, `RepF.add`     : the extended formulas compute the affine law (on curve points;
                                     `Z ≠ 0` is an invariant because the law is complete);
  * `mulBits_rep`                  : `Ext.mulBits p k` represents `[k mod 2^252]P`;
  * `edMul_eq_smulF`               : `toFP (edMul k p) = smulF k (toFP p)` for `k < 2^252`;
  * `Ext.onCurve_iff`, `Ext.torsionFree_iff`, `Ext.primeOrder_iff` : meaning of the Boolean tests.
-/
import Plonk.Proofs.EdwardsGroup

set_option linter.unusedSimpArgs false

namespace Plonk
open Plonk

/-! ### representation of an affine point by extended coordinates -/

/-- `e = (U, V, Z, T1, T2)` represents the affine point `X = (U/Z, V/Z)`, with `T1·T2 = U·V/Z` -/
structure RepF (e : Ext) (X : PtF) : Prop where
  z_ne : toF e.z ≠ 0
  hu : toF e.u = X.1 * toF e.z
  hv : toF e.v = X.2 * toF e.z
  ht : toF e.t1 * toF e.t2 = X.1 * X.2 * toF e.z

/-- the three coordinates that are compared with `==` are canonical -/
def Ext.Red (e : Ext) : Prop := e.u < R ∧ e.v < R ∧ e.z < R

/-- the affine point an extended representation denotes (field level) -/
def Ext.affF (e : Ext) : PtF := (toF e.u / toF e.z, toF e.v / toF e.z)

theorem RepF.eq_affF {e : Ext} {X : PtF} (h : RepF e X) : X = e.affF := by
  unfold Ext.affF
  apply Prod.ext
  · simp only; rw [h.hu, mul_div_assoc, div_self h.z_ne, mul_one]
  · simp only; rw [h.hv, mul_div_assoc, div_self h.z_ne, mul_one]

theorem RepF.unique {e : Ext} {X Y : PtF} (h : RepF e X) (h' : RepF e Y) : X = Y := by
  rw [h.eq_affF, h'.eq_affF]

theorem repF_id : RepF Ext.id idF := by
  refine ⟨?_, ?_, ?_, ?_⟩ <;> simp [Ext.id, idF]

theorem red_id : Ext.id.Red := by
  refine ⟨?_, ?_, ?_⟩ <;> simp only [Ext.id]
  · exact R_pos
  · exact Nat.mod_lt _ R_pos
  · exact Nat.mod_lt _ R_pos

theorem repF_ofAffine (p : Pt) : RepF (Ext.ofAffine p) (toFP p) := by
  refine ⟨?_, ?_, ?_, ?_⟩ <;> simp [Ext.ofAffine, toFP]

theorem Ext.double_red (e : Ext) : e.double.Red :=
  ⟨fmul_lt _ _, fmul_lt _ _, fmul_lt _ _⟩

theorem Ext.add_red (e p : Ext) : (e.add p).Red :=
  ⟨fmul_lt _ _, fmul_lt _ _, fmul_lt _ _⟩

/-- **doubling**: `Ext.double` (dbl-2008-hwcd, `a = −1`) computes `X + X` on curve points -/
theorem RepF.double {e : Ext} {X : PtF} (h : RepF e X) (hX : OnCurveP X) :
    RepF e.double (addF X X) := by
  obtain ⟨x, y⟩ := X
  obtain ⟨hA, hB⟩ := add_completeP hX hX
  obtain ⟨hz, hu, hv, -⟩ := h
  simp only at hA hB hu hv
  have hc : y ^ 2 - x ^ 2 - dF * x ^ 2 * y ^ 2 = 1 := hX
  have eA : 1 + dF * x * x * y * y = y * y - x * x := by linear_combination -hc
  have eB : 1 - dF * x * x * y * y = 2 - (y * y - x * x) := by linear_combination hc
  rw [eA] at hA
  rw [eB] at hB
  set Z := toF e.z with hZ
  have hsum : addF (x, y) (x, y) = ((x * y + y * x) / (y * y - x * x),
      (y * y + x * x) / (2 - (y * y - x * x))) := by
    unfold addF; simp only; rw [eA, eB]
  rw [hsum]
  refine ⟨?_, ?_, ?_, ?_⟩
  · simp only [Ext.double, toF_fmul, toF_fsub, toF_fadd, toF_fsq, toF_two, hu, hv, ← hZ]
    have : (y * Z * (y * Z) - x * Z * (x * Z)) * (2 * (Z * Z) - (y * Z * (y * Z) - x * Z * (x * Z)))
        = (Z * Z * (y * y - x * x)) * (Z * Z * (2 - (y * y - x * x))) := by ring
    rw [this]
    exact mul_ne_zero (mul_ne_zero (mul_ne_zero hz hz) hA) (mul_ne_zero (mul_ne_zero hz hz) hB)
  · simp only [Ext.double, toF_fmul, toF_fsub, toF_fadd, toF_fsq, toF_two, hu, hv, ← hZ]
    rw [div_mul_eq_mul_div, eq_div_iff hA]
    ring
  · simp only [Ext.double, toF_fmul, toF_fsub, toF_fadd, toF_fsq, toF_two, hu, hv, ← hZ]
    rw [div_mul_eq_mul_div, eq_div_iff hB]
    ring
  · simp only [Ext.double, toF_fmul, toF_fsub, toF_fadd, toF_fsq, toF_two, hu, hv, ← hZ]
    rw [div_mul_div_comm, div_mul_eq_mul_div, eq_div_iff (mul_ne_zero hA hB)]
    ring

/-- **addition**: `Ext.add` (add-2008-hwcd-3, `a = −1`) computes `X + Y` on curve points -/
theorem RepF.add {e p : Ext} {X Y : PtF} (h : RepF e X) (h' : RepF p Y) (hX : OnCurveP X)
    (hY : OnCurveP Y) : RepF (e.add p) (addF X Y) := by
  obtain ⟨x1, y1⟩ := X
  obtain ⟨x2, y2⟩ := Y
  obtain ⟨hA, hB⟩ := add_completeP hX hY
  obtain ⟨hz, hu, hv, ht⟩ := h
  obtain ⟨hz', hu', hv', ht'⟩ := h'
  simp only at hA hB hu hv ht hu' hv' ht'
  set Z1 := toF e.z with hZ1
  set Z2 := toF p.z with hZ2
  unfold addF
  simp only
  refine ⟨?_, ?_, ?_, ?_⟩
  · simp only [Ext.add, toF_fmul, toF_fsub, toF_fadd, toF_two, toF_one, toF_EDWARDS_D, hu, hv,
      hu', hv', ht, ht', ← hZ1, ← hZ2]
    have : (Z1 * Z2 * 2 - x1 * y1 * Z1 * (x2 * y2 * Z2 * (2 * dF)) * 1) *
        (Z1 * Z2 * 2 + x1 * y1 * Z1 * (x2 * y2 * Z2 * (2 * dF)) * 1)
        = (2 * Z1 * Z2 * (1 - dF * x1 * x2 * y1 * y2)) * (2 * Z1 * Z2 * (1 + dF * x1 * x2 * y1 * y2)) := by
      ring
    rw [this]
    have h2 := two_ne_zero_F
    exact mul_ne_zero (mul_ne_zero (mul_ne_zero (mul_ne_zero h2 hz) hz') hB)
      (mul_ne_zero (mul_ne_zero (mul_ne_zero h2 hz) hz') hA)
  · simp only [Ext.add, toF_fmul, toF_fsub, toF_fadd, toF_two, toF_one, toF_EDWARDS_D, hu, hv,
      hu', hv', ht, ht', ← hZ1, ← hZ2]
    rw [div_mul_eq_mul_div, eq_div_iff hA]
    ring
  · simp only [Ext.add, toF_fmul, toF_fsub, toF_fadd, toF_two, toF_one, toF_EDWARDS_D, hu, hv,
      hu', hv', ht, ht', ← hZ1, ← hZ2]
    rw [div_mul_eq_mul_div, eq_div_iff hB]
    ring
  · simp only [Ext.add, toF_fmul, toF_fsub, toF_fadd, toF_two, toF_one, toF_EDWARDS_D, hu, hv,
      hu', hv', ht, ht', ← hZ1, ← hZ2]
    rw [div_mul_div_comm, div_mul_eq_mul_div, eq_div_iff (mul_ne_zero hA hB)]
    ring

/-! ### `Ext.mulBits`: the MSB-first double-and-add over bits 251..0 -/

/-- one round of `Ext.mulBits` -/
def Ext.mulStep (p : Ext) (k : Nat) (acc : Ext) (i : Nat) : Ext :=
  let acc := acc.double
  if bit k (251 - i) == 1 then acc.add p else acc

theorem Ext.mulBits_eq (p : Ext) (k : Nat) :
    p.mulBits k = (List.range 252).foldl (p.mulStep k) Ext.id := rfl

theorem bit_lt_two (v i : Nat) : bit v i < 2 := Nat.mod_lt _ (by decide)

theorem Ext.mulStep_red (p : Ext) (k : Nat) (acc : Ext) (i : Nat) : (p.mulStep k acc i).Red := by
  unfold Ext.mulStep
  simp only
  split
  · exact Ext.add_red _ _
  · exact Ext.double_red _

/-- one round: `acc ↦ [2]acc + bit·P` -/
theorem RepF.mulStep {p acc : Ext} {P : PtF} (k i m : Nat) (hp : RepF p P) (hP : OnCurveP P)
    (ha : RepF acc (smulF m P)) :
    RepF (p.mulStep k acc i) (smulF (2 * m + bit k (251 - i)) P) := by
  have hm := smulF_on_curve m hP
  have hd : RepF acc.double (smulF (2 * m) P) := by
    rw [smulF_double _ hP]; exact ha.double hm
  unfold Ext.mulStep
  simp only
  have hb := bit_lt_two k (251 - i)
  split
  · next h =>
    have h1 : bit k (251 - i) = 1 := by simpa using h
    rw [h1, smulF_succ]
    exact hd.add hp (smulF_on_curve _ hP) hP
  · next h =>
    have h0 : bit k (251 - i) = 0 := by
      have : bit k (251 - i) ≠ 1 := by simpa using h
      omega
    rw [h0, Nat.add_zero]
    exact hd

theorem mulBits_fold_rep {p : Ext} {P : PtF} (k : Nat) (hp : RepF p P) (hP : OnCurveP P)
    (l : List Nat) (acc : Ext) (m : Nat) (ha : RepF acc (smulF m P)) :
    RepF (l.foldl (p.mulStep k) acc)
      (smulF (l.foldl (fun m i => 2 * m + bit k (251 - i)) m) P) := by
  induction l generalizing acc m with
  | nil => exact ha
  | cons i l ih =>
    simp only [List.foldl_cons]
    exact ih _ _ (RepF.mulStep k i m hp hP ha)

theorem mulBits_fold_red (p : Ext) (k : Nat) (l : List Nat) (acc : Ext) (ha : acc.Red) :
    (l.foldl (p.mulStep k) acc).Red := by
  induction l generalizing acc with
  | nil => exact ha
  | cons i l ih =>
    simp only [List.foldl_cons]
    exact ih _ (Ext.mulStep_red p k acc i)

theorem Ext.mulBits_red (p : Ext) (k : Nat) : (p.mulBits k).Red :=
  mulBits_fold_red p k _ _ red_id

/-- the number read MSB-first from bits `n-1 .. 0` of `k` is `k mod 2^n` -/
theorem msb_fold_eq (n k : Nat) :
    (List.range n).foldl (fun m i => 2 * m + bit k (n - 1 - i)) 0 = k % 2 ^ n := by
  induction n generalizing k with
  | zero => simp [Nat.mod_one]
  | succ n ih =>
    rw [List.range_succ, List.foldl_append]
    simp only [List.foldl_cons, List.foldl_nil]
    have hfold : (List.range n).foldl (fun m i => 2 * m + bit k (n + 1 - 1 - i)) 0
        = (List.range n).foldl (fun m i => 2 * m + bit (k / 2) (n - 1 - i)) 0 := by
      apply List.foldl_ext
      intro m i hi
      rw [List.mem_range] at hi
      have e : n + 1 - 1 - i = (n - 1 - i) + 1 := by omega
      have e' : k / 2 ^ (n - 1 - i + 1) = k / 2 / 2 ^ (n - 1 - i) := by
        rw [pow_succ, Nat.mul_comm, Nat.div_div_eq_div_mul]
      simp only [bit, e, e']
    rw [hfold, ih]
    have e0 : bit k (n + 1 - 1 - n) = k % 2 := by
      have : n + 1 - 1 - n = 0 := by omega
      rw [this]; simp [bit]
    rw [e0, pow_succ, Nat.mul_comm (2 ^ n) 2, Nat.mod_mul]
    omega

/-- **`Ext.mulBits`** represents `[k mod 2^252]P` whenever `p` represents the curve point `P` -/
theorem mulBits_rep {p : Ext} {P : PtF} (k : Nat) (hp : RepF p P) (hP : OnCurveP P) :
    RepF (p.mulBits k) (smulF (k % 2 ^ 252) P) := by
  have h := mulBits_fold_rep k hp hP (List.range 252) Ext.id 0 (by simpa using repF_id)
  have e := msb_fold_eq 252 k
  simp only [show 252 - 1 = 251 from rfl] at e
  rw [e] at h
  exact h

/-! ### `toAffine?`, `isIdentity`, `edMul` -/

theorem Ext.toAffine?_eq_none_iff (e : Ext) : e.toAffine? = none ↔ e.z = 0 := by
  unfold Ext.toAffine?
  split
  · next h => simp only [beq_iff_eq] at h; simp [h]
  · next h => simp only [beq_iff_eq] at h; simp [h]

theorem Ext.toAffine?_of_ne {e : Ext} (h : e.z ≠ 0) :
    e.toAffine? = some (fmul e.u (finv e.z), fmul e.v (finv e.z)) := by
  unfold Ext.toAffine?
  have : (e.z == 0) = false := by simpa using h
  simp [this]

/-- the affine point returned by `toAffine?` (when `z ≠ 0`) -/
def Ext.aff (e : Ext) : Pt := (fmul e.u (finv e.z), fmul e.v (finv e.z))

theorem Ext.aff_lt (e : Ext) : e.aff.1 < R ∧ e.aff.2 < R := ⟨fmul_lt _ _, fmul_lt _ _⟩

theorem Ext.toFP_aff (e : Ext) : toFP e.aff = e.affF := by
  unfold Ext.aff Ext.affF toFP
  simp only [toF_fmul, toF_finv, div_eq_mul_inv]

theorem Ext.toAffine?_eq (e : Ext) : e.toAffine? = if e.z = 0 then none else some e.aff := by
  split
  · next h => exact (Ext.toAffine?_eq_none_iff e).mpr h
  · next h => exact Ext.toAffine?_of_ne h

theorem Ext.z_ne_of_toF {e : Ext} (h : toF e.z ≠ 0) : e.z ≠ 0 := by
  intro h0; apply h; rw [h0]; exact toF_zero

theorem RepF.toAffine? {e : Ext} {X : PtF} (h : RepF e X) :
    e.toAffine? = some e.aff ∧ toFP e.aff = X := by
  refine ⟨Ext.toAffine?_of_ne (Ext.z_ne_of_toF h.z_ne), ?_⟩
  rw [Ext.toFP_aff, ← h.eq_affF]

/-- `isIdentity` on a canonical representation: the point is the neutral element -/
theorem RepF.isIdentity_iff {e : Ext} {X : PtF} (h : RepF e X) (hr : e.Red) :
    e.isIdentity = true ↔ X = idF := by
  obtain ⟨x, y⟩ := X
  obtain ⟨hu, hv, hz⟩ := hr
  unfold Ext.isIdentity idF
  simp only [Bool.and_eq_true, beq_iff_eq, Prod.mk.injEq]
  rw [eq_zero_iff_toF hu, ← toF_inj_of_lt hv hz, h.hu, h.hv]
  simp only
  constructor
  · rintro ⟨h1, h2⟩
    refine ⟨?_, ?_⟩
    · rcases mul_eq_zero.mp h1 with h1 | h1
      · exact h1
      · exact absurd h1 h.z_ne
    · have : (y - 1) * toF e.z = 0 := by linear_combination h2
      rcases mul_eq_zero.mp this with h3 | h3
      · linear_combination h3
      · exact absurd h3 h.z_ne
  · rintro ⟨rfl, rfl⟩
    simp

/-- **`edMul_eq_smulF`**: the host's scalar multiplication of an affine curve point is the scalar
    multiple of the group law, for scalars below `2^252` (all `JubJubScalar`s). -/
theorem edMul_eq_smulF (k : Nat) (p : Pt) (hp : onCurve p = true) (hk : k < 2 ^ 252) :
    toFP (edMul k p) = smulF k (toFP p) := by
  have hP := (onCurve_iff_P p).mp hp
  have h := mulBits_rep k (repF_ofAffine p) hP
  rw [Nat.mod_eq_of_lt hk] at h
  unfold edMul
  rw [h.toAffine?.1]
  exact h.toAffine?.2

theorem edMul_lt (k : Nat) (p : Pt) : (edMul k p).1 < R ∧ (edMul k p).2 < R := by
  unfold edMul
  rw [Ext.toAffine?_eq]
  split
  · exact ⟨R_pos, R_gt_one⟩
  · exact Ext.aff_lt _

theorem edMul_on_curve (k : Nat) (p : Pt) (hp : onCurve p = true) (hk : k < 2 ^ 252) :
    onCurve (edMul k p) = true := by
  rw [onCurve_iff_P, edMul_eq_smulF k p hp hk]
  exact smulF_on_curve k ((onCurve_iff_P p).mp hp)

theorem EIGHT_INV_lt : Generated.EIGHT_INV < 2 ^ 252 := by decide +kernel
theorem RJ_lt : RJ < 2 ^ 252 := by decide +kernel

/-! ### the Boolean tests of `JubJubExtended` -/

/-- `Ext.onCurve` in the field: `Z ≠ 0`, the affine point is on the curve, and `T1·T2 = U·V/Z`. -/
theorem Ext.onCurve_iff (e : Ext) :
    e.onCurve = true ↔ e.z ≠ 0 ∧ OnCurveP e.affF ∧
      e.affF.1 * e.affF.2 * toF e.z = toF e.t1 * toF e.t2 := by
  unfold Ext.onCurve
  by_cases h : e.z = 0
  · rw [(Ext.toAffine?_eq_none_iff e).mpr h]; simp [h]
  · rw [Ext.toAffine?_of_ne h]
    change (Plonk.onCurve e.aff && fmul (fmul e.aff.1 e.aff.2) e.z == fmul e.t1 e.t2) = true ↔ _
    simp only [Bool.and_eq_true, beq_iff_eq, ne_eq, h, not_false_eq_true, true_and]
    rw [onCurve_iff_P, Ext.toFP_aff, ← toF_inj_of_lt (fmul_lt _ _) (fmul_lt _ _)]
    simp only [toF_fmul]
    have e1 : toF e.aff.1 = e.affF.1 := by rw [← Ext.toFP_aff, toFP_fst]
    have e2 : toF e.aff.2 = e.affF.2 := by rw [← Ext.toFP_aff, toFP_snd]
    rw [e1, e2]

/-- a canonical-`Z` representation accepted by `Ext.onCurve` represents its affine point -/
theorem Ext.repF_of_onCurve {e : Ext} (h : e.onCurve = true) (hz : e.z < R) :
    RepF e e.affF ∧ OnCurveP e.affF := by
  obtain ⟨h0, hc, ht⟩ := (Ext.onCurve_iff e).mp h
  have hz' : toF e.z ≠ 0 := by rwa [Ne, toF_eq_zero_of_lt hz]
  refine ⟨⟨hz', ?_, ?_, ht.symm⟩, hc⟩
  · unfold Ext.affF; simp only; rw [div_mul_cancel₀ _ hz']
  · unfold Ext.affF; simp only; rw [div_mul_cancel₀ _ hz']

/-- **`is_torsion_free`** on an accepted point: `[r_J]P = O` -/
theorem Ext.torsionFree_iff {e : Ext} (h : e.onCurve = true) (hz : e.z < R) :
    e.torsionFree = true ↔ smulF RJ e.affF = idF := by
  obtain ⟨hr, hc⟩ := Ext.repF_of_onCurve h hz
  have hm := mulBits_rep RJ hr hc
  rw [Nat.mod_eq_of_lt RJ_lt] at hm
  unfold Ext.torsionFree
  exact hm.isIdentity_iff (Ext.mulBits_red e RJ)

/-- **`is_prime_order`** on an accepted canonical point: `[r_J]P = O` and `P ≠ O` -/
theorem Ext.primeOrder_iff {e : Ext} (h : e.onCurve = true) (hr : e.Red) :
    e.primeOrder = true ↔ smulF RJ e.affF = idF ∧ e.affF ≠ idF := by
  obtain ⟨hrep, hc⟩ := Ext.repF_of_onCurve h hr.2.2
  unfold Ext.primeOrder
  simp only [Bool.and_eq_true, Bool.not_eq_true', ← Bool.not_eq_true]
  rw [Ext.torsionFree_iff h hr.2.2, hrep.isIdentity_iff hr]

end Plonk
