/-
  C02 (soundness): the link between the verifier's equation and the quotient identity.

  The model's verifier (`Model/Verifier.lean`) never evaluates the numerator: it forms the
  linearisation commitment `[D]` (`linearizationTerms`) and checks, inside the batched opening, that
  `[D] − u·[z]` opens at the challenge point to `−r₀` (`r0Eval`).  Interpreting every commitment by
  the polynomial it commits to (`ι : G1 → F[X]`, assumption (A1)) and assuming that the evaluations
  carried by the proof are the true evaluations of these polynomials (which the opening layer
  enforces, `forged_evaluation_rejected`), `linearisation_is_quotient_identity` shows

      (D − u·Z)(z) + r₀ = Num(z) − (zⁿ − 1)·T(z),   T = t_low + Xⁿ t_mid + X²ⁿ t_high + X³ⁿ t_4,

  so the verifier's claim `(D − u·Z)(z) = −r₀` IS the quotient identity of `soundness_core` at `z`.
-/
import Plonk.Proofs.SoundnessModel
import Plonk.Proofs.VerifierAlgebra
import Plonk.Proofs.LagrangeMath

namespace Plonk.Sound
open Polynomial Plonk Plonk.Quot

/-- the interpretation of the verifier-key and proof commitments as polynomials -/
structure AgmRep (ι : G1 → F[X]) (k : VKey) (p : ProofM) (P : ProverPolys F) : Prop where
  qm : ι k.qm = P.Q.qm
  ql : ι k.ql = P.Q.ql
  qr : ι k.qr = P.Q.qr
  qo : ι k.qo = P.Q.qo
  qf : ι k.qf = P.Q.qf
  qc : ι k.qc = P.Q.qc
  qrange : ι k.qrange = P.Q.qrange
  qlogic : ι k.qlogic = P.Q.qlogic
  qfixed : ι k.qfixed = P.Q.qfixed
  qvar : ι k.qvar = P.Q.qvar
  s4 : ι k.s4 = P.s4
  z : ι p.zC = P.z

/-- the evaluations carried by the proof are the true evaluations at `z` / `ωz` -/
structure TrueEvals (ω z : F) (e : Evals) (P : ProverPolys F) : Prop where
  a : toF e.a = P.a.eval z
  b : toF e.b = P.b.eval z
  c : toF e.c = P.c.eval z
  d : toF e.d = P.d.eval z
  aw : toF e.aw = P.a.eval (ω * z)
  bw : toF e.bw = P.b.eval (ω * z)
  dw : toF e.dw = P.d.eval (ω * z)
  qarith : toF e.qarith = P.Q.qarith.eval z
  qc : toF e.qc = P.Q.qc.eval z
  ql : toF e.ql = P.Q.ql.eval z
  qr : toF e.qr = P.Q.qr.eval z
  s1 : toF e.s1 = P.s1.eval z
  s2 : toF e.s2 = P.s2.eval z
  s3 : toF e.s3 = P.s3.eval z
  z : toF e.z = P.z.eval (ω * z)

/-- the quotient polynomial assembled from its four committed pieces -/
noncomputable def quotientOf (ι : G1 → F[X]) (p : ProofM) (n : ℕ) : F[X] :=
  ι p.tLow + X ^ n * ι p.tMid + X ^ (2 * n) * ι p.tHigh + X ^ (3 * n) * ι p.tFourth

theorem eval_quotientOf (ι : G1 → F[X]) (p : ProofM) (n : ℕ) (z : F) :
    (quotientOf ι p n).eval z =
      (ι p.tLow).eval z + z ^ n * (ι p.tMid).eval z + (z ^ n) ^ 2 * (ι p.tHigh).eval z +
        (z ^ n) ^ 3 * (ι p.tFourth).eval z := by
  simp only [quotientOf, eval_add, eval_mul, eval_pow, eval_X]
  ring

/-- the first Lagrange value computed by `lagrangeAndPi` (`lagrangeAndPi_some`) is `L₁(z)` -/
theorem lagrangeF_zero_eq_L1P (n : ℕ) (ω : F) {z : F} (hz : z ≠ 1) :
    PolyC19.lagrangeF n ω z 0 = (L1P n).eval z := by
  rw [eval_L1P_of_ne_one n hz]
  unfold PolyC19.lagrangeF
  rw [pow_zero, mul_one, div_eq_mul_inv, mul_inv]
  ring

/-- **The verifier's linearisation identity is the quotient identity.** -/
theorem linearisation_is_quotient_identity (ι : G1 → F[X]) (k : VKey) (p : ProofM) (ch : Challenges)
    (zh l1 piEval : Nat) (ω : F) (n : ℕ) (P : ProverPolys F) (A : AgmRep ι k p P)
    (E : TrueEvals ω (toF ch.z) p.ev P) (hzh : toF zh = toF ch.z ^ n - 1)
    (hl1 : toF l1 = (L1P n).eval (toF ch.z)) (hpi : toF piEval = P.pi.eval (toF ch.z)) :
    (evalTerms ι (linearizationTerms k p ch zh l1) - toF ch.u • ι p.zC).eval (toF ch.z) +
        toF (r0Eval p.ev ch l1 piEval) =
      (NumP ω n P ⟨toF ch.beta, toF ch.gamma, toF ch.alpha⟩
          ⟨toF ch.rangeSep, toF ch.logicSep, toF ch.fixedSep, toF ch.varSep⟩).eval (toF ch.z) -
        (toF ch.z ^ n - 1) * (quotientOf ι p n).eval (toF ch.z) := by
  have hz1 : toF zh + 1 = toF ch.z ^ n := by rw [hzh]; ring
  rw [linearization_eval, toF_r0Eval, eval_NumP, eval_quotientOf, Quot.toF_rangeScalar,
    Quot.toF_logicScalar, Quot.toF_fixedScalar, Quot.toF_varScalar, hz1, A.qm, A.ql, A.qr, A.qo,
    A.qf, A.qc, A.qrange, A.qlogic, A.qfixed, A.qvar, A.s4, A.z]
  simp only [eval_add, eval_sub, eval_smul, smul_eq_mul]
  simp only [numR, gateSumR, arithR, permStepR, permNumR, permDenR, Sel.map, wiresF]
  rw [← E.a, ← E.b, ← E.c, ← E.d, ← E.aw, ← E.bw, ← E.dw, ← E.qarith, ← E.qc, ← E.ql, ← E.qr,
    ← E.s1, ← E.s2, ← E.s3, ← E.z, ← hl1, ← hpi, hzh]
  have k1 : toF Generated.K1 = (Generated.K1 : F) := rfl
  have k2 : toF Generated.K2 = (Generated.K2 : F) := rfl
  have k3 : toF Generated.K3 = (Generated.K3 : F) := rfl
  rw [k1, k2, k3]
  ring

/-- **Corollary**: the opening claim of the verifier `(D − u·Z)(z) = −r₀` holds iff the quotient
    identity `Num(z) = T(z)·(zⁿ − 1)` holds. -/
theorem verifier_claim_iff_quotient_identity (ι : G1 → F[X]) (k : VKey) (p : ProofM)
    (ch : Challenges) (zh l1 piEval : Nat) (ω : F) (n : ℕ) (P : ProverPolys F) (A : AgmRep ι k p P)
    (E : TrueEvals ω (toF ch.z) p.ev P) (hzh : toF zh = toF ch.z ^ n - 1)
    (hl1 : toF l1 = (L1P n).eval (toF ch.z)) (hpi : toF piEval = P.pi.eval (toF ch.z)) :
    (evalTerms ι (linearizationTerms k p ch zh l1) - toF ch.u • ι p.zC).eval (toF ch.z) =
        - toF (r0Eval p.ev ch l1 piEval) ↔
      (NumP ω n P ⟨toF ch.beta, toF ch.gamma, toF ch.alpha⟩
          ⟨toF ch.rangeSep, toF ch.logicSep, toF ch.fixedSep, toF ch.varSep⟩).eval (toF ch.z) =
        (quotientOf ι p n).eval (toF ch.z) * (toF ch.z ^ n - 1) := by
  have h := linearisation_is_quotient_identity ι k p ch zh l1 piEval ω n P A E hzh hl1 hpi
  constructor
  · intro h1; linear_combination h1 - h
  · intro h1; linear_combination h + h1

end Plonk.Sound
