import Plonk.Props.C08
#print axioms Plonk.Props.C08.minus_one_mont
