import Plonk.Props.C18
#print axioms Plonk.Props.C18.fft_threads_irrelevant
