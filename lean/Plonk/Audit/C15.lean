import Plonk.Props.C15
#print axioms Plonk.Props.C15.placeholder_consts
