import Plonk.Props.C19
#print axioms Plonk.Props.C19.root_of_unity_def
#print axioms Plonk.Props.C19.root_of_unity_order
