import Plonk.Props.C06
#print axioms Plonk.Props.C06.placeholder_consts
