import Plonk.Props.C06
#print axioms Plonk.Props.C06.placeholder_consts
#print axioms Plonk.Props.C06.blinding_mask_form
#print axioms Plonk.Props.C06.wire_blinding
#print axioms Plonk.Props.C06.perm_blinding
#print axioms Plonk.Props.C06.opening_mask
#print axioms Plonk.Props.C06.split_quotient_mask_form
#print axioms Plonk.Props.C06.rng_draws
#print axioms Plonk.Props.C06.rng_prefix
#print axioms Plonk.Props.C06.draw_partition
#print axioms Plonk.Props.C06.draw_shortage
#print axioms Plonk.Props.C06.proof_openings_masked
#print axioms Plonk.Props.C06.proof_commitments_blinded
#print axioms Plonk.Props.C06.mask_def
