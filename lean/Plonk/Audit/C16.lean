import Plonk.Props.C16
#print axioms Plonk.Props.C16.mont_r_inv
