import Plonk.Props.ComposerTie
#print axioms Plonk.Props.ComposerTie.array_view_is_faithful
#print axioms Plonk.Props.ComposerTie.constraint_setters_are_the_source
#print axioms Plonk.Props.ComposerTie.constraint_selectors_are_the_source
#print axioms Plonk.Props.ComposerTie.handles_are_the_source
#print axioms Plonk.Props.ComposerTie.composer_primitives_are_the_source
#print axioms Plonk.Props.ComposerTie.source_constants
#print axioms Plonk.Props.ComposerTie.gate_add_never_panics
#print axioms Plonk.Props.ComposerTie.bit_and_select_components_are_the_source
#print axioms Plonk.Props.ComposerTie.point_gadgets_are_the_source
