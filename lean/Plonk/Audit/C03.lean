import Plonk.Props.C03
import Plonk.Props.WidgetTie
#print axioms Plonk.Props.C03.accept_iff_equation
#print axioms Plonk.Props.C03.code_equation_is_textbook
#print axioms Plonk.Props.C03.equation_defined_iff
#print axioms Plonk.Props.C03.textbook_equation_written_out
#print axioms Plonk.Props.C03.textbook_equation_written_out_legacy
#print axioms Plonk.Props.C03.r0_is_textbook
#print axioms Plonk.Props.C03.prover_verifier_transcripts_agree
#print axioms Plonk.Props.C03.linearisation_is_textbook
#print axioms Plonk.Props.C03.quotient_powers
#print axioms Plonk.Props.C03.widget_terms_match
#print axioms Plonk.Props.C03.widget_terms_vanish
#print axioms Plonk.Props.C03.transcript_function_of_ops
#print axioms Plonk.Props.C03.transcript_binds_statement
#print axioms Plonk.Props.C03.transcript_binds_proof
#print axioms Plonk.Props.C03.decoded_inputs_are_valid
#print axioms Plonk.Props.C03.v3_binds_s4
#print axioms Plonk.Props.C03.legacy_ignores_s4
#print axioms Plonk.Props.C03.nothing_else
#print axioms Plonk.Props.WidgetTie.verifier_terms_are_the_source
#print axioms Plonk.Props.WidgetTie.perm_scalars_are_the_models
#print axioms Plonk.Props.WidgetTie.prover_quotient_terms_are_the_source
#print axioms Plonk.Props.WidgetTie.prover_linearization_terms_are_the_source
#print axioms Plonk.Props.WidgetTie.verify_assembly_is_the_source
#print axioms Plonk.Props.C03.transcript_labels_bind_same_named_values
