import Plonk.Props.C03
#print axioms Plonk.Props.C03.placeholder_consts
