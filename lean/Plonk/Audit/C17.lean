import Plonk.Props.C17
#print axioms Plonk.Props.C17.placeholder_consts
