import Plonk.Props.C17
#print axioms Plonk.Props.C17.placeholder_consts
#print axioms Plonk.Props.C17.readG1s_bound
#print axioms Plonk.Props.C17.readScalars_bound
#print axioms Plonk.Props.C17.g1_compressed_wf
#print axioms Plonk.Props.C17.scalar_wf
#print axioms Plonk.Props.C17.raw_wf
#print axioms Plonk.Props.C17.proof_wf
#print axioms Plonk.Props.C17.vkey_wf
#print axioms Plonk.Props.C17.openingkey_wf
#print axioms Plonk.Props.C17.verifier_wf
#print axioms Plonk.Props.C17.verifier_not_enough_bytes
#print axioms Plonk.Props.C17.evals_wf
#print axioms Plonk.Props.C17.commitkey_raw_wf
#print axioms Plonk.Props.C17.pkey_wf
#print axioms Plonk.Props.C17.prover_wf
#print axioms Plonk.Props.C17.pp_wf
