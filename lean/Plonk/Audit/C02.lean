import Plonk.Props.C02
import Plonk.Props.WidgetTie
#print axioms Plonk.Props.C02.placeholder_consts
#print axioms Plonk.Props.C02.accumulator_telescopes
#print axioms Plonk.Props.C02.accumulator_telescopes_poly
#print axioms Plonk.Props.C02.perm_identities_no_copy_violation
#print axioms Plonk.Props.C02.identity_at_point_lifts
#print axioms Plonk.Props.C02.forced_proof_rejected_outside_bad_set
#print axioms Plonk.Props.C02.challenge_separation_alpha
#print axioms Plonk.Props.C02.challenge_separation_widgets
#print axioms Plonk.Props.C02.forged_evaluation_rejected
#print axioms Plonk.Props.C02.forged_evaluation_rejected_model
#print axioms Plonk.Props.C02.forged_evaluation_rejected_agm
#print axioms Plonk.Props.C02.soundness_algebraic
#print axioms Plonk.Props.C02.soundness_bad_sets
#print axioms Plonk.Props.C02.numerator_degree_bound
#print axioms Plonk.Props.C02.soundness_witness
#print axioms Plonk.Props.C02.verifier_identity_is_quotient_identity
#print axioms Plonk.Props.WidgetTie.verifier_terms_are_the_source
#print axioms Plonk.Props.WidgetTie.perm_scalars_are_the_models
#print axioms Plonk.Props.WidgetTie.prover_quotient_terms_are_the_source
#print axioms Plonk.Props.WidgetTie.prover_linearization_terms_are_the_source
#print axioms Plonk.Props.WidgetTie.verify_assembly_is_the_source
