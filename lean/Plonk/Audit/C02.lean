import Plonk.Props.C02
#print axioms Plonk.Props.C02.placeholder_consts
