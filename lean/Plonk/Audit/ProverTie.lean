import Plonk.Props.ProverTie
#print axioms Plonk.Props.ProverTie.quotient_of_prove_is_the_source
#print axioms Plonk.Props.ProverTie.quotient_numerator_is_the_source
#print axioms Plonk.Props.ProverTie.accumulator_is_the_source
#print axioms Plonk.Props.ProverTie.linearisation_is_the_source
#print axioms Plonk.Props.ProverTie.evaluations_are_the_source
#print axioms Plonk.Props.ProverTie.call_site_accumulator
#print axioms Plonk.Props.ProverTie.call_site_quotient
#print axioms Plonk.Props.ProverTie.call_site_linearisation
