import Plonk.Props.C13
#print axioms Plonk.Props.C13.placeholder_consts
