import Plonk.Props.C12
#print axioms Plonk.Props.C12.placeholder_consts
#print axioms Plonk.Props.C12.d_nonresidue
#print axioms Plonk.Props.C12.neg_one_residue
#print axioms Plonk.Props.C12.add_complete
#print axioms Plonk.Props.C12.add_assoc_comm
#print axioms Plonk.Props.C12.var_add_comps_iff
#print axioms Plonk.Props.C12.var_add_row_iff
#print axioms Plonk.Props.C12.var_add_row_on_curve
#print axioms Plonk.Props.C12.ladder_is_scalar_mul
