import Plonk.Props.C12
#print axioms Plonk.Props.C12.placeholder_consts
