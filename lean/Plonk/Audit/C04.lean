import Plonk.Props.C04
#print axioms Plonk.Props.C04.len_mismatch_rejected
#print axioms Plonk.Props.C04.outcome_total
#print axioms Plonk.Props.C04.pi_changes_transcript
#print axioms Plonk.Props.C04.label_changes_transcript
#print axioms Plonk.Props.C04.circuit_changes_transcript
#print axioms Plonk.Props.C04.version_enters_through_two_flags
#print axioms Plonk.Props.C04.version_matrix
#print axioms Plonk.Props.C04.version_transcripts
#print axioms Plonk.Props.C04.pi_eval_is_barycentric
#print axioms Plonk.Props.C04.pi_eval_injective
