import Plonk.Props.C04
#print axioms Plonk.Props.C04.placeholder_consts
