import Plonk.Props.C19Fft
#print axioms Plonk.Props.C19Fft.domain_is_subgroup
#print axioms Plonk.Props.C19Fft.fft_is_evaluation
#print axioms Plonk.Props.C19Fft.fft_long_input_is_evaluation
#print axioms Plonk.Props.C19Fft.ifft_is_interpolation
#print axioms Plonk.Props.C19Fft.coset_fft_is_evaluation
#print axioms Plonk.Props.C19Fft.fft_ifft_inverse
#print axioms Plonk.Props.C19Fft.fft_threads_irrelevant
#print axioms Plonk.Props.C19Fft.parallel_chunk_threads_irrelevant
#print axioms Plonk.Props.C19Fft.kernels_agree
