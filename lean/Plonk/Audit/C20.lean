import Plonk.Props.C20
#print axioms Plonk.Props.C20.placeholder_consts
