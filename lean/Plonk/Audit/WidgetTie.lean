import Plonk.Props.WidgetTie
#print axioms Plonk.Props.WidgetTie.verifier_terms_are_the_source
#print axioms Plonk.Props.WidgetTie.perm_scalars_are_the_models
#print axioms Plonk.Props.WidgetTie.prover_quotient_terms_are_the_source
#print axioms Plonk.Props.WidgetTie.prover_linearization_terms_are_the_source
#print axioms Plonk.Props.WidgetTie.verify_assembly_is_the_source
