import Plonk.Props.C07
#print axioms Plonk.Props.C07.placeholder_bounds
