import Plonk.Props.C05Perm
#print axioms Plonk.Props.C05Perm.cosets_disjoint
#print axioms Plonk.Props.C05Perm.id_label_injective
#print axioms Plonk.Props.C05Perm.sigmaMaps_is_permutation
#print axioms Plonk.Props.C05Perm.perm_respects_iff
#print axioms Plonk.Props.C05Perm.perm_respects_iff_const
#print axioms Plonk.Props.C05Perm.perm_product_sound
#print axioms Plonk.Props.C05Perm.perm_product_sound_poly
#print axioms Plonk.Props.C05Perm.perm_product_complete
#print axioms Plonk.Props.C05Perm.grand_product_no_copy_violation
#print axioms Plonk.Props.C05Perm.sigma_order_independent
#print axioms Plonk.Props.C05Perm.relabel_sigma
#print axioms Plonk.Props.C05Perm.sigmaMaps_congr
