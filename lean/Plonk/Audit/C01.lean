import Plonk.Props.C01
#print axioms Plonk.Props.C01.prover_transcript_prefix
