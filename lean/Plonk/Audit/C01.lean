import Plonk.Props.C01
#print axioms Plonk.Props.C01.prover_transcript_prefix
#print axioms Plonk.Props.C01.opening_identity
#print axioms Plonk.Props.C01.opening_identity_at
#print axioms Plonk.Props.C01.capacity
#print axioms Plonk.Props.C01.capacity_boundary_examples
#print axioms Plonk.Props.C01.compile_truncated_degree_too_large_iff
#print axioms Plonk.Props.C01.compile_capacity
#print axioms Plonk.Props.C01.commitments_fit
#print axioms Plonk.Props.C01.commit_accepts
#print axioms Plonk.Props.C01.quotient_shares_eval
