import Plonk.Props.C05
#print axioms Plonk.Props.C05.placeholder_consts
