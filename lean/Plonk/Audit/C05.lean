import Plonk.Props.C05
import Plonk.Props.C05Perm
import Plonk.Props.WidgetTie
#print axioms Plonk.Props.C05.placeholder_consts
#print axioms Plonk.Props.C05.blind_agrees_on_domain
#print axioms Plonk.Props.C05.divisible_iff_vanishes
#print axioms Plonk.Props.C05.components_of_weighted_sum
#print axioms Plonk.Props.C05.range_scalar_zero_iff
#print axioms Plonk.Props.C05.logic_scalar_zero_iff
#print axioms Plonk.Props.C05.fixed_scalar_zero_iff
#print axioms Plonk.Props.C05.var_scalar_zero_iff
#print axioms Plonk.Props.C05.gate_sum_zero_iff
#print axioms Plonk.Props.C05.gate_sum_bad_set
#print axioms Plonk.Props.C05.numerator_at_root
#print axioms Plonk.Props.C05.numerator_on_table
#print axioms Plonk.Props.C05.model_polys_interpolate
#print axioms Plonk.Props.C05.quotient_entry_is_coset_eval
#print axioms Plonk.Props.C05.quotient_in_prove
#print axioms Plonk.Props.C05.grand_product
#print axioms Plonk.Props.C05.prover_exact_rows
#print axioms Plonk.Props.C05.prover_exact_interpolating
#print axioms Plonk.Props.C05.prover_exact_algebra
#print axioms Plonk.Props.C05Perm.cosets_disjoint
#print axioms Plonk.Props.C05Perm.id_label_injective
#print axioms Plonk.Props.C05Perm.sigmaMaps_is_permutation
#print axioms Plonk.Props.C05Perm.perm_respects_iff
#print axioms Plonk.Props.C05Perm.perm_respects_iff_const
#print axioms Plonk.Props.C05Perm.perm_product_sound
#print axioms Plonk.Props.C05Perm.perm_product_sound_poly
#print axioms Plonk.Props.C05Perm.perm_product_complete
#print axioms Plonk.Props.C05Perm.grand_product_no_copy_violation
#print axioms Plonk.Props.C05Perm.sigma_order_independent
#print axioms Plonk.Props.C05Perm.relabel_sigma
#print axioms Plonk.Props.C05Perm.sigmaMaps_congr
#print axioms Plonk.Props.WidgetTie.verifier_terms_are_the_source
#print axioms Plonk.Props.WidgetTie.perm_scalars_are_the_models
#print axioms Plonk.Props.WidgetTie.prover_quotient_terms_are_the_source
#print axioms Plonk.Props.WidgetTie.prover_linearization_terms_are_the_source
