import Plonk.Props.C11
#print axioms Plonk.Props.C11.placeholder_bounds
#print axioms Plonk.Props.C11.componentTruncate_extends
#print axioms Plonk.Props.C11.componentTruncate_sound
#print axioms Plonk.Props.C11.componentTruncate_complete
#print axioms Plonk.Props.C11.truncate_exact
#print axioms Plonk.Props.C11.truncate_unique
#print axioms Plonk.Props.C11.bindTruncationSplit_extends
#print axioms Plonk.Props.C11.bindTruncationSplit_sound
#print axioms Plonk.Props.C11.bindTruncationSplit_complete
#print axioms Plonk.Props.C11.componentDecomposition_extends
#print axioms Plonk.Props.C11.componentDecomposition_sound
#print axioms Plonk.Props.C11.componentDecomposition_complete
#print axioms Plonk.Props.C11.decomposition_exact
#print axioms Plonk.Props.C11.decomposition_unique
#print axioms Plonk.Props.C11.decomposition_alias_255_256
