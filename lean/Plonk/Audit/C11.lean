import Plonk.Props.C11
#print axioms Plonk.Props.C11.placeholder_bounds
