import Plonk.Props.C14
#print axioms Plonk.Props.C14.assertCanonicalJubjubScalar_extends
#print axioms Plonk.Props.C14.assertCanonicalJubjubScalar_sound
#print axioms Plonk.Props.C14.assertCanonicalJubjubScalar_complete
#print axioms Plonk.Props.C14.fixedBase_extends
#print axioms Plonk.Props.C14.fixedBase_bad_digits
#print axioms Plonk.Props.C14.fixedBase_sound
#print axioms Plonk.Props.C14.ladder_sum_is_scalar_mul
#print axioms Plonk.Props.C14.fixedBase_complete
#print axioms Plonk.Props.C14.fixedBase_complete_digits
#print axioms Plonk.Props.C14.mulGenerator_error_iff
#print axioms Plonk.Props.C14.mulGenerator_exact
#print axioms Plonk.Props.C14.mulGenerator_satisfiable_iff
#print axioms Plonk.Props.C14.no_wrap_depends_on_constants
