import Plonk.Props.C14
#print axioms Plonk.Props.C14.placeholder_consts
