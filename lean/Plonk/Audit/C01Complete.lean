import Plonk.Props.C01Complete

#print axioms Plonk.Props.C01Complete.accumulator_exists
#print axioms Plonk.Props.C01Complete.perm_identities_vanish
#print axioms Plonk.Props.C01Complete.perm_vec_is_accumulator
#print axioms Plonk.Props.C01Complete.gate_identity_vanishes
#print axioms Plonk.Props.C01Complete.numerator_divisible
#print axioms Plonk.Props.C01Complete.quotient_degree_bound
#print axioms Plonk.Props.C01Complete.quotient_fits
#print axioms Plonk.Props.C01Complete.verifier_equation_holds
#print axioms Plonk.Props.C01Complete.completeness_algebraic
#print axioms Plonk.Props.C01Complete.completeness_witness
#print axioms Plonk.Props.C01Complete.completeness_witness_self
#print axioms Plonk.Props.C01Complete.verifier_accepts
#print axioms Plonk.Props.C01Complete.verifier_accepts_legacy
#print axioms Plonk.Props.C01Complete.quotient_in_prove_complete
#print axioms Plonk.Props.C01Complete.completeness_model_polys
