import Plonk.Props.C09
#print axioms Plonk.Props.C09.rangeCheck_extends
#print axioms Plonk.Props.C09.rangeCheck_counts
#print axioms Plonk.Props.C09.rangeCheck_sound
#print axioms Plonk.Props.C09.rangeCheck_sound_zero
#print axioms Plonk.Props.C09.rangeCheck_complete
#print axioms Plonk.Props.C09.range_exact
#print axioms Plonk.Props.C09.range_exact_pairs
#print axioms Plonk.Props.C09.entry_points_agree
#print axioms Plonk.Props.C09.range_255_256_trivial
