import Plonk.Props.C09
#print axioms Plonk.Props.C09.placeholder_bounds
