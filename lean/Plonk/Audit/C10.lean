import Plonk.Props.C10
#print axioms Plonk.Props.C10.placeholder_bounds
