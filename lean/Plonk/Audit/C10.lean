import Plonk.Props.C10
#print axioms Plonk.Props.C10.logic_extends
#print axioms Plonk.Props.C10.logic_counts
#print axioms Plonk.Props.C10.logic_sound
#print axioms Plonk.Props.C10.logic_and_sound
#print axioms Plonk.Props.C10.logic_xor_sound
#print axioms Plonk.Props.C10.logic_complete
#print axioms Plonk.Props.C10.logic_zero_pairs
#print axioms Plonk.Props.C10.logic_exact
#print axioms Plonk.Props.C10.logic_and_exact
#print axioms Plonk.Props.C10.logic_xor_exact
