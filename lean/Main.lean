/-
  Model driver: one request per line on stdin, one answer per line on stdout.
-/
import Plonk.Driver.Prog
import Plonk.Driver.Kernels
import Plonk.Driver.Crypto
import Plonk.Model.Compress
import Plonk.Model.Packed
open Plonk Plonk.Driver

def dumpState (s : PState) : String :=
  match s.bad with
  | some m => "bad-op " ++ m
  | none =>
    let c := s.c
    let gs := c.gates.toList.map fun g => String.intercalate "," ((gateItems g).map toHex)
    let ws := c.wit.toList.map toHex
    let ps := (sortedPis c).map fun p => s!"{p.1}:{toHex p.2}"
    s!"G {String.intercalate "|" gs} W {String.intercalate "," ws} P {String.intercalate "," ps} R {String.intercalate "," (s.rets.toList.map toString)}"

def pbytesHex (bs : List Nat) : String :=
  String.ofList (bs.flatMap fun b => [hexChar (b / 16), hexChar (b % 16)])

def pparseBytes? (s : String) : Option (List Nat) :=
  let rec go : List Char → List Nat → Option (List Nat)
    | [], acc => some acc.reverse
    | [_], _ => none
    | a :: b :: r, acc => match hexDigit? a, hexDigit? b with
      | some x, some y => go r ((x * 16 + y) :: acc)
      | _, _ => none
  go s.toList []

def answer (line : String) : String :=
  let line := line.trimAscii.toString
  match line.splitOn " " with
  | "prog" :: rest =>
    let s := runProg (String.intercalate " " rest)
    summary s ++ (if s.bad.isSome then "" else " " ++ satSummary s)
  | "prog2" :: rest =>
    match (String.intercalate " " rest).splitOn "||" with
    | [a, b] =>
      let sa := runProg a
      let sb := runProg b
      if sa.bad.isSome || sb.bad.isSome then "bad-op"
      else summary sa ++ " " ++ Composer.proveOutcome sa.c sb.c
    | _ => "bad-request"
  | "cmpsnap" :: rest =>
    let s := runProg (String.intercalate " " rest)
    if s.bad.isSome then "bad-op" else summary { s with c := decompressCompress s.c, regs := #[], rets := #[] }
  | "packc" :: rest =>
    -- the MessagePack payload `Circuit::compress()` deflates, for the program's circuit
    let s := runProg (String.intercalate " " rest)
    if s.bad.isSome then "bad-op" else pbytesHex (Packed.compressPayload s.c)
  | ["unpackc", mx, hex] =>
    -- `CompressedCircuit::from_bytes` on an INFLATED payload
    match mx.toNat?, pparseBytes? (if hex == "-" then "" else hex) with
    | some mx, some bs =>
      match Packed.fromPayload bs mx with
      | .ok c => "ok " ++ summary { (runProg "") with c := c, regs := #[], rets := #[] }
      | .error .invalid => "err:InvalidCompressedCircuit"
      | .error .scalarMalformed => "err:BlsScalarMalformed"
    | _, _ => "bad-request"
  | ["maxcons", d] => match d.toNat? with
    | some d => toString (maxConstraints d)
    | none => "bad-request"
  | "shape" :: rest => summary (runProg (String.intercalate " " rest))
  | "dump" :: rest => dumpState (runProg (String.intercalate " " rest))
  | toks =>
    if ["fft", "domain", "elements", "poly", "polyscaled", "binv", "lagrange", "vanish", "vcoset", "mlin", "mvan",
        "bary", "lpi"].contains (toks.headD "") then kernelAnswer (toks.filter (· ≠ ""))
    else if ["tr", "g1dec", "g2dec", "g1mul", "g1add", "g2mul"].contains (toks.headD "") then
      cryptoAnswer (toks.filter (· ≠ ""))
    else if (toks.headD "").startsWith "kzg" then kzgAnswer (toks.filter (· ≠ ""))
    else "bad-request"

abbrev VCache := Option (String × Except VDecErr VerifierM)

partial def loop (h : IO.FS.Stream) (out : IO.FS.Stream) (cache : VCache) : IO Unit := do
  let line ← h.getLine
  if line.isEmpty then return ()
  let t := line.trimAscii.toString
  let toks := (t.splitOn " ").filter (· ≠ "")
  if ["verify", "vroundtrip", "proofdec", "chals", "vkscalars"].contains (toks.headD "") then
    let (ans, cache) := verifyAnswer cache toks
    out.putStrLn ans
    loop h out cache
  else if ["proverdec", "ckraw", "ppdec", "evalsdec", "proveruse"].contains (toks.headD "") then
    out.putStrLn (codecAnswer t)
    loop h out cache
  else if toks.headD "" == "provelie" then
    out.putStrLn (proveLieAnswer t)
    loop h out cache
  else if toks.headD "" == "prove" then
    out.putStrLn (proveAnswer t)
    loop h out cache
  else
    out.putStrLn (answer line)
    loop h out cache

def main : IO Unit := do
  let out ← IO.getStdout
  loop (← IO.getStdin) out none
  out.flush
