//! Line-protocol front end for the numeric kernels (mirrors Plonk/Driver/Kernels.lean)
use dusk_bls12_381::BlsScalar;
use dusk_plonk::verif as v;

use crate::util::*;

pub fn parse_list(s: &str) -> Option<Vec<BlsScalar>> {
    if s == "-" {
        return Some(vec![]);
    }
    s.split(',').map(fe_from_hex).collect()
}

pub fn show_list(l: &[BlsScalar]) -> String {
    if l.is_empty() {
        "-".to_string()
    } else {
        l.iter().map(fe_hex).collect::<Vec<_>>().join(",")
    }
}

pub fn show_vec(l: &[BlsScalar]) -> String {
    let mut h = Hasher::new();
    for x in l {
        h.push(x);
    }
    format!("n={} h={} head={}", l.len(), h.hex(), show_list(&l[..l.len().min(3)]))
}

fn with_threads<T: Send>(t: usize, f: impl FnOnce() -> T + Send) -> T {
    let pool = rayon::ThreadPoolBuilder::new().num_threads(t.max(1)).build().expect("pool");
    pool.install(f)
}

pub fn answer(t: &[&str]) -> String {
    match (t[0], t.len()) {
        ("fft", 5) => {
            let (n, th, vv) = match (t[2].parse::<usize>().ok(), t[3].parse::<usize>().ok(), parse_list(t[4])) {
                (Some(a), Some(b), Some(c)) => (a, b, c),
                _ => return "bad-request".into(),
            };
            let kind = t[1].to_string();
            let r = with_threads(th, move || match kind.as_str() {
                "fft" => v::fft(n, &vv),
                "ifft" => v::ifft(n, &vv),
                "cfft" => v::coset_fft(n, &vv),
                _ => v::coset_ifft(n, &vv),
            });
            match r {
                Ok(o) => show_vec(&o),
                Err(_) => "err".into(),
            }
        }
        ("domain", 2) => match t[1].parse::<usize>().ok().map(v::domain_params) {
            Some(Ok((size, log, inv, g, gi, geni))) => format!(
                "size={} log={} inv={} gen={} geninv={} ginv={}",
                size,
                log,
                fe_hex(&inv),
                fe_hex(&g),
                fe_hex(&gi),
                fe_hex(&geni)
            ),
            Some(Err(_)) => "err".into(),
            None => "bad-request".into(),
        },
        ("elements", 2) => match t[1].parse::<usize>().ok().map(v::domain_elements) {
            Some(Ok(e)) => show_vec(&e),
            Some(Err(_)) => "err".into(),
            None => "bad-request".into(),
        },
        ("poly", 4) => {
            let (a, b) = match (parse_list(t[2]), parse_list(t[3])) {
                (Some(a), Some(b)) => (a, b),
                _ => return "bad-request".into(),
            };
            let k = b.first().copied().unwrap_or(BlsScalar::zero());
            match t[1] {
                "trim" => show_list(&v::poly_trim(&a)),
                "degree" => v::poly_degree(&a).to_string(),
                "add" => show_list(&v::poly_add(&a, &b)),
                "addassign" => show_list(&v::poly_add_assign(&a, &b)),
                "sub" => show_list(&v::poly_sub(&a, &b)),
                "subassign" => show_list(&v::poly_sub_assign(&a, &b)),
                "mul" => show_list(&v::poly_mul(&a, &b)),
                "scale" => show_list(&v::poly_scale(&a, &k)),
                "addc" => show_list(&v::poly_add_const(&a, &k)),
                "subc" => show_list(&v::poly_sub_const(&a, &k)),
                "eval" => fe_hex(&v::poly_eval(&a, &k)),
                "ruffini" => show_list(&v::poly_ruffini(&a, k)),
                _ => "bad-request".into(),
            }
        }
        ("polyscaled", 4) => match (parse_list(t[1]), fe_from_hex(t[2]), parse_list(t[3])) {
            (Some(a), Some(f), Some(b)) => show_list(&v::poly_add_assign_scaled(&a, f, &b)),
            _ => "bad-request".into(),
        },
        ("binv", 2) => match parse_list(t[1]) {
            Some(mut l) => {
                v::batch_inversion(&mut l);
                show_list(&l)
            }
            None => "bad-request".into(),
        },
        ("lagrange", 3) => match (t[1].parse::<usize>().ok(), fe_from_hex(t[2])) {
            (Some(n), Some(tau)) => match v::lagrange_coeffs(n, tau) {
                Ok(l) => show_vec(&l),
                Err(_) => "err".into(),
            },
            _ => "bad-request".into(),
        },
        ("vanish", 3) => match (t[1].parse::<usize>().ok(), fe_from_hex(t[2])) {
            (Some(n), Some(tau)) => match v::vanishing_eval(n, &tau) {
                Ok(x) => fe_hex(&x),
                Err(_) => "err".into(),
            },
            _ => "bad-request".into(),
        },
        ("vcoset", 3) => match (t[1].parse::<usize>().ok(), t[2].parse::<u64>().ok()) {
            (Some(n), Some(deg)) => match v::vanishing_over_coset(n, deg) {
                Ok(l) => show_vec(&l),
                Err(_) => "err".into(),
            },
            _ => "bad-request".into(),
        },
        ("mlin", 3) => match (t[1].parse::<usize>().ok(), parse_list(t[2])) {
            (Some(n), Some(l)) => match v::matches_linear_over_coset(n, &l) {
                Ok(b) => b.to_string(),
                Err(_) => "err".into(),
            },
            _ => "bad-request".into(),
        },
        ("mvan", 4) => match (t[1].parse::<usize>().ok(), t[2].parse::<u64>().ok(), parse_list(t[3])) {
            (Some(n), Some(deg), Some(l)) => match v::matches_vanishing_over_coset(n, deg, &l) {
                Ok(b) => b.to_string(),
                Err(_) => "err".into(),
            },
            _ => "bad-request".into(),
        },
        ("bary", 4) => match (t[1].parse::<usize>().ok(), parse_list(t[2]), fe_from_hex(t[3])) {
            (Some(n), Some(ev), Some(p)) => match v::barycentric(n, &ev, &p) {
                Ok(x) => fe_hex(&x),
                Err(_) => "err".into(),
            },
            _ => "bad-request".into(),
        },
        ("lpi", 5) => match (t[1].parse::<usize>().ok(), parse_list(t[2]), parse_list(t[3]), fe_from_hex(t[4])) {
            (Some(n), Some(r), Some(ev), Some(p)) => match v::lagrange_and_pi(n, &r, &ev, &p) {
                Ok((l1, pi)) => format!("{} {}", fe_hex(&l1), fe_hex(&pi)),
                Err(_) => "err".into(),
            },
            _ => "bad-request".into(),
        },
        _ => "bad-request".into(),
    }
}
