//! hex / hash helpers shared by all harness commands (mirrors Plonk/Driver/Parse.lean)
use dusk_bls12_381::BlsScalar;


pub fn fe_from_hex(s: &str) -> Option<BlsScalar> {
    if s.is_empty() || s.len() > 64 {
        return None;
    }
    let mut be = [0u8; 32];
    let padded = format!("{:0>64}", s);
    for i in 0..32 {
        be[i] = u8::from_str_radix(&padded[2 * i..2 * i + 2], 16).ok()?;
    }
    be.reverse();
    Option::from(BlsScalar::from_bytes(&be))
}

pub fn fe_hex(x: &BlsScalar) -> String {
    let mut b = x.to_bytes();
    b.reverse();
    let s: String = b.iter().map(|v| format!("{:02x}", v)).collect();
    let t = s.trim_start_matches('0');
    if t.is_empty() { "0".to_string() } else { t.to_string() }
}

pub fn bytes_hex(b: &[u8]) -> String {
    b.iter().map(|v| format!("{:02x}", v)).collect()
}

pub fn hex_bytes(s: &str) -> Option<Vec<u8>> {
    if s == "-" {
        return Some(vec![]);
    }
    if s.len() % 2 != 0 {
        return None;
    }
    (0..s.len() / 2)
        .map(|i| u8::from_str_radix(&s[2 * i..2 * i + 2], 16).ok())
        .collect()
}

pub fn hk() -> BlsScalar {
    fe_from_hex("1f3d5b79a2c4e6081f3d5b79a2c4e6081f3d5b79a2c4e6081f3d5b79a2c4e609").unwrap()
}

pub struct Hasher {
    h: BlsScalar,
    k: BlsScalar,
}

impl Hasher {
    pub fn new() -> Self {
        Self { h: BlsScalar::zero(), k: hk() }
    }
    pub fn push(&mut self, x: &BlsScalar) {
        self.h = self.h * self.k + x + BlsScalar::one();
    }
    pub fn push_u64(&mut self, x: u64) {
        self.push(&BlsScalar::from(x));
    }
    pub fn hex(&self) -> String {
        fe_hex(&self.h)
    }
}

/// SplitMix64 — the only source of randomness in the harness
#[derive(Clone)]
pub struct SplitMix(pub u64);
impl SplitMix {
    pub fn next(&mut self) -> u64 {
        self.0 = self.0.wrapping_add(0x9e3779b97f4a7c15);
        let mut z = self.0;
        z = (z ^ (z >> 30)).wrapping_mul(0xbf58476d1ce4e5b9);
        z = (z ^ (z >> 27)).wrapping_mul(0x94d049bb133111eb);
        z ^ (z >> 31)
    }
}

/// Scripted RNG: yields bytes from a SplitMix stream, counting calls and bytes.
pub struct ScriptRng {
    pub sm: SplitMix,
    pub calls: usize,
    pub bytes: usize,
    /// optional explicit script: each `fill_bytes` call takes the next entry if present
    pub script: Vec<Vec<u8>>,
    pub pos: usize,
    /// number of draws the generator delivers before it FAILS (`try_fill_bytes` returns an error, `fill_bytes` panics,
    /// as the rand_core contract prescribes for a failing source); `None` = never fails
    pub budget: Option<usize>,
}

thread_local! {
    /// budget picked up by the next `ScriptRng::scripted` (command `provefail`)
    pub static RNG_BUDGET: std::cell::Cell<Option<usize>> = const { std::cell::Cell::new(None) };
}

impl ScriptRng {
    pub fn seeded(seed: u64) -> Self {
        Self { sm: SplitMix(seed), calls: 0, bytes: 0, script: vec![], pos: 0, budget: None }
    }
    pub fn scripted(seed: u64, script: Vec<Vec<u8>>) -> Self {
        Self { sm: SplitMix(seed), calls: 0, bytes: 0, script, pos: 0, budget: RNG_BUDGET.with(|b| b.get()) }
    }
}

impl rand_core::RngCore for ScriptRng {
    fn next_u32(&mut self) -> u32 {
        let mut b = [0u8; 4];
        self.fill_bytes(&mut b);
        u32::from_le_bytes(b)
    }
    fn next_u64(&mut self) -> u64 {
        let mut b = [0u8; 8];
        self.fill_bytes(&mut b);
        u64::from_le_bytes(b)
    }
    fn fill_bytes(&mut self, dest: &mut [u8]) {
        if let Some(b) = self.budget {
            if self.calls >= b {
                panic!("scripted RNG exhausted");
            }
        }
        self.calls += 1;
        self.bytes += dest.len();
        if self.pos < self.script.len() && self.script[self.pos].len() == dest.len() {
            dest.copy_from_slice(&self.script[self.pos]);
            self.pos += 1;
            return;
        }
        self.pos += 1;
        for chunk in dest.chunks_mut(8) {
            let v = self.sm.next().to_le_bytes();
            chunk.copy_from_slice(&v[..chunk.len()]);
        }
    }
    fn try_fill_bytes(&mut self, dest: &mut [u8]) -> Result<(), rand_core::Error> {
        if let Some(b) = self.budget {
            if self.calls >= b {
                return Err(rand_core::Error::from(core::num::NonZeroU32::new(rand_core::Error::CUSTOM_START + 7).unwrap()));
            }
        }
        self.fill_bytes(dest);
        Ok(())
    }
}
impl rand_core::CryptoRng for ScriptRng {}
