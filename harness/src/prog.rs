//! Interpreter of composer programs over the real `Composer` (mirrors Plonk/Driver/Prog.lean).
use dusk_bls12_381::BlsScalar;
use dusk_jubjub::{JubJubAffine, JubJubExtended};
use dusk_plonk::prelude::*;

use crate::dispatch;
use crate::util::*;

pub struct Run {
    pub regs: Vec<Witness>,
    pub rets: Vec<u64>,
    pub errs: Vec<(usize, u32)>,
    pub bad: Option<String>,
}

fn err_code(e: &Error) -> u32 {
    match e {
        Error::JubJubPointDegenerate => 1,
        Error::JubJubPointNotTorsionFree => 2,
        Error::JubJubGeneratorNotPrimeOrder => 3,
        Error::JubJubScalarMalformed => 4,
        Error::UnsupportedWNAF2k => 5,
        _ => 99,
    }
}

impl Run {
    fn new() -> Self {
        Run { regs: vec![], rets: vec![], errs: vec![], bad: None }
    }
    fn push(&mut self, ws: &[Witness]) {
        for w in ws {
            self.regs.push(*w);
            self.rets.push(w.index() as u64);
        }
    }
    fn fail(&mut self, idx: usize, msg: &str) {
        if self.bad.is_none() {
            self.bad = Some(format!("op {}: {}", idx, msg));
        }
    }
    fn wit(&self, c: &Composer, t: &str) -> Option<Witness> {
        if let Some(k) = t.strip_prefix('$') {
            let k: usize = k.parse().ok()?;
            self.regs.get(k).copied()
        } else if let Some(k) = t.strip_prefix('#') {
            let k: usize = k.parse().ok()?;
            c.verif_witness(k)
        } else {
            None
        }
    }
    fn wits(&self, c: &Composer, ts: &[&str]) -> Option<Vec<Witness>> {
        ts.iter().map(|t| self.wit(c, t)).collect()
    }
    fn handle_pt(&mut self, idx: usize, r: Result<WitnessPoint, Error>) {
        match r {
            Ok(p) => self.push(&[*p.x(), *p.y()]),
            Err(e) => {
                self.errs.push((idx, err_code(&e)));
                self.push(&[Composer::ZERO, Composer::ZERO]);
            }
        }
    }
}

fn fes(ts: &[&str]) -> Option<Vec<BlsScalar>> {
    ts.iter().map(|t| fe_from_hex(t)).collect()
}

fn ext(v: &[BlsScalar]) -> JubJubExtended {
    JubJubExtended::from_raw_unchecked(v[0], v[1], v[2], v[3], v[4])
}

fn tfp(x: Witness, y: Witness) -> TorsionFreeWitnessPoint {
    TorsionFreeWitnessPoint::new_unchecked(Composer::verif_witness_point(x, y))
}

fn constraint(q: &[BlsScalar], pi: &str) -> Option<Constraint> {
    // q = [qm ql qr qo qf qc]
    let c = Constraint::new()
        .mult(q[0])
        .left(q[1])
        .right(q[2])
        .output(q[3])
        .fourth(q[4])
        .constant(q[5]);
    if pi == "-" { Some(c) } else { Some(c.public(fe_from_hex(pi)?)) }
}

pub fn exec_op(r: &mut Run, c: &mut Composer, idx: usize, t: &[&str]) {
    macro_rules! bad {
        ($m:expr) => {{
            r.fail(idx, $m);
            return;
        }};
    }
    if t.is_empty() {
        return;
    }
    match (t[0], t.len()) {
        ("w", 2) => match fe_from_hex(t[1]) {
            Some(v) => {
                let w = c.append_witness(v);
                r.push(&[w]);
            }
            None => bad!("bad value"),
        },
        ("setw", 3) => match (r.wit(c, t[1]), fe_from_hex(t[2])) {
            (Some(w), Some(v)) => c.verif_set_witness(w, v),
            _ => bad!("bad setw"),
        },
        // adversarial witness generation only (never sent to the model): gadgets read the bits of the witness from this
        // 256-bit little-endian integer (e.g. value + r) instead of from its canonical value
        ("hostview", 3) => match (r.wit(c, t[1]), hex_bytes32_le(t[2])) {
            (Some(w), Some(b)) => dusk_plonk::verif::set_host_view(Some((w.index(), b))),
            _ => bad!("bad hostview"),
        },
        ("setpi", 3) => match (t[1].parse::<usize>().ok(), fe_from_hex(t[2])) {
            (Some(row), Some(v)) => {
                c.verif_set_public_input(row, v);
            }
            _ => bad!("bad setpi"),
        },
        ("gate", 12) => match (fes(&t[1..7]), r.wits(c, &t[8..12])) {
            (Some(q), Some(w)) => match constraint(&q, t[7]) {
                Some(k) => c.append_gate(k.a(w[0]).b(w[1]).c(w[2]).d(w[3])),
                None => bad!("bad pi"),
            },
            _ => bad!("bad gate"),
        },
        ("raw", 17) => match (fes(&t[1..12]), r.wits(c, &t[13..17])) {
            (Some(q), Some(w)) => {
                let pi = if t[12] == "-" {
                    None
                } else {
                    match fe_from_hex(t[12]) {
                        Some(p) => Some(p),
                        None => bad!("bad pi"),
                    }
                };
                let mut s = [BlsScalar::zero(); 11];
                s.copy_from_slice(&q);
                c.verif_raw_gate(s, [w[0], w[1], w[2], w[3]], pi);
            }
            _ => bad!("bad raw"),
        },
        ("evalout", 11) => match (fes(&t[1..7]), r.wits(c, &t[8..11])) {
            (Some(q), Some(w)) => match constraint(&q, t[7]) {
                Some(k) => match c.append_evaluated_output(k.a(w[0]).b(w[1]).d(w[2])) {
                    Some(o) => r.push(&[o]),
                    None => {
                        r.errs.push((idx, 9));
                        r.push(&[Composer::ZERO]);
                    }
                },
                None => bad!("bad pi"),
            },
            _ => bad!("bad evalout"),
        },
        ("gadd", 10) | ("gmul", 10) => match (fes(&t[1..6]), r.wits(c, &t[7..10])) {
            (Some(q), Some(w)) => {
                let q6 = [q[0], q[1], q[2], BlsScalar::zero(), q[3], q[4]];
                match constraint(&q6, t[6]) {
                    Some(k) => {
                        let k = k.a(w[0]).b(w[1]).d(w[2]);
                        let o = if t[0] == "gadd" { c.gate_add(k) } else { c.gate_mul(k) };
                        r.push(&[o]);
                    }
                    None => bad!("bad pi"),
                }
            }
            _ => bad!("bad gadd/gmul"),
        },
        ("aeq", 3) => match r.wits(c, &t[1..3]) {
            Some(w) => c.assert_equal(w[0], w[1]),
            None => bad!("bad aeq"),
        },
        ("aeqc", 4) => match (r.wit(c, t[1]), fe_from_hex(t[2])) {
            (Some(a), Some(k)) => {
                if t[3] == "-" {
                    c.assert_equal_constant(a, k, None)
                } else {
                    match fe_from_hex(t[3]) {
                        Some(p) => c.assert_equal_constant(a, k, Some(p)),
                        None => bad!("bad pi"),
                    }
                }
            }
            _ => bad!("bad aeqc"),
        },
        ("const", 2) => match fe_from_hex(t[1]) {
            Some(v) => {
                let w = c.append_constant(v);
                r.push(&[w]);
            }
            None => bad!("bad const"),
        },
        ("pub", 2) => match fe_from_hex(t[1]) {
            Some(v) => {
                let w = c.append_public(v);
                r.push(&[w]);
            }
            None => bad!("bad pub"),
        },
        ("bool", 2) => match r.wit(c, t[1]) {
            Some(a) => c.component_boolean(a),
            None => bad!("bad bool"),
        },
        ("sel", 4) => match r.wits(c, &t[1..4]) {
            Some(w) => {
                let o = c.component_select(w[0], w[1], w[2]);
                r.push(&[o]);
            }
            None => bad!("bad sel"),
        },
        ("sel1", 3) => match r.wits(c, &t[1..3]) {
            Some(w) => {
                let o = c.component_select_one(w[0], w[1]);
                r.push(&[o]);
            }
            None => bad!("bad sel1"),
        },
        ("sel0", 3) => match r.wits(c, &t[1..3]) {
            Some(w) => {
                let o = c.component_select_zero(w[0], w[1]);
                r.push(&[o]);
            }
            None => bad!("bad sel0"),
        },
        ("rangebits", 3) => match (t[1].parse::<usize>().ok(), r.wit(c, t[2])) {
            (Some(n), Some(w)) => {
                if !dispatch::range_bits(c, n, w) {
                    bad!("width")
                }
            }
            _ => bad!("bad rangebits"),
        },
        ("range", 3) => match (t[1].parse::<usize>().ok(), r.wit(c, t[2])) {
            (Some(n), Some(w)) => {
                if !dispatch::range_pairs(c, n, w) {
                    bad!("width")
                }
            }
            _ => bad!("bad range"),
        },
        ("rangert", 3) => match (t[1].parse::<usize>().ok(), r.wit(c, t[2])) {
            (Some(n), Some(w)) if n <= 256 => c.verif_range_check(w, n),
            _ => bad!("bad rangert"),
        },
        ("and", 4) | ("xor", 4) => match (t[1].parse::<usize>().ok(), r.wits(c, &t[2..4])) {
            (Some(n), Some(w)) => {
                let o = if t[0] == "and" {
                    dispatch::logic_and(c, n, w[0], w[1])
                } else {
                    dispatch::logic_xor(c, n, w[0], w[1])
                };
                match o {
                    Some(o) => r.push(&[o]),
                    None => bad!("width"),
                }
            }
            _ => bad!("bad logic"),
        },
        ("trunc", 3) => match (t[1].parse::<usize>().ok(), r.wit(c, t[2])) {
            (Some(n), Some(w)) => match dispatch::truncate(c, n, w) {
                Some(o) => r.push(&[o]),
                None => bad!("width"),
            },
            _ => bad!("bad trunc"),
        },
        ("bindsplit", 4) => match (t[1].parse::<usize>().ok(), r.wits(c, &t[2..4])) {
            (Some(n), Some(w)) if n <= 254 => c.verif_bind_truncation_split(w[0], w[1], n),
            _ => bad!("bad bindsplit"),
        },
        ("decomp", 3) => match (t[1].parse::<usize>().ok(), r.wit(c, t[2])) {
            (Some(n), Some(w)) => match dispatch::decomposition(c, n, w) {
                Some(bs) => r.push(&bs),
                None => bad!("width"),
            },
            _ => bad!("bad decomp"),
        },
        ("selpt", 6) => match r.wits(c, &t[1..6]) {
            Some(w) => {
                let p = c.component_select_point(
                    w[0],
                    Composer::verif_witness_point(w[1], w[2]),
                    Composer::verif_witness_point(w[3], w[4]),
                );
                r.push(&[*p.x(), *p.y()]);
            }
            None => bad!("bad selpt"),
        },
        ("fbdigits", 5) => match (r.wit(c, t[1]), fe_from_hex(t[2]), fe_from_hex(t[3])) {
            (Some(s), Some(u), Some(v)) if t[4].len() == 256 => {
                let mut ds = [0i8; 256];
                for (i, ch) in t[4].chars().enumerate() {
                    ds[i] = match ch {
                        '0' => 0,
                        '+' => 1,
                        '-' => -1,
                        '2' => 2,
                        'm' => -2,
                        _ => bad!("digit"),
                    };
                }
                let g = JubJubExtended::from(JubJubAffine::from_raw_unchecked(u, v));
                let res = c.verif_fixed_base_signed_digits(s, g, &ds);
                r.handle_pt(idx, res);
            }
            _ => bad!("bad fbdigits"),
        },
        ("pt", 6) | ("cpt", 6) | ("ppt", 6) => match fes(&t[1..6]) {
            Some(v) => {
                let e = ext(&v);
                let res = match t[0] {
                    "pt" => c.append_point(e),
                    "cpt" => c.append_constant_point(e).map(|p| p.into()),
                    _ => c.append_public_point(e),
                };
                r.handle_pt(idx, res);
            }
            None => bad!("bad point op"),
        },
        ("aeqpt", 5) => match r.wits(c, &t[1..5]) {
            Some(w) => c.assert_equal_point(
                Composer::verif_witness_point(w[0], w[1]),
                Composer::verif_witness_point(w[2], w[3]),
            ),
            None => bad!("bad aeqpt"),
        },
        ("aeqppt", 8) => match (r.wits(c, &t[1..3]), fes(&t[3..8])) {
            (Some(w), Some(v)) => {
                let res = c.assert_equal_public_point(Composer::verif_witness_point(w[0], w[1]), ext(&v));
                if let Err(e) = res {
                    r.errs.push((idx, err_code(&e)));
                }
            }
            _ => bad!("bad aeqppt"),
        },
        ("tf", 3) => match r.wits(c, &t[1..3]) {
            Some(w) => {
                c.assert_torsion_free_point(Composer::verif_witness_point(w[0], w[1]));
            }
            None => bad!("bad tf"),
        },
        ("tfq", 5) => match (r.wits(c, &t[1..3]), fes(&t[3..5])) {
            (Some(w), Some(q)) => c.verif_assert_torsion_free_gates(
                Composer::verif_witness_point(w[0], w[1]),
                JubJubAffine::from_raw_unchecked(q[0], q[1]),
            ),
            _ => bad!("bad tfq"),
        },
        ("neg", 3) => match r.wits(c, &t[1..3]) {
            Some(w) => {
                let p = c.component_neg_point(tfp(w[0], w[1]));
                r.push(&[*p.x(), *p.y()]);
            }
            None => bad!("bad neg"),
        },
        ("add", 5) | ("sub", 5) | ("addraw", 5) => match r.wits(c, &t[1..5]) {
            Some(w) => {
                let (x, y) = match t[0] {
                    "add" => {
                        let p = c.component_add_point(tfp(w[0], w[1]), tfp(w[2], w[3]));
                        (*p.x(), *p.y())
                    }
                    "sub" => {
                        let p = c.component_sub_point(tfp(w[0], w[1]), tfp(w[2], w[3]));
                        (*p.x(), *p.y())
                    }
                    _ => {
                        let p = c.verif_add_point_gates(
                            Composer::verif_witness_point(w[0], w[1]),
                            Composer::verif_witness_point(w[2], w[3]),
                        );
                        (*p.x(), *p.y())
                    }
                };
                r.push(&[x, y]);
            }
            None => bad!("bad add/sub"),
        },
        ("selid", 4) => match r.wits(c, &t[1..4]) {
            Some(w) => {
                let p = c.component_select_identity(w[0], tfp(w[1], w[2]));
                r.push(&[*p.x(), *p.y()]);
            }
            None => bad!("bad selid"),
        },
        ("mulpt", 4) => match r.wits(c, &t[1..4]) {
            Some(w) => {
                let p = c.component_mul_point(w[0], tfp(w[1], w[2]));
                r.push(&[*p.x(), *p.y()]);
            }
            None => bad!("bad mulpt"),
        },
        ("mulgen", 7) => match (r.wit(c, t[1]), fes(&t[2..7])) {
            (Some(s), Some(v)) => {
                let res = c.component_mul_generator(s, ext(&v)).map(|p| p.into());
                r.handle_pt(idx, res);
            }
            _ => bad!("bad mulgen"),
        },
        _ => bad!(&format!("unknown op {}", t[0])),
    }
}

pub fn run_prog(c: &mut Composer, src: &str) -> Run {
    let mut r = Run::new();
    dusk_plonk::verif::set_host_view(None);
    for (idx, op) in src.split(';').enumerate() {
        let toks: Vec<&str> = op.split(' ').filter(|s| !s.is_empty()).collect();
        exec_op(&mut r, c, idx, &toks);
    }
    dusk_plonk::verif::set_host_view(None);
    r
}

pub fn summary(c: &Composer, r: &Run) -> String {
    if let Some(m) = &r.bad {
        return format!("bad-op {}", m);
    }
    let s = c.verif_snapshot();
    let mut hg = Hasher::new();
    for (q, w) in &s.gates {
        for x in q {
            hg.push(x);
        }
        for x in w {
            hg.push_u64(*x as u64);
        }
    }
    let mut hw = Hasher::new();
    for x in &s.witnesses {
        hw.push(x);
    }
    let mut hp = Hasher::new();
    for (i, x) in &s.public_inputs {
        hp.push_u64(*i as u64);
        hp.push(x);
    }
    let mut hpr = Hasher::new();
    for (i, _) in &s.public_inputs {
        hpr.push_u64(*i as u64);
    }
    let mut hr = Hasher::new();
    for x in &r.rets {
        hr.push_u64(*x);
    }
    let mut rv = Hasher::new();
    for w in &r.regs {
        rv.push(&s.witnesses[w.index()]);
    }
    let errs: Vec<String> = r.errs.iter().map(|(i, e)| format!("{}:{}", i, e)).collect();
    format!(
        "gates={} wit={} pis={} hg={} hw={} hp={} hpr={} hr={} rv={} errs=[{}]",
        s.gates.len(),
        s.witnesses.len(),
        s.public_inputs.len(),
        hg.hex(),
        hw.hex(),
        hp.hex(),
        hpr.hex(),
        hr.hex(),
        rv.hex(),
        errs.join(",")
    )
}

pub fn dump(c: &Composer, r: &Run) -> String {
    if let Some(m) = &r.bad {
        return format!("bad-op {}", m);
    }
    let s = c.verif_snapshot();
    let gs: Vec<String> = s
        .gates
        .iter()
        .map(|(q, w)| {
            let mut items: Vec<String> = q.iter().map(fe_hex).collect();
            items.extend(w.iter().map(|x| format!("{:x}", x)));
            items.join(",")
        })
        .collect();
    let ws: Vec<String> = s.witnesses.iter().map(fe_hex).collect();
    let ps: Vec<String> = s.public_inputs.iter().map(|(i, x)| format!("{}:{}", i, fe_hex(x))).collect();
    let rs: Vec<String> = r.rets.iter().map(|x| x.to_string()).collect();
    format!("G {} W {} P {} R {}", gs.join("|"), ws.join(","), ps.join(","), rs.join(","))
}

thread_local! {
    /// program used by `ProgCircuit::default()` (the `Circuit` trait compiles / compresses the default instance)
    pub static DEFAULT_SRC: std::cell::RefCell<String> = const { std::cell::RefCell::new(String::new()) };
}

/// A circuit that replays a program.
#[derive(Clone)]
pub struct ProgCircuit {
    pub src: String,
}

impl Default for ProgCircuit {
    fn default() -> Self {
        ProgCircuit { src: DEFAULT_SRC.with(|s| s.borrow().clone()) }
    }
}

impl Circuit for ProgCircuit {
    fn circuit(&self, composer: &mut Composer) -> Result<(), Error> {
        let r = run_prog(composer, &self.src);
        if r.bad.is_some() {
            return Err(Error::InvalidCompressedCircuit);
        }
        Ok(())
    }
}

/// 256-bit big-endian hex -> little-endian bytes
fn hex_bytes32_le(h: &str) -> Option<[u8; 32]> {
    if h.len() > 64 || h.is_empty() {
        return None;
    }
    let padded = format!("{:0>64}", h);
    let mut out = [0u8; 32];
    for i in 0..32 {
        out[31 - i] = u8::from_str_radix(&padded[2 * i..2 * i + 2], 16).ok()?;
    }
    Some(out)
}
