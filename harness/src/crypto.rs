//! transcript / BLS12-381 front end (mirrors Plonk/Driver/Crypto.lean)
use dusk_bls12_381::{BlsScalar, G1Affine, G2Affine};
use dusk_bytes::Serializable;
use merlin::Transcript;

use crate::util::*;

fn leak(b: Vec<u8>) -> &'static [u8] {
    Box::leak(b.into_boxed_slice())
}

pub fn g1_from_hex(h: &str) -> Option<G1Affine> {
    let b = hex_bytes(h)?;
    let a: [u8; 48] = b.try_into().ok()?;
    G1Affine::from_bytes(&a).ok()
}

pub fn answer(t: &[&str]) -> String {
    match t[0] {
        "tr" => {
            let mut tr: Option<Transcript> = None;
            let mut outs = vec![];
            for op in &t[1..] {
                let parts: Vec<&str> = op.split(':').collect();
                match (parts[0], parts.len()) {
                    ("new", 2) => match hex_bytes(parts[1]) {
                        Some(l) => tr = Some(Transcript::new(leak(l))),
                        None => return "bad-request".into(),
                    },
                    ("msg", 3) => match (hex_bytes(parts[1]), hex_bytes(parts[2]), tr.as_mut()) {
                        (Some(l), Some(m), Some(tr)) => tr.append_message(leak(l), &m),
                        _ => return "bad-request".into(),
                    },
                    ("u64", 3) => match (hex_bytes(parts[1]), parts[2].parse::<u64>().ok(), tr.as_mut()) {
                        (Some(l), Some(n), Some(tr)) => tr.append_u64(leak(l), n),
                        _ => return "bad-request".into(),
                    },
                    ("ch", 3) => match (hex_bytes(parts[1]), parts[2].parse::<usize>().ok(), tr.as_mut()) {
                        (Some(l), Some(n), Some(tr)) => {
                            let mut buf = vec![0u8; n];
                            tr.challenge_bytes(leak(l), &mut buf);
                            outs.push(if buf.is_empty() { "-".to_string() } else { bytes_hex(&buf) });
                        }
                        _ => return "bad-request".into(),
                    },
                    _ => return "bad-request".into(),
                }
            }
            outs.join(" ")
        }
        "g1dec" if t.len() == 2 => match hex_bytes(t[1]).and_then(|b| <[u8; 48]>::try_from(b).ok()) {
            Some(a) => match G1Affine::from_bytes(&a) {
                Ok(p) => format!("ok {}", bytes_hex(&p.to_bytes())),
                Err(_) => "err".into(),
            },
            None => "err".into(),
        },
        "g2dec" if t.len() == 2 => match hex_bytes(t[1]).and_then(|b| <[u8; 96]>::try_from(b).ok()) {
            Some(a) => match G2Affine::from_bytes(&a) {
                Ok(p) => format!("ok {}", bytes_hex(&p.to_bytes())),
                Err(_) => "err".into(),
            },
            None => "err".into(),
        },
        "g1mul" if t.len() == 3 => match (fe_from_hex(t[1]), g1_from_hex(t[2])) {
            (Some(k), Some(p)) => bytes_hex(&G1Affine::from(p * k).to_bytes()),
            (Some(_), None) => "err".into(),
            _ => "bad-request".into(),
        },
        "g1add" if t.len() == 3 => match (g1_from_hex(t[1]), g1_from_hex(t[2])) {
            (Some(p), Some(q)) => bytes_hex(&G1Affine::from(dusk_bls12_381::G1Projective::from(p) + q).to_bytes()),
            _ => "err".into(),
        },
        "g2mul" if t.len() == 3 => {
            let p = hex_bytes(t[2]).and_then(|b| <[u8; 96]>::try_from(b).ok()).and_then(|a| G2Affine::from_bytes(&a).ok());
            match (fe_from_hex(t[1]), p) {
                (Some(k), Some(p)) => bytes_hex(&G2Affine::from(p * k).to_bytes()),
                (Some(_), None) => "err".into(),
                _ => "bad-request".into(),
            }
        }
        _ => "bad-request".into(),
    }
}

#[allow(dead_code)]
pub fn scalar_hex_le(x: &BlsScalar) -> String {
    bytes_hex(&x.to_bytes())
}
