mod crypto;
mod dispatch;
mod emit;
mod kernels;
mod kzg;
mod prog;
mod util;

use std::alloc::{GlobalAlloc, Layout, System};
use std::io::{BufRead, Write};
use std::sync::atomic::{AtomicUsize, Ordering};
use std::panic::{AssertUnwindSafe, catch_unwind};
use std::sync::OnceLock;

use dusk_plonk::prelude::*;

use prog::*;
use util::*;

pub const SRS_SEED: u64 = 0x5eed_0001;

/// counting allocator: live bytes and high-water mark (reset per request)
pub struct Counting;
pub static LIVE: AtomicUsize = AtomicUsize::new(0);
pub static PEAK: AtomicUsize = AtomicUsize::new(0);
unsafe impl GlobalAlloc for Counting {
    unsafe fn alloc(&self, l: Layout) -> *mut u8 {
        let p = unsafe { System.alloc(l) };
        if !p.is_null() {
            let v = LIVE.fetch_add(l.size(), Ordering::Relaxed) + l.size();
            PEAK.fetch_max(v, Ordering::Relaxed);
        }
        p
    }
    unsafe fn dealloc(&self, p: *mut u8, l: Layout) {
        LIVE.fetch_sub(l.size(), Ordering::Relaxed);
        unsafe { System.dealloc(p, l) }
    }
}
#[global_allocator]
static GLOBAL: Counting = Counting;

pub fn peak_during<T>(f: impl FnOnce() -> T) -> (T, usize) {
    let base = LIVE.load(Ordering::Relaxed);
    PEAK.store(base, Ordering::Relaxed);
    let r = f();
    (r, PEAK.load(Ordering::Relaxed).saturating_sub(base))
}

fn pp(cap: usize) -> &'static PublicParameters {
    static PP: OnceLock<PublicParameters> = OnceLock::new();
    PP.get_or_init(|| {
        let mut rng = ScriptRng::seeded(SRS_SEED);
        PublicParameters::setup(cap, &mut rng).expect("srs")
    })
}

fn err_name(e: &Error) -> String {
    match e {
        Error::CircuitUnsatisfied => "unsat".into(),
        Error::InvalidCircuitSize(_, _) => "sizeerr".into(),
        Error::ProofVerificationError => "verifyerr".into(),
        Error::PairingCheckFailure => "pairingerr".into(),
        other => format!("err:{:?}", other).replace(' ', "_"),
    }
}

fn prog_line(src: &str, prove: bool, cap: usize) -> String {
    let shape = catch_unwind(AssertUnwindSafe(|| {
        let mut c = Composer::initialized();
        let r = run_prog(&mut c, src);
        (summary(&c, &r), r.bad.is_some(), c.constraints())
    }));
    let (sum, bad, _n) = match shape {
        Ok(x) => x,
        Err(_) => return "panic".to_string(),
    };
    if bad || !prove {
        return sum;
    }
    let res = catch_unwind(AssertUnwindSafe(|| {
        let circuit = ProgCircuit { src: src.to_string() };
        let (prover, verifier) = match Compiler::compile_with_circuit(pp(cap), b"verif", &circuit) {
            Ok(x) => x,
            Err(e) => return format!("compile={}", err_name(&e)),
        };
        let mut rng = ScriptRng::seeded(7);
        match prover.prove(&mut rng, &circuit) {
            Ok((proof, pis)) => match verifier.verify(&proof, &pis) {
                Ok(()) => "prove=ok verify=ok".to_string(),
                Err(e) => format!("prove=ok verify={}", err_name(&e)),
            },
            Err(e) => format!("prove={}", err_name(&e)),
        }
    }));
    match res {
        Ok(s) => format!("{} {}", sum, s),
        Err(_) => format!("{} prove=panic", sum),
    }
}

fn prog2_line(rest: &str, cap: usize) -> String {
    let parts: Vec<&str> = rest.split("||").collect();
    if parts.len() != 2 {
        return "bad-request".into();
    }
    let (a, b) = (parts[0].trim(), parts[1].trim());
    let res = catch_unwind(AssertUnwindSafe(|| {
        let mut c = Composer::initialized();
        let r = run_prog(&mut c, a);
        let mut cb = Composer::initialized();
        let rb = run_prog(&mut cb, b);
        if r.bad.is_some() || rb.bad.is_some() {
            return "bad-op".to_string();
        }
        let sum = summary(&c, &r);
        let ca = ProgCircuit { src: a.to_string() };
        let cbc = ProgCircuit { src: b.to_string() };
        let (prover, verifier) = match Compiler::compile_with_circuit(pp(cap), b"verif", &ca) {
            Ok(x) => x,
            Err(e) => return format!("{} compile={}", sum, err_name(&e)),
        };
        let mut rng = ScriptRng::seeded(7);
        match prover.prove(&mut rng, &cbc) {
            Ok((proof, pis)) => match verifier.verify(&proof, &pis) {
                Ok(()) => format!("{} prove=ok verify=ok", sum),
                Err(e) => format!("{} prove=ok verify={}", sum, err_name(&e)),
            },
            Err(e) => format!("{} prove={}", sum, err_name(&e)),
        }
    }));
    res.unwrap_or_else(|_| "panic".to_string())
}

fn answer(line: &str, cap: usize) -> String {
    let line = line.trim();
    let (cmd, rest) = match line.split_once(' ') {
        Some(x) => x,
        None => (line, ""),
    };
    match cmd {
        "prog" => prog_line(rest, true, cap),
        "shape" => prog_line(rest, false, cap),
        "cmpsnap" => catch_unwind(AssertUnwindSafe(|| emit::cmpsnap_line(rest))).unwrap_or_else(|_| "panic".to_string()),
        "cmpdec" => catch_unwind(AssertUnwindSafe(|| emit::cmpdec_line(rest))).unwrap_or_else(|_| "panic".to_string()),
        "maxcons" => catch_unwind(AssertUnwindSafe(|| emit::maxcons_line(rest))).unwrap_or_else(|_| "panic".to_string()),
        "prog2" => prog2_line(rest, cap),
        "dump" => {
            let r = catch_unwind(AssertUnwindSafe(|| {
                let mut c = Composer::initialized();
                let r = run_prog(&mut c, rest);
                dump(&c, &r)
            }));
            r.unwrap_or_else(|_| "panic".to_string())
        }
        "fft" | "domain" | "elements" | "poly" | "polyscaled" | "binv" | "lagrange" | "vanish" | "vcoset" | "mlin"
        | "mvan" | "bary" | "lpi" => {
            let toks: Vec<&str> = line.split(' ').filter(|s| !s.is_empty()).collect();
            catch_unwind(AssertUnwindSafe(|| kernels::answer(&toks))).unwrap_or_else(|_| "panic".to_string())
        }
        c if c.starts_with("kzg") => {
            let toks: Vec<&str> = line.split(' ').filter(|s| !s.is_empty()).collect();
            catch_unwind(AssertUnwindSafe(|| kzg::answer(&toks))).unwrap_or_else(|_| "panic".to_string())
        }
        "proverdec" | "ckraw" | "ppdec" | "evalsdec" | "proveruse" => {
            let (r, peak) = peak_during(|| catch_unwind(AssertUnwindSafe(|| emit::codec_line(line))).unwrap_or_else(|_| "panic".to_string()));
            format!("{} peak={}", r, peak)
        }
        "concprove" => catch_unwind(AssertUnwindSafe(|| emit::concprove_line(line))).unwrap_or_else(|_| "panic".to_string()),
        "provefail" => {
            // `provefail <k> prove ...`: the caller's RNG fails after k draws; no proof may come out for k < 14
            let mut it = line.splitn(3, ' ');
            let (_, k, rest) = (it.next(), it.next().and_then(|k| k.parse::<usize>().ok()), it.next());
            match (k, rest) {
                (Some(k), Some(rest)) => {
                    util::RNG_BUDGET.with(|b| b.set(Some(k)));
                    let r = catch_unwind(AssertUnwindSafe(|| emit::prove_line(rest))).unwrap_or_else(|_| "panic".to_string());
                    util::RNG_BUDGET.with(|b| b.set(None));
                    r
                }
                _ => "bad-request".to_string(),
            }
        }
        "prove" => catch_unwind(AssertUnwindSafe(|| emit::prove_line(line))).unwrap_or_else(|_| "panic".to_string()),
        "vchals" => {
            let toks: Vec<&str> = line.split(' ').filter(|s| !s.is_empty()).collect();
            catch_unwind(AssertUnwindSafe(|| emit::vchals_line(&toks))).unwrap_or_else(|_| "panic".to_string())
        }
        "verify" | "vroundtrip" | "proofdec" => {
            let toks: Vec<&str> = line.split(' ').filter(|s| !s.is_empty()).collect();
            let (r, peak) = peak_during(|| {
                catch_unwind(AssertUnwindSafe(|| match toks[0] {
                    "verify" => emit::verify_line(&toks),
                    "vroundtrip" => emit::vroundtrip_line(&toks),
                    _ => emit::proofdec_line(&toks),
                }))
                .unwrap_or_else(|_| "panic".to_string())
            });
            if toks[0] == "verify" { r } else { format!("{} peak={}", r, peak) }
        }
        "tr" | "g1dec" | "g2dec" | "g1mul" | "g1add" | "g2mul" => {
            let toks: Vec<&str> = line.split(' ').filter(|s| !s.is_empty()).collect();
            catch_unwind(AssertUnwindSafe(|| crypto::answer(&toks))).unwrap_or_else(|_| "panic".to_string())
        }
        _ => "bad-request".to_string(),
    }
}

fn main() {
    let args: Vec<String> = std::env::args().collect();
    let cap: usize = std::env::var("VERIF_SRS_CAP").ok().and_then(|s| s.parse().ok()).unwrap_or(1 << 12);
    std::panic::set_hook(Box::new(|_| {}));
    match args.get(1).map(|s| s.as_str()) {
        Some("run") | None => {
            let stdin = std::io::stdin();
            let stdout = std::io::stdout();
            let mut out = stdout.lock();
            for line in stdin.lock().lines() {
                let line = line.expect("stdin");
                if line.trim().is_empty() {
                    continue;
                }
                writeln!(out, "{}", answer(&line, cap)).unwrap();
            }
        }
        Some("encodings") => {
            for l in std::io::stdin().lock().lines() {
                for o in emit::encodings(&l.expect("stdin")) {
                    println!("{}", o);
                }
            }
        }
        Some("compress") => {
            for l in std::io::stdin().lock().lines() {
                let l = l.expect("stdin");
                println!("{}", emit::compress_hex(&l).unwrap_or_else(|| "err".into()));
            }
        }
        Some("emitv") | Some("emitforced") => {
            // args: emitv <seed> <budget>; programs on stdin
            let seed: u64 = args.get(2).and_then(|s| s.parse().ok()).unwrap_or(1);
            let budget: usize = args.get(3).and_then(|s| s.parse().ok()).unwrap_or(64);
            let lines: Vec<String> = std::io::stdin().lock().lines().map(|l| l.expect("stdin")).collect();
            let outs = if args[1] == "emitv" { emit::emit(pp(cap), seed, budget, &lines) } else { emit::emit_forced(pp(cap), seed, &lines) };
            let stdout = std::io::stdout();
            let mut out = stdout.lock();
            for l in outs {
                writeln!(out, "{}", l).unwrap();
            }
        }
        Some(other) => {
            eprintln!("unknown command {}", other);
            std::process::exit(2);
        }
    }
}
