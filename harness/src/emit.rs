//! Generation of verifier requests from real proofs (C02/C03/C04/C16) and the `verify` command.
use dusk_bls12_381::{BlsScalar, G1Affine};
use dusk_bytes::{DeserializableSlice, Serializable};
use dusk_plonk::prelude::*;
use ff::Field;

use crate::kernels::{parse_list, show_list};
use crate::prog::ProgCircuit;
use crate::util::*;

pub fn err_kind(e: &Error) -> String {
    match e {
        Error::NotEnoughBytes => "err:verifier-NotEnoughBytes".into(),
        Error::BytesError(_) => "err:verifier-invalid".into(),
        Error::InvalidEvalDomainSize { .. } => "err:verifier-domain".into(),
        Error::InconsistentPublicInputsLen { .. } => "err:pilen".into(),
        Error::ProofVerificationError => "err:verify".into(),
        other => format!("err:other:{:?}", other).replace(' ', "_"),
    }
}

fn version(s: &str) -> Option<PlonkVersion> {
    match s {
        "1" => Some(PlonkVersion::V1),
        "2" => Some(PlonkVersion::V2),
        "3" => Some(PlonkVersion::V3),
        _ => None,
    }
}

/// `verify <ver> <x> <verifier-hex> <pis> <proof-hex>`
pub fn verify_line(t: &[&str]) -> String {
    if t.len() != 6 {
        return "bad-request".into();
    }
    let (ver, vb, pis, pb) = match (version(t[1]), hex_bytes(t[3]), parse_list(t[4]), hex_bytes(t[5])) {
        (Some(a), Some(b), Some(c), Some(d)) => (a, b, c, d),
        _ => return "bad-request".into(),
    };
    let verifier = match Verifier::try_from_bytes(&vb) {
        Ok(v) => v,
        Err(e) => return err_kind(&e),
    };
    let proof = match Proof::from_slice(&pb) {
        Ok(p) => p,
        Err(_) => return "err:proof-decode".into(),
    };
    let canon = if proof.to_bytes()[..] == pb[..1008.min(pb.len())] { "" } else { " NONCANONICAL" };
    match verifier.verify_with_version(&proof, &pis, ver) {
        Ok(()) => format!("ok{}", canon),
        Err(e) => format!("{}{}", err_kind(&e), if matches!(e, Error::ProofVerificationError) { canon } else { "" }),
    }
}

/// `vchals <ver> <x> <vhex> <pis> <phex>`: the challenges the REAL verifier derives for this statement and proof (hook
/// `verif::take_verifier_challenges`): alpha beta gamma range logic fixed var z v vw u
pub fn vchals_line(t: &[&str]) -> String {
    let _ = dusk_plonk::verif::take_verifier_challenges();
    let r = verify_line(t);
    match dusk_plonk::verif::take_verifier_challenges() {
        Some(c) => {
            let names = ["alpha", "beta", "gamma", "rsep", "lsep", "fsep", "vsep", "z", "v", "vw", "u"];
            let kv: Vec<String> = names.iter().zip(c.iter()).map(|(n, x)| format!("{}={}", n, fe_hex(x))).collect();
            format!("{} {}", kv.join(" "), r.replace(' ', "_"))
        }
        None => format!("none {}", r.replace(' ', "_")),
    }
}

pub fn vroundtrip_line(t: &[&str]) -> String {
    match hex_bytes(t[1]).map(|b| Verifier::try_from_bytes(&b)) {
        Some(Ok(v)) => format!("ok {}", bytes_hex(&v.to_bytes())),
        Some(Err(e)) => err_kind(&e),
        None => "bad-request".into(),
    }
}

pub fn proofdec_line(t: &[&str]) -> String {
    match hex_bytes(t[1]).map(|b| Proof::from_slice(&b)) {
        Some(Ok(p)) => format!("ok {}", bytes_hex(&p.to_bytes())),
        Some(Err(_)) => "err".into(),
        None => "bad-request".into(),
    }
}

/// the trapdoor of the harness SRS: first non-zero scalar drawn by `PublicParameters::setup`
pub fn srs_trapdoor(seed: u64) -> BlsScalar {
    let mut rng = ScriptRng::seeded(seed);
    loop {
        let s = BlsScalar::random(&mut rng);
        if s != BlsScalar::zero() {
            return s;
        }
    }
}

pub struct Compiled {
    pub prover: Prover,
    pub verifier: Verifier,
    pub circuit: ProgCircuit,
    pub label: Vec<u8>,
}

pub fn compile(pp: &PublicParameters, label: &[u8], src: &str) -> Result<Compiled, Error> {
    let circuit = ProgCircuit { src: src.to_string() };
    let (prover, verifier) = Compiler::compile_with_circuit(pp, label, &circuit)?;
    Ok(Compiled { prover, verifier, circuit, label: label.to_vec() })
}

fn vline(ver: u8, x: &BlsScalar, verifier: &[u8], pis: &[BlsScalar], proof: &[u8], tag: &str) -> String {
    format!("{} verify {} {} {} {} {}", tag, ver, fe_hex(x), bytes_hex(verifier), show_list(pis), bytes_hex(proof))
}

/// Emit tagged verify requests. stdin lines: `<mode> <label-hex> || <prog>`; output lines: `<tag> verify …`
/// where `<tag>` is `expect-ok:<what>` or `expect-reject:<what>` or `any:<what>`.
pub fn emit(pp: &PublicParameters, seed: u64, budget: usize, lines: &[String]) -> Vec<String> {
    let x = srs_trapdoor(crate::SRS_SEED);
    let mut sm = SplitMix(seed);
    let mut out = vec![];
    let mut compiled: Vec<(String, Compiled, Vec<u8>, Vec<BlsScalar>, Vec<u8>)> = vec![];
    for l in lines {
        let (head, src) = match l.split_once("||") {
            Some(x) => x,
            None => continue,
        };
        let h: Vec<&str> = head.split_whitespace().collect();
        if h.len() != 2 {
            continue;
        }
        let label = hex_bytes(h[1]).unwrap_or_default();
        let c = match compile(pp, &label, src.trim()) {
            Ok(c) => c,
            Err(_) => continue,
        };
        let mut rng = ScriptRng::seeded(sm.next());
        let (proof, pis) = match c.prover.prove(&mut rng, &c.circuit) {
            Ok(x) => x,
            Err(_) => continue,
        };
        let vb = c.verifier.to_bytes();
        let pb = proof.to_bytes().to_vec();
        compiled.push((h[0].to_string(), c, vb, pis, pb));
    }
    let n = compiled.len();
    for i in 0..n {
        let (mode, c, vb, pis, pb) = &compiled[i];
        out.push(vline(3, &x, vb, pis, pb, "expect-ok:honest"));
        if mode.contains('b') {
            // single-bit flips of the proof bytes
            let total = pb.len() * 8;
            let count = budget.min(total);
            for k in 0..count {
                let bit = if count == total { k } else { (sm.next() as usize) % total };
                let mut m = pb.clone();
                m[bit / 8] ^= 1 << (bit % 8);
                out.push(vline(3, &x, vb, pis, &m, "expect-reject:bitflip"));
            }
        }
        if mode.contains('f') {
            // every field replaced by another valid element
            let g1gen = G1Affine::generator().to_bytes();
            let id = G1Affine::identity().to_bytes();
            for f in 0..11 {
                for (what, repl) in [("generator", g1gen.to_vec()), ("identity", id.to_vec()), ("other-commitment", pb[((f + 1) % 11) * 48..((f + 1) % 11 + 1) * 48].to_vec())] {
                    let mut m = pb.clone();
                    m[f * 48..(f + 1) * 48].copy_from_slice(&repl);
                    if m != *pb {
                        out.push(vline(3, &x, vb, pis, &m, &format!("expect-reject:commitment-{}-{}", f, what)));
                    }
                }
            }
            for f in 0..15 {
                let off = 11 * 48 + f * 32;
                for (what, v) in [("zero", BlsScalar::zero()), ("one", BlsScalar::one()), ("other-eval", BlsScalar::from_slice(&pb[11 * 48 + ((f + 1) % 15) * 32..11 * 48 + ((f + 1) % 15 + 1) * 32]).unwrap())] {
                    let mut m = pb.clone();
                    m[off..off + 32].copy_from_slice(&v.to_bytes());
                    if m != *pb {
                        out.push(vline(3, &x, vb, pis, &m, &format!("expect-reject:eval-{}-{}", f, what)));
                    }
                }
            }
            // degenerate proofs
            let mut allid = vec![];
            for _ in 0..11 {
                allid.extend_from_slice(&id);
            }
            allid.extend_from_slice(&[0u8; 15 * 32]);
            out.push(vline(3, &x, vb, pis, &allid, "expect-reject:all-identity-zero-proof"));
        }
        if mode.contains('x') {
            // proofs presented to the verifiers of the other circuits / labels in this batch
            for j in 0..n {
                if j != i && compiled[j].2 != *vb {
                    out.push(vline(3, &x, &compiled[j].2, pis, pb, "expect-reject:other-verifier"));
                    if compiled[j].3 != *pis {
                        // ... and with that verifier's own public-input vector (e.g. one more, zero-valued, public input)
                        out.push(vline(3, &x, &compiled[j].2, &compiled[j].3, pb, "expect-reject:other-verifier-own-pis"));
                    }
                }
            }
        }
        if mode.contains('p') {
            // public-input vector mutations
            for k in 0..pis.len() {
                for (what, v) in [("zero", BlsScalar::zero()), ("one", BlsScalar::one()), ("neg", -pis[k]), ("plus1", pis[k] + BlsScalar::one()), ("random", BlsScalar::from(sm.next()))] {
                    if v != pis[k] {
                        let mut m = pis.clone();
                        m[k] = v;
                        out.push(vline(3, &x, vb, &m, pb, &format!("expect-reject:pi-{}-{}", k, what)));
                    }
                }
                if k + 1 < pis.len() && pis[k] != pis[k + 1] {
                    let mut m = pis.clone();
                    m.swap(k, k + 1);
                    out.push(vline(3, &x, vb, &m, pb, "expect-reject:pi-swap"));
                }
            }
            for k in 0..pis.len() {
                out.push(vline(3, &x, vb, &pis[..k], pb, "expect-reject:pi-truncated"));
            }
            let mut m = pis.clone();
            m.push(BlsScalar::zero());
            out.push(vline(3, &x, vb, &m, pb, "expect-reject:pi-extended"));
            m.push(BlsScalar::one());
            out.push(vline(3, &x, vb, &m, pb, "expect-reject:pi-extended"));
            // longer extensions (also for circuits WITHOUT public inputs: every non-empty vector is a wrong statement)
            let mut m = pis.clone();
            m.push(BlsScalar::from(sm.next()));
            out.push(vline(3, &x, vb, &m, pb, "expect-reject:pi-extended"));
            for _ in 0..3 {
                m.push(BlsScalar::from(sm.next()));
            }
            out.push(vline(3, &x, vb, &m, pb, "expect-reject:pi-extended"));
            for vv in [1u8, 2u8] {
                let mut m = pis.clone();
                m.push(BlsScalar::zero());
                out.push(vline(vv, &x, vb, &m, pb, "expect-reject:pi-extended-other-version"));
            }
            if pis.len() > 1 {
                let mut m = pis.clone();
                m.rotate_left(1);
                if m != *pis {
                    out.push(vline(3, &x, vb, &m, pb, "expect-reject:pi-rotated"));
                }
            }
        }
        if mode.contains('v') {
            // version matrix: V3 and V2 proofs against every verifier version
            for pv in [3u8, 2u8] {
                let mut rng = ScriptRng::seeded(sm.next());
                let ver = if pv == 3 { PlonkVersion::V3 } else { PlonkVersion::V2 };
                if let Ok((proof, pis2)) = c.prover.prove_with_version(&mut rng, &c.circuit, ver) {
                    let pb2 = proof.to_bytes();
                    for vv in [1u8, 2u8, 3u8] {
                        // V2 proofs use the V2 transcript and the current equation: accepted exactly by V2
                        let tag = if vv == pv { "expect-ok:version-match" } else { "expect-reject:version-mismatch" };
                        out.push(vline(vv, &x, vb, &pis2, &pb2, &format!("{}-p{}-v{}", tag, pv, vv)));
                    }
                }
            }
        }
        if mode.contains('s') {
            // field-wise splices of two valid proofs of the same circuit
            let mut rng = ScriptRng::seeded(sm.next());
            if let Ok((p2, _)) = c.prover.prove(&mut rng, &c.circuit) {
                let pb2 = p2.to_bytes();
                for f in 0..26 {
                    let (off, len) = if f < 11 { (f * 48, 48) } else { (11 * 48 + (f - 11) * 32, 32) };
                    let mut m = pb.clone();
                    m[off..off + len].copy_from_slice(&pb2[off..off + len]);
                    if m != *pb {
                        out.push(vline(3, &x, vb, pis, &m, &format!("expect-reject:splice-field-{}", f)));
                    }
                }
                // half / half
                let mut m = pb.clone();
                m[..5 * 48].copy_from_slice(&pb2[..5 * 48]);
                out.push(vline(3, &x, vb, pis, &m, "expect-reject:splice-half"));
            }
        }
    }
    out
}

/// forced proofs: `forced <label-hex> || <honest prog> || <violating prog>`: keys compiled from the honest program,
/// proof produced from the violating instance with the unsatisfied-circuit check switched off
pub fn emit_forced(pp: &PublicParameters, seed: u64, lines: &[String]) -> Vec<String> {
    let x = srs_trapdoor(crate::SRS_SEED);
    let mut sm = SplitMix(seed);
    let mut out = vec![];
    for l in lines {
        let parts: Vec<&str> = l.split("||").collect();
        if parts.len() != 3 {
            continue;
        }
        let h: Vec<&str> = parts[0].split_whitespace().collect();
        if h.len() != 2 {
            continue;
        }
        let label = hex_bytes(h[1]).unwrap_or_default();
        let c = match compile(pp, &label, parts[1].trim()) {
            Ok(c) => c,
            Err(_) => continue,
        };
        let bad = ProgCircuit { src: parts[2].trim().to_string() };
        let mut rng = ScriptRng::seeded(sm.next());
        // sanity: without forcing the prover must refuse
        let refused = c.prover.prove(&mut rng, &bad).is_err();
        dusk_plonk::verif::set_force_prove(true);
        let mut rng = ScriptRng::seeded(sm.next());
        let res = std::panic::catch_unwind(std::panic::AssertUnwindSafe(|| c.prover.prove(&mut rng, &bad)));
        dusk_plonk::verif::set_force_prove(false);
        if let Ok(Ok((proof, pis))) = res {
            // every instance sent here violates its circuit (the generator constructs them so): the verifier must reject
            // whether or not the prover noticed
            let tag = if refused { "expect-reject:forced-proof" } else { "expect-reject:violating-instance-prover-did-not-refuse" };
            out.push(vline(3, &x, &c.verifier.to_bytes(), &pis, &proof.to_bytes(), tag));
        }
    }
    out
}

/// `prove <deg> <d1> <d2> <d3> <label> <14 draws> <version> || <progA> || <progB>`
pub fn prove_line(line: &str) -> String {
    let parts: Vec<&str> = line.split("||").collect();
    if parts.len() != 3 {
        return "bad-request".into();
    }
    let h: Vec<&str> = parts[0].split_whitespace().collect();
    if h.len() != 8 && h.len() != 9 {
        return "bad-request".into();
    }
    let routes = h.len() == 9 && h[8] == "routes";
    let pp = match crate::kzg::setup(h[1], &h[2..5]) {
        Some(Ok(pp)) => pp,
        Some(Err(e)) => return format!("err:srs:{:?}", e),
        None => return "bad-request".into(),
    };
    let label = match hex_bytes(h[5]) {
        Some(l) => l,
        None => return "bad-request".into(),
    };
    let draws: Option<Vec<Vec<u8>>> = h[6].split(',').map(|d| hex_bytes(d).filter(|b| b.len() == 64)).collect();
    let (draws, ver) = match (draws, version(h[7])) {
        (Some(d), Some(v)) => (d, v),
        _ => return "bad-request".into(),
    };
    let ca = ProgCircuit { src: parts[1].trim().to_string() };
    let cb = ProgCircuit { src: parts[2].trim().to_string() };
    let (prover, verifier) = match Compiler::compile_with_circuit(&pp, &label, &ca) {
        Ok(x) => x,
        Err(e) => {
            let base = format!("err:compile:{:?}", e).split('(').next().unwrap().to_string();
            if routes {
                // both routes must fail for the same capacities
                crate::prog::DEFAULT_SRC.with(|s| *s.borrow_mut() = parts[1].trim().to_string());
                let cmp = match <ProgCircuit as Circuit>::compress() {
                    Ok(bytes) => match Compiler::compile_with_compressed(&pp, &label, &bytes) {
                        Ok(_) => "succeeded",
                        Err(_) => "ok",
                    },
                    Err(_) => "ok",
                };
                return format!("{} cmp={}", base, cmp);
            }
            return base;
        }
    };
    let vb = verifier.to_bytes();
    // implementation-vs-property (C15), independent of whether the instance proves: the keys compiled from the compressed
    // description are the keys compiled directly
    let cmp_early = if routes {
        crate::prog::DEFAULT_SRC.with(|s| *s.borrow_mut() = parts[1].trim().to_string());
        match <ProgCircuit as Circuit>::compress() {
            Ok(bytes) => match Compiler::compile_with_compressed(&pp, &label, &bytes) {
                Ok((p2, v2)) => {
                    if p2.to_bytes() == prover.to_bytes() && v2.to_bytes() == vb { " cmp=ok".to_string() } else { " cmp=differ".to_string() }
                }
                Err(e) => format!(" cmp=err:{:?}", e).replace(' ', "_").replacen('_', " ", 1),
            },
            Err(e) => format!(" cmp=err:{:?}", e).replace(' ', "_").replacen('_', " ", 1),
        }
    } else {
        String::new()
    };
    let mut hsh = Hasher::new();
    for b in &vb {
        hsh.push_u64(*b as u64);
    }
    let vh = hsh.hex();
    let mut rng = ScriptRng::scripted(0xabc, draws.clone());
    match prover.prove_with_version(&mut rng, &cb, ver) {
        Ok((proof, pis)) => {
            let mut extra = String::new();
            if routes {
                // implementation-vs-property: the same keys from the compressed description and from bytes
                let own = match verifier.verify_with_version(&proof, &pis, ver) {
                    Ok(()) => "ok".to_string(),
                    Err(e) => format!("{:?}", e).replace(' ', "_"),
                };
                crate::prog::DEFAULT_SRC.with(|s| *s.borrow_mut() = parts[1].trim().to_string());
                let cmp = match <ProgCircuit as Circuit>::compress() {
                    Ok(bytes) => match Compiler::compile_with_compressed(&pp, &label, &bytes) {
                        Ok((p2, v2)) => {
                            if p2.to_bytes() == prover.to_bytes() && v2.to_bytes() == vb { "ok".to_string() } else { "differ".to_string() }
                        }
                        Err(e) => format!("err:{:?}", e).replace(' ', "_"),
                    },
                    Err(e) => format!("err:{:?}", e).replace(' ', "_"),
                };
                let ser = match (Prover::try_from_bytes(prover.to_bytes()), Verifier::try_from_bytes(&vb)) {
                    (Ok(p3), Ok(v3)) => {
                        let mut rng3 = ScriptRng::scripted(0xabc, draws.clone());
                        match p3.prove_with_version(&mut rng3, &cb, ver) {
                            Ok((proof3, pis3)) => {
                                // the decoded verifier takes the SAME decisions as the original one: accepts the honest proof,
                                // rejects it with a changed / truncated / extended public-input vector (when there are any)
                                let mut same_decisions = v3.verify_with_version(&proof, &pis, ver).is_ok()
                                    && verifier.verify_with_version(&proof3, &pis3, ver).is_ok();
                                let mut variants: Vec<Vec<BlsScalar>> = vec![];
                                if !pis.is_empty() {
                                    let mut m = pis.clone(); m[0] += BlsScalar::one(); variants.push(m);
                                    let mut m = pis.clone(); let l = m.len() - 1; m[l] += BlsScalar::one(); variants.push(m);
                                    variants.push(pis[..pis.len() - 1].to_vec());
                                }
                                let mut m = pis.clone(); m.push(BlsScalar::zero()); variants.push(m);
                                for m in &variants {
                                    if v3.verify_with_version(&proof, m, ver).is_ok() != verifier.verify_with_version(&proof, m, ver).is_ok() {
                                        same_decisions = false;
                                    }
                                }
                                if proof3.to_bytes() == proof.to_bytes() && pis3 == pis && v3.verify_with_version(&proof3, &pis3, ver).is_ok()
                                    && p3.to_bytes() == prover.to_bytes() && v3.to_bytes() == vb && same_decisions {
                                    "ok".to_string()
                                } else {
                                    "differ".to_string()
                                }
                            }
                            Err(e) => format!("err:{:?}", e).replace(' ', "_"),
                        }
                    }
                    (Err(e), _) | (_, Err(e)) => format!("err:{:?}", e).replace(' ', "_"),
                };
                extra = format!(" own={} cmp={} ser={}", own, cmp, ser);
            }
            format!("proof={} pis={} vh={} calls={}{}", bytes_hex(&proof.to_bytes()), show_list(&pis), vh, rng.calls, extra)
        }
        Err(Error::CircuitUnsatisfied) => format!("err:unsat vh={}{}", vh, cmp_early),
        Err(Error::InvalidCircuitSize(_, _)) => format!("err:sizeerr vh={}{}", vh, cmp_early),
        Err(Error::UnsupportedProvingVersion) => format!("err:UnsupportedProvingVersion vh={}", vh),
        Err(e) => format!("err:other:{:?} vh={}", e, vh).replace(' ', "_"),
    }
}

/// `cmpsnap <prog>`: compress the program's circuit, decompress it again, print the shape summary
pub fn cmpsnap_line(src: &str) -> String {
    crate::prog::DEFAULT_SRC.with(|s| *s.borrow_mut() = src.trim().to_string());
    let mut probe = Composer::initialized();
    let r = crate::prog::run_prog(&mut probe, src);
    if r.bad.is_some() {
        return "bad-op".into();
    }
    let bytes = match <ProgCircuit as Circuit>::compress() {
        Ok(b) => b,
        Err(e) => return format!("err:{:?}", e),
    };
    match Composer::verif_from_compressed(&bytes, probe.constraints()) {
        Ok(c) => {
            let r = crate::prog::run_prog(&mut Composer::initialized(), "");
            crate::prog::summary(&c, &r)
        }
        Err(e) => format!("err:{:?}", e),
    }
}

/// `cmpdec <max_constraints> <hex>`: decode an arbitrary payload; reports the peak allocation
pub fn cmpdec_line(rest: &str) -> String {
    let t: Vec<&str> = rest.split_whitespace().collect();
    if t.len() != 2 {
        return "bad-request".into();
    }
    let (max, bytes) = match (t[0].parse::<usize>().ok(), hex_bytes(t[1])) {
        (Some(m), Some(b)) => (m, b),
        _ => return "bad-request".into(),
    };
    let (res, peak) = crate::peak_during(|| Composer::verif_from_compressed(&bytes, max));
    match res {
        Ok(c) => {
            let r = crate::prog::run_prog(&mut Composer::initialized(), "");
            format!("ok {} peak={}", crate::prog::summary(&c, &r), peak)
        }
        Err(e) => format!("err:{:?} peak={}", e, peak).replace(' ', "_").replace("_peak", " peak"),
    }
}

/// `maxcons <deg> <d1> <d2> <d3>`: Compiler::max_constraints of a parameter set of the given degree
pub fn maxcons_line(rest: &str) -> String {
    let t: Vec<&str> = rest.split_whitespace().collect();
    if t.len() != 4 {
        return "bad-request".into();
    }
    match crate::kzg::setup(t[0], &t[1..4]) {
        Some(Ok(pp)) => format!("{} {}", pp.max_degree(), dusk_plonk::verif::max_constraints(&pp)),
        _ => "err".into(),
    }
}

/// compressed bytes of a program's circuit (hex), for the payload mutators
pub fn compress_hex(src: &str) -> Option<String> {
    crate::prog::DEFAULT_SRC.with(|s| *s.borrow_mut() = src.trim().to_string());
    <ProgCircuit as Circuit>::compress().ok().map(|b| bytes_hex(&b))
}

fn hash_bytes(b: &[u8]) -> String {
    let mut h = Hasher::new();
    for x in b {
        h.push_u64(*x as u64);
    }
    h.hex()
}

fn dec_err(e: &Error) -> String {
    match e {
        Error::NotEnoughBytes => "err:NotEnoughBytes".into(),
        Error::BytesError(_) => "err:InvalidData".into(),
        Error::PointMalformed => "err:PointMalformed".into(),
        Error::InvalidEvalDomainSize { .. } => "err:InvalidEvalDomainSize".into(),
        other => format!("err:other:{:?}", other).replace(' ', "_"),
    }
}

/// prover-side codec commands (mirrors `codecAnswer` in Plonk/Driver/Crypto.lean)
pub fn codec_line(line: &str) -> String {
    let t: Vec<&str> = line.split_whitespace().collect();
    match (t[0], t.len()) {
        ("proverdec", 2) => match hex_bytes(t[1]).map(|b| Prover::try_from_bytes(&b)) {
            Some(Ok(p)) => {
                let b = p.to_bytes();
                // n and commit-key length are read back from the re-encoding header
                format!("ok h={}", hash_bytes(&b))
            }
            Some(Err(e)) => dec_err(&e),
            None => "bad-request".into(),
        },
        ("ckraw", 2) => match hex_bytes(t[1]).map(|b| dusk_plonk::verif::commit_key_from_raw(&b)) {
            Some(Ok((raw, n))) => format!("ok h={} n={}", hash_bytes(&raw), n),
            Some(Err(e)) => dec_err(&e),
            None => "bad-request".into(),
        },
        ("ppdec", 2) => match hex_bytes(t[1]).map(|b| PublicParameters::from_slice(&b)) {
            Some(Ok(pp)) => {
                let b = pp.to_var_bytes();
                format!("ok h={} n={}", hash_bytes(&b), (b.len() - 240) / 48)
            }
            Some(Err(e)) => dec_err(&e),
            None => "bad-request".into(),
        },
        ("evalsdec", 2) => match hex_bytes(t[1]).map(|b| dusk_plonk::verif::evaluations_roundtrip(&b)) {
            Some(Ok((b, n))) => format!("ok h={} n={}", hash_bytes(&b), n),
            Some(Err(e)) => dec_err(&e),
            None => "bad-request".into(),
        },
        _ => {
            let parts: Vec<&str> = line.split("||").collect();
            let h: Vec<&str> = parts[0].split_whitespace().collect();
            if parts.len() != 2 || h.len() != 4 || h[0] != "proveruse" {
                return "bad-request".into();
            }
            let draws: Option<Vec<Vec<u8>>> = h[3].split(',').map(|d| hex_bytes(d).filter(|b| b.len() == 64)).collect();
            let (bytes, draws) = match (hex_bytes(h[2]), draws) {
                (Some(b), Some(d)) => (b, d),
                _ => return "bad-request".into(),
            };
            let prover = match Prover::try_from_bytes(&bytes) {
                Ok(p) => p,
                Err(e) => return dec_err(&e),
            };
            let c = ProgCircuit { src: parts[1].trim().to_string() };
            let mut rng = ScriptRng::scripted(0xabc, draws);
            match prover.prove(&mut rng, &c) {
                Ok((proof, pis)) => format!("proof={} pis={}", bytes_hex(&proof.to_bytes()), show_list(&pis)),
                Err(Error::CircuitUnsatisfied) => "err:unsat".into(),
                Err(Error::InvalidCircuitSize(_, _)) => "err:sizeerr".into(),
                Err(Error::PolynomialDegreeTooLarge) => "err:commit:PolynomialDegreeTooLarge".into(),
                Err(e) => format!("err:other:{:?}", e).replace(' ', "_"),
            }
        }
    }
}

/// valid encodings of everything the checked decoders read, for the mutators:
/// stdin: `<deg> <d1> <d2> <d3> <label-hex> || <prog>`; prints `prover|verifier|pp|ppraw|ckraw|proof <hex>` lines
pub fn encodings(line: &str) -> Vec<String> {
    let parts: Vec<&str> = line.split("||").collect();
    let h: Vec<&str> = parts[0].split_whitespace().collect();
    let mut out = vec![];
    if parts.len() != 2 || h.len() != 5 {
        return out;
    }
    let pp = match crate::kzg::setup(h[0], &h[1..4]) {
        Some(Ok(pp)) => pp,
        _ => return out,
    };
    let label = hex_bytes(h[4]).unwrap_or_default();
    let c = ProgCircuit { src: parts[1].trim().to_string() };
    if let Ok((prover, verifier)) = Compiler::compile_with_circuit(&pp, &label, &c) {
        out.push(format!("prover {}", bytes_hex(&prover.to_bytes())));
        out.push(format!("verifier {}", bytes_hex(&verifier.to_bytes())));
        let mut rng = ScriptRng::seeded(5);
        if let Ok((proof, pis)) = prover.prove(&mut rng, &c) {
            out.push(format!("proof {} {}", bytes_hex(&proof.to_bytes()), show_list(&pis)));
        }
    }
    out.push(format!("pp {}", bytes_hex(&pp.to_var_bytes())));
    out.push(format!("ppraw {}", bytes_hex(&pp.to_raw_var_bytes())));
    out
}

/// `concprove <threads> <deg> <d1> <d2> <d3> <label> <draws> || <prog>`: `threads` threads prove and verify
/// concurrently on shared keys (each with its own rotation of the scripted draws); every result must equal the
/// result of the same call made sequentially.
pub fn concprove_line(line: &str) -> String {
    let parts: Vec<&str> = line.split("||").collect();
    let h: Vec<&str> = parts[0].split_whitespace().collect();
    if parts.len() != 2 || h.len() != 8 {
        return "bad-request".into();
    }
    let threads: usize = match h[1].parse() {
        Ok(t) => t,
        Err(_) => return "bad-request".into(),
    };
    let pp = match crate::kzg::setup(h[2], &h[3..6]) {
        Some(Ok(pp)) => pp,
        _ => return "err:srs".into(),
    };
    let label = hex_bytes(h[6]).unwrap_or_default();
    let draws: Option<Vec<Vec<u8>>> = h[7].split(',').map(|d| hex_bytes(d).filter(|b| b.len() == 64)).collect();
    let draws = match draws {
        Some(d) => d,
        None => return "bad-request".into(),
    };
    let c = ProgCircuit { src: parts[1].trim().to_string() };
    let (prover, verifier) = match Compiler::compile_with_circuit(&pp, &label, &c) {
        Ok(x) => x,
        Err(e) => return format!("err:compile:{:?}", e),
    };
    let script = |i: usize| {
        let mut d = draws.clone();
        let k = i % d.len();
        d.rotate_left(k);
        d
    };
    let one = |i: usize| -> Option<Vec<u8>> {
        let mut rng = ScriptRng::scripted(0xabc, script(i));
        let (proof, pis) = prover.prove(&mut rng, &c).ok()?;
        verifier.verify(&proof, &pis).ok()?;
        Some(proof.to_bytes().to_vec())
    };
    let sequential: Vec<Option<Vec<u8>>> = (0..threads).map(one).collect();
    let concurrent: Vec<Option<Vec<u8>>> = std::thread::scope(|s| {
        let hs: Vec<_> = (0..threads).map(|i| s.spawn(move || one(i))).collect();
        hs.into_iter().map(|h| h.join().unwrap_or(None)).collect()
    });
    let ok = sequential.iter().all(|x| x.is_some()) && sequential == concurrent;
    let first = sequential.first().cloned().flatten().map(|b| bytes_hex(&b)).unwrap_or_default();
    format!("conc={} threads={} proof0={}", if ok { "ok" } else { "differ" }, threads, first)
}
