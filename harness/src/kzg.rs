//! KZG front end (mirrors the `kzg*` commands of Plonk/Driver/Crypto.lean)
use dusk_bls12_381::BlsScalar;
use dusk_bytes::Serializable;
use dusk_plonk::prelude::*;
use dusk_plonk::verif as v;

use crate::kernels::{parse_list, show_list};
use crate::util::*;

fn err_name(e: &Error) -> String {
    format!("err:{:?}", e).split('(').next().unwrap().replace(' ', "")
}

fn draws(t: &[&str]) -> Option<Vec<Vec<u8>>> {
    t.iter().map(|h| hex_bytes(h).filter(|b| b.len() == 64)).collect()
}

pub fn setup(deg: &str, d: &[&str]) -> Option<Result<PublicParameters, Error>> {
    let deg: usize = deg.parse().ok()?;
    let script = draws(d)?;
    let mut rng = ScriptRng::scripted(0xdead, script);
    Some(PublicParameters::setup(deg, &mut rng))
}

pub fn answer(t: &[&str]) -> String {
    match (t[0], t.len()) {
        ("kzgsetup", 5) => match setup(t[1], &t[2..5]) {
            Some(Ok(pp)) => {
                let bytes = pp.to_var_bytes();
                let ok = &bytes[..240];
                let ck = &bytes[240..];
                let mut h = Hasher::new();
                for b in ck {
                    h.push_u64(*b as u64);
                }
                // implementation-vs-property (C20), independent of the Lean model: the G1 elements are consecutive powers of
                // ONE secret matching the G2 pair: P_0 = g, no identity, e(P_{i+1}, h) = e(P_i, [x]h) for every i
                let cons = (|| {
                    use dusk_bls12_381::{pairing, G1Affine, G2Affine};
                    let g1 = |b: &[u8]| -> Option<G1Affine> { Option::from(G1Affine::from_compressed(&<[u8; 48]>::try_from(b).ok()?)) };
                    let g2 = |b: &[u8]| -> Option<G2Affine> { Option::from(G2Affine::from_compressed(&<[u8; 96]>::try_from(b).ok()?)) };
                    let (hh, xh) = match (g2(&ok[48..144]), g2(&ok[144..240])) {
                        (Some(a), Some(b)) => (a, b),
                        _ => return "bad@opening-key".to_string(),
                    };
                    let pts: Option<Vec<G1Affine>> = ck.chunks(48).map(|c| g1(c)).collect();
                    let pts = match pts {
                        Some(p) => p,
                        None => return "bad@decode".to_string(),
                    };
                    if pts.is_empty() || Some(pts[0]) != g1(&ok[..48]) {
                        return "bad@0".to_string();
                    }
                    for i in 0..pts.len() {
                        if bool::from(pts[i].is_identity()) {
                            return format!("bad@identity-{}", i);
                        }
                        if i + 1 < pts.len() && pairing(&pts[i + 1], &hh) != pairing(&pts[i], &xh) {
                            return format!("bad@{}", i + 1);
                        }
                    }
                    "ok".to_string()
                })();
                format!(
                    "g={} h={} xh={} n={} hk={} cons={}",
                    bytes_hex(&ok[..48]),
                    bytes_hex(&ok[48..144]),
                    bytes_hex(&ok[144..240]),
                    ck.len() / 48,
                    h.hex(),
                    cons
                )
            }
            Some(Err(e)) => err_name(&e),
            None => "bad-request".into(),
        },
        ("kzgtrim", 6) => match (setup(t[1], &t[2..5]), t[5].parse::<usize>().ok()) {
            (Some(Ok(pp)), Some(tr)) => match v::trim_len(&pp, tr) {
                Ok(n) => n.to_string(),
                Err(e) => err_name(&e),
            },
            (Some(Err(e)), _) => err_name(&e),
            _ => "bad-request".into(),
        },
        ("kzgcommit", 7) => match (setup(t[1], &t[2..5]), t[5].parse::<usize>().ok(), parse_list(t[6])) {
            (Some(Ok(pp)), Some(tr), Some(p)) => match v::commit(&pp, tr, &p) {
                Ok(c) => bytes_hex(&c),
                Err(e) => err_name(&e),
            },
            (Some(Err(e)), _, _) => err_name(&e),
            _ => "bad-request".into(),
        },
        ("kzgaggw", 4) => {
            let polys: Option<Vec<Vec<BlsScalar>>> = t[1].split(';').map(parse_list).collect();
            match (polys, fe_from_hex(t[2]), fe_from_hex(t[3])) {
                (Some(ps), Some(z), Some(vv)) => show_list(&v::aggregate_witness(&ps, &z, &vv)),
                _ => "bad-request".into(),
            }
        }
        ("kzgbatch", n) if n >= 7 => {
            let (pp, tr) = match (setup(t[1], &t[2..5]), t[5].parse::<usize>().ok()) {
                (Some(Ok(pp)), Some(tr)) => (pp, tr),
                (Some(Err(e)), _) => return err_name(&e),
                _ => return "bad-request".into(),
            };
            if let Err(e) = v::trim_len(&pp, tr) {
                return err_name(&e);
            }
            let mut points = vec![];
            let mut proofs = vec![];
            if t[6] != "-" {
                for it in t[6].split('/') {
                    let f: Vec<&str> = it.split('|').collect();
                    if f.len() != 5 {
                        return "err:item".into();
                    }
                    let polys: Option<Vec<Vec<BlsScalar>>> = f[2].split(';').map(parse_list).collect();
                    let (z, vv, polys, wz) = match (fe_from_hex(f[0]), fe_from_hex(f[1]), polys, fe_from_hex(f[4])) {
                        (Some(a), Some(b), Some(c), Some(d)) => (a, b, c, d),
                        _ => return "err:item".into(),
                    };
                    let evs: Vec<BlsScalar> = if f[3] == "=" {
                        polys.iter().map(|p| v::poly_eval(p, &z)).collect()
                    } else {
                        match parse_list(f[3]) {
                            Some(e) => e,
                            None => return "err:item".into(),
                        }
                    };
                    let mut comms = vec![];
                    for p in &polys {
                        match v::commit(&pp, tr, p) {
                            Ok(c) => comms.push(c),
                            Err(_) => return "err:item".into(),
                        }
                    }
                    let wpoly = v::aggregate_witness(&polys, &wz, &vv);
                    let w = match v::commit(&pp, tr, &wpoly) {
                        Ok(c) => c,
                        Err(_) => return "err:item".into(),
                    };
                    let (w2, e, c) = match v::flatten(&w, &evs, &comms, &vv) {
                        Ok(x) => x,
                        Err(_) => return "err:item".into(),
                    };
                    points.push(z);
                    proofs.push((w2, e, c));
                }
            }
            for extra in &t[7..] {
                if let Some(p) = extra.strip_prefix("perm=") {
                    let idx: Vec<usize> = p.split(',').filter_map(|s| s.parse().ok()).collect();
                    proofs = idx.iter().filter_map(|i| proofs.get(*i).copied()).collect();
                }
                if let Some(p) = extra.strip_prefix("npoints=") {
                    if let Ok(n) = p.parse::<usize>() {
                        let first = points.first().copied().unwrap_or(BlsScalar::one());
                        points.resize(n, first);
                    }
                }
            }
            let ok = v::opening_key(&pp);
            match v::batch_check(&ok, b"kzg-verif", &points, &proofs) {
                Ok(()) => "ok".into(),
                Err(e) => err_name(&e),
            }
        }
        _ => "bad-request".into(),
    }
}

#[allow(dead_code)]
pub fn commitment_hex(c: &[u8; 48]) -> String {
    bytes_hex(c)
}

#[allow(dead_code)]
pub fn scalar_le_hex(s: &BlsScalar) -> String {
    bytes_hex(&s.to_bytes())
}
