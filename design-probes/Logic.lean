import Mathlib.Data.ZMod.Basic
import Mathlib.Algebra.Field.ZMod
import Mathlib.Tactic.IntervalCases
import Mathlib.Tactic.NormNum
import Mathlib.Tactic.Ring

/-! Probe for C10: the per-quad identity of the logic widget
(`delta_xor_and` in proof_system/widget/logic/proverkey.rs) decides AND / XOR on quads. -/

/-- the widget polynomial over ℤ (a,b quads, w = a*b, c claimed result, qc = +1 AND / -1 XOR) -/
def dxaZ (a b w c qc : ℤ) : ℤ :=
  let F := w * (w * (4 * w - 18 * (a + b) + 81) + 18 * (a*a + b*b) - 81 * (a + b) + 83)
  let E := 3 * (a + b + c) - 2 * F
  let B := qc * (9 * c - 3 * (a + b))
  B + E

/-- the table over ℤ, 4·4·4 cases per operation, by kernel evaluation -/
theorem table_and : ∀ a < 4, ∀ b < 4, ∀ c < 4,
    (dxaZ (a:ℕ) (b:ℕ) ((a:ℤ)*(b:ℤ)) (c:ℕ) 1 = 0 ↔ c = a &&& b) := by decide
theorem table_xor : ∀ a < 4, ∀ b < 4, ∀ c < 4,
    (dxaZ (a:ℕ) (b:ℕ) ((a:ℤ)*(b:ℤ)) (c:ℕ) (-1) = 0 ↔ c = a ^^^ b) := by decide

/-- size bound, so that the identity cannot vanish modulo a large prime without vanishing in ℤ -/
theorem table_bound : ∀ a < 4, ∀ b < 4, ∀ c < 4, ∀ s : Bool,
    (dxaZ (a:ℕ) (b:ℕ) ((a:ℤ)*(b:ℤ)) (c:ℕ) (if s then 1 else -1)).natAbs < 100000 := by decide

variable {p : ℕ} [Fact p.Prime]

def dxa (a b w c qc : ZMod p) : ZMod p :=
  let F := w * (w * (4 * w - 18 * (a + b) + 81) + 18 * (a*a + b*b) - 81 * (a + b) + 83)
  let E := 3 * (a + b + c) - 2 * F
  let B := qc * (9 * c - 3 * (a + b))
  B + E

theorem dxa_cast (a b w c qc : ℤ) :
    dxa (a : ZMod p) (b : ZMod p) (w : ZMod p) (c : ZMod p) (qc : ZMod p) = ((dxaZ a b w c qc : ℤ) : ZMod p) := by
  unfold dxa dxaZ; push_cast; ring

theorem quad_and (hp : 100000 ≤ p) (a b c : ℕ) (ha : a < 4) (hb : b < 4) (hc : c < 4) :
    dxa (a : ZMod p) (b : ZMod p) ((a:ZMod p) * b) (c : ZMod p) 1 = 0 ↔ c = a &&& b := by
  have h := dxa_cast (p := p) (a:ℕ) (b:ℕ) ((a*b:ℕ)) (c:ℕ) 1
  push_cast at h
  rw [h, ← table_and a ha b hb c hc]
  rw [ZMod.intCast_zmod_eq_zero_iff_dvd]
  constructor
  · intro hd
    have hb' := table_bound a ha b hb c hc true
    simp only [if_true] at hb'
    by_contra hne
    have h1 : (p:ℤ) ∣ ((dxaZ (a:ℕ) (b:ℕ) ((a:ℤ)*(b:ℤ)) (c:ℕ) 1).natAbs : ℤ) := Int.dvd_natAbs.mpr hd
    have h2 : p ∣ (dxaZ (a:ℕ) (b:ℕ) ((a:ℤ)*(b:ℤ)) (c:ℕ) 1).natAbs := by exact_mod_cast h1
    have h3 := Nat.le_of_dvd (Int.natAbs_pos.mpr hne) h2
    omega
  · intro h0; rw [h0]; exact dvd_zero _

#print axioms quad_and
