import Mathlib.RingTheory.Polynomial.Cyclotomic.Basic

open Polynomial

variable {K : Type*} [Field K]

theorem divisible_iff_vanishes {ω : K} {n : ℕ} (hn : 0 < n) (hω : IsPrimitiveRoot ω n)
    (N : K[X]) : (X ^ n - 1 : K[X]) ∣ N ↔ ∀ i < n, N.eval (ω ^ i) = 0 := by
  constructor
  · rintro ⟨q, rfl⟩ i _
    have : (ω ^ i) ^ n = 1 := by rw [← pow_mul, mul_comm, pow_mul, hω.pow_eq_one, one_pow]
    simp [this]
  · intro h
    have : NeZero n := ⟨hn.ne'⟩
    rw [X_pow_sub_one_eq_prod hn hω]
    apply Finset.prod_dvd_of_coprime
    · intro a _ b _ hab
      exact isCoprime_X_sub_C_of_isUnit_sub (by
        rw [isUnit_iff_ne_zero]; exact sub_ne_zero.mpr hab)
    · intro μ hμ
      rw [dvd_iff_isRoot]
      have hμ' : μ ^ n = 1 := by
        exact (mem_nthRootsFinset hn (1:K)).mp hμ
      obtain ⟨i, hi, rfl⟩ := hω.eq_pow_of_pow_eq_one hμ'
      exact h i hi

#print axioms divisible_iff_vanishes
