import Mathlib.Data.ZMod.Basic
import Mathlib.Algebra.Field.ZMod
import Mathlib.Tactic.IntervalCases
import Mathlib.Tactic.NormNum
import Mathlib.Tactic.Ring
import Mathlib.Tactic.Linarith

variable {p : ℕ} [Fact p.Prime]

def delta (x : ZMod p) : ZMod p := x * (x - 1) * (x - 2) * (x - 3)

theorem delta_zero {x : ZMod p} (h : delta x = 0) : ∃ q : ℕ, q < 4 ∧ x = (q : ZMod p) := by
  unfold delta at h
  rcases mul_eq_zero.mp h with h | h
  · rcases mul_eq_zero.mp h with h | h
    · rcases mul_eq_zero.mp h with h | h
      · exact ⟨0, by norm_num, by simpa using h⟩
      · exact ⟨1, by norm_num, by simpa using sub_eq_zero.mp h⟩
    · exact ⟨2, by norm_num, by simpa using sub_eq_zero.mp h⟩
  · exact ⟨3, by norm_num, by simpa using sub_eq_zero.mp h⟩

theorem delta_of_lt {q : ℕ} (hq : q < 4) : delta ((q : ℕ) : ZMod p) = 0 := by
  unfold delta
  interval_cases q <;> simp

/-- a base-4 accumulator chain starting at 0 is a natural number below 4^k -/
theorem chain_bound (acc : ℕ → ZMod p) (k : ℕ) (h0 : acc 0 = 0)
    (hstep : ∀ i < k, delta (acc (i+1) - 4 * acc i) = 0) :
    ∃ n : ℕ, n < 4^k ∧ acc k = (n : ZMod p) := by
  induction k with
  | zero => exact ⟨0, by norm_num, by simpa using h0⟩
  | succ k ih =>
    obtain ⟨n, hn, hk⟩ := ih (fun i hi => hstep i (by omega))
    obtain ⟨q, hq, hx⟩ := delta_zero (hstep k (by omega))
    refine ⟨4*n + q, ?_, ?_⟩
    · rw [pow_succ]; omega
    · have : acc (k+1) = 4 * acc k + q := by rw [← hx]; ring
      rw [this, hk]; push_cast; ring

theorem chain_val (acc : ℕ → ZMod p) (k : ℕ) (h0 : acc 0 = 0)
    (hstep : ∀ i < k, delta (acc (i+1) - 4 * acc i) = 0) (hk : 4^k ≤ p) :
    (acc k).val < 4^k := by
  obtain ⟨n, hn, h⟩ := chain_bound acc k h0 hstep
  rw [h, ZMod.val_natCast, Nat.mod_eq_of_lt (by omega)]; exact hn

/-- completeness: any v < 4^k has a chain -/
theorem chain_exists (v : ℕ) (k : ℕ) (hv : v < 4^k) :
    ∃ acc : ℕ → ZMod p, acc 0 = 0 ∧ acc k = (v : ZMod p) ∧
      ∀ i < k, delta (acc (i+1) - 4 * acc i) = 0 := by
  refine ⟨fun i => ((v / 4^(k-i) : ℕ) : ZMod p), ?_, ?_, ?_⟩
  · simp [Nat.div_eq_of_lt hv]
  · simp
  · intro i hi
    have e : k - i = (k - (i+1)) + 1 := by omega
    have : v / 4^(k-(i+1)) = 4 * (v / 4^(k-i)) + (v / 4^(k-(i+1))) % 4 := by
      rw [e, pow_succ, ← Nat.div_div_eq_div_mul]; omega
    have hx : (((v / 4^(k-(i+1)) : ℕ) : ZMod p)) - 4 * ((v / 4^(k-i) : ℕ) : ZMod p)
        = (((v / 4^(k-(i+1))) % 4 : ℕ) : ZMod p) := by
      conv_lhs => rw [this]
      push_cast; ring
    show delta (((v / 4^(k-(i+1)) : ℕ) : ZMod p) - 4 * ((v / 4^(k-i) : ℕ) : ZMod p)) = 0
    rw [hx]; exact delta_of_lt (Nat.mod_lt _ (by norm_num))

#print axioms chain_val
#print axioms chain_exists
