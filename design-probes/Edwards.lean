import Mathlib.Tactic.LinearCombination
import Mathlib.Tactic.FieldSimp
import Mathlib.Tactic.Ring
import Mathlib.Algebra.Field.Basic

/-! Probe for C12/C13: completeness of the twisted Edwards addition law with a = -1
(a square) and d a non-square: the denominators `1 ± d·x1·x2·y1·y2` never vanish on
curve points. This is what makes `add_point_gates` leave no free witness. -/

variable {K : Type*} [Field K]

theorem edwards_denominators_ne_zero
    (d i : K) (h2ne : (2:K) ≠ 0) (hi : i * i = -1) (hd : ∀ t : K, t * t ≠ d)
    (x1 y1 x2 y2 : K)
    (h1 : -x1^2 + y1^2 = 1 + d * x1^2 * y1^2)
    (h2 : -x2^2 + y2^2 = 1 + d * x2^2 * y2^2) :
    1 + d * x1 * x2 * y1 * y2 ≠ 0 ∧ 1 - d * x1 * x2 * y1 * y2 ≠ 0 := by
  -- it suffices to refute e^2 = 1 for e = d x1 x2 y1 y2
  suffices key : (d * x1 * x2 * y1 * y2)^2 ≠ 1 by
    constructor
    · intro h; apply key
      have : d * x1 * x2 * y1 * y2 = -1 := by linear_combination h
      rw [this]; ring
    · intro h; apply key
      have : d * x1 * x2 * y1 * y2 = 1 := by linear_combination -h
      rw [this]; ring
  intro hε
  set e := d * x1 * x2 * y1 * y2 with he
  have e_ne : e ≠ 0 := by
    intro h0; rw [h0] at hε; norm_num at hε
  have hx1 : x1 ≠ 0 := by rintro rfl; apply e_ne; rw [he]; ring
  have hy1 : y1 ≠ 0 := by rintro rfl; apply e_ne; rw [he]; ring
  have hy2 : y2 ≠ 0 := by rintro rfl; apply e_ne; rw [he]; ring
  have K1 : -x1^2 + y1^2 = d * x1^2 * y1^2 * (-x2^2 + y2^2) := by
    linear_combination h1 - d * x1^2 * y1^2 * h2 - hε
  have sq_plus : (i * x1 + e * y1)^2 = d * (x1 * y1 * (i * x2 + y2))^2 := by
    linear_combination K1 + (x1^2 - d * x1^2 * y1^2 * x2^2) * hi + y1^2 * hε
  have sq_minus : (i * x1 - e * y1)^2 = d * (x1 * y1 * (i * x2 - y2))^2 := by
    linear_combination K1 + (x1^2 - d * x1^2 * y1^2 * x2^2) * hi + y1^2 * hε
  by_cases hp : i * x2 + y2 = 0
  · by_cases hm : i * x2 - y2 = 0
    · apply hy2
      have : (2:K) * y2 = 0 := by linear_combination hp - hm
      rcases mul_eq_zero.mp this with h | h
      · exact absurd h h2ne
      · exact h
    · apply hd ((i * x1 - e * y1) / (x1 * y1 * (i * x2 - y2)))
      have hden : x1 * y1 * (i * x2 - y2) ≠ 0 := mul_ne_zero (mul_ne_zero hx1 hy1) hm
      field_simp
      linear_combination sq_minus
  · apply hd ((i * x1 + e * y1) / (x1 * y1 * (i * x2 + y2)))
    have hden : x1 * y1 * (i * x2 + y2) ≠ 0 := mul_ne_zero (mul_ne_zero hx1 hy1) hp
    field_simp
    linear_combination sq_plus

#print axioms edwards_denominators_ne_zero
