HOOK_COMMITS = ["9fed477", "defb590", "9e93c9f"]
NOT_APPLICABLE = {}

TECH = "Lean 4 theorems over an executable model + differential correspondence (Rust harness vs native Lean driver) + constant/ordering translator"
TECH_W = TECH + " + widget-formula translator (tools/rs2lean.py: Rust widget arithmetic regenerated as Lean definitions and proved equal to the model's formulas on every run)"
BASE_NOTE = ("Trusted: Lean kernel + Mathlib; tools/extract.py; the correspondence is differential testing over generated cases "
             "(distribution printed in the evidence). ")

CLAIMS = {
 "C01": {
  "text": "25 theorems incl. the ALGEBRAIC COMPLETENESS composition (Props/C01Complete.lean: accumulator exists and permVec computes it, gate identities vanish for a satisfying assignment, numerator divisible with deg T <= 4n+6 so the four shares fit the n+7 key, the verifier equation holds for the model's own linearizationTerms/r0Eval and batched openings, prove's quotient passes the 7n test for n >= 3). The Lean specification prover (Model/Prover.lean, rounds 1-5 as in prove_inner) and model verifier are executed next to the real code: for every constraint count around every power of two, SRS capacities exactly sufficient / one too small, all public-input placements and labels, the real proof must equal the model's proof byte for byte, both verifiers must accept, and the compressed and serialized key routes must give identical keys and proofs. 10 theorems: opening identity of the aggregated witness, capacity arithmetic of compile/trim (exact error condition), every committed polynomial fits the trimmed key, quotient shares recombine, transcript order prover/verifier agreement; verifier algebra in C03, quotient in C05.",
  "note": BASE_NOTE + "Partial: pairing in the trapdoor view; the completeness composition is proved at the algebraic level (same numerator as the soundness theorems of C02) and tied to `prove` by ProverMask; identifying every local of `prove` with the theorem arguments and the two Lagrange evaluations (hl1, hpi) remain hypotheses; gamma in the <= 4n-element denominator bad set is excluded (the Rust code asserts there).",
  "technique": TECH},
 "C02": {
  "text": "16 theorems (algebraic core with explicit bad-challenge sets: accumulator telescopes => grand product; identity at one point outside <= max(deg) roots lifts to the polynomial identity; a violated row defeats EVERY candidate quotient outside the bad set; challenge separation alpha / widget level; soundness_algebraic + soundness_witness: quotient identity at one good point => the extracted assignment satisfies the model's sysSat and has no copy violation; the verifier's linearisation identity IS the quotient identity; forged evaluations rejected (honest witness, model functions, and AGM form)). Deterministic core of soundness: the verifier model (transcript from bytes, regrouped MSM == textbook equation, trapdoor pairing) decides every adversarial proof exactly as the real verifier does: forced proofs of violating instances (hook), forged commitments/evaluations, splices, degenerate proofs are all rejected. Forced proofs also cover rows whose identity components cancel pairwise.",
  "note": BASE_NOTE + "Partial by nature: soundness is computational (KZG knowledge soundness, AGM, Fiat-Shamir are assumptions); what is proved is the algebraic core with explicit bad-challenge sets.",
  "technique": TECH_W},
 "C03": {
  "text": "18 theorems about the model verifier: grouped MSM of Proof::verify / verify_legacy equals the textbook equation as a formal linear combination over any module; every linearisation scalar equals the widget identity; transcript operation list is injective in label, sizes, bound commitments, public inputs and proof elements; acceptance depends on nothing else. The model verifier recomputes Merlin/STROBE/Keccak challenges from bytes and must agree with the real verifier on every mutated proof (bit flips, field replacement, cross-circuit, splices).",
  "note": BASE_NOTE + "Pairing decided in the trapdoor view (bilinearity assumed); sponge treated as random oracle. The G1 arithmetic of the model IS proved (Props/G1Law.lean, 29 theorems: affine and Jacobian laws, scalar multiplication, Straus MSM refine Mathlib's Weierstrass group law; accept_iff_group_equation); G2 arithmetic re-implemented and compared, not proved.",
  "technique": TECH_W},
 "C04": {
  "text": "10 theorems: public-input length mismatch is rejected before anything else; changing any public input, label byte/length, bound key commitment, size or version flag changes the transcript operation list; version matrix of transcript/equation flags. Correspondence: every public-input mutation, near-miss circuit, label variant and version pair must be rejected by the real verifier exactly as by the model verifier, never accepted, never a panic.",
  "note": BASE_NOTE + "Different operation lists give unrelated challenges only under the random-oracle assumption; pairing in the trapdoor view.",
  "technique": TECH},
 "C05": {
  "text": "The model's proveOutcome (every row identity on the padded domain with cyclic next-row wires, copy classes of the compiled layout, size check) is compared with the real Prover::prove + verify on raw rows of every widget family (satisfying / violating exactly one component), mixed selectors, a selected last row of a full domain, re-wired instances (copy constraints), and the specification prover reproduces the real quotient computation (len > 7n rule) byte for byte (C01/C06). 31 theorems: divisibility of the quotient numerator <=> every identity vanishes on the domain (model quotient routine, coset division exact), blinding invisible on the domain, components from the challenge-weighted sum outside an explicit bad set, len > 7n rule; permutation: sigma is a permutation whose cycles are the wire classes, respects-sigma <=> copyViolation = none, grand-product soundness (bad set <= (4n)^2) and completeness, order independence, relabelling invariance. Raw rows also include cancelling component pairs and independently chosen selectors.",
  "note": BASE_NOTE + "Prover success == all identities hold is exact outside explicit bad-challenge sets (random-oracle assumption). The accumulator z is tied to the grand product at field level; the end-to-end statement for `prove` composes these theorems executably (byte-identical prover).",
  "technique": TECH_W},
 "C06": {
  "text": "13 theorems (mask form of every blinded polynomial and opening, 14 draws, dependence on the first 14 only, draw partition, commitments of a returned proof are commitments of blinded polynomials). The specification prover draws exactly 14 scalars in the order a1 a2 b1 b2 c1 c2 d1 d2 z1 z2 z3 t1 t2 t3 and builds every opened polynomial as unmasked + blinder*(X^n-1) (blindPoly) / quotient shares re-randomised; the real prover's 1008 bytes must equal the model's for scripted RNG streams with single draws forced to 0, 1, r-1; fill_bytes call count 14; two independently randomised proofs share no commitment and no wire/permutation evaluation.",
  "note": BASE_NOTE + "Statistical zero-knowledge itself (simulator) is not proved; the property as worded (mask shape, draw discipline) is decided by byte equality with the model whose structure is the mask form.",
  "technique": TECH},
 "C07": {
  "text": "37 theorems: every composer component of the model is shape-stable (gates, public-input rows, witness count and returned indices are functions of the call sequence and constants, for arbitrary witness values), exact error conditions of every fallible entry point with the state unchanged on error, totality by construction, whole-program theorem. Correspondence: every public component and every const-generic width (exhaustive) on boundary values and malformed points in a debug-assertions build: no panic, equal shape across value vectors, impl shape == model shape.",
  "note": BASE_NOTE + "Layout correspondence is exhaustive in the const-generic width; values are sampled.",
  "technique": TECH},
 "C08": {
  "text": "52 theorems about the executable model of the arithmetic/equality/boolean/selection components: appended rows hold under an arbitrary assignment iff the documented relation holds over F_r, returned witnesses unique, honest table satisfies; tied to the code by layout/witness-table equality and prove/verify outcomes on generated programs.",
  "note": BASE_NOTE + "dusk-bls12_381 field arithmetic modelled as Nat mod r (r proved prime by a Pratt certificate). Prover success = all row identities hold outside explicit bad-challenge sets (RO assumption).",
  "technique": TECH},
 "C09": {
  "text": "Theorems: rangeCheck sound for every width <= 254 under every accumulator assignment, complete for every width, exact characterisation, 255/256 constrain nothing, both entry points are the same state transformer. Correspondence exhaustive over widths 0..=256 and pair counts, boundary values, forged accumulators.",
  "note": BASE_NOTE + "Prover success = all row identities hold outside explicit bad-challenge sets (RO assumption).",
  "technique": TECH},
 "C10": {
  "text": "Theorems: for every pair count <= 127 the logic component's rows under an arbitrary assignment force the output to be AND/XOR of the canonical values mod 4^pairs; always satisfiable; exact characterisation; zero pairs. Correspondence exhaustive over both operations and all pair counts, forged outputs/product wires.",
  "note": BASE_NOTE + "RO assumption for prover success = identities.",
  "technique": TECH},
 "C11": {
  "text": "Theorems: component_truncate sound (N <= 254, all internal wires prover-chosen), always satisfiable, exact; component_decomposition sound/unique for N <= 254, complete for all N; decomposition_alias_255_256 proves the NEGATION of uniqueness for N in {255,256} (known finding, replayed end-to-end on the implementation). Correspondence exhaustive over N.",
  "note": BASE_NOTE + "Known finding recorded in known-findings.txt (decomposition alias for N >= 255).",
  "technique": TECH},
 "C12": {
  "text": "Theorems: d non-residue / -1 residue (kernel-evaluated Euler criterion), completeness and closure of the twisted Edwards law, ASSOCIATIVITY (proved: real AddCommGroup on curve points), variable-base rows <-> unique sum and helper wire, ladder = scalar multiple; gadget-level glue (addPointGates, neg/sub/select/mul_point) being delivered. Correspondence: returned coordinates vs an independent Python group-law oracle, forged helper wires, scalars up to 2^252.",
  "note": BASE_NOTE + "Only the group ORDER 8*r_J is a hypothesis (JubjubGroupFacts.order), needed nowhere in C12. dusk-jubjub host arithmetic modelled and compared.",
  "technique": TECH},
 "C13": {
  "text": "Correspondence on all 8 torsion cosets, off-curve points, prover-chosen auxiliary points (honest, torsion translates, off-curve), host-side validation and zero-Z handling in a debug-assertions build; theorems: doubling rows force 2Q on the curve, [8][8^-1]P = P for [r_J]P = O, membership in 8E <-> on curve and [r_J]P = O (-> direction under the group-order hypothesis); gadget glue and decision-logic theorems being delivered.",
  "note": BASE_NOTE + "Group order 8*r_J of JubJub is an explicit hypothesis structure, not an axiom.",
  "technique": TECH},
 "C14": {
  "text": "Theorems (math level): canonical-scalar double range check <-> s < r_J, signed-digit accumulation without modular wrap (breaks if the leading-zero block drops below 2), NAF bounds, fixed-base row <-> digit in {-1,0,1} and point accumulation; gadget glue being delivered. Correspondence: honest NAF, binary digits, digits of s+r, s-r, s+r_J, digit 2, non-zero leading digits vs model and vs an independent Python oracle.",
  "note": BASE_NOTE + "Group order hypothesis not needed (associativity proved).",
  "technique": TECH},
 "C15": {
  "text": "18 theorems (decompressCompress keeps gates and public-input rows, first-use relabelling injective, sigma invariant under relabelling hence equal keys in the model, maxConstraints arithmetic). Model of decompress(compress(c)) (first-use witness relabelling, zero values, positional public inputs) equals the implementation's snapshot; both compilation routes give byte-identical prover and verifier or fail together for SRS degrees from too small to ample; max_constraints equals the model for every degree; malformed/oversized payloads (re-packed MessagePack/deflate, zip bombs) give an error with bounded peak allocation and no panic.",
  "note": BASE_NOTE + "Partial: MessagePack/deflate are external and not modelled; relabelling-invariance of sigma is proved for the model (relabel_sigma).",
  "technique": TECH},
 "C16": {
  "text": "25 theorems (little/big-endian byte codecs, scalar, compressed and raw G1 (F_p square root proved; P, R, R_J prime by Pratt certificates), proof / verifier key / opening key / verifier / public parameters / evaluations / raw commit key / prover key / prover: decode(encode x) = x and accepted bytes re-encode canonically). Round trips: prover/verifier bytes -> decode -> identical bytes, identical proofs from the same RNG stream, identical verifier decisions (route flag on every C01 case incl. a circuit whose q_m interpolant loses its top coefficient: defect found and fixed); proof decoder canonical (accepted bytes re-encode to themselves; checked on every mutated proof); model codecs for proof / verifier key / opening key / verifier framing compared byte for byte.",
  "note": BASE_NOTE + "fix: 9388e48 (ProverKey buffer sizing). G2 decompression round trip (F_p^2 square root of the external crate) is a hypothesis of the three theorems that contain a G2 point; discharged by kernel evaluation for the generator.",
  "technique": TECH},
 "C17": {
  "text": "16 theorems (every accepted value is well formed: points on curve / in subgroup / not identity where required, scalars canonical, raw points canonical, domain sizes powers of two < 2^32, exact byte counts consumed; work bounds: exactly k items and 48k / 32k bytes read; exact NotEnoughBytes conditions). Structure-aware mutation of valid encodings of provers, verifiers, proofs, public parameters, commit keys and compressed circuits in a debug-assertions + overflow-checks build: every case returns a value or an error (no panic), allocation bounded, accepted values usable; verifier/proof decoders additionally compared with the model decoders.",
  "note": BASE_NOTE + "Partial: hangs and real peak memory are observed, not proved.",
  "technique": TECH},
 "C18": {
  "text": "20 theorems (all three arms of the FFT switch and every chunk / piece schedule agree with the serial kernel; sigma independent of the hash-map visiting order; public-input rows strictly increasing for every gadget so sorting is the identity for any insertion order; chunked maps = index-wise maps for the quotient and permutation loops; any reduction tree of the barycentric sum; compileWith/proveWith threads = compile/prove). Theorems: the parallel butterfly equals the serial one for every thread count (all three arms of the FFT switch), quotient/permutation loops are index-wise maps; correspondence: the real prover under rayon pools of different sizes, repeated runs and fresh processes produces the bytes of the (sequential, deterministic) Lean specification prover.",
  "note": BASE_NOTE + "Partial: real interleavings, the label-cache mutex and memory-model effects are outside any executable model; Rust's data-race freedom for safe code is trusted.",
  "technique": TECH},
 "C19": {
  "text": "33 theorems: iterative in-place FFT = radix-2 recursion = O(n^2) DFT = polynomial evaluation on the subgroup/coset, inverse transforms interpolate, mutual inverses, thread-count independence, long inputs reduce modulo X^n-1 (defect found and fixed); polynomial add/sub/scale/mul/evaluate/ruffini refine Mathlib polynomials; batch inversion; closed forms. Correspondence on all domain sizes up to 2^12 (2^14 thorough), pools 1..17.",
  "note": BASE_NOTE + "fix: eed3c07 (fft of a vector longer than the domain).",
  "technique": TECH},
 "C20": {
  "text": "33 theorems: commitment = p(x)*g (additive, zero, injective), single / aggregated / batched openings pass iff the claimed evaluations are true (explicit bad-challenge sets), pairing check <-> trapdoor equation for an abstract bilinear pairing; on the executable code: setup is a consistent sequence of powers of one secret with matching G2 element, trim keeps a sufficient prefix, degree guard, empty/mismatched batches rejected. Correspondence: setup bytes, commitments byte for byte, batch decisions via the trapdoor.",
  "note": BASE_NOTE + "Group law of the executable G1 model is proved (Props/G1Law.lean: add/neg/double/Jacobian/smul/msum refine Mathlib's elliptic-curve group). Binding against adversarial witnesses is computational, not claimed.",
  "technique": TECH},
}
