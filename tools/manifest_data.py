HOOK_COMMITS = ["9fed477"]
NOT_APPLICABLE = {}
CLAIMS = {
 "C08": {
  "text": "Theorems (Plonk/Props/C08.lean) about the executable Lean model of the arithmetic/equality/boolean/selection components: each row identity is equivalent to the documented relation over F_r, returned witnesses are unique; the model is tied to the code on every run by layout/witness-table equality on generated programs and by prove/verify outcomes vs. the model's sysSat.",
  "note": "Trusted: Lean kernel + Mathlib; dusk-bls12_381 field arithmetic (modelled as Nat mod r, exercised differentially); extract.py; correspondence is differential testing over generated programs (distribution printed in the evidence). Prover success = all row identities hold is taken outside the explicit bad-challenge sets (RO assumption).",
  "technique": "Lean 4 theorems over an executable model + differential correspondence (Rust harness vs native Lean driver) + constant translator",
 },
}
