#!/usr/bin/env python3
"""
Orchestrator: one property, one tier.

  python3 tools/run_check.py --prop C08 --tier quick

 1. extract.py          -> lean/Plonk/Generated.lean              (translator tie)
 2. lake build          -> property theorems re-checked            (proof obligations)
 3. audit               -> no sorry/axiom/native_decide; #print axioms within the allowed set
 4. cargo build harness -> against /repo's current working tree, feature `verif`
 5. requests            -> real code (harness) and Lean model (driver); canonicalised diff
 6. evidence/<id>.json, VIOLATION / KNOWN-FINDING lines, exit code

Exit 0: property held on everything explored.  Exit 1: VIOLATION printed.  Exit 2: the
machinery itself is broken (audit failure, harness does not build for reasons unrelated to the
property) — also printed as a VIOLATION ... no-failing-input-found line, because the property
is then not shown to hold.
"""
import argparse, importlib, json, os, re, subprocess, sys, time, hashlib

HERE = os.path.dirname(os.path.abspath(__file__))
VERIF = os.path.dirname(HERE)
LEAN = os.path.join(VERIF, "lean")
HARNESS = os.path.join(VERIF, "harness")
REPO = os.environ.get("VERIF_REPO", "/repo")
sys.path.insert(0, HERE)

ALLOWED_AXIOMS = {"propext", "Classical.choice", "Quot.sound"}
FORBIDDEN = re.compile(r"\b(sorry|admit|native_decide|bv_decide|implemented_by|unsafe)\b|^axiom |maxHeartbeats 0")


def sh(cmd, cwd=None, env=None, timeout=None, inp=None):
    e = dict(os.environ)
    e["CARGO_NET_OFFLINE"] = "true"
    if env:
        e.update(env)
    p = subprocess.run(cmd, cwd=cwd, env=e, input=inp, stdout=subprocess.PIPE, stderr=subprocess.STDOUT,
                       text=True, timeout=timeout, shell=isinstance(cmd, str))
    return p.returncode, p.stdout


class Ctx:
    def __init__(self, prop, tier, seed):
        self.prop, self.tier, self.seed = prop, tier, seed
        self.t0 = time.time()
        self.work = os.path.join(VERIF, "work", prop)
        os.makedirs(self.work, exist_ok=True)
        self.replay_dir = os.path.join(VERIF, "replay", prop)
        self.violations = []      # (key, replay_path, no_input_found, text)
        self.known = []
        self.notes = []
        self.profile = "release"

    # ---- binaries -------------------------------------------------------------------------
    def harness_bin(self, profile=None):
        profile = profile or self.profile
        return os.path.join(HARNESS, "target", profile, "plonk-verif-harness")

    def driver_bin(self):
        return os.path.join(LEAN, ".lake", "build", "bin", "driver")

    def run_lines(self, binary, lines, env=None, workers=8, timeout=3600):
        """Run a line-protocol binary over `lines` in parallel chunks; returns outputs in order."""
        if not lines:
            return []
        n = max(1, min(workers, len(lines)))
        chunks = [lines[i::n] for i in range(n)]
        procs = []
        e = dict(os.environ)
        if env:
            e.update(env)
        for ch in chunks:
            p = subprocess.Popen([binary, "run"], stdin=subprocess.PIPE, stdout=subprocess.PIPE,
                                 stderr=subprocess.PIPE, text=True, env=e)
            procs.append((p, ch))
        outs = []
        import threading
        results = [None] * n

        def feed(i, p, ch):
            try:
                o, er = p.communicate("\n".join(ch) + "\n", timeout=timeout)
            except subprocess.TimeoutExpired:
                p.kill()
                o, er = p.communicate()
            results[i] = (p.returncode, o.split("\n"), er)
        ths = [threading.Thread(target=feed, args=(i, p, ch)) for i, (p, ch) in enumerate(procs)]
        for t in ths:
            t.start()
        for t in ths:
            t.join()
        out = [None] * len(lines)
        for i, (rc, o, er) in enumerate(results):
            idxs = list(range(i, len(lines), n))
            for j, k in enumerate(idxs):
                out[k] = o[j] if j < len(o) and o[j] != "" else ("crash rc=%s" % rc)
        return out

    def impl(self, lines, profile=None, env=None, workers=8):
        return self.run_lines(self.harness_bin(profile), lines, env=env, workers=workers)

    def model(self, lines, workers=8):
        return self.run_lines(self.driver_bin(), lines, workers=workers)

    # ---- reporting ------------------------------------------------------------------------
    def write_replay(self, name, obj):
        os.makedirs(self.replay_dir, exist_ok=True)
        path = os.path.join(self.replay_dir, name + ".json")
        with open(path, "w") as f:
            json.dump(obj, f, indent=1)
        return path

    def violation(self, key, replay_obj, no_input=False, text=""):
        name = re.sub(r"[^A-Za-z0-9_.-]+", "_", key)[:80]
        replay_obj = dict(replay_obj)
        replay_obj.update({"property": self.prop, "key": key, "seed": self.seed, "tier": self.tier})
        path = self.write_replay(name, replay_obj)
        self.violations.append((key, path, no_input, text))


def load_known():
    path = os.path.join(VERIF, "known-findings.txt")
    out = []
    if os.path.exists(path):
        for l in open(path):
            l = l.strip()
            if l.startswith("finding:"):
                m = re.search(r"property=(\S+)\s+key=(\S+)\s*(.*)", l)
                if m:
                    out.append((m.group(1), m.group(2), m.group(3)))
    return out


def parse_kv(line):
    d = {}
    for tok in line.split():
        if "=" in tok:
            k, v = tok.split("=", 1)
            d[k] = v
        else:
            d.setdefault("_flags", []).append(tok)
    return d


# ---- stages ------------------------------------------------------------------------------

def stage_extract(ctx, widgets=False, composer=False, prover=False):
    rc, out = sh([sys.executable, os.path.join(HERE, "extract.py"), "--repo", REPO,
                  "--json", os.path.join(ctx.work, "generated.json")])
    ctx.notes.append(out.strip())
    if rc == 0 and widgets:
        # second translator: the widget formulas of the Rust sources -> Plonk/GeneratedWidgets.lean
        rc, out2 = sh([sys.executable, os.path.join(HERE, "rs2lean.py"), REPO,
                       os.path.join(LEAN, "Plonk", "GeneratedWidgets.lean")])
        ctx.notes.append(out2.strip())
        out = out + out2
    if rc == 0 and prover:
        # fourth translator: the prover-side glue (quotient numerator, accumulator, linearisation, evaluations) -> GeneratedProver.lean
        rc, out4 = sh([sys.executable, os.path.join(HERE, "rs2lean_prover.py"), REPO,
                       os.path.join(LEAN, "Plonk", "GeneratedProver.lean")])
        ctx.notes.append(out4.strip()[-400:])
        out = out + out4
    if rc == 0 and composer:
        # third translator: the Constraint builder and the straight-line composer gadgets -> Plonk/GeneratedComposer.lean
        rc, out3 = sh([sys.executable, os.path.join(HERE, "rs2lean_composer.py"), REPO,
                       os.path.join(LEAN, "Plonk", "GeneratedComposer.lean")])
        ctx.notes.append(out3.strip()[-400:])
        out = out + out3
    return rc, out


def stage_lake(ctx, targets):
    rc, out = sh(["lake", "build"] + targets + ["driver"], cwd=LEAN, timeout=3600)
    with open(os.path.join(ctx.work, "lake.log"), "w") as f:
        f.write(out)
    if rc != 0:
        # a proof obligation broke: the model driver must still be current for the correspondence / search
        rc2, out2 = sh(["lake", "build", "driver"], cwd=LEAN, timeout=3600)
        with open(os.path.join(ctx.work, "lake-driver.log"), "w") as f:
            f.write(out2)
    return rc, out


def stage_audit(ctx, mod, extra_audits=()):
    """returns (ok, obligations, discharged, axioms_seen, detail)"""
    # 1. forbidden tokens outside comments
    bad = []
    for root, _, files in os.walk(os.path.join(LEAN, "Plonk")):
        for fn in files:
            if not fn.endswith(".lean"):
                continue
            p = os.path.join(root, fn)
            txt = open(p).read()
            txt = re.sub(r"/-.*?-/", lambda m: "\n" * m.group(0).count("\n"), txt, flags=re.S)
            for i, line in enumerate(txt.split("\n")):
                code = line.split("--")[0]
                if FORBIDDEN.search(code):
                    bad.append("%s:%d: %s" % (os.path.relpath(p, LEAN), i + 1, line.strip()))
    # 2. #print axioms (one Lean process per audit file: proof files of different agents may not be importable together)
    rc, out = 0, ""
    for am in [mod] + list(extra_audits):
        audit_file = os.path.join(LEAN, "Plonk", "Audit", am + ".lean")
        rc1, out1 = sh(["lake", "env", "lean", audit_file], cwd=LEAN, timeout=1800)
        rc = rc or rc1
        out += out1
    thms = {}
    for m in re.finditer(r"'([^']+)' depends on axioms: \[([^\]]*)\]", out, flags=re.S):
        thms[m.group(1)] = set(x.strip() for x in m.group(2).replace("\n", " ").split(",") if x.strip())
    for m in re.finditer(r"'([^']+)' does not depend on any axioms", out):
        thms[m.group(1)] = set()
    axioms = set()
    for v in thms.values():
        axioms |= v
    extra = axioms - ALLOWED_AXIOMS
    ok = (rc == 0) and not bad and not extra and len(thms) > 0
    detail = {"forbidden_hits": bad, "extra_axioms": sorted(extra), "lean_rc": rc,
              "log": out[-2000:] if rc != 0 else ""}
    return ok, len(thms), len(thms) if ok else 0, sorted(axioms), sorted(thms.keys()), detail


def stage_cargo(ctx, profile):
    args = ["cargo", "build", "--offline", "--release"] if profile == "release" else \
           ["cargo", "build", "--offline", "--profile", profile]
    rc, out = sh(args, cwd=HARNESS, timeout=3600)
    with open(os.path.join(ctx.work, "cargo-%s.log" % profile), "w") as f:
        f.write(out)
    return rc, out


def regen_dispatch():
    dst = os.path.join(HARNESS, "src", "dispatch.rs")
    if not os.path.exists(dst):
        sh([sys.executable, os.path.join(HERE, "gen_dispatch.py"), dst])


def main():
    ap = argparse.ArgumentParser()
    ap.add_argument("--prop", required=True)
    ap.add_argument("--tier", default=os.environ.get("VERIF_TIER", "quick"))
    ap.add_argument("--replay", default=None)
    a = ap.parse_args()
    seed = int(os.environ.get("VERIF_SEED", "1"))
    prop = a.prop
    ctx = Ctx(prop, a.tier, seed)
    mod = importlib.import_module("props." + prop.lower())
    ctx.profile = getattr(mod, "PROFILE", "release")
    evidence = {
        "property_id": prop, "tier": a.tier, "seed": seed, "level": "proof",
        "coverage": {}, "assumptions": list(getattr(mod, "ASSUMPTIONS", [])), "wall_s": 0.0, "violations": 0,
    }
    cov = evidence["coverage"]
    cov["trusted_base"] = [
        "Lean 4.33 kernel; Mathlib v4.33 as a library of kernel-checked theorems",
        "axioms allowed: propext, Classical.choice, Quot.sound (checked by #print axioms on every property theorem)",
        "tools/extract.py (copies constants/orderings from /repo/src into Generated.lean)",
        "tools/rs2lean.py / tools/rs2lean_composer.py / tools/rs2lean_prover.py where the property's targets include WidgetTie / ComposerTie / ProverTie (Rust subset -> Lean definitions)",
        "differential correspondence harness (Rust, in-process calls into /repo built with --features verif) vs. the native Lean driver",
    ] + list(getattr(mod, "TRUSTED", []))
    cov["checker_cmd"] = "cd lean && lake build %s && lake env lean Plonk/Audit/%s.lean" % (" ".join(mod.LEAN_TARGETS), prop)

    # build stages (translators, lake, audit, cargo) are serialised across concurrently running checks: they share
    # lean/.lake, Generated*.lean and the harness target directory
    import fcntl
    lock_f = open(os.path.join(VERIF, "work", ".build.lock"), "w")
    fcntl.flock(lock_f, fcntl.LOCK_EX)
    broken = None   # (stage, text)
    rc, out = stage_extract(ctx, widgets=("Plonk.Props.WidgetTie" in mod.LEAN_TARGETS or "Plonk.Props.ProverTie" in mod.LEAN_TARGETS),
                            composer="Plonk.Props.ComposerTie" in mod.LEAN_TARGETS,
                            prover="Plonk.Props.ProverTie" in mod.LEAN_TARGETS)
    if rc != 0:
        broken = ("extract", out)
    if not broken:
        rc, out = stage_lake(ctx, mod.LEAN_TARGETS)
        if rc != 0:
            errs = [l for l in out.split("\n") if "error" in l]
            broken = ("lake-build", "\n".join(errs[:20]))
    obligations = discharged = 0
    thm_names = []
    if not broken:
        ok, obligations, discharged, axioms, thm_names, detail = stage_audit(ctx, prop, getattr(mod, "EXTRA_AUDITS", ()))
        cov["axioms_seen"] = axioms
        if not ok:
            broken = ("audit", json.dumps(detail))
    cov["obligations"] = max(obligations, 1)
    cov["discharged"] = discharged
    cov["theorems"] = thm_names

    regen_dispatch()
    rc, out = stage_cargo(ctx, ctx.profile)
    cargo_broken = None
    if rc != 0:
        cargo_broken = "\n".join([l for l in out.split("\n") if l.startswith("error")][:10])
    for extra_profile in getattr(mod, "EXTRA_PROFILES", []):
        rc2, out2 = stage_cargo(ctx, extra_profile)
        if rc2 != 0 and not cargo_broken:
            cargo_broken = "\n".join([l for l in out2.split("\n") if l.startswith("error")][:10])

    for crate in getattr(mod, "EXTRA_CRATES", []):
        # further harness crates (the alloc-only twin): rebuilt from /repo's working tree like the main harness
        rc3, out3 = sh(["cargo", "build", "--offline", "--release"], cwd=os.path.join(VERIF, crate), timeout=3600)
        with open(os.path.join(ctx.work, "cargo-%s.log" % crate), "w") as f:
            f.write(out3)
        if rc3 != 0 and not cargo_broken:
            cargo_broken = "\n".join([l for l in out3.split("\n") if l.startswith("error")][:10])

    fcntl.flock(lock_f, fcntl.LOCK_UN)
    lock_f.close()
    stats = {}
    if cargo_broken:
        ctx.violation("harness-build", {"stage": "cargo build", "errors": cargo_broken,
                                         "note": "the harness no longer builds against /repo's working tree (hook API changed?)"},
                      no_input=True)
    else:
        try:
            stats = mod.run(ctx, broken) or {}
        except Exception as e:  # the machinery must not die silently
            import traceback
            ctx.violation("check-crashed", {"exception": traceback.format_exc()}, no_input=True)
    if broken and not any(not v[2] for v in ctx.violations):
        # a proof obligation / the translator tie broke and the search found no failing input
        ctx.violation("broken-" + broken[0], {"stage": broken[0], "detail": broken[1],
                                               "theorems": getattr(mod, "THEOREMS_NOTE", ""),
                                               "note": "proof obligation or translator anchor no longer checks"},
                      no_input=True)

    cov.update(stats)
    cov.setdefault("evaluations", 0)
    cov.setdefault("distinct_nontrivial", 0)
    cov.setdefault("rule", "")
    cov.setdefault("samples", [])
    # ---- known findings / verdict
    known = load_known()
    final = []
    for key, path, no_input, text in ctx.violations:
        k = [x for x in known if x[0] == prop and x[1] == key]
        if k:
            print("KNOWN-FINDING: property=%s %s %s" % (prop, key, k[0][2]))
            ctx.known.append(key)
        else:
            final.append((key, path, no_input))
    evidence["violations"] = len(final)
    cov["known_findings_hit"] = ctx.known
    cov["notes"] = ctx.notes
    evidence["wall_s"] = round(time.time() - ctx.t0, 2)
    os.makedirs(os.path.join(VERIF, "evidence"), exist_ok=True)
    with open(os.path.join(VERIF, "evidence", prop + ".json"), "w") as f:
        json.dump(evidence, f, indent=1)
    for key, path, no_input in final:
        print("VIOLATION property=%s replay=%s%s" % (prop, path, " no-failing-input-found" if no_input else ""))
    if final:
        sys.exit(1)
    print("OK property=%s tier=%s obligations=%d discharged=%d cases=%d wall=%.1fs" % (
        prop, a.tier, cov["obligations"], cov["discharged"], cov.get("evaluations", 0), evidence["wall_s"]))
    sys.exit(0)


if __name__ == "__main__":
    main()
