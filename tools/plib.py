"""Shared helpers for the request generators: field / JubJub arithmetic, PRNG, op builders."""
R = 0x73eda753299d7d483339d80809a1d80553bda402fffe5bfeffffffff00000001
RJ = 0x0e7db4ea6533afa906673b0101343b00a6682093ccc81082d0970e5ed6f72cb7
D = 0x2a9318e74bfa2b48f5fd9207e6bd7fd4292d7f6d37579d2601065fd6d6343eb1
GEN = (0x3fd2814c43ac65a6f1fbf02d0fd6cce62e3ebb21fd6c54ed4df7b7ffec7beaca, 0x12)
MASK64 = (1 << 64) - 1


class SplitMix:
    def __init__(self, seed):
        self.s = seed & MASK64

    def next(self):
        self.s = (self.s + 0x9E3779B97F4A7C15) & MASK64
        z = self.s
        z = ((z ^ (z >> 30)) * 0xBF58476D1CE4E5B9) & MASK64
        z = ((z ^ (z >> 27)) * 0x94D049BB133111EB) & MASK64
        return z ^ (z >> 31)

    def below(self, n):
        return self.next() % n if n > 0 else 0

    def choice(self, xs):
        return xs[self.below(len(xs))]

    def big(self, bits=256):
        v = 0
        for _ in range((bits + 63) // 64):
            v = (v << 64) | self.next()
        return v & ((1 << bits) - 1)

    def fe(self):
        return self.big(256) % R

    def coin(self, num=1, den=2):
        return self.below(den) < num


def hx(v):
    return "%x" % (v % R)


def inv(a, m=R):
    return pow(a, m - 2, m)


# ---- JubJub (twisted Edwards, a = -1) ----
def on_curve(p):
    u, v = p
    return (v * v - u * u - D * u * u * v * v - 1) % R == 0


def ed_add(p, q):
    x1, y1 = p
    x2, y2 = q
    k = D * x1 * x2 * y1 * y2 % R
    dx, dy = (1 + k) % R, (1 - k) % R
    if dx == 0 or dy == 0:
        return None
    return ((x1 * y2 + y1 * x2) * inv(dx) % R, (y1 * y2 + x1 * x2) * inv(dy) % R)


def ed_neg(p):
    return ((-p[0]) % R, p[1])


def _ext_add(P, Q):
    X1, Y1, Z1, T1 = P
    X2, Y2, Z2, T2 = Q
    A = (Y1 - X1) * (Y2 - X2) % R
    B = (Y1 + X1) * (Y2 + X2) % R
    C = T1 * 2 * D % R * T2 % R
    Dd = 2 * Z1 * Z2 % R
    E, F, G, H = (B - A) % R, (Dd - C) % R, (Dd + C) % R, (B + A) % R
    return (E * F % R, G * H % R, F * G % R, E * H % R)


def ed_mul(k, p):
    """scalar multiple (complete formulas; `p` on the curve)"""
    P = (p[0], p[1], 1, p[0] * p[1] % R)
    acc = (0, 1, 1, 0)
    for i in reversed(range(k.bit_length())):
        acc = _ext_add(acc, acc)
        if (k >> i) & 1:
            acc = _ext_add(acc, P)
    zi = inv(acc[2])
    return (acc[0] * zi % R, acc[1] * zi % R)


def sqrt_fr(a):
    """Tonelli-Shanks in F_r (r - 1 = 2^32 * odd); None if non-residue."""
    a %= R
    if a == 0:
        return 0
    if pow(a, (R - 1) // 2, R) != 1:
        return None
    q, s = R - 1, 0
    while q % 2 == 0:
        q //= 2
        s += 1
    z = 7  # a non-residue (7 generates)
    m, c, t, r = s, pow(z, q, R), pow(a, q, R), pow(a, (q + 1) // 2, R)
    while t != 1:
        i, t2 = 0, t
        while t2 != 1:
            t2 = t2 * t2 % R
            i += 1
        b = pow(c, 1 << (m - i - 1), R)
        m, c = i, b * b % R
        t, r = t * c % R, r * b % R
    return r


def curve_point_from_v(v):
    """some on-curve point with the given v, or None: u^2 = (v^2 - 1) / (1 + d v^2)"""
    den = (1 + D * v * v) % R
    if den == 0:
        return None
    u2 = (v * v - 1) * inv(den) % R
    u = sqrt_fr(u2)
    if u is None:
        return None
    return (u, v % R)


def random_curve_point(rng):
    while True:
        p = curve_point_from_v(rng.fe())
        if p is not None:
            return p


def random_subgroup_point(rng):
    p = random_curve_point(rng)
    q = ed_mul(8, p)
    return q


def torsion_point_order8():
    """a point of exact order 8: take a random curve point times r_J, retry until order 8"""
    rng = SplitMix(12345)
    while True:
        p = random_curve_point(rng)
        t = ed_mul(RJ, p)
        if ed_mul(4, t) != (0, 1):
            return t


def ext_of(p, z=1, split=None):
    """extended representation (u*z, v*z, z, t1, t2) with t1*t2 = u*v*z"""
    u, v = p
    t1, t2 = (u, v * z % R) if split is None else split
    return (u * z % R, v * z % R, z % R, t1 % R, t2 % R)


def ext_str(e):
    return " ".join(hx(x) for x in e)


def wnaf2(k):
    out = []
    for _ in range(256):
        if k % 2 == 1:
            if k % 4 >= 2:
                out.append(-1)
                k = (k + 1) // 2
            else:
                out.append(1)
                k = (k - 1) // 2
        else:
            out.append(0)
            k //= 2
    return out


def digits_str(ds):
    m = {0: "0", 1: "+", -1: "-", 2: "2", -2: "m"}
    return "".join(m[d] for d in ds)


BOUNDARY = [0, 1, 2, 3, 4, R - 1, R - 2, RJ, RJ - 1, RJ + 1, (1 << 252) - 1, 1 << 252, (1 << 254) - 1, 1 << 254,
            (R - 1) // 2, (R + 1) // 2]


def boundary_value(rng, extra=()):
    pool = BOUNDARY + list(extra)
    k = rng.below(10)
    if k < 5:
        return rng.choice(pool) % R
    if k < 7:
        e = rng.below(255)
        return ((1 << e) + rng.choice([-1, 0, 1])) % R
    return rng.fe()


def coeff_value(rng):
    k = rng.below(10)
    if k < 6:
        return rng.choice([0, 1, R - 1, 2, 0, 1])
    if k < 8:
        return rng.below(1000)
    return rng.fe()


def logic_alt_roots(aq, bq, is_xor):
    """values w != aq*bq of the logic product wire for which the per-quad identity delta_xor_and(aq, bq, w, op(aq,bq))
    still vanishes (other roots of its cubic in w): the assignments that only the `w = a*b` component of the logic
    widget rejects"""
    qc = R - 1 if is_xor else 1
    c = (aq ^ bq) if is_xor else (aq & bq)
    s_, q_ = (aq + bq) % R, (aq * aq + bq * bq) % R
    c2, c1 = (81 - 18 * s_) % R, (18 * q_ - 81 * s_ + 83) % R
    w0 = aq * bq % R
    A, Bq = 4, (c2 + 4 * w0) % R
    C = (c1 + w0 * Bq) % R
    sq = sqrt_fr((Bq * Bq - 4 * A * C) % R)
    if sq is None:
        return []
    return [w for w in (((-Bq + sq) * inv(2 * A)) % R, ((-Bq - sq) * inv(2 * A)) % R) if w != w0]


def delta(x):
    return x * (x - 1) * (x - 2) * (x - 3) % R


def delta_inv(t):
    """some y with delta(y) = t, or None (u = y^2 - 3y solves u(u+2) = t)"""
    s1 = sqrt_fr((1 + t) % R)
    if s1 is None:
        return None
    for u in ((-1 + s1) % R, (-1 - s1) % R):
        s2 = sqrt_fr((9 + 4 * u) % R)
        if s2 is not None:
            y = (3 + s2) * inv(2) % R
            assert delta(y) == t % R
            return y
    return None


def delta_xor_and(a, b, w, c, qc):
    ab = (a + b) % R
    f = w * (w * (4 * w - 18 * ab + 81) + 18 * (a * a + b * b) - 81 * ab + 83) % R
    e = (3 * (ab + c) - 2 * f) % R
    bb = qc * (9 * c - 3 * ab) % R
    return (bb + e) % R
