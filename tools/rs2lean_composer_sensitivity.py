#!/usr/bin/env python3
"""Sensitivity test of the composer tie: mutate a SCRATCH COPY of the Rust source, re-translate, rebuild
`Plonk.Props.ComposerTie`; every mutation must make the translator abort or the build fail (the CONTROL is a
semantically neutral edit and must pass).  Restores `GeneratedComposer.lean` from the real repo at the end.

  python3 tools/rs2lean_composer_sensitivity.py [<repo> [<mutation index> ...]]      (default repo: /repo; never written)
"""
import subprocess, shutil, os, sys, re, time, json, tempfile
REPO = sys.argv[1] if len(sys.argv) > 1 else "/repo"
VER = os.path.dirname(os.path.dirname(os.path.abspath(__file__)))
MUT = tempfile.mkdtemp(prefix="repo-mut-")
os.makedirs(MUT + "/src")
GEN = VER + "/lean/Plonk/GeneratedComposer.lean"
C = "src/composer/constraint_system/constraint.rs"
MUTS = [
 ("select_one: .constant(1) -> .constant(2)", "src/composer/select.rs",
  ".output(-BlsScalar::one())\n            .constant(1)", ".output(-BlsScalar::one())\n            .constant(2)"),
 ("component_select: swapped wires a/b in the first gate", "src/composer/select.rs",
  "Constraint::new().mult(1).a(bit).b(a);", "Constraint::new().mult(1).a(a).b(bit);"),
 ("component_select: dropped .constant(1) of the `1 - bit` gate", "src/composer/select.rs",
  "Constraint::new().left(-BlsScalar::one()).constant(1).a(bit);", "Constraint::new().left(-BlsScalar::one()).a(bit);"),
 ("Constraint::fourth sets Selector::Constant", C,
  "self.set(Selector::Fourth, s)", "self.set(Selector::Constant, s)"),
 ("assert_equal: sign of the right coefficient", "src/composer.rs",
  "Constraint::new().left(1).right(-BlsScalar::one()).a(a).b(b);", "Constraint::new().left(1).right(BlsScalar::one()).a(a).b(b);"),
 ("Selector discriminants: PublicInput = 0x07, Arithmetic = 0x06 (moves the EXTERNAL cut)", C,
  "PublicInput = 0x06,", "PublicInput = 0x07,", "Arithmetic = 0x07,", "Arithmetic = 0x06,"),
 ("append_evaluated_output: fast path q_O = 1 returns x instead of -x", "src/composer.rs",
  "if y == &ONE {\n                Some(-x)", "if y == &ONE {\n                Some(x)"),
 ("append_evaluated_output: one limb of MINUS_ONE changed", "src/composer.rs",
  "0xfffffffd00000003,", "0xfffffffd00000004,"),
 ("append_evaluated_output: q_F*d term dropped from x", "src/composer.rs",
  "let x = qm * a * b + ql * a + qr * b + qf * d + qc + pi;", "let x = qm * a * b + ql * a + qr * b + qc + pi;"),
 ("append_dummy_gates: witness 7 -> 8", "src/composer.rs",
  "self.append_witness(BlsScalar::from(7))", "self.append_witness(BlsScalar::from(8))"),
 ("assert_equal_point: y compared before x (gate order)", "src/composer/point.rs",
  "self.assert_equal(*a.x(), *b.x());\n        self.assert_equal(*a.y(), *b.y());",
  "self.assert_equal(*a.y(), *b.y());\n        self.assert_equal(*a.x(), *b.x());"),
 ("append_public: dropped .public(public)", "src/composer.rs",
  ".a(witness)\n            .public(public);", ".a(witness);"),
 ("add_point_gates: x1*y2 witness allocated after x_3 (witness order)", "src/composer/point.rs",
  "let x_1_y_2 = self.append_witness(x1_y2);\n        let x_3 = self.append_witness(x_3);",
  "let x_3 = self.append_witness(x_3);\n        let x_1_y_2 = self.append_witness(x1_y2);"),
 ("add_point_gates: Z = 0 fallback removed from the condition (sum.get_z() == one)", "src/composer/point.rs",
  "let point = if sum.get_z() == BlsScalar::zero() {", "let point = if sum.get_z() == BlsScalar::one() {"),
 ("from_external: has_public_input no longer copied", C,
  "s.has_public_input = constraint.has_public_input();", ""),
 ("append_custom_gate_internal: q_l read from Selector::Right", "src/composer.rs",
  "let q_l = *constraint.coeff(Selector::Left);", "let q_l = *constraint.coeff(Selector::Right);"),
 ("WitnessPoint::x returns the y coordinate", "src/composer/constraint_system/ecc.rs",
  "pub const fn x(&self) -> &Witness {\n        &self.x", "pub const fn x(&self) -> &Witness {\n        &self.y"),
 ("EIGHT_INV: one limb changed", "src/composer/point.rs", "0x5a12e1cbdadee597,", "0x5a12e1cbdadee598,"),
 ("logic_xor: q_c set to +1", C,
  ".set(Selector::Constant, -BlsScalar::one())", ".set(Selector::Constant, BlsScalar::one())"),
 ("component_neg_point: negates with q_L = +1", "src/composer/point.rs",
  "Constraint::new().left(-BlsScalar::one()).a(*p.x());", "Constraint::new().left(BlsScalar::one()).a(*p.x());"),
 ("append_constant_point: subgroup check dropped from is_member", "src/composer/point.rs",
  "let is_member = point.is_on_curve() & point.is_torsion_free();", "let is_member = point.is_on_curve() & point.is_on_curve();"),
 ("CONTROL (semantically neutral): component_boolean without .d(zero) — d defaults to the zero witness", "src/composer/bits.rs",
  ".c(a)\n            .d(zero);", ".c(a);"),
 ("out of subset: a `for` loop inside component_select_zero", "src/composer/select.rs",
  "let constraint = Constraint::new().mult(1).a(bit).b(value);\n\n        self.gate_mul(constraint)",
  "let constraint = Constraint::new().mult(1).a(bit).b(value);\n        for _ in 0..1 {}\n        self.gate_mul(constraint)"),
 ("listed function renamed: component_select_one -> component_select_uno", "src/composer/select.rs",
  "pub fn component_select_one(", "pub fn component_select_uno("),
 ("new Selector variant", C, "GroupAddVariableBase = 0x0b,", "GroupAddVariableBase = 0x0b,\n    Lookup = 0x0c,"),
]
def sh(cmd, cwd=None, timeout=3000):
    p = subprocess.run(cmd, cwd=cwd, capture_output=True, text=True, timeout=timeout)
    return p.returncode, p.stdout + p.stderr
def build():
    rc, out = sh(["lake", "build", "Plonk.Props.ComposerTie"], cwd=VER + "/lean")
    errs = [l for l in out.splitlines() if l.startswith("error:")]
    return rc, errs
res = []
only = sys.argv[2:]
for i, m in enumerate(MUTS):
    if only and str(i) not in only: continue
    name, rel = m[0], m[1]
    pairs = list(zip(m[2::2], m[3::2]))
    shutil.rmtree(MUT + "/src"); shutil.copytree(REPO + "/src", MUT + "/src")
    p = os.path.join(MUT, rel); s = open(p).read()
    for a, b in pairs:
        if s.count(a) != 1:
            print("MUTATION %d: anchor found %d times: %r" % (i, s.count(a), a)); sys.exit(1)
        s = s.replace(a, b)
    open(p, "w").write(s)
    t0 = time.time()
    rc, out = sh([sys.executable, VER + "/tools/rs2lean_composer.py", MUT, GEN])
    if rc != 0:
        r = dict(i=i, name=name, result="TRANSLATOR ABORTS (exit %d)" % rc, detail=out.strip().splitlines()[-1])
    else:
        brc, errs = build()
        if brc != 0:
            first = errs[0] if errs else "?"
            r = dict(i=i, name=name, result="BUILD FAILS", detail=re.sub(r"^error: ", "", first)[:160], nerr=len(errs))
        else:
            r = dict(i=i, name=name, result="build passes", detail="")
    r["secs"] = int(time.time() - t0)
    print(json.dumps(r), flush=True)
    res.append(r)
# restore
rc, out = sh([sys.executable, VER + "/tools/rs2lean_composer.py", REPO, GEN]); print(out.strip())
brc, errs = build()
print("RESTORED: translator rc=%d, build rc=%d" % (rc, brc))
shutil.rmtree(MUT)
bad = [r for r in res if (r["result"] == "build passes") != r["name"].startswith("CONTROL")]
print("SENSITIVITY: %d mutations, %d unexpected" % (len(res), len(bad)))
sys.exit(1 if bad or rc or brc else 0)
