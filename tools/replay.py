#!/usr/bin/env python3
"""Replay a violation file written by run_check.py: re-run its request(s) on the implementation (harness)
and on the Lean model (driver) and print both outputs next to what was recorded.

  python3 tools/replay.py replay/C09/<name>.json
"""
import json, os, subprocess, sys

VERIF = os.path.dirname(os.path.dirname(os.path.abspath(__file__)))


def run(binary, args, lines):
    p = subprocess.run([binary] + args, input="\n".join(lines) + "\n", stdout=subprocess.PIPE, stderr=subprocess.PIPE, text=True)
    return [l for l in p.stdout.split("\n") if l]


def main():
    d = json.load(open(sys.argv[1]))
    print("property:", d.get("property"), " key:", d.get("key"), " seed:", d.get("seed"), " tier:", d.get("tier"))
    print("kind:", d.get("kind"), "\nwhy:", d.get("why"))
    reqs = []
    if "request" in d:
        reqs.append(d["request"])
    reqs += d.get("requests", [])
    reqs = [r for r in reqs if r and not r.endswith(" ...") and not r.endswith("…")]
    if not reqs:
        print("no replayable request line in this file (see fields:", ", ".join(d.keys()), ")")
        return
    prof = "checked" if d.get("property") in ("C07", "C13", "C17") else "release"
    h = os.path.join(VERIF, "harness", "target", prof, "plonk-verif-harness")
    m = os.path.join(VERIF, "lean", ".lake", "build", "bin", "driver")
    io = run(h, ["run"], reqs)
    mo = run(m, [], reqs)
    for r, a, b in zip(reqs, io, mo):
        print("\nrequest:", r[:300] + (" …" if len(r) > 300 else ""))
        print("  impl now :", a[:400])
        print("  model now:", b[:400])
    if "impl_output" in d:
        print("\nrecorded impl output :", str(d["impl_output"])[:400])
    if "model_output" in d:
        print("recorded model output:", str(d["model_output"])[:400])


if __name__ == "__main__":
    main()
