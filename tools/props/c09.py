"""C09 — range check admits exactly [0, 2^BITS)."""
from plib import *
from props.builder import Prog
from props.common import ProgRunner

EXTRA_AUDITS = ["WidgetTie"]
LEAN_TARGETS = ["Plonk.Props.C09", "Plonk.Props.WidgetTie"]
ASSUMPTIONS = ["prover success coincides with 'every row identity holds' outside explicit bad-challenge sets (RO assumption)"]
THEOREMS_NOTE = "Plonk/Props/C09.lean"


def values_for(rng, w):
    top = 1 << w
    vs = []
    if w <= 254:
        vs += [(top - 1) % R, top % R, (top + 1) % R]
    vs += [0, R - 1, rng.fe() % max(top, 1) if w <= 255 else rng.fe(), rng.fe()]
    # just above multiples of 8 bits (quad padding boundaries)
    k = (w // 8) * 8
    vs.append(((1 << k) + 1) % R)
    return vs


def one(rng, op, w, v, forge=False):
    p = Prog(); p.tags = [op, "width-%s" % ("even" if w % 2 == 0 else "odd")]
    x = p.w(v)
    nw_before = p.nwit0 + 1
    if op == "range":
        p.rangepairs(w, x); bits = min(2 * w, 256)
    else:
        p.rangebits(w, x, op); bits = w
    inr = v < (1 << bits)
    p.tags.append("in-range" if inr else "out-of-range")
    if bits >= 255:
        p.tags.append("width>=255")
    if forge and not inr and bits % 2 == 1 and op != "range":
        # odd width, adversarial internal witnesses: lower := v (its accumulators := integer prefixes of v),
        # top_bit := 0, recomposed := v  — every row but the range check of `lower` is then satisfied
        k = (bits - 1) // 2
        lower = nw_before
        p.op("setw #%d %s" % (lower, hx(v)))
        for j in range(k):
            p.op("setw #%d %s" % (lower + 1 + j, hx((v >> (2 * (k - 1 - j))) % R)))
        p.op("setw #%d 0" % (lower + 1 + k))
        p.op("setw #%d %s" % (lower + 2 + k, hx(v)))
        p.tags.append("forged-odd-split")
    if forge and not inr and bits >= 2 and bits % 2 == 0:
        # adversarial accumulators: integer prefixes of v itself (top digit >= 4), so that the last
        # accumulator equals v and the closing assert_equal holds
        k = bits // 2
        for j in range(k):
            p.op("setw #%d %s" % (nw_before + j, hx((v >> (2 * (k - 1 - j))) % R)))
        p.tags.append("forged-accumulators")
    return p.case()


def cases(rng, tier):
    out = []
    per = 2 if tier == "quick" else 8
    for w in range(0, 257):
        vs = values_for(rng, w)
        st = rng.below(len(vs))
        picks = [vs[(st + i) % len(vs)] for i in range(per)]
        if w <= 254:
            picks[0] = (1 << w) - 1 if w > 0 else 0          # always the largest admissible …
            picks[-1] = (1 << w) % R                           # … and the smallest inadmissible value
        for i, v in enumerate(picks):
            out.append(one(rng, "rangebits", w, v, forge=(i % 2 == 1)))
    for pairs in range(0, 133):
        bits = min(2 * pairs, 256)
        v = rng.choice([(1 << bits) - 1 if bits else 0, (1 << bits) % R, rng.fe()]) % R
        out.append(one(rng, "range", pairs, v))
    for w in rng_sample(rng, 257, 24 if tier == "quick" else 257):
        out.append(one(rng, "rangert", w, rng.choice(values_for(rng, w))))
    # the composer's built-in constant witnesses (Composer::ZERO = #0, Composer::ONE = #1) as the checked value
    for w in ([0, 1, 2, 3, 4, 7, 8, 64, 254, 255, 256] if tier == "quick" else range(0, 257)):
        for h, v in (("#0", 0), ("#1", 1)):
            for op in ("rangebits", "rangert"):
                p = Prog(); p.tags = [op, "constant-handle", "in-range" if v < (1 << w) else "out-of-range"]
                p.rangebits(w, h, op)
                out.append(p.case())
    for pairs in ([0, 1, 2, 127, 128] if tier == "quick" else range(0, 133)):
        for h, v in (("#0", 0), ("#1", 1)):
            p = Prog(); p.tags = ["range", "constant-handle"]
            p.rangepairs(pairs, h)
            out.append(p.case())
    return out


def rng_sample(rng, n, k):
    return sorted(set(rng.below(n) for _ in range(k)))


def entry_point_cases(rng):
    """both entry points must emit identical gates: compare impl shapes directly"""
    out = []
    for p_ in range(0, 133):
        v = rng.fe() % (1 << min(2 * p_, 255) or 1)
        a = Prog(); x = a.w(v); a.rangepairs(p_, x)
        b = Prog(); y = b.w(v); b.rangebits(min(2 * p_, 256), y)
        out.append((a.src(), b.src()))
    return out


def run(ctx, broken):
    rng = SplitMix(ctx.seed * 1000003 + 9)
    r = ProgRunner(ctx, "C09")
    from props.c05 import cancel_cases
    r.run(cases(rng, ctx.tier) + cancel_cases(rng, ("range",), 1 if ctx.tier == "quick" else 8))
    # LAYOUT-DRIVEN forging: the accumulators are whatever witnesses the implementation's gadget ACTUALLY allocates (read from a
    # dump of the real composer), all set to the true base-4 prefixes of an out-of-range value, so that every quad relation and
    # the closing equality hold and only the anchoring of the FIRST accumulator can reject it. (An extra leading slot, a
    # missing zero anchor or a shifted first row lets such an assignment through.)
    widths = ([2, 4, 6, 8, 10, 12, 14, 16, 22, 30, 38, 46, 62, 64, 126, 190, 246, 248, 250, 252, 254] if ctx.tier == "quick"
              else list(range(2, 255, 2)))
    specs = []
    for w in widths:
        for v in ((1 << w), 3 << w, (1 << (w + 2)) - 1, (1 << w) + 1 + rng.below(1 << min(w, 60))):
            if v < R:
                specs.append((w, v))
    dumps = ctx.impl(["dump w %s;rangebits %d $0" % (hx(v), w) for (w, v) in specs])
    forged = []
    for (w, v), d in zip(specs, dumps):
        if not d.startswith("G ") or " W " not in d:
            continue
        nw = len(d.split(" W ")[1].split(" P ")[0].split(","))
        p = Prog(); x = p.w(v)
        first = p.nwit0 + 1
        k = nw - first
        if k <= 0:
            continue
        p.tags = ["rangebits", "layout-driven-forged-accumulators", "out-of-range"]
        p.rangebits(w, x)
        for j in range(k):
            p.op("setw #%d %s" % (first + j, hx((v >> (2 * (k - 1 - j))) % R)))
        forged.append(p.case())
    r.run(forged)
    # entry points agree (implementation-vs-property, reported separately)
    pairs = entry_point_cases(rng)
    lines = []
    for a, b in pairs:
        lines += ["shape " + a, "shape " + b]
    outs = ctx.impl(lines)
    bad = 0
    from props.common import parse
    for i, (a, b) in enumerate(pairs):
        da, db = parse(outs[2 * i]), parse(outs[2 * i + 1])
        if any(da.get(k) != db.get(k) for k in ("gates", "wit", "hg", "hw", "hpr")):
            bad += 1
            if bad == 1:
                ctx.violation("impl:entry-points-differ:%d" % i, {
                    "kind": "implementation-vs-property",
                    "why": "component_range::<P> and component_range_bits::<2P> emit different gates",
                    "requests": [lines[2 * i], lines[2 * i + 1]], "outputs": [outs[2 * i], outs[2 * i + 1]]})
    st = r.report(broken)
    st["evaluations"] += len(pairs)
    st["entry_point_pairs_compared"] = len(pairs)
    st["exhaustive_in_width"] = True
    st["rule"] = ("every width 0..=256 through component_range_bits (layout exhaustive), every pair count 0..=132 through "
                  "component_range, runtime seam widths sampled; values 2^w-1, 2^w, 2^w+1, r-1, 0, random, 2^(8*floor(w/8))+1; "
                  "for out-of-range values adversarial accumulators (integer prefixes of v) via verif_set_witness, also LAYOUT-DRIVEN (every witness the real gadget allocates set to the base-4 prefixes of 2^w, 3*2^w, 2^(w+2)-1); each case: "
                  "layout/witness hashes impl vs model, prove+verify outcome vs model sysSat and vs 'v < 2^w' (Python oracle).")
    return st
