"""C01 — completeness: every satisfied circuit proves and verifies (all three key routes)."""
from plib import *
from props.common import LineRunner
from props.pcommon import *

LEAN_TARGETS = ["Plonk.Props.C01", "Plonk.Props.C01Complete", "Plonk.Props.ProverTie"]
EXTRA_AUDITS = ['C01Complete', "ProverTie"]
ASSUMPTIONS = ["pairing decided in the trapdoor view; commitments of the model prover are [p(x)]g (C20 commit_eval)",
               "degenerate blinders (e.g. all-zero RNG output) are excluded, as the property allows"]
TRUSTED = ["dusk-bls12_381 / merlin re-implemented in the model and compared",
           "msgpacker / miniz_oxide (compressed route) exercised, not modelled"]
THEOREMS_NOTE = "Plonk/Props/C01.lean"


def run(ctx, broken):
    rng = SplitMix(ctx.seed * 1000003 + 1)
    r = LineRunner(ctx, "C01")
    cs = []
    srs = srs_draws(rng)
    kmax = 5 if ctx.tier == "quick" else 7
    # every constraint count within +-8 of every power of two; SRS degree chosen "just enough" / "one too small"
    for k in range(3, kmax + 1):
        offs = range(-8, 9) if ctx.tier != "quick" else [-8, -7, -6, -5, -1, 0, 1, 2, 3, 8]
        for off in offs:
            gates = (1 << k) + off
            if gates < 5:
                continue
            size = 1
            while size < gates + 6:
                size *= 2
            need = size      # pp.max_degree() must be >= size + 6; setup(deg) gives max_degree = deg + 6
            for deg, expect in ((need, None), (need - 1, "err:compile:TruncatedDegreeTooLarge")):
                if expect and ctx.tier == "quick" and off not in (-6, -5, 0, 1):
                    continue
                last = gates - 1
                pis = rng.choice([(4,), (last,), (4, 5), (last - 1, last), (4, last), ()])
                p = sized_program(rng, gates, pis)
                draws = [draw_hex(rng) for _ in range(14)]
                label = rng.choice([b"plonk", b"", b"x" * (1 + rng.below(64)), bytes([rng.below(256) for _ in range(rng.below(20))])])
                c = {"line": prove_line(srs, deg, label, draws, 3, p.src(), routes=(expect is None)),
                     "tags": ["gates=2^k%+d" % off, "srs-enough" if expect is None else "srs-one-too-small", "pis=%d" % len(pis)]}
                if expect:
                    c["expect_prefix"] = expect
                cs.append(c)
    # MANY public inputs (batched / chunked processing of the public-input vector on the verifier side): counts around
    # multiples of 16 and 32, all non-zero, and with zero-valued ones mixed in
    for m in ([15, 31, 33, 40] if ctx.tier == "quick" else [15, 16, 17, 30, 31, 32, 33, 40, 47, 48, 49, 63, 64, 65, 100]):
        for zeros in (False, True):
            if zeros and ctx.tier == "quick" and m != 33:
                continue
            gates = m + 4 + rng.below(6)
            rows = tuple(range(4, 4 + m))
            p = sized_program(rng, gates, rows)
            src = p.src()
            if zeros:      # every third public input is zero-valued (filtered out of the sparse evaluation)
                ops = src.split(";"); k = 0
                for i_, op in enumerate(ops):
                    if op.startswith("pub "):
                        k += 1
                        if k % 3 == 0:
                            ops[i_] = "pub 0"
                src = ";".join(ops)
            size = 1
            while size < gates + 6:
                size *= 2
            draws = [draw_hex(rng) for _ in range(14)]
            cs.append({"line": prove_line(srs, size, b"many-pis", draws, 3, src, routes=True),
                       "tags": ["many-public-inputs", "pis=%d" % m] + (["zero-valued-pis"] if zeros else [])})
    # a DENSE satisfied circuit: every gate brings six fresh full-width coefficients and the circuit fills the capacity of the
    # parameters almost completely (the largest compressed description a given capacity has to admit), all three routes
    for rep in range(1 if ctx.tier == "quick" else 4):
        p = Prog()
        for _ in range(20):
            q = [rng.fe() for _ in range(6)]
            if q[3] == 0:
                q[3] = 1
            a, b, d = p.w(rng.fe()), p.w(rng.fe()), p.w(rng.fe())
            x = (q[0] * p.val(a) * p.val(b) + q[1] * p.val(a) + q[2] * p.val(b) + q[4] * p.val(d) + q[5]) % R
            c = p.w((-x) * inv(q[3]) % R)
            p.gate(q, None, a, b, c, d)
        draws = [draw_hex(rng) for _ in range(14)]
        cs.append({"line": prove_line(srs, 32, b"dense", draws, 3, p.src(), routes=True), "tags": ["dense-circuit-at-capacity"],
                   "expect_proof": True})
    # gadget-heavy circuits through all three routes
    for i in range(2 if ctx.tier == "quick" else 12):
        p = PProg()
        x = p.w(rng.fe() % 1000); p.rangebits(10, x); y = p.w(rng.fe()); p.logic("xor", 3, x, y); p.pub(rng.fe())
        P = random_subgroup_point(rng); a, _ = p.pt(ext_of(P)); p.add(a, a); p.tf(a)
        tags = ["gadget-circuit"]
        if i % 2 == 0:      # every widget incl. the fixed-base one in one circuit (n = 512)
            sc = p.w(rng.fe() % RJ); p.mulgen(sc, ext_of(random_subgroup_point(rng))); tags.append("all-widgets")
        draws = [draw_hex(rng) for _ in range(14)]
        cs.append({"line": prove_line(srs, 1100, b"gadgets", draws, 3, p.src(), routes=True), "tags": tags})
    # selectors taken from the built-in scalar dictionary of the compressed format (Hades round constants, MDS entries)
    from props.c15 import circuits as c15_circuits
    for i in range(1 if ctx.tier == "quick" else 6):
        src = c15_circuits(rng, 7 + 7 * i)[6 + 7 * i]
        draws = [draw_hex(rng) for _ in range(14)]
        cs.append({"line": prove_line(srs, 200, b"dict", draws, 3, src, routes=True), "tags": ["dictionary-constants-circuit"]})
    r.run(cs)
    # property-level expectations on the implementation
    for c, in [(c,) for c in cs]:
        pass
    st = r.report()
    st["rule"] = ("constraint counts 2^k+off for k=3..%d, off in -8..8 (padding 6 / blinding 6 / next-power-of-two interplay), "
                  "SRS degree exactly sufficient and one too small, public inputs on the first user row / last row / adjacent rows / "
                  "none, 15..40 (thorough: ..100) public inputs incl. zero-valued ones, random labels (0..64 bytes); a dense circuit at capacity (six fresh full-width coefficients per gate), gadget circuits (one with every widget), a circuit whose selectors are entries of the "
                  "compressed format's built-in dictionary. Per case the real compile+prove (scripted RNG) must give the "
                  "byte-identical proof of the Lean specification prover, its own verifier and the Lean model verifier must accept, "
                  "keys compiled from the compressed description and keys decoded from bytes must be identical and prove/verify "
                  "identically." % kmax)
    return st
