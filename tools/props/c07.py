"""C07 — circuit shape is independent of witness values; generation is total."""
from plib import *
from props.common import ProgRunner, parse

EXTRA_AUDITS = ["ComposerTie"]
LEAN_TARGETS = ["Plonk.Props.C07", "Plonk.Props.ComposerTie"]
PROFILE = "checked"          # debug assertions + overflow checks: panics must show
ASSUMPTIONS = ["the Rust allocator does not abort on the (small) circuits generated here"]
THEOREMS_NOTE = "Plonk/Props/C07.lean"

SHAPE = ("gates", "wit", "pis", "hg", "hpr", "hr")
# templates whose varying argument is a circuit CONSTANT (it is written into selectors), not a witness value: the shape
# legitimately depends on it, so value vectors of these templates are not compared with each other (no-panic and the
# comparison with the model still apply)
CONSTANT_VARIES = {"cpt", "mulgen-badgen"}


def special_values(rng):
    return [0, 1, R - 1, 2, RJ, RJ - 1, (1 << 252) - 1, 1 << 252, (1 << 254), rng.fe(), rng.fe(), (1 << rng.below(255)),
            ((1 << rng.below(255)) - 1) % R]


class V:
    """value source: k-th draw of value vector j"""
    def __init__(self, rng, mode="random"):
        self.rng = rng
        self.mode = mode          # "zero": the Default instance (every value 0, every point the identity); "same": one
        self.same = None          # random value for EVERY field operand (equal operands); "one": every value 1
        if mode == "same":
            self.same = rng.fe()

    def fe(self):
        if self.mode == "zero":
            return "0"
        if self.mode == "one":
            return "1"
        if self.mode == "same":
            return hx(self.same)
        return hx(self.rng.choice(special_values(self.rng)))

    def ext(self):
        r = self.rng
        if self.mode in ("zero", "one"):
            return ext_str((0, 1, 1, 0, 0))                              # the identity, as `Default` instances hold
        k = r.below(8)
        if k == 0:
            return ext_str((r.fe(), r.fe(), 0, r.fe(), r.fe()))          # Z = 0
        if k == 1:
            return ext_str((0, 0, 1, 0, 0))                              # (0,0)
        if k == 2:
            P = random_subgroup_point(r); e = ext_of(P, z=r.fe() or 1)
            return ext_str((e[0], e[1], e[2], e[3], (e[4] + 1) % R))     # inconsistent T
        if k == 3:
            return ext_str(ext_of((r.fe(), r.fe())))                     # off curve
        if k == 4:
            return ext_str(ext_of(random_curve_point(r)))                # curve, maybe torsion part
        return ext_str(ext_of(random_subgroup_point(r), z=r.choice([1, 7, R - 1])))


    def pole(self):
        """four raw coordinates (x1 y1 x2 y2), mostly ON a pole of the addition law: d*x1*x2*y1*y2 = +1 / -1"""
        r = self.rng
        x1, y1, x2 = (r.choice([2, 3, 5, r.fe() or 1]) for _ in range(3))
        k = r.below(5)
        if k == 4:
            y2 = r.fe()
        else:
            y2 = (1 if k % 2 == 0 else R - 1) * inv(D * x1 % R * y1 % R * x2 % R) % R
        if k >= 2:
            x1, y1, x2, y2 = x2, y2, x1, y1
        return "w %s;w %s;w %s;w %s" % (hx(x1), hx(y1), hx(x2), hx(y2))


def templates():
    """(name, fn(V) -> program text, shape-relevant constants fixed inside the template)"""
    T = []
    for w in range(0, 257):
        T.append(("rangebits-%d" % w, lambda v, w=w: "w %s;rangebits %d $0" % (v.fe(), w)))
    for p_ in list(range(0, 133, 3)) + [128, 129, 132]:
        T.append(("range-%d" % p_, lambda v, p_=p_: "w %s;range %d $0" % (v.fe(), p_)))
    for p_ in range(0, 128):
        T.append(("and-%d" % p_, lambda v, p_=p_: "w %s;w %s;and %d $0 $1" % (v.fe(), v.fe(), p_)))
        T.append(("xor-%d" % p_, lambda v, p_=p_: "w %s;w %s;xor %d $0 $1" % (v.fe(), v.fe(), p_)))
    for n in range(0, 255):
        T.append(("trunc-%d" % n, lambda v, n=n: "w %s;trunc %d $0" % (v.fe(), n)))
    for n in range(1, 257):
        T.append(("decomp-%d" % n, lambda v, n=n: "w %s;decomp %d $0" % (v.fe(), n)))
    T.append(("arith", lambda v: "w %s;w %s;w %s;gate 1 2 3 4 5 6 - $0 $1 $2 $0;evalout 1 1 1 0 1 1 - $0 $1 $2;"
                                  "evalout 2 1 1 3 1 1 - $0 $1 $2;gadd 0 1 1 1 7 - $0 $1 $2;gmul 1 0 0 1 7 - $0 $1 $2;aeq $0 $1;"
                                  "aeqc $2 5 -;bool $0;sel $0 $1 $2;sel1 $0 $1;sel0 $0 $1" % (v.fe(), v.fe(), v.fe())))
    T.append(("pub", lambda v: "pub %s;w %s;aeqc $1 9 %s" % (v.fe(), v.fe(), v.fe())))
    T.append(("points", lambda v: "pt %s;pt %s;add $0 $1 $2 $3;sub $0 $1 $2 $3;neg $0 $1;w %s;selid $10 $0 $1;selpt $10 $0 $1 $2 $3;"
                                   "aeqpt $0 $1 $2 $3;tf $0 $1" % (v.ext(), v.ext(), v.fe())))
    for op in ("addraw", "add", "sub"):
        T.append(("pole-" + op, lambda v, op=op: "%s;%s $0 $1 $2 $3" % (v.pole(), op)))
    # the composer's constant witnesses #0 / #1 as gadget operands
    for w in (0, 1, 2, 3, 64, 255, 256):
        T.append(("const-rangebits-%d" % w, lambda v, w=w: "rangebits %d #1;rangebits %d #0;rangert %d #1" % (w, w, min(w, 254))))
    T.append(("const-gadgets", lambda v: "and 3 #1 #1;xor 3 #0 #1;trunc 5 #1;trunc 0 #1;decomp 4 #1;sel #1 #0 #1;bool #1;bool #0;"
                                          "aeq #0 #0;gadd 0 1 1 0 0 - #1 #1 #0;range 0 #1;range 1 #1"))
    T.append(("cpt", lambda v: "cpt %s" % v.ext()))
    T.append(("ppt", lambda v: "ppt %s;w 1;w 1;aeqppt $2 $3 %s" % (v.ext(), v.ext())))
    T.append(("mulpt", lambda v: "pt %s;w %s;mulpt $2 $0 $1" % (v.ext(), v.fe())))
    T.append(("mulgen", lambda v: "w %s;mulgen $0 %s" % (v.fe(), ext_str(ext_of(GEN)))))
    T.append(("mulgen-badgen", lambda v: "w %s;mulgen $0 %s" % (v.fe(), v.ext())))
    G2_ = random_subgroup_point(SplitMix(99))
    T.append(("mulgen-gen2", lambda v: "w %s;mulgen $0 %s" % (v.fe(), ext_str(ext_of(G2_, z=5)))))
    T.append(("tfq", lambda v: "pt %s;tfq $0 $1 %s %s" % (v.ext(), v.fe(), v.fe())))
    return T


def run(ctx, broken):
    rng = SplitMix(ctx.seed * 1000003 + 7)
    T = templates()
    reps = 3 if ctx.tier == "quick" else 12
    heavy = {"mulpt", "mulgen", "mulgen-badgen", "mulgen-gen2"}
    cases, groups = [], []
    for name, fn in T:
        k = reps if name not in heavy else (3 if ctx.tier == "quick" else 8)
        if name.startswith("pole-"):
            k = 10 if ctx.tier == "quick" else 40
        if ctx.tier == "quick" and name.split("-")[0] in ("and", "xor", "trunc", "decomp", "rangebits") and len(name.split("-")) > 1:
            k = 2
        idx = []
        for j in range(k):
            # vector 0 is the DEFAULT instance (all zero: what the keys are compiled from), vector 1 random, then equal operands,
            # all ones, random ...
            mode = ["zero", "random", "same", "one"][j] if j < 4 else "random"
            if name.startswith("pole-"):
                mode = "random"
            src = fn(V(rng, mode))
            idx.append(len(cases))
            cases.append({"src": src, "cmd": "shape", "tags": [name.split("-")[0]], "expect": None, "rv": None})
        groups.append((name, idx))
    r = ProgRunner(ctx, "C07")
    r.run(cases, cmd="shape")
    # shape independence on the implementation alone (implementation-vs-property)
    lines = ["shape " + c["src"] for c in cases]
    outs = ctx.impl(lines)
    n_cmp = 0
    reported = False
    for name, idx in groups:
        ds = [parse(outs[i]) for i in idx]
        for i, d in zip(idx, ds):
            if d["_kind"] in ("panic", "crash") and not reported:
                reported = True
                ctx.violation("impl:panic:" + name, {"kind": "implementation-vs-property", "why": "component panicked",
                                                      "request": lines[i], "impl_output": outs[i]})
        ok = [d for d in ds if d["_kind"] == "ok" and d.get("errs") == "[]"]
        if name in CONSTANT_VARIES:
            ok = ok[:1]
        for d in ok[1:]:
            n_cmp += 1
            if any(d.get(k) != ok[0].get(k) for k in SHAPE) and not reported:
                reported = True
                ctx.violation("impl:shape-depends-on-values:" + name, {
                    "kind": "implementation-vs-property",
                    "why": "the same component calls emitted different gates for different witness values",
                    "requests": [lines[i] for i in idx], "impl_outputs": [outs[i] for i in idx]})
    st = r.report(broken)
    st["shape_pairs_compared"] = n_cmp
    st["templates"] = len(T)
    st["exhaustive_in_width"] = True
    st["rule"] = ("every public component, every const-generic width (range_bits 0..=256, range pairs, logic and/xor 0..=127, "
                  "truncate 0..=254, decomposition 1..=256), arithmetic/select/point/mul components; 2-3 value vectors per template, the FIRST being the all-zero / identity Default instance the keys are compiled from, then random, all-equal operands, all ones "
                  "(12 in thorough) from {0,1,-1,2,r_J,r_J-1,2^252-1,2^252,2^254,2^k,2^k-1,random} and malformed points (Z=0,(0,0),"
                  "inconsistent T, off-curve, torsion), raw addends on both poles d*x1*x2*y1*y2 = +-1 of the addition law; debug-assertions+overflow-checks build. Checked: no panic; same gates/"
                  "public-input rows/witness count across value vectors unless an error is returned; impl shape == Lean model shape.")
    return st
