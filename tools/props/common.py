"""Shared machinery for the composer-program ("prog") based properties C05, C07-C14."""
import json, os, sys
from plib import R, hx

HK = 0x1f3d5b79a2c4e6081f3d5b79a2c4e6081f3d5b79a2c4e6081f3d5b79a2c4e609 % R
SHAPE_KEYS = ["gates", "wit", "pis", "hg", "hw", "hp", "hpr", "hr", "rv", "errs"]


def hash_list(xs):
    h = 0
    for x in xs:
        h = (h * HK + x + 1) % R
    return h


def parse(line):
    d = {"_raw": line}
    toks = line.split()
    if not toks:
        d["_kind"] = "empty"
        return d
    if toks[0] in ("panic", "bad-request", "crash") or toks[0].startswith("bad-op"):
        d["_kind"] = toks[0]
        return d
    d["_kind"] = "ok"
    for i, t in enumerate(toks):
        if "=" in t:
            k, v = t.split("=", 1)
            d[k] = v
        elif t in ("sat", "unsat", "sizeerr"):
            d["sat"] = t
    return d


def impl_verdict(d):
    """'sat' / 'unsat' / other string for the implementation's prove+verify outcome"""
    if d["_kind"] != "ok":
        return d["_kind"]
    if "compile" in d:
        return "compile:" + d["compile"]
    p = d.get("prove")
    if p == "ok":
        return "sat" if d.get("verify") == "ok" else "proof-fails-verification:" + str(d.get("verify"))
    if p == "unsat":
        return "unsat"
    if p == "sizeerr":
        return "sizeerr"
    return "prove:" + str(p)


class ProgRunner:
    """Runs `prog` cases on the implementation and the model and classifies disagreements."""

    def __init__(self, ctx, prop):
        self.ctx, self.prop = ctx, prop
        self.n = 0
        self.distinct = set()
        self.dist = {}
        self.samples = []
        self.model_mismatch = []   # (case, impl, model, why)
        self.impl_fail = []        # (case, impl, why)

    def tag(self, t):
        self.dist[t] = self.dist.get(t, 0) + 1

    def run(self, cases, cmd="prog", env=None):
        """cases: list of dict(src=..., expect=None|'sat'|'unsat', rv=None|[values], tags=[...], nontrivial=bool)"""
        if not cases:
            return
        lines = ["%s %s" % (c.get("cmd", cmd), c["src"]) for c in cases]
        impl = self.ctx.impl(lines, env=env)
        model = self.ctx.model(lines)
        for c, io, mo in zip(cases, impl, model):
            self.n += 1
            for t in c.get("tags", []):
                self.tag(t)
            if c.get("nontrivial", True):
                self.distinct.add(c["src"])
            if io.startswith("bad-request") or mo.startswith("bad-request"):
                self.ctx.violation("machinery:bad-request", {"why": "a generated request was not understood", "request": lines[0][:10] + "…",
                                                              "case": c["src"][:600], "impl_output": io[:100], "model_output": mo[:100]}, no_input=True)
                continue
            di, dm = parse(io), parse(mo)
            if len(self.samples) < 6 and self.n % 7 == 1:
                self.samples.append({"request": (c.get("cmd", cmd) + " " + c["src"])[:300],
                                     "impl": io[:200], "model": mo[:200]})
            # --- panics are never acceptable
            if di["_kind"] in ("panic", "crash") or di.get("prove") == "panic":
                self.tag("impl-panic")
                self.impl_fail.append((c, io, "the implementation panicked / crashed"))
                continue
            model_usable = True
            if di["_kind"] != dm["_kind"]:
                self.model_mismatch.append((c, io, mo, "kind %s vs %s" % (di["_kind"], dm["_kind"])))
                if di["_kind"] != "ok":
                    continue
                # the implementation answered: its outcome is still judged against the property's own expectation below
                model_usable = False
                dm = {"_kind": "none"}
            if di["_kind"] != "ok":
                self.tag("rejected-op")
                continue
            diff = [k for k in SHAPE_KEYS if di.get(k) != dm.get(k)] if model_usable else []
            if diff:
                self.model_mismatch.append((c, io, mo, "shape fields differ: %s" % ",".join(diff)))
            # --- expectation from the property statement (implementation-vs-property)
            if c.get("rv") is not None:
                want = "%x" % hash_list(c["rv"])
                if di.get("rv") != want:
                    self.impl_fail.append((c, io, "returned witness values differ from the property's relation (want rv=%s)" % want))
            if c.get("cmd", cmd) in ("prog", "prog2"):
                iv = impl_verdict(di)
                self.tag("impl:" + iv.split(":")[0])
                if iv.startswith("proof-fails-verification"):
                    self.impl_fail.append((c, io, "prover returned a proof that its own verifier rejects"))
                mv = dm.get("sat")
                V3 = ("sat", "unsat", "sizeerr")
                if iv in V3 and mv in V3 and iv != mv:
                    self.model_mismatch.append((c, io, mo, "impl %s vs model %s" % (iv, mv)))
                if iv not in V3 and not iv.startswith("proof-fails") and model_usable:
                    self.model_mismatch.append((c, io, mo, "impl outcome %s has no model counterpart" % iv))
                if c.get("expect") == "sizeerr" and iv != "sizeerr":
                    self.impl_fail.append((c, io, "the instance has another number of constraints / public-input rows than the compiled "
                                                  "description: the property prescribes the size-mismatch error, implementation says %s" % iv))
                if c.get("expect") in ("sat", "unsat") and iv in ("sat", "unsat") and iv != c["expect"]:
                    self.impl_fail.append((c, io, "property says %s, implementation says %s" % (c["expect"], iv)))
                elif c.get("expect") in ("sat", "unsat") and iv.startswith("prove:"):
                    # the prover answered with something else than a proof / the unsatisfied-circuit error (e.g. a commitment
                    # error after a missed detection): the property allows only those two (and the size mismatch)
                    self.impl_fail.append((c, io, "property says %s, the prover returned another error: %s" % (c["expect"], iv)))
                if c.get("expect") in ("sat", "unsat") and mv in ("sat", "unsat") and mv != c["expect"]:
                    # the model disagrees with the property's own relation: my machinery is wrong
                    self.model_mismatch.append((c, io, mo, "model %s vs property expectation %s" % (mv, c["expect"])))

    def report(self, broken=None):
        ctx = self.ctx
        for (c, io, why) in self.impl_fail[:5]:
            key = c.get("key") or ("impl:" + why.split(" ")[0] + ":" + str(abs(hash(c["src"])) % 10**8))
            ctx.violation(key, {"kind": "implementation-vs-property", "why": why, "request": "prog " + c["src"],
                                "impl_output": io, "expect": c.get("expect"), "replay_cmd":
                                "echo '<request>' | harness/target/release/plonk-verif-harness run"})
        if self.model_mismatch and not self.impl_fail:
            c, io, mo, why = self.model_mismatch[0]
            ctx.violation("correspondence:" + (c.get("tags") or ["prog"])[0],
                          {"kind": "model-vs-implementation", "why": why, "request": "prog " + c["src"],
                           "impl_output": io, "model_output": mo,
                           "count": len(self.model_mismatch),
                           "note": "the Lean model no longer describes this code; the property-directed search "
                                   "(expectation cases of this run) found no input on which the implementation "
                                   "violates the property"}, no_input=True)
        return {
            "evaluations": self.n,
            "distinct_nontrivial": len(self.distinct),
            "samples": self.samples,
            "input_distribution": dict(sorted(self.dist.items())),
            "model_disagreements": len(self.model_mismatch),
            "impl_property_failures": len(self.impl_fail),
        }


class LineRunner:
    """Generic request/response correspondence: impl line must equal the model line (the model may append
    ` spec=ok`, its self-check against the mathematical definition; `spec=MISMATCH` is reported)."""

    def __init__(self, ctx, prop):
        self.ctx, self.prop = ctx, prop
        self.n = 0
        self.distinct = set()
        self.dist = {}
        self.samples = []
        self.mismatch = []
        self.impl_fail = []
        self.spec_checked = 0

    def tag(self, t):
        self.dist[t] = self.dist.get(t, 0) + 1

    def run(self, cases, env=None, workers=8):
        """cases: dict(line=..., tags=[..], expect=None|str (property-level expected impl output))"""
        if not cases:
            return
        lines = [c["line"] for c in cases]
        impl = self.ctx.impl(lines, env=env, workers=workers)
        model = self.ctx.model(lines, workers=workers)
        for c, io, mo in zip(cases, impl, model):
            self.n += 1
            self.distinct.add(c["line"])
            for t in c.get("tags", []):
                self.tag(t)
            if len(self.samples) < 6 and self.n % 11 == 1:
                self.samples.append({"request": c["line"][:240], "impl": io[:160], "model": mo[:160]})
            if (io.startswith("bad-request") or mo.startswith("bad-request")) and not c.get("malformed_ok"):
                # a malformed request is a defect of this machinery, never an agreement
                self.ctx.violation("machinery:bad-request", {"why": "a generated request was not understood", "request": c["line"][:600],
                                                              "impl_output": io[:100], "model_output": mo[:100]}, no_input=True)
                continue
            base = mo.replace(" spec=ok", "").replace(" spec=MISMATCH", "").replace(" spec=REJECTED", "")
            if "spec=ok" in mo:
                self.spec_checked += 1
            if "spec=REJECTED" in mo:
                self.mismatch.append((c, io, mo, "the model verifier rejects the model prover's proof"))
            # implementation-only measurement: peak allocation of the request
            if " peak=" in io:
                pk = int(io.split(" peak=")[1].split(" ")[0])
                io = io.split(" peak=")[0]
                bound = c.get("peak_bound")
                if bound is not None and pk > bound:
                    self.impl_fail.append((c, io, "peak allocation %d exceeds the bound %d" % (pk, bound)))
            # implementation-only route flags (own verifier / compressed route / serialized route)
            flags = dict(t.split("=", 1) for t in io.split(" ") if t.split("=", 1)[0] in ("own", "cmp", "ser", "cons") and "=" in t)
            if flags:
                io = " ".join(t for t in io.split(" ") if t.split("=", 1)[0] not in ("own", "cmp", "ser", "cons"))
                for kf, vf in flags.items():
                    self.tag("route-%s=%s" % (kf, vf.split(":")[0]))
                    if vf != "ok":
                        self.impl_fail.append((c, io, {"own": "the prover's proof is rejected by its own verifier",
                                                       "cmp": "keys from the compressed description differ from direct compilation",
                                                       "ser": "prover/verifier decoded from their bytes behave differently",
                                                       "cons": "the generated parameters are not consecutive powers of one secret matching the G2 pair"}[kf] + " (%s)" % vf))
            if io.startswith("panic") or io.startswith("crash"):
                if not c.get("panic_ok") or base != io:
                    self.impl_fail.append((c, io, "implementation panicked"))
                    continue
            if "spec=MISMATCH" in mo:
                self.mismatch.append((c, io, mo, "model disagrees with its own mathematical definition"))
            if io != base:
                self.mismatch.append((c, io, mo, "outputs differ"))
            if c.get("expect") is not None and io != c["expect"]:
                self.impl_fail.append((c, io, "property-level expectation is %s" % c["expect"][:120]))
            if c.get("expect_prefix") is not None and not io.startswith(c["expect_prefix"]):
                self.impl_fail.append((c, io, "property-level expectation is %s…" % c["expect_prefix"][:120]))
            if c.get("expect_proof") and not io.startswith("proof="):
                self.impl_fail.append((c, io, "a satisfied circuit within the SRS capacity must prove"))

    def report(self):
        ctx = self.ctx
        for (c, io, why) in self.impl_fail[:3]:
            ctx.violation(c.get("key") or ("impl:" + (c.get("tags") or ["x"])[0] + ":" + str(abs(hash(c["line"])) % 10**8)),
                          {"kind": "implementation-vs-property", "why": why, "request": c["line"][:4000], "impl_output": io[:2000]})
        if self.mismatch and not self.impl_fail:
            c, io, mo, why = self.mismatch[0]
            ctx.violation("correspondence:" + (c.get("tags") or ["x"])[0],
                          {"kind": "model-vs-implementation", "why": why, "request": c["line"][:4000], "impl_output": io[:2000],
                           "model_output": mo[:2000], "count": len(self.mismatch)}, no_input=True)
        return {"evaluations": self.n, "distinct_nontrivial": len(self.distinct), "samples": self.samples,
                "input_distribution": dict(sorted(self.dist.items())), "model_disagreements": len(self.mismatch),
                "impl_property_failures": len(self.impl_fail), "model_self_checks_vs_definition": self.spec_checked}


def full_alias_cases(ctx, specs):
    """Complete adversarial assignments for the `x + r` alias. specs: list of (honest_src, k, tags) where register `$k` of
    the program is the input witness; the implementation's own witness generator is run with the host view of that
    witness set to the integer value + r (feature-gated hook `set_host_view`), the resulting witness table is dumped
    and turned into `setw` operations on the honest program: every dependent witness (range-check accumulators, high
    part, guard helper wires) is consistent with the alias, so only the canonical `< r` guard can reject it.
    Returns ordinary cases (expect unsat) for the ProgRunner."""
    from plib import R, hx
    lines = []
    specs = [sp if len(sp) == 5 else tuple(sp) + (None,) for sp in specs]
    for (src, k, val, tags, view) in specs:
        ops = src.split(";")
        # insert the host view right after the op that defines register k (registers are defined by `w` ops in order)
        seen, out = -1, []
        for op in ops:
            out.append(op)
            if op.strip().startswith("w "):
                seen += 1
                if seen == k:
                    out.append("hostview $%d %x" % (k, (val + R) if view is None else view))
        lines.append("dump " + ";".join(out))
        lines.append("dump " + src)
    outs = ctx.impl(lines)
    cases = []
    for i, (src, k, val, tags, view) in enumerate(specs):
        a, h = outs[2 * i], outs[2 * i + 1]
        if not (a.startswith("G ") and h.startswith("G ")):
            continue
        wa = a.split(" W ")[1].split(" P ")[0].split(",")
        wh = h.split(" W ")[1].split(" P ")[0].split(",")
        if len(wa) != len(wh):
            continue
        sets = ["setw #%d %s" % (j, wa[j]) for j in range(len(wa)) if wa[j] != wh[j]]
        if not sets:
            continue
        cases.append({"src": src + ";" + ";".join(sets), "cmd": "prog", "expect": "unsat", "rv": None,
                      "tags": list(tags) + ["full-alias-assignment"]})
    return cases
