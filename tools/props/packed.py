"""Structure-aware construction and mutation of the MessagePack payload of a compressed circuit (the bytes inside the raw
deflate stream of `Circuit::compress()`); used by C15 and C17.  The Lean model (`Model/Packed.lean`, driver commands
`packc` / `unpackc`) is the oracle for every payload; `expect` is filled in only where the property text itself says
what must happen (valid -> ok; trailing / out-of-range / over-capacity -> error)."""
import zlib
from plib import R


def inflate(b):
    return zlib.decompressobj(wbits=-15).decompress(b)


def deflate(b):
    c = zlib.compressobj(level=9, wbits=-15)
    return c.compress(b) + c.flush()


# ---- encoding ------------------------------------------------------------------------------------------------------

def enc_uint(v, form=None):
    """form: None = minimal; 'u8','u16','u32','u64' force a (possibly non-minimal) representation"""
    if form is None:
        if v <= 127: return bytes([v])
        if v <= 0xff: return bytes([0xcc, v])
        if v <= 0xffff: return b"\xcd" + v.to_bytes(2, "big")
        if v <= 0xffffffff: return b"\xce" + v.to_bytes(4, "big")
        return b"\xcf" + v.to_bytes(8, "big")
    n = {"u8": 1, "u16": 2, "u32": 4, "u64": 8}[form]
    return bytes([{1: 0xcc, 2: 0xcd, 4: 0xce, 8: 0xcf}[n]]) + (v % (1 << (8 * n))).to_bytes(n, "big")


def enc_alen(n, form=None):
    if form is None:
        if n <= 15: return bytes([0x90 + n])
        if n <= 0xffff: return b"\xdc" + n.to_bytes(2, "big")
        return b"\xdd" + n.to_bytes(4, "big")
    if form == "a16": return b"\xdc" + (n % 65536).to_bytes(2, "big")
    return b"\xdd" + (n % (1 << 32)).to_bytes(4, "big")


class Packed:
    def __init__(self, hades, pis, wits, scalars, polys, cons):
        self.hades, self.pis, self.wits, self.scalars, self.polys, self.cons = hades, list(pis), wits, list(scalars), list(polys), list(cons)

    def copy(self):
        return Packed(self.hades, self.pis, self.wits, [bytes(s) for s in self.scalars], [list(p) for p in self.polys], [list(c) for c in self.cons])

    def encode(self, uint_form=None, alen_form=None, hades_byte=None, declared=None):
        """declared: dict name -> declared array length (instead of the real one)"""
        declared = declared or {}
        u = lambda v: enc_uint(v, uint_form)
        out = bytes([hades_byte if hades_byte is not None else (0xc3 if self.hades else 0xc2)])
        out += enc_alen(declared.get("pis", len(self.pis)), alen_form) + b"".join(u(x) for x in self.pis)
        out += u(self.wits)
        out += enc_alen(declared.get("scalars", len(self.scalars)), alen_form)
        for s in self.scalars:
            out += b"".join(bytes([b]) if b <= 127 else bytes([0xcc, b]) for b in s)
        out += enc_alen(declared.get("polys", len(self.polys)), alen_form) + b"".join(u(x) for p in self.polys for x in p)
        out += enc_alen(declared.get("cons", len(self.cons)), alen_form) + b"".join(u(x) for c in self.cons for x in c)
        return out


# ---- decoding of an HONEST payload (canonical encodings only) ---------------------------------------------------------

def _uint(b, i):
    t = b[i]
    if t <= 0x7f: return t, i + 1
    n = {0xcc: 1, 0xcd: 2, 0xce: 4, 0xcf: 8}[t]
    return int.from_bytes(b[i + 1:i + 1 + n], "big"), i + 1 + n


def _alen(b, i):
    t = b[i]
    if 0x90 <= t <= 0x9f: return t & 15, i + 1
    n = {0xdc: 2, 0xdd: 4}[t]
    return int.from_bytes(b[i + 1:i + 1 + n], "big"), i + 1 + n


def parse(b):
    i = 1
    hades = b[0] == 0xc3
    n, i = _alen(b, i); pis = []
    for _ in range(n):
        v, i = _uint(b, i); pis.append(v)
    wits, i = _uint(b, i)
    n, i = _alen(b, i); scalars = []
    for _ in range(n):
        s = []
        for _ in range(32):
            v, i = _uint(b, i); s.append(v)
        scalars.append(bytes(s))
    n, i = _alen(b, i); polys = []
    for _ in range(n):
        p = []
        for _ in range(11):
            v, i = _uint(b, i); p.append(v)
        polys.append(p)
    n, i = _alen(b, i); cons = []
    for _ in range(n):
        c = []
        for _ in range(5):
            v, i = _uint(b, i); c.append(v)
        cons.append(c)
    assert i == len(b)
    return Packed(hades, pis, wits, scalars, polys, cons)


BASE_LEN = {True: 3 + 335 + 9, False: 3}


def variants(pk, rng, thorough=False):
    """(name, max_constraints, payload, expect) — expect in {'ok','err',None}; None = the model decides"""
    out = []
    n = len(pk.cons)
    base = BASE_LEN[pk.hades]
    mx = max(n, 1) + 50
    add = lambda name, m, payload, exp: out.append((name, m, payload, exp))
    add("valid", mx, pk.encode(), "ok")
    # capacity: exactly enough / one short (constraints, polynomials, public inputs, scalars each have their own bound)
    add("capacity-exact", n, pk.encode(), "ok")
    if n > 0:
        add("capacity-one-short", n - 1, pk.encode(), "err")
    # non-minimal but well-formed encodings: the decoder reads them (msgpacker accepts any width)
    for f in ("u8", "u16", "u32", "u64"):
        if f == "u8" and max([pk.wits] + pk.pis + [x for p in pk.polys for x in p] + [x for c in pk.cons for x in c] + [0]) > 255:
            continue
        add("nonminimal-ints-" + f, mx, pk.encode(uint_form=f), None)
    add("array16-headers", mx, pk.encode(alen_form="a16"), None)
    add("array32-headers", mx, pk.encode(alen_form="a32"), None)
    # trailing / truncated
    add("trailing-byte", mx, pk.encode() + b"\x00", "err")
    add("trailing-valid-item", mx, pk.encode() + enc_uint(0), "err")
    e = pk.encode()
    for cut in (1, 2, 5):
        if len(e) > cut:
            add("truncated-%d" % cut, mx, e[:-cut], "err")
    add("empty-payload", mx, b"", "err")
    add("hades-byte-invalid", mx, pk.encode(hades_byte=0x01), "err")
    add("hades-byte-nil", mx, pk.encode(hades_byte=0xc0), "err")
    # declared lengths that disagree with the content
    for nm in ("pis", "scalars", "polys", "cons"):
        real = len(getattr(pk, nm))
        add("declared-%s-plus1" % nm, mx, pk.encode(declared={nm: real + 1}), None)
        if real > 0:
            add("declared-%s-minus1" % nm, mx, pk.encode(declared={nm: real - 1}), None)
        add("declared-%s-huge" % nm, mx, pk.encode(declared={nm: 0xffffffff}, alen_form="a32"), "err")
    # index boundaries (first invalid value and last valid one)
    if n > 0:
        q = pk.copy(); q.pis = [n]; add("pi-index-eq-constraints", mx, q.encode(), "err")
        q = pk.copy(); q.pis = [n - 1]; add("pi-index-last-row", mx, q.encode(), "ok")
        q = pk.copy(); q.pis = [0]; add("pi-index-first-row", mx, q.encode(), "ok")
        if n > 1:
            q = pk.copy(); q.pis = [1, 0]; add("pi-unsorted", mx, q.encode(), "err")
            q = pk.copy(); q.pis = [1, 1]; add("pi-duplicate", mx, q.encode(), "err")
            q = pk.copy(); q.pis = [0, 1]; add("pi-adjacent-rows", mx, q.encode(), "ok")
            q = pk.copy(); q.pis = list(range(n)); add("pi-every-row", mx, q.encode(), "ok")
        for pos in range(1, 5):
            q = pk.copy(); k = rng.below(n); q.cons[k][pos] = q.wits; add("witness-index-eq-count", mx, q.encode(), "err")
            q = pk.copy(); k = rng.below(n); q.cons[k][pos] = max(q.wits - 1, 0)
            add("witness-index-last", mx, q.encode(), "ok" if q.wits > 0 else "err")
        q = pk.copy(); q.cons[rng.below(n)][0] = len(q.polys); add("polynomial-index-eq-count", mx, q.encode(), "err")
        q = pk.copy(); q.cons[rng.below(n)][0] = len(q.polys) - 1; add("polynomial-index-last", mx, q.encode(), "ok")
        # sparse witness labels: a huge witness count with the same labels is legal and must not drive allocation
        q = pk.copy(); q.wits = (1 << 64) - 1; add("witness-count-u64-max", mx, q.encode(), "ok")
        q = pk.copy(); q.wits = (1 << 64) - 1; q.cons[0][1] = (1 << 64) - 2; add("witness-label-huge", mx, q.encode(), "ok")
    if pk.polys:
        tot = base + len(pk.scalars)
        for col in ([rng.below(11)] if not thorough else range(11)):
            q = pk.copy(); q.polys[rng.below(len(q.polys))][col] = tot; add("scalar-index-eq-count", mx, q.encode(), "err")
            q = pk.copy(); q.polys[rng.below(len(q.polys))][col] = tot - 1; add("scalar-index-last", mx, q.encode(), "ok")
            q = pk.copy(); q.polys[rng.below(len(q.polys))][col] = rng.below(base); add("scalar-index-builtin", mx, q.encode(), "ok")
    # the other dictionary: the same indices read against the 3-entry table
    q = pk.copy(); q.hades = not q.hades; add("hades-flag-flipped", mx, q.encode(), None)
    # scalars: non-canonical encodings
    if pk.scalars:
        for v, nm in ((R, "r"), (R + 1, "r+1"), ((1 << 256) - 1, "2^256-1"), (R - 1, "r-1")):
            q = pk.copy(); q.scalars[rng.below(len(q.scalars))] = v.to_bytes(32, "little")
            add("scalar-value-" + nm, mx, q.encode(), "ok" if v < R else "err")
    q = pk.copy(); q.scalars.append((R).to_bytes(32, "little")); add("extra-scalar-noncanonical-unused", mx, q.encode(), "err")
    q = pk.copy(); q.scalars.append((5).to_bytes(32, "little")); add("extra-scalar-unused", mx, q.encode(), "ok")
    # scalar count bound 11*max: (max = n) with up to 11n scalars is fine, more is not
    if n > 0 and thorough:
        q = pk.copy()
        while len(q.scalars) < 11 * n:
            q.scalars.append((7 + len(q.scalars)).to_bytes(32, "little"))
        add("scalars-at-bound", n, q.encode(), "ok")
        q.scalars.append((3).to_bytes(32, "little")); add("scalars-over-bound", n, q.encode(), "err")
    # empty description
    add("no-constraints", mx, Packed(pk.hades, [], 0, [], [], []).encode(), "ok")
    add("no-constraints-max0", 0, Packed(pk.hades, [], 0, [], [], []).encode(), "ok")
    # random byte edits of the payload: the model decides
    for _ in range(8 if not thorough else 60):
        m = bytearray(e); i = rng.below(len(m)); m[i] = rng.choice([0x00, 0x7f, 0x80, 0x90, 0x9f, 0xc0, 0xc2, 0xc3, 0xcc, 0xcd, 0xce, 0xcf, 0xdc, 0xdd, 0xff, m[i] ^ (1 << rng.below(8))])
        add("byte-edit", mx, bytes(m), None)
    return out


def run_packed(ctx, prop, progs, rng, profile, thorough=False):
    """(1) payload correspondence: inflate(Circuit::compress()) == the Lean model's payload, byte for byte;
       (2) decoder correspondence + property expectations on structure-aware variants of every payload.
       Returns (n_cases, distribution)."""
    import subprocess
    dist = {}
    p = subprocess.run([ctx.harness_bin(profile), "compress"], input="\n".join(progs) + "\n", stdout=subprocess.PIPE, text=True)
    hexes = p.stdout.split()
    model = ctx.model(["packc " + s for s in progs])
    valid = []
    n = 0
    for src, h, mo in zip(progs, hexes, model):
        n += 1
        if h == "err":
            continue
        try:
            raw = inflate(bytes.fromhex(h))
        except Exception as e:  # the real encoder produced something that is not a deflate stream
            ctx.violation("impl:compress-not-deflate", {"kind": "implementation-vs-property", "why": "Circuit::compress() output does not inflate: %s" % e,
                                                         "request": "compress " + src})
            continue
        dist["payload-bytes<=%d" % (1 << (len(raw).bit_length()))] = dist.get("payload-bytes<=%d" % (1 << (len(raw).bit_length())), 0) + 1
        if raw.hex() != mo.strip():
            ctx.violation("correspondence:compress-payload", {"kind": "model-vs-implementation", "why": "the MessagePack payload of Circuit::compress() "
                          "differs from the model's from_composer + pack", "request": "packc " + src, "impl_output": raw.hex()[:2000],
                          "model_output": mo[:2000]}, no_input=True)
            continue
        valid.append(raw)
    cases = []
    for raw in valid:
        try:
            pk = parse(raw)
        except Exception:
            continue
        cases += variants(pk, rng, thorough)
    # decompression bombs: a few kilobytes that inflate to many megabytes, against a small capacity — must be refused BEFORE
    # they are inflated (the peak-allocation bound below is derived from the capacity, not from the input)
    for name, blob in (("zip-bomb-zeros-16MiB", b"\x00" * (16 << 20)), ("zip-bomb-array-headers", b"\xdd\xff\xff\xff\xff" * (1 << 20)),
                       ("zip-bomb-valid-prefix", (valid[0] if valid else b"\xc3\x90\x00\x90\x90\x90") + b"\x00" * (8 << 20))):
        for mx in (2, 64):
            cases.append((name, mx, blob, "err"))
    impl = ctx.impl(["cmpdec %d %s" % (mx, deflate(b).hex() or "-") for (_, mx, b, _) in cases], profile=profile)
    mod = ctx.model(["unpackc %d %s" % (mx, (b if len(b) <= (1 << 20) else b[:857 * mx + 31]).hex() or "-") for (_, mx, b, _) in cases])
    bad_model, bad_impl = [], []
    for (name, mx, b, exp), io, mo in zip(cases, impl, mod):
        n += 1
        dist[name] = dist.get(name, 0) + 1
        ik = io.split(" peak=")[0].strip()
        mk = mo.strip()
        kind = ik.split(" ")[0]
        dist["decode:" + kind.split(":")[0]] = dist.get("decode:" + kind.split(":")[0], 0) + 1
        peak = int(io.split("peak=")[1]) if "peak=" in io else 0
        limit = 40 * (857 * mx + 30) + (1 << 20)
        req = "cmpdec %d %s" % (mx, deflate(b).hex())
        why = None
        if io.startswith("panic") or io.startswith("crash"):
            why = "decoder panicked / aborted"
        elif exp == "ok" and kind != "ok":
            why = "a well-formed description within capacity was rejected (%s)" % name
        elif exp == "err" and kind == "ok":
            why = "a description with trailing / truncated / out-of-range data or beyond the capacity was accepted (%s)" % name
        elif peak > limit:
            why = "peak allocation %d exceeds the capacity-derived bound %d" % (peak, limit)
        if why:
            bad_impl.append((name, why, req, io, b))
        elif ik != mk:
            bad_model.append((name, req, io, mo, b))
    for (name, why, req, io, b) in bad_impl[:3]:
        ctx.violation("impl:compressed-decoder:" + name, {"kind": "implementation-vs-property", "why": why, "request": req[:4000],
                                                           "payload_hex": b.hex()[:4000], "impl_output": io[:400]})
    if bad_model and not bad_impl:
        (name, req, io, mo, b) = bad_model[0]
        ctx.violation("correspondence:compressed-decoder", {"kind": "model-vs-implementation", "why": "decoder outcome differs from the model's "
                      "from_bytes on the inflated payload (%s)" % name, "request": req[:4000], "payload_hex": b.hex()[:4000],
                      "impl_output": io[:400], "model_output": mo[:400], "count": len(bad_model)}, no_input=True)
    return n, dist
