"""C08 — arithmetic, equality, boolean and selection components are exact."""
from plib import *
from props.builder import Prog
from props.common import ProgRunner

EXTRA_AUDITS = ["ComposerTie"]
LEAN_TARGETS = ["Plonk.Props.C08", "Plonk.Props.ComposerTie"]
ASSUMPTIONS = ["dusk-bls12_381 scalar arithmetic behaves as F_r (modelled, exercised differentially)",
               "Fiat-Shamir challenges avoid the explicit bad-challenge sets (random-oracle assumption), "
               "so 'prover succeeds' coincides with 'every row identity holds'"]
THEOREMS_NOTE = "Plonk/Props/C08.lean"


def wiring(rng, p, nvals):
    """pick 4 wire registers, sometimes shared"""
    regs = [p.w(boundary_value(rng)) for _ in range(nvals)]
    return [rng.choice(regs) for _ in range(4)]


def konst(rng, x, prob=5):
    """with probability 1/prob replace an operand by one of the composer's built-in constant witnesses (handles #0 / #1)"""
    return rng.choice(["#0", "#1"]) if rng.coin(1, prob) else x


def gen_gate(rng, sat_bias=True):
    p = Prog(); p.tags = ["gate"]
    q = [coeff_value(rng) for _ in range(6)]
    pi = coeff_value(rng) if rng.coin(1, 3) else None
    shared = rng.coin(1, 3)
    if shared:
        a, b, c, d = wiring(rng, p, rng.choice([1, 2, 3]))
        a, b, c, d = konst(rng, a, 6), konst(rng, b, 6), konst(rng, c, 6), konst(rng, d, 6)
        p.tags.append("gate-shared-wires")
        if any(isinstance(x, str) for x in (a, b, c, d)): p.tags.append("constant-handle-operand")
    else:
        a, b, d = p.w(boundary_value(rng)), p.w(boundary_value(rng)), p.w(boundary_value(rng))
        qm, ql, qr, qo, qf, qc = q
        x = (qm * p.val(a) * p.val(b) + ql * p.val(a) + qr * p.val(b) + qf * p.val(d) + qc + (pi or 0)) % R
        if qo % R != 0 and sat_bias:
            c = p.w((-x) * inv(qo) % R)
            p.tags.append("gate-solved")
        else:
            c = p.w(boundary_value(rng))
    p.gate(q, pi, a, b, c, d)
    p.tags.append("gate-" + ("sat" if p.sat else "unsat"))
    if pi is not None:
        p.tags.append("gate-with-pi")
    return p


# values of q_O that the SOURCE singles out (fast paths of append_evaluated_output): the scalar whose Montgomery limbs
# are the extracted constant MINUS_ONE (it is -1 on the unchanged tree); filled in by run() from generated.json
SPECIAL_QO = []


def gen_evalout(rng):
    p = Prog(); p.tags = ["evalout"]
    q = [coeff_value(rng) for _ in range(6)]
    k = rng.below(7)
    if k == 6 and SPECIAL_QO:
        q[3] = rng.choice(SPECIAL_QO); p.tags.append("evalout-qo-source-constant")
    elif k == 0:
        q[3] = 0; p.tags.append("evalout-qo0")
    elif k == 1:
        q[3] = 1
    elif k == 2:
        q[3] = R - 1
    pi = coeff_value(rng) if rng.coin(1, 3) else None
    a, b, d = p.w(boundary_value(rng)), p.w(boundary_value(rng)), p.w(boundary_value(rng))
    if rng.coin(1, 4):
        b = a
    a, b, d = konst(rng, a, 6), konst(rng, b, 6), konst(rng, d, 6)
    if any(isinstance(x, str) for x in (a, b, d)): p.tags.append("constant-handle-operand")
    o = p.evalout(q, pi, a, b, d)
    if q[3] % R != 0 and rng.coin(1, 2):
        p.setw(o, (p.val(o) + 1 + rng.below(5)) % R); p.unsat(); p.tags.append("forged-output")
    return p


def gen_gaddmul(rng):
    p = Prog(); name = rng.choice(["gadd", "gmul"]); p.tags = [name]
    q5 = [coeff_value(rng) for _ in range(5)]
    pi = coeff_value(rng) if rng.coin(1, 3) else None
    a, b, d = p.w(boundary_value(rng)), p.w(boundary_value(rng)), p.w(boundary_value(rng))
    k = rng.below(8)
    if k < 2: b = a; p.tags.append("shared-handles")
    elif k == 2: d = a; p.tags.append("shared-handles")
    elif k == 3: b = a; d = a; p.tags.append("shared-handles")
    a, b, d = konst(rng, a, 6), konst(rng, b, 6), konst(rng, d, 6)
    if any(isinstance(x, str) for x in (a, b, d)): p.tags.append("constant-handle-operand")
    o = p.gadd(q5, pi, a, b, d, name)
    if rng.coin(1, 2):
        p.setw(o, (p.val(o) + 1 + rng.below(7)) % R); p.unsat(); p.tags.append("forged-output")
    return p


def gen_eq(rng):
    p = Prog(); p.tags = ["assert_equal"]
    va = boundary_value(rng)
    a = p.w(va)
    k = rng.below(4)
    if rng.coin(1, 5):
        p.tags.append("constant-handle-operand")
        kk_ = rng.choice(["#0", "#1"])
        if rng.coin():
            a = p.w(rng.choice([0, 1, va])); p.aeq(*((a, kk_) if rng.coin() else (kk_, a)))
        else:
            p.tags = ["assert_equal_constant", "constant-handle-operand"]
            pi = coeff_value(rng) if rng.coin() else None
            p.aeqc(kk_, rng.choice([0, 1, (p.val(kk_) - (pi or 0)) % R]), pi)
        return p
    if k == 0:
        b = p.w(va); p.aeq(a, b)
    elif k == 1:
        b = p.w(boundary_value(rng)); p.aeq(a, b)
    elif k == 2:
        p.tags = ["assert_equal_constant"]
        pi = coeff_value(rng) if rng.coin() else None
        kk = (va - (pi or 0)) % R if rng.coin() else coeff_value(rng)
        p.aeqc(a, kk, pi)
    else:
        p.aeq(a, a)
    return p


def gen_constpub(rng):
    p = Prog()
    v = boundary_value(rng)
    if rng.coin():
        p.tags = ["append_constant"]; o = p.const(v)
    else:
        p.tags = ["append_public"]; o = p.pub(v)
    if rng.coin(1, 2):
        p.setw(o, (v + 1 + rng.below(3)) % R); p.unsat(); p.tags.append("forged-output")
    return p


def gen_bool(rng):
    p = Prog(); p.tags = ["component_boolean"]
    v = rng.choice([0, 1, 0, 1, 2, R - 1, boundary_value(rng)])
    if rng.coin(1, 6):
        p.tags.append("constant-handle-operand"); p.boolean(rng.choice(["#0", "#1"]))
        return p
    p.boolean(p.w(v))
    return p


def gen_select(rng):
    p = Prog()
    bit = p.w(rng.choice([0, 1, 0, 1, 2, boundary_value(rng)]))
    a, b = p.w(boundary_value(rng)), p.w(boundary_value(rng))
    k = rng.below(8)
    if k == 0: b = a
    elif k == 1: a = bit
    elif k == 2: a = bit; b = bit
    # the composer's constant witnesses #0 / #1 in every operand position (a "fast path" keyed on a constant handle)
    k = rng.below(10)
    if k == 0: a = rng.choice(["#0", "#1"])
    elif k == 1: b = rng.choice(["#0", "#1"])
    elif k == 2: bit = rng.choice(["#0", "#1"])
    elif k == 3: a = rng.choice(["#0", "#1"]); b = rng.choice(["#0", "#1"])
    elif k == 4: a = rng.choice(["#0", "#1"]); bit = rng.choice(["#0", "#1"])
    if any(isinstance(x, str) for x in (bit, a, b)): p.tags.append("constant-handle-operand")
    k = rng.below(3)
    if k == 0:
        p.tags = ["component_select"]; o = p.sel(bit, a, b)
    elif k == 1:
        p.tags = ["component_select_one"]; o = p.sel1(bit, a)
    else:
        p.tags = ["component_select_zero"]; o = p.sel0(bit, a)
    if p.val(bit) in (0, 1):
        p.tags.append("boolean-bit")
    if rng.coin(1, 2):
        p.setw(o, (p.val(o) + 1 + rng.below(3)) % R); p.unsat(); p.tags.append("forged-output")
    return p


GENS = [gen_gate, gen_gate, gen_evalout, gen_gaddmul, gen_eq, gen_constpub, gen_bool, gen_select, gen_select]


def constant_operand_cases(rng):
    """systematic: each selection / arithmetic component with the constant handles #0 / #1 in every operand position,
    for bit values 0 and 1 (honest output, and a forged output)"""
    out = []
    for comp in ("sel", "sel1", "sel0", "gadd", "gmul"):
        npos = {"sel": 3, "sel1": 2, "sel0": 2, "gadd": 3, "gmul": 3}[comp]
        for pos in range(npos):
            for kh in ("#0", "#1"):
                for bitv in (0, 1):
                    for forged in (False, True):
                        p = Prog(); p.tags = ["component_select" if comp == "sel" else comp, "constant-handle-operand", "systematic"]
                        ops = [p.w(bitv)] + [p.w(rng.choice([2, 5, rng.fe()])) for _ in range(npos - 1)]
                        ops[pos] = kh
                        if comp == "sel": o = p.sel(*ops)
                        elif comp == "sel1": o = p.sel1(*ops)
                        elif comp == "sel0": o = p.sel0(*ops)
                        else: o = p.gadd([coeff_value(rng) for _ in range(5)], None, ops[0], ops[1], ops[2], comp)
                        if forged:
                            p.setw(o, (p.val(o) + 1 + rng.below(3)) % R); p.unsat(); p.tags.append("forged-output")
                        out.append(p.case())
    return out


def cases(rng, n):
    out = constant_operand_cases(rng)
    for i in range(n):
        g = GENS[i % len(GENS)]
        out.append(g(rng).case())
    return out


def run(ctx, broken):
    rng = SplitMix(ctx.seed * 1000003 + 8)
    n = 270 if ctx.tier == "quick" else 4000
    import json, os
    try:
        gen = json.load(open(os.path.join(ctx.work, "generated.json")))["consts"]
        v = int(gen["MINUS_ONE_MONT"]) if not isinstance(gen["MINUS_ONE_MONT"], str) else int(gen["MINUS_ONE_MONT"], 0)
        SPECIAL_QO[:] = [v * inv(pow(2, 256, R)) % R, (-v * inv(pow(2, 256, R))) % R]
    except Exception:
        SPECIAL_QO[:] = []
    r = ProgRunner(ctx, "C08")
    r.run(cases(rng, n))
    st = r.report(broken)
    st["rule"] = ("programs of 1-5 composer ops drawn per component (general gate with shared/distinct wires, "
                  "append_evaluated_output incl. q_O in {0,1,-1,random, the scalar denoted by the source's fast-path constant}, gate_add/gate_mul, assert_equal(_constant), "
                  "append_constant/public, component_boolean, component_select/_one/_zero); coefficients from "
                  "{0,1,-1,2,small,random}, witness values from the boundary set; half of the returned witnesses are forged "
                  "(verif_set_witness). Each case: layout+witness-table hashes impl vs Lean model, prove/verify outcome vs "
                  "model sysSat, and vs the relation stated in the property (Python oracle). Distinct = distinct program text.")
    return st
