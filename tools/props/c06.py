"""C06 — zero-knowledge masking: every opened polynomial is freshly blinded."""
from plib import *
from props.common import LineRunner
from props.pcommon import *

EXTRA_AUDITS = ["ProverTie"]
LEAN_TARGETS = ["Plonk.Props.C06", "Plonk.Props.ProverTie"]
ASSUMPTIONS = ["statistical zero-knowledge itself (existence of a simulator) is not proved; the property as worded — mask shape, "
               "draw discipline, no shared commitment/evaluation — is",
               "commitments of the model prover are [p(x)]g (trapdoor view)"]
THEOREMS_NOTE = "Plonk/Props/C06.lean"


def run(ctx, broken):
    rng = SplitMix(ctx.seed * 1000003 + 6)
    r = LineRunner(ctx, "C06")
    srs = srs_draws(rng)
    cs = []
    progs = ["pub 5;w 7;gadd 0 1 1 0 3 - $0 $1 #0;pub 9;bool #1",
             "w 2d;rangebits 7 $0;w 33;xor 2 $0 $1;pub 0",
             sized_program(rng, 16, (4, 15)).src()]
    # LARGE domains with a wire column that is (almost) unused: only the dummy gate of Composer::initialized touches the
    # fourth wire, the third wire only carries gate outputs. A mask that is skipped for a sparse / constant column shows as a
    # commitment or evaluation shared by two independently randomised proofs.
    def sparse_program(gates):
        ops, regs, n = [], 0, 4
        while n < gates:
            k = rng.below(3)
            if k == 0:
                ops.append("pub %s" % hx(rng.fe())); regs += 1; n += 1
            elif k == 1:
                ops.append("w %s" % hx(rng.below(2))); ops.append("bool $%d" % regs); regs += 1; n += 1
            else:
                ops.append("w %s" % hx(rng.fe())); ops.append("w %s" % hx(rng.fe()))
                ops.append("gadd 1 2 3 0 5 - $%d $%d #0" % (regs, regs + 1)); regs += 3; n += 1
        return ";".join(ops)
    big = [sparse_program(g) for g in ((600,) if ctx.tier == "quick" else (300, 600, 1100))]
    progs += big
    if ctx.tier != "quick":
        progs += [sized_program(rng, 8 + rng.below(40), (4,)).src() for _ in range(10)]
    pairs = []
    for src in progs:
        base = [draw_hex(rng) for _ in range(14)]
        # individual draws chosen freely: 0, 1, r-1
        variants = [("random", base)]
        for i in ([] if src in big else (range(14) if ctx.tier != "quick" else [0, 3, 8, 10, 11, 13])):
            for sp in ("zero", "one", "minus1"):
                if ctx.tier == "quick" and sp == "minus1" and i % 2:
                    continue
                d = list(base); d[i] = draw_hex(rng, sp)
                variants.append(("draw%d=%s" % (i, sp), d))
        other = [draw_hex(rng) for _ in range(14)]
        variants.append(("random-2", other))
        for name, d in variants:
            cs.append({"line": prove_line(srs, 2100 if src in big else 600, b"zk", d, 3, src), "tags": ["stream:" + name.split("=")[-1] if "=" in name else "stream:" + name],
                       "expect_proof": True, "group": src, "name": name})
    r.run(cs)
    # implementation-vs-property: draw count and "no shared commitment / evaluation" between proofs of the same witness
    outs = ctx.impl([c["line"] for c in cs])
    by = {}
    for c, o in zip(cs, outs):
        d = parse_proof(o)
        if "proof" not in d:
            continue
        if d.get("calls") != "14":
            ctx.violation("impl:rng-draw-count", {"kind": "implementation-vs-property", "why": "the prover drew %s values from the RNG, "
                          "the property prescribes exactly 14" % d.get("calls"), "request": c["line"], "impl_output": o[:300]})
            break
        by.setdefault(c["group"], []).append((c["name"], proof_fields(d["proof"])))
    shared = 0
    names = ["a_comm", "b_comm", "c_comm", "d_comm", "z_comm", "t_low", "t_mid", "t_high", "t_fourth", "w_z", "w_zw", "a_eval", "b_eval",
             "c_eval", "d_eval", "a_w_eval", "b_w_eval", "d_w_eval", "q_arith_eval", "q_c_eval", "q_l_eval", "q_r_eval", "s1_eval",
             "s2_eval", "s3_eval", "z_eval"]
    for g, lst in by.items():
        a = dict(lst).get("random"); b = dict(lst).get("random-2")
        if a and b:
            for i, (x, y) in enumerate(zip(a, b)):
                # evaluations of the public selector / sigma polynomials carry no witness information and coincide
                # whenever that polynomial is constant (e.g. q_arith = 1 on a full domain): not part of the masking claim
                if names[i] in ("q_arith_eval", "q_c_eval", "q_l_eval", "q_r_eval", "s1_eval", "s2_eval", "s3_eval"):
                    continue
                if x == y:
                    shared += 1
                    ctx.violation("impl:shared-field:" + names[i], {"kind": "implementation-vs-property",
                                  "why": "two proofs of the same witness under different randomness share %s" % names[i], "circuit": g})
                    break
    # EVERY draw reaches the commitment it is prescribed for (both proving versions): change ONLY draw i and compare — draws 0,1
    # own a_comm, 2,3 b_comm, 4,5 c_comm, 6,7 d_comm, 8,9,10 z_comm, 11 t_low+t_mid, 12 t_mid+t_high, 13 t_high+t_fourth
    owners = {0: [0], 1: [0], 2: [1], 3: [1], 4: [2], 5: [2], 6: [3], 7: [3], 8: [4], 9: [4], 10: [4], 11: [5, 6], 12: [6, 7], 13: [7, 8]}
    dd_lines, dd_meta = [], []
    for ver in (3, 2):
        src = progs[0]
        based = [draw_hex(rng) for _ in range(14)]
        dd_lines.append(prove_line(srs, 600, b"zk", based, ver, src)); dd_meta.append((ver, None))
        for i in range(14):
            d2 = list(based); d2[i] = draw_hex(rng)
            dd_lines.append(prove_line(srs, 600, b"zk", d2, ver, src)); dd_meta.append((ver, i))
    dd_out = ctx.impl(dd_lines)
    dd_model = ctx.model(dd_lines)
    base_fields = {}
    n_dd = 0
    for (ver, i), l, o, mo in zip(dd_meta, dd_lines, dd_out, dd_model):
        d = parse_proof(o)
        n_dd += 1
        if "proof" not in d:
            if not o.startswith("err:UnsupportedProvingVersion"):
                ctx.violation("impl:draw-dependence-no-proof", {"kind": "implementation-vs-property", "why": "a satisfied circuit did not prove",
                                                                 "request": l[:400], "impl_output": o[:200]})
            continue
        if o.split(" calls=")[0] != mo.replace(" spec=ok", "").split(" calls=")[0] and "proof=" in mo:
            ctx.violation("correspondence:version-%d-stream" % ver, {"kind": "model-vs-implementation", "why": "proof bytes differ from the "
                          "specification prover's (version %d)" % ver, "request": l[:400], "impl_output": o[:200], "model_output": mo[:200]}, no_input=True)
        f = proof_fields(d["proof"])
        if i is None:
            base_fields[ver] = f
            continue
        bf = base_fields.get(ver)
        if bf is None:
            continue
        for k in owners[i]:
            if f[k] == bf[k]:
                ctx.violation("impl:draw-%d-does-not-reach-%s" % (i, names[k]), {"kind": "implementation-vs-property",
                              "why": "changing only masking draw %d (version %d) leaves %s unchanged: the scalar was drawn but "
                              "does not mask what it is prescribed for" % (i, ver, names[k]), "request": l[:400]})
                break
        for k in range(0, min(owners[i])):
            if f[k] != bf[k]:
                ctx.violation("impl:draw-%d-changes-earlier-%s" % (i, names[k]), {"kind": "implementation-vs-property",
                              "why": "changing only masking draw %d (version %d) changes the EARLIER commitment %s" % (i, ver, names[k]),
                              "request": l[:400]})
                break
    # a FAILING caller RNG (try_fill_bytes returns an error / fill_bytes panics after k draws): every masking scalar must come
    # from the caller's RNG, so no proof may be returned unless all 14 draws were delivered (a panic or an error is fine)
    fail_lines, fail_meta = [], []
    for src in (progs[:1] if ctx.tier == "quick" else progs[:4]):
        d = [draw_hex(rng) for _ in range(14)]
        pl = prove_line(srs, 600, b"zk", d, 3, src)
        for k in range(0, 16):
            fail_lines.append("provefail %d %s" % (k, pl)); fail_meta.append((k, pl))
        fail_lines.append(pl); fail_meta.append((None, pl))
    fouts = ctx.impl(fail_lines)
    plain = {pl: o for (k, pl), o in zip(fail_meta, fouts) if k is None}
    nfail = 0
    for (k, pl), l, o in zip(fail_meta, fail_lines, fouts):
        if k is None:
            continue
        nfail += 1
        if k < 14 and o.startswith("proof="):
            ctx.violation("impl:proof-without-rng-draws", {"kind": "implementation-vs-property", "why": "the caller's RNG failed after "
                          "%d draws, yet a proof was returned: some masking scalar did not come from the caller's RNG" % k,
                          "request": l, "impl_output": o[:300]})
            break
        if k >= 14 and o != plain.get(pl):
            ctx.violation("impl:rng-budget-14", {"kind": "implementation-vs-property", "why": "an RNG that delivers exactly %d draws "
                          "must give the same proof as an unlimited one (14 draws are prescribed)" % k, "request": l,
                          "impl_output": o[:300], "unlimited": (plain.get(pl) or "")[:300]})
            break
    st = r.report()
    st["evaluations"] += nfail + n_dd
    st["draw_dependence_cases"] = n_dd
    st["failing_rng_cases"] = nfail
    st["proof_pairs_compared_for_shared_fields"] = len(by)
    st["rule"] = ("%d circuits x scripted RNG streams: fully random, each single draw (a1,a2,b1..d2,z1..z3,t1..t3) forced to 0 / 1 / r-1, "
                  "and a second independent stream. Real prover output (1008 bytes) == Lean specification prover output, whose openings "
                  "are 'unmasked value + prescribed mask' by construction (theorems); fill_bytes call count must be 14; the two "
                  "independently randomised proofs of one witness must share none of the 26 proof fields; changing only draw i (V3 and V2) must change the commitment it masks and none before it; a caller RNG that FAILS after k = 0..13 draws must never yield a proof, one that delivers 14 or 15 must give the unlimited proof." % len(progs))
    return st
