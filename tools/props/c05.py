"""C05 — prover exactness: it proves iff the compiled constraints hold."""
from plib import *
from props.builder import Prog, PProg
from props.common import ProgRunner, parse

LEAN_TARGETS = ["Plonk.Props.C05"]
ASSUMPTIONS = ["Fiat-Shamir challenges avoid the explicit bad-challenge sets (random-oracle assumption)",
               "KZG/pairing layer is exercised, not modelled, in this check (see C20)"]
THEOREMS_NOTE = "Plonk/Props/C05.lean"

NOOP = "gate 0 0 0 0 0 0 - #0 #0 #0 #0"


def raw(q11, pi, wires):
    return "raw %s %s %s" % (" ".join(hx(x) for x in q11), "-" if pi is None else hx(pi), " ".join(wires))


def sel(rng):
    return rng.choice([0, 0, 1, 1, R - 1, 2, rng.fe()])


def body(rng, p):
    """a few ordinary components (all satisfiable), returns nothing"""
    for _ in range(1 + rng.below(4)):
        k = rng.below(8)
        if k == 0:
            a, b = p.w(boundary_value(rng)), p.w(boundary_value(rng)); p.gadd([coeff_value(rng) for _ in range(5)], None, a, b, "#0")
        elif k == 1:
            p.boolean(p.w(rng.below(2)))
        elif k == 2:
            w_ = 2 * rng.below(9); p.rangebits(w_, p.w(rng.fe() % (1 << w_)))
        elif k == 3:
            w_ = 1 + 2 * rng.below(8); p.rangebits(w_, p.w(rng.fe() % (1 << w_)))
        elif k == 4:
            p.logic(rng.choice(["and", "xor"]), rng.below(5), p.w(rng.fe()), p.w(rng.fe()))
        elif k == 5:
            p.pub(boundary_value(rng))
        elif k == 6:
            p.sel(p.w(rng.below(2)), p.w(rng.fe()), p.w(rng.fe()))
        else:
            p.aeqc(p.w(7), 3, 4)


def raw_family_case(rng, fam, violate):
    """one raw row of a chosen widget family with a satisfying (or minimally violating) assignment, followed by an anchor row"""
    p = Prog(); p.tags = ["raw-" + fam, "violate" if violate else "satisfy"]
    body(rng, p)
    q = [0] * 11
    if fam == "range":
        d = rng.fe() % 1000; qs = [rng.below(4) for _ in range(4)]
        c = 4 * d + qs[0]; b = 4 * c + qs[1]; a = 4 * b + qs[2]; dn = 4 * a + qs[3]
        if violate:
            j = rng.below(4)
            if j == 0: c += 4
            elif j == 1: b += 5
            elif j == 2: a += 7
            else: dn += 4
        q[7] = rng.choice([1, R - 1, 5])
        ws = [p.w(x) for x in (a, b, c, d)]
        nx = [p.w(rng.fe()), p.w(rng.fe()), p.w(rng.fe()), p.w(dn)]
    elif fam == "logic":
        isx = rng.coin()
        a, b, d = rng.fe() % 1000, rng.fe() % 1000, rng.fe() % 1000
        qa, qb = rng.below(4), rng.below(4)
        qd = (qa ^ qb) if isx else (qa & qb)
        an, bn, dn, cw = 4 * a + qa, 4 * b + qb, 4 * d + qd, qa * qb
        if violate:
            j = rng.below(5)
            if j == 0: an += 4
            elif j == 1: bn += 4
            elif j == 2: dn += 4
            elif j == 3: cw += 1
            else: dn = 4 * d + ((qd + 1) % 4)
        q[5] = R - 1 if isx else 1
        q[8] = R - 1 if isx else 1
        ws = [p.w(x) for x in (a, b, cw, d)]
        nx = [p.w(an), p.w(bn), p.w(rng.fe()), p.w(dn)]
    elif fam == "var":
        P, Q = random_curve_point(rng), random_curve_point(rng)
        S = ed_add(P, Q)
        h = P[0] * Q[1] % R
        x3, y3 = S
        if violate:
            j = rng.below(3)
            if j == 0: h = (h + 1) % R
            elif j == 1: x3 = (x3 + 1) % R
            else: y3 = (y3 + 1) % R
        q[10] = rng.choice([1, 3])
        ws = [p.w(x) for x in (P[0], P[1], Q[0], Q[1])]
        nx = [p.w(x3), p.w(y3), p.w(rng.fe()), p.w(h)]
    elif fam == "fixed":
        A = random_curve_point(rng); B = random_curve_point(rng)
        bit = rng.choice([0, 1, R - 1])
        acc = rng.fe() % 1000
        accn = (2 * acc + bit) % R
        addp = {0: (0, 1), 1: B, R - 1: ed_neg(B)}[bit]
        S = ed_add(A, addp)
        xy = addp[0] * addp[1] % R
        x3, y3 = S
        if violate:
            j = rng.below(4)
            if j == 0: accn = (2 * acc + 2) % R
            elif j == 1: xy = (xy + 1) % R
            elif j == 2: x3 = (x3 + 1) % R
            else: y3 = (y3 + 1) % R
        q[1], q[2], q[5] = B[0], B[1], B[0] * B[1] % R
        q[9] = 1
        ws = [p.w(x) for x in (A[0], A[1], xy, acc)]
        nx = [p.w(x3), p.w(y3), p.w(rng.fe()), p.w(accn)]
    else:  # arith with all six coefficients and a public input
        a, b, c, d = (rng.fe() for _ in range(4))
        qq = [coeff_value(rng) for _ in range(6)]
        qa = rng.choice([1, 2, R - 1])
        pi = (-(qq[0] * a * b + qq[1] * a + qq[2] * b + qq[3] * c + qq[4] * d + qq[5]) * qa) % R
        if violate:
            pi = (pi + 1) % R
        q[0:6] = qq; q[6] = qa
        ws = [p.w(x) for x in (a, b, c, d)]
        nx = [p.w(0)] * 4
        p.op(raw(q, pi, [p.ref(x) for x in ws]))
        p.op(NOOP)
        if violate: p.unsat()
        return p
    p.op(raw(q, None, [p.ref(x) for x in ws]))
    p.op(raw([0] * 11, None, [p.ref(x) for x in nx]))     # anchor row (all selectors zero)
    if violate:
        p.unsat()
    return p


def mixed_selector_case(rng):
    """arbitrary selector combinations on random wires: the model decides"""
    p = Prog(); p.tags = ["raw-mixed-selectors"]
    body(rng, p)
    for _ in range(1 + rng.below(3)):
        q = [sel(rng) if rng.coin(1, 2) else 0 for _ in range(11)]
        ws = [p.w(rng.choice([0, 1, rng.fe() % 4, rng.fe()])) for _ in range(4)]
        p.op(raw(q, rng.choice([None, None, rng.fe()]), [p.ref(x) for x in ws]))
    p.unknown()
    return p


def run(ctx, broken):
    rng = SplitMix(ctx.seed * 1000003 + 5)
    r = ProgRunner(ctx, "C05")
    n = 18 if ctx.tier == "quick" else 200
    cs = []
    fams = ["range", "logic", "var", "fixed", "arith"]
    for i in range(n):
        for fam in fams:
            cs.append(raw_family_case(rng, fam, violate=(i % 2 == 1)).case())
    for i in range(n * 2):
        cs.append(mixed_selector_case(rng).case())
    r.run(cs)
    # ---- selected row on the last row of a full domain (wrap-around to row 0) and size boundaries
    pre = []
    for i in range(10 if ctx.tier == "quick" else 60):
        p = Prog(); body(rng, p)
        pre.append(p)
    shapes = ctx.model(["shape " + p.src() for p in pre])
    wrap = []
    for p, sh in zip(pre, shapes):
        g = int(parse(sh).get("gates", "0"))
        for delta_ in ([0] if ctx.tier == "quick" else [0, -1, 1]):
            target = nextpow2(g + 2) + delta_        # total number of gates
            pad = target - g - 1
            if pad < 0:
                continue
            for viol in (False, True):
                q = Prog(); q.ops = list(p.ops); q.regs = list(p.regs); q.sat = p.sat
                q.tags = ["last-row-selected", "gates=2^k%+d" % delta_]
                for _ in range(pad):
                    q.op(NOOP)
                a = q.w(1 if viol else 0)
                sel11 = [0] * 11; sel11[7] = 1       # range row: reads d of the next row = row 0 (cyclic) or the zero padding
                q.op(raw(sel11, None, [q.ref(a), "#0", "#0", "#0"]))
                q.unknown()                           # the model decides (wrap-around semantics are its job)
                c = q.case(); c["wrap_expect"] = "unsat" if viol else "sat"
                wrap.append(c)
    r.run(wrap)
    # ---- copy constraints: compile A, prove an instance whose wiring differs in one position
    cc = []
    for i in range(20 if ctx.tier == "quick" else 200):
        p = Prog(); body(rng, p)
        x = p.w(rng.fe()); y = p.w(p.val(x) if i % 3 == 0 else (p.val(x) + 1 + rng.below(5)) % R)
        a_src = p.src() + ";" + NOOP.replace("#0 #0 #0 #0", "%s #0 #0 #0" % p.ref(x)) + ";" + NOOP.replace("#0 #0 #0 #0", "#0 %s #0 #0" % p.ref(x))
        b_src = p.src() + ";" + NOOP.replace("#0 #0 #0 #0", "%s #0 #0 #0" % p.ref(x)) + ";" + NOOP.replace("#0 #0 #0 #0", "#0 %s #0 #0" % p.ref(y))
        same = p.val(x) == p.val(y)
        cc.append({"src": a_src + " || " + b_src, "cmd": "prog2", "expect": "sat" if same else "unsat", "rv": None,
                   "tags": ["copy-constraint", "copy-equal-values" if same else "copy-split-class"]})
    for i in range(6 if ctx.tier == "quick" else 40):
        p = Prog(); body(rng, p)
        cc.append({"src": p.src() + " || " + p.src() + ";" + NOOP, "cmd": "prog2", "expect": "sizeerr", "rv": None,
                   "tags": ["size-mismatch"]})
    r.run(cc, cmd="prog2")
    st = r.report(broken)
    st["rule"] = ("programs = 1-4 ordinary components + one raw row of each widget family (range/logic/variable-base/fixed-base/"
                  "arithmetic+PI, selector values 1,-1,other) with a satisfying assignment or one violating exactly one identity "
                  "component, followed by an anchor row; raw rows with arbitrary mixed selectors; a selected row on the last row "
                  "of a full domain (gates = 2^k, wrap-around to row 0) and at 2^k+-1; copy constraints: keys compiled from A, "
                  "instance B re-wires one position (equal / different value); constraint-count mismatch. Outcome of the real "
                  "prove+verify vs the model's proveOutcome (row identities on the padded domain, cyclic next row, copy classes, size).")
    return st


def nextpow2(n):
    p = 1
    while p < n:
        p *= 2
    return p
