"""C05 — prover exactness: it proves iff the compiled constraints hold."""
from plib import *
from props.builder import Prog, PProg
from props.common import ProgRunner, parse

EXTRA_AUDITS = ["ProverTie"]
LEAN_TARGETS = ["Plonk.Props.C05", "Plonk.Props.C05Perm", "Plonk.Props.WidgetTie", "Plonk.Props.ProverTie"]
ASSUMPTIONS = ["Fiat-Shamir challenges avoid the explicit bad-challenge sets (random-oracle assumption)",
               "KZG/pairing layer is exercised, not modelled, in this check (see C20)"]
THEOREMS_NOTE = "Plonk/Props/C05.lean"

NOOP = "gate 0 0 0 0 0 0 - #0 #0 #0 #0"


def raw(q11, pi, wires):
    return "raw %s %s %s" % (" ".join(hx(x) for x in q11), "-" if pi is None else hx(pi), " ".join(wires))


def sel(rng):
    return rng.choice([0, 0, 1, 1, R - 1, 2, rng.fe()])


def body(rng, p):
    """a few ordinary components (all satisfiable), returns nothing"""
    for _ in range(1 + rng.below(4)):
        k = rng.below(8)
        if k == 0:
            a, b = p.w(boundary_value(rng)), p.w(boundary_value(rng)); p.gadd([coeff_value(rng) for _ in range(5)], None, a, b, "#0")
        elif k == 1:
            p.boolean(p.w(rng.below(2)))
        elif k == 2:
            w_ = 2 * rng.below(9); p.rangebits(w_, p.w(rng.fe() % (1 << w_)))
        elif k == 3:
            w_ = 1 + 2 * rng.below(8); p.rangebits(w_, p.w(rng.fe() % (1 << w_)))
        elif k == 4:
            p.logic(rng.choice(["and", "xor"]), rng.below(5), p.w(rng.fe()), p.w(rng.fe()))
        elif k == 5:
            p.pub(boundary_value(rng))
        elif k == 6:
            p.sel(p.w(rng.below(2)), p.w(rng.fe()), p.w(rng.fe()))
        else:
            p.aeqc(p.w(7), 3, 4)


def raw_family_case(rng, fam, violate, with_body=True, force_j=None):
    """one raw row of a chosen widget family with a satisfying (or minimally violating) assignment, followed by an anchor row"""
    p = Prog(); p.tags = ["raw-" + fam, "violate" if violate else "satisfy"]
    if with_body:
        body(rng, p)
    def pick(n):
        j_ = rng.below(n)             # the stream is consumed either way
        return j_ if force_j is None else force_j % n
    q = [0] * 11
    if fam == "range":
        d = rng.fe() % 1000; qs = [rng.below(4) for _ in range(4)]
        c = 4 * d + qs[0]; b = 4 * c + qs[1]; a = 4 * b + qs[2]; dn = 4 * a + qs[3]
        if violate:
            j = rng.below(4)
            if j == 0: c += 4
            elif j == 1: b += 5
            elif j == 2: a += 7
            else: dn += 4
        q[7] = rng.choice([1, R - 1, 5])
        ws = [p.w(x) for x in (a, b, c, d)]
        nx = [p.w(rng.fe()), p.w(rng.fe()), p.w(rng.fe()), p.w(dn)]
    elif fam == "logic":
        isx = rng.coin()
        a, b, d = rng.fe() % 1000, rng.fe() % 1000, rng.fe() % 1000
        qa, qb = rng.choice([(0, 0), (0, 1), (1, 0), (1, 2), (2, 1), (3, 3), (rng.below(4), rng.below(4))])
        qd = (qa ^ qb) if isx else (qa & qb)
        an, bn, dn, cw = 4 * a + qa, 4 * b + qb, 4 * d + qd, qa * qb
        if violate:
            j = rng.below(5)
            if j == 0: an += 4
            elif j == 1: bn += 4
            elif j == 2: dn += 4
            elif j == 3:
                alts = logic_alt_roots(qa, qb, isx)
                cw = alts[0] if alts else cw + 1     # another root of the per-quad cubic: only `w = a*b` fails
                if alts: p.tags.append("logic-product-other-root")
            else: dn = 4 * d + ((qd + 1) % 4)
        q[5] = R - 1 if isx else 1
        q[8] = R - 1 if isx else 1
        ws = [p.w(x) for x in (a, b, cw, d)]
        nx = [p.w(an), p.w(bn), p.w(rng.fe()), p.w(dn)]
    elif fam == "var":
        P, Q = random_curve_point(rng), random_curve_point(rng)
        S = ed_add(P, Q)
        h = P[0] * Q[1] % R
        x3, y3 = S
        if violate:
            j = pick(3)
            if j == 0: h = (h + 1) % R
            elif j == 1: x3 = (x3 + 1) % R
            else: y3 = (y3 + 1) % R
        q[10] = rng.choice([1, 3])
        ws = [p.w(x) for x in (P[0], P[1], Q[0], Q[1])]
        nx = [p.w(x3), p.w(y3), p.w(rng.fe()), p.w(h)]
    elif fam == "fixed":
        A = random_curve_point(rng); B = random_curve_point(rng)
        bit = rng.choice([0, 1, R - 1])
        acc = rng.fe() % 1000
        accn = (2 * acc + bit) % R
        addp = {0: (0, 1), 1: B, R - 1: ed_neg(B)}[bit]
        S = ed_add(A, addp)
        xy = addp[0] * addp[1] % R
        x3, y3 = S
        if violate:
            j = pick(4)
            if j == 0: accn = (2 * acc + 2) % R
            elif j == 1: xy = (xy + 1) % R
            elif j == 2: x3 = (x3 + 1) % R
            else: y3 = (y3 + 1) % R
        q[1], q[2], q[5] = B[0], B[1], B[0] * B[1] % R
        q[9] = 1
        ws = [p.w(x) for x in (A[0], A[1], xy, acc)]
        nx = [p.w(x3), p.w(y3), p.w(rng.fe()), p.w(accn)]
    elif fam == "fixed-free":
        # the selectors the widget reads (q_l, q_r, q_c) chosen INDEPENDENTLY (not a curve point, q_c != q_l*q_r)
        ql, qr, qc = rng.fe(), rng.fe(), rng.choice([rng.fe(), 0, 1])
        a_, b_ = rng.fe(), rng.fe()
        bit = rng.choice([1, R - 1, 1, R - 1, 0])
        acc = rng.fe() % 1000
        accn = (2 * acc + bit) % R
        ya = (bit * bit * (qr - 1) + 1) % R; xa = bit * ql % R
        xy = bit * qc % R
        if violate:
            j = rng.below(5)
            if j == 4 and (bit == 0 or (ql * qr - qc) % R == 0):
                j = 1               # `xy = bit*ql*qr` coincides with the honest value: not a violation
            if j == 0: accn = (2 * acc + 2) % R; bit = 2; ya = (4 * (qr - 1) + 1) % R; xa = 2 * ql % R; xy = 2 * qc % R
            elif j == 1: xy = (xy + 1) % R
            elif j == 4: xy = bit * ql % R * qr % R; p.tags.append("xy=bit*ql*qr")
        k = xy * a_ * b_ * D % R
        x3 = (a_ * ya + b_ * xa) * inv((1 + k) % R) % R
        y3 = (b_ * ya + a_ * xa) * inv((1 - k) % R) % R
        if violate and j == 2: x3 = (x3 + 1) % R
        if violate and j == 3: y3 = (y3 + 1) % R
        q[1], q[2], q[5] = ql, qr, qc
        q[9] = rng.choice([1, R - 1, 7])
        ws = [p.w(x) for x in (a_, b_, xy, acc)]
        nx = [p.w(x3), p.w(y3), p.w(rng.fe()), p.w(accn)]
    elif fam == "logic-free":
        # q_c solved so that an ARBITRARY quad triple satisfies the last component (q_c is not +-1)
        a, b, d = rng.fe() % 1000, rng.fe() % 1000, rng.fe() % 1000
        while True:
            qa, qb, qd = rng.below(4), rng.below(4), rng.below(4)
            den = (9 * qd - 3 * (qa + qb)) % R
            if den != 0:
                break
        cw = qa * qb
        e0 = delta_xor_and(qa, qb, cw, qd, 0)
        qc = (-e0) * inv(den) % R
        assert delta_xor_and(qa, qb, cw, qd, qc) == 0
        an, bn, dn = 4 * a + qa, 4 * b + qb, 4 * d + qd
        if violate:
            j = rng.below(4)
            if j == 0: an += 4
            elif j == 1: bn += 4
            elif j == 2: dn = 4 * d + ((qd + 1) % 4)
            else: qc = (qc + 1) % R
            # the altered quad triple may satisfy the identity again (e.g. (0,0,0) does for EVERY q_c): decide, don't assume
            qa2, qb2, qd2 = (an - 4 * a) % R, (bn - 4 * b) % R, (dn - 4 * d) % R
            if (qa2 < 4 and qb2 < 4 and qd2 < 4 and cw == qa2 * qb2 % R and delta_xor_and(qa2, qb2, cw, qd2, qc) == 0):
                violate = False
        q[5] = qc; q[8] = rng.choice([1, R - 1, 3])
        ws = [p.w(x) for x in (a, b, cw, d)]
        nx = [p.w(an), p.w(bn), p.w(rng.fe()), p.w(dn)]
    else:  # arith with all six coefficients and a public input
        a, b, c, d = (rng.fe() for _ in range(4))
        qq = [coeff_value(rng) for _ in range(6)]
        qa = rng.choice([1, 2, R - 1])
        pi = (-(qq[0] * a * b + qq[1] * a + qq[2] * b + qq[3] * c + qq[4] * d + qq[5]) * qa) % R
        if violate:
            pi = (pi + 1) % R
        q[0:6] = qq; q[6] = qa
        ws = [p.w(x) for x in (a, b, c, d)]
        nx = [p.w(0)] * 4
        p.op(raw(q, pi, [p.ref(x) for x in ws]))
        p.op(NOOP)
        if violate: p.unsat()
        return p
    p.op(raw(q, None, [p.ref(x) for x in ws]))
    p.op(raw([0] * 11, None, [p.ref(x) for x in nx]))     # anchor row (all selectors zero)
    if violate:
        p.unsat()
    return p


def _delta_pair(rng):
    """(x, y) with delta(x) = -delta(y) != 0"""
    while True:
        x = 4 + rng.below(1000)
        y = delta_inv((-delta(x)) % R)
        if y is not None:
            return x, y


CANCEL_KINDS = ([("range", i, j) for i in range(4) for j in range(i + 1, 4)] + [("range", i, "arith") for i in range(4)] +
                [("logic", i, j) for i in range(3) for j in range(i + 1, 3)] + [("logic", i, "arith") for i in range(5)] +
                [("fixed", i, j) for i in range(4) for j in range(i + 1, 4)] + [("fixed", i, "arith") for i in range(4)] +
                [("var", i, j) for i in range(3) for j in range(i + 1, 3)] + [("var", i, "arith") for i in range(3)])


def cancel_case(rng, fam, i, j):
    """one raw row on which exactly two identity components are non-zero and SUM TO ZERO (components i and j of one
    widget, or component i and the arithmetic identity): rejected because the components carry independent challenge
    weights; a change that gives two components the same weight accepts it"""
    p = Prog(); p.tags = ["cancel-" + fam, "cancel-%s-%s" % (i, j)]
    body(rng, p)
    q = [0] * 11
    t = [0] * 5                                    # target component values
    arith_extra = 0                                # value of the arithmetic selectors' part that the widget also uses
    if fam == "range":
        if j == "arith":
            xs = [rng.below(4) for _ in range(4)]; xs[i] = 4 + rng.below(1000); t[i] = delta(xs[i])
        else:
            xs = [rng.below(4) for _ in range(4)]; xs[i], xs[j] = _delta_pair(rng); t[i] = delta(xs[i])
        d = rng.fe() % 1000
        c = (4 * d + xs[0]) % R; b = (4 * c + xs[1]) % R; a = (4 * b + xs[2]) % R; dn = (4 * a + xs[3]) % R
        q[7] = 1
        ws = (a, b, c, d); nx = (rng.fe(), rng.fe(), rng.fe(), dn)
    elif fam == "logic":
        isx = rng.coin(); qc = R - 1 if isx else 1
        a, b, d = rng.fe() % 1000, rng.fe() % 1000, rng.fe() % 1000
        qa, qb = rng.below(4), rng.below(4)
        qd = (qa ^ qb) if isx else (qa & qb)
        cw = qa * qb
        if j == "arith" and i == 3:
            while not logic_alt_roots(qa, qb, isx):
                qa, qb = rng.below(4), rng.below(4)
            qd = (qa ^ qb) if isx else (qa & qb)
            cw = logic_alt_roots(qa, qb, isx)[0]
            t[3] = (cw - qa * qb) % R
        elif j == "arith" and i == 4:
            qd = (qd + 1 + rng.below(3)) % 4
            t[4] = delta_xor_and(qa, qb, cw, qd, qc)
        else:
            quads = [qa, qb, qd]
            if j == "arith":
                quads[i] = 4 + rng.below(1000)
            else:
                quads[i], quads[j] = _delta_pair(rng)
            t[i] = delta(quads[i])
            qa, qb, qd = quads
            cw = qa * qb % R
            # keep the last component (which reads all quads) at zero: it is linear in d's quad only through 3c + qc*9c;
            # solve nothing - instead pick the product wire as a root of the cubic when the quads are off-range
            if delta_xor_and(qa, qb, cw, qd, qc) != 0:
                return None
        an, bn, dn = (4 * a + qa) % R, (4 * b + qb) % R, (4 * d + qd) % R
        q[5] = qc; q[8] = 1
        arith_extra = qc
        ws = (a, b, cw, d); nx = (an, bn, rng.fe(), dn)
    elif fam == "fixed":
        A = random_curve_point(rng); B = random_curve_point(rng)
        ql, qr, qc = B[0], B[1], B[0] * B[1] % R
        acc = rng.fe() % 1000
        if i == 0:
            bit = rng.choice([2, 3, R - 2, 5])
        else:
            bit = rng.choice([0, 1, R - 1])
        tb = bit * (bit - 1) * (bit + 1) % R
        t[0] = tb
        if j == "arith":
            if i != 0:
                t[i] = 1 + rng.below(1000)
        else:
            v = tb if i == 0 else 1 + rng.below(1000)
            t[i] = v; t[j] = (-v) % R
        accn = (2 * acc + bit) % R
        ya = (bit * bit * (qr - 1) + 1) % R; xa = bit * ql % R
        cwire = (bit * qc - t[1]) % R
        k = cwire * A[0] * A[1] * D % R
        if (1 + k) % R == 0 or (1 - k) % R == 0:
            return None
        x3 = (t[2] + A[0] * ya + A[1] * xa) * inv((1 + k) % R) % R
        y3 = (t[3] + A[1] * ya + A[0] * xa) * inv((1 - k) % R) % R
        q[1], q[2], q[5] = ql, qr, qc; q[9] = 1
        arith_extra = (ql * A[0] + qr * A[1] + qc) % R
        ws = (A[0], A[1], cwire, acc); nx = (x3, y3, rng.fe(), accn)
    else:  # var
        P, Q = random_curve_point(rng), random_curve_point(rng)
        if j == "arith":
            t[i] = 1 + rng.below(1000)
        else:
            v = 1 + rng.below(1000); t[i] = v; t[j] = (-v) % R
        h = (P[0] * Q[1] - t[0]) % R
        y1x2 = P[1] * Q[0] % R
        k = D * h % R * y1x2 % R
        if (1 + k) % R == 0 or (1 - k) % R == 0:
            return None
        x3 = (h + y1x2 - t[1]) * inv((1 + k) % R) % R
        y3 = (P[1] * Q[1] + P[0] * Q[0] - t[2]) * inv((1 - k) % R) % R
        q[10] = 1
        ws = (P[0], P[1], Q[0], Q[1]); nx = (x3, y3, rng.fe(), h)
    pi = None
    if j == "arith":
        q[6] = 1
        pi = (-arith_extra - t[i]) % R             # arithmetic identity = -(component i)
    wsr = [p.w(x) for x in ws]; nxr = [p.w(x) for x in nx]
    p.op(raw(q, pi, [p.ref(x) for x in wsr]))
    p.op(raw([0] * 11, None, [p.ref(x) for x in nxr]))
    p.unsat()
    return p


def cancel_cases(rng, fams, reps):
    out = []
    for rep in range(reps):
        for (fam, i, j) in CANCEL_KINDS:
            if fam not in fams:
                continue
            for _ in range(20):
                c = cancel_case(rng, fam, i, j)
                if c is not None:
                    out.append(c.case()); break
    return out


def mixed_selector_case(rng):
    """arbitrary selector combinations on random wires: the model decides"""
    p = Prog(); p.tags = ["raw-mixed-selectors"]
    body(rng, p)
    for _ in range(1 + rng.below(3)):
        q = [sel(rng) if rng.coin(1, 2) else 0 for _ in range(11)]
        ws = [p.w(rng.choice([0, 1, rng.fe() % 4, rng.fe()])) for _ in range(4)]
        p.op(raw(q, rng.choice([None, None, rng.fe()]), [p.ref(x) for x in ws]))
    p.unknown()
    return p


def run(ctx, broken):
    rng = SplitMix(ctx.seed * 1000003 + 5)
    r = ProgRunner(ctx, "C05")
    n = 18 if ctx.tier == "quick" else 200
    cs = []
    fams = ["range", "logic", "var", "fixed", "arith", "fixed-free", "logic-free"]
    for i in range(n):
        for fam in fams:
            cs.append(raw_family_case(rng, fam, violate=(i % 2 == 1)).case())
    for i in range(n * 2):
        cs.append(mixed_selector_case(rng).case())
    cs += cancel_cases(rng, ("range", "logic", "fixed", "var"), 1 if ctx.tier == "quick" else 6)
    # SYSTEMATIC logic rows: every pair of operand quads, both operations, each of the six ways to break exactly one identity
    # component (left / right / output quad out of range by +4, output quad wrong, product wire at another root / off by one)
    for isx in (False, True):
        for qa in range(4):
            for qb in range(4):
                for j in range(6):
                    a, b, d = rng.fe() % 1000, rng.fe() % 1000, rng.fe() % 1000
                    qd = (qa ^ qb) if isx else (qa & qb)
                    an, bn, dn, cw = 4 * a + qa, 4 * b + qb, 4 * d + qd, qa * qb
                    if j == 0: an += 4
                    elif j == 1: bn += 4
                    elif j == 2: dn += 4
                    elif j == 3: dn = 4 * d + ((qd + 1) % 4)
                    elif j == 4:
                        alts = logic_alt_roots(qa, qb, isx)
                        if not alts:
                            continue
                        cw = alts[0]
                    else: cw = cw + 1
                    p = Prog(); p.tags = ["raw-logic-systematic", "violate"]
                    q = [0] * 11; q[5] = R - 1 if isx else 1; q[8] = R - 1 if isx else 1
                    ws = [p.w(x) for x in (a, b, cw, d)]
                    nx = [p.w(an), p.w(bn), p.w(rng.fe()), p.w(dn)]
                    p.op(raw(q, None, [p.ref(x) for x in ws])); p.op(raw([0] * 11, None, [p.ref(x) for x in nx]))
                    p.unsat()
                    cs.append(p.case())
    # SYSTEMATIC curve rows: every single component of the variable-base row (helper x1*y2, x3, y3) and of the fixed-base row
    # (digit not in {-1,0,1}, helper xy, x3, y3) violated alone, several times each
    for fam, ncomp in (("var", 3), ("fixed", 4)):
        for j in range(ncomp):
            for rep in range(2 if ctx.tier == "quick" else 6):
                cs.append(raw_family_case(rng, fam, True, with_body=False, force_j=j).case())
    # SYSTEMATIC range rows: exactly ONE of the four quad differences (c-4d, b-4c, a-4b, d_next-4a) out of {0..3} (4, 5, 7, -1),
    # the other three in range; selector values 1, -1, other
    for kq in range(4):
        for badv in (4, 5, 7, R - 1):
            for qsel in (1, R - 1, 5):
                qs = [rng.below(4) for _ in range(4)]
                qs[kq] = badv
                d_ = rng.fe() % 1000
                c_ = (4 * d_ + qs[0]) % R; b_ = (4 * c_ + qs[1]) % R; a_ = (4 * b_ + qs[2]) % R; dn_ = (4 * a_ + qs[3]) % R
                p = Prog(); p.tags = ["raw-range-systematic", "violate"]
                q = [0] * 11; q[7] = qsel
                ws = [p.w(x) for x in (a_, b_, c_, d_)]
                nx = [p.w(rng.fe()), p.w(rng.fe()), p.w(rng.fe()), p.w(dn_)]
                p.op(raw(q, None, [p.ref(x) for x in ws])); p.op(raw([0] * 11, None, [p.ref(x) for x in nx]))
                p.unsat()
                cs.append(p.case())
    r.run(cs)
    # ---- selected row on the last row of a full domain (wrap-around to row 0) and size boundaries
    pre = []
    for i in range(10 if ctx.tier == "quick" else 60):
        p = Prog(); body(rng, p)
        pre.append(p)
    shapes = ctx.model(["shape " + p.src() for p in pre])
    wrap = []
    for p, sh in zip(pre, shapes):
        g = int(parse(sh).get("gates", "0"))
        for delta_ in ([0] if ctx.tier == "quick" else [0, -1, 1]):
            target = nextpow2(g + 2) + delta_        # total number of gates
            pad = target - g - 1
            if pad < 0:
                continue
            for viol in (False, True):
                q = Prog(); q.ops = list(p.ops); q.regs = list(p.regs); q.sat = p.sat
                q.tags = ["last-row-selected", "gates=2^k%+d" % delta_]
                for _ in range(pad):
                    q.op(NOOP)
                a = q.w(1 if viol else 0)
                sel11 = [0] * 11; sel11[7] = 1       # range row: reads d of the next row = row 0 (cyclic) or the zero padding
                q.op(raw(sel11, None, [q.ref(a), "#0", "#0", "#0"]))
                q.unknown()                           # the model decides (wrap-around semantics are its job)
                c = q.case(); c["wrap_expect"] = "unsat" if viol else "sat"
                wrap.append(c)
    r.run(wrap)
    # ---- copy constraints: compile A, prove an instance whose wiring differs in one position
    cc = []
    for i in range(20 if ctx.tier == "quick" else 200):
        p = Prog(); body(rng, p)
        x = p.w(rng.fe()); y = p.w(p.val(x) if i % 3 == 0 else (p.val(x) + 1 + rng.below(5)) % R)
        a_src = p.src() + ";" + NOOP.replace("#0 #0 #0 #0", "%s #0 #0 #0" % p.ref(x)) + ";" + NOOP.replace("#0 #0 #0 #0", "#0 %s #0 #0" % p.ref(x))
        b_src = p.src() + ";" + NOOP.replace("#0 #0 #0 #0", "%s #0 #0 #0" % p.ref(x)) + ";" + NOOP.replace("#0 #0 #0 #0", "#0 %s #0 #0" % p.ref(y))
        same = p.val(x) == p.val(y)
        cc.append({"src": a_src + " || " + b_src, "cmd": "prog2", "expect": "sat" if same else "unsat", "rv": None,
                   "tags": ["copy-constraint", "copy-equal-values" if same else "copy-split-class"]})
    # a witness wired into several slots of ONE gate and used nowhere else (x*x, boolean-style rows): the instance gives the slots
    # different witnesses — every pair of columns, values different (unsat) or equal (sat)
    cols = ["a", "b", "c", "d"]
    for (c1, c2) in [(0, 1), (0, 2), (0, 3), (1, 2), (1, 3), (2, 3)]:
        for same in (False, True):
            p = Prog()
            if rng.coin(1, 2):
                body(rng, p)
            x = p.w(rng.fe()); y = p.w(p.val(x) if same else (p.val(x) + 1 + rng.below(5)) % R)
            def row(w1, w2):
                ws = ["#0"] * 4; ws[c1] = p.ref(w1); ws[c2] = p.ref(w2)
                return "gate 0 0 0 0 0 0 - %s" % " ".join(ws)
            cc.append({"src": p.src() + ";" + row(x, x) + " || " + p.src() + ";" + row(x, y), "cmd": "prog2",
                       "expect": "sat" if same else "unsat", "rv": None,
                       "tags": ["copy-constraint", "copy-within-one-gate-%s%s" % (cols[c1], cols[c2]), "copy-equal-values" if same else "copy-split-class"]})
    for i in range(6 if ctx.tier == "quick" else 40):
        p = Prog(); body(rng, p)
        cc.append({"src": p.src() + " || " + p.src() + ";" + NOOP, "cmd": "prog2", "expect": "sizeerr", "rv": None,
                   "tags": ["size-mismatch", "one-gate-more"]})
        # one gate fewer (the compiled description has a trailing unconstrained row), k gates more (crossing the next power of two)
        cc.append({"src": p.src() + ";" + NOOP + " || " + p.src(), "cmd": "prog2", "expect": "sizeerr", "rv": None,
                   "tags": ["size-mismatch", "one-gate-fewer"]})
        cc.append({"src": p.src() + " || " + p.src() + (";" + NOOP) * (3 + 5 * i), "cmd": "prog2", "expect": "sizeerr", "rv": None,
                   "tags": ["size-mismatch", "several-gates-more"]})
        # the extra / missing row carries a public input (zero-valued): one more / one fewer public-input row
        cc.append({"src": p.src() + " || " + p.src() + ";pub 0", "cmd": "prog2", "expect": "sizeerr", "rv": None,
                   "tags": ["size-mismatch", "one-public-input-more"]})
        cc.append({"src": p.src() + ";pub 0 || " + p.src(), "cmd": "prog2", "expect": "sizeerr", "rv": None,
                   "tags": ["size-mismatch", "one-public-input-fewer"]})
    # same number of constraints and of public inputs, but the instance carries them on OTHER rows than the compiled description
    # (outside the property's precondition: no expectation on sat / unsat — but never a panic and never a proof that its own
    # verifier rejects; the model decides the rest)
    for i in range(4 if ctx.tier == "quick" else 24):
        v1, v2 = rng.fe(), rng.fe()
        a_src = "pub %s;w 1;bool $1;w 0;bool $2;pub %s" % (hx(v1), hx(v2))
        b_variants = ["w 1;bool $0;pub %s;w 0;bool $2;pub %s" % (hx(v1), hx(v2)),          # first public input one row later
                      "w 1;bool $0;w 0;bool $1;pub %s;pub %s" % (hx(v1), hx(v2)),          # both at the end
                      "pub %s;pub %s;w 1;bool $2;w 0;bool $3" % (hx(v1), hx(v2)),          # both at the start
                      "pub %s;w 1;bool $1;w 0;bool $2;pub %s" % (hx(v2), hx(v1))]          # values swapped, rows as compiled
        cc.append({"src": a_src + " || " + b_variants[i % 4], "cmd": "prog2", "expect": None, "rv": None,
                   "tags": ["public-inputs-on-other-rows"]})
    # LONG copy classes: one witness wired into m slots (all four columns of unconstrained rows, registration order
    # a0 b0 c0 d0 a1 ...). Keys compiled from A (all slots = x); instance B feeds a subset of the slots from a second
    # witness y != x: the first k slots keep x (every split position k, incl. 16, 32, 48, 64), alternating slots, a random
    # subset, a single slot. Every row holds for any values, so only the copy constraints can reject the instance.
    def slots_src(p, m, pick):
        rows = []
        for r0 in range(0, m, 4):
            ws = [pick(j) if j < m else "#0" for j in range(r0, r0 + 4)]
            rows.append("gate 0 0 0 0 0 0 - %s" % " ".join(ws))
        return p.src() + ";" + ";".join(rows)
    for m in ([70] if ctx.tier == "quick" else [17, 18, 33, 40, 70, 130]):
        p = Prog()
        if rng.coin(1, 2):
            body(rng, p)
        x = p.w(rng.fe()); y = p.w((p.val(x) + 1 + rng.below(5)) % R)
        a_src = slots_src(p, m, lambda j: p.ref(x))
        pats = [("split-%d" % k, (lambda k: lambda j: j < k)(k)) for k in range(1, m)]
        pats.append(("alternating", lambda j: j % 2 == 0))
        sub = set(rng.below(m) for _ in range(m // 2))
        pats.append(("random-subset", lambda j: j in sub))
        one_ = rng.below(m)
        pats.append(("single-slot", lambda j: j != one_))
        for name, keep in pats:
            b_src = slots_src(p, m, lambda j: p.ref(x) if keep(j) else p.ref(y))
            cc.append({"src": a_src + " || " + b_src, "cmd": "prog2", "expect": "unsat", "rv": None,
                       "tags": ["copy-constraint", "copy-long-class-%s" % (name if not name.startswith("split") else "split")]})
        cc.append({"src": a_src + " || " + a_src, "cmd": "prog2", "expect": "sat", "rv": None,
                   "tags": ["copy-constraint", "copy-long-class-honest"]})
    r.run(cc, cmd="prog2")
    # CONSTANT residual: an exactly full domain (no padding row) on which EVERY row — the four rows of Composer::initialized
    # included — misses its identity by the same constant d, all copy constraints intact: the numerator is d modulo the
    # vanishing polynomial, the smallest possible remainder (degree 0), i.e. the boundary case of the `len > 7n` detection rule
    const_res = []
    for total in ((8, 16) if ctx.tier == "quick" else (8, 16, 32, 64)):
        for dlt in (1, 5, R - 1, rng.fe()):
            p = Prog(); p.tags = ["constant-residual-full-domain", "gates=%d" % total]
            for _ in range(total - 4):
                k = rng.fe()
                w_ = p.w((k - dlt) % R); p.aeqc(w_, k)
            # witnesses of Composer::initialized: #0 zero, #1 one, #2 six, #3 one (dummy), #4 seven, #5 minus twenty
            p.op("setw #0 %s" % hx((-dlt) % R)); p.op("setw #1 %s" % hx((1 - dlt) % R))
            p.op("setw #4 %s" % hx((7 + dlt) % R)); p.op("setw #3 %s" % hx((1 - 8 * dlt) % R))
            p.unsat()
            const_res.append(p.case())
    r.run(const_res)
    st = r.report(broken)
    st["rule"] = ("programs = 1-4 ordinary components + one raw row of each widget family (range/logic/variable-base/fixed-base/"
                  "arithmetic+PI, selector values 1,-1,other) with a satisfying assignment or one violating exactly one identity "
                  "component, followed by an anchor row; the same with the selectors a widget READS chosen independently of the "
                  "gadget's conventions (fixed-base q_l,q_r,q_c unrelated; logic q_c solved for an arbitrary quad triple); CANCELLING rows for every pair of components of every widget and every "
                  "component against the arithmetic identity (exactly two non-zero components that sum to zero: rejected only "
                  "because the components carry independent challenge weights); raw rows with arbitrary mixed selectors; a selected row on the last row "
                  "of a full domain (gates = 2^k, wrap-around to row 0) and at 2^k+-1; copy constraints: keys compiled from A, "
                  "instance B re-wires one position (equal / different value); LONG copy classes (one witness in 70 slots over all four columns; instance B feeds the slots after every split position k, alternating slots, a random subset or a single slot from a second witness with another value: only the copy constraints can reject it); constraint-count mismatch; a CONSTANT residual on every row of an exactly full domain (remainder of degree 0: the boundary of the len > 7n rule). Outcome of the real "
                  "prove+verify vs the model's proveOutcome (row identities on the padded domain, cyclic next row, copy classes, size).")
    return st


def nextpow2(n):
    p = 1
    while p < n:
        p *= 2
    return p
