"""Program builder = the property-level (spec) oracle for composer programs.

It emits op text for the harness/driver and, independently of both, tracks what the property
statements say: the value every returned witness must have and whether the program is
satisfiable.  Nothing here is derived from the Lean model or from the Rust code."""
from plib import *


class Prog:
    def __init__(self):
        self.ops = []
        self.regs = []        # expected values of returned registers (None = unknown)
        self.sat = True       # property-level expectation; None = no expectation
        self.tags = []
        self.nwit0 = 6        # witnesses allocated by Composer::initialized (0,1,6,1,7,-20)
        self.ngates0 = 4

    # -- plumbing
    def op(self, text, rets=()):
        self.ops.append(text)
        first = len(self.regs)
        self.regs.extend(rets)
        return list(range(first, first + len(rets)))

    def ref(self, r):
        return "$%d" % r if isinstance(r, int) else r   # strings like '#0' pass through

    def val(self, r):
        if isinstance(r, int):
            return self.regs[r]
        return {"#0": 0, "#1": 1}[r]

    def unsat(self):
        if self.sat is not None:
            self.sat = False

    def unknown(self):
        self.sat = None

    def src(self):
        return ";".join(self.ops)

    def case(self, **kw):
        rv = None if any(v is None for v in self.regs) else list(self.regs)
        c = {"src": self.src(), "expect": {True: "sat", False: "unsat", None: None}[self.sat], "rv": rv,
             "tags": list(self.tags)}
        c.update(kw)
        return c

    # -- ops (C08)
    def w(self, v):
        return self.op("w %s" % hx(v), [v % R])[0]

    def setw(self, r, v):
        self.op("setw %s %s" % (self.ref(r), hx(v)))
        if isinstance(r, int):
            self.regs[r] = v % R

    def gate(self, q, pi, a, b, c, d):
        """q = (qm, ql, qr, qo, qf, qc)"""
        qm, ql, qr, qo, qf, qc = q
        self.op("gate %s %s %s" % (" ".join(hx(x) for x in q), "-" if pi is None else hx(pi),
                                   " ".join(self.ref(x) for x in (a, b, c, d))))
        va, vb, vc, vd = (self.val(x) for x in (a, b, c, d))
        if None in (va, vb, vc, vd):
            return self.unknown()
        lhs = (qm * va * vb + ql * va + qr * vb + qo * vc + qf * vd + qc + (pi or 0)) % R
        if lhs != 0:
            self.unsat()

    def evalout(self, q, pi, a, b, d):
        qm, ql, qr, qo, qf, qc = q
        va, vb, vd = self.val(a), self.val(b), self.val(d)
        x = (qm * va * vb + ql * va + qr * vb + qf * vd + qc + (pi or 0)) % R
        text = "evalout %s %s %s" % (" ".join(hx(t) for t in q), "-" if pi is None else hx(pi),
                                     " ".join(self.ref(t) for t in (a, b, d)))
        if qo % R != 0:
            return self.op(text, [(-x) * inv(qo) % R])[0]
        # no output: the row constrains the inputs (and wire C is the zero witness)
        if x != 0:
            self.unsat()
        return self.op(text, [0])[0]   # placeholder register = ZERO witness

    def gadd(self, q5, pi, a, b, d, name="gadd"):
        qm, ql, qr, qf, qc = q5
        va, vb, vd = self.val(a), self.val(b), self.val(d)
        x = (qm * va * vb + ql * va + qr * vb + qf * vd + qc + (pi or 0)) % R
        return self.op("%s %s %s %s" % (name, " ".join(hx(t) for t in q5), "-" if pi is None else hx(pi),
                                        " ".join(self.ref(t) for t in (a, b, d))), [x])[0]

    def aeq(self, a, b):
        self.op("aeq %s %s" % (self.ref(a), self.ref(b)))
        if self.val(a) != self.val(b):
            self.unsat()

    def aeqc(self, a, k, pi=None):
        self.op("aeqc %s %s %s" % (self.ref(a), hx(k), "-" if pi is None else hx(pi)))
        if self.val(a) != (k + (pi or 0)) % R:
            self.unsat()

    def const(self, v):
        return self.op("const %s" % hx(v), [v % R])[0]

    def pub(self, v):
        return self.op("pub %s" % hx(v), [v % R])[0]

    def boolean(self, a):
        self.op("bool %s" % self.ref(a))
        if self.val(a) not in (0, 1):
            self.unsat()

    def sel(self, bit, a, b):
        vb, va, vbb = self.val(bit), self.val(a), self.val(b)
        return self.op("sel %s %s %s" % (self.ref(bit), self.ref(a), self.ref(b)),
                       [(vb * va + (1 - vb) * vbb) % R])[0]

    def sel1(self, bit, v):
        vb, vv = self.val(bit), self.val(v)
        return self.op("sel1 %s %s" % (self.ref(bit), self.ref(v)), [(1 - vb + vb * vv) % R])[0]

    def sel0(self, bit, v):
        vb, vv = self.val(bit), self.val(v)
        return self.op("sel0 %s %s" % (self.ref(bit), self.ref(v)), [vb * vv % R])[0]

    # -- range / bits (C09, C11)
    def rangebits(self, n, w, op="rangebits"):
        self.op("%s %d %s" % (op, n, self.ref(w)))
        if n <= 254 and self.val(w) >= (1 << n):
            self.unsat()

    def rangepairs(self, p, w):
        self.op("range %d %s" % (p, self.ref(w)))
        n = min(2 * p, 256)
        if n <= 254 and self.val(w) >= (1 << n):
            self.unsat()

    def trunc(self, n, w):
        return self.op("trunc %d %s" % (n, self.ref(w)), [self.val(w) % (1 << n)])[0]

    def decomp(self, n, w):
        v = self.val(w)
        if v >= (1 << n):
            self.unsat()
        return self.op("decomp %d %s" % (n, self.ref(w)), [(v >> i) & 1 for i in range(n)])

    # -- logic (C10)
    def logic(self, name, pairs, a, b):
        m = (1 << (2 * pairs)) - 1
        va, vb = self.val(a) & m, self.val(b) & m
        out = (va & vb) if name == "and" else (va ^ vb)
        return self.op("%s %d %s %s" % (name, pairs, self.ref(a), self.ref(b)), [out])[0]


# ---------------------------------------------------------------------------------------------
# points (C12-C14): property-level oracle = the JubJub group law computed in plib
# ---------------------------------------------------------------------------------------------
def in_subgroup(p):
    return on_curve(p) and ed_mul(RJ, p) == (0, 1)


class PProg(Prog):
    def ext_ok(self, e):
        u, v, z, t1, t2 = e
        if z % R == 0:
            return None
        zi = inv(z)
        return (u * zi % R, v * zi % R)

    def pt(self, e, op="pt"):
        """append_point / append_public_point on an extended representation"""
        a = self.ext_ok(e)
        text = "%s %s" % (op, ext_str(e))
        if a is None:
            self.tags.append("zero-z")
            return self.op(text, [0, 0]), 1
        return self.op(text, [a[0], a[1]]), 0

    def cpt(self, e):
        a = self.ext_ok(e)
        text = "cpt %s" % ext_str(e)
        if a is None:
            return self.op(text, [0, 0]), 1
        u, v, z, t1, t2 = e
        ok = on_curve(a) and (a[0] * a[1] * z - t1 * t2) % R == 0 and in_subgroup(a)
        if not ok:
            return self.op(text, [0, 0]), 2
        return self.op(text, [a[0], a[1]]), 0

    def P(self, regs):
        return (self.val(regs[0]), self.val(regs[1]))

    def refs(self, regs):
        return " ".join(self.ref(r) for r in regs)

    def tf(self, p):
        self.op("tf %s" % self.refs(p))
        if not in_subgroup(self.P(p)):
            self.unsat()

    def tfq(self, p, q):
        self.op("tfq %s %s %s" % (self.refs(p), hx(q[0]), hx(q[1])))
        ok = on_curve(q)
        if ok:
            q8 = ed_mul(8, q)
            ok = q8 == self.P(p)
        if not ok:
            self.unsat()

    def neg(self, p):
        a = self.P(p)
        return self.op("neg %s" % self.refs(p), [(-a[0]) % R, a[1]])

    def add(self, p, q, op="add"):
        a, b = self.P(p), self.P(q)
        if op == "sub":
            b = ed_neg(b)
        s = ed_add(a, b)
        if s is None:   # pole: only for off-curve inputs; no property-level expectation
            self.unknown()
            return self.op("%s %s %s" % (op, self.refs(p), self.refs(q)), [None, None])
        return self.op("%s %s %s" % (op, self.refs(p), self.refs(q)), [s[0], s[1]])

    def selid(self, bit, p):
        vb = self.val(bit)
        a = self.P(p)
        if vb not in (0, 1):
            self.unsat()
        return self.op("selid %s %s" % (self.ref(bit), self.refs(p)), [vb * a[0] % R, (1 - vb + vb * a[1]) % R])

    def selpt(self, bit, p, q):
        vb = self.val(bit)
        a, b = self.P(p), self.P(q)
        return self.op("selpt %s %s %s" % (self.ref(bit), self.refs(p), self.refs(q)),
                       [(vb * a[0] + (1 - vb) * b[0]) % R, (vb * a[1] + (1 - vb) * b[1]) % R])

    def mulpt(self, s, p):
        vs = self.val(s)
        a = self.P(p)
        if vs >= (1 << 252):
            self.unsat()
            return self.op("mulpt %s %s" % (self.ref(s), self.refs(p)), [None, None])
        m = ed_mul(vs, a)
        return self.op("mulpt %s %s" % (self.ref(s), self.refs(p)), [m[0], m[1]])

    def mulgen(self, s, e):
        vs = self.val(s)
        a = self.ext_ok(e)
        text = "mulgen %s %s" % (self.ref(s), ext_str(e))
        u, v, z, t1, t2 = e
        ok = a is not None and on_curve(a) and (a[0] * a[1] * z - t1 * t2) % R == 0 and in_subgroup(a) and a != (0, 1)
        if not ok:
            return self.op(text, [0, 0]), 3
        if vs >= RJ:
            return self.op(text, [0, 0]), 4
        m = ed_mul(vs, a)
        return self.op(text, [m[0], m[1]]), 0

    def fbdigits(self, s, g, ds):
        """digits little endian in {-2..2}; `g` a validated prime-order affine generator"""
        vs = self.val(s)
        text = "fbdigits %s %s %s %s" % (self.ref(s), hx(g[0]), hx(g[1]), digits_str(ds))
        if any(d not in (-1, 0, 1) for d in ds):
            return self.op(text, [0, 0]), 5
        S = sum(d << i for i, d in enumerate(ds))
        ok = vs < RJ and all(d == 0 for d in ds[253:]) and S == vs
        if not ok:
            self.unsat()
            return self.op(text, [None, None]), 0
        m = ed_mul(vs, g)
        return self.op(text, [m[0], m[1]]), 0
