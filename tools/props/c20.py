"""C20 — KZG commitments and openings are exact."""
from plib import *
from props.common import LineRunner

LEAN_TARGETS = ["Plonk.Props.C20", "Plonk.Props.G1Law"]
EXTRA_AUDITS = ['G1Law']
ASSUMPTIONS = ["pairing decided in the trapdoor view: bilinearity + non-degeneracy of the BLS12-381 pairing and prime order of G1/G2 "
               "are assumed; the secret x is known to the model because the harness scripts the setup RNG",
               "binding against adversarially chosen witnesses is computational and not claimed"]
TRUSTED = ["dusk-bls12_381 group arithmetic / point codecs (re-implemented in Plonk/Model/Bls.lean and compared on every case)",
           "merlin/STROBE/Keccak (re-implemented in Plonk/Model/Transcript.lean and compared)"]
THEOREMS_NOTE = "Plonk/Props/C20.lean"


def lst(v):
    return ",".join(hx(x) for x in v) if v else "-"


def draw(rng, special=None):
    if special == "zero":
        return "00" * 64
    return "".join("%02x" % rng.below(256) for _ in range(64))


def poly(rng, n, kind=0):
    if kind == 1:
        return [0] * n
    if kind == 2:
        return [rng.fe() if i < max(1, n // 2) else 0 for i in range(n)]
    return [rng.fe() for _ in range(n)]


def py_eval(p, z):
    acc = 0
    for c in reversed(p):
        acc = (acc * z + c) % R
    return acc


def cases(rng, tier):
    out = []
    degs = [1, 2, 3, 5, 8, 16] if tier == "quick" else [1, 2, 3, 4, 5, 7, 8, 13, 16, 32, 64]
    for deg in degs:
        d = [draw(rng), draw(rng), draw(rng)]
        ds = " ".join(d)
        out.append({"line": "kzgsetup %d %s" % (deg, ds), "tags": ["setup"]})
        for tr in sorted(set([0, 1, 2, deg - 1, deg, deg + 1, max(1, deg // 2)])):
            if tr < 0:
                continue
            out.append({"line": "kzgtrim %d %s %d" % (deg, ds, tr), "tags": ["trim"],
                        "expect": ("err:TruncatedDegreeTooLarge" if tr + 6 > deg + 6 else str((2 if tr + 6 == 1 else tr + 6) + 1))})
        tr = max(1, deg // 2)
        keylen = tr + 6 + 1
        for n in sorted(set([0, 1, 2, keylen - 1, keylen, keylen + 1, keylen + 3])):
            for kind in (0, 2):
                p = poly(rng, n, kind)
                trimmed = list(p)
                while trimmed and trimmed[-1] == 0:
                    trimmed.pop()
                exp_err = len(trimmed) > keylen
                c = {"line": "kzgcommit %d %s %d %s" % (deg, ds, tr, lst(p)),
                     "tags": ["commit", "commit-beyond-degree" if exp_err else "commit-within-degree"]}
                if exp_err:
                    c["expect"] = "err:PolynomialDegreeTooLarge"
                out.append(c)
        # openings
        for rep in range(6 if tier == "quick" else 12):
            k = 1 + rng.below(3)
            items, wrong = [], None
            mode = rep % 6
            for i in range(k):
                z = rng.choice([0, 1, rng.fe()])
                v = rng.choice([1, rng.fe()])
                npoly = 1 + rng.below(3)
                polys = [poly(rng, 1 + rng.below(keylen - 1)) for _ in range(npoly)]
                if npoly >= 2 and rng.coin(1, 3):
                    polys[rng.below(npoly - 1)] = rng.choice([[], [0], [0, 0]])   # a zero polynomial that is not last
                evals, wz = "=", z
                if mode == 1 and i == k - 1:      # one wrong evaluation anywhere
                    ev = [py_eval(p, z) for p in polys]
                    j = rng.below(npoly)
                    ev[j] = (ev[j] + 1) % R
                    evals, wrong = lst(ev), "wrong-evaluation"
                if mode == 2 and i == 0:          # wrong witness (opened at another point)
                    # degree >= 2: the witness quotient of a polynomial of degree <= 1 does not depend on the opening point
                    polys[0] = poly(rng, 3 + rng.below(max(1, keylen - 3)))
                    if polys[0][-1] == 0:
                        polys[0][-1] = 1
                    wz, wrong = (z + 1) % R, "wrong-witness"
                items.append("%s|%s|%s|%s|%s" % (hx(z), hx(v), ";".join(lst(p) for p in polys), evals, hx(wz)))
            extra = ""
            if mode == 3 and k >= 2:
                extra, wrong = " perm=1,0" + "".join(",%d" % i for i in range(2, k)), "swapped-entries"
            if mode == 4:
                extra, wrong = " npoints=%d" % (k + 1), "mismatched-lengths"
            line = "kzgbatch %d %s %d %s%s" % (deg, ds, tr, "/".join(items), extra)
            c = {"line": line, "tags": ["batch-size-%d" % k, wrong or "all-evaluations-true"]}
            if wrong is None:
                c["expect"] = "ok"
            elif wrong in ("wrong-evaluation", "wrong-witness"):
                c["expect"] = "err:PairingCheckFailure"
            elif wrong == "mismatched-lengths":
                c["expect"] = "err:ProofVerificationError"
            out.append(c)
        out.append({"line": "kzgbatch %d %s %d -" % (deg, ds, tr), "tags": ["batch-empty"], "expect": "err:ProofVerificationError"})
        # CANCELLING errors in two entries of a larger batch: +d in entry i, -d in entry j (every pair of positions, batches of
        # 3..5): rejected only because the entries carry DISTINCT powers of the batching challenge
        if deg == 8 or tier != "quick":
            for k in ((3, 4) if tier == "quick" else (3, 4, 5)):
                base_items = []
                for i in range(k):
                    z = rng.choice([0, 1, rng.fe(), rng.fe()])
                    v = rng.choice([1, rng.fe()])
                    polys = [poly(rng, 2 + rng.below(max(1, keylen - 2))) for _ in range(1 + rng.below(2))]
                    base_items.append((z, v, polys))
                same_point = rng.coin(1, 3)
                if same_point:
                    base_items = [(base_items[0][0], v, ps) for (_, v, ps) in base_items]
                dlt = 1 + rng.below(1000)
                for i in range(k):
                    for j in range(i + 1, k):
                        items = []
                        for t, (z, v, polys) in enumerate(base_items):
                            ev = [py_eval(p, z) for p in polys]
                            if t == i: ev[0] = (ev[0] + dlt) % R
                            if t == j: ev[0] = (ev[0] - dlt) % R
                            items.append("%s|%s|%s|%s|%s" % (hx(z), hx(v), ";".join(lst(p) for p in polys), lst(ev), hx(z)))
                        out.append({"line": "kzgbatch %d %s %d %s" % (deg, ds, tr, "/".join(items)),
                                    "tags": ["batch-size-%d" % k, "cancelling-errors-%d-%d" % (i, j)], "expect": "err:PairingCheckFailure"})
                items = ["%s|%s|%s|=|%s" % (hx(z), hx(v), ";".join(lst(p) for p in polys), hx(z)) for (z, v, polys) in base_items]
                out.append({"line": "kzgbatch %d %s %d %s" % (deg, ds, tr, "/".join(items)), "tags": ["batch-size-%d" % k, "all-evaluations-true"],
                            "expect": "ok"})
        # openings of the ZERO polynomial (identity commitment, identity witness): the claimed value must still be 0 — batches in
        # which EVERY entry is such an opening, claiming 0 (ok) or something else (error)
        if deg == 8 or tier != "quick":
            for k in (1, 2, 3):
                for wrong_at in [None] + list(range(k)):
                    items = []
                    for t in range(k):
                        z = rng.choice([0, 1, rng.fe()])
                        npz = 1 + rng.below(2)
                        ev = [0] * npz
                        if wrong_at == t:
                            ev[rng.below(npz)] = 1 + rng.below(1000)
                        items.append("%s|%s|%s|%s|%s" % (hx(z), hx(rng.choice([1, rng.fe()])), ";".join(rng.choice(["-", "0", "0,0"]) for _ in range(npz)), lst(ev), hx(z)))
                    out.append({"line": "kzgbatch %d %s %d %s" % (deg, ds, tr, "/".join(items)),
                                "tags": ["batch-size-%d" % k, "zero-polynomial-openings", "claims-zero" if wrong_at is None else "claims-nonzero"],
                                "expect": "ok" if wrong_at is None else "err:PairingCheckFailure"})
        # the same inside ONE aggregated opening: +d / -d in two of 3..4 claimed evaluations at one point (distinct powers of v)
        if deg == 8 or tier != "quick":
            for npoly in (3, 4):
                z, v = rng.fe(), rng.fe()
                polys = [poly(rng, 2 + rng.below(max(1, keylen - 2))) for _ in range(npoly)]
                dlt = 1 + rng.below(1000)
                for i in range(npoly):
                    for j in range(i + 1, npoly):
                        ev = [py_eval(p, z) for p in polys]
                        ev[i] = (ev[i] + dlt) % R; ev[j] = (ev[j] - dlt) % R
                        it = "%s|%s|%s|%s|%s" % (hx(z), hx(v), ";".join(lst(p) for p in polys), lst(ev), hx(z))
                        out.append({"line": "kzgbatch %d %s %d %s" % (deg, ds, tr, it),
                                    "tags": ["aggregate-%d-polys" % npoly, "cancelling-errors-%d-%d" % (i, j)], "expect": "err:PairingCheckFailure"})
    # setup sizes around multiples of the block sizes a chunked generation could use (degree + 6 = 64, 128, 256, 512, 1024 and ±1)
    for deg in ([58, 122, 250, 251, 506, 1018] if tier == "quick" else [57, 58, 59, 121, 122, 123, 249, 250, 251, 505, 506, 507, 762, 1017, 1018, 1019, 2042]):
        out.append({"line": "kzgsetup %d %s" % (deg, " ".join([draw(rng), draw(rng), draw(rng)])), "tags": ["setup", "setup-block-boundary"]})
    # zero draw is resampled
    out.append({"line": "kzgsetup 2 %s %s %s" % (draw(rng, "zero"), draw(rng), draw(rng)), "tags": ["setup-not-enough-draws"]})
    out.append({"line": "kzgsetup 0 %s %s %s" % (draw(rng), draw(rng), draw(rng)), "tags": ["setup-degree-0"], "expect": "err:DegreeIsZero"})
    for rep in range(10 if tier == "quick" else 100):
        ps = [poly(rng, rng.below(6), rng.below(3)) for _ in range(1 + rng.below(4))]
        if rep % 3 == 0 and len(ps) >= 2:
            ps[rng.below(len(ps) - 1)] = rng.choice([[], [0], [0, 0]])       # a zero polynomial that is not last
        z, vch = rng.fe(), rng.fe()
        # definition: W = (sum_i v^i p_i - sum_i v^i p_i(z)) / (X - z)
        agg, pw = [0] * max([len(p) for p in ps] + [1]), 1
        for p in ps:
            for i, c in enumerate(p):
                agg[i] = (agg[i] + pw * c) % R
            pw = pw * vch % R
        q, carry = [0] * (len(agg) - 1), 0
        for i in range(len(agg) - 1, 0, -1):
            carry = (agg[i] + carry * z) % R
            q[i - 1] = carry
        while q and q[-1] == 0:
            q.pop()
        out.append({"line": "kzgaggw %s %s %s" % (";".join(lst(p) for p in ps), hx(z), hx(vch)), "tags": ["aggregate-witness"],
                    "expect": lst(q)})
    return out


def run(ctx, broken):
    rng = SplitMix(ctx.seed * 1000003 + 20)
    r = LineRunner(ctx, "C20")
    cs = [c for c in cases(rng, ctx.tier) if "setup-not-enough-draws" not in c["tags"]]
    r.run(cs)
    st = r.report()
    st["rule"] = ("SRS degrees 1..16 (64 thorough) from scripted RNG draws; every trim around 0/1/degree; polynomials up to and just "
                  "beyond the key degree (with trailing zeros); openings: batches of 3..5 entries with CANCELLING errors (+d / -d) in every pair of positions; batches of 1..3 points x 1..3 polynomials, all true / one "
                  "wrong evaluation / wrong witness / swapped entries / mismatched lengths / empty; aggregate witness. impl output == "
                  "Lean model (setup points, commitments byte-for-byte; batch decision via the trapdoor x); the model also checks "
                  "commit == [p(x)]g (spec=ok); accept/reject vs the property's own expectation (Python).")
    return st
