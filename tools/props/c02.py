"""C02 — soundness: no proof of a false statement is accepted."""
from plib import *
from props.vcommon import *
from props.builder import Prog

LEAN_TARGETS = ["Plonk.Props.C02", "Plonk.Props.WidgetTie", "Plonk.Props.G1Law"]
EXTRA_AUDITS = ['G1Law']
ASSUMPTIONS = ["soundness is relative: KZG knowledge-soundness, the algebraic group model and the Fiat-Shamir heuristic are assumed; "
               "what is proved is the deterministic algebraic core with explicit bad-challenge sets",
               "pairing decided in the trapdoor view"]
TRUSTED = ["dusk-bls12_381 / merlin (re-implemented in the Lean model and compared on every request)"]
THEOREMS_NOTE = "Plonk/Props/C02.lean"

NOOP = "gate 0 0 0 0 0 0 - #0 #0 #0 #0"


def forced_entries(rng, n):
    out = []
    for i in range(n):
        k = i % 6
        if k == 0:   # arithmetic identity violated
            good = "pub 5;w 7;gadd 0 1 1 0 3 - $0 $1 #0;pub 9"
            bad = good + ";setw $2 %s" % hx(rng.fe())
        elif k == 1:  # boolean violated
            good = "pub 5;w 1;bool $1"
            bad = "pub 5;w %s;bool $1" % hx(2 + rng.below(100))
        elif k == 2:  # range violated (value out of range, honest accumulators of the low bits)
            good = "pub 1;w 2d;rangebits 6 $1"
            bad = "pub 1;w %s;rangebits 6 $1" % hx(64 + rng.below(1000))
        elif k == 3:  # logic output forged
            good = "pub 1;w 2d;w 33;xor 4 $1 $2"
            bad = good + ";setw $3 %s" % hx(rng.below(255))
        elif k == 4:  # copy constraint broken: second use re-wired to a witness with another value
            good = "pub 3;w 5;w 6;%s;%s" % (NOOP.replace("#0 #0 #0 #0", "$1 #0 #0 #0"), NOOP.replace("#0 #0 #0 #0", "#0 $1 #0 #0"))
            bad = "pub 3;w 5;w 6;%s;%s" % (NOOP.replace("#0 #0 #0 #0", "$1 #0 #0 #0"), NOOP.replace("#0 #0 #0 #0", "#0 $2 #0 #0"))
        else:        # public input does not match the witness
            good = "pub 5;w 7"
            bad = "pub 5;w 7;setw $0 6"
        out.append("forced 706c6f6e6b || %s || %s" % (good, bad))
    # LONG copy class (one witness in 40 slots over all four columns of unconstrained rows): the instance feeds the slots
    # after split position k from a second witness with another value; k = 16, 32 and random positions
    def slots(pick):
        rows = []
        for r0 in range(0, 40, 4):
            rows.append("gate 0 0 0 0 0 0 - %s" % " ".join(pick(j) for j in range(r0, r0 + 4)))
        return "pub 3;w 5;w 6;" + ";".join(rows)
    # raw logic rows whose LEFT (or right, or output) quad is out of range by +4 while the other operand quad is 0: only the
    # range identity of that quad rejects the assignment (a widget that range-checks the wrong wire lets it through)
    from props.c05 import raw
    for isx in (False, True):
        for (qa, qb, which) in ((1, 0, "a"), (3, 0, "a"), (0, 2, "b"), (0, 0, "a"), (2, 0, "d")):
            a, b, d = rng.fe() % 1000, rng.fe() % 1000, rng.fe() % 1000
            qd = (qa ^ qb) if isx else (qa & qb)
            an, bn, dn, cw = 4 * a + qa, 4 * b + qb, 4 * d + qd, qa * qb
            q = [0] * 11; q[5] = R - 1 if isx else 1; q[8] = R - 1 if isx else 1
            def prog(an_, bn_, dn_):
                return ("pub 3;w %s;w %s;w %s;w %s;w %s;w %s;w 0;w %s;%s;%s" % (hx(a), hx(b), hx(cw), hx(d), hx(an_), hx(bn_), hx(dn_),
                        raw(q, None, ["$1", "$2", "$3", "$4"]), raw([0] * 11, None, ["$5", "$6", "$7", "$8"])))
            good = prog(an, bn, dn)
            bad = prog(an + 4, bn, dn) if which == "a" else (prog(an, bn + 4, dn) if which == "b" else prog(an, bn, dn + 4))
            out.append("forced 706c6f6e6b || %s || %s" % (good, bad))
    # copy constraint between two slots of ONE gate (the witness is used nowhere else): x*x = public, proved with 7 * 1
    out.append("forced 706c6f6e6b || %s || %s" % ("pub 9;w 3;gate 1 0 0 0 0 0 %s $1 $1 #0 #0" % hx(R - 9),
                                                      "pub 9;w 9;w 1;gate 1 0 0 0 0 0 %s $1 $2 #0 #0" % hx(R - 9)))
    for k in [16, 32, 1 + rng.below(39), 1 + rng.below(39)]:
        out.append("forced 706c6f6e6b || %s || %s" % (slots(lambda j: "$1"), slots(lambda j: "$1" if j < k else "$2")))
    return out


def run(ctx, broken):
    rng = SplitMix(ctx.seed * 1000003 + 2)
    r = VerifyRunner(ctx, "C02")
    n = 18 if ctx.tier == "quick" else 180
    ents = forced_entries(rng, n)
    # assignments on which exactly two identity components are non-zero and cancel (props/c05.py cancel_case): a verifier
    # whose widget weights let two components share a power of the separation challenge accepts their forced proof
    from props.c05 import cancel_cases
    cc = cancel_cases(rng, ("range", "logic", "fixed", "var"), 1 if ctx.tier == "quick" else 4)
    for c in cc:
        ents.append("forced 706c6f6e6b || %s || %s" % (c["src"], c["src"]))
    n = len(ents)
    lines = r.emit("emitforced", ents, ctx.seed, 0)
    cs = circuits(rng, 0)
    entries = ["fs 706c6f6e6b || %s" % src for (_, src) in cs[:3 if ctx.tier == "quick" else len(cs)]]
    lines += r.emit("emitv", entries, ctx.seed + 7, 0)
    lines += shifted_openings(ctx, lines)
    lines += unbound_key_commitments(ctx, lines)
    r.run(lines)
    st = r.report()
    st["forced_proofs"] = sum(1 for l in lines if "forced" in l.split(" ")[0])
    if st["forced_proofs"] == 0:
        ctx.violation("forced-prover-hook-missing", {"why": "the force-prove hook produced no proof: the C02 corpus is empty"}, no_input=True)
    st["rule"] = ("the honest proving algorithm forced past its unsatisfied-circuit check (hook verif::set_force_prove, remainder "
                  "dropped) on instances violating an arithmetic row, a boolean, a range, a logic output, a copy constraint (also a long copy class split at positions 16, 32, random) or a "
                  "public input, and on rows whose identity components cancel pairwise (%d instances); forged commitments/evaluations (generator, identity, zero, one, other field), "
                  "field-wise splices of two valid proofs of one circuit, all-identity/all-zero proofs. The verifier must return "
                  "an error and agree with the Lean model verifier." % n)
    return st
