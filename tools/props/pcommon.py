"""Shared request builders for the prover-level properties (C01, C06, C15, C16, C18)."""
from plib import *
from props.builder import Prog, PProg

NOOP = "gate 0 0 0 0 0 0 - #0 #0 #0 #0"


def draw_hex(rng, special=None):
    if special == "zero":
        return "00" * 64
    if special == "one":
        return "01" + "00" * 63
    if special == "minus1":   # r - 1 as a 64-byte little-endian number
        return (R - 1).to_bytes(64, "little").hex()
    return "".join("%02x" % rng.below(256) for _ in range(64))


def srs_draws(rng):
    return " ".join(draw_hex(rng) for _ in range(3))


def prove_line(srs, deg, label, draws, ver, a, b=None, routes=False):
    return "prove %d %s %s %s %d%s || %s || %s" % (deg, srs, label.hex() or "-", ",".join(draws), ver,
                                                    " routes" if routes else "", a, b if b is not None else a)


def sized_program(rng, gates, pi_rows=()):
    """a satisfiable program with exactly `gates` gates (including the 4 of Composer::initialized);
    `pi_rows`: absolute row indices that must carry a public input"""
    p = Prog()
    n = 4
    pi_rows = set(pi_rows)
    while n < gates:
        if n in pi_rows:
            p.pub(boundary_value(rng)); n += 1
        elif gates - n >= 3 and rng.coin(1, 4) and not any(r in pi_rows for r in range(n, n + 3)):
            p.rangebits(2, p.w(rng.below(4))); n += 3
        elif rng.coin(1, 3):
            p.boolean(p.w(rng.below(2))); n += 1
        else:
            p.op(NOOP); n += 1
    return p


def parse_proof(line):
    d = {}
    for t in line.split():
        if "=" in t:
            k, v = t.split("=", 1)
            d[k] = v
    return d


def proof_fields(hexs):
    b = bytes.fromhex(hexs)
    fs = [b[i * 48:(i + 1) * 48] for i in range(11)]
    fs += [b[528 + i * 32:528 + (i + 1) * 32] for i in range(15)]
    return fs
