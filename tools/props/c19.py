"""C19 — FFT and polynomial kernels equal their mathematical definitions."""
from plib import *
from props.common import LineRunner

LEAN_TARGETS = ["Plonk.Props.C19"]
ASSUMPTIONS = ["rayon's par_chunks_mut / par_iter preserve element order (modelled as sequential folds)"]
THEOREMS_NOTE = "Plonk/Props/C19.lean"


def lst(v):
    return ",".join(hx(x) for x in v) if v else "-"


def show_vec(l):
    """the digest the harness / driver print for a vector: length, rolling hash, first three entries"""
    from props.common import hash_list
    l = [x % R for x in l]
    return "n=%d h=%x head=%s" % (len(l), hash_list(l), lst(l[:3]))


def rng_sample_exact(rng, n, m):
    """exactly min(m, n) distinct indices below n"""
    pool = list(range(n)); out = []
    for _ in range(min(m, n)):
        out.append(pool.pop(rng.below(len(pool))))
    return out


def vec(rng, n, kind=0):
    if kind == 1:
        return [0] * n
    if kind == 2:
        return [rng.fe() if i < n // 2 else 0 for i in range(n)]      # trailing zeros
    if kind == 3:
        return [rng.choice([0, 1, R - 1]) for _ in range(n)]
    return [rng.fe() for _ in range(n)]


def py_eval(p, z):
    acc = 0
    for c in reversed(p):
        acc = (acc * z + c) % R
    return acc


def py_trim(p):
    p = [c % R for c in p]
    while p and p[-1] == 0:
        p.pop()
    return p


def py_add(a, b, sign=1):
    n = max(len(a), len(b))
    return py_trim([((a[i] if i < len(a) else 0) + sign * (b[i] if i < len(b) else 0)) % R for i in range(n)])


def py_mul(a, b):
    if not py_trim(a) or not py_trim(b):
        return []
    out = [0] * (len(a) + len(b) - 1)
    for i, x in enumerate(a):
        for j, y in enumerate(b):
            out[i + j] = (out[i + j] + x * y) % R
    return py_trim(out)


def py_ruffini(p, z):
    p = py_trim(p)
    q, k = [], 0
    for c in reversed(p):
        t = (c + k) % R
        q.append(t)
        k = z * t % R
    if q:
        q.pop()
    q.reverse()
    return py_trim(q)


ROOT_OF_UNITY = 0x16a2a19edfe81f20d09b681922c813b4b63683508c2280b93829971f439f0d2b


def py_transform(kind, k, v):
    """the mathematical definition, independent of the Lean model: evaluation of the polynomial with coefficient list `v`
    (any length) on the subgroup / on the coset 7*H; for the inverse kinds, the unique polynomial of degree < n that takes the
    values `v` reduced modulo X^n - 1 (i.e. index i folded onto i mod n)"""
    from props.common import hash_list
    n = 1 << k
    w = pow(ROOT_OF_UNITY, 1 << (32 - k), R)
    folded = [0] * n
    for i, x in enumerate(v):
        folded[i % n] = (folded[i % n] + x) % R
    if kind in ("fft", "cfft"):
        g = 7 if kind == "cfft" else 1
        # evaluation of the ORIGINAL polynomial (not the folded one) at g*w^i; for g = 1 folding does not change the values,
        # for the coset the code scales coefficient i by g^i before folding
        if kind == "cfft":
            scaled = [x * pow(g, i, R) % R for i, x in enumerate(v)]
            folded = [0] * n
            for i, x in enumerate(scaled):
                folded[i % n] = (folded[i % n] + x) % R
        out = [sum(c * pow(w, i * j, R) for j, c in enumerate(folded)) % R for i in range(n)]
    else:
        wi, ni = inv(w), inv(n)
        out = [sum(c * pow(wi, i * j, R) for j, c in enumerate(folded)) * ni % R for i in range(n)]
        if kind == "cifft":
            gi = inv(7)
            out = [x * pow(gi, i, R) % R for i, x in enumerate(out)]
    return "n=%d h=%s head=%s" % (len(out), hx(hash_list(out)), ",".join(hx(x) for x in out[:3]))


def fft_cases(rng, tier):
    out = []
    maxk = 12 if tier == "quick" else 14
    for k in range(0, maxk + 1):
        n = 1 << k
        reps = 2 if (tier == "quick" and k >= 10) else 4
        for rep in range(reps):
            kind = ["fft", "ifft", "cfft", "cifft"][rep % 4]
            ln = rng.choice([n, n, max(1, n - rng.below(n // 2 + 1)), n + 1 + rng.below(n // 2 + 1), 1, max(1, n // 2)])
            if k >= 11:
                ln = rng.choice([n, n - 1, n + 3])
            threads = rng.choice([1, 2, 3, 4, 5, 7, 8, 16, 17]) if k >= 11 else rng.choice([1, 4])
            v = vec(rng, ln, rng.below(5))
            tags = ["fft-" + kind, "len<n" if ln < n else ("len=n" if ln == n else "len>n"), "threads=%d" % threads]
            if k >= 12:
                tags.append("n>=2^12")
            c = {"line": "fft %s %d %d %s" % (kind, n, threads, lst(v)), "tags": tags}
            if k <= 5 and (kind in ("fft", "cfft") or ln <= n):
                c["expect_prefix"] = py_transform(kind, k, v)
            out.append(c)
    # inputs much longer than the domain (reduced modulo X^n - 1): 2n, 2n+1, 3n, 5n+3, for all four transforms
    for k in range(0, 9 if tier == "quick" else 11):
        n = 1 << k
        for ln in (2 * n, 2 * n + 1, 3 * n, 5 * n + 3):
            for kind in (["fft", "cfft"] if tier == "quick" and k > 4 else ["fft", "ifft", "cfft", "cifft"]):
                v = vec(rng, ln, rng.below(2))
                if v[-1] == 0:
                    v[-1] = 1 + rng.below(1000)
                c = {"line": "fft %s %d %d %s" % (kind, n, rng.choice([1, 4]), lst(v)), "tags": ["fft-" + kind, "len>2n"]}
                if k <= 5 and kind in ("fft", "cfft"):     # an evaluation vector longer than the domain has no defined meaning
                    c["expect_prefix"] = py_transform(kind, k, v)
                out.append(c)
    # every pool size across the parallel thresholds
    sizes = [1 << 12] if tier == "quick" else [1 << 11, 1 << 12, 1 << 13, 1 << 14]
    for n in sizes:
        v = vec(rng, n)
        for threads in range(1, 18):
            out.append({"line": "fft fft %d %d %s" % (n, threads, lst(v)), "tags": ["fft-pool-sweep", "threads=%d" % threads]})
    return out


def poly_cases(rng, tier):
    out = []
    n = 60 if tier == "quick" else 600
    for i in range(n):
        la, lb = rng.below(9), rng.below(9)
        a, b = vec(rng, la, rng.below(4)), vec(rng, lb, rng.below(4))
        if rng.coin(1, 5) and la == lb and la > 0:
            b = [(-x) % R for x in a]; b[0] = (b[0] + rng.below(2)) % R      # cancellation of leading coefficients
        z = rng.choice([0, 1, R - 1, rng.fe()])
        for op in ("add", "addassign", "sub", "subassign", "mul"):
            exp = {"add": py_add(a, b), "addassign": py_add(a, b), "sub": py_add(a, b, -1), "subassign": py_add(a, b, -1),
                   "mul": py_mul(a, b)}[op]
            out.append({"line": "poly %s %s %s" % (op, lst(a), lst(b)), "tags": ["poly-" + op], "expect": lst(exp)})
        out.append({"line": "poly eval %s %s" % (lst(a), hx(z)), "tags": ["poly-eval"], "expect": hx(py_eval(py_trim(a), z))})
        out.append({"line": "poly ruffini %s %s" % (lst(a), hx(z)), "tags": ["poly-ruffini"], "expect": lst(py_ruffini(a, z))})
        out.append({"line": "poly scale %s %s" % (lst(a), hx(z)), "tags": ["poly-scale"], "expect": lst(py_trim([x * z for x in a]))})
        out.append({"line": "poly addc %s %s" % (lst(a), hx(z)), "tags": ["poly-addc"]})
        out.append({"line": "poly subc %s %s" % (lst(a), hx(z)), "tags": ["poly-subc"]})
        out.append({"line": "polyscaled %s %s %s" % (lst(a), hx(z), lst(b)), "tags": ["poly-addassign-scaled"],
                    "expect": lst(py_add(a, [x * z % R for x in b]))})
        out.append({"line": "poly degree %s -" % lst(a), "tags": ["poly-degree"]})
    return out


def misc_cases(rng, tier):
    out = []
    for i in range(40 if tier == "quick" else 400):
        ln = rng.below(12) if i % 4 else rng.choice([15, 16, 17, 31, 32, 33, 40, 64, 100])   # also lengths around chunk sizes
        v = [rng.choice([0, 0, 1, R - 1, rng.fe()]) if ln < 15 else rng.choice([rng.fe(), rng.fe(), rng.fe(), 0]) for _ in range(ln)]
        out.append({"line": "binv %s" % lst(v), "tags": ["batch-inversion"],
                    "expect": lst([inv(x) if x else 0 for x in v])})
    for k in range(0, 8 if tier == "quick" else 11):
        n = 1 << k
        w = pow(7, (R - 1) >> k, R) if k else 1
        def lag(tau):
            # definition: L_i(tau) = prod_{j != i} (tau - w^j) / (w^i - w^j); closed form used only as a Python shortcut for
            # tau outside the domain: (tau^n - 1)/n * w^i / (tau - w^i); inside the domain the indicator vector
            if pow(tau, n, R) == 1:
                return [1 if pow(w, i, R) == tau % R else 0 for i in range(n)]
            zn = (pow(tau, n, R) - 1) * inv(n) % R
            return [zn * pow(w, i, R) % R * inv((tau - pow(w, i, R)) % R) % R for i in range(n)]
        for tau in [0, 1, w, pow(w, rng.below(n), R), rng.fe(), 7]:
            out.append({"line": "lagrange %d %s" % (n, hx(tau)), "tags": ["lagrange", "tau-in-domain" if pow(tau, n, R) == 1 else "tau-outside"],
                        "expect": show_vec(lag(tau))})
            out.append({"line": "vanish %d %s" % (n, hx(tau)), "tags": ["vanishing"], "expect": hx(pow(tau, n, R) - 1)})
        out.append({"line": "domain %d" % n, "tags": ["domain"]})
        out.append({"line": "elements %d" % n, "tags": ["domain-elements"]})
        for deg in sorted(set([0, 1, 2, 3, 5, 6, n // 2, n // 2 + 1, n // 4, max(0, n - 1)])):
            if deg < n:
                # definition: X^deg - 1 on the coset 7 * <w>; degrees that do and do not divide the domain size
                out.append({"line": "vcoset %d %d" % (n, deg), "tags": ["vanishing-over-coset", "deg-divides-n" if deg and n % deg == 0 else "deg-not-dividing-n"],
                            "expect": show_vec([(pow(7 * pow(w, i, R) % R, deg, R) - 1) % R for i in range(n)])})
        ev = vec(rng, n, rng.below(4))
        for pt in [rng.fe(), 7, pow(w, rng.below(n), R) if n > 1 else 1]:
            tags = ["barycentric", "point-in-domain" if pow(pt, n, R) == 1 else "point-outside"]
            c = {"line": "bary %d %s %s" % (n, lst(ev), hx(pt)), "tags": tags}
            if pow(pt, n, R) != 1 and len(ev) == n:
                c["expect"] = hx(sum(e * l for e, l in zip(ev, lag(pt))) % R)       # definition: sum_i ev_i * L_i(pt)
            out.append(c)
            m = rng.below(min(n, 5) + 1)
            if n >= 64 and pt != 7:
                m = rng.choice([15, 16, 17, 31, 32, 33, 40, 47, 48, 63])      # many public inputs (chunked batch inversions)
            idx = sorted(set(rng.below(n) for _ in range(m)))
            if m >= 15:
                idx = sorted(rng_sample_exact(rng, n, m))
            roots = [pow(inv(w), i, R) for i in idx]
            vals = [rng.choice([0, rng.fe()]) if m < 15 else rng.choice([rng.fe(), rng.fe(), rng.fe(), 0]) for _ in idx]
            c = {"line": "lpi %d %s %s %s" % (n, lst(roots), lst(vals), hx(pt)), "tags": ["lagrange-and-pi"] + tags[1:]}
            if pow(pt, n, R) != 1:
                lp = lag(pt)
                c["expect"] = "%s %s" % (hx(lp[0]), hx(sum(v_ * lp[i_] for v_, i_ in zip(vals, idx)) % R))
            out.append(c)
    out.append({"line": "domain %d" % (1 << 31), "tags": ["domain-large"]})
    out.append({"line": "domain %d" % ((1 << 31) + 1), "tags": ["domain-too-large"], "expect": "err"})
    return out


def run(ctx, broken):
    rng = SplitMix(ctx.seed * 1000003 + 19)
    r = LineRunner(ctx, "C19")
    r.run(fft_cases(rng, ctx.tier), workers=4)
    r.run(poly_cases(rng, ctx.tier))
    r.run(misc_cases(rng, ctx.tier))
    st = r.report()
    st["rule"] = ("FFT/IFFT/coset variants for every domain size 2^0..2^12 (2^14 thorough), input lengths <, =, > the domain, "
                  "zero / trailing-zero / {0,1,-1} / random vectors, rayon pools 1..17 across the 2^12 and 4-thread switches; "
                  "polynomial add/sub/(assign)/scaled/mul/eval/ruffini/scale/const with cancellation of leading coefficients; "
                  "batch inversion with zeros; Lagrange / vanishing / barycentric / fused lagrange+PI with points inside and outside "
                  "the domain. impl output == Lean code-shaped model; the model checks itself against the O(n^2) definitions "
                  "(spec=ok) for sizes <= 256; polynomial ops also vs. an independent Python schoolbook oracle.")
    return st
